import FcpptModel.Spec.C13
import FcpptProofs.C13.Sets
import FcpptProofs.C13.Arith
import FcpptProofs.C13.Ext
set_option linter.unusedSimpArgs false
/-!
# C13 — property theorems: boxes are half-open point sets

For every dimension `n`, all boxes with integer corners (no bound on the coordinates; inverted and
degenerate boxes included) and all points of ℤ^n.  `Mem b p` is `pos_i ≤ p_i < max_i` for all `i`.
Functions that perform arithmetic in the coordinate type `t` are stated in three regimes: results
representable (then the exact mathematical value), signed and not representable (fault =
undefined behaviour), unsigned (value modulo 2^bits).
-/
namespace Fcppt.C13
variable {n : Nat}

/-! ## membership, intersection, intersects, contains, bounding box -/

/-- `contains_point` is membership in the half-open point set. -/
theorem containsPoint_iff_mem (b : Box n) (p : Vec n) : containsPoint b p = true ↔ Mem b p :=
  containsPoint_iff b p

/-- `intersection` never faults (for any coordinate type). -/
theorem intersection_total (t : Ty) (a b : Box n) : ∃ r, intersection t a b = .ok r := by
  unfold intersection
  split
  · exact ⟨_, rfl⟩
  · exact ⟨_, null_eq t n⟩

/-- The intersection contains exactly the common points — for *all* boxes, empty or inverted ones included. -/
theorem mem_intersection (t : Ty) (a b r : Box n) (h : intersection t a b = .ok r) (p : Vec n) :
    Mem r p ↔ Mem a p ∧ Mem b p := by
  unfold intersection at h
  split at h
  · cases h
    constructor
    · intro hm
      refine ⟨fun i => ?_, fun i => ?_⟩ <;>
      · have := hm i
        simp only [Fin.getElem_fin, initMax_min, initMax_max] at this ⊢
        omega
    · rintro ⟨ha, hb⟩ i
      have := ha i
      have := hb i
      simp only [Fin.getElem_fin, initMax_min, initMax_max] at *
      omega
  · rename_i hni
    rw [null_eq] at h
    cases h
    have hf : intersects a b = false := by simpa using hni
    obtain ⟨i, hi⟩ := (intersects_false_iff a b).1 hf
    have hn : 0 < n := Nat.lt_of_le_of_lt (Nat.zero_le _) i.isLt
    constructor
    · intro hm
      exact absurd hm (not_mem_null hn p)
    · rintro ⟨ha, hb⟩
      exfalso
      have := ha i
      have := hb i
      simp only [Fin.getElem_fin] at *
      omega

/-- When `intersects` is false the result is the null box (all coordinates 0) … -/
theorem intersection_null_of_not_intersects (t : Ty) (a b : Box n) (h : intersects a b = false) :
    intersection t a b = .ok ⟨vzero n, vzero n⟩ := by
  simp [intersection, h, null_eq]

/-- … in particular whenever the two boxes have no common point and are non-empty
    (for non-empty boxes `intersects` is exactly "a common point exists", next theorem). -/
theorem intersects_iff_common_point (a b : Box n) (ha : NonEmpty a) (hb : NonEmpty b) :
    intersects a b = true ↔ ∃ p, Mem a p ∧ Mem b p := by
  have ha' := (nonEmpty_iff a).1 ha
  have hb' := (nonEmpty_iff b).1 hb
  rw [intersects_iff]
  constructor
  · intro h
    refine ⟨Vector.ofFn fun i => Max.max a.min[i] b.min[i], fun i => ?_, fun i => ?_⟩ <;>
    · have := h i
      have := ha' i
      have := hb' i
      simp only [Fin.getElem_fin, Vector.getElem_ofFn] at *
      omega
  · rintro ⟨p, hpa, hpb⟩ i
    have := hpa i
    have := hpb i
    simp only [Fin.getElem_fin] at *
    omega

/-- A common point forces `intersects` (no non-emptiness needed). -/
theorem intersects_of_common_point (a b : Box n) (p : Vec n) (hpa : Mem a p) (hpb : Mem b p) : intersects a b = true := by
  rw [intersects_iff]
  intro i
  have := hpa i
  have := hpb i
  simp only [Fin.getElem_fin] at *
  omega

theorem intersection_null_of_disjoint (t : Ty) (a b : Box n) (ha : NonEmpty a) (hb : NonEmpty b)
    (hd : ¬ ∃ p, Mem a p ∧ Mem b p) : intersection t a b = .ok ⟨vzero n, vzero n⟩ := by
  apply intersection_null_of_not_intersects
  rw [← Bool.not_eq_true, intersects_iff_common_point a b ha hb]
  exact hd

/-- `contains(outer, inner)`, for a non-empty inner box, is the subset relation of the point sets. -/
theorem contains_iff_subset (outer inner : Box n) (hi : NonEmpty inner) :
    contains outer inner = true ↔ Subset inner outer := by
  rw [contains_iff, subset_iff outer inner hi]

/-- `contains` implies subset for every inner box (also empty ones). -/
theorem subset_of_contains (outer inner : Box n) (h : contains outer inner = true) : Subset inner outer := by
  rw [contains_iff] at h
  intro p hp i
  have := h i
  have := hp i
  simp only [Fin.getElem_fin] at *
  omega

/-- The bounding box contains both boxes (as corner-wise `contains`, hence as point sets). -/
theorem extendBox_contains (a b : Box n) :
    contains (extendBox a b) a = true ∧ contains (extendBox a b) b = true := by
  simp only [contains_iff, extendBox]
  refine ⟨fun i => ?_, fun i => ?_⟩ <;>
  · simp only [Fin.getElem_fin, initMax_min, initMax_max]
    omega

theorem extendBox_upper (a b : Box n) : Subset a (extendBox a b) ∧ Subset b (extendBox a b) :=
  ⟨subset_of_contains _ _ (extendBox_contains a b).1, subset_of_contains _ _ (extendBox_contains a b).2⟩

/-- … and it is the least such box: every box whose point set contains both non-empty boxes
    contains the bounding box. -/
theorem extendBox_least (a b c : Box n) (ha : NonEmpty a) (hb : NonEmpty b)
    (hac : Subset a c) (hbc : Subset b c) : contains c (extendBox a b) = true ∧ Subset (extendBox a b) c := by
  have h1 := (subset_iff c a ha).1 hac
  have h2 := (subset_iff c b hb).1 hbc
  have hc : contains c (extendBox a b) = true := by
    rw [contains_iff]
    intro i
    have := h1 i
    have := h2 i
    simp only [Fin.getElem_fin, extendBox, initMax_min, initMax_max] at *
    omega
  exact ⟨hc, subset_of_contains _ _ hc⟩

/-- the bounding box of two non-empty boxes is non-empty -/
theorem extendBox_nonEmpty (a b : Box n) (ha : NonEmpty a) : NonEmpty (extendBox a b) := by
  obtain ⟨p, hp⟩ := ha
  exact ⟨p, (extendBox_upper a b).1 p hp⟩

/-- `extend_bounding_box(box, point)`: the least box that contains `box` corner-wise and has the
    point in its *closed* hull (the point itself is not a member when it lies on or beyond `max`). -/
theorem extendPoint_spec (b : Box n) (p : Vec n) :
    contains (extendPoint b p) b = true ∧ MemClosed (extendPoint b p) p ∧
    ∀ c : Box n, contains c b = true → MemClosed c p → contains c (extendPoint b p) = true := by
  refine ⟨?_, ?_, ?_⟩
  · rw [contains_iff]
    intro i
    simp only [Fin.getElem_fin, extendPoint, initMax_min, initMax_max]
    omega
  · intro i
    simp only [Fin.getElem_fin, extendPoint, initMax_min, initMax_max]
    omega
  · intro c hc hp
    rw [contains_iff] at *
    intro i
    have := hc i
    have := hp i
    simp only [Fin.getElem_fin, extendPoint, initMax_min, initMax_max] at *
    omega

/-- a point inside the box leaves it unchanged -/
theorem extendPoint_of_mem (b : Box n) (p : Vec n) (h : Mem b p) : extendPoint b p = b := by
  apply box_ext <;>
  · intro i
    have := h i
    simp only [Fin.getElem_fin, extendPoint, initMax_min, initMax_max] at *
    omega

/-! ## constructors, `size`, `pos`, `max`, `init_max`, `init_dim`, `null` -/

/-- `Box(pos, size)`: `pos()` is `pos`, `max()` is `pos + size` (sums representable). -/
theorem mkPosSize_spec (t : Ty) (pos sz : Vec n) (h : ∀ i : Fin n, t.Rep (pos[i] + sz[i])) :
    mkPosSize t pos sz = .ok ⟨pos, vadd pos sz⟩ := by
  unfold mkPosSize
  rw [Ty.normV_ok t _ (fun i => by simpa using h i)]
  rfl

theorem mkPosSize_signed_overflow (t : Ty) (hs : t.signed = true) (pos sz : Vec n) (h : ¬ ∀ i : Fin n, t.Rep (pos[i] + sz[i])) :
    mkPosSize t pos sz = .error .signedOverflow := by
  unfold mkPosSize
  rw [Ty.normV_signed_err t hs _ (fun h2 => h fun i => by simpa using h2 i)]
  rfl

theorem mkPosSize_unsigned (t : Ty) (hs : t.signed = false) (pos sz : Vec n) :
    mkPosSize t pos sz = .ok ⟨pos, (vadd pos sz).map (· % 2 ^ t.bits)⟩ := by
  unfold mkPosSize
  rw [Ty.normV_unsigned t hs]
  rfl

/-- the point set of `Box(pos, size)` is `pos ≤ p < pos + size` -/
theorem mem_mkPosSize (t : Ty) (pos sz : Vec n) (b : Box n) (h : ∀ i : Fin n, t.Rep (pos[i] + sz[i]))
    (hb : mkPosSize t pos sz = .ok b) (p : Vec n) :
    Mem b p ↔ ∀ i : Fin n, pos[i] ≤ p[i] ∧ p[i] < pos[i] + sz[i] := by
  rw [mkPosSize_spec t pos sz h] at hb
  cases hb
  simp [Mem]

/-- `size()` is `max - pos` when the differences are representable … -/
theorem size_spec (t : Ty) (b : Box n) (h : ∀ i : Fin n, t.Rep (b.max[i] - b.min[i])) :
    size t b = .ok (vsub b.max b.min) := by
  unfold size
  exact Ty.normV_ok t _ (fun i => by simpa using h i)

/-- … undefined for a signed type otherwise … -/
theorem size_signed_overflow (t : Ty) (hs : t.signed = true) (b : Box n) (h : ¬ ∀ i : Fin n, t.Rep (b.max[i] - b.min[i])) :
    size t b = .error .signedOverflow := by
  unfold size
  exact Ty.normV_signed_err t hs _ (fun h2 => h fun i => by simpa using h2 i)

/-- … and the difference modulo 2^bits for an unsigned type (inverted boxes wrap around). -/
theorem size_unsigned (t : Ty) (hs : t.signed = false) (b : Box n) :
    size t b = .ok ((vsub b.max b.min).map (· % 2 ^ t.bits)) := by
  unfold size
  exact Ty.normV_unsigned t hs _

/-- a non-empty box has positive size in every coordinate, and `p ∈ b ↔ pos ≤ p < pos + size` -/
theorem mem_iff_pos_size (t : Ty) (b : Box n) (s : Vec n) (h : ∀ i : Fin n, t.Rep (b.max[i] - b.min[i]))
    (hs : size t b = .ok s) (p : Vec n) : Mem b p ↔ ∀ i : Fin n, b.min[i] ≤ p[i] ∧ p[i] < b.min[i] + s[i] := by
  rw [size_spec t b h] at hs
  cases hs
  simp only [Mem, Fin.getElem_fin, vsub_get]
  constructor <;>
  · intro hm i
    have := hm i
    omega

/-- `Box(b.pos(), b.size())` is `b` again. -/
theorem mkPosSize_size (t : Ty) (b : Box n) (h : ∀ i : Fin n, t.Rep (b.max[i] - b.min[i])) (hr : b.Rep t) :
    (size t b >>= fun s => mkPosSize t b.min s) = .ok b := by
  rw [size_spec t b h]
  show mkPosSize t b.min (vsub b.max b.min) = _
  rw [mkPosSize_spec]
  · congr 1
    apply box_ext <;> intro i <;> simp
    omega
  · intro i
    have := (hr i).2
    simp only [Fin.getElem_fin, vsub_get] at *
    have e : b.min[i.val] + (b.max[i.val] - b.min[i.val]) = b.max[i.val] := by omega
    rw [e]; exact this

/-- `init_max` builds the box whose corners are the two components of the function. -/
theorem initMax_spec (f : Fin n → Int × Int) (i : Fin n) : (initMax f).min[i] = (f i).1 ∧ (initMax f).max[i] = (f i).2 := by
  simp

theorem initMax_roundtrip (b : Box n) : initMax (fun i => (b.min[i], b.max[i])) = b := by
  apply box_ext <;> intro i <;> simp

/-- `init_dim` is the (pos, size) constructor on the two component vectors. -/
theorem initDim_spec (t : Ty) (f : Fin n → Int × Int) :
    initDim t f = mkPosSize t (Vector.ofFn fun i => (f i).1) (Vector.ofFn fun i => (f i).2) := by
  simp [initDim]

/-- `null` is the box with all corners 0, for every coordinate type; it is empty in dimension ≥ 1. -/
theorem null_spec (t : Ty) (n : Nat) : null t n = .ok ⟨vzero n, vzero n⟩ := null_eq t n

theorem null_empty (hn : 0 < n) : ¬ NonEmpty (⟨vzero n, vzero n⟩ : Box n) := by
  rintro ⟨p, hp⟩
  exact not_mem_null hn p hp

/-! ## `shrink`, `stretch_absolute` -/

theorem shrink_spec (t : Ty) (b : Box n) (v : Vec n)
    (h1 : ∀ i : Fin n, t.Rep (b.min[i] + v[i])) (h2 : ∀ i : Fin n, t.Rep (b.max[i] - v[i])) :
    shrink t b v = .ok ⟨vadd b.min v, vsub b.max v⟩ := by
  unfold shrink
  rw [Ty.normV_ok t _ (fun i => by simpa using h1 i), Ty.normV_ok t _ (fun i => by simpa using h2 i)]
  rfl

theorem stretchAbsolute_spec (t : Ty) (b : Box n) (v : Vec n)
    (h1 : ∀ i : Fin n, t.Rep (b.min[i] - v[i])) (h2 : ∀ i : Fin n, t.Rep (b.max[i] + v[i])) :
    stretchAbsolute t b v = .ok ⟨vsub b.min v, vadd b.max v⟩ := by
  unfold stretchAbsolute
  rw [Ty.normV_ok t _ (fun i => by simpa using h1 i), Ty.normV_ok t _ (fun i => by simpa using h2 i)]
  rfl

theorem shrink_unsigned (t : Ty) (hs : t.signed = false) (b : Box n) (v : Vec n) :
    shrink t b v = .ok ⟨(vadd b.min v).map (· % 2 ^ t.bits), (vsub b.max v).map (· % 2 ^ t.bits)⟩ := by
  unfold shrink
  rw [Ty.normV_unsigned t hs, Ty.normV_unsigned t hs]
  rfl

theorem stretchAbsolute_unsigned (t : Ty) (hs : t.signed = false) (b : Box n) (v : Vec n) :
    stretchAbsolute t b v = .ok ⟨(vsub b.min v).map (· % 2 ^ t.bits), (vadd b.max v).map (· % 2 ^ t.bits)⟩ := by
  unfold stretchAbsolute
  rw [Ty.normV_unsigned t hs, Ty.normV_unsigned t hs]
  rfl

theorem shrink_signed_overflow (t : Ty) (hs : t.signed = true) (b : Box n) (v : Vec n)
    (h : ¬ ((∀ i : Fin n, t.Rep (b.min[i] + v[i])) ∧ ∀ i : Fin n, t.Rep (b.max[i] - v[i]))) :
    shrink t b v = .error .signedOverflow := by
  unfold shrink
  by_cases h1 : ∀ i : Fin n, t.Rep (b.min[i] + v[i])
  · have h2 : ¬ ∀ i : Fin n, t.Rep (b.max[i] - v[i]) := fun h2 => h ⟨h1, h2⟩
    rw [Ty.normV_ok t _ (fun i => by simpa using h1 i), Ty.normV_signed_err t hs _ (fun h3 => h2 fun i => by simpa using h3 i)]
    rfl
  · rw [Ty.normV_signed_err t hs _ (fun h3 => h1 fun i => by simpa using h3 i)]
    rfl

/-- the points of the shrunk box: at distance ≥ `v` from the lower faces and > `v` … from the upper ones -/
theorem mem_shrink (b : Box n) (v p : Vec n) :
    Mem ⟨vadd b.min v, vsub b.max v⟩ p ↔ ∀ i : Fin n, b.min[i] + v[i] ≤ p[i] ∧ p[i] < b.max[i] - v[i] := by
  simp [Mem]

theorem mem_stretchAbsolute (b : Box n) (v p : Vec n) :
    Mem ⟨vsub b.min v, vadd b.max v⟩ p ↔ ∀ i : Fin n, b.min[i] - v[i] ≤ p[i] ∧ p[i] < b.max[i] + v[i] := by
  simp [Mem]

/-- shrinking by non-negative amounts gives a subset, stretching a superset -/
theorem shrink_subset (b : Box n) (v : Vec n) (hv : ∀ i : Fin n, 0 ≤ v[i]) :
    Subset ⟨vadd b.min v, vsub b.max v⟩ b ∧ Subset b ⟨vsub b.min v, vadd b.max v⟩ := by
  refine ⟨fun p hp i => ?_, fun p hp i => ?_⟩ <;>
  · have := hp i
    have := hv i
    simp only [Fin.getElem_fin, vadd_get, vsub_get] at *
    omega

/-- `stretch_absolute(shrink(b, v), v) = b` (no overflow) -/
theorem stretch_shrink (t : Ty) (b : Box n) (v : Vec n) (hr : b.Rep t)
    (h1 : ∀ i : Fin n, t.Rep (b.min[i] + v[i])) (h2 : ∀ i : Fin n, t.Rep (b.max[i] - v[i])) :
    (shrink t b v >>= fun s => stretchAbsolute t s v) = .ok b := by
  rw [shrink_spec t b v h1 h2]
  show stretchAbsolute t ⟨vadd b.min v, vsub b.max v⟩ v = _
  rw [stretchAbsolute_spec]
  · congr 1
    apply box_ext <;> intro i <;> simp <;> omega
  · intro i
    have := (hr i).1
    simp only [Fin.getElem_fin, vadd_get] at *
    have e : b.min[i.val] + v[i.val] - v[i.val] = b.min[i.val] := by omega
    rw [e]; exact this
  · intro i
    have := (hr i).2
    simp only [Fin.getElem_fin, vsub_get] at *
    have e : b.max[i.val] - v[i.val] + v[i.val] = b.max[i.val] := by omega
    rw [e]; exact this

/-- the size shrinks by `2 v` -/
theorem size_shrink (b : Box n) (v : Vec n) (i : Fin n) :
    (vsub (vsub b.max v) (vadd b.min v))[i] = (b.max[i] - b.min[i]) - 2 * v[i] := by
  simp only [Fin.getElem_fin, vadd_get, vsub_get]
  omega

/-! ## `center` -/

/-- For a box with `pos ≤ max`: `center = pos + (max - pos) / 2` (rounded down) … -/
theorem center_spec (t : Ty) (b : Box n) (hr : b.Rep t) (hle : ∀ i : Fin n, b.min[i] ≤ b.max[i])
    (hs : ∀ i : Fin n, t.Rep (b.max[i] - b.min[i])) :
    center t b = .ok (Vector.ofFn fun i => b.min[i] + (b.max[i] - b.min[i]) / 2) := by
  unfold center
  rw [size_spec t b hs]
  simp only [bind, Except.bind]
  rw [seqFn_ok _ (fun i => (b.max[i] - b.min[i]) / 2)]
  · simp only
    have : vadd b.min (Vector.ofFn fun i : Fin n => (b.max[i] - b.min[i]) / 2) =
        Vector.ofFn fun i : Fin n => b.min[i] + (b.max[i] - b.min[i]) / 2 := by
      apply vec_ext; intro i; simp
    rw [this]
    apply Ty.normV_ok
    intro i
    have h1 := hle i
    have := hr i
    simp only [Fin.getElem_fin, Vector.getElem_ofFn] at *
    exact t.rep_between this.1 this.2 (by omega) (by omega)
  · intro i
    have h1 := hle i
    have h2 := hs i
    simp only [Fin.getElem_fin, vsub_get] at *
    have e : Int.tdiv (b.max[i.val] - b.min[i.val]) 2 = (b.max[i.val] - b.min[i.val]) / 2 :=
      Int.tdiv_eq_ediv_of_nonneg (by omega)
    have hrep : t.Rep ((b.max[i.val] - b.min[i.val]) / 2) := t.rep_between t.rep_zero h2 (by omega) (by omega)
    simp [Ty.div, e, t.norm_ok hrep, Except.map, pure, Except.pure]

/-- … it lies in the closed hull, and in the point set itself when the box is non-empty. -/
theorem center_mem (t : Ty) (b : Box n) (hr : b.Rep t) (hne : NonEmpty b)
    (hs : ∀ i : Fin n, t.Rep (b.max[i] - b.min[i])) : ∃ c, center t b = .ok c ∧ Mem b c := by
  have hlt := (nonEmpty_iff b).1 hne
  refine ⟨_, center_spec t b hr (fun i => Int.le_of_lt (hlt i)) hs, fun i => ?_⟩
  have := hlt i
  simp only [Fin.getElem_fin, Vector.getElem_ofFn] at *
  omega

/-! ## `corner_points` -/

/-- `corner_points(b)` lists the 2^n vertices in binary counting order: the `j`-th one takes `max` in the
    coordinates where `j` has a 1 bit (coordinate 0 = least significant) and `pos` elsewhere. -/
theorem cornerPoints_spec (t : Ty) (b : Box n) (hr : b.Rep t) (hs : ∀ i : Fin n, t.Rep (b.max[i] - b.min[i])) :
    cornerPoints t b =
      .ok ((List.range (2 ^ n)).map fun j => Vector.ofFn fun i : Fin n => if j.testBit i then b.max[i] else b.min[i]) := by
  unfold cornerPoints
  rw [bitStrings_eq, mapM_ok _ (fun c => vadd b.min (vmul c (vsub b.max b.min)))]
  · rw [List.map_map]
    congr 1
    apply List.map_congr_left
    intro j _
    apply vec_ext
    intro i
    simp only [Function.comp, bitVec, Fin.getElem_fin, vadd_get, vmul_get, vsub_get, Vector.getElem_ofFn]
    split <;> omega
  · intro c hc
    obtain ⟨j, _, rfl⟩ := List.mem_map.1 hc
    rw [size_spec t b hs]
    simp only [bind, Except.bind]
    have h01 : ∀ i : Fin n, (bitVec n j)[i.val] = 0 ∨ (bitVec n j)[i.val] = 1 := by
      intro i
      simp only [bitVec, Vector.getElem_ofFn]
      split <;> simp
    rw [Ty.normV_ok t (vmul (bitVec n j) (vsub b.max b.min))]
    · simp only
      apply Ty.normV_ok
      intro i
      have := hr i
      simp only [Fin.getElem_fin, vadd_get, vmul_get, vsub_get] at *
      rcases h01 i with h | h <;> rw [h]
      · simpa using this.1
      · have e : b.min[i.val] + 1 * (b.max[i.val] - b.min[i.val]) = b.max[i.val] := by omega
        rw [e]; exact this.2
    · intro i
      have := hs i
      simp only [Fin.getElem_fin, vmul_get, vsub_get] at *
      rcases h01 i with h | h <;> rw [h]
      · simpa using t.rep_zero
      · simpa using this

/-- for an unsigned type no guard on the size is needed: the wrapped product and sum land on the `max` coordinate
    again, also for inverted boxes. -/
theorem cornerPoints_unsigned (t : Ty) (hu : t.signed = false) (b : Box n) (hr : b.Rep t) :
    cornerPoints t b =
      .ok ((List.range (2 ^ n)).map fun j => Vector.ofFn fun i : Fin n => if j.testBit i then b.max[i] else b.min[i]) := by
  unfold cornerPoints
  rw [bitStrings_eq, mapM_ok _ (fun c => ((vadd b.min ((vmul c ((vsub b.max b.min).map (· % 2 ^ t.bits))).map (· % 2 ^ t.bits))).map (· % 2 ^ t.bits)))]
  · rw [List.map_map]
    congr 1
    apply List.map_congr_left
    intro j _
    apply vec_ext
    intro i
    have h1 := t.emod_of_rep hu (hr i).1
    have h2 := t.emod_of_rep hu (hr i).2
    simp only [Function.comp, bitVec, Fin.getElem_fin, vadd_get, vmul_get, vsub_get, Vector.getElem_ofFn, Vector.getElem_map] at *
    split
    · rw [Int.one_mul, Int.emod_emod, Int.add_emod_emod]
      have e : b.min[i.val] + (b.max[i.val] - b.min[i.val]) = b.max[i.val] := by omega
      rw [e, h2]
    · simp [h1]
  · intro c _
    rw [size_unsigned t hu]
    simp only [bind, Except.bind, Ty.normV_unsigned t hu]

/-- there are 2^n corners; the first is `pos`, every corner lies in the closed hull of a box with `pos ≤ max`,
    and each of its coordinates is a coordinate of `pos` or of `max`. -/
theorem cornerPoints_props (t : Ty) (b : Box n) (hr : b.Rep t) (hs : ∀ i : Fin n, t.Rep (b.max[i] - b.min[i])) :
    ∃ l, cornerPoints t b = .ok l ∧ l.length = 2 ^ n ∧ l.head? = some b.min ∧
      (∀ c ∈ l, ∀ i : Fin n, c[i] = b.min[i] ∨ c[i] = b.max[i]) ∧
      ((∀ i : Fin n, b.min[i] ≤ b.max[i]) → ∀ c ∈ l, MemClosed b c) := by
  refine ⟨_, cornerPoints_spec t b hr hs, by simp, ?_, ?_, ?_⟩
  · have : 2 ^ n = (2 ^ n - 1) + 1 := by have := Nat.two_pow_pos n; omega
    rw [this, List.range_succ_eq_map]
    simp only [List.map_cons, List.head?_cons, Option.some.injEq]
    apply vec_ext
    intro i
    simp
  · intro c hc i
    obtain ⟨j, _, rfl⟩ := List.mem_map.1 hc
    simp only [Fin.getElem_fin, Vector.getElem_ofFn]
    split <;> simp
  · intro hle c hc i
    obtain ⟨j, _, rfl⟩ := List.mem_map.1 hc
    have := hle i
    simp only [Fin.getElem_fin, Vector.getElem_ofFn] at *
    split <;> omega

/-- the corner points are exactly the vertices: the points each of whose coordinates is the `pos` or the `max` coordinate. -/
theorem mem_cornerPoints (t : Ty) (b : Box n) (hr : b.Rep t) (hs : ∀ i : Fin n, t.Rep (b.max[i] - b.min[i])) (c : Vec n) :
    (∃ l, cornerPoints t b = .ok l ∧ c ∈ l) ↔ ∀ i : Fin n, c[i] = b.min[i] ∨ c[i] = b.max[i] := by
  rw [cornerPoints_spec t b hr hs]
  constructor
  · rintro ⟨l, hl, hc⟩ i
    cases hl
    obtain ⟨j, _, rfl⟩ := List.mem_map.1 hc
    simp only [Fin.getElem_fin, Vector.getElem_ofFn]
    split <;> simp
  · intro h
    refine ⟨_, rfl, ?_⟩
    obtain ⟨j, hj, hb⟩ := exists_testBit (fun i => if hi : i < n then decide (c[i] ≠ b.min[i]) else false) n
    refine List.mem_map.2 ⟨j, by simpa using hj, ?_⟩
    apply vec_ext
    intro i
    have := h i
    simp only [Fin.getElem_fin, Vector.getElem_ofFn, hb i.val i.isLt, i.isLt, dite_true] at *
    by_cases e : c[i.val] = b.min[i.val]
    · simp [e]
    · simp only [ne_eq, e, not_false_eq_true, decide_true, if_true]
      omega

/-! ## comparison -/

/-- `==` is equality of the two corners (sizes representable). -/
theorem eq_spec (t : Ty) (a b : Box n) (ha : ∀ i : Fin n, t.Rep (a.max[i] - a.min[i]))
    (hb : ∀ i : Fin n, t.Rep (b.max[i] - b.min[i])) : eq t a b = .ok (decide (a = b)) := by
  unfold eq
  by_cases h : a.min = b.min
  · rw [(vecEq_iff _ _).2 h, size_spec t a ha, size_spec t b hb]
    simp only [if_true, bind, Except.bind, pure, Except.pure]
    congr 1
    rw [Bool.eq_iff_iff, vecEq_iff]
    simp only [decide_eq_true_eq]
    constructor
    · intro hv
      apply box_ext
      · intro i; rw [h]
      · intro i
        have := congrArg (fun v : Vec n => v[i]) hv
        have h' := congrArg (fun v : Vec n => v[i]) h
        simp only [Fin.getElem_fin, vsub_get] at *
        omega
    · intro e; rw [e]
  · have : vecEq a.min b.min = false := by
      rw [← Bool.not_eq_true, vecEq_iff]; exact h
    have hne : a ≠ b := fun e => h (by rw [e])
    simp [this, hne, pure, Except.pure]

/-- unsigned: also for inverted boxes, whose sizes wrap around, `==` is equality of the corners
    (the wrapped size together with `pos` still determines `max`). -/
theorem eq_unsigned (t : Ty) (hu : t.signed = false) (a b : Box n) (ha : a.Rep t) (hb : b.Rep t) :
    eq t a b = .ok (decide (a = b)) := by
  unfold eq
  by_cases h : a.min = b.min
  · rw [(vecEq_iff _ _).2 h, size_unsigned t hu, size_unsigned t hu]
    simp only [if_true, bind, Except.bind, pure, Except.pure]
    congr 1
    rw [Bool.eq_iff_iff, vecEq_iff]
    simp only [decide_eq_true_eq]
    constructor
    · intro hv
      apply box_ext
      · intro i; rw [h]
      · intro i
        have h0 := congrArg (fun v : Vec n => v[i]) hv
        have h' := congrArg (fun v : Vec n => v[i]) h
        have h1 := t.emod_of_rep hu (ha i).2
        have h2 := t.emod_of_rep hu (hb i).2
        simp only [Fin.getElem_fin, vsub_get, Vector.getElem_map] at *
        have e1 : ((a.max[i.val] - a.min[i.val]) % 2 ^ t.bits + a.min[i.val]) % 2 ^ t.bits = a.max[i.val] := by
          rw [Int.emod_add_emod]
          have : a.max[i.val] - a.min[i.val] + a.min[i.val] = a.max[i.val] := by omega
          rw [this, h1]
        have e2 : ((b.max[i.val] - b.min[i.val]) % 2 ^ t.bits + b.min[i.val]) % 2 ^ t.bits = b.max[i.val] := by
          rw [Int.emod_add_emod]
          have : b.max[i.val] - b.min[i.val] + b.min[i.val] = b.max[i.val] := by omega
          rw [this, h2]
        rw [← e1, ← e2, h0, h']
    · intro e; rw [e]
  · have : vecEq a.min b.min = false := by
      rw [← Bool.not_eq_true, vecEq_iff]; exact h
    have hne : a ≠ b := fun e => h (by rw [e])
    simp [this, hne, pure, Except.pure]

/-- `!=` is the negation of `==`. -/
theorem ne_spec (t : Ty) (a b : Box n) : ne t a b = (eq t a b).map (!·) := by
  unfold ne
  cases eq t a b <;> rfl

/-- `<` is `std::pair`'s order on (pos, size), both compared lexicographically. -/
theorem lt_spec (t : Ty) (a b : Box n) (ha : ∀ i : Fin n, t.Rep (a.max[i] - a.min[i]))
    (hb : ∀ i : Fin n, t.Rep (b.max[i] - b.min[i])) :
    lt t a b = .ok (pairLt a.min.toList (vsub a.max a.min).toList b.min.toList (vsub b.max b.min).toList) := by
  unfold lt
  rw [size_spec t a ha, size_spec t b hb]
  rfl

/-- the key (pos, size) determines the box -/
theorem key_inj (a b : Box n) (h1 : a.min.toList = b.min.toList)
    (h2 : (vsub a.max a.min).toList = (vsub b.max b.min).toList) : a = b := by
  have e1 : a.min = b.min := Vector.toList_inj.1 h1
  have e2 : vsub a.max a.min = vsub b.max b.min := Vector.toList_inj.1 h2
  apply box_ext
  · intro i; rw [e1]
  · intro i
    have := congrArg (fun v : Vec n => v[i]) e2
    have h' := congrArg (fun v : Vec n => v[i]) e1
    simp only [Fin.getElem_fin, vsub_get] at *
    omega

/-- `<` is a strict total order on boxes compatible with `==`: irreflexive, asymmetric, transitive, and two boxes
    neither of which is smaller are equal. -/
theorem lt_strict_total (t : Ty) (a b c : Box n) (ha : ∀ i : Fin n, t.Rep (a.max[i] - a.min[i]))
    (hb : ∀ i : Fin n, t.Rep (b.max[i] - b.min[i])) (hc : ∀ i : Fin n, t.Rep (c.max[i] - c.min[i])) :
    lt t a a = .ok false ∧
    (lt t a b = .ok true → lt t b a = .ok false) ∧
    (lt t a b = .ok true → lt t b c = .ok true → lt t a c = .ok true) ∧
    (lt t a b = .ok false → lt t b a = .ok false → a = b) := by
  rw [lt_spec t a a ha ha, lt_spec t a b ha hb, lt_spec t b a hb ha, lt_spec t b c hb hc, lt_spec t a c ha hc]
  refine ⟨by rw [pairLt_irrefl], ?_, ?_, ?_⟩
  · intro h
    rw [pairLt_asymm _ _ _ _ (by simpa using h)]
  · intro h1 h2
    rw [pairLt_trans _ _ b.min.toList (vsub b.max b.min).toList _ _ (by simp) (by simp) (by simpa using h1) (by simpa using h2)]
  · intro h1 h2
    obtain ⟨e1, e2⟩ := pairLt_total _ _ _ _ (by simp) (by simp) (Except.ok.inj h1) (Except.ok.inj h2)
    exact key_inj a b e1 e2

/-! ## `interval_distance`, `distance` -/

/-- with all differences representable the function computes `idExact`, its control flow on ℤ … -/
theorem intervalDistance_spec (t : Ty) (i1 i2 : Int × Int) (g : IdGuard t i1 i2) :
    intervalDistance t i1 i2 = .ok (idExact i1 i2) := intervalDistance_exact t i1 i2 g

/-- … for an unsigned type each difference and the final `max` are taken modulo 2^bits. -/
theorem intervalDistance_unsigned (t : Ty) (hs : t.signed = false) (i1 i2 : Int × Int) :
    ∃ d, intervalDistance t i1 i2 = .ok d ∧ 0 ≤ d ∧ d < 2 ^ t.bits := by
  have hp := two_pow_pos t.bits
  have hm : ∀ x : Int, 0 ≤ x % 2 ^ t.bits ∧ x % 2 ^ t.bits < 2 ^ t.bits :=
    fun x => ⟨Int.emod_nonneg _ (by omega), Int.emod_lt_of_pos _ hp⟩
  unfold intervalDistance
  simp only [t.norm_unsigned hs, bind, Except.bind, pure, Except.pure]
  split
  · split
    · exact ⟨_, rfl, (hm _).1, (hm _).2⟩
    · refine ⟨_, rfl, ?_, ?_⟩
      · have := (hm (i1.2 - i2.2)).1; have := (hm (i2.1 - i1.1)).1; omega
      · have := (hm (i1.2 - i2.2)).2; have := (hm (i2.1 - i1.1)).2; omega
  · split
    · exact ⟨_, rfl, (hm _).1, (hm _).2⟩
    · refine ⟨_, rfl, ?_, ?_⟩
      · have := (hm (i2.2 - i1.2)).1; have := (hm (i1.1 - i2.1)).1; omega
      · have := (hm (i2.2 - i1.2)).2; have := (hm (i1.1 - i2.1)).2; omega

/-- Disjoint non-empty intervals: the distance is the gap between them (≥ 0, 0 when they touch). -/
theorem idExact_disjoint (f1 s1 f2 s2 : Int) (h1 : f1 < s1) (h2 : f2 < s2) (hd : s1 ≤ f2 ∨ s2 ≤ f1) :
    idExact (f1, s1) (f2, s2) = Max.max f1 f2 - Min.min s1 s2 ∧ 0 ≤ idExact (f1, s1) (f2, s2) := by
  unfold idExact
  simp only
  split <;> simp only <;> split <;> omega

/-- Partially overlapping intervals (neither contains the other): minus the length of the overlap. -/
theorem idExact_overlap (f1 s1 f2 s2 : Int) (h : f1 < f2 ∧ f2 < s1 ∧ s1 < s2) :
    idExact (f1, s1) (f2, s2) = -(s1 - f2) ∧ idExact (f2, s2) (f1, s1) = -(s1 - f2) := by
  unfold idExact
  simp only
  constructor <;> split <;> simp only <;> split <;> omega

/-- An interval strictly inside another: minus the length of the shorter of the two remaining parts,
    whichever argument order. -/
theorem idExact_nested (f1 s1 f2 s2 : Int) (h : f1 < f2 ∧ f2 < s2 ∧ s2 < s1) :
    idExact (f1, s1) (f2, s2) = -(Min.min (s1 - s2) (f2 - f1)) ∧ idExact (f2, s2) (f1, s1) = -(Min.min (s1 - s2) (f2 - f1)) := by
  unfold idExact
  simp only
  constructor <;> split <;> simp only <;> split <;> omega

/-- A positive distance means a gap; a negative one means the non-empty intervals share a point. -/
theorem idExact_sign (f1 s1 f2 s2 : Int) (h1 : f1 < s1) (h2 : f2 < s2) :
    (0 < idExact (f1, s1) (f2, s2) ↔ s1 < f2 ∨ s2 < f1) ∧
    (idExact (f1, s1) (f2, s2) < 0 → Max.max f1 f2 < Min.min s1 s2) := by
  unfold idExact
  simp only
  constructor
  · split <;> simp only <;> split <;> omega
  · split <;> simp only <;> split <;> omega

/-- `box::distance` applies `interval_distance` to the `i`-th intervals of the two boxes. -/
theorem distance_spec (t : Ty) (a b : Box n) (g : ∀ i : Fin n, IdGuard t (interval a i) (interval b i)) :
    distance t a b = .ok (Vector.ofFn fun i => idExact (a.min[i], a.max[i]) (b.min[i], b.max[i])) := by
  unfold distance
  exact seqFn_ok _ _ (fun i => intervalDistance_exact t _ _ (g i))

/-- one positive coordinate of the distance separates the boxes -/
theorem not_intersects_of_distance_pos (a b : Box n) (ha : NonEmpty a) (hb : NonEmpty b) (i : Fin n)
    (h : 0 < idExact (a.min[i], a.max[i]) (b.min[i], b.max[i])) : intersects a b = false := by
  have ha' := (nonEmpty_iff a).1 ha i
  have hb' := (nonEmpty_iff b).1 hb i
  rw [intersects_false_iff]
  refine ⟨i, ?_⟩
  have := ((idExact_sign _ _ _ _ ha' hb').1).1 h
  omega

/-- all coordinates negative: the boxes intersect -/
theorem intersects_of_distance_neg (a b : Box n) (ha : NonEmpty a) (hb : NonEmpty b)
    (h : ∀ i : Fin n, idExact (a.min[i], a.max[i]) (b.min[i], b.max[i]) < 0) : intersects a b = true := by
  rw [intersects_iff]
  intro i
  have ha' := (nonEmpty_iff a).1 ha i
  have hb' := (nonEmpty_iff b).1 hb i
  have := (idExact_sign _ _ _ _ ha' hb').2 (h i)
  omega

/-! # Extension round: laws, mutable accessors, statement sequences, loops, neighbouring functions -/
/-! ## algebraic laws of `intersects`, `intersection`, `extend_bounding_box` -/

theorem intersects_comm (a b : Box n) : intersects a b = intersects b a := by
  rw [Bool.eq_iff_iff, intersects_iff, intersects_iff]
  constructor <;> intro h i <;> exact ⟨(h i).2, (h i).1⟩

/-- `intersection` does not depend on the order of its arguments (as a box, not only as a point set). -/
theorem intersection_comm (t : Ty) (a b : Box n) : intersection t a b = intersection t b a := by
  unfold intersection
  rw [intersects_comm a b]
  split
  · congr 1
    apply box_ext <;> intro i <;> simp only [Fin.getElem_fin, initMax_min, initMax_max] <;> omega
  · rfl

/-- `intersects(a, a)` says that `a` is non-empty … -/
theorem intersects_self_iff (a : Box n) : intersects a a = true ↔ NonEmpty a := by
  rw [intersects_iff, nonEmpty_iff]
  constructor
  · intro h i; exact (h i).1
  · intro h i; exact ⟨h i, h i⟩

/-- … and then `intersection(a, a)` is `a`; for an empty `a` it is the null box. -/
theorem intersection_self (t : Ty) (a : Box n) :
    intersection t a a = .ok (if intersects a a then a else ⟨vzero n, vzero n⟩) := by
  unfold intersection
  split
  · congr 1
    apply box_ext <;> intro i <;> simp only [Fin.getElem_fin, initMax_min, initMax_max] <;> omega
  · exact null_eq t n

/-- a non-empty box contained in `a` is its own intersection with `a` -/
theorem intersection_of_contains (t : Ty) (a b : Box n) (hb : NonEmpty b) (h : contains a b = true) :
    intersection t a b = .ok b := by
  have hc := (contains_iff a b).1 h
  have hne := (nonEmpty_iff b).1 hb
  have hi : intersects a b = true := by
    rw [intersects_iff]
    intro i
    have := hc i
    have := hne i
    simp only [Fin.getElem_fin] at *
    omega
  unfold intersection
  rw [hi]
  simp only [if_true]
  congr 1
  apply box_ext <;> intro i <;> have := hc i <;> simp only [Fin.getElem_fin, initMax_min, initMax_max] at * <;> omega

theorem extendBox_comm (a b : Box n) : extendBox a b = extendBox b a := by
  apply box_ext <;> intro i <;> simp only [Fin.getElem_fin, extendBox, initMax_min, initMax_max] <;> omega

theorem extendBox_self (a : Box n) : extendBox a a = a := by
  apply box_ext <;> intro i <;> simp only [Fin.getElem_fin, extendBox, initMax_min, initMax_max] <;> omega

theorem extendBox_assoc (a b c : Box n) : extendBox (extendBox a b) c = extendBox a (extendBox b c) := by
  apply box_ext <;> intro i <;> simp only [Fin.getElem_fin, extendBox, initMax_min, initMax_max] <;> omega

/-- a box that is contained corner-wise adds nothing -/
theorem extendBox_of_contains (a b : Box n) (h : contains a b = true) : extendBox a b = a := by
  have hc := (contains_iff a b).1 h
  apply box_ext <;> intro i <;> have := hc i <;>
    simp only [Fin.getElem_fin, extendBox, initMax_min, initMax_max] at * <;> omega

/-- extending by a point is extending by the degenerate box at that point -/
theorem extendPoint_eq_extendBox (b : Box n) (p : Vec n) : extendPoint b p = extendBox b ⟨p, p⟩ := by
  apply box_ext <;> intro i <;> simp only [Fin.getElem_fin, extendBox, extendPoint, initMax_min, initMax_max] <;> omega

/-! ## assignment through the mutable `pos()` / `max()` -/

/-- `b.pos() = v` replaces the minimum corner and leaves `max()` alone: the box is *not* moved,
    its size changes to `max - v`. -/
theorem setPos_spec (b : Box n) (v : Vec n) : (setPos b v).min = v ∧ (setPos b v).max = b.max := ⟨rfl, rfl⟩

theorem setMax_spec (b : Box n) (v : Vec n) : (setMax b v).min = b.min ∧ (setMax b v).max = v := ⟨rfl, rfl⟩

theorem mem_setPos (b : Box n) (v p : Vec n) : Mem (setPos b v) p ↔ ∀ i : Fin n, v[i] ≤ p[i] ∧ p[i] < b.max[i] := Iff.rfl

theorem mem_setMax (b : Box n) (v p : Vec n) : Mem (setMax b v) p ↔ ∀ i : Fin n, b.min[i] ≤ p[i] ∧ p[i] < v[i] := Iff.rfl

theorem size_setPos (t : Ty) (b : Box n) (v : Vec n) (h : ∀ i : Fin n, t.Rep (b.max[i] - v[i])) :
    size t (setPos b v) = .ok (vsub b.max v) := size_spec t (setPos b v) h

/-- writing both corners back (also through a `no_init` box) reproduces the box -/
theorem setMax_setPos_self (b : Box n) : setMax (setPos b b.min) b.max = b := rfl

theorem setPos_setMax_comm (b : Box n) (v w : Vec n) : setPos (setMax b w) v = setMax (setPos b v) w := rfl

/-! ## statement sequences -/

theorem run_append (t : Ty) (s : St n) (p q : List Instr) :
    run t s (p ++ q) = run t s p >>= fun s' => run t s' q := by
  induction p generalizing s with
  | nil => rfl
  | cons i p ih =>
    simp only [List.cons_append, run]
    cases step t s i with
    | error e => rfl
    | ok s' => exact ih s'

/-- self-swap, self-assignment, self-move-assignment and the round trip through a `no_init` box leave everything unchanged -/
theorem step_identity (t : Ty) (s : St n) (i : Instr) (h : i = .ss ∨ i = .sa ∨ i = .sm ∨ i = .ni) : step t s i = .ok s := by
  rcases h with h | h | h | h <;> subst h <;> rfl

/-- swapping twice (two objects, or the two corners of one object) restores the state -/
theorem run_swap_swap (t : Ty) (s : St n) : run t s [.sw, .sw] = .ok s ∧ run t s [.sc, .sc] = .ok s := ⟨rfl, rfl⟩

/-- save `pos()`, overwrite it, restore it -/
theorem run_save_restore (t : Ty) (s : St n) : run t s [.vp, .pm, .pv] = .ok { s with v := s.a.min } := rfl

/-- only `swap(A, B)` writes to `B` (in particular `A = std::move(B)` leaves `B` as it was) -/
theorem run_b_unchanged (t : Ty) (p : List Instr) (hp : ∀ i ∈ p, i ≠ Instr.sw) (s s' : St n) (h : run t s p = .ok s') :
    s'.b = s.b := by
  induction p generalizing s with
  | nil => cases h; rfl
  | cons i p ih =>
    simp only [run] at h
    cases hs : step t s i with
    | error e => rw [hs] at h; cases h
    | ok s1 =>
      rw [hs] at h
      have h1 := ih (fun j hj => hp j (List.mem_cons_of_mem _ hj)) s1 h
      have hi : i ≠ Instr.sw := hp i List.mem_cons_self
      have : s1.b = s.b := by
        cases i <;> simp only [step, pure, Except.pure, bind, Except.bind] at hs <;> try (cases hs; rfl)
        all_goals first
          | exact absurd rfl hi
          | (split at hs <;> cases hs <;> rfl)
          | (split at hs <;> try cases hs) <;> rfl
          | (split at hs <;> try cases hs) <;> (split at hs <;> try cases hs) <;> rfl
      rw [h1, this]

/-! ## accumulation loops -/

/-- `for (p : ps) b = extend_bounding_box(b, p);` yields the least box that contains `b` corner-wise and has every
    point of the list in its closed hull — for every list, in every dimension. -/
theorem foldPoints_spec (b : Box n) (ps : List (Vec n)) :
    contains (foldPoints b ps) b = true ∧ (∀ p ∈ ps, MemClosed (foldPoints b ps) p) ∧
    ∀ c : Box n, contains c b = true → (∀ p ∈ ps, MemClosed c p) → contains c (foldPoints b ps) = true := by
  induction ps generalizing b with
  | nil =>
    refine ⟨?_, by simp, fun c hc _ => hc⟩
    rw [contains_iff]; intro i; exact ⟨Int.le_refl _, Int.le_refl _⟩
  | cons q ps ih =>
    obtain ⟨h1, h2, h3⟩ := ih (extendPoint b q)
    obtain ⟨e1, e2, e3⟩ := extendPoint_spec b q
    have hfold : foldPoints b (q :: ps) = foldPoints (extendPoint b q) ps := rfl
    rw [hfold]
    refine ⟨?_, ?_, ?_⟩
    · rw [contains_iff] at *
      intro i
      have := h1 i; have := e1 i
      simp only [Fin.getElem_fin] at *
      omega
    · intro p hp
      rcases List.mem_cons.1 hp with rfl | hp
      · intro i
        have := (contains_iff _ _).1 h1 i
        have := e2 i
        simp only [Fin.getElem_fin] at *
        omega
      · exact h2 p hp
    · intro c hc hps
      exact h3 c (e3 c hc (hps q List.mem_cons_self)) (fun p hp => hps p (List.mem_cons_of_mem _ hp))

/-- `for (b : bs) a = extend_bounding_box(a, b);` contains every box of the list (and `a`) and is contained in every box
    that does. -/
theorem foldBoxes_spec (a : Box n) (bs : List (Box n)) :
    contains (foldBoxes a bs) a = true ∧ (∀ b ∈ bs, contains (foldBoxes a bs) b = true) ∧
    ∀ c : Box n, contains c a = true → (∀ b ∈ bs, contains c b = true) → contains c (foldBoxes a bs) = true := by
  induction bs generalizing a with
  | nil =>
    refine ⟨?_, by simp, fun c hc _ => hc⟩
    rw [contains_iff]; intro i; exact ⟨Int.le_refl _, Int.le_refl _⟩
  | cons q bs ih =>
    obtain ⟨h1, h2, h3⟩ := ih (extendBox a q)
    obtain ⟨e1, e2⟩ := extendBox_contains a q
    have hfold : foldBoxes a (q :: bs) = foldBoxes (extendBox a q) bs := rfl
    rw [hfold]
    have trans : ∀ x : Box n, contains (extendBox a q) x = true → contains (foldBoxes (extendBox a q) bs) x = true := by
      intro x hx
      rw [contains_iff] at *
      intro i
      have := h1 i; have := hx i
      simp only [Fin.getElem_fin] at *
      omega
    refine ⟨trans a e1, ?_, ?_⟩
    · intro b hb
      rcases List.mem_cons.1 hb with rfl | hb
      · exact trans _ e2
      · exact h2 b hb
    · intro c hc hbs
      refine h3 c ?_ (fun b hb => hbs b (List.mem_cons_of_mem _ hb))
      have hq := hbs q List.mem_cons_self
      rw [contains_iff] at *
      intro i
      have := hc i; have := hq i
      simp only [Fin.getElem_fin, extendBox, initMax_min, initMax_max] at *
      omega

/-- as point sets: the accumulated bounding box of non-empty boxes is the smallest box containing all of them -/
theorem foldBoxes_least (a : Box n) (bs : List (Box n)) (c : Box n) (ha : NonEmpty a) (hbs : ∀ b ∈ bs, NonEmpty b)
    (hac : Subset a c) (hbc : ∀ b ∈ bs, Subset b c) :
    Subset a (foldBoxes a bs) ∧ (∀ b ∈ bs, Subset b (foldBoxes a bs)) ∧ Subset (foldBoxes a bs) c := by
  obtain ⟨h1, h2, h3⟩ := foldBoxes_spec a bs
  refine ⟨subset_of_contains _ _ h1, fun b hb => subset_of_contains _ _ (h2 b hb), ?_⟩
  apply subset_of_contains
  apply h3
  · rw [contains_iff]; exact (subset_iff c a ha).1 hac
  · intro b hb
    rw [contains_iff]; exact (subset_iff c b (hbs b hb)).1 (hbc b hb)

/-- the order in which the boxes are accumulated does not matter -/
theorem foldBoxes_perm (a : Box n) (bs cs : List (Box n)) (h : bs.Perm cs) : foldBoxes a bs = foldBoxes a cs := by
  unfold foldBoxes
  induction h generalizing a with
  | nil => rfl
  | cons x _ ih => exact ih (extendBox a x)
  | swap x y l =>
    simp only [List.foldl_cons]
    rw [extendBox_assoc, extendBox_comm y x, ← extendBox_assoc]
  | trans _ _ ih1 ih2 => rw [ih1, ih2]

/-- `for (b : bs) a = intersection(a, b);` never faults, and its points are exactly the points common to all boxes -/
theorem mem_foldIntersection (t : Ty) (a : Box n) (bs : List (Box n)) :
    ∃ r, foldIntersection t a bs = .ok r ∧ ∀ p, Mem r p ↔ (Mem a p ∧ ∀ b ∈ bs, Mem b p) := by
  induction bs generalizing a with
  | nil => exact ⟨a, rfl, fun p => by simp⟩
  | cons b bs ih =>
    obtain ⟨r0, hr0⟩ := intersection_total t a b
    obtain ⟨r, hr, hm⟩ := ih r0
    refine ⟨r, ?_, fun p => ?_⟩
    · simp only [foldIntersection, hr0, bind, Except.bind]; exact hr
    · rw [hm p, mem_intersection t a b r0 hr0 p]
      simp only [List.mem_cons, forall_eq_or_imp]
      exact and_assoc

/-! ## `center` in general, `stretch_relative` -/

/-- `center` of any box whose corners and size are values of the type — inverted boxes included:
    `pos + (max - pos) / 2` with C++'s division (rounding towards zero). -/
theorem center_general (t : Ty) (b : Box n) (hr : b.Rep t) (hs : ∀ i : Fin n, t.Rep (b.max[i] - b.min[i])) :
    center t b = .ok (Vector.ofFn fun i => b.min[i] + Int.tdiv (b.max[i] - b.min[i]) 2) := by
  have hh := halfV_ok t (vsub b.max b.min) (fun i => by simpa using hs i)
  simp only [halfV, bind, Except.bind] at hh
  unfold center
  rw [size_spec t b hs]
  simp only [bind, Except.bind]
  rw [hh]
  simp only
  have : vadd b.min (Vector.ofFn fun i : Fin n => Int.tdiv (vsub b.max b.min)[i] 2) =
      Vector.ofFn fun i : Fin n => b.min[i] + Int.tdiv (b.max[i] - b.min[i]) 2 := by
    apply vec_ext; intro i; simp
  rw [this]
  apply Ty.normV_ok
  intro i
  have := hr i
  obtain ⟨b1, b2⟩ := tdiv2_bounds (b.max[i] - b.min[i])
  simp only [Fin.getElem_fin, Vector.getElem_ofFn] at *
  by_cases h0 : 0 ≤ b.max[i.val] - b.min[i.val]
  · exact t.rep_between this.1 this.2 (by have := b1 h0; omega) (by have := b1 h0; omega)
  · exact t.rep_between this.2 this.1 (by have := b2 (by omega); omega) (by have := b2 (by omega); omega)

/-- `stretch_relative(b, f)`: the box of size `d = size * f` around the centre, i.e. with
    `pos = center - d / 2` and `max = pos + d` (all intermediate values representable). -/
theorem stretchRelative_spec (t : Ty) (b : Box n) (f c : Vec n)
    (hs : ∀ i : Fin n, t.Rep (b.max[i] - b.min[i]))
    (hd : ∀ i : Fin n, t.Rep ((b.max[i] - b.min[i]) * f[i]))
    (hc : center t b = .ok c)
    (hp : ∀ i : Fin n, t.Rep (c[i] - Int.tdiv ((b.max[i] - b.min[i]) * f[i]) 2))
    (hm : ∀ i : Fin n, t.Rep (c[i] - Int.tdiv ((b.max[i] - b.min[i]) * f[i]) 2 + (b.max[i] - b.min[i]) * f[i])) :
    stretchRelative t b f =
      .ok ⟨Vector.ofFn fun i => c[i] - Int.tdiv ((b.max[i] - b.min[i]) * f[i]) 2,
           Vector.ofFn fun i => c[i] - Int.tdiv ((b.max[i] - b.min[i]) * f[i]) 2 + (b.max[i] - b.min[i]) * f[i]⟩ := by
  unfold stretchRelative
  rw [size_spec t b hs, hc]
  simp only [bind, Except.bind]
  rw [Ty.normV_ok t _ (fun i => by simpa using hd i)]
  simp only
  rw [halfV_ok t _ (fun i => by simpa using hd i)]
  simp only
  have e1 : vsub c (Vector.ofFn fun i : Fin n => Int.tdiv (vmul (vsub b.max b.min) f)[i] 2) =
      Vector.ofFn fun i : Fin n => c[i] - Int.tdiv ((b.max[i] - b.min[i]) * f[i]) 2 := by
    apply vec_ext; intro i; simp
  rw [e1, Ty.normV_ok t _ (fun i => by simpa using hp i)]
  simp only
  rw [mkPosSize_spec t _ _ (fun i => by simpa using hm i)]
  congr 1
  apply box_ext <;> intro i <;> simp

/-- the factor 1 gives the box back (also for odd sizes: the same rounded half is added and subtracted) -/
theorem stretchRelative_one (t : Ty) (b : Box n) (hr : b.Rep t) (hs : ∀ i : Fin n, t.Rep (b.max[i] - b.min[i])) :
    stretchRelative t b (Vector.replicate n 1) = .ok b := by
  have hc := center_general t b hr hs
  rw [stretchRelative_spec t b _ _ hs (fun i => by simpa using hs i) hc]
  · congr 1
    apply box_ext <;> intro i <;> simp <;> omega
  · intro i
    have := (hr i).1
    simp only [Fin.getElem_fin, Vector.getElem_ofFn, Vector.getElem_replicate, Int.mul_one] at *
    have e : b.min[i.val] + (b.max[i.val] - b.min[i.val]).tdiv 2 - (b.max[i.val] - b.min[i.val]).tdiv 2 = b.min[i.val] := by omega
    rw [e]; exact this
  · intro i
    have := (hr i).2
    simp only [Fin.getElem_fin, Vector.getElem_ofFn, Vector.getElem_replicate, Int.mul_one] at *
    have e : b.min[i.val] + (b.max[i.val] - b.min[i.val]).tdiv 2 - (b.max[i.val] - b.min[i.val]).tdiv 2 +
        (b.max[i.val] - b.min[i.val]) = b.max[i.val] := by omega
    rw [e]; exact this

/-! ## `structure_cast` -/

/-- a box all of whose coordinates and sizes are values of both types is converted to itself … -/
theorem structureCast_spec (src dst : Ty) (hb : 0 < dst.bits) (b : Box n)
    (hs : ∀ i : Fin n, src.Rep (b.max[i] - b.min[i])) (hr : b.Rep dst) (hd : ∀ i : Fin n, dst.Rep (b.max[i] - b.min[i])) :
    structureCast src dst b = .ok b := by
  unfold structureCast
  rw [size_spec src b hs]
  simp only [bind, Except.bind]
  have e1 : b.min.map dst.wrap = b.min := by
    apply vec_ext; intro i; simp only [Fin.getElem_fin, Vector.getElem_map]; exact dst.wrap_of_rep hb (hr i).1
  have e2 : (vsub b.max b.min).map dst.wrap = vsub b.max b.min := by
    apply vec_ext; intro i
    simp only [Fin.getElem_fin, Vector.getElem_map]
    exact dst.wrap_of_rep hb (by simpa using hd i)
  rw [e1, e2, mkPosSize_spec]
  · congr 1
    apply box_ext <;> intro i <;> simp
    omega
  · intro i
    have := (hr i).2
    simp only [Fin.getElem_fin, vsub_get] at *
    have e : b.min[i.val] + (b.max[i.val] - b.min[i.val]) = b.max[i.val] := by omega
    rw [e]; exact this

/-- … and a conversion to an unsigned type reduces both corners modulo 2^bits (a box with negative coordinates
    wraps around; position and size wrap separately and their sum lands on the wrapped `max`). -/
theorem structureCast_unsigned (src dst : Ty) (hu : dst.signed = false) (b : Box n)
    (hs : ∀ i : Fin n, src.Rep (b.max[i] - b.min[i])) :
    structureCast src dst b = .ok ⟨b.min.map (· % 2 ^ dst.bits), b.max.map (· % 2 ^ dst.bits)⟩ := by
  unfold structureCast
  rw [size_spec src b hs]
  simp only [bind, Except.bind]
  rw [mkPosSize_unsigned dst hu]
  have hw : dst.wrap = (· % 2 ^ dst.bits) := by funext x; simp [Ty.wrap, hu]
  rw [hw]
  congr 1
  apply box_ext <;> intro i <;> simp only [Fin.getElem_fin, Vector.getElem_map, vadd_get, vsub_get]
  rw [← Int.add_emod]
  congr 1
  omega

/-! ## unsigned coordinate types: the statements that also hold for wrapped sizes -/

/-- `Box(b.pos(), b.size())` is `b` again for every box of an unsigned type, inverted ones (wrapped size) included -/
theorem mkPosSize_size_unsigned (t : Ty) (hu : t.signed = false) (b : Box n) (hr : b.Rep t) :
    (size t b >>= fun s => mkPosSize t b.min s) = .ok b := by
  rw [size_unsigned t hu]
  show mkPosSize t b.min _ = _
  rw [mkPosSize_unsigned t hu]
  congr 1
  apply box_ext <;> intro i <;> simp only [Fin.getElem_fin, Vector.getElem_map, vadd_get, vsub_get]
  rw [Int.add_emod_emod]
  have e : b.min[i.val] + (b.max[i.val] - b.min[i.val]) = b.max[i.val] := by omega
  rw [e]
  exact t.emod_of_rep hu (hr i).2

/-- `stretch_absolute(shrink(b, v), v) = b` for every box and vector of an unsigned type -/
theorem stretch_shrink_unsigned (t : Ty) (hu : t.signed = false) (b : Box n) (v : Vec n) (hr : b.Rep t) :
    (shrink t b v >>= fun s => stretchAbsolute t s v) = .ok b := by
  rw [shrink_unsigned t hu]
  show stretchAbsolute t _ v = _
  rw [stretchAbsolute_unsigned t hu]
  congr 1
  apply box_ext <;> intro i <;> simp only [Fin.getElem_fin, Vector.getElem_map, vadd_get, vsub_get]
  · rw [Int.emod_sub_emod]
    have e : b.min[i.val] + v[i.val] - v[i.val] = b.min[i.val] := by omega
    rw [e]
    exact t.emod_of_rep hu (hr i).1
  · rw [Int.emod_add_emod]
    have e : b.max[i.val] - v[i.val] + v[i.val] = b.max[i.val] := by omega
    rw [e]
    exact t.emod_of_rep hu (hr i).2

/-- the key (pos, wrapped size) still determines a box of an unsigned type -/
theorem key_inj_unsigned (t : Ty) (hu : t.signed = false) (a b : Box n) (ha : a.Rep t) (hb : b.Rep t)
    (h1 : a.min.toList = b.min.toList)
    (h2 : ((vsub a.max a.min).map (· % 2 ^ t.bits)).toList = ((vsub b.max b.min).map (· % 2 ^ t.bits)).toList) : a = b := by
  have e1 : a.min = b.min := Vector.toList_inj.1 h1
  have e2 := Vector.toList_inj.1 h2
  have h := eq_unsigned t hu a b ha hb
  unfold eq at h
  rw [(vecEq_iff _ _).2 e1, size_unsigned t hu, size_unsigned t hu] at h
  simp only [if_true, bind, Except.bind, pure, Except.pure, (vecEq_iff _ _).2 e2] at h
  have := Except.ok.inj h
  simpa using this.symm

/-- `<` on boxes of an unsigned type is the order of `std::pair` on (pos, size modulo 2^bits) and is a strict total order
    on all boxes, inverted ones included. -/
theorem lt_strict_total_unsigned (t : Ty) (hu : t.signed = false) (a b c : Box n) (ha : a.Rep t) (hb : b.Rep t) :
    lt t a b = .ok (pairLt a.min.toList ((vsub a.max a.min).map (· % 2 ^ t.bits)).toList
                           b.min.toList ((vsub b.max b.min).map (· % 2 ^ t.bits)).toList) ∧
    lt t a a = .ok false ∧
    (lt t a b = .ok true → lt t b a = .ok false) ∧
    (lt t a b = .ok true → lt t b c = .ok true → lt t a c = .ok true) ∧
    (lt t a b = .ok false → lt t b a = .ok false → a = b) := by
  have key : ∀ x y : Box n, lt t x y = .ok (pairLt x.min.toList ((vsub x.max x.min).map (· % 2 ^ t.bits)).toList
      y.min.toList ((vsub y.max y.min).map (· % 2 ^ t.bits)).toList) := by
    intro x y
    unfold lt
    rw [size_unsigned t hu, size_unsigned t hu]
    rfl
  rw [key a b, key a a, key b a, key b c, key a c]
  refine ⟨rfl, by rw [pairLt_irrefl], ?_, ?_, ?_⟩
  · intro h
    rw [pairLt_asymm _ _ _ _ (by simpa using h)]
  · intro h1 h2
    rw [pairLt_trans _ _ b.min.toList ((vsub b.max b.min).map (· % 2 ^ t.bits)).toList _ _ (by simp) (by simp)
      (by simpa using h1) (by simpa using h2)]
  · intro h1 h2
    obtain ⟨e1, e2⟩ := pairLt_total _ _ _ _ (by simp) (by simp) (Except.ok.inj h1) (Except.ok.inj h2)
    exact key_inj_unsigned t hu a b ha hb e1 e2

/-- with an unsigned coordinate type no statement sequence runs into undefined behaviour -/
theorem run_total_unsigned (t : Ty) (hu : t.signed = false) (p : List Instr) (s : St n) : ∃ s', run t s p = .ok s' := by
  have hsize : ∀ b : Box n, ∃ v, size t b = .ok v := fun b => ⟨_, size_unsigned t hu b⟩
  have hhalf : ∀ v : Vec n, ∃ w, halfV t v = .ok w := by
    intro v
    refine ⟨Vector.ofFn fun i => Int.tdiv v[i] 2 % 2 ^ t.bits, ?_⟩
    unfold halfV
    apply seqFn_ok
    intro i
    simp [Ty.div, t.norm_unsigned hu, Except.map, pure, Except.pure, bind, Except.bind]
  have hcenter : ∀ b : Box n, ∃ c, center t b = .ok c := by
    intro b
    obtain ⟨v, hv⟩ := hsize b
    obtain ⟨w, hw⟩ := hhalf v
    refine ⟨(vadd b.min w).map (· % 2 ^ t.bits), ?_⟩
    simp only [halfV, bind, Except.bind] at hw
    unfold center
    rw [hv]
    simp only [bind, Except.bind]
    rw [hw]
    exact Ty.normV_unsigned t hu _
  induction p generalizing s with
  | nil => exact ⟨s, rfl⟩
  | cons i p ih =>
    have hstep : ∃ s1, step t s i = .ok s1 := by
      cases i <;> simp only [step, pure, Except.pure] <;> try exact ⟨_, rfl⟩
      · obtain ⟨r, hr⟩ := intersection_total t s.a s.b
        exact ⟨_, by rw [hr]; rfl⟩
      · exact ⟨_, by rw [shrink_unsigned t hu]; rfl⟩
      · exact ⟨_, by rw [stretchAbsolute_unsigned t hu]; rfl⟩
      · exact ⟨_, by rw [shrink_unsigned t hu]; rfl⟩
      · exact ⟨_, by rw [stretchAbsolute_unsigned t hu]; rfl⟩
      · exact ⟨_, by rw [size_unsigned t hu]; simp only [bind, Except.bind]; rw [mkPosSize_unsigned t hu]⟩
      · obtain ⟨c, hc⟩ := hcenter s.a
        exact ⟨_, by rw [hc]; rfl⟩
      · split <;> exact ⟨_, rfl⟩
      · obtain ⟨r, hr⟩ := intersection_total t s.a s.a
        exact ⟨_, by rw [hr]; rfl⟩
    obtain ⟨s1, h1⟩ := hstep
    obtain ⟨s', h'⟩ := ih s1
    exact ⟨s', by simp only [run, h1, bind, Except.bind]; exact h'⟩

/-! ## `operator<<`, dimension 0 -/

/-- the text is `(position,size)` — the size, not `max()` -/
theorem output_spec (t : Ty) (b : Box n) (hs : ∀ i : Fin n, t.Rep (b.max[i] - b.min[i])) :
    output t b = .ok ("(" ++ showOut b.min ++ "," ++ showOut (vsub b.max b.min) ++ ")") := by
  unfold output
  rw [size_spec t b hs]
  rfl

/-- N = 0 (everything but `corner_points` compiles): there is one box, it has exactly one point, every predicate is true -/
theorem zero_dim (a b : Box 0) (p : Vec 0) :
    a = b ∧ containsPoint a p = true ∧ intersects a b = true ∧ contains a b = true ∧ NonEmpty a := by
  refine ⟨box_ext (fun i => i.elim0) (fun i => i.elim0), ?_, ?_, ?_, ⟨p, fun i => i.elim0⟩⟩
  · rw [containsPoint_iff]; exact fun i => i.elim0
  · rw [intersects_iff]; exact fun i => i.elim0
  · rw [contains_iff]; exact fun i => i.elim0

/-! ## signed types: the functions that compute `size()` are undefined when it overflows -/

theorem center_signed_overflow (t : Ty) (hs : t.signed = true) (b : Box n) (h : ¬ ∀ i : Fin n, t.Rep (b.max[i] - b.min[i])) :
    center t b = .error .signedOverflow := by
  unfold center
  rw [size_signed_overflow t hs b h]
  rfl

theorem cornerPoints_signed_overflow (t : Ty) (hs : t.signed = true) (b : Box n) (h : ¬ ∀ i : Fin n, t.Rep (b.max[i] - b.min[i])) :
    cornerPoints t b = .error .signedOverflow := by
  unfold cornerPoints
  rw [bitStrings_eq]
  have hpos : 0 < 2 ^ n := Nat.two_pow_pos n
  obtain ⟨m, hm⟩ : ∃ m, 2 ^ n = m + 1 := ⟨2 ^ n - 1, by omega⟩
  rw [hm, List.range_succ_eq_map, List.map_cons, List.mapM_cons]
  rw [size_signed_overflow t hs b h]
  rfl

theorem lt_signed_overflow (t : Ty) (hs : t.signed = true) (a b : Box n)
    (h : ¬ (∀ i : Fin n, t.Rep (a.max[i] - a.min[i])) ∨ ¬ (∀ i : Fin n, t.Rep (b.max[i] - b.min[i]))) :
    lt t a b = .error .signedOverflow := by
  unfold lt
  by_cases ha : ∀ i : Fin n, t.Rep (a.max[i] - a.min[i])
  · have hb : ¬ ∀ i : Fin n, t.Rep (b.max[i] - b.min[i]) := by
      rcases h with h | h
      · exact absurd ha h
      · exact h
    rw [size_spec t a ha, size_signed_overflow t hs b hb]
    rfl
  · rw [size_signed_overflow t hs a ha]
    rfl

/-- `==` looks at the sizes only when the positions agree (`&&` short-circuits): with different positions it is defined even when a
    size overflows, with equal positions it is not -/
theorem eq_signed_overflow (t : Ty) (hs : t.signed = true) (a b : Box n)
    (h : ¬ (∀ i : Fin n, t.Rep (a.max[i] - a.min[i])) ∨ ¬ (∀ i : Fin n, t.Rep (b.max[i] - b.min[i]))) :
    eq t a b = if a.min = b.min then .error .signedOverflow else .ok false := by
  unfold eq
  by_cases hm : a.min = b.min
  · rw [(vecEq_iff _ _).2 hm]
    simp only [if_true, hm]
    by_cases ha : ∀ i : Fin n, t.Rep (a.max[i] - a.min[i])
    · have hb : ¬ ∀ i : Fin n, t.Rep (b.max[i] - b.min[i]) := by
        rcases h with h | h
        · exact absurd ha h
        · exact h
      rw [size_spec t a ha, size_signed_overflow t hs b hb]
      rfl
    · rw [size_signed_overflow t hs a ha]
      rfl
  · have : vecEq a.min b.min = false := by
      rw [← Bool.not_eq_true, vecEq_iff]; exact hm
    simp [this, hm, pure, Except.pure]

/-! ## Non-vacuity and boundary conventions on concrete values -/

private def bx (a b c d : Int) : Box 2 := ⟨#v[a, b], #v[c, d]⟩

-- the guards are satisfiable by non-trivial boxes of `int` and `unsigned`
example : (bx (-1) 0 2 3).Rep Ty.int ∧ NonEmpty (bx (-1) 0 2 3) ∧ ∀ i : Fin 2, Ty.int.Rep ((bx (-1) 0 2 3).max[i] - (bx (-1) 0 2 3).min[i]) := by
  refine ⟨by decide, ⟨#v[0, 1], by decide⟩, by decide⟩
example : (bx 1 0 4 6).Rep Ty.uint ∧ ∀ i : Fin 2, Ty.uint.Rep ((bx 1 0 4 6).max[i] - (bx 1 0 4 6).min[i]) := by
  refine ⟨by decide, by decide⟩
-- inclusive minimum, exclusive maximum
example : containsPoint (bx 0 0 2 2) #v[0, 0] = true ∧ containsPoint (bx 0 0 2 2) #v[2, 1] = false ∧
    containsPoint (bx 0 0 2 2) #v[1, 2] = false := by decide +kernel
-- touching boxes do not intersect and their intersection is the null box; overlapping ones do
example : intersects (bx 0 0 2 2) (bx 2 0 4 2) = false ∧ intersection Ty.int (bx 0 0 2 2) (bx 2 0 4 2) = .ok (bx 0 0 0 0) := by decide +kernel
example : intersection Ty.int (bx 0 0 2 2) (bx 1 (-1) 4 1) = .ok (bx 1 0 2 1) := by decide +kernel
-- the non-emptiness hypotheses cannot be dropped: an empty (inverted) inner box is a subset of everything but not `contain`ed …
example : contains (bx 0 0 1 1) (bx 5 5 4 4) = false ∧ ¬ NonEmpty (bx 5 5 4 4) := by
  refine ⟨by decide, ?_⟩
  rw [nonEmpty_iff]; decide
-- … and `intersects` holds for two boxes one of which is empty in one coordinate only when …: here it is false for a degenerate box inside
example : intersects (bx 0 0 3 3) (bx 1 1 1 2) = true ∧ ¬ NonEmpty (bx 1 1 1 2) := by
  refine ⟨by decide, ?_⟩
  rw [nonEmpty_iff]; decide
-- bounding box, corner points (binary counting order), centre, size
example : extendBox (bx 1 2 3 5) (bx 0 1 2 2) = bx 0 1 3 5 := by decide +kernel
example : cornerPoints Ty.int (bx (-1) 0 2 3) = .ok [#v[-1, 0], #v[2, 0], #v[-1, 3], #v[2, 3]] := by decide +kernel
example : center Ty.int (bx (-1) 0 2 3) = .ok #v[0, 1] ∧ size Ty.int (bx (-1) 0 2 3) = .ok #v[3, 3] := by decide +kernel
-- unsigned: the size of an inverted box wraps around, a signed one near the limits is undefined
example : size Ty.uint (bx 3 0 2 3) = .ok #v[4294967295, 3] := by decide +kernel
example : size Ty.int (bx (-2147483648) 0 1 0) = .error .signedOverflow := by decide +kernel
-- `extend_bounding_box(box, point)` treats the point as a closed corner: under the half-open reading the point
-- it was extended by is *not* a member when it lies on or beyond `max`
example : extendPoint (bx 1 1 1 1) #v[3, 4] = bx 1 1 3 4 ∧ containsPoint (extendPoint (bx 1 1 1 1) #v[3, 4]) #v[3, 4] = false := by decide +kernel
-- `interval_distance` is not symmetric when the two upper ends coincide and one interval contains the other
example : intervalDistance Ty.int (0, 3) (1, 3) = .ok (-2) ∧ intervalDistance Ty.int (1, 3) (0, 3) = .ok 0 := by decide +kernel
example : distance Ty.int (bx 1 3 3 5) (bx 5 2 6 4) = .ok #v[2, -1] := by decide +kernel

-- ## extension round
-- assignment through `pos()` keeps `max()`: the box is resized, not moved
example : setPos (bx 0 0 2 2) #v[1, 1] = bx 1 1 2 2 ∧ size Ty.int (setPos (bx 0 0 2 2) #v[1, 1]) = .ok #v[1, 1] := by decide +kernel
-- `A.pos() = A.max()` (aliasing inside the object), then `A = extend_bounding_box(A, V)`, then `swap(A.pos(), A.max())`
example : run Ty.int ⟨bx 0 0 2 2, bx 1 1 3 3, #v[5, -1]⟩ [.pm, .xv, .sc] = .ok ⟨bx 5 2 2 (-1), bx 1 1 3 3, #v[5, -1]⟩ := by decide +kernel
-- `A.pos() = center(A)` followed by `size()`: the size is recomputed from the new corner
example : (run Ty.int ⟨bx 0 0 4 6, bx 0 0 0 0, #v[0, 0]⟩ [.ce]).map (fun s => size Ty.int s.a) = .ok (.ok #v[2, 3]) := by decide +kernel
-- accumulation loops
example : foldPoints (bx 0 0 0 0) [#v[1, 2], #v[-1, 5], #v[3, 3]] = bx (-1) 0 3 5 := by decide +kernel
example : foldBoxes (bx 0 0 2 2) [bx 1 1 3 3, bx (-1) 1 5 2] = bx (-1) 0 5 3 ∧
    foldIntersection Ty.int (bx 0 0 2 2) [bx 1 1 3 3, bx (-1) 1 5 2] = .ok (bx 1 1 2 2) := by decide +kernel
-- `stretch_relative`: factor 2 around the centre, factor 1 is the identity also for odd sizes
example : stretchRelative Ty.int (bx 0 0 4 6) #v[2, 1] = .ok (bx (-2) 0 6 6) ∧ stretchRelative Ty.int (bx 0 0 3 5) #v[1, 1] = .ok (bx 0 0 3 5) := by
  decide +kernel
-- the centre of an inverted box rounds towards `pos` (C++ division truncates)
example : center Ty.int (bx 0 0 (-3) 3) = .ok #v[-1, 1] := by decide +kernel
-- `structure_cast` int → unsigned wraps a negative corner; unsigned → int near 2^31 is undefined (pos + size overflows)
example : structureCast Ty.int Ty.uint (bx (-3) 0 1 2) = .ok (bx 4294967293 0 1 2) := by decide +kernel
example : structureCast Ty.uint Ty.int (bx 2147483647 0 2147483648 1) = .error .signedOverflow := by decide +kernel
example : output Ty.int (bx (-3) (-3) 1 2) = .ok "((-3,-3),(4,5))" := by decide +kernel
-- unsigned: an inverted box is reproduced by its (pos, wrapped size)
example : (size Ty.uint (bx 3 0 2 3) >>= fun s => mkPosSize Ty.uint (bx 3 0 2 3).min s) = .ok (bx 3 0 2 3) := by decide +kernel

end Fcppt.C13
