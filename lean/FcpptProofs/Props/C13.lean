import FcpptModel.Spec.C13
import FcpptProofs.C13.Sets
import FcpptProofs.C13.Arith
set_option linter.unusedSimpArgs false
/-!
# C13 — property theorems: boxes are half-open point sets

For every dimension `n`, all boxes with integer corners (no bound on the coordinates; inverted and
degenerate boxes included) and all points of ℤ^n.  `Mem b p` is `pos_i ≤ p_i < max_i` for all `i`.
Functions that perform arithmetic in the coordinate type `t` are stated in three regimes: results
representable (then the exact mathematical value), signed and not representable (fault =
undefined behaviour), unsigned (value modulo 2^bits).
-/
namespace Fcppt.C13
variable {n : Nat}

/-! ## membership, intersection, intersects, contains, bounding box -/

/-- `contains_point` is membership in the half-open point set. -/
theorem containsPoint_iff_mem (b : Box n) (p : Vec n) : containsPoint b p = true ↔ Mem b p :=
  containsPoint_iff b p

/-- `intersection` never faults (for any coordinate type). -/
theorem intersection_total (t : Ty) (a b : Box n) : ∃ r, intersection t a b = .ok r := by
  unfold intersection
  split
  · exact ⟨_, rfl⟩
  · exact ⟨_, null_eq t n⟩

/-- The intersection contains exactly the common points — for *all* boxes, empty or inverted ones included. -/
theorem mem_intersection (t : Ty) (a b r : Box n) (h : intersection t a b = .ok r) (p : Vec n) :
    Mem r p ↔ Mem a p ∧ Mem b p := by
  unfold intersection at h
  split at h
  · cases h
    constructor
    · intro hm
      refine ⟨fun i => ?_, fun i => ?_⟩ <;>
      · have := hm i
        simp only [Fin.getElem_fin, initMax_min, initMax_max] at this ⊢
        omega
    · rintro ⟨ha, hb⟩ i
      have := ha i
      have := hb i
      simp only [Fin.getElem_fin, initMax_min, initMax_max] at *
      omega
  · rename_i hni
    rw [null_eq] at h
    cases h
    have hf : intersects a b = false := by simpa using hni
    obtain ⟨i, hi⟩ := (intersects_false_iff a b).1 hf
    have hn : 0 < n := Nat.lt_of_le_of_lt (Nat.zero_le _) i.isLt
    constructor
    · intro hm
      exact absurd hm (not_mem_null hn p)
    · rintro ⟨ha, hb⟩
      exfalso
      have := ha i
      have := hb i
      simp only [Fin.getElem_fin] at *
      omega

/-- When `intersects` is false the result is the null box (all coordinates 0) … -/
theorem intersection_null_of_not_intersects (t : Ty) (a b : Box n) (h : intersects a b = false) :
    intersection t a b = .ok ⟨vzero n, vzero n⟩ := by
  simp [intersection, h, null_eq]

/-- … in particular whenever the two boxes have no common point and are non-empty
    (for non-empty boxes `intersects` is exactly "a common point exists", next theorem). -/
theorem intersects_iff_common_point (a b : Box n) (ha : NonEmpty a) (hb : NonEmpty b) :
    intersects a b = true ↔ ∃ p, Mem a p ∧ Mem b p := by
  have ha' := (nonEmpty_iff a).1 ha
  have hb' := (nonEmpty_iff b).1 hb
  rw [intersects_iff]
  constructor
  · intro h
    refine ⟨Vector.ofFn fun i => Max.max a.min[i] b.min[i], fun i => ?_, fun i => ?_⟩ <;>
    · have := h i
      have := ha' i
      have := hb' i
      simp only [Fin.getElem_fin, Vector.getElem_ofFn] at *
      omega
  · rintro ⟨p, hpa, hpb⟩ i
    have := hpa i
    have := hpb i
    simp only [Fin.getElem_fin] at *
    omega

/-- A common point forces `intersects` (no non-emptiness needed). -/
theorem intersects_of_common_point (a b : Box n) (p : Vec n) (hpa : Mem a p) (hpb : Mem b p) : intersects a b = true := by
  rw [intersects_iff]
  intro i
  have := hpa i
  have := hpb i
  simp only [Fin.getElem_fin] at *
  omega

theorem intersection_null_of_disjoint (t : Ty) (a b : Box n) (ha : NonEmpty a) (hb : NonEmpty b)
    (hd : ¬ ∃ p, Mem a p ∧ Mem b p) : intersection t a b = .ok ⟨vzero n, vzero n⟩ := by
  apply intersection_null_of_not_intersects
  rw [← Bool.not_eq_true, intersects_iff_common_point a b ha hb]
  exact hd

/-- `contains(outer, inner)`, for a non-empty inner box, is the subset relation of the point sets. -/
theorem contains_iff_subset (outer inner : Box n) (hi : NonEmpty inner) :
    contains outer inner = true ↔ Subset inner outer := by
  rw [contains_iff, subset_iff outer inner hi]

/-- `contains` implies subset for every inner box (also empty ones). -/
theorem subset_of_contains (outer inner : Box n) (h : contains outer inner = true) : Subset inner outer := by
  rw [contains_iff] at h
  intro p hp i
  have := h i
  have := hp i
  simp only [Fin.getElem_fin] at *
  omega

/-- The bounding box contains both boxes (as corner-wise `contains`, hence as point sets). -/
theorem extendBox_contains (a b : Box n) :
    contains (extendBox a b) a = true ∧ contains (extendBox a b) b = true := by
  simp only [contains_iff, extendBox]
  refine ⟨fun i => ?_, fun i => ?_⟩ <;>
  · simp only [Fin.getElem_fin, initMax_min, initMax_max]
    omega

theorem extendBox_upper (a b : Box n) : Subset a (extendBox a b) ∧ Subset b (extendBox a b) :=
  ⟨subset_of_contains _ _ (extendBox_contains a b).1, subset_of_contains _ _ (extendBox_contains a b).2⟩

/-- … and it is the least such box: every box whose point set contains both non-empty boxes
    contains the bounding box. -/
theorem extendBox_least (a b c : Box n) (ha : NonEmpty a) (hb : NonEmpty b)
    (hac : Subset a c) (hbc : Subset b c) : contains c (extendBox a b) = true ∧ Subset (extendBox a b) c := by
  have h1 := (subset_iff c a ha).1 hac
  have h2 := (subset_iff c b hb).1 hbc
  have hc : contains c (extendBox a b) = true := by
    rw [contains_iff]
    intro i
    have := h1 i
    have := h2 i
    simp only [Fin.getElem_fin, extendBox, initMax_min, initMax_max] at *
    omega
  exact ⟨hc, subset_of_contains _ _ hc⟩

/-- the bounding box of two non-empty boxes is non-empty -/
theorem extendBox_nonEmpty (a b : Box n) (ha : NonEmpty a) : NonEmpty (extendBox a b) := by
  obtain ⟨p, hp⟩ := ha
  exact ⟨p, (extendBox_upper a b).1 p hp⟩

/-- `extend_bounding_box(box, point)`: the least box that contains `box` corner-wise and has the
    point in its *closed* hull (the point itself is not a member when it lies on or beyond `max`). -/
theorem extendPoint_spec (b : Box n) (p : Vec n) :
    contains (extendPoint b p) b = true ∧ MemClosed (extendPoint b p) p ∧
    ∀ c : Box n, contains c b = true → MemClosed c p → contains c (extendPoint b p) = true := by
  refine ⟨?_, ?_, ?_⟩
  · rw [contains_iff]
    intro i
    simp only [Fin.getElem_fin, extendPoint, initMax_min, initMax_max]
    omega
  · intro i
    simp only [Fin.getElem_fin, extendPoint, initMax_min, initMax_max]
    omega
  · intro c hc hp
    rw [contains_iff] at *
    intro i
    have := hc i
    have := hp i
    simp only [Fin.getElem_fin, extendPoint, initMax_min, initMax_max] at *
    omega

/-- a point inside the box leaves it unchanged -/
theorem extendPoint_of_mem (b : Box n) (p : Vec n) (h : Mem b p) : extendPoint b p = b := by
  apply box_ext <;>
  · intro i
    have := h i
    simp only [Fin.getElem_fin, extendPoint, initMax_min, initMax_max] at *
    omega

/-! ## constructors, `size`, `pos`, `max`, `init_max`, `init_dim`, `null` -/

/-- `Box(pos, size)`: `pos()` is `pos`, `max()` is `pos + size` (sums representable). -/
theorem mkPosSize_spec (t : Ty) (pos sz : Vec n) (h : ∀ i : Fin n, t.Rep (pos[i] + sz[i])) :
    mkPosSize t pos sz = .ok ⟨pos, vadd pos sz⟩ := by
  unfold mkPosSize
  rw [Ty.normV_ok t _ (fun i => by simpa using h i)]
  rfl

theorem mkPosSize_signed_overflow (t : Ty) (hs : t.signed = true) (pos sz : Vec n) (h : ¬ ∀ i : Fin n, t.Rep (pos[i] + sz[i])) :
    mkPosSize t pos sz = .error .signedOverflow := by
  unfold mkPosSize
  rw [Ty.normV_signed_err t hs _ (fun h2 => h fun i => by simpa using h2 i)]
  rfl

theorem mkPosSize_unsigned (t : Ty) (hs : t.signed = false) (pos sz : Vec n) :
    mkPosSize t pos sz = .ok ⟨pos, (vadd pos sz).map (· % 2 ^ t.bits)⟩ := by
  unfold mkPosSize
  rw [Ty.normV_unsigned t hs]
  rfl

/-- the point set of `Box(pos, size)` is `pos ≤ p < pos + size` -/
theorem mem_mkPosSize (t : Ty) (pos sz : Vec n) (b : Box n) (h : ∀ i : Fin n, t.Rep (pos[i] + sz[i]))
    (hb : mkPosSize t pos sz = .ok b) (p : Vec n) :
    Mem b p ↔ ∀ i : Fin n, pos[i] ≤ p[i] ∧ p[i] < pos[i] + sz[i] := by
  rw [mkPosSize_spec t pos sz h] at hb
  cases hb
  simp [Mem]

/-- `size()` is `max - pos` when the differences are representable … -/
theorem size_spec (t : Ty) (b : Box n) (h : ∀ i : Fin n, t.Rep (b.max[i] - b.min[i])) :
    size t b = .ok (vsub b.max b.min) := by
  unfold size
  exact Ty.normV_ok t _ (fun i => by simpa using h i)

/-- … undefined for a signed type otherwise … -/
theorem size_signed_overflow (t : Ty) (hs : t.signed = true) (b : Box n) (h : ¬ ∀ i : Fin n, t.Rep (b.max[i] - b.min[i])) :
    size t b = .error .signedOverflow := by
  unfold size
  exact Ty.normV_signed_err t hs _ (fun h2 => h fun i => by simpa using h2 i)

/-- … and the difference modulo 2^bits for an unsigned type (inverted boxes wrap around). -/
theorem size_unsigned (t : Ty) (hs : t.signed = false) (b : Box n) :
    size t b = .ok ((vsub b.max b.min).map (· % 2 ^ t.bits)) := by
  unfold size
  exact Ty.normV_unsigned t hs _

/-- a non-empty box has positive size in every coordinate, and `p ∈ b ↔ pos ≤ p < pos + size` -/
theorem mem_iff_pos_size (t : Ty) (b : Box n) (s : Vec n) (h : ∀ i : Fin n, t.Rep (b.max[i] - b.min[i]))
    (hs : size t b = .ok s) (p : Vec n) : Mem b p ↔ ∀ i : Fin n, b.min[i] ≤ p[i] ∧ p[i] < b.min[i] + s[i] := by
  rw [size_spec t b h] at hs
  cases hs
  simp only [Mem, Fin.getElem_fin, vsub_get]
  constructor <;>
  · intro hm i
    have := hm i
    omega

/-- `Box(b.pos(), b.size())` is `b` again. -/
theorem mkPosSize_size (t : Ty) (b : Box n) (h : ∀ i : Fin n, t.Rep (b.max[i] - b.min[i])) (hr : b.Rep t) :
    (size t b >>= fun s => mkPosSize t b.min s) = .ok b := by
  rw [size_spec t b h]
  show mkPosSize t b.min (vsub b.max b.min) = _
  rw [mkPosSize_spec]
  · congr 1
    apply box_ext <;> intro i <;> simp
    omega
  · intro i
    have := (hr i).2
    simp only [Fin.getElem_fin, vsub_get] at *
    have e : b.min[i.val] + (b.max[i.val] - b.min[i.val]) = b.max[i.val] := by omega
    rw [e]; exact this

/-- `init_max` builds the box whose corners are the two components of the function. -/
theorem initMax_spec (f : Fin n → Int × Int) (i : Fin n) : (initMax f).min[i] = (f i).1 ∧ (initMax f).max[i] = (f i).2 := by
  simp

theorem initMax_roundtrip (b : Box n) : initMax (fun i => (b.min[i], b.max[i])) = b := by
  apply box_ext <;> intro i <;> simp

/-- `init_dim` is the (pos, size) constructor on the two component vectors. -/
theorem initDim_spec (t : Ty) (f : Fin n → Int × Int) :
    initDim t f = mkPosSize t (Vector.ofFn fun i => (f i).1) (Vector.ofFn fun i => (f i).2) := by
  simp [initDim]

/-- `null` is the box with all corners 0, for every coordinate type; it is empty in dimension ≥ 1. -/
theorem null_spec (t : Ty) (n : Nat) : null t n = .ok ⟨vzero n, vzero n⟩ := null_eq t n

theorem null_empty (hn : 0 < n) : ¬ NonEmpty (⟨vzero n, vzero n⟩ : Box n) := by
  rintro ⟨p, hp⟩
  exact not_mem_null hn p hp

/-! ## `shrink`, `stretch_absolute` -/

theorem shrink_spec (t : Ty) (b : Box n) (v : Vec n)
    (h1 : ∀ i : Fin n, t.Rep (b.min[i] + v[i])) (h2 : ∀ i : Fin n, t.Rep (b.max[i] - v[i])) :
    shrink t b v = .ok ⟨vadd b.min v, vsub b.max v⟩ := by
  unfold shrink
  rw [Ty.normV_ok t _ (fun i => by simpa using h1 i), Ty.normV_ok t _ (fun i => by simpa using h2 i)]
  rfl

theorem stretchAbsolute_spec (t : Ty) (b : Box n) (v : Vec n)
    (h1 : ∀ i : Fin n, t.Rep (b.min[i] - v[i])) (h2 : ∀ i : Fin n, t.Rep (b.max[i] + v[i])) :
    stretchAbsolute t b v = .ok ⟨vsub b.min v, vadd b.max v⟩ := by
  unfold stretchAbsolute
  rw [Ty.normV_ok t _ (fun i => by simpa using h1 i), Ty.normV_ok t _ (fun i => by simpa using h2 i)]
  rfl

theorem shrink_unsigned (t : Ty) (hs : t.signed = false) (b : Box n) (v : Vec n) :
    shrink t b v = .ok ⟨(vadd b.min v).map (· % 2 ^ t.bits), (vsub b.max v).map (· % 2 ^ t.bits)⟩ := by
  unfold shrink
  rw [Ty.normV_unsigned t hs, Ty.normV_unsigned t hs]
  rfl

theorem stretchAbsolute_unsigned (t : Ty) (hs : t.signed = false) (b : Box n) (v : Vec n) :
    stretchAbsolute t b v = .ok ⟨(vsub b.min v).map (· % 2 ^ t.bits), (vadd b.max v).map (· % 2 ^ t.bits)⟩ := by
  unfold stretchAbsolute
  rw [Ty.normV_unsigned t hs, Ty.normV_unsigned t hs]
  rfl

theorem shrink_signed_overflow (t : Ty) (hs : t.signed = true) (b : Box n) (v : Vec n)
    (h : ¬ ((∀ i : Fin n, t.Rep (b.min[i] + v[i])) ∧ ∀ i : Fin n, t.Rep (b.max[i] - v[i]))) :
    shrink t b v = .error .signedOverflow := by
  unfold shrink
  by_cases h1 : ∀ i : Fin n, t.Rep (b.min[i] + v[i])
  · have h2 : ¬ ∀ i : Fin n, t.Rep (b.max[i] - v[i]) := fun h2 => h ⟨h1, h2⟩
    rw [Ty.normV_ok t _ (fun i => by simpa using h1 i), Ty.normV_signed_err t hs _ (fun h3 => h2 fun i => by simpa using h3 i)]
    rfl
  · rw [Ty.normV_signed_err t hs _ (fun h3 => h1 fun i => by simpa using h3 i)]
    rfl

/-- the points of the shrunk box: at distance ≥ `v` from the lower faces and > `v` … from the upper ones -/
theorem mem_shrink (b : Box n) (v p : Vec n) :
    Mem ⟨vadd b.min v, vsub b.max v⟩ p ↔ ∀ i : Fin n, b.min[i] + v[i] ≤ p[i] ∧ p[i] < b.max[i] - v[i] := by
  simp [Mem]

theorem mem_stretchAbsolute (b : Box n) (v p : Vec n) :
    Mem ⟨vsub b.min v, vadd b.max v⟩ p ↔ ∀ i : Fin n, b.min[i] - v[i] ≤ p[i] ∧ p[i] < b.max[i] + v[i] := by
  simp [Mem]

/-- shrinking by non-negative amounts gives a subset, stretching a superset -/
theorem shrink_subset (b : Box n) (v : Vec n) (hv : ∀ i : Fin n, 0 ≤ v[i]) :
    Subset ⟨vadd b.min v, vsub b.max v⟩ b ∧ Subset b ⟨vsub b.min v, vadd b.max v⟩ := by
  refine ⟨fun p hp i => ?_, fun p hp i => ?_⟩ <;>
  · have := hp i
    have := hv i
    simp only [Fin.getElem_fin, vadd_get, vsub_get] at *
    omega

/-- `stretch_absolute(shrink(b, v), v) = b` (no overflow) -/
theorem stretch_shrink (t : Ty) (b : Box n) (v : Vec n) (hr : b.Rep t)
    (h1 : ∀ i : Fin n, t.Rep (b.min[i] + v[i])) (h2 : ∀ i : Fin n, t.Rep (b.max[i] - v[i])) :
    (shrink t b v >>= fun s => stretchAbsolute t s v) = .ok b := by
  rw [shrink_spec t b v h1 h2]
  show stretchAbsolute t ⟨vadd b.min v, vsub b.max v⟩ v = _
  rw [stretchAbsolute_spec]
  · congr 1
    apply box_ext <;> intro i <;> simp <;> omega
  · intro i
    have := (hr i).1
    simp only [Fin.getElem_fin, vadd_get] at *
    have e : b.min[i.val] + v[i.val] - v[i.val] = b.min[i.val] := by omega
    rw [e]; exact this
  · intro i
    have := (hr i).2
    simp only [Fin.getElem_fin, vsub_get] at *
    have e : b.max[i.val] - v[i.val] + v[i.val] = b.max[i.val] := by omega
    rw [e]; exact this

/-- the size shrinks by `2 v` -/
theorem size_shrink (b : Box n) (v : Vec n) (i : Fin n) :
    (vsub (vsub b.max v) (vadd b.min v))[i] = (b.max[i] - b.min[i]) - 2 * v[i] := by
  simp only [Fin.getElem_fin, vadd_get, vsub_get]
  omega

/-! ## `center` -/

/-- For a box with `pos ≤ max`: `center = pos + (max - pos) / 2` (rounded down) … -/
theorem center_spec (t : Ty) (b : Box n) (hr : b.Rep t) (hle : ∀ i : Fin n, b.min[i] ≤ b.max[i])
    (hs : ∀ i : Fin n, t.Rep (b.max[i] - b.min[i])) :
    center t b = .ok (Vector.ofFn fun i => b.min[i] + (b.max[i] - b.min[i]) / 2) := by
  unfold center
  rw [size_spec t b hs]
  simp only [bind, Except.bind]
  rw [seqFn_ok _ (fun i => (b.max[i] - b.min[i]) / 2)]
  · simp only
    have : vadd b.min (Vector.ofFn fun i : Fin n => (b.max[i] - b.min[i]) / 2) =
        Vector.ofFn fun i : Fin n => b.min[i] + (b.max[i] - b.min[i]) / 2 := by
      apply vec_ext; intro i; simp
    rw [this]
    apply Ty.normV_ok
    intro i
    have h1 := hle i
    have := hr i
    simp only [Fin.getElem_fin, Vector.getElem_ofFn] at *
    exact t.rep_between this.1 this.2 (by omega) (by omega)
  · intro i
    have h1 := hle i
    have h2 := hs i
    simp only [Fin.getElem_fin, vsub_get] at *
    have e : Int.tdiv (b.max[i.val] - b.min[i.val]) 2 = (b.max[i.val] - b.min[i.val]) / 2 :=
      Int.tdiv_eq_ediv_of_nonneg (by omega)
    have hrep : t.Rep ((b.max[i.val] - b.min[i.val]) / 2) := t.rep_between t.rep_zero h2 (by omega) (by omega)
    simp [Ty.div, e, t.norm_ok hrep, Except.map, pure, Except.pure]

/-- … it lies in the closed hull, and in the point set itself when the box is non-empty. -/
theorem center_mem (t : Ty) (b : Box n) (hr : b.Rep t) (hne : NonEmpty b)
    (hs : ∀ i : Fin n, t.Rep (b.max[i] - b.min[i])) : ∃ c, center t b = .ok c ∧ Mem b c := by
  have hlt := (nonEmpty_iff b).1 hne
  refine ⟨_, center_spec t b hr (fun i => Int.le_of_lt (hlt i)) hs, fun i => ?_⟩
  have := hlt i
  simp only [Fin.getElem_fin, Vector.getElem_ofFn] at *
  omega

/-! ## `corner_points` -/

/-- `corner_points(b)` lists the 2^n vertices in binary counting order: the `j`-th one takes `max` in the
    coordinates where `j` has a 1 bit (coordinate 0 = least significant) and `pos` elsewhere. -/
theorem cornerPoints_spec (t : Ty) (b : Box n) (hr : b.Rep t) (hs : ∀ i : Fin n, t.Rep (b.max[i] - b.min[i])) :
    cornerPoints t b =
      .ok ((List.range (2 ^ n)).map fun j => Vector.ofFn fun i : Fin n => if j.testBit i then b.max[i] else b.min[i]) := by
  unfold cornerPoints
  rw [bitStrings_eq, mapM_ok _ (fun c => vadd b.min (vmul c (vsub b.max b.min)))]
  · rw [List.map_map]
    congr 1
    apply List.map_congr_left
    intro j _
    apply vec_ext
    intro i
    simp only [Function.comp, bitVec, Fin.getElem_fin, vadd_get, vmul_get, vsub_get, Vector.getElem_ofFn]
    split <;> omega
  · intro c hc
    obtain ⟨j, _, rfl⟩ := List.mem_map.1 hc
    rw [size_spec t b hs]
    simp only [bind, Except.bind]
    have h01 : ∀ i : Fin n, (bitVec n j)[i.val] = 0 ∨ (bitVec n j)[i.val] = 1 := by
      intro i
      simp only [bitVec, Vector.getElem_ofFn]
      split <;> simp
    rw [Ty.normV_ok t (vmul (bitVec n j) (vsub b.max b.min))]
    · simp only
      apply Ty.normV_ok
      intro i
      have := hr i
      simp only [Fin.getElem_fin, vadd_get, vmul_get, vsub_get] at *
      rcases h01 i with h | h <;> rw [h]
      · simpa using this.1
      · have e : b.min[i.val] + 1 * (b.max[i.val] - b.min[i.val]) = b.max[i.val] := by omega
        rw [e]; exact this.2
    · intro i
      have := hs i
      simp only [Fin.getElem_fin, vmul_get, vsub_get] at *
      rcases h01 i with h | h <;> rw [h]
      · simpa using t.rep_zero
      · simpa using this

/-- for an unsigned type no guard on the size is needed: the wrapped product and sum land on the `max` coordinate
    again, also for inverted boxes. -/
theorem cornerPoints_unsigned (t : Ty) (hu : t.signed = false) (b : Box n) (hr : b.Rep t) :
    cornerPoints t b =
      .ok ((List.range (2 ^ n)).map fun j => Vector.ofFn fun i : Fin n => if j.testBit i then b.max[i] else b.min[i]) := by
  unfold cornerPoints
  rw [bitStrings_eq, mapM_ok _ (fun c => ((vadd b.min ((vmul c ((vsub b.max b.min).map (· % 2 ^ t.bits))).map (· % 2 ^ t.bits))).map (· % 2 ^ t.bits)))]
  · rw [List.map_map]
    congr 1
    apply List.map_congr_left
    intro j _
    apply vec_ext
    intro i
    have h1 := t.emod_of_rep hu (hr i).1
    have h2 := t.emod_of_rep hu (hr i).2
    simp only [Function.comp, bitVec, Fin.getElem_fin, vadd_get, vmul_get, vsub_get, Vector.getElem_ofFn, Vector.getElem_map] at *
    split
    · rw [Int.one_mul, Int.emod_emod, Int.add_emod_emod]
      have e : b.min[i.val] + (b.max[i.val] - b.min[i.val]) = b.max[i.val] := by omega
      rw [e, h2]
    · simp [h1]
  · intro c _
    rw [size_unsigned t hu]
    simp only [bind, Except.bind, Ty.normV_unsigned t hu]

/-- there are 2^n corners; the first is `pos`, every corner lies in the closed hull of a box with `pos ≤ max`,
    and each of its coordinates is a coordinate of `pos` or of `max`. -/
theorem cornerPoints_props (t : Ty) (b : Box n) (hr : b.Rep t) (hs : ∀ i : Fin n, t.Rep (b.max[i] - b.min[i])) :
    ∃ l, cornerPoints t b = .ok l ∧ l.length = 2 ^ n ∧ l.head? = some b.min ∧
      (∀ c ∈ l, ∀ i : Fin n, c[i] = b.min[i] ∨ c[i] = b.max[i]) ∧
      ((∀ i : Fin n, b.min[i] ≤ b.max[i]) → ∀ c ∈ l, MemClosed b c) := by
  refine ⟨_, cornerPoints_spec t b hr hs, by simp, ?_, ?_, ?_⟩
  · have : 2 ^ n = (2 ^ n - 1) + 1 := by have := Nat.two_pow_pos n; omega
    rw [this, List.range_succ_eq_map]
    simp only [List.map_cons, List.head?_cons, Option.some.injEq]
    apply vec_ext
    intro i
    simp
  · intro c hc i
    obtain ⟨j, _, rfl⟩ := List.mem_map.1 hc
    simp only [Fin.getElem_fin, Vector.getElem_ofFn]
    split <;> simp
  · intro hle c hc i
    obtain ⟨j, _, rfl⟩ := List.mem_map.1 hc
    have := hle i
    simp only [Fin.getElem_fin, Vector.getElem_ofFn] at *
    split <;> omega

/-- the corner points are exactly the vertices: the points each of whose coordinates is the `pos` or the `max` coordinate. -/
theorem mem_cornerPoints (t : Ty) (b : Box n) (hr : b.Rep t) (hs : ∀ i : Fin n, t.Rep (b.max[i] - b.min[i])) (c : Vec n) :
    (∃ l, cornerPoints t b = .ok l ∧ c ∈ l) ↔ ∀ i : Fin n, c[i] = b.min[i] ∨ c[i] = b.max[i] := by
  rw [cornerPoints_spec t b hr hs]
  constructor
  · rintro ⟨l, hl, hc⟩ i
    cases hl
    obtain ⟨j, _, rfl⟩ := List.mem_map.1 hc
    simp only [Fin.getElem_fin, Vector.getElem_ofFn]
    split <;> simp
  · intro h
    refine ⟨_, rfl, ?_⟩
    obtain ⟨j, hj, hb⟩ := exists_testBit (fun i => if hi : i < n then decide (c[i] ≠ b.min[i]) else false) n
    refine List.mem_map.2 ⟨j, by simpa using hj, ?_⟩
    apply vec_ext
    intro i
    have := h i
    simp only [Fin.getElem_fin, Vector.getElem_ofFn, hb i.val i.isLt, i.isLt, dite_true] at *
    by_cases e : c[i.val] = b.min[i.val]
    · simp [e]
    · simp only [ne_eq, e, not_false_eq_true, decide_true, if_true]
      omega

/-! ## comparison -/

/-- `==` is equality of the two corners (sizes representable). -/
theorem eq_spec (t : Ty) (a b : Box n) (ha : ∀ i : Fin n, t.Rep (a.max[i] - a.min[i]))
    (hb : ∀ i : Fin n, t.Rep (b.max[i] - b.min[i])) : eq t a b = .ok (decide (a = b)) := by
  unfold eq
  by_cases h : a.min = b.min
  · rw [(vecEq_iff _ _).2 h, size_spec t a ha, size_spec t b hb]
    simp only [if_true, bind, Except.bind, pure, Except.pure]
    congr 1
    rw [Bool.eq_iff_iff, vecEq_iff]
    simp only [decide_eq_true_eq]
    constructor
    · intro hv
      apply box_ext
      · intro i; rw [h]
      · intro i
        have := congrArg (fun v : Vec n => v[i]) hv
        have h' := congrArg (fun v : Vec n => v[i]) h
        simp only [Fin.getElem_fin, vsub_get] at *
        omega
    · intro e; rw [e]
  · have : vecEq a.min b.min = false := by
      rw [← Bool.not_eq_true, vecEq_iff]; exact h
    have hne : a ≠ b := fun e => h (by rw [e])
    simp [this, hne, pure, Except.pure]

/-- unsigned: also for inverted boxes, whose sizes wrap around, `==` is equality of the corners
    (the wrapped size together with `pos` still determines `max`). -/
theorem eq_unsigned (t : Ty) (hu : t.signed = false) (a b : Box n) (ha : a.Rep t) (hb : b.Rep t) :
    eq t a b = .ok (decide (a = b)) := by
  unfold eq
  by_cases h : a.min = b.min
  · rw [(vecEq_iff _ _).2 h, size_unsigned t hu, size_unsigned t hu]
    simp only [if_true, bind, Except.bind, pure, Except.pure]
    congr 1
    rw [Bool.eq_iff_iff, vecEq_iff]
    simp only [decide_eq_true_eq]
    constructor
    · intro hv
      apply box_ext
      · intro i; rw [h]
      · intro i
        have h0 := congrArg (fun v : Vec n => v[i]) hv
        have h' := congrArg (fun v : Vec n => v[i]) h
        have h1 := t.emod_of_rep hu (ha i).2
        have h2 := t.emod_of_rep hu (hb i).2
        simp only [Fin.getElem_fin, vsub_get, Vector.getElem_map] at *
        have e1 : ((a.max[i.val] - a.min[i.val]) % 2 ^ t.bits + a.min[i.val]) % 2 ^ t.bits = a.max[i.val] := by
          rw [Int.emod_add_emod]
          have : a.max[i.val] - a.min[i.val] + a.min[i.val] = a.max[i.val] := by omega
          rw [this, h1]
        have e2 : ((b.max[i.val] - b.min[i.val]) % 2 ^ t.bits + b.min[i.val]) % 2 ^ t.bits = b.max[i.val] := by
          rw [Int.emod_add_emod]
          have : b.max[i.val] - b.min[i.val] + b.min[i.val] = b.max[i.val] := by omega
          rw [this, h2]
        rw [← e1, ← e2, h0, h']
    · intro e; rw [e]
  · have : vecEq a.min b.min = false := by
      rw [← Bool.not_eq_true, vecEq_iff]; exact h
    have hne : a ≠ b := fun e => h (by rw [e])
    simp [this, hne, pure, Except.pure]

/-- `!=` is the negation of `==`. -/
theorem ne_spec (t : Ty) (a b : Box n) : ne t a b = (eq t a b).map (!·) := by
  unfold ne
  cases eq t a b <;> rfl

/-- `<` is `std::pair`'s order on (pos, size), both compared lexicographically. -/
theorem lt_spec (t : Ty) (a b : Box n) (ha : ∀ i : Fin n, t.Rep (a.max[i] - a.min[i]))
    (hb : ∀ i : Fin n, t.Rep (b.max[i] - b.min[i])) :
    lt t a b = .ok (pairLt a.min.toList (vsub a.max a.min).toList b.min.toList (vsub b.max b.min).toList) := by
  unfold lt
  rw [size_spec t a ha, size_spec t b hb]
  rfl

/-- the key (pos, size) determines the box -/
theorem key_inj (a b : Box n) (h1 : a.min.toList = b.min.toList)
    (h2 : (vsub a.max a.min).toList = (vsub b.max b.min).toList) : a = b := by
  have e1 : a.min = b.min := Vector.toList_inj.1 h1
  have e2 : vsub a.max a.min = vsub b.max b.min := Vector.toList_inj.1 h2
  apply box_ext
  · intro i; rw [e1]
  · intro i
    have := congrArg (fun v : Vec n => v[i]) e2
    have h' := congrArg (fun v : Vec n => v[i]) e1
    simp only [Fin.getElem_fin, vsub_get] at *
    omega

/-- `<` is a strict total order on boxes compatible with `==`: irreflexive, asymmetric, transitive, and two boxes
    neither of which is smaller are equal. -/
theorem lt_strict_total (t : Ty) (a b c : Box n) (ha : ∀ i : Fin n, t.Rep (a.max[i] - a.min[i]))
    (hb : ∀ i : Fin n, t.Rep (b.max[i] - b.min[i])) (hc : ∀ i : Fin n, t.Rep (c.max[i] - c.min[i])) :
    lt t a a = .ok false ∧
    (lt t a b = .ok true → lt t b a = .ok false) ∧
    (lt t a b = .ok true → lt t b c = .ok true → lt t a c = .ok true) ∧
    (lt t a b = .ok false → lt t b a = .ok false → a = b) := by
  rw [lt_spec t a a ha ha, lt_spec t a b ha hb, lt_spec t b a hb ha, lt_spec t b c hb hc, lt_spec t a c ha hc]
  refine ⟨by rw [pairLt_irrefl], ?_, ?_, ?_⟩
  · intro h
    rw [pairLt_asymm _ _ _ _ (by simpa using h)]
  · intro h1 h2
    rw [pairLt_trans _ _ b.min.toList (vsub b.max b.min).toList _ _ (by simp) (by simp) (by simpa using h1) (by simpa using h2)]
  · intro h1 h2
    obtain ⟨e1, e2⟩ := pairLt_total _ _ _ _ (by simp) (by simp) (Except.ok.inj h1) (Except.ok.inj h2)
    exact key_inj a b e1 e2

/-! ## `interval_distance`, `distance` -/

/-- with all differences representable the function computes `idExact`, its control flow on ℤ … -/
theorem intervalDistance_spec (t : Ty) (i1 i2 : Int × Int) (g : IdGuard t i1 i2) :
    intervalDistance t i1 i2 = .ok (idExact i1 i2) := intervalDistance_exact t i1 i2 g

/-- … for an unsigned type each difference and the final `max` are taken modulo 2^bits. -/
theorem intervalDistance_unsigned (t : Ty) (hs : t.signed = false) (i1 i2 : Int × Int) :
    ∃ d, intervalDistance t i1 i2 = .ok d ∧ 0 ≤ d ∧ d < 2 ^ t.bits := by
  have hp := two_pow_pos t.bits
  have hm : ∀ x : Int, 0 ≤ x % 2 ^ t.bits ∧ x % 2 ^ t.bits < 2 ^ t.bits :=
    fun x => ⟨Int.emod_nonneg _ (by omega), Int.emod_lt_of_pos _ hp⟩
  unfold intervalDistance
  simp only [t.norm_unsigned hs, bind, Except.bind, pure, Except.pure]
  split
  · split
    · exact ⟨_, rfl, (hm _).1, (hm _).2⟩
    · refine ⟨_, rfl, ?_, ?_⟩
      · have := (hm (i1.2 - i2.2)).1; have := (hm (i2.1 - i1.1)).1; omega
      · have := (hm (i1.2 - i2.2)).2; have := (hm (i2.1 - i1.1)).2; omega
  · split
    · exact ⟨_, rfl, (hm _).1, (hm _).2⟩
    · refine ⟨_, rfl, ?_, ?_⟩
      · have := (hm (i2.2 - i1.2)).1; have := (hm (i1.1 - i2.1)).1; omega
      · have := (hm (i2.2 - i1.2)).2; have := (hm (i1.1 - i2.1)).2; omega

/-- Disjoint non-empty intervals: the distance is the gap between them (≥ 0, 0 when they touch). -/
theorem idExact_disjoint (f1 s1 f2 s2 : Int) (h1 : f1 < s1) (h2 : f2 < s2) (hd : s1 ≤ f2 ∨ s2 ≤ f1) :
    idExact (f1, s1) (f2, s2) = Max.max f1 f2 - Min.min s1 s2 ∧ 0 ≤ idExact (f1, s1) (f2, s2) := by
  unfold idExact
  simp only
  split <;> simp only <;> split <;> omega

/-- Partially overlapping intervals (neither contains the other): minus the length of the overlap. -/
theorem idExact_overlap (f1 s1 f2 s2 : Int) (h : f1 < f2 ∧ f2 < s1 ∧ s1 < s2) :
    idExact (f1, s1) (f2, s2) = -(s1 - f2) ∧ idExact (f2, s2) (f1, s1) = -(s1 - f2) := by
  unfold idExact
  simp only
  constructor <;> split <;> simp only <;> split <;> omega

/-- An interval strictly inside another: minus the length of the shorter of the two remaining parts,
    whichever argument order. -/
theorem idExact_nested (f1 s1 f2 s2 : Int) (h : f1 < f2 ∧ f2 < s2 ∧ s2 < s1) :
    idExact (f1, s1) (f2, s2) = -(Min.min (s1 - s2) (f2 - f1)) ∧ idExact (f2, s2) (f1, s1) = -(Min.min (s1 - s2) (f2 - f1)) := by
  unfold idExact
  simp only
  constructor <;> split <;> simp only <;> split <;> omega

/-- A positive distance means a gap; a negative one means the non-empty intervals share a point. -/
theorem idExact_sign (f1 s1 f2 s2 : Int) (h1 : f1 < s1) (h2 : f2 < s2) :
    (0 < idExact (f1, s1) (f2, s2) ↔ s1 < f2 ∨ s2 < f1) ∧
    (idExact (f1, s1) (f2, s2) < 0 → Max.max f1 f2 < Min.min s1 s2) := by
  unfold idExact
  simp only
  constructor
  · split <;> simp only <;> split <;> omega
  · split <;> simp only <;> split <;> omega

/-- `box::distance` applies `interval_distance` to the `i`-th intervals of the two boxes. -/
theorem distance_spec (t : Ty) (a b : Box n) (g : ∀ i : Fin n, IdGuard t (interval a i) (interval b i)) :
    distance t a b = .ok (Vector.ofFn fun i => idExact (a.min[i], a.max[i]) (b.min[i], b.max[i])) := by
  unfold distance
  exact seqFn_ok _ _ (fun i => intervalDistance_exact t _ _ (g i))

/-- one positive coordinate of the distance separates the boxes -/
theorem not_intersects_of_distance_pos (a b : Box n) (ha : NonEmpty a) (hb : NonEmpty b) (i : Fin n)
    (h : 0 < idExact (a.min[i], a.max[i]) (b.min[i], b.max[i])) : intersects a b = false := by
  have ha' := (nonEmpty_iff a).1 ha i
  have hb' := (nonEmpty_iff b).1 hb i
  rw [intersects_false_iff]
  refine ⟨i, ?_⟩
  have := ((idExact_sign _ _ _ _ ha' hb').1).1 h
  omega

/-- all coordinates negative: the boxes intersect -/
theorem intersects_of_distance_neg (a b : Box n) (ha : NonEmpty a) (hb : NonEmpty b)
    (h : ∀ i : Fin n, idExact (a.min[i], a.max[i]) (b.min[i], b.max[i]) < 0) : intersects a b = true := by
  rw [intersects_iff]
  intro i
  have ha' := (nonEmpty_iff a).1 ha i
  have hb' := (nonEmpty_iff b).1 hb i
  have := (idExact_sign _ _ _ _ ha' hb').2 (h i)
  omega

/-! ## Non-vacuity and boundary conventions on concrete values -/

private def bx (a b c d : Int) : Box 2 := ⟨#v[a, b], #v[c, d]⟩

-- the guards are satisfiable by non-trivial boxes of `int` and `unsigned`
example : (bx (-1) 0 2 3).Rep Ty.int ∧ NonEmpty (bx (-1) 0 2 3) ∧ ∀ i : Fin 2, Ty.int.Rep ((bx (-1) 0 2 3).max[i] - (bx (-1) 0 2 3).min[i]) := by
  refine ⟨by decide, ⟨#v[0, 1], by decide⟩, by decide⟩
example : (bx 1 0 4 6).Rep Ty.uint ∧ ∀ i : Fin 2, Ty.uint.Rep ((bx 1 0 4 6).max[i] - (bx 1 0 4 6).min[i]) := by
  refine ⟨by decide, by decide⟩
-- inclusive minimum, exclusive maximum
example : containsPoint (bx 0 0 2 2) #v[0, 0] = true ∧ containsPoint (bx 0 0 2 2) #v[2, 1] = false ∧
    containsPoint (bx 0 0 2 2) #v[1, 2] = false := by decide +kernel
-- touching boxes do not intersect and their intersection is the null box; overlapping ones do
example : intersects (bx 0 0 2 2) (bx 2 0 4 2) = false ∧ intersection Ty.int (bx 0 0 2 2) (bx 2 0 4 2) = .ok (bx 0 0 0 0) := by decide +kernel
example : intersection Ty.int (bx 0 0 2 2) (bx 1 (-1) 4 1) = .ok (bx 1 0 2 1) := by decide +kernel
-- the non-emptiness hypotheses cannot be dropped: an empty (inverted) inner box is a subset of everything but not `contain`ed …
example : contains (bx 0 0 1 1) (bx 5 5 4 4) = false ∧ ¬ NonEmpty (bx 5 5 4 4) := by
  refine ⟨by decide, ?_⟩
  rw [nonEmpty_iff]; decide
-- … and `intersects` holds for two boxes one of which is empty in one coordinate only when …: here it is false for a degenerate box inside
example : intersects (bx 0 0 3 3) (bx 1 1 1 2) = true ∧ ¬ NonEmpty (bx 1 1 1 2) := by
  refine ⟨by decide, ?_⟩
  rw [nonEmpty_iff]; decide
-- bounding box, corner points (binary counting order), centre, size
example : extendBox (bx 1 2 3 5) (bx 0 1 2 2) = bx 0 1 3 5 := by decide +kernel
example : cornerPoints Ty.int (bx (-1) 0 2 3) = .ok [#v[-1, 0], #v[2, 0], #v[-1, 3], #v[2, 3]] := by decide +kernel
example : center Ty.int (bx (-1) 0 2 3) = .ok #v[0, 1] ∧ size Ty.int (bx (-1) 0 2 3) = .ok #v[3, 3] := by decide +kernel
-- unsigned: the size of an inverted box wraps around, a signed one near the limits is undefined
example : size Ty.uint (bx 3 0 2 3) = .ok #v[4294967295, 3] := by decide +kernel
example : size Ty.int (bx (-2147483648) 0 1 0) = .error .signedOverflow := by decide +kernel
-- `extend_bounding_box(box, point)` treats the point as a closed corner: under the half-open reading the point
-- it was extended by is *not* a member when it lies on or beyond `max`
example : extendPoint (bx 1 1 1 1) #v[3, 4] = bx 1 1 3 4 ∧ containsPoint (extendPoint (bx 1 1 1 1) #v[3, 4]) #v[3, 4] = false := by decide +kernel
-- `interval_distance` is not symmetric when the two upper ends coincide and one interval contains the other
example : intervalDistance Ty.int (0, 3) (1, 3) = .ok (-2) ∧ intervalDistance Ty.int (1, 3) (0, 3) = .ok 0 := by decide +kernel
example : distance Ty.int (bx 1 3 3 5) (bx 5 2 6 4) = .ok #v[2, -1] := by decide +kernel

end Fcppt.C13
