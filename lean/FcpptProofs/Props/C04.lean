/-! Property theorems for C04 — placeholder until the property's model is built. -/
