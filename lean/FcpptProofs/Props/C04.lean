import FcpptModel.Spec.C04
import FcpptProofs.C04.Api
set_option linter.unusedSimpArgs false
set_option linter.unusedVariables false
/-!
# C04 — property theorems

For **all** types, all values, all container lengths and all continuations — a continuation is an
arbitrary computation in `K σ` (any effect on any state `σ`, may throw) — the model of every
`optional` / `either` / `variant` combinator

1. equals a `match` on the held alternative in which every continuation call is visible
   (`*_spec`): the branch of the held alternative is selected, that continuation is invoked exactly
   once, nothing is invoked for an absent value, and no `get_unsafe` remains (`*_noFault`);
2. obeys the functor / monad / applicative laws, as equations between effectful computations;
3. returns what its documentation states (`filter`, `alternative`, `combine`, `cat`, `sequence`,
   `first_success`, `loop`, `try_call`, comparison, `to_optional`, `compare`, `<` as the
   lexicographic order on `(index, value)`).

Only theorems live here; lemmas are in `FcpptProofs/C04/`.
-/
namespace Fcppt.C04
open Spec
variable {σ α β γ δ φ ψ : Type}

/-! ## 1. optional: branch selection, exactly-once invocation -/

theorem opt_bind_spec (o : Option α) (f : α → K σ (Option β)) :
    Opt.bind o f = match o with
      | some x => f x
      | none => pure none := Opt.bind_eq o f

theorem opt_map_spec (o : Option α) (f : α → K σ β) :
    Opt.map o f = match o with
      | some x => some <$> f x
      | none => pure none := Opt.map_eq o f

theorem opt_join_spec (o : Option (Option α)) : (Opt.join o : K σ (Option α)) = pure o.join := Opt.join_eq o

theorem opt_makeIf_spec (b : Bool) (f : Unit → K σ α) :
    Opt.makeIf b f = if b then some <$> f () else pure none := Opt.makeIf_eq b f

theorem opt_apply1_spec (f : α → K σ δ) (o1 : Option α) :
    Opt.apply1 f o1 = match o1 with
      | some x => some <$> f x
      | none => pure none := Opt.apply1_eq f o1

theorem opt_apply2_spec (f : α → β → K σ δ) (o1 : Option α) (o2 : Option β) :
    Opt.apply2 f o1 o2 = match o1, o2 with
      | some x, some y => some <$> f x y
      | _, _ => pure none := Opt.apply2_eq f o1 o2

theorem opt_apply3_spec (f : α → β → γ → K σ δ) (o1 : Option α) (o2 : Option β) (o3 : Option γ) :
    Opt.apply3 f o1 o2 o3 = match o1, o2, o3 with
      | some x, some y, some z => some <$> f x y z
      | _, _, _ => pure none := Opt.apply3_eq f o1 o2 o3

/-- `apply` at any arity: the function is called (once) iff every optional is set -/
theorem opt_applyN_spec (f : List α → K σ δ) (os : List (Option α)) :
    Opt.applyN f os = match allSome os with
      | some xs => some <$> f xs
      | none => pure none := Opt.applyN_eq f os

theorem opt_filter_spec (o : Option α) (p : α → K σ Bool) :
    Opt.filter o p = match o with
      | some x => (fun b => if b then some x else none) <$> p x
      | none => pure none := Opt.filter_eq o p

theorem opt_alternative_spec (o1 : Option α) (o2 : Unit → K σ (Option α)) :
    Opt.alternative o1 o2 = match o1 with
      | some x => pure (some x)
      | none => o2 () := Opt.alternative_eq o1 o2

theorem opt_combine_spec (o1 o2 : Option α) (f : α → α → K σ α) :
    Opt.combine o1 o2 f = match o1, o2 with
      | some x, some y => some <$> f x y
      | some x, none => pure (some x)
      | none, o => pure o := Opt.combine_eq o1 o2 f

/-- `maybe` selects the branch of the held alternative and runs exactly that continuation, once -/
theorem opt_maybe_selects_branch (o : Option α) (d : Unit → K σ β) (t : α → K σ β) :
    Opt.maybe o d t = match o with
      | some x => t x
      | none => d () := Opt.maybe_eq o d t

theorem opt_maybeVoid_spec (o : Option α) (t : α → K σ Unit) :
    Opt.maybeVoid o t = match o with
      | some x => t x
      | none => pure () := Opt.maybeVoid_eq o t

theorem opt_from_selects_branch (o : Option α) (d : Unit → K σ α) :
    Opt.from o d = match o with
      | some x => pure x
      | none => d () := Opt.from_eq o d

theorem opt_maybeMulti1_spec (d : Unit → K σ δ) (t : α → K σ δ) (o1 : Option α) :
    Opt.maybeMulti1 d t o1 = match o1 with
      | some x => t x
      | none => d () := Opt.maybeMulti1_eq d t o1

theorem opt_maybeMulti2_spec (d : Unit → K σ δ) (t : α → β → K σ δ) (o1 : Option α) (o2 : Option β) :
    Opt.maybeMulti2 d t o1 o2 = match o1, o2 with
      | some x, some y => t x y
      | _, _ => d () := Opt.maybeMulti2_eq d t o1 o2

theorem opt_maybeMulti3_spec (d : Unit → K σ δ) (t : α → β → γ → K σ δ)
    (o1 : Option α) (o2 : Option β) (o3 : Option γ) :
    Opt.maybeMulti3 d t o1 o2 o3 = match o1, o2, o3 with
      | some x, some y, some z => t x y z
      | _, _, _ => d () := Opt.maybeMulti3_eq d t o1 o2 o3

theorem opt_maybeMultiN_spec (d : Unit → K σ δ) (t : List α → K σ δ) (os : List (Option α)) :
    Opt.maybeMultiN d t os = match allSome os with
      | some xs => t xs
      | none => d () := Opt.maybeMultiN_eq d t os

/-- `cat` keeps exactly the set elements, in order -/
theorem opt_cat_spec (l : List (Option α)) : (Opt.cat l : K σ (List α)) = pure (l.filterMap id) := Opt.cat_eq l

/-- `sequence`: nothing if some element is nothing, otherwise all the values in order -/
theorem opt_sequence_spec (l : List (Option α)) :
    (Opt.sequence l : K σ (Option (List α))) = pure (allSome l) := Opt.sequence_eq l

/-- … where "all the values" means: the source is exactly the values, each wrapped -/
theorem opt_sequence_some_iff (l : List (Option α)) (xs : List α) : allSome l = some xs ↔ l = xs.map some :=
  allSome_eq_some_iff l xs

theorem opt_sequence_none_iff (l : List (Option α)) : allSome l = none ↔ none ∈ l := allSome_eq_none_iff l

theorem opt_eq_spec (eqv : α → α → Bool) (a b : Option α) :
    (Opt.eq eqv a b : K σ Bool) = pure (match a, b with
      | some x, some y => eqv x y
      | none, none => true
      | _, _ => false) := Opt.eq_eq eqv a b

/-- with a lawful `==` on the elements, `operator==` decides equality of the optionals -/
theorem opt_eq_iff [DecidableEq α] (a b : Option α) :
    (Opt.eq (fun x y => decide (x = y)) a b : K σ Bool) = pure (decide (a = b)) := by
  rw [Opt.eq_eq]
  cases a <;> cases b <;> simp

theorem opt_ne_spec (eqv : α → α → Bool) (a b : Option α) :
    (Opt.ne eqv a b : K σ Bool) = (fun r => !r) <$> (Opt.eq eqv a b : K σ Bool) := Opt.ne_eq eqv a b

/-- `operator<` is the lexicographic order with "nothing" below every value -/
theorem opt_lt_spec (ltv : α → α → Bool) (a b : Option α) :
    (Opt.lt ltv a b : K σ Bool) = pure (optLt ltv a b) := Opt.lt_eq ltv a b

/-- … which is a strict order whenever the element order is -/
theorem optLt_irrefl (ltv : α → α → Bool) (hi : ∀ x, ltv x x = false) (a : Option α) : optLt ltv a a = false := by
  cases a <;> simp [optLt, hi]

theorem optLt_trans (ltv : α → α → Bool) (ht : ∀ x y z, ltv x y = true → ltv y z = true → ltv x z = true)
    (a b c : Option α) (h1 : optLt ltv a b = true) (h2 : optLt ltv b c = true) : optLt ltv a c = true := by
  cases a <;> cases b <;> cases c <;> simp_all [optLt]
  exact ht _ _ _ h1 h2

theorem optLt_trichotomy (ltv : α → α → Bool) (htri : ∀ x y, ltv x y = true ∨ x = y ∨ ltv y x = true)
    (a b : Option α) : optLt ltv a b = true ∨ a = b ∨ optLt ltv b a = true := by
  cases a <;> cases b <;> simp [optLt]
  exact htri _ _

/-! ## 2. optional: functor, monad and applicative laws (with effects) -/

theorem opt_map_id (o : Option α) : Opt.map o (fun x => (pure x : K σ α)) = pure o := by
  cases o <;> simp [Opt.map_eq]

/-- map fusion: mapping `f` and then `g` is mapping their (Kleisli) composition; `f` runs before `g`, each once -/
theorem opt_map_comp (o : Option α) (f : α → K σ β) (g : β → K σ γ) :
    (Opt.map o f >>= fun r => Opt.map r g) = Opt.map o (fun x => f x >>= g) := by
  cases o <;> simp [Opt.map_eq]

theorem opt_map_comp_pure (o : Option α) (f : α → β) (g : β → γ) :
    (Opt.map o (fun x => (pure (f x) : K σ β)) >>= fun r => Opt.map r (fun y => (pure (g y) : K σ γ)))
      = Opt.map o (fun x => pure (g (f x))) := by
  cases o <;> simp [Opt.map_eq]

/-- the model of `map` is Lean's `Option.map` when the function has no effect -/
theorem opt_map_pure (o : Option α) (f : α → β) : Opt.map o (fun x => (pure (f x) : K σ β)) = pure (o.map f) := by
  cases o <;> simp [Opt.map_eq]

theorem opt_bind_pure (o : Option α) (f : α → Option β) :
    Opt.bind o (fun x => (pure (f x) : K σ (Option β))) = pure (o.bind f) := by
  cases o <;> simp [Opt.bind_eq]

theorem opt_bind_pure_left (x : α) (f : α → K σ (Option β)) : Opt.bind (Opt.make x) f = f x := by
  simp [Opt.bind_eq, Opt.make]

theorem opt_bind_pure_right (o : Option α) : Opt.bind o (fun x => (pure (Opt.make x) : K σ (Option α))) = pure o := by
  cases o <;> simp [Opt.bind_eq, Opt.make]

theorem opt_bind_assoc (o : Option α) (f : α → K σ (Option β)) (g : β → K σ (Option γ)) :
    (Opt.bind o f >>= fun r => Opt.bind r g) = Opt.bind o (fun x => f x >>= fun r => Opt.bind r g) := by
  cases o <;> simp [Opt.bind_eq]

theorem opt_join_eq_bind_id (o : Option (Option α)) :
    (Opt.join o : K σ (Option α)) = Opt.bind o (fun x => pure x) := by
  cases o <;> simp [Opt.join_eq, Opt.bind_eq]

theorem opt_bind_eq_map_join (o : Option α) (f : α → K σ (Option β)) :
    Opt.bind o f = (Opt.map o f >>= fun r => Opt.join r) := by
  cases o <;> simp [Opt.bind_eq, Opt.map_eq, Opt.join_eq]

theorem opt_map_eq_bind (o : Option α) (f : α → K σ β) :
    Opt.map o f = Opt.bind o (fun x => f x >>= fun r => pure (Opt.make r)) := rfl

theorem monad_bind_opt_eq (o : Option α) (f : α → K σ (Option β)) : monadBindOpt o f = Opt.bind o f := rfl

/-- `apply` with an effect-free function is Lean's applicative `<*>` on `Option`
(so identity, homomorphism, interchange and composition hold) -/
theorem opt_apply2_pure (f : α → β → δ) (o1 : Option α) (o2 : Option β) :
    Opt.apply2 (fun a b => (pure (f a b) : K σ δ)) o1 o2 = pure (f <$> o1 <*> o2) := by
  cases o1 <;> cases o2 <;> simp [Opt.apply2_eq] <;> rfl

theorem opt_apply3_pure (f : α → β → γ → δ) (o1 : Option α) (o2 : Option β) (o3 : Option γ) :
    Opt.apply3 (fun a b c => (pure (f a b c) : K σ δ)) o1 o2 o3 = pure (f <$> o1 <*> o2 <*> o3) := by
  cases o1 <;> cases o2 <;> cases o3 <;> simp [Opt.apply3_eq] <;> rfl

theorem opt_apply1_eq_map (f : α → K σ δ) (o : Option α) : Opt.apply1 f o = Opt.map o f := by
  rw [Opt.apply1_eq, Opt.map_eq]

theorem opt_apply_homomorphism (f : α → β → K σ δ) (x : α) (y : β) :
    Opt.apply2 f (Opt.make x) (Opt.make y) = some <$> f x y := by
  simp [Opt.apply2_eq, Opt.make]

/-- applicative identity -/
theorem opt_apply_identity (o : Option α) : Opt.apply1 (fun x => (pure x : K σ α)) o = pure o := by
  cases o <;> simp [Opt.apply1_eq]

/-- applicative composition (liftA2 form) for effect-free functions: nesting two binary `apply`s is one ternary `apply` -/
theorem opt_apply_assoc_pure (f : α → β → γ) (g : γ → δ → ψ) (a : Option α) (b : Option β) (c : Option δ) :
    (Opt.apply2 (fun x y => (pure (f x y) : K σ γ)) a b >>= fun r => Opt.apply2 (fun w z => (pure (g w z) : K σ ψ)) r c)
      = Opt.apply3 (fun x y z => pure (g (f x y) z)) a b c := by
  cases a <;> cases b <;> cases c <;> simp [Opt.apply2_eq, Opt.apply3_eq]

/-- with effects the same holds as soon as the outer optional is set (otherwise the inner function has already run) -/
theorem opt_apply_assoc (f : α → β → K σ γ) (g : γ → δ → K σ ψ) (a : Option α) (b : Option β) (z : δ) :
    (Opt.apply2 f a b >>= fun r => Opt.apply2 g r (some z))
      = Opt.apply3 (fun x y z => f x y >>= fun w => g w z) a b (some z) := by
  cases a <;> cases b <;> simp [Opt.apply2_eq, Opt.apply3_eq]

theorem either_apply_identity (e : Either φ α) : Either.apply1 (fun x => (pure x : K σ α)) e = pure e := by
  cases e <;> simp [Either.apply1_eq]

theorem either_apply_assoc_pure (f : α → β → γ) (g : γ → δ → ψ) (a : Either φ α) (b : Either φ β) (c : Either φ δ) :
    (Either.apply2 (fun x y => (pure (f x y) : K σ γ)) a b >>= fun r => Either.apply2 (fun w z => (pure (g w z) : K σ ψ)) r c)
      = Either.apply3 (fun x y z => pure (g (f x y) z)) a b c := by
  cases a <;> cases b <;> cases c <;> simp [Either.apply2_eq, Either.apply3_eq]

theorem either_apply1_eq_map (f : α → K σ δ) (e : Either φ α) : Either.apply1 f e = Either.map e f := by
  rw [Either.apply1_eq, Either.map_eq]

/-- applicative homomorphism -/
theorem either_apply_homomorphism (f : α → β → K σ δ) (x : α) (y : β) :
    Either.apply2 f (.success x : Either φ α) (.success y) = .success <$> f x y := by
  simp [Either.apply2_eq]

/-- composition with effects, outer argument a success (otherwise the inner function has already run, as in C++) -/
theorem either_apply_assoc (f : α → β → K σ γ) (g : γ → δ → K σ ψ) (a : Either φ α) (b : Either φ β) (z : δ) :
    (Either.apply2 f a b >>= fun r => Either.apply2 g r (.success z))
      = Either.apply3 (fun x y z => f x y >>= fun w => g w z) a b (.success z) := by
  cases a <;> cases b <;> simp [Either.apply2_eq, Either.apply3_eq]

/-- effect-free versions of the documented results -/
theorem opt_filter_pure (o : Option α) (p : α → Bool) :
    Opt.filter o (fun x => (pure (p x) : K σ Bool)) = pure (o.filter p) := by
  cases o <;> simp [Opt.filter_eq, Option.filter]

theorem opt_alternative_pure (o1 o2 : Option α) :
    Opt.alternative o1 (fun _ => (pure o2 : K σ (Option α))) = pure (o1 <|> o2) := by
  cases o1 <;> simp [Opt.alternative_eq]

theorem opt_from_pure (o : Option α) (d : α) : Opt.from o (fun _ => (pure d : K σ α)) = pure (o.getD d) := by
  cases o <;> simp [Opt.from_eq]

/-! ## 3. either -/

/-- `match` selects the branch of the held alternative and runs exactly that continuation, once -/
theorem either_match_selects_branch (e : Either φ α) (ff : φ → K σ β) (sf : α → K σ β) :
    Either.match_ e ff sf = match e with
      | .success s => sf s
      | .failure f => ff f := Either.match_eq e ff sf

theorem either_map_spec (e : Either φ α) (f : α → K σ β) :
    Either.map e f = match e with
      | .success s => .success <$> f s
      | .failure x => pure (.failure x) := Either.map_eq e f

theorem either_bind_spec (e : Either φ α) (f : α → K σ (Either φ β)) :
    Either.bind e f = match e with
      | .success s => f s
      | .failure x => pure (.failure x) := Either.bind_eq e f

theorem either_join_spec (e : Either φ (Either φ α)) :
    (Either.join e : K σ (Either φ α)) = pure (match e with
      | .success inner => inner
      | .failure x => .failure x) := Either.join_eq e

theorem either_mapFailure_spec (e : Either φ α) (f : φ → K σ ψ) :
    Either.mapFailure e f = match e with
      | .failure x => .failure <$> f x
      | .success s => pure (.success s) := Either.mapFailure_eq e f

theorem either_successOpt_spec (e : Either φ α) :
    (Either.successOpt e : K σ (Option α)) = pure (match e with
      | .success s => some s
      | .failure _ => none) := Either.successOpt_eq e

theorem either_failureOpt_spec (e : Either φ α) :
    (Either.failureOpt e : K σ (Option φ)) = pure (match e with
      | .failure x => some x
      | .success _ => none) := Either.failureOpt_eq e

theorem either_fromOptional_spec (o : Option α) (ff : Unit → K σ φ) :
    Either.fromOptional o ff = match o with
      | some x => pure (.success x)
      | none => .failure <$> ff () := Either.fromOptional_eq o ff

theorem either_apply1_spec (f : α → K σ δ) (e1 : Either φ α) :
    Either.apply1 f e1 = match e1 with
      | .success x => .success <$> f x
      | .failure x => pure (.failure x) := Either.apply1_eq f e1

/-- `apply`: the first failure from left to right, else the function on all successes (called once) -/
theorem either_apply2_spec (f : α → β → K σ δ) (e1 : Either φ α) (e2 : Either φ β) :
    Either.apply2 f e1 e2 = match e1, e2 with
      | .success x, .success y => .success <$> f x y
      | .failure x, _ => pure (.failure x)
      | .success _, .failure x => pure (.failure x) := Either.apply2_eq f e1 e2

theorem either_apply3_spec (f : α → β → γ → K σ δ) (e1 : Either φ α) (e2 : Either φ β) (e3 : Either φ γ) :
    Either.apply3 f e1 e2 e3 = match e1, e2, e3 with
      | .success x, .success y, .success z => .success <$> f x y z
      | .failure x, _, _ => pure (.failure x)
      | .success _, .failure x, _ => pure (.failure x)
      | .success _, .success _, .failure x => pure (.failure x) := Either.apply3_eq f e1 e2 e3

theorem either_applyN_spec (f : List α → K σ δ) (es : List (Either φ α)) :
    Either.applyN f es = match allSuccess es with
      | .success xs => .success <$> f xs
      | .failure x => pure (.failure x) := Either.applyN_eq f es

/-- `sequence` short-circuits at the first failure in order; otherwise all successes in order -/
theorem either_sequence_spec (l : List (Either φ α)) :
    (Either.sequence l : K σ (Either φ (List α))) = pure (allSuccess l) := Either.sequence_eq l

theorem either_sequence_failure_iff (l : List (Either φ α)) (f : φ) :
    allSuccess l = .failure f ↔ ∃ (pre : List α) (post : List (Either φ α)), l = pre.map .success ++ .failure f :: post :=
  allSuccess_eq_failure_iff l f

theorem either_sequence_success_iff (l : List (Either φ α)) (xs : List α) :
    allSuccess l = .success xs ↔ l = xs.map .success := allSuccess_eq_success_iff l xs

/-- `first_success`: the functions are called in order, each at most once, up to and including the first one
that succeeds; after a failure the remaining functions are tried and this failure is put in front of theirs -/
theorem either_firstSuccess_nil : (Either.firstSuccess [] : K σ (Either (List φ) α)) = pure (.failure []) := rfl

theorem either_firstSuccess_cons (fn : Unit → K σ (Either φ α)) (rest : List (Unit → K σ (Either φ α))) :
    Either.firstSuccess (fn :: rest) = (do
      let r ← fn ()
      match r with
      | .success s => pure (.success s)
      | .failure x => consFailure x <$> Either.firstSuccess rest) := Either.firstSuccess_cons fn rest

theorem either_firstSuccess_pure (l : List (Either φ α)) :
    (Either.firstSuccess (l.map fun e _ => pure e) : K σ (Either (List φ) α)) = pure (Spec.firstSuccess l) :=
  Either.firstSuccess_pure l

theorem firstSuccess_success_iff (l : List (Either φ α)) (s : α) :
    Spec.firstSuccess l = .success s ↔
      ∃ (pre : List φ) (post : List (Either φ α)), l = pre.map .failure ++ .success s :: post :=
  firstSuccess_eq_success_iff l s

theorem firstSuccess_failure_iff (l : List (Either φ α)) (fs : List φ) :
    Spec.firstSuccess l = .failure fs ↔ l = fs.map .failure := firstSuccess_eq_failure_iff l fs

/-- `loop`: one iteration calls `next` once; a failure is the result, a success goes to `body` (once) and the loop goes on -/
theorem either_loop_succ (next : Unit → K σ (Either φ α)) (body : α → K σ Unit) (n : Nat) :
    Either.loop (n + 1) next body = (do
      let e ← next ()
      match e with
      | .failure x => pure x
      | .success s => do
        body s
        Either.loop n next body) := Either.loop_succ next body n

theorem either_loop_zero (next : Unit → K σ (Either φ α)) (body : α → K σ Unit) :
    Either.loop 0 next body = K.fault .fuel := Either.loop_zero next body

/-- soundness: a terminating run of the model is a run of the documented loop -/
theorem either_loop_sound (next : Unit → K σ (Either φ α)) (body : α → K σ Unit) (fuel : Nat) (s s' : σ) (f : φ)
    (h : Either.loop fuel next body s = (.ok f, s')) : LoopRuns next body s f s' := by
  induction fuel generalizing s with
  | zero => simp [Either.loop_zero] at h
  | succ n ih =>
    rw [Either.loop_succ, K.bind_run] at h
    rcases hn : next () s with ⟨r, s₁⟩
    rw [hn] at h
    cases r with
    | error e => simp at h
    | ok e =>
      cases e with
      | failure x =>
        simp only [K.pure_run, Prod.mk.injEq, Except.ok.injEq] at h
        obtain ⟨rfl, rfl⟩ := h
        exact .stop hn
      | success a =>
        simp only [K.bind_run] at h
        rcases hb : body a s₁ with ⟨rb, s₂⟩
        rw [hb] at h
        cases rb with
        | error e => simp at h
        | ok u => exact .step hn hb (ih s₂ h)

/-- completeness: every run of the documented loop is computed by the model with enough fuel -/
theorem either_loop_complete (next : Unit → K σ (Either φ α)) (body : α → K σ Unit) (s s' : σ) (f : φ)
    (h : LoopRuns next body s f s') : ∃ n, ∀ fuel, n ≤ fuel → Either.loop fuel next body s = (.ok f, s') := by
  induction h with
  | stop hn =>
    refine ⟨1, fun fuel hf => ?_⟩
    obtain ⟨k, rfl⟩ : ∃ k, fuel = k + 1 := ⟨fuel - 1, by omega⟩
    rw [Either.loop_succ, K.bind_run, hn]
    rfl
  | step hn hb _ ih =>
    obtain ⟨n, hn'⟩ := ih
    refine ⟨n + 1, fun fuel hf => ?_⟩
    obtain ⟨k, rfl⟩ : ∃ k, fuel = k + 1 := ⟨fuel - 1, by omega⟩
    rw [Either.loop_succ, K.bind_run, hn]
    simp only [K.bind_run, hb]
    exact hn' k (by omega)

/-- the loop on a queue of results: the successes in front of the first failure go to `body` in order,
that failure is returned, the rest of the queue is not touched -/
theorem either_loop_queue (succs : List α) (f : φ) (rest : List (Either φ α)) (seen : List α) (fuel : Nat)
    (hf : succs.length < fuel) :
    Either.loop fuel queueNext queueBody
      (succs.map .success ++ .failure f :: rest, seen) = (.ok f, (rest, seen ++ succs)) := by
  induction succs generalizing seen fuel with
  | nil =>
    obtain ⟨k, rfl⟩ : ∃ k, fuel = k + 1 := ⟨fuel - 1, by simp at hf; omega⟩
    rw [Either.loop_succ, K.bind_run]
    simp [queueNext]
  | cons a r ih =>
    obtain ⟨k, rfl⟩ : ∃ k, fuel = k + 1 := ⟨fuel - 1, by simp at hf; omega⟩
    rw [Either.loop_succ, K.bind_run]
    simp only [List.map_cons, List.cons_append, K.bind_run, queueNext, queueBody]
    have := ih (seen ++ [a]) k (by simp at hf; omega)
    simpa using this

/-- `try_call`: a normal return is the success … -/
theorem either_tryCall_returns {ε : Type} (catches : ExcKind → Option ε) (f : Unit → K σ α) (toExc : ε → K σ φ)
    (s s' : σ) (a : α) (h : f () s = (.ok a, s')) :
    Either.tryCall catches f toExc s = (.ok (.success a), s') := Either.tryCall_ok catches f toExc s s' a h

/-- … an exception of the requested type is converted (the converter runs once, after the effects of the function) … -/
theorem either_tryCall_catches {ε : Type} (catches : ExcKind → Option ε) (f : Unit → K σ α) (toExc : ε → K σ φ)
    (s s' : σ) (k : ExcKind) (e : ε) (h : f () s = (.error (.exception k), s')) (hc : catches k = some e) :
    Either.tryCall catches f toExc s = (Either.failure <$> toExc e) s' :=
  Either.tryCall_caught catches f toExc s s' k e h hc

/-- … and any other exception propagates, the converter is not called -/
theorem either_tryCall_propagates {ε : Type} (catches : ExcKind → Option ε) (f : Unit → K σ α) (toExc : ε → K σ φ)
    (s s' : σ) (k : ExcKind) (h : f () s = (.error (.exception k), s')) (hc : catches k = none) :
    Either.tryCall catches f toExc s = (.error (.exception k), s') :=
  Either.tryCall_uncaught catches f toExc s s' k h hc

/-! either: laws -/

theorem either_map_id (e : Either φ α) : Either.map e (fun x => (pure x : K σ α)) = pure e := by
  cases e <;> simp [Either.map_eq]

theorem either_map_comp (e : Either φ α) (f : α → K σ β) (g : β → K σ γ) :
    (Either.map e f >>= fun r => Either.map r g) = Either.map e (fun x => f x >>= g) := by
  cases e <;> simp [Either.map_eq]

theorem either_bind_pure_left (x : α) (f : α → K σ (Either φ β)) : Either.bind (.success x) f = f x := by
  simp [Either.bind_eq]

theorem either_bind_pure_right (e : Either φ α) :
    Either.bind e (fun x => (pure (.success x) : K σ (Either φ α))) = pure e := by
  cases e <;> simp [Either.bind_eq]

theorem either_bind_assoc (e : Either φ α) (f : α → K σ (Either φ β)) (g : β → K σ (Either φ γ)) :
    (Either.bind e f >>= fun r => Either.bind r g) = Either.bind e (fun x => f x >>= fun r => Either.bind r g) := by
  cases e <;> simp [Either.bind_eq]

theorem either_join_eq_bind_id (e : Either φ (Either φ α)) :
    (Either.join e : K σ (Either φ α)) = Either.bind e (fun x => pure x) := rfl

theorem either_bind_eq_map_join (e : Either φ α) (f : α → K σ (Either φ β)) :
    Either.bind e f = (Either.map e f >>= fun r => Either.join r) := by
  cases e <;> simp [Either.bind_eq, Either.map_eq, Either.join_eq]

theorem monad_bind_either_eq (e : Either φ α) (f : α → K σ (Either φ β)) :
    monadBindEither e f = Either.bind e f := rfl

/-- `either` is Lean's `Except` monad: bind and apply with effect-free functions -/
theorem either_bind_toExcept (e : Either φ α) (f : α → Either φ β) :
    toExcept <$> Either.bind e (fun x => (pure (f x) : K σ (Either φ β)))
      = pure (toExcept e >>= fun x => toExcept (f x)) := by
  cases e <;> simp [Either.bind_eq, toExcept] <;> rfl

theorem either_apply2_toExcept (f : α → β → δ) (e1 : Either φ α) (e2 : Either φ β) :
    toExcept <$> Either.apply2 (fun a b => (pure (f a b) : K σ δ)) e1 e2
      = pure (f <$> toExcept e1 <*> toExcept e2) := by
  cases e1 <;> cases e2 <;> simp [Either.apply2_eq, toExcept] <;> rfl

/-! ## 4. variant -/
section variant
variable {n : Nat} {τ : Fin n → Type}

/-- `match` calls the function listed for the held type on the held value, once -/
theorem variant_match_selects_branch (i : Fin n) (x : τ i) (fs : (i : Fin n) → τ i → K σ β) :
    Var.match_ (⟨i, x⟩ : Var n τ) fs = fs i x := rfl

theorem variant_apply_spec (i : Fin n) (x : τ i) (f : (i : Fin n) → τ i → K σ β) :
    Var.apply f (⟨i, x⟩ : Var n τ) = f i x := rfl

theorem variant_apply2_spec {m : Nat} {υ : Fin m → Type} (i : Fin n) (x : τ i) (j : Fin m) (y : υ j)
    (f : (i : Fin n) → τ i → (j : Fin m) → υ j → K σ β) :
    Var.apply2 f (⟨i, x⟩ : Var n τ) (⟨j, y⟩ : Var m υ) = f i x j y := rfl

theorem variant_holdsType_iff (j : Fin n) (v : Var n τ) : Var.holdsType j v = true ↔ v.idx = j := by
  simp [Var.holdsType]

theorem variant_toOptional_spec (j : Fin n) (v : Var n τ) :
    (Var.toOptional j v : K σ (Option (τ j))) = pure (if h : v.idx = j then some (h ▸ v.val) else none) :=
  Var.toOptional_eq j v

theorem variant_toOptional_held (i : Fin n) (x : τ i) :
    (Var.toOptional i (⟨i, x⟩ : Var n τ) : K σ (Option (τ i))) = pure (some x) := by
  simp [Var.toOptional_eq]

/-- `compare` calls the comparison exactly when both hold the same type (once), else it is false without a call -/
theorem variant_compare_spec (l r : Var n τ) (cmp : (i : Fin n) → τ i → τ i → K σ Bool) :
    Var.compare l r cmp = if h : l.idx = r.idx then cmp r.idx (h ▸ l.val) r.val else pure false :=
  Var.compare_eq l r cmp

/-- `operator==` decides equality (lawful `==` on every alternative) -/
theorem variant_eq_iff [∀ i, BEq (τ i)] [∀ i, LawfulBEq (τ i)] (l r : Var n τ) :
    Var.eq (fun _ a b => a == b) l r = true ↔ l = r := by
  obtain ⟨i, x⟩ := l
  obtain ⟨j, y⟩ := r
  by_cases h : i = j
  · subst h
    simp [Var.eq]
  · simp [Var.eq, h]

theorem variant_ne_spec (eqv : (i : Fin n) → τ i → τ i → Bool) (l r : Var n τ) :
    Var.ne eqv l r = !Var.eq eqv l r := rfl

/-- `operator<` is the lexicographic order on (index, value) -/
theorem variant_lt_iff_lex (ltv : (i : Fin n) → τ i → τ i → Bool) (l r : Var n τ) :
    Var.lt ltv l r = true ↔ l.idx < r.idx ∨ ∃ h : l.idx = r.idx, ltv r.idx (h ▸ l.val) r.val = true := by
  obtain ⟨i, x⟩ := l
  obtain ⟨j, y⟩ := r
  simp only [Var.lt]
  by_cases h1 : i < j
  · simp [h1]
  · by_cases h2 : j < i
    · have : i ≠ j := by omega
      simp [h1, h2, this]
    · have : i = j := by omega
      subst this
      simp

theorem variant_lt_irrefl (ltv : (i : Fin n) → τ i → τ i → Bool) (hi : ∀ i x, ltv i x x = false) (v : Var n τ) :
    Var.lt ltv v v = false := by
  obtain ⟨i, x⟩ := v
  simp [Var.lt, hi]

theorem variant_lt_trans (ltv : (i : Fin n) → τ i → τ i → Bool)
    (ht : ∀ i x y z, ltv i x y = true → ltv i y z = true → ltv i x z = true)
    (a b c : Var n τ) (h1 : Var.lt ltv a b = true) (h2 : Var.lt ltv b c = true) : Var.lt ltv a c = true := by
  rw [variant_lt_iff_lex] at h1 h2 ⊢
  obtain ⟨i, x⟩ := a
  obtain ⟨j, y⟩ := b
  obtain ⟨k, z⟩ := c
  simp only at h1 h2 ⊢
  rcases h1 with h1 | ⟨rfl, h1⟩
  · rcases h2 with h2 | ⟨rfl, h2⟩
    · exact .inl (by omega)
    · exact .inl h1
  · rcases h2 with h2 | ⟨rfl, h2⟩
    · exact .inl h2
    · exact .inr ⟨rfl, ht _ _ _ _ h1 h2⟩

theorem variant_lt_trichotomy (ltv : (i : Fin n) → τ i → τ i → Bool)
    (htri : ∀ i x y, ltv i x y = true ∨ x = y ∨ ltv i y x = true) (a b : Var n τ) :
    Var.lt ltv a b = true ∨ a = b ∨ Var.lt ltv b a = true := by
  rw [variant_lt_iff_lex, variant_lt_iff_lex]
  obtain ⟨i, x⟩ := a
  obtain ⟨j, y⟩ := b
  simp only
  by_cases h1 : i < j
  · exact .inl (.inl h1)
  · by_cases h2 : j < i
    · exact .inr (.inr (.inl h2))
    · have : i = j := by omega
      subst this
      rcases htri i x y with h | rfl | h
      · exact .inl (.inr ⟨rfl, h⟩)
      · exact .inr (.inl rfl)
      · exact .inr (.inr (.inr ⟨rfl, h⟩))

end variant

/-! ## 5. exactly once / never on an absent value, read off a call log -/

/-- `maybe` with logging continuations: the log grows by exactly one entry, that of the selected branch -/
theorem maybe_called_exactly_once {ε : Type} (o : Option α) (eD : ε) (eT : α → ε) (dv : β) (t : α → β) (l : List ε) :
    Opt.maybe o (fun _ => logged eD dv) (fun x => logged (eT x) (t x)) l
      = match o with
        | some x => (.ok (t x), l ++ [eT x])
        | none => (.ok dv, l ++ [eD]) := by
  rw [Opt.maybe_eq]
  cases o <;> rfl

theorem either_match_called_exactly_once {ε : Type} (e : Either φ α) (eF : φ → ε) (eS : α → ε) (ff : φ → β) (sf : α → β)
    (l : List ε) :
    Either.match_ e (fun x => logged (eF x) (ff x)) (fun x => logged (eS x) (sf x)) l
      = match e with
        | .success s => (.ok (sf s), l ++ [eS s])
        | .failure f => (.ok (ff f), l ++ [eF f]) := by
  rw [Either.match_eq]
  cases e <;> rfl

theorem variant_match_called_exactly_once {ε : Type} {n : Nat} {τ : Fin n → Type} (v : Var n τ)
    (en : (i : Fin n) → τ i → ε) (fs : (i : Fin n) → τ i → β) (l : List ε) :
    Var.match_ v (fun i x => logged (en i x) (fs i x)) l = (.ok (fs v.idx v.val), l ++ [en v.idx v.val]) := rfl

/-- `map` / `bind` / `filter` / `from`: one call for a set optional, none (log untouched) for nothing -/
theorem opt_map_call_log {ε : Type} (o : Option α) (en : α → ε) (f : α → β) (l : List ε) :
    Opt.map o (fun x => logged (en x) (f x)) l
      = match o with
        | some x => (.ok (some (f x)), l ++ [en x])
        | none => (.ok none, l) := by
  rw [Opt.map_eq]
  cases o <;> rfl

/-- a continuation is never invoked for an absent value: with nothing / a failure / another type in the
argument the result does not depend on the continuation and the state is untouched -/
theorem never_called_on_absent (f : α → K σ (Option β)) (g : α → K σ β) (p : α → K σ Bool) (u : α → K σ Unit)
    (h : α → β → K σ δ) (o2 : Option β) (x : φ) (ef : α → K σ (Either φ β)) :
    Opt.bind none f = pure none ∧ Opt.map none g = pure none ∧ Opt.filter none p = pure none ∧
    Opt.maybeVoid none u = pure () ∧ Opt.apply1 g none = pure none ∧
    Opt.apply2 h none o2 = pure none ∧ Opt.apply2 (fun b a => h a b) o2 none = pure none ∧
    Either.map (.failure x) g = pure (.failure x) ∧ Either.bind (.failure x) ef = pure (.failure x) ∧
    Either.apply1 g (.failure x) = pure (.failure x) ∧
    Either.mapFailure (.success x : Either α φ) g = pure (.success x) := by
  refine ⟨?_, ?_, ?_, ?_, ?_, ?_, ?_, ?_, ?_, ?_, ?_⟩
  · simp [Opt.bind_eq]
  · simp [Opt.map_eq]
  · simp [Opt.filter_eq]
  · simp [Opt.maybeVoid_eq]
  · simp [Opt.apply1_eq]
  · simp [Opt.apply2_eq]
  · cases o2 <;> simp [Opt.apply2_eq]
  · simp [Either.map_eq]
  · simp [Either.bind_eq]
  · simp [Either.apply1_eq]
  · simp [Either.mapFailure_eq]

/-! ## 6. no `get_unsafe` on the wrong alternative: the only faults are the continuations' own -/

theorem opt_noFault_of_continuations (o o' : Option α) (o2 : Option β) (o3 : Option γ)
    (f : α → K σ (Option β)) (g : α → K σ β) (p : α → K σ Bool) (a : Unit → K σ (Option α))
    (c : α → α → K σ α) (d : Unit → K σ β) (da : Unit → K σ α) (u : α → K σ Unit)
    (h2 : α → β → K σ δ) (h3 : α → β → γ → K σ δ) (dd : Unit → K σ δ) (hl : List α → K σ δ) (os : List (Option α))
    (hf : ∀ x, NoFault (f x)) (hg : ∀ x, NoFault (g x)) (hp : ∀ x, NoFault (p x)) (ha : NoFault (a ()))
    (hc : ∀ x y, NoFault (c x y)) (hd : NoFault (d ())) (hda : NoFault (da ())) (hu : ∀ x, NoFault (u x))
    (hh2 : ∀ x y, NoFault (h2 x y)) (hh3 : ∀ x y z, NoFault (h3 x y z)) (hdd : NoFault (dd ()))
    (hhl : ∀ xs, NoFault (hl xs)) :
    NoFault (Opt.bind o f) ∧ NoFault (Opt.map o g) ∧ NoFault (Opt.filter o p) ∧ NoFault (Opt.alternative o a) ∧
    NoFault (Opt.combine o o' c) ∧ NoFault (Opt.maybe o d g) ∧ NoFault (Opt.from o da) ∧ NoFault (Opt.maybeVoid o u) ∧
    NoFault (Opt.apply1 g o) ∧ NoFault (Opt.apply2 h2 o o2) ∧ NoFault (Opt.apply3 h3 o o2 o3) ∧
    NoFault (Opt.applyN hl os) ∧
    NoFault (Opt.maybeMulti1 d g o) ∧ NoFault (Opt.maybeMulti2 dd h2 o o2) ∧ NoFault (Opt.maybeMulti3 dd h3 o o2 o3) ∧
    NoFault (Opt.maybeMultiN dd hl os) := by
  refine ⟨?_, ?_, ?_, ?_, ?_, ?_, ?_, ?_, ?_, ?_, ?_, ?_, ?_, ?_, ?_, ?_⟩
  · rw [Opt.bind_eq]; cases o <;> simp [NoFault.pure, hf]
  · rw [Opt.map_eq]; cases o <;> simp [NoFault.pure, NoFault.map, hg]
  · rw [Opt.filter_eq]; cases o <;> simp [NoFault.pure, NoFault.map, hp]
  · rw [Opt.alternative_eq]; cases o <;> simp [NoFault.pure, ha]
  · rw [Opt.combine_eq]; cases o <;> cases o' <;> simp [NoFault.pure, NoFault.map, hc]
  · rw [Opt.maybe_eq]; cases o <;> simp [hd, hg]
  · rw [Opt.from_eq]; cases o <;> simp [NoFault.pure, hda]
  · rw [Opt.maybeVoid_eq]; cases o <;> simp [NoFault.pure, hu]
  · rw [Opt.apply1_eq]; cases o <;> simp [NoFault.pure, NoFault.map, hg]
  · rw [Opt.apply2_eq]; cases o <;> cases o2 <;> simp [NoFault.pure, NoFault.map, hh2]
  · rw [Opt.apply3_eq]; cases o <;> cases o2 <;> cases o3 <;> simp [NoFault.pure, NoFault.map, hh3]
  · rw [Opt.applyN_eq]; cases allSome os <;> simp [NoFault.pure, NoFault.map, hhl]
  · rw [Opt.maybeMulti1_eq]; cases o <;> simp [hd, hg]
  · rw [Opt.maybeMulti2_eq]; cases o <;> cases o2 <;> simp [hdd, hh2]
  · rw [Opt.maybeMulti3_eq]; cases o <;> cases o2 <;> cases o3 <;> simp [hdd, hh3]
  · rw [Opt.maybeMultiN_eq]; cases allSome os <;> simp [hdd, hhl]

/-- the combinators without continuation never fault -/
theorem opt_noFault_pure (oo : Option (Option α)) (l : List (Option α)) (a b : Option α)
    (eqv ltv : α → α → Bool) :
    NoFault (Opt.join oo : K σ _) ∧ NoFault (Opt.cat l : K σ _) ∧ NoFault (Opt.sequence l : K σ _) ∧
    NoFault (Opt.eq eqv a b : K σ _) ∧ NoFault (Opt.ne eqv a b : K σ _) ∧ NoFault (Opt.lt ltv a b : K σ _) := by
  refine ⟨?_, ?_, ?_, ?_, ?_, ?_⟩
  · rw [Opt.join_eq]; exact NoFault.pure _
  · rw [Opt.cat_eq]; exact NoFault.pure _
  · rw [Opt.sequence_eq]; exact NoFault.pure _
  · rw [Opt.eq_eq]; exact NoFault.pure _
  · rw [Opt.ne_eq, Opt.eq_eq]; exact NoFault.map _ (NoFault.pure _)
  · rw [Opt.lt_eq]; exact NoFault.pure _

theorem either_noFault_of_continuations (e : Either φ α) (e2 : Either φ β) (e3 : Either φ γ) (o : Option α)
    (ff : φ → K σ β) (g : α → K σ β) (f : α → K σ (Either φ β)) (mf : φ → K σ ψ) (th : Unit → K σ φ)
    (h2 : α → β → K σ δ) (h3 : α → β → γ → K σ δ) (hl : List α → K σ δ) (es : List (Either φ α))
    (hff : ∀ x, NoFault (ff x)) (hg : ∀ x, NoFault (g x)) (hf : ∀ x, NoFault (f x)) (hmf : ∀ x, NoFault (mf x))
    (hth : NoFault (th ())) (hh2 : ∀ x y, NoFault (h2 x y)) (hh3 : ∀ x y z, NoFault (h3 x y z))
    (hhl : ∀ xs, NoFault (hl xs)) :
    NoFault (Either.match_ e ff g) ∧ NoFault (Either.map e g) ∧ NoFault (Either.bind e f) ∧
    NoFault (Either.mapFailure e mf) ∧ NoFault (Either.fromOptional o th) ∧
    NoFault (Either.apply1 g e) ∧ NoFault (Either.apply2 h2 e e2) ∧ NoFault (Either.apply3 h3 e e2 e3) ∧
    NoFault (Either.applyN hl es) := by
  refine ⟨?_, ?_, ?_, ?_, ?_, ?_, ?_, ?_, ?_⟩
  · rw [Either.match_eq]; cases e <;> simp [hff, hg]
  · rw [Either.map_eq]; cases e <;> simp [NoFault.pure, NoFault.map, hg]
  · rw [Either.bind_eq]; cases e <;> simp [NoFault.pure, hf]
  · rw [Either.mapFailure_eq]; cases e <;> simp [NoFault.pure, NoFault.map, hmf]
  · rw [Either.fromOptional_eq]; cases o <;> simp [NoFault.pure, NoFault.map, hth]
  · rw [Either.apply1_eq]; cases e <;> simp [NoFault.pure, NoFault.map, hg]
  · rw [Either.apply2_eq]; cases e <;> cases e2 <;> simp [NoFault.pure, NoFault.map, hh2]
  · rw [Either.apply3_eq]; cases e <;> cases e2 <;> cases e3 <;> simp [NoFault.pure, NoFault.map, hh3]
  · rw [Either.applyN_eq]; cases allSuccess es <;> simp [NoFault.pure, NoFault.map, hhl]

theorem either_noFault_pure (ee : Either φ (Either φ α)) (e : Either φ α) (l : List (Either φ α)) :
    NoFault (Either.join ee : K σ _) ∧ NoFault (Either.successOpt e : K σ _) ∧ NoFault (Either.failureOpt e : K σ _) ∧
    NoFault (Either.sequence l : K σ _) := by
  refine ⟨?_, ?_, ?_, ?_⟩
  · rw [Either.join_eq]; exact NoFault.pure _
  · rw [Either.successOpt_eq]; exact NoFault.pure _
  · rw [Either.failureOpt_eq]; exact NoFault.pure _
  · rw [Either.sequence_eq]; exact NoFault.pure _

/-- `first_success` faults only if one of the functions does -/
theorem either_firstSuccess_noFault (fns : List (Unit → K σ (Either φ α))) (h : ∀ fn ∈ fns, NoFault (fn ())) :
    NoFault (Either.firstSuccess fns) := by
  induction fns with
  | nil => exact NoFault.pure _
  | cons fn rest ih =>
    rw [Either.firstSuccess_cons]
    refine NoFault.bind (h fn (by simp)) fun r => ?_
    cases r with
    | success s => exact NoFault.pure _
    | failure x => exact NoFault.map _ (ih fun g hg => h g (by simp [hg]))

theorem variant_noFault {n : Nat} {τ : Fin n → Type} (j : Fin n) (l r : Var n τ)
    (cmp : (i : Fin n) → τ i → τ i → K σ Bool) (hc : ∀ i x y, NoFault (cmp i x y)) :
    NoFault (Var.toOptional j l : K σ _) ∧ NoFault (Var.compare l r cmp) := by
  refine ⟨?_, ?_⟩
  · rw [Var.toOptional_eq]; exact NoFault.pure _
  · rw [Var.compare_eq]
    split
    · exact hc _ _ _
    · exact NoFault.pure _

/-- `get_unsafe` itself: defined on the held alternative (the guard every combinator establishes) and a
fault otherwise; exactly one of `has_success` / `has_failure` holds -/
theorem getUnsafe_guard (o : Option α) (e : Either φ α) :
    (Opt.hasValue o = true → NoFault (Opt.getUnsafe o : K σ α)) ∧
    (Opt.hasValue o = false → ∀ s : σ, (Opt.getUnsafe o : K σ α) s = (.error .emptyDeref, s)) ∧
    (Either.hasSuccess e = true → NoFault (Either.getSuccessUnsafe e : K σ α)) ∧
    (Either.hasFailure e = true → NoFault (Either.getFailureUnsafe e : K σ φ)) ∧
    (Either.hasFailure e = !Either.hasSuccess e) := by
  refine ⟨?_, ?_, ?_, ?_, Either.hasFailure_eq_not_hasSuccess e⟩
  · cases o <;> simp [NoFault.pure]
  · cases o <;> simp
  · cases e <;> simp [NoFault.pure]
  · cases e <;> simp [NoFault.pure]

/-! ## 7. the rest of the public API (outside the anchor list, used together with it) -/

/-- `to_container`: the value as a one-element container, or the empty container -/
theorem opt_toContainer_spec (o : Option α) : (Opt.toContainer o : K σ (List α)) = pure o.toList := Opt.toContainer_eq o

/-- … which is `cat` of the one-element range -/
theorem opt_toContainer_eq_cat (o : Option α) : (Opt.toContainer o : K σ (List α)) = Opt.cat [o] := by
  rw [Opt.toContainer_eq, Opt.cat_eq]; cases o <;> rfl

/-- `copy_value`: reads the referenced object exactly once if there is a reference, never otherwise -/
theorem opt_copyValue_spec {ρ : Type} (get : ρ → K σ α) (o : Option ρ) :
    Opt.copyValue get o = match o with
      | some r => some <$> get r
      | none => pure none := Opt.copyValue_eq get o

/-- `deref`: `*element` is evaluated exactly once if there is an element, never otherwise … -/
theorem opt_deref_spec {π ρ : Type} (star : π → K σ ρ) (o : Option π) :
    Opt.deref star o = match o with
      | some p => some <$> star p
      | none => pure none := Opt.deref_eq star o

/-- … so a null pointer *inside* a set optional is undefined behaviour of `deref` (the documented precondition of `*`) -/
theorem opt_deref_null {ρ : Type} :
    (Opt.deref Ptr.star (some (Ptr.null : Ptr ρ)) : K σ (Option ρ)) = K.fault .emptyDeref := by
  rw [Opt.deref_eq]; rfl

theorem opt_deref_valid {ρ : Type} (r : ρ) :
    (Opt.deref Ptr.star (some (Ptr.to r)) : K σ (Option ρ)) = pure (some r) := by
  rw [Opt.deref_eq]; rfl

theorem opt_maybeVoidMulti1_spec (t : α → K σ Unit) (o1 : Option α) :
    Opt.maybeVoidMulti1 t o1 = match o1 with
      | some x => t x
      | none => pure () := Opt.maybeVoidMulti1_eq t o1

theorem opt_maybeVoidMulti2_spec (t : α → β → K σ Unit) (o1 : Option α) (o2 : Option β) :
    Opt.maybeVoidMulti2 t o1 o2 = match o1, o2 with
      | some x, some y => t x y
      | _, _ => pure () := Opt.maybeVoidMulti2_eq t o1 o2

theorem opt_maybeVoidMulti3_spec (t : α → β → γ → K σ Unit) (o1 : Option α) (o2 : Option β) (o3 : Option γ) :
    Opt.maybeVoidMulti3 t o1 o2 o3 = match o1, o2, o3 with
      | some x, some y, some z => t x y z
      | _, _, _ => pure () := Opt.maybeVoidMulti3_eq t o1 o2 o3

theorem opt_maybeVoidMultiN_spec (t : List α → K σ Unit) (os : List (Option α)) :
    Opt.maybeVoidMultiN t os = match allSome os with
      | some xs => t xs
      | none => pure () := Opt.maybeVoidMultiN_eq t os

/-- `maybe_void_multi` with one optional is `maybe_void` -/
theorem opt_maybeVoidMulti1_eq_maybeVoid (t : α → K σ Unit) (o : Option α) :
    Opt.maybeVoidMulti1 t o = Opt.maybeVoid o t := by
  rw [Opt.maybeVoidMulti1_eq, Opt.maybeVoid_eq]
  cases o <;> rfl

/-- `assign`: whatever the optional held, it holds the argument afterwards and the returned reference designates it;
the `get_unsafe` inside is always on a set optional -/
theorem opt_assign_spec (o : Option α) (x : α) : (Opt.assign o x : K σ (Option α × α)) = pure (some x, x) :=
  Opt.assign_eq o x

/-- writing through `get_unsafe()`: defined exactly on a set optional -/
theorem opt_setUnsafe_spec (o : Option α) (v : α) :
    (Opt.setUnsafe o v : K σ (Option α)) = match o with
      | some _ => pure (some v)
      | none => K.fault .emptyDeref := by
  cases o <;> simp [Opt.setUnsafe] <;> rfl

theorem opt_fromPointer_spec {ρ : Type} (p : Ptr ρ) :
    (Opt.fromPointer p : K σ (Option ρ)) = pure (match p with
      | .to r => some r
      | .null => none) := Opt.fromPointer_eq p

theorem opt_toPointer_spec {ρ : Type} (o : Option ρ) :
    (Opt.toPointer o : K σ (Ptr ρ)) = pure (match o with
      | some r => .to r
      | none => .null) := Opt.toPointer_eq o

/-- `from_pointer` and `to_pointer` are inverse to each other; the null pointer is never dereferenced -/
theorem opt_pointer_roundtrip {ρ : Type} (p : Ptr ρ) (o : Option ρ) :
    (Opt.fromPointer p >>= fun r => Opt.toPointer r : K σ (Ptr ρ)) = pure p ∧
    (Opt.toPointer o >>= fun q => Opt.fromPointer q : K σ (Option ρ)) = pure o := by
  constructor
  · cases p <;> simp [Opt.fromPointer_eq, Opt.toPointer_eq]
  · cases o <;> simp [Opt.fromPointer_eq, Opt.toPointer_eq]

/-- `to_exception`: the value (the exception is not even constructed), or the constructed exception is thrown -/
theorem opt_toException_spec (o : Option α) (mk : Unit → K σ ExcKind) :
    Opt.toException o mk = match o with
      | some x => pure x
      | none => mk () >>= fun e => K.fault (.exception e) := Opt.toException_eq o mk

theorem opt_toException_throws (mk : Unit → K σ ExcKind) (s s' : σ) (k : ExcKind) (h : mk () s = (.ok k, s')) :
    (Opt.toException (none : Option α) mk) s = (.error (.exception k), s') := by
  rw [Opt.toException_eq]
  show (mk () >>= fun e => K.fault (.exception e)) s = _
  rw [K.bind_run, h]
  rfl

/-- `operator<<`: `N` for nothing, `J`, a blank and the value otherwise -/
theorem opt_output_spec (put : Char → K σ Unit) (putv : α → K σ Unit) (o : Option α) :
    Opt.output put putv o = match o with
      | none => put 'N'
      | some v => put 'J' >>= fun _ => put ' ' >>= fun _ => putv v := Opt.output_eq put putv o

/-- … on a stream that appends -/
theorem opt_output_stream (sh : α → String) (o : Option α) (s : String) :
    Opt.output streamPut (streamPutVal sh) o s
      = (.ok (), match o with
          | none => s.push 'N'
          | some v => (s.push 'J').push ' ' ++ sh v) := by
  rw [Opt.output_eq]; cases o <;> rfl

theorem opt_nothing_spec : Opt.hasValue (Opt.nothing : Option α) = false ∧ Opt.hasValue (Opt.make x) = true := ⟨rfl, rfl⟩

/-- none of these has a `get_unsafe` on the wrong alternative left (faults come from the continuations only) -/
theorem opt_api_noFault {ρ : Type} (o : Option α) (o2 : Option β) (o3 : Option γ) (x : α) (p : Ptr ρ) (r : Option ρ)
    (get : α → K σ β) (u : α → K σ Unit) (u2 : α → β → K σ Unit) (u3 : α → β → γ → K σ Unit)
    (put : Char → K σ Unit) (hget : ∀ a, NoFault (get a)) (hu : ∀ a, NoFault (u a)) (hu2 : ∀ a b, NoFault (u2 a b))
    (hu3 : ∀ a b c, NoFault (u3 a b c)) (hput : ∀ c, NoFault (put c)) :
    NoFault (Opt.toContainer o : K σ _) ∧ NoFault (Opt.copyValue get o) ∧ NoFault (Opt.deref get o) ∧
    NoFault (Opt.maybeVoidMulti1 u o) ∧ NoFault (Opt.maybeVoidMulti2 u2 o o2) ∧ NoFault (Opt.maybeVoidMulti3 u3 o o2 o3) ∧
    NoFault (Opt.assign o x : K σ _) ∧ NoFault (Opt.fromPointer p : K σ _) ∧ NoFault (Opt.toPointer r : K σ _) ∧
    NoFault (Opt.output put u o) := by
  refine ⟨?_, ?_, ?_, ?_, ?_, ?_, ?_, ?_, ?_, ?_⟩
  · rw [Opt.toContainer_eq]; exact NoFault.pure _
  · rw [Opt.copyValue_eq]; cases o <;> simp [NoFault.pure, NoFault.map, hget]
  · rw [Opt.deref_eq]; cases o <;> simp [NoFault.pure, NoFault.map, hget]
  · rw [Opt.maybeVoidMulti1_eq]; cases o <;> simp [NoFault.pure, hu]
  · rw [Opt.maybeVoidMulti2_eq]; cases o <;> cases o2 <;> simp [NoFault.pure, hu2]
  · rw [Opt.maybeVoidMulti3_eq]; cases o <;> cases o2 <;> cases o3 <;> simp [NoFault.pure, hu3]
  · rw [Opt.assign_eq]; exact NoFault.pure _
  · rw [Opt.fromPointer_eq]; exact NoFault.pure _
  · rw [Opt.toPointer_eq]; exact NoFault.pure _
  · rw [Opt.output_eq]
    cases o with
    | none => exact hput _
    | some v => exact (hput _).bind fun _ => (hput _).bind fun _ => hu v

/-! either -/

/-- `operator==`: same alternative and equal payloads; a success never equals a failure, whatever they carry -/
theorem either_eq_spec (eqf : φ → φ → Bool) (eqs : α → α → Bool) (a b : Either φ α) :
    (Either.eq eqf eqs a b : K σ Bool) = pure (match a, b with
      | .success x, .success y => eqs x y
      | .failure x, .failure y => eqf x y
      | _, _ => false) := Either.eq_eq eqf eqs a b

theorem either_eq_iff [DecidableEq φ] [DecidableEq α] (a b : Either φ α) :
    (Either.eq (fun x y => decide (x = y)) (fun x y => decide (x = y)) a b : K σ Bool) = pure (decide (a = b)) := by
  rw [Either.eq_eq]
  cases a <;> cases b <;> simp

theorem either_ne_spec (eqf : φ → φ → Bool) (eqs : α → α → Bool) (a b : Either φ α) :
    (Either.ne eqf eqs a b : K σ Bool) = (fun r => !r) <$> (Either.eq eqf eqs a b : K σ Bool) := Either.ne_eq eqf eqs a b

/-- `construct` calls exactly one of the two functions, once -/
theorem either_construct_spec (v : Bool) (s : Unit → K σ α) (f : Unit → K σ φ) :
    Either.construct v s f = if v then .success <$> s () else .failure <$> f () := Either.construct_eq v s f

theorem either_errorFromOptional_spec (o : Option φ) :
    (Either.errorFromOptional o : K σ (Either φ Unit)) = pure (match o with
      | some x => .failure x
      | none => .success ()) := Either.errorFromOptional_eq o

theorem either_make_spec (f : φ) (s : α) :
    Either.hasFailure (Either.makeFailure f : Either φ α) = true ∧ Either.hasSuccess (Either.makeSuccess s : Either φ α) = true ∧
    (Either.getFailureUnsafe (Either.makeFailure f : Either φ α) : K σ φ) = pure f ∧
    (Either.getSuccessUnsafe (Either.makeSuccess s : Either φ α) : K σ α) = pure s := ⟨rfl, rfl, rfl, rfl⟩

theorem either_output_spec (putf : φ → K σ Unit) (puts : α → K σ Unit) (e : Either φ α) :
    Either.output putf puts e = match e with
      | .success s => puts s
      | .failure f => putf f := Either.match_eq e putf puts

/-- `sequence_error`: the function is called on the elements in order, up to and including the first one for which
it returns a failure — that failure is the result; nothing is called after it -/
theorem either_sequenceError_nil (f : α → K σ (Either φ Unit)) : Either.sequenceError [] f = pure (.success ()) := rfl

theorem either_sequenceError_cons (x : α) (r : List α) (f : α → K σ (Either φ Unit)) :
    Either.sequenceError (x :: r) f = (f x >>= fun e =>
      match e with
      | .failure err => pure (.failure err)
      | .success _ => Either.sequenceError r f) := Either.sequenceError_cons x r f

theorem either_sequenceError_pure (l : List α) (f : α → Either φ Unit) :
    (Either.sequenceError l (fun x => pure (f x)) : K σ (Either φ Unit)) = pure (firstError (l.map f)) :=
  Either.sequenceError_pure l f

theorem firstError_failure_iff (l : List (Either φ Unit)) (f : φ) :
    firstError l = .failure f ↔
      ∃ (n : Nat) (post : List (Either φ Unit)), l = List.replicate n (.success ()) ++ .failure f :: post :=
  firstError_eq_failure_iff l f

theorem firstError_success_iff (l : List (Either φ Unit)) : firstError l = .success () ↔ ∀ e ∈ l, e = .success () :=
  firstError_eq_success_iff l

/-- `sequence_error` is `sequence` on the results with the container forgotten -/
theorem either_sequenceError_eq_sequence (l : List α) (f : α → Either φ Unit) :
    (Either.sequenceError l (fun x => pure (f x)) : K σ (Either φ Unit))
      = (fun r => match r with
          | .failure e => .failure e
          | .success _ => .success ()) <$> (Either.sequence (l.map f) : K σ (Either φ (List Unit))) := by
  rw [Either.sequenceError_pure, Either.sequence_eq, firstError_eq_allSuccess, map_pure]
  cases allSuccess (List.map f l) <;> rfl

/-- with effects: the calls made are exactly those on the prefix up to the first failure -/
theorem either_sequenceError_call_log (pre : List α) (x : α) (post : List α) (f : α → Either φ Unit) (e : φ)
    (hpre : ∀ y ∈ pre, f y = .success ()) (hx : f x = .failure e) (log : List α) :
    Either.sequenceError (pre ++ x :: post) (fun y => logged y (f y)) log = (.ok (.failure e), log ++ pre ++ [x]) := by
  induction pre generalizing log with
  | nil =>
    rw [List.nil_append, Either.sequenceError_cons, K.bind_run]
    simp [logged, hx]
  | cons y ys ih =>
    rw [List.cons_append, Either.sequenceError_cons, K.bind_run]
    have hy : f y = .success () := hpre y (by simp)
    simp only [logged, hy]
    rw [ih (fun z hz => hpre z (by simp [hz]))]
    simp

theorem either_toException_spec (e : Either φ α) (mk : φ → K σ ExcKind) :
    Either.toException e mk = match e with
      | .success s => pure s
      | .failure f => mk f >>= fun k => K.fault (.exception k) := Either.toException_eq e mk

theorem either_setUnsafe_spec (e : Either φ α) (v : α) (w : φ) :
    (Either.setSuccessUnsafe e v : K σ (Either φ α)) = (match e with
      | .success _ => pure (.success v)
      | .failure _ => K.fault .emptyDeref) ∧
    (Either.setFailureUnsafe e w : K σ (Either φ α)) = (match e with
      | .failure _ => pure (.failure w)
      | .success _ => K.fault .emptyDeref) := by
  cases e <;> exact ⟨rfl, rfl⟩

theorem either_api_noFault (a b : Either φ α) (o : Option φ) (v : Bool) (l : List α) (eqf : φ → φ → Bool) (eqs : α → α → Bool)
    (s : Unit → K σ α) (f : Unit → K σ φ) (g : α → K σ (Either φ Unit)) (hs : NoFault (s ())) (hf : NoFault (f ()))
    (hg : ∀ x, NoFault (g x)) :
    NoFault (Either.eq eqf eqs a b : K σ _) ∧ NoFault (Either.ne eqf eqs a b : K σ _) ∧ NoFault (Either.construct v s f) ∧
    NoFault (Either.errorFromOptional o : K σ _) ∧ NoFault (Either.sequenceError l g) := by
  refine ⟨?_, ?_, ?_, ?_, ?_⟩
  · rw [Either.eq_eq]; exact NoFault.pure _
  · rw [Either.ne_eq, Either.eq_eq]; exact NoFault.map _ (NoFault.pure _)
  · rw [Either.construct_eq]; cases v <;> simp [NoFault.map, hs, hf]
  · rw [Either.errorFromOptional_eq]; exact NoFault.pure _
  · induction l with
    | nil => exact NoFault.pure _
    | cons x r ih =>
      rw [Either.sequenceError_cons]
      refine (hg x).bind fun e => ?_
      cases e with
      | failure err => exact NoFault.pure _
      | success u => exact ih

/-! variant -/
section variant2
variable {n : Nat} {τ : Fin n → Type}

theorem variant_apply3_spec {m k : Nat} {υ : Fin m → Type} {ω : Fin k → Type} (i : Fin n) (x : τ i) (j : Fin m) (y : υ j)
    (l : Fin k) (z : ω l) (f : (i : Fin n) → τ i → (j : Fin m) → υ j → (l : Fin k) → ω l → K σ β) :
    Var.apply3 f (⟨i, x⟩ : Var n τ) (⟨j, y⟩ : Var m υ) (⟨l, z⟩ : Var k ω) = f i x j y l z := rfl

theorem variant_output_spec (i : Fin n) (x : τ i) (putv : (i : Fin n) → τ i → K σ Unit) :
    Var.output putv (⟨i, x⟩ : Var n τ) = putv i x := rfl

/-- `to_optional_ref` designates the held value exactly when `to_optional` copies it -/
theorem variant_toOptionalRef_spec (j : Fin n) (v : Var n τ) :
    (Var.toOptionalRef j v : K σ (Option (τ j))) = pure (if h : v.idx = j then some (h ▸ v.val) else none) :=
  Var.toOptional_eq j v

/-- writing through the reference changes the held value and nothing else; reading it back gives what was written -/
theorem variant_setUnsafe_spec (i : Fin n) (x y : τ i) :
    (Var.setUnsafe i (⟨i, x⟩ : Var n τ) y : K σ (Var n τ)) = pure ⟨i, y⟩ ∧
    (Var.setUnsafe i (⟨i, x⟩ : Var n τ) y >>= fun v' => Var.toOptionalRef i v' : K σ (Option (τ i))) = pure (some y) := by
  constructor
  · exact Var.setUnsafe_held i x y
  · rw [Var.setUnsafe_held]; simp [Var.toOptionalRef_eq_toOptional, Var.toOptional_eq]

/-- `get_unsafe<T_j>` on a variant holding another type is the fault the combinators never reach -/
theorem variant_setUnsafe_wrong (j : Fin n) (v : Var n τ) (y : τ j) (h : v.idx ≠ j) :
    (Var.setUnsafe j v y : K σ (Var n τ)) = K.fault .emptyDeref := Var.setUnsafe_wrong j v y h

end variant2

/-- `dynamic_cast_`: the casts are tried in the order of the type list; the result is the first one that succeeds
together with the position of its type; casts after it are not evaluated -/
theorem dynamicCast_spec {ρ : Type} (casts : List (Unit → K σ (Option ρ))) : dynamicCast casts = tryCasts 0 casts :=
  dynamicCast_eq casts

theorem dynamicCast_pure {ρ : Type} (l : List (Option ρ)) :
    (dynamicCast (l.map fun o _ => pure o) : K σ (Option (Nat × ρ))) = pure (firstSome 0 l) := by
  rw [dynamicCast_eq, tryCasts_pure]

theorem dynamicCast_some_iff {ρ : Type} (l : List (Option ρ)) (i : Nat) (r : ρ) :
    firstSome 0 l = some (i, r) ↔ ∃ post, l = List.replicate i none ++ some r :: post := by
  rw [firstSome_eq_some_iff]
  constructor
  · rintro ⟨n, post, h, hi⟩; exact ⟨post, by simpa [hi] using h⟩
  · rintro ⟨post, h⟩; exact ⟨i, post, h, by omega⟩

theorem dynamicCast_none_iff {ρ : Type} (l : List (Option ρ)) : firstSome 0 l = none ↔ ∀ o ∈ l, o = none :=
  firstSome_eq_none_iff l 0

/-! special members: assignment replaces the whole object (whatever alternative either side held), an lvalue source
keeps its value, assigning or swapping an object with itself changes nothing, `swap` is an involution -/
theorem special_members_spec {τ : Type} (a b : τ) :
    assignObj a b = (b, b) ∧ (assignObj a a).1 = a ∧ swapObj a b = (b, a) ∧ (swapObj a a).1 = a ∧
    swapObj (swapObj a b).1 (swapObj a b).2 = (a, b) := ⟨rfl, rfl, rfl, rfl, rfl⟩

/-- assigning changes the held alternative: after `v = w` every observer answers as for `w` -/
theorem special_members_observers {n : Nat} {τ : Fin n → Type} (v w : Var n τ) (o p : Option α) (e f : Either φ α) :
    Var.typeIndex (assignObj v w).1 = Var.typeIndex w ∧ Opt.hasValue (assignObj o p).1 = Opt.hasValue p ∧
    Either.hasSuccess (assignObj e f).1 = Either.hasSuccess f := ⟨rfl, rfl, rfl⟩

/-! the valueless state of a variant (`is_invalid()`) -/
section valueless
variable {n : Nat} {τ : Fin n → Type}

/-- how it is reached: only by an assignment that changes the alternative (or fills a valueless target) and whose
construction throws — or by assigning a valueless source; every other assignment gives a valid variant equal to the source -/
theorem variant_invalid_reached_iff (dst : VarV n τ) (s : Var n τ) (ctorThrows : Bool) :
    VarV.isInvalid (VarV.assign dst (some s) ctorThrows).1 = true ↔
      ctorThrows = true ∧ (∀ d, dst = some d → d.idx ≠ s.idx) := by
  cases dst with
  | none => cases ctorThrows <;> simp [VarV.assign, VarV.isInvalid]
  | some d =>
    by_cases h : d.idx = s.idx
    · simp [VarV.assign, VarV.isInvalid, h]
    · cases ctorThrows <;> simp [VarV.assign, VarV.isInvalid, h]

/-- the exception leaves the assignment exactly when the target became valueless -/
theorem variant_assign_throws_iff (dst : VarV n τ) (s : Var n τ) (ctorThrows : Bool) :
    (VarV.assign dst (some s) ctorThrows).2 = VarV.isInvalid (VarV.assign dst (some s) ctorThrows).1 := by
  cases dst with
  | none => cases ctorThrows <;> rfl
  | some d =>
    by_cases h : d.idx = s.idx
    · simp [VarV.assign, VarV.isInvalid, h]
    · cases ctorThrows <;> simp [VarV.assign, VarV.isInvalid, h]

/-- an invalid variant is recovered by any assignment that does not throw (the documented way out) -/
theorem variant_invalid_recovers (s : Var n τ) : VarV.assign (none : VarV n τ) (some s) false = (some s, false) := rfl

theorem variant_assign_ok (dst : VarV n τ) (s : Var n τ) : VarV.assign dst (some s) false = (some s, false) := by
  cases dst with
  | none => rfl
  | some d => by_cases h : d.idx = s.idx <;> simp [VarV.assign, h]

/-- what the operations do with an invalid variant: the tests are all false, `to_optional` is nothing without touching
`get_unsafe`, visiting (`apply`, `match`, `type_info`, `<<`, `compare` with it on the right) throws `std::bad_variant_access`
and calls nothing, `compare` with it on the left is false without a call, it equals only another invalid variant and is
smaller than every valid one -/
theorem variant_invalid_spec (j : Fin n) (f : (i : Fin n) → τ i → K σ β) (w : Var n τ)
    (cmp : (i : Fin n) → τ i → τ i → K σ Bool) (eqv ltv : (i : Fin n) → τ i → τ i → Bool) :
    VarV.isInvalid (none : VarV n τ) = true ∧ VarV.typeIndex (none : VarV n τ) = none ∧
    VarV.holdsType j (none : VarV n τ) = false ∧
    (VarV.toOptional j (none : VarV n τ) : K σ (Option (τ j))) = pure none ∧
    VarV.apply f none = K.fault (.exception (.other "std")) ∧
    VarV.compare (some w) none cmp = K.fault (.exception (.other "std")) ∧
    VarV.compare none (some w) cmp = pure false ∧
    VarV.eq eqv (none : VarV n τ) none = true ∧ VarV.eq eqv none (some w) = false ∧ VarV.eq eqv (some w) none = false ∧
    VarV.lt ltv none (some w) = true ∧ VarV.lt ltv (some w) none = false ∧ VarV.lt ltv (none : VarV n τ) none = false := by
  refine ⟨rfl, rfl, rfl, rfl, rfl, rfl, ?_, rfl, rfl, rfl, rfl, rfl, rfl⟩
  simp [VarV.compare, VarV.apply, Var.apply, VarV.toOptional, VarV.holdsType, Opt.maybe_eq]

/-- on a valid variant the `VarV` operations are the `Var` ones -/
theorem variant_valid_spec (j : Fin n) (f : (i : Fin n) → τ i → K σ β) (v w : Var n τ)
    (cmp : (i : Fin n) → τ i → τ i → K σ Bool) (eqv ltv : (i : Fin n) → τ i → τ i → Bool) :
    VarV.isInvalid (some v) = false ∧ VarV.typeIndex (some v) = some (Var.typeIndex v) ∧
    VarV.holdsType j (some v) = Var.holdsType j v ∧
    (VarV.toOptional j (some v) : K σ (Option (τ j))) = Var.toOptional j v ∧
    VarV.apply f (some v) = Var.apply f v ∧ VarV.compare (some v) (some w) cmp = Var.compare v w cmp ∧
    VarV.eq eqv (some v) (some w) = Var.eq eqv v w ∧ VarV.lt ltv (some v) (some w) = Var.lt ltv v w := by
  refine ⟨rfl, rfl, rfl, ?_, rfl, ?_, rfl, rfl⟩
  · exact VarV.toOptional_some j v
  · simp only [VarV.compare, VarV.apply, Var.compare, VarV.toOptional_some]

end valueless

/-! monad: `return_`, `chain`, `do_` -/

theorem monad_return_opt (x : α) (f : α → K σ (Option β)) (o : Option α) :
    monadBindOpt (returnOpt x) f = f x ∧ monadBindOpt o (fun y => (pure (returnOpt y) : K σ (Option α))) = pure o := by
  constructor
  · simp [monadBindOpt, returnOpt, Opt.bind_eq, Opt.make]
  · cases o <;> simp [monadBindOpt, returnOpt, Opt.bind_eq, Opt.make]

theorem monad_return_either (x : α) (f : α → K σ (Either φ β)) (e : Either φ α) :
    monadBindEither (returnEither x) f = f x ∧
    monadBindEither e (fun y => (pure (returnEither y) : K σ (Either φ α))) = pure e := by
  constructor
  · simp [monadBindEither, returnEither, Either.makeSuccess, Either.bind_eq]
  · cases e <;> simp [monadBindEither, returnEither, Either.makeSuccess, Either.bind_eq]

/-- `chain(v, l_1, l_2)` is the left-nested bind … -/
theorem monad_chainOpt2_spec (v : Option α) (l1 : α → K σ (Option β)) (l2 : β → K σ (Option γ)) :
    chainOpt2 v l1 l2 = (Opt.bind v l1 >>= fun r => Opt.bind r l2) := by
  simp [chainOpt2, monadBindOpt]

/-- … which by associativity is the right-nested one: `l_2` runs only after `l_1` returned a value -/
theorem monad_chainOpt2_assoc (v : Option α) (l1 : α → K σ (Option β)) (l2 : β → K σ (Option γ)) :
    chainOpt2 v l1 l2 = Opt.bind v (fun x => l1 x >>= fun r => Opt.bind r l2) := by
  rw [monad_chainOpt2_spec, opt_bind_assoc]

theorem monad_chainOptN_nil (v : Option α) : (chainOptN v [] : K σ (Option α)) = pure v := rfl

theorem monad_chainOptN_cons (v : Option α) (l : α → K σ (Option α)) (ls : List (α → K σ (Option α))) :
    chainOptN v (l :: ls) = (Opt.bind v l >>= fun r => chainOptN r ls) := rfl

/-- once nothing, always nothing: no later lambda is called -/
theorem monad_chainOptN_none (ls : List (α → K σ (Option α))) : (chainOptN none ls : K σ (Option α)) = pure none := by
  induction ls with
  | nil => rfl
  | cons l ls ih => simp [chainOptN, monadBindOpt, Opt.bind_eq, ih]

theorem monad_chainEither2_spec (v : Either φ α) (l1 : α → K σ (Either φ β)) (l2 : β → K σ (Either φ γ)) :
    chainEither2 v l1 l2 = (Either.bind v l1 >>= fun r => Either.bind r l2) := by
  simp [chainEither2, monadBindEither]

theorem monad_chainEitherN_failure (x : φ) (ls : List (α → K σ (Either φ α))) :
    (chainEitherN (.failure x) ls : K σ (Either φ α)) = pure (.failure x) := by
  induction ls with
  | nil => rfl
  | cons l ls ih => simp [chainEitherN, monadBindEither, Either.bind_eq, ih]

/-- `do_(v, l_1, l_2)`: `l_1` gets the value of `v`, `l_2` the values of `v` and of `l_1`'s result; each is called at
most once and only when everything before it held a value -/
theorem monad_doOpt3_spec (v : Option α) (l1 : α → K σ (Option β)) (l2 : α → β → K σ (Option γ)) :
    doOpt3 v l1 l2 = match v with
      | none => pure none
      | some a => l1 a >>= fun m => match m with
        | none => pure none
        | some b => l2 a b := by
  cases v with
  | none => simp [doOpt3, monadBindOpt, Opt.bind_eq]
  | some a =>
    simp only [doOpt3, monadBindOpt, Opt.bind_eq]
    congr 1
    funext m
    cases m <;> rfl

theorem monad_doEither3_spec (v : Either φ α) (l1 : α → K σ (Either φ β)) (l2 : α → β → K σ (Either φ γ)) :
    doEither3 v l1 l2 = match v with
      | .failure x => pure (.failure x)
      | .success a => l1 a >>= fun m => match m with
        | .failure x => pure (.failure x)
        | .success b => l2 a b := by
  cases v with
  | failure x => simp [doEither3, monadBindEither, Either.bind_eq]
  | success a =>
    simp only [doEither3, monadBindEither, Either.bind_eq]
    congr 1
    funext m
    cases m <;> rfl

/-- `do_` whose last lambda ignores the earlier values is `chain` -/
theorem monad_do_eq_chain (v : Option α) (l1 : α → K σ (Option β)) (l2 : β → K σ (Option γ)) :
    doOpt3 v l1 (fun _ b => l2 b) = chainOpt2 v l1 l2 := by
  rw [monad_chainOpt2_assoc]; rfl

theorem monad_doOpt2_spec (v : Option α) (l1 : α → K σ (Option β)) : doOpt2 v l1 = Opt.bind v l1 := rfl

/-! ## Non-vacuity -/

-- a bind that calls its continuation, and one that does not
example : Opt.bind (some 1) (fun x => logged x (some (x + 1))) [] = (.ok (some 2), [1]) := rfl
example : Opt.bind (none : Option Nat) (fun x => logged x (some (x + 1))) [] = (.ok none, []) := rfl
-- sequence short-circuit order: the first failure wins
example : allSuccess [.success 1, .failure "a", .success 2, .failure "b"] = (.failure "a" : Either String (List Nat)) := rfl
example : Spec.firstSuccess [.failure 1, .failure 2, .success "s", .failure 3] = (.success "s" : Either (List Nat) String) := rfl
-- apply: first failure, left to right
example : Either.apply2 (fun (a b : Nat) => (pure (a + b) : K Unit Nat)) (.failure "l") (.failure "r") ()
    = (.ok (.failure "l"), ()) := rfl
-- get_unsafe on the wrong alternative is a fault of the model (so `*_noFault` are not vacuous)
example : (Opt.getUnsafe (none : Option Nat) : K Unit Nat) () = (.error .emptyDeref, ()) := rfl
-- the loop on a queue
example : Either.loop 10 queueNext queueBody
      ([.success 1, .success 2, .failure "stop", .success 3], []) = (.ok "stop", ([.success 3], [1, 2])) := rfl
-- variant `<`: index first, then value
example : Var.lt (n := 2) (τ := fun _ => Nat) (fun _ a b => decide (a < b)) ⟨0, 5⟩ ⟨1, 0⟩ = true := by decide
example : Var.lt (n := 2) (τ := fun _ => Nat) (fun _ a b => decide (a < b)) ⟨1, 0⟩ ⟨1, 0⟩ = false := by decide

-- sequence_error stops at the first failure: the third element is never looked at
example : Either.sequenceError [1, 2, 3] (fun x => logged x (if x = 2 then .failure "two" else .success ())) []
    = (.ok (.failure "two"), [1, 2]) := rfl
-- dynamic_cast_: the first type in the list that matches wins, later casts are not tried
example : dynamicCast [fun _ => logged 0 none, fun _ => logged 1 (some "d1"), fun _ => logged 2 (some "d2")] []
    = (.ok (some (1, "d1")), [0, 1]) := rfl
-- either ==: a success is different from a failure with the same payload
example : (Either.eq (· == ·) (· == ·) (.success 0 : Either Nat Nat) (.failure 0) : K Unit Bool) () = (.ok false, ()) := rfl
-- a throwing construction during an assignment that changes the alternative leaves the target valueless
example : VarV.assign (n := 2) (τ := fun _ => Nat) (some ⟨0, 5⟩) (some ⟨1, 0⟩) true = (none, true) := by
  simp [VarV.assign]
example : VarV.assign (n := 2) (τ := fun _ => Nat) (some ⟨1, 5⟩) (some ⟨1, 0⟩) true = (some ⟨1, 0⟩, false) := by
  simp [VarV.assign]
-- do_: the second lambda sees both values
example : doOpt3 (some 1) (fun a => logged a (some (a + 1))) (fun a b => logged (10 * a + b) (some (a + b))) []
    = (.ok (some 3), [1, 12]) := rfl

end Fcppt.C04
