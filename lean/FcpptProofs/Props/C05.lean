import FcpptModel.Spec.C05
import FcpptModel.Model.C05
/-! Property theorems for C05 — under construction. -/
namespace Fcppt.C05
end Fcppt.C05
