import FcpptProofs.C05.NoDrop
/-!
# C05 — property theorems: generic operations conserve values

Registry (`Op.all`, 166 operations, programs in FcpptModel/Model/C05.lean; its head comment names the mirrored C++ file of every group):
algorithm::map (vector, list->deque, array, tuple), fold, fold_break, map_concat, map_optional, reverse, find_opt, index_of, contains,
find_if_opt, find_by_opt, generate_n, map_iteration(_second), sequence_iteration (list, vector), remove, remove_if, unique, unique_if,
loop_break over a tuple; container::join (2, 3, the same container twice), pop_back, pop_front, make_move_range, get_or_insert(_with_result),
make, insert, set_union / difference / intersection, map_values_copy, at_optional, maybe_back / front, find_opt_mapped, index_map::get;
move_clear; move_if, move_if_rvalue;
optional::map, bind, from, alternative, filter, to_container, join, combine, apply, sequence, cat, make, constructors, assign, to_exception,
make_if, maybe, maybe_void, maybe_multi, maybe_void_multi, copy_value;
either::map, map_failure, bind, match, success_opt, failure_opt, from_optional, join, apply, sequence, first_success, make_success,
make_failure, constructors, construct, try_call, to_exception, error_from_optional, sequence_error, loop;
variant::match, apply (1, 2), to_optional, constructor; tuple::map, push_back, concat, invoke, apply, from_array, make, init;
array::map, push_back, join (2, 3), from_range, apply, init, make; record::map, permute, multiply_disjoint, constructor, init, set;
grid::map, apply, resize, constructors, assignment, fill, static_row; tree constructors, assignment, value setter, push_back / push_front /
insert (value, tree), pop_back / pop_front, release, erase, clear, sort, swap, tree::map; options::flag / option constructors and the
results of argument / optional / product / many / sum; parse::sequence / repetition / repetition_plus / alternative / optional / convert /
as_struct / separator / list results.

Every theorem is stated for **every** registered operation `o` and **every** well-formed input `inp` (`wf o inp`: the value
categories the operation can be instantiated with, pairwise distinct identities below 100, answer tables of the right length) —
containers of every size.  `outcome o inp` is the observation (FcpptModel/Spec/C05.lean) of running the operation's transfer
program.  Only theorems and examples live in this file; lemmas are in `FcpptProofs/C05/`.

PARTIAL (named in DESIGN.md §5 C05, notes/C05.md): that a C++ expression *is* a move, a copy or a reference hand-over is a fact of
the language (value categories, temporaries, overload resolution) that the model does not derive — the per-element annotation of
every program is justified by the differential correspondence on the enumerated shapes; these theorems extend it to all sizes.
-/
namespace Fcppt.C05

/-- **No element of an argument passed as an rvalue is ever copied.** -/
theorem rvalue_no_copy (o : Op) (inp : Input) (h : wf o inp = true) : (outcome o inp).NoCopyOfRvalue :=
  safe_noCopyOfRvalue (wf_ids h) (prog_safe o inp h)

/-- **Every element is move-constructed out of its argument at most once.** -/
theorem rvalue_moved_at_most_once (o : Op) (inp : Input) (h : wf o inp = true) : (outcome o inp).MovedAtMostOnce :=
  safe_movedAtMostOnce (wf_ids h) (prog_safe o inp h)

/-- **No object is read, copied or moved after it was moved from.** -/
theorem no_read_after_move (o : Op) (inp : Input) (h : wf o inp = true) : (outcome o inp).NoReadAfterMove :=
  safe_noReadAfterMove (prog_safe o inp h)

/-- **An argument passed as `T&` or `T const&` is left exactly as it was** (same identities, same order, all live). -/
theorem lvalue_unchanged (o : Op) (inp : Input) (h : wf o inp = true) : (outcome o inp).LvalueUnchanged :=
  safe_lvalueUnchanged (prog_safe o inp h)

/-- **Every element is live at most once afterwards** (arguments and result together), plus once per copy —
and copies are copies of lvalue arguments (`rvalue_no_copy`). -/
theorem result_at_most_once (o : Op) (inp : Input) (h : wf o inp = true) : (outcome o inp).AtMostOnce :=
  safe_atMostOnce (wf_ids h) (prog_safe o inp h)

/-- **No element is duplicated or silently lost**: live occurrences + destroyed live values = 1 + copies, for every element. -/
theorem conserved (o : Op) (inp : Input) (h : wf o inp = true) : (outcome o inp).Conserved :=
  safe_conserved (wf_ids h) (prog_safe o inp h)

/-- **Move-only element types are accepted**: when every argument is an rvalue (or an in/out parameter) nothing is copied. -/
theorem accepts_move_only (o : Op) (inp : Input) (h : wf o inp = true) (hall : (outcome o inp).AllRvalue) :
    (outcome o inp).cp = [] :=
  safe_acceptsMoveOnly (prog_safe o inp h) hall

/-- **Exactly once where the operation is documented to keep all elements** (`keeps`, 72 operations: map with an identity-preserving
function, join, reverse, push_back, concat, permute, multiply_disjoint, array join / from_range / apply, make, constructors, `sequence`
on success, the state of a fold, `apply` / `maybe_multi` of two optionals when both are set, `to_exception`, …): every element of an argument passed as an rvalue is live in the result exactly once afterwards and
nowhere else — neither duplicated nor lost. -/
theorem rvalue_exactly_once_in_result (o : Op) (inp : Input) (a : Nat) (h : wf o inp = true) (hk : keeps o inp a = true)
    (ha : inp.cat a = some .rv) : (outcome o inp).ExactlyOnceInResult a :=
  safe_rvalue_exactly_once (wf_ids h) (prog_safe o inp h) (prog_allToRes o inp a hk) a ha (prog_covers o inp a h hk ha)

/-- **No element is destroyed** by an operation that is not one of those that destroy values by design (`drops`, 26 operations: the second
failure of `either::apply`, the failures before a `first_success`, a half-parsed sequence / product, the emptied `move_range`, the consumed
second argument of `optional::combine`, an element handed as an rvalue to a by-value function that keeps nothing (`optional::bind`,
`either::sequence_error`); and the in-place operations whose job it is - assignment and `set` overwrite, `erase` / `clear` /
`remove_if` / `unique_if` / `map_iteration` / `sequence_iteration` erase, `fill` overwrites): with `conserved`, every element is then live
exactly `1 + copies` times in arguments and result together - e.g. `pop_back`'s element is in the result and the others stay in the
container; `get_or_insert` leaves all elements where they were. For the 26 operations `conserved` accounts for every destroyed value in
`lost`, which the correspondence observes (`lost=` of the result line). -/
theorem nothing_lost (o : Op) (inp : Input) (h : wf o inp = true) (hd : drops o = false) : (outcome o inp).lost = [] :=
  safe_nothing_lost (prog_safe o inp h) (prog_noDrop o inp hd)

/-- **An element that is handed over as an rvalue is not needed afterwards.** A user's function that takes its parameter by value
steals an rvalue it is handed (the modelled behaviour of the harness functions: `xfer … move`), and the library's own moves leave a
moved-from object behind as well: whenever an instruction of a registered program moves from (or destroys) element object `(a, i)`,
no later instruction hands that object to a user's function, reads it, copies it or moves it again - in particular an element that
still reaches a user's function as an lvalue (`derive`) or is forwarded into the result later is never handed out as an rvalue before.
(`optional::filter` handing the value of an rvalue optional to the predicate as an rvalue and forwarding the optional afterwards is
exactly what this excludes; see the refuted example `seededFilter` below.) -/
theorem rvalue_handover_is_last_use (o : Op) (inp : Input) (h : wf o inp = true) :
    (prog o inp).Pairwise fun x y => ∀ a i, x.kills a i → ¬ y.uses a i :=
  (prog_safe o inp h).clean

/-- the same, for the calls of the user's functions only: after a hand-over as an rvalue (`r` in `uc`) the element is never handed to a
user's function as an lvalue (`derive`) -/
theorem no_lvalue_call_after_rvalue_handover (o : Op) (inp : Input) (h : wf o inp = true) (p q r : List Instr) (a i : Nat) (d d' : Dest)
    (k : Nat) (hp : prog o inp = p ++ (.xfer a i .move d :: (q ++ (.derive a i k d' :: r)))) : False := by
  have hc := rvalue_handover_is_last_use o inp h
  rw [hp, List.pairwise_append] at hc
  have h2 := (List.pairwise_cons.1 hc.2.1).1 (.derive a i k d') (by simp)
  exact h2 a i (show Instr.kills (.xfer a i .move d) a i from ⟨rfl, rfl⟩) (show Instr.uses (.derive a i k d') a i from ⟨rfl, rfl⟩)

/-- the programs never access an element object that does not exist (any more) -/
theorem no_out_of_bounds (o : Op) (inp : Input) (h : wf o inp = true) : (exec o inp).oob = [] :=
  (safe_quiet (prog_safe o inp h)).2

/-! ## non-vacuity: well-formed, non-trivial inputs exist and the predicates are not trivially true -/

example : wf .join3 ⟨[(.rv, [1, 2]), (.lv, [11]), (.rv, [21, 22])], []⟩ = true := by decide
example : wf .foldBreak ⟨[(.cr, [1, 2, 3]), (.rv, [11])], [1]⟩ = true := by decide
example : wf .getOrInsert ⟨[(.io, [1, 2])], [2]⟩ = true := by decide

example : (outcome .join3 ⟨[(.rv, [1, 2]), (.lv, [11]), (.rv, [21, 22])], []⟩).res
    = [(1, true), (2, true), (11, true), (21, true), (22, true)] := by decide
example : (outcome .join3 ⟨[(.rv, [1, 2]), (.lv, [11]), (.rv, [21, 22])], []⟩).cp = [11] := by decide
example : (outcome .join3 ⟨[(.rv, [1, 2]), (.lv, [11]), (.rv, [21, 22])], []⟩).mv = [21, 22] := by decide
example : (outcome .algMap ⟨[(.rv, [1, 2, 3])], []⟩).outs = [[(1, false), (2, false), (3, false)]] := by decide

example : keeps .join3 ⟨[(.rv, [1, 2]), (.lv, [11]), (.rv, [21, 22])], []⟩ 2 = true := by decide
example : keeps .recPermute ⟨[(.rv, [1, 2, 3])], [2, 0, 1]⟩ 0 = true := by decide
example : (outcome .recPermute ⟨[(.rv, [1, 2, 3])], [2, 0, 1]⟩).res = [(3, true), (1, true), (2, true)] := by decide
/-- `map_optional` is a filter: it is not among the keepers -/
example : keeps .mapOptional ⟨[(.rv, [1, 2])], [1, 0]⟩ 0 = false := by decide

/-! ## refuted: the four repaired defects, each against the operation as it is now

* `either::bind` before fix f5622af copied the failure of an rvalue either (`oldEithBindFailure`);
* the `options::flag` constructor before fix 986d19b compared its arguments after moving from them (`oldOptsFlag`);
* `optional::to_container` before fix 9030486 moved the element out of an lvalue optional (`oldOptToContainer`);
* `parse::repetition_plus` before fix aef45df copied its first result through an initializer_list (`oldParseRepPlus`).
-/

/-- old `either::bind`, rvalue either holding a failure: the failure is copied -/
example : ¬ (runOn ⟨[(.rv, [1])], [0, 0]⟩ oldEithBindFailure).NoCopyOfRvalue := by
  intro h
  exact h 0 (by decide) 1 (by decide) (by decide)
/-- now it is moved: nothing is copied, the source is moved-from -/
example : (outcome .eithBind ⟨[(.rv, [1])], [0, 0]⟩).cp = [] ∧ (outcome .eithBind ⟨[(.rv, [1])], [0, 0]⟩).outs = [[(1, false)]] := by
  decide

/-- old `options::flag` constructor: reads both arguments after moving from them -/
example : ¬ (runOn ⟨[(.rv, [1]), (.rv, [11])], []⟩ oldOptsFlag).NoReadAfterMove := by
  intro h
  exact absurd (show (runOn _ _).ram = [] from h) (by decide)
example : (runOn ⟨[(.rv, [1]), (.rv, [11])], []⟩ oldOptsFlag).ram = [1, 11] := by decide
/-- now the stored values are compared -/
example : (outcome .optsFlag ⟨[(.rv, [1]), (.rv, [11])], []⟩).ram = [] := by decide

/-- old `optional::to_container`, lvalue optional: the argument is changed -/
example : ¬ (runOn ⟨[(.lv, [1])], []⟩ (oldOptToContainer 1)).LvalueUnchanged := by
  intro h
  exact absurd (h 0 .lv (by decide) (Or.inl rfl)) (by decide)
/-- now the element is copied and the argument keeps it -/
example : (outcome .optToContainer ⟨[(.lv, [1])], []⟩).outs = [[(1, true)]] ∧ (outcome .optToContainer ⟨[(.lv, [1])], []⟩).cp = [1] := by
  decide

/-- old `parse::repetition_plus` (before fix aef45df), the sub-results seen as an rvalue argument: the first one is copied -/
example : ¬ (runOn ⟨[(.rv, [1, 2, 3])], []⟩ (oldParseRepPlus 3)).NoCopyOfRvalue := by
  intro h
  exact h 0 (by decide) 1 (by decide) (by decide)
/-- now every result is moved: nothing is copied -/
example : (outcome .parseRepPlus ⟨[], [3]⟩).cp = [] ∧ (outcome .parseRepPlus ⟨[], [3]⟩).res = [(1000, true), (1001, true), (1002, true)] := by
  decide

/-- seeded regression C05-3: `optional::filter` hands the value of an rvalue optional to the predicate as an rvalue (a by-value predicate
steals it) and then forwards the same optional: the moved-from element is moved again into the result -/
def seededFilter : List Instr := [.xfer 0 0 .move .drop, .xfer 0 0 .move .res]
example : ¬ (runOn ⟨[(.rv, [1])], [1]⟩ seededFilter).NoReadAfterMove := by
  intro h
  exact absurd (show (runOn _ _).ram = [] from h) (by decide)
example : ¬ seededFilter.Pairwise fun x y => ∀ a i, x.kills a i → ¬ y.uses a i := by
  intro h
  exact (List.pairwise_pair.1 h) 0 0 (show Instr.kills (.xfer 0 0 .move .drop) 0 0 from ⟨rfl, rfl⟩)
    (show Instr.uses (.xfer 0 0 .move .res) 0 0 from ⟨rfl, rfl⟩)
/-- as it is: the predicate gets an lvalue, the optional is forwarded afterwards -/
example : (outcome .optFilter ⟨[(.rv, [1])], [1]⟩).ram = [] ∧ (outcome .optFilter ⟨[(.rv, [1])], [1]⟩).res = [(1, true)] := by decide

/-! ## refuted: what else the conservation predicates exclude -/

/-- moving the same element twice is a read after move and a second move out of the argument -/
example : ¬ (runOn ⟨[(.rv, [1])], []⟩ [.xfer 0 0 .move .res, .xfer 0 0 .move .res]).MovedAtMostOnce := by
  intro h
  exact absurd (h 1 (by decide)) (by decide)

/-- a copy of an rvalue element shows up as a duplicate: two live objects carry it -/
example : (runOn ⟨[(.rv, [1])], []⟩ [.xfer 0 0 .copy .res]).liveCount 1 = 2 := by decide

/-- a filter that drops an element loses it: `Conserved` then accounts for it in `lost` -/
example : (runOn ⟨[(.rv, [1, 2])], []⟩ [.xfer 0 0 .move .res, .xfer 0 1 .move .drop]).lost = [2] := by decide

end Fcppt.C05
