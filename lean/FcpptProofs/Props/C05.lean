/-! Property theorems for C05 — placeholder until the property's model is built. -/
