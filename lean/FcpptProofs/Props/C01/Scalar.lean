import FcpptProofs.Props.C06.Basic
import FcpptProofs.Props.C06.Arith
import FcpptProofs.Props.C06.Log2
import FcpptProofs.Props.C06.Pow
import FcpptProofs.Props.C06.NextPow
import FcpptProofs.Props.C06.Trunc_u8
import FcpptProofs.Props.C06.Trunc_u16
import FcpptProofs.Props.C06.Trunc_u32
import FcpptProofs.Props.C06.Trunc_u64
import FcpptProofs.Props.C06.Trunc_i8
import FcpptProofs.Props.C06.Trunc_i16
import FcpptProofs.Props.C06.Trunc_i32
import FcpptProofs.Props.C06.Trunc_i64
/-!
# C01, scalar registry — totality of EVERY translated instantiation

`Props/C01.lean` states totality for one representative width per function family (plus the widths where a defect
was repaired).  This file closes the registry: every remaining instantiation of the translated scalar helpers
(`FcpptModel/Gen/Scalar.lean`, regenerated from /repo on every run) returns `.ok` — no invalid shift, no signed
overflow, no division by zero, loops terminate — under exactly "the exact result is representable".  Each line is a
corollary of the C06 correctness theorem of that instantiation.
-/
namespace Fcppt.C01
open Fcppt Fcppt.Gen Fcppt.C06

theorem truncation_check_u8_u8_total (x : Int) (h : IntTy.u8.InRange x) : ∃ r, truncation_check_u8_u8 x = .ok r :=
  ⟨_, truncation_check_u8_u8_correct x h⟩
theorem truncation_check_u8_u16_total (x : Int) (h : IntTy.u16.InRange x) : ∃ r, truncation_check_u8_u16 x = .ok r :=
  ⟨_, truncation_check_u8_u16_correct x h⟩
theorem truncation_check_u8_u32_total (x : Int) (h : IntTy.u32.InRange x) : ∃ r, truncation_check_u8_u32 x = .ok r :=
  ⟨_, truncation_check_u8_u32_correct x h⟩
theorem truncation_check_u8_u64_total (x : Int) (h : IntTy.u64.InRange x) : ∃ r, truncation_check_u8_u64 x = .ok r :=
  ⟨_, truncation_check_u8_u64_correct x h⟩
theorem truncation_check_u8_i8_total (x : Int) (h : IntTy.i8.InRange x) : ∃ r, truncation_check_u8_i8 x = .ok r :=
  ⟨_, truncation_check_u8_i8_correct x h⟩
theorem truncation_check_u8_i16_total (x : Int) (h : IntTy.i16.InRange x) : ∃ r, truncation_check_u8_i16 x = .ok r :=
  ⟨_, truncation_check_u8_i16_correct x h⟩
theorem truncation_check_u8_i32_total (x : Int) (h : IntTy.i32.InRange x) : ∃ r, truncation_check_u8_i32 x = .ok r :=
  ⟨_, truncation_check_u8_i32_correct x h⟩
theorem truncation_check_u16_u8_total (x : Int) (h : IntTy.u8.InRange x) : ∃ r, truncation_check_u16_u8 x = .ok r :=
  ⟨_, truncation_check_u16_u8_correct x h⟩
theorem truncation_check_u16_u16_total (x : Int) (h : IntTy.u16.InRange x) : ∃ r, truncation_check_u16_u16 x = .ok r :=
  ⟨_, truncation_check_u16_u16_correct x h⟩
theorem truncation_check_u16_u32_total (x : Int) (h : IntTy.u32.InRange x) : ∃ r, truncation_check_u16_u32 x = .ok r :=
  ⟨_, truncation_check_u16_u32_correct x h⟩
theorem truncation_check_u16_u64_total (x : Int) (h : IntTy.u64.InRange x) : ∃ r, truncation_check_u16_u64 x = .ok r :=
  ⟨_, truncation_check_u16_u64_correct x h⟩
theorem truncation_check_u16_i8_total (x : Int) (h : IntTy.i8.InRange x) : ∃ r, truncation_check_u16_i8 x = .ok r :=
  ⟨_, truncation_check_u16_i8_correct x h⟩
theorem truncation_check_u16_i16_total (x : Int) (h : IntTy.i16.InRange x) : ∃ r, truncation_check_u16_i16 x = .ok r :=
  ⟨_, truncation_check_u16_i16_correct x h⟩
theorem truncation_check_u16_i32_total (x : Int) (h : IntTy.i32.InRange x) : ∃ r, truncation_check_u16_i32 x = .ok r :=
  ⟨_, truncation_check_u16_i32_correct x h⟩
theorem truncation_check_u16_i64_total (x : Int) (h : IntTy.i64.InRange x) : ∃ r, truncation_check_u16_i64 x = .ok r :=
  ⟨_, truncation_check_u16_i64_correct x h⟩
theorem truncation_check_u32_u8_total (x : Int) (h : IntTy.u8.InRange x) : ∃ r, truncation_check_u32_u8 x = .ok r :=
  ⟨_, truncation_check_u32_u8_correct x h⟩
theorem truncation_check_u32_u16_total (x : Int) (h : IntTy.u16.InRange x) : ∃ r, truncation_check_u32_u16 x = .ok r :=
  ⟨_, truncation_check_u32_u16_correct x h⟩
theorem truncation_check_u32_u32_total (x : Int) (h : IntTy.u32.InRange x) : ∃ r, truncation_check_u32_u32 x = .ok r :=
  ⟨_, truncation_check_u32_u32_correct x h⟩
theorem truncation_check_u32_u64_total (x : Int) (h : IntTy.u64.InRange x) : ∃ r, truncation_check_u32_u64 x = .ok r :=
  ⟨_, truncation_check_u32_u64_correct x h⟩
theorem truncation_check_u32_i8_total (x : Int) (h : IntTy.i8.InRange x) : ∃ r, truncation_check_u32_i8 x = .ok r :=
  ⟨_, truncation_check_u32_i8_correct x h⟩
theorem truncation_check_u32_i16_total (x : Int) (h : IntTy.i16.InRange x) : ∃ r, truncation_check_u32_i16 x = .ok r :=
  ⟨_, truncation_check_u32_i16_correct x h⟩
theorem truncation_check_u32_i32_total (x : Int) (h : IntTy.i32.InRange x) : ∃ r, truncation_check_u32_i32 x = .ok r :=
  ⟨_, truncation_check_u32_i32_correct x h⟩
theorem truncation_check_u32_i64_total (x : Int) (h : IntTy.i64.InRange x) : ∃ r, truncation_check_u32_i64 x = .ok r :=
  ⟨_, truncation_check_u32_i64_correct x h⟩
theorem truncation_check_u64_u8_total (x : Int) (h : IntTy.u8.InRange x) : ∃ r, truncation_check_u64_u8 x = .ok r :=
  ⟨_, truncation_check_u64_u8_correct x h⟩
theorem truncation_check_u64_u16_total (x : Int) (h : IntTy.u16.InRange x) : ∃ r, truncation_check_u64_u16 x = .ok r :=
  ⟨_, truncation_check_u64_u16_correct x h⟩
theorem truncation_check_u64_u32_total (x : Int) (h : IntTy.u32.InRange x) : ∃ r, truncation_check_u64_u32 x = .ok r :=
  ⟨_, truncation_check_u64_u32_correct x h⟩
theorem truncation_check_u64_u64_total (x : Int) (h : IntTy.u64.InRange x) : ∃ r, truncation_check_u64_u64 x = .ok r :=
  ⟨_, truncation_check_u64_u64_correct x h⟩
theorem truncation_check_u64_i8_total (x : Int) (h : IntTy.i8.InRange x) : ∃ r, truncation_check_u64_i8 x = .ok r :=
  ⟨_, truncation_check_u64_i8_correct x h⟩
theorem truncation_check_u64_i16_total (x : Int) (h : IntTy.i16.InRange x) : ∃ r, truncation_check_u64_i16 x = .ok r :=
  ⟨_, truncation_check_u64_i16_correct x h⟩
theorem truncation_check_u64_i32_total (x : Int) (h : IntTy.i32.InRange x) : ∃ r, truncation_check_u64_i32 x = .ok r :=
  ⟨_, truncation_check_u64_i32_correct x h⟩
theorem truncation_check_u64_i64_total (x : Int) (h : IntTy.i64.InRange x) : ∃ r, truncation_check_u64_i64 x = .ok r :=
  ⟨_, truncation_check_u64_i64_correct x h⟩
theorem truncation_check_i8_u8_total (x : Int) (h : IntTy.u8.InRange x) : ∃ r, truncation_check_i8_u8 x = .ok r :=
  ⟨_, truncation_check_i8_u8_correct x h⟩
theorem truncation_check_i8_u16_total (x : Int) (h : IntTy.u16.InRange x) : ∃ r, truncation_check_i8_u16 x = .ok r :=
  ⟨_, truncation_check_i8_u16_correct x h⟩
theorem truncation_check_i8_u32_total (x : Int) (h : IntTy.u32.InRange x) : ∃ r, truncation_check_i8_u32 x = .ok r :=
  ⟨_, truncation_check_i8_u32_correct x h⟩
theorem truncation_check_i8_u64_total (x : Int) (h : IntTy.u64.InRange x) : ∃ r, truncation_check_i8_u64 x = .ok r :=
  ⟨_, truncation_check_i8_u64_correct x h⟩
theorem truncation_check_i8_i8_total (x : Int) (h : IntTy.i8.InRange x) : ∃ r, truncation_check_i8_i8 x = .ok r :=
  ⟨_, truncation_check_i8_i8_correct x h⟩
theorem truncation_check_i8_i16_total (x : Int) (h : IntTy.i16.InRange x) : ∃ r, truncation_check_i8_i16 x = .ok r :=
  ⟨_, truncation_check_i8_i16_correct x h⟩
theorem truncation_check_i8_i32_total (x : Int) (h : IntTy.i32.InRange x) : ∃ r, truncation_check_i8_i32 x = .ok r :=
  ⟨_, truncation_check_i8_i32_correct x h⟩
theorem truncation_check_i8_i64_total (x : Int) (h : IntTy.i64.InRange x) : ∃ r, truncation_check_i8_i64 x = .ok r :=
  ⟨_, truncation_check_i8_i64_correct x h⟩
theorem truncation_check_i16_u16_total (x : Int) (h : IntTy.u16.InRange x) : ∃ r, truncation_check_i16_u16 x = .ok r :=
  ⟨_, truncation_check_i16_u16_correct x h⟩
theorem truncation_check_i16_u32_total (x : Int) (h : IntTy.u32.InRange x) : ∃ r, truncation_check_i16_u32 x = .ok r :=
  ⟨_, truncation_check_i16_u32_correct x h⟩
theorem truncation_check_i16_u64_total (x : Int) (h : IntTy.u64.InRange x) : ∃ r, truncation_check_i16_u64 x = .ok r :=
  ⟨_, truncation_check_i16_u64_correct x h⟩
theorem truncation_check_i16_i8_total (x : Int) (h : IntTy.i8.InRange x) : ∃ r, truncation_check_i16_i8 x = .ok r :=
  ⟨_, truncation_check_i16_i8_correct x h⟩
theorem truncation_check_i16_i16_total (x : Int) (h : IntTy.i16.InRange x) : ∃ r, truncation_check_i16_i16 x = .ok r :=
  ⟨_, truncation_check_i16_i16_correct x h⟩
theorem truncation_check_i16_i32_total (x : Int) (h : IntTy.i32.InRange x) : ∃ r, truncation_check_i16_i32 x = .ok r :=
  ⟨_, truncation_check_i16_i32_correct x h⟩
theorem truncation_check_i16_i64_total (x : Int) (h : IntTy.i64.InRange x) : ∃ r, truncation_check_i16_i64 x = .ok r :=
  ⟨_, truncation_check_i16_i64_correct x h⟩
theorem truncation_check_i32_u8_total (x : Int) (h : IntTy.u8.InRange x) : ∃ r, truncation_check_i32_u8 x = .ok r :=
  ⟨_, truncation_check_i32_u8_correct x h⟩
theorem truncation_check_i32_u16_total (x : Int) (h : IntTy.u16.InRange x) : ∃ r, truncation_check_i32_u16 x = .ok r :=
  ⟨_, truncation_check_i32_u16_correct x h⟩
theorem truncation_check_i32_u32_total (x : Int) (h : IntTy.u32.InRange x) : ∃ r, truncation_check_i32_u32 x = .ok r :=
  ⟨_, truncation_check_i32_u32_correct x h⟩
theorem truncation_check_i32_u64_total (x : Int) (h : IntTy.u64.InRange x) : ∃ r, truncation_check_i32_u64 x = .ok r :=
  ⟨_, truncation_check_i32_u64_correct x h⟩
theorem truncation_check_i32_i8_total (x : Int) (h : IntTy.i8.InRange x) : ∃ r, truncation_check_i32_i8 x = .ok r :=
  ⟨_, truncation_check_i32_i8_correct x h⟩
theorem truncation_check_i32_i16_total (x : Int) (h : IntTy.i16.InRange x) : ∃ r, truncation_check_i32_i16 x = .ok r :=
  ⟨_, truncation_check_i32_i16_correct x h⟩
theorem truncation_check_i32_i32_total (x : Int) (h : IntTy.i32.InRange x) : ∃ r, truncation_check_i32_i32 x = .ok r :=
  ⟨_, truncation_check_i32_i32_correct x h⟩
theorem truncation_check_i32_i64_total (x : Int) (h : IntTy.i64.InRange x) : ∃ r, truncation_check_i32_i64 x = .ok r :=
  ⟨_, truncation_check_i32_i64_correct x h⟩
theorem truncation_check_i64_u8_total (x : Int) (h : IntTy.u8.InRange x) : ∃ r, truncation_check_i64_u8 x = .ok r :=
  ⟨_, truncation_check_i64_u8_correct x h⟩
theorem truncation_check_i64_u16_total (x : Int) (h : IntTy.u16.InRange x) : ∃ r, truncation_check_i64_u16 x = .ok r :=
  ⟨_, truncation_check_i64_u16_correct x h⟩
theorem truncation_check_i64_u32_total (x : Int) (h : IntTy.u32.InRange x) : ∃ r, truncation_check_i64_u32 x = .ok r :=
  ⟨_, truncation_check_i64_u32_correct x h⟩
theorem truncation_check_i64_u64_total (x : Int) (h : IntTy.u64.InRange x) : ∃ r, truncation_check_i64_u64 x = .ok r :=
  ⟨_, truncation_check_i64_u64_correct x h⟩
theorem truncation_check_i64_i8_total (x : Int) (h : IntTy.i8.InRange x) : ∃ r, truncation_check_i64_i8 x = .ok r :=
  ⟨_, truncation_check_i64_i8_correct x h⟩
theorem truncation_check_i64_i16_total (x : Int) (h : IntTy.i16.InRange x) : ∃ r, truncation_check_i64_i16 x = .ok r :=
  ⟨_, truncation_check_i64_i16_correct x h⟩
theorem truncation_check_i64_i32_total (x : Int) (h : IntTy.i32.InRange x) : ∃ r, truncation_check_i64_i32 x = .ok r :=
  ⟨_, truncation_check_i64_i32_correct x h⟩
theorem truncation_check_i64_i64_total (x : Int) (h : IntTy.i64.InRange x) : ∃ r, truncation_check_i64_i64 x = .ok r :=
  ⟨_, truncation_check_i64_i64_correct x h⟩
theorem from_int_u8_u8_total (x size : Int) (h : IntTy.u8.InRange x) (hs : IntTy.u8.InRange size) :
    ∃ r, from_int_u8_u8 x size = .ok r := ⟨_, from_int_u8_u8_correct x size h hs⟩
theorem from_int_u8_u32_total (x size : Int) (h : IntTy.u32.InRange x) (hs : IntTy.u8.InRange size) :
    ∃ r, from_int_u8_u32 x size = .ok r := ⟨_, from_int_u8_u32_correct x size h hs⟩
theorem from_int_u8_u64_total (x size : Int) (h : IntTy.u64.InRange x) (hs : IntTy.u8.InRange size) :
    ∃ r, from_int_u8_u64 x size = .ok r := ⟨_, from_int_u8_u64_correct x size h hs⟩
theorem from_int_u16_u8_total (x size : Int) (h : IntTy.u8.InRange x) (hs : IntTy.u16.InRange size) :
    ∃ r, from_int_u16_u8 x size = .ok r := ⟨_, from_int_u16_u8_correct x size h hs⟩
theorem from_int_u16_u16_total (x size : Int) (h : IntTy.u16.InRange x) (hs : IntTy.u16.InRange size) :
    ∃ r, from_int_u16_u16 x size = .ok r := ⟨_, from_int_u16_u16_correct x size h hs⟩
theorem from_int_u16_u32_total (x size : Int) (h : IntTy.u32.InRange x) (hs : IntTy.u16.InRange size) :
    ∃ r, from_int_u16_u32 x size = .ok r := ⟨_, from_int_u16_u32_correct x size h hs⟩
theorem from_int_u16_u64_total (x size : Int) (h : IntTy.u64.InRange x) (hs : IntTy.u16.InRange size) :
    ∃ r, from_int_u16_u64 x size = .ok r := ⟨_, from_int_u16_u64_correct x size h hs⟩
theorem from_int_u32_u8_total (x size : Int) (h : IntTy.u8.InRange x) (hs : IntTy.u32.InRange size) :
    ∃ r, from_int_u32_u8 x size = .ok r := ⟨_, from_int_u32_u8_correct x size h hs⟩
theorem from_int_u32_u16_total (x size : Int) (h : IntTy.u16.InRange x) (hs : IntTy.u32.InRange size) :
    ∃ r, from_int_u32_u16 x size = .ok r := ⟨_, from_int_u32_u16_correct x size h hs⟩
theorem from_int_u32_u32_total (x size : Int) (h : IntTy.u32.InRange x) (hs : IntTy.u32.InRange size) :
    ∃ r, from_int_u32_u32 x size = .ok r := ⟨_, from_int_u32_u32_correct x size h hs⟩
theorem from_int_u32_u64_total (x size : Int) (h : IntTy.u64.InRange x) (hs : IntTy.u32.InRange size) :
    ∃ r, from_int_u32_u64 x size = .ok r := ⟨_, from_int_u32_u64_correct x size h hs⟩
theorem from_int_u64_u8_total (x size : Int) (h : IntTy.u8.InRange x) (hs : IntTy.u64.InRange size) :
    ∃ r, from_int_u64_u8 x size = .ok r := ⟨_, from_int_u64_u8_correct x size h hs⟩
theorem from_int_u64_u16_total (x size : Int) (h : IntTy.u16.InRange x) (hs : IntTy.u64.InRange size) :
    ∃ r, from_int_u64_u16 x size = .ok r := ⟨_, from_int_u64_u16_correct x size h hs⟩
theorem from_int_u64_u32_total (x size : Int) (h : IntTy.u32.InRange x) (hs : IntTy.u64.InRange size) :
    ∃ r, from_int_u64_u32 x size = .ok r := ⟨_, from_int_u64_u32_correct x size h hs⟩
theorem from_int_u64_u64_total (x size : Int) (h : IntTy.u64.InRange x) (hs : IntTy.u64.InRange size) :
    ∃ r, from_int_u64_u64 x size = .ok r := ⟨_, from_int_u64_u64_correct x size h hs⟩
theorem is_power_of_2_u8_total (x : Int) (h : IntTy.u8.InRange x) : ∃ r, is_power_of_2_u8 x = .ok r :=
  let ⟨b, hb, _⟩ := is_power_of_2_u8_correct x h; ⟨b, hb⟩
theorem power_of_2_u8_total (e : Nat) (he : e < 8) : ∃ r, power_of_2_u8 e = .ok r :=
  ⟨_, power_of_2_u8_correct e he⟩
theorem shifted_mask_u8_total (e : Nat) (he : e < 8) : ∃ r, shifted_mask_u8 e = .ok r :=
  ⟨_, shifted_mask_u8_correct e he⟩
theorem bit_test_u8_total (v m : Nat) (hv : (v : Int) ≤ 255) (hm : (m : Int) ≤ 255) :
    ∃ r, bit_test_u8 v m = .ok r := ⟨_, bit_test_u8_correct v m hv hm⟩
theorem log2_u16_total (x : Int) (h : IntTy.u16.InRange x) (hx : 0 < x) : ∃ r, log2_u16 x = .ok r :=
  let ⟨q, hq, _⟩ := log2_u16_correct x h hx; ⟨q, hq⟩
theorem next_power_of_2_u16_total (x : Int) (h : IntTy.u16.InRange x) (hr : x ≤ 32768) :
    ∃ r, next_power_of_2_u16 x = .ok r :=
  let ⟨q, hq, _⟩ := next_power_of_2_u16_correct x h hr; ⟨q, hq⟩
theorem is_power_of_2_u16_total (x : Int) (h : IntTy.u16.InRange x) : ∃ r, is_power_of_2_u16 x = .ok r :=
  let ⟨b, hb, _⟩ := is_power_of_2_u16_correct x h; ⟨b, hb⟩
theorem power_of_2_u16_total (e : Nat) (he : e < 16) : ∃ r, power_of_2_u16 e = .ok r :=
  ⟨_, power_of_2_u16_correct e he⟩
theorem shifted_mask_u16_total (e : Nat) (he : e < 16) : ∃ r, shifted_mask_u16 e = .ok r :=
  ⟨_, shifted_mask_u16_correct e he⟩
theorem bit_test_u16_total (v m : Nat) (hv : (v : Int) ≤ 65535) (hm : (m : Int) ≤ 65535) :
    ∃ r, bit_test_u16 v m = .ok r := ⟨_, bit_test_u16_correct v m hv hm⟩
theorem mod_u16_total (a b : Int) (ha : IntTy.u16.InRange a) (hb : IntTy.u16.InRange b) : ∃ r, mod_u16 a b = .ok r := by
  by_cases h : b = 0
  · subst h; exact ⟨none, mod_u16_zero a⟩
  · exact ⟨_, mod_u16_correct a b ha hb h⟩
theorem is_power_of_2_u32_total (x : Int) (h : IntTy.u32.InRange x) : ∃ r, is_power_of_2_u32 x = .ok r :=
  let ⟨b, hb, _⟩ := is_power_of_2_u32_correct x h; ⟨b, hb⟩
theorem shifted_mask_u32_total (e : Nat) (he : e < 32) : ∃ r, shifted_mask_u32 e = .ok r :=
  ⟨_, shifted_mask_u32_correct e he⟩
theorem bit_test_u32_total (v m : Nat) (hv : (v : Int) ≤ 4294967295) (hm : (m : Int) ≤ 4294967295) :
    ∃ r, bit_test_u32 v m = .ok r := ⟨_, bit_test_u32_correct v m hv hm⟩
theorem mod_u32_total (a b : Int) (ha : IntTy.u32.InRange a) (hb : IntTy.u32.InRange b) : ∃ r, mod_u32 a b = .ok r := by
  by_cases h : b = 0
  · subst h; exact ⟨none, mod_u32_zero a⟩
  · exact ⟨_, mod_u32_correct a b ha hb h⟩
theorem next_power_of_2_u64_total (x : Int) (h : IntTy.u64.InRange x) (hr : x ≤ 9223372036854775808) :
    ∃ r, next_power_of_2_u64 x = .ok r :=
  let ⟨q, hq, _⟩ := next_power_of_2_u64_correct x h hr; ⟨q, hq⟩
theorem power_of_2_u64_total (e : Nat) (he : e < 64) : ∃ r, power_of_2_u64 e = .ok r :=
  ⟨_, power_of_2_u64_correct e he⟩
theorem shifted_mask_u64_total (e : Nat) (he : e < 64) : ∃ r, shifted_mask_u64 e = .ok r :=
  ⟨_, shifted_mask_u64_correct e he⟩
theorem bit_test_u64_total (v m : Nat) (hv : (v : Int) ≤ 18446744073709551615) (hm : (m : Int) ≤ 18446744073709551615) :
    ∃ r, bit_test_u64 v m = .ok r := ⟨_, bit_test_u64_correct v m hv hm⟩
theorem mod_u64_total (a b : Int) (ha : IntTy.u64.InRange a) (hb : IntTy.u64.InRange b) : ∃ r, mod_u64 a b = .ok r := by
  by_cases h : b = 0
  · subst h; exact ⟨none, mod_u64_zero a⟩
  · exact ⟨_, mod_u64_correct a b ha hb h⟩
theorem ceil_div_u64_total (a b : Int) (ha : IntTy.u64.InRange a) (hb : IntTy.u64.InRange b) :
    ∃ r, ceil_div_u64 a b = .ok r := by
  by_cases h : b = 0
  · subst h; exact ⟨none, ceil_div_u64_zero a⟩
  · obtain ⟨q, hq, _⟩ := ceil_div_u64_correct a b ha hb h; exact ⟨some q, hq⟩
theorem div_u32_total (a b : Int) (ha : IntTy.u32.InRange a) (hb : IntTy.u32.InRange b)
    (hr : b ≠ 0 → IntTy.u32.InRange (Int.tdiv a b)) : ∃ r, div_u32 a b = .ok r := by
  by_cases h : b = 0
  · subst h; exact ⟨none, div_u32_zero a⟩
  · exact ⟨_, div_u32_correct a b ha hb h (hr h)⟩
theorem div_u64_total (a b : Int) (ha : IntTy.u64.InRange a) (hb : IntTy.u64.InRange b)
    (hr : b ≠ 0 → IntTy.u64.InRange (Int.tdiv a b)) : ∃ r, div_u64 a b = .ok r := by
  by_cases h : b = 0
  · subst h; exact ⟨none, div_u64_zero a⟩
  · exact ⟨_, div_u64_correct a b ha hb h (hr h)⟩
theorem div_i64_total (a b : Int) (ha : IntTy.i64.InRange a) (hb : IntTy.i64.InRange b)
    (hr : b ≠ 0 → IntTy.i64.InRange (Int.tdiv a b)) : ∃ r, div_i64 a b = .ok r := by
  by_cases h : b = 0
  · subst h; exact ⟨none, div_i64_zero a⟩
  · exact ⟨_, div_i64_correct a b ha hb h (hr h)⟩
theorem clamp_u8_total (v lo hi : Int) (hv : IntTy.u8.InRange v) (hl : IntTy.u8.InRange lo) (hh : IntTy.u8.InRange hi) :
    ∃ r, clamp_u8 v lo hi = .ok r := ⟨_, clamp_u8_correct v lo hi hv hl hh⟩
theorem clamp_u16_total (v lo hi : Int) (hv : IntTy.u16.InRange v) (hl : IntTy.u16.InRange lo) (hh : IntTy.u16.InRange hi) :
    ∃ r, clamp_u16 v lo hi = .ok r := ⟨_, clamp_u16_correct v lo hi hv hl hh⟩
theorem diff_u16_total (a b : Int) (ha : IntTy.u16.InRange a) (hb : IntTy.u16.InRange b)
    (hr : IntTy.u16.InRange (if a < b then b - a else a - b)) : ∃ r, diff_u16 a b = .ok r :=
  ⟨_, diff_u16_correct a b ha hb hr⟩
theorem clamp_u32_total (v lo hi : Int) (hv : IntTy.u32.InRange v) (hl : IntTy.u32.InRange lo) (hh : IntTy.u32.InRange hi) :
    ∃ r, clamp_u32 v lo hi = .ok r := ⟨_, clamp_u32_correct v lo hi hv hl hh⟩
theorem diff_u32_total (a b : Int) (ha : IntTy.u32.InRange a) (hb : IntTy.u32.InRange b)
    (hr : IntTy.u32.InRange (if a < b then b - a else a - b)) : ∃ r, diff_u32 a b = .ok r :=
  ⟨_, diff_u32_correct a b ha hb hr⟩
theorem clamp_u64_total (v lo hi : Int) (hv : IntTy.u64.InRange v) (hl : IntTy.u64.InRange lo) (hh : IntTy.u64.InRange hi) :
    ∃ r, clamp_u64 v lo hi = .ok r := ⟨_, clamp_u64_correct v lo hi hv hl hh⟩
theorem diff_u64_total (a b : Int) (ha : IntTy.u64.InRange a) (hb : IntTy.u64.InRange b)
    (hr : IntTy.u64.InRange (if a < b then b - a else a - b)) : ∃ r, diff_u64 a b = .ok r :=
  ⟨_, diff_u64_correct a b ha hb hr⟩
theorem clamp_i8_total (v lo hi : Int) (hv : IntTy.i8.InRange v) (hl : IntTy.i8.InRange lo) (hh : IntTy.i8.InRange hi) :
    ∃ r, clamp_i8 v lo hi = .ok r := ⟨_, clamp_i8_correct v lo hi hv hl hh⟩
theorem diff_i8_total (a b : Int) (ha : IntTy.i8.InRange a) (hb : IntTy.i8.InRange b)
    (hr : IntTy.i8.InRange (if a < b then b - a else a - b)) : ∃ r, diff_i8 a b = .ok r :=
  ⟨_, diff_i8_correct a b ha hb hr⟩
theorem diff_i16_total (a b : Int) (ha : IntTy.i16.InRange a) (hb : IntTy.i16.InRange b)
    (hr : IntTy.i16.InRange (if a < b then b - a else a - b)) : ∃ r, diff_i16 a b = .ok r :=
  ⟨_, diff_i16_correct a b ha hb hr⟩
theorem clamp_i32_total (v lo hi : Int) (hv : IntTy.i32.InRange v) (hl : IntTy.i32.InRange lo) (hh : IntTy.i32.InRange hi) :
    ∃ r, clamp_i32 v lo hi = .ok r := ⟨_, clamp_i32_correct v lo hi hv hl hh⟩
theorem clamp_i64_total (v lo hi : Int) (hv : IntTy.i64.InRange v) (hl : IntTy.i64.InRange lo) (hh : IntTy.i64.InRange hi) :
    ∃ r, clamp_i64 v lo hi = .ok r := ⟨_, clamp_i64_correct v lo hi hv hl hh⟩
theorem diff_i64_total (a b : Int) (ha : IntTy.i64.InRange a) (hb : IntTy.i64.InRange b)
    (hr : IntTy.i64.InRange (if a < b then b - a else a - b)) : ∃ r, diff_i64 a b = .ok r :=
  ⟨_, diff_i64_correct a b ha hb hr⟩

end Fcppt.C01
