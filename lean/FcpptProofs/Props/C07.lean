import FcpptModel.Spec.C07
/-! Property theorems for C07 — under construction. -/
namespace Fcppt.C07
theorem growth_ge (n c : Nat) : n ≤ growth n c := Nat.le_max_left _ _
end Fcppt.C07
