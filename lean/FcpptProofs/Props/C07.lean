import FcpptModel.Spec.C07
import FcpptProofs.C07.Finish
/-!
# C07 — property theorems

`g` is any growth policy with `n ≤ g n cap` (the code's `max n (2*cap)` is `growth`, see `growth_ge`).
`GInv st ss` (FcpptProofs/C07/Global.lean) says: the heap is well formed, every vector register `r` owns a live
block of exactly `capacity` cells whose first `size` cells hold the list `ss.vec r`, `size ≤ capacity`, every
buffer register likewise with its write area inside the block, no two registers share a block, every live
block belongs to a register.

A history is a list of operations over any number of vector and buffer registers; "valid" means that the List
specification `Spec.sstep` (= std::vector's preconditions: positions inside `[0,size]`, a reference argument
`v[i]` refers to an existing element, …) is defined.

Only theorems live in this file; the lemmas are in `FcpptProofs/C07/`.
-/
namespace Fcppt.C07
open Spec

/-- the code's growth policy satisfies the only assumption made about it -/
theorem growth_ge (n c : Nat) : n ≤ growth n c := Nat.le_max_left _ _

/-- One valid operation (any of: constructors, push_back, pop_back, the three inserts incl. aliased arguments and
input/forward ranges, both erases, resize, reserve, shrink_to_fit, clear, swap, move construction/assignment,
every buffer operation, to_raw_vector): the model does not fault (no out-of-bounds or uninitialised access, no
double free, no wrong-size deallocate), returns the iterator offset std::vector returns, and the invariant +
representation relation hold again for the specification's next state. -/
theorem step_ok (g : Nat → Nat → Nat) (hg : ∀ n c, n ≤ g n c) {st : St} {ss : SSt} (G : GInv st ss)
    (o : Op) (ss' : SSt) (ret : Option Nat) (hs : sstep ss o = some (ss', ret)) :
    ∃ st', step g st o = .ok (st', ret) ∧ GInv st' ss' :=
  step_spec g hg G o ss' ret hs

/-- All histories: from the initial state (all registers default constructed / null) every valid operation
sequence of any length runs without fault and ends in a state related to the specification's state. -/
theorem history (g : Nat → Nat → Nat) (hg : ∀ n c, n ≤ g n c) :
    ∀ (ops : List Op) {st : St} {ss : SSt} (ss' : SSt), GInv st ss → srunAll ss ops = some ss' →
    ∃ st', runAll g st ops = .ok st' ∧ GInv st' ss'
  | [], st, ss, ss', G, hs => by
    simp only [srunAll, Option.some.injEq] at hs
    subst hs
    exact ⟨st, rfl, G⟩
  | o :: os, st, ss, ss', G, hs => by
    simp only [srunAll, Option.bind_eq_some_iff] at hs
    obtain ⟨⟨ss1, ret⟩, h1, h2⟩ := hs
    obtain ⟨st1, he, G1⟩ := step_ok g hg G o ss1 ret h1
    obtain ⟨st2, he2, G2⟩ := history g hg os ss' G1 h2
    exact ⟨st2, by simp only [runAll, he, ok_bind]; exact he2, G2⟩

/-- `history` from the very beginning -/
theorem history_from_init (g : Nat → Nat → Nat) (hg : ∀ n c, n ≤ g n c) (ops : List Op) (ss' : SSt)
    (hs : srunAll SSt.init ops = some ss') : ∃ st', runAll g St.init ops = .ok st' ∧ GInv st' ss' :=
  history g hg ops ss' ginv_init hs

/-- After every valid history: contents (by iteration) and size of every vector are those of std::vector,
and the capacity is never below the size. -/
theorem contents_size_capacity (g : Nat → Nat → Nat) (hg : ∀ n c, n ≤ g n c) (ops : List Op) (ss' : SSt)
    (hs : srunAll SSt.init ops = some ss') :
    ∃ st', runAll g St.init ops = .ok st' ∧
      ∀ r, toList st'.heap (st'.vec r) = .ok (ss'.vec r) ∧ (st'.vec r).last = (ss'.vec r).length ∧
        (st'.vec r).last ≤ (st'.vec r).cap := by
  obtain ⟨st', he, G⟩ := history_from_init g hg ops ss' hs
  exact ⟨st', he, fun r => ⟨toList_of_owns (G.vec r), (G.vec r).1.symm, (G.vec r).2.1⟩⟩

/-- After every valid history a further valid operation returns the iterator (offset from `begin()`) that
std::vector returns, and leaves the contents std::vector has — in particular for `insert(pos, v[i])`,
`insert(pos, n, v[i])`, `push_back(v[i])`, `resize(n, v[i])` with the aliased value read before anything moves. -/
theorem returned_iterator_and_contents (g : Nat → Nat → Nat) (hg : ∀ n c, n ≤ g n c) (ops : List Op) (ss1 : SSt)
    (hs : srunAll SSt.init ops = some ss1) (o : Op) (ss2 : SSt) (ret : Option Nat) (ho : sstep ss1 o = some (ss2, ret)) :
    ∃ st1 st2, runAll g St.init ops = .ok st1 ∧ step g st1 o = .ok (st2, ret) ∧
      ∀ r, toList st2.heap (st2.vec r) = .ok (ss2.vec r) := by
  obtain ⟨st1, he, G⟩ := history_from_init g hg ops ss1 hs
  obtain ⟨st2, he2, G2⟩ := step_ok g hg G o ss2 ret ho
  exact ⟨st1, st2, he, he2, fun r => toList_of_owns (G2.vec r)⟩

/-- The single-vector layer on its own (this is what is used for every `Op.v`): a valid operation on a vector
owning `l` does not fault, refines the list operation, and touches no block of any other owner (`Frame`). -/
theorem vector_op_refines (g : Nat → Nat → Nat) (hg : ∀ n c, n ≤ g n c) {h : Heap} {v : RV} {l : List Int}
    (hwf : HeapWf h) (ho : Owns h v l) (o : VOp) (l' : List Int) (ret : Option Nat) (hs : svstep l o = some (l', ret)) :
    ∃ h' v', vstep g h v o = .ok (h', v', ret) ∧ Owns h' v' l' ∧ Frame h v.base h' v'.base :=
  vstep_spec g hg hwf ho o l' ret hs

/-- A buffer grown and filled in any pattern (any valid history) hands exactly its read area to the
raw_vector it is converted into; the buffer is empty afterwards and nothing is copied or leaked
(the invariant, which includes "every live block has exactly one owner", holds again). -/
theorem buffer_hands_read_area (g : Nat → Nat → Nat) (hg : ∀ n c, n ≤ g n c) (ops : List Op) (ss1 : SSt)
    (hs : srunAll SSt.init ops = some ss1) (r b : Nat) :
    ∃ st1 st2, runAll g St.init ops = .ok st1 ∧ step g st1 (.ctorBuf r b) = .ok (st2, none) ∧
      Buf.readArea st1.heap (st1.buf b) = .ok (ss1.buf b).1 ∧
      toList st2.heap (st2.vec r) = .ok (ss1.buf b).1 ∧
      (st2.buf b).base = none ∧ Buf.readArea st2.heap (st2.buf b) = .ok [] := by
  obtain ⟨st1, he, G⟩ := history_from_init g hg ops ss1 hs
  obtain ⟨st2, he2, G2⟩ := step_ok g hg G (.ctorBuf r b) _ none rfl
  refine ⟨st1, st2, he, he2, ?_, ?_, ?_, ?_⟩
  · rw [readArea_eq]; exact toList_of_owns (G.buf b).1
  · simpa [upd] using toList_of_owns (G2.vec r)
  · -- the buffer register holds null pointers
    simp only [step, toRawVector_eq] at he2
    cases hd : deallocate st1.heap (st1.vec r) with
    | error e => rw [hd] at he2; cases he2
    | ok h1 =>
      rw [hd] at he2
      simp only [ok_bind, pure_eq_ok, Except.ok.injEq, Prod.mk.injEq] at he2
      rw [← he2.1]
      simp [upd, Buf.null]
  · rw [readArea_eq]; simpa [upd] using toList_of_owns (G2.buf b).1

/-- No leak, no double free: after any valid history, running the destructors of all registers succeeds
(each block is freed exactly once, with the size it was allocated with) and leaves no live allocation.
(`hv`/`hb`: registers the history never used still hold null pointers; the driver uses 3 + 2 registers.) -/
theorem no_leak_no_double_free (g : Nat → Nat → Nat) (hg : ∀ n c, n ≤ g n c) (ops : List Op) (ss' : SSt)
    (hs : srunAll SSt.init ops = some ss') (nv nb : Nat) :
    ∃ st', runAll g St.init ops = .ok st' ∧
      ((∀ r, nv ≤ r → (st'.vec r).base = none) → (∀ k, nb ≤ k → (st'.buf k).base = none) →
        ∃ h, finish st' nv nb = .ok h ∧ ∀ i, h.slot i = none) := by
  obtain ⟨st', he, G⟩ := history_from_init g hg ops ss' hs
  exact ⟨st', he, fun hv hb => finish_spec G nv nb hv hb⟩

/-- comparison.hpp: `==` and `<` of two vectors are equality and lexicographic order of the lists they hold -/
theorem comparison_spec {st : St} {ss : SSt} (G : GInv st ss) (r s : Nat) :
    equalV st.heap (st.vec r) (st.vec s) = .ok (ss.vec r == ss.vec s) ∧
    lessV st.heap (st.vec r) (st.vec s) = .ok (lexLt (ss.vec r) (ss.vec s)) := by
  have h1 := toList_of_owns (G.vec r)
  have h2 := toList_of_owns (G.vec s)
  refine ⟨?_, by simp [lessV, h1, h2]⟩
  simp only [equalV]
  by_cases hl : (st.vec r).last = (st.vec s).last
  · simp [hl, h1, h2]
  · have : ss.vec r ≠ ss.vec s := fun he => hl (by rw [← (G.vec r).1, ← (G.vec s).1, he])
    simp [hl, this]

/-! ## non-vacuity: the hypotheses are satisfiable by non-trivial histories -/

/-- a valid history with an aliased in-place insert, an input-range insert, erase, swap, move, a buffer conversion -/
example :
    (srunAll SSt.init
      [.ctor 0 (.il [1, 2, 3]), .v 0 (.reserve 10), .v 0 (.insert1 0 (.slot 1)), .v 0 (.insertN 2 2 (.slot 0)),
       .v 0 (.insertRange 1 [7, 8] false), .v 0 (.eraseR 1 3), .swap 0 1, .ctorMove 2 1,
       .bctor 0 2, .b 0 (.fillWritten [5, 6]), .b 0 (.append 4 [9]), .ctorBuf 1 0]).map
      (fun s => (s.vec 2, s.vec 1, s.buf 0)) = some ([2, 1, 2, 2, 2, 3], [5, 6, 9], ([], 0)) := by decide

/-- the model run of the same history agrees (an instance of `history`, evaluated) -/
example :
    (do let st ← runAll growth St.init
          [.ctor 0 (.il [1, 2, 3]), .v 0 (.reserve 10), .v 0 (.insert1 0 (.slot 1)), .v 0 (.insertN 2 2 (.slot 0)),
           .v 0 (.insertRange 1 [7, 8] false), .v 0 (.eraseR 1 3), .swap 0 1, .ctorMove 2 1,
           .bctor 0 2, .b 0 (.fillWritten [5, 6]), .b 0 (.append 4 [9]), .ctorBuf 1 0]
        let a ← toList st.heap (st.vec 2)
        let b ← toList st.heap (st.vec 1)
        pure (a, b, st.heap.liveCount)) = Except.ok ([2, 1, 2, 2, 2, 3], [5, 6, 9], 2) := by rfl

/-! ## the two repaired defects: the old behaviour violates the specification -/

/-- before fix b34f226 the in-place branch read `_value` after the shift: `{1,2,3}`, capacity 10,
`insert(begin(), v[1])` gave `1,1,2,3`; the specification (std::vector) and the repaired model give `2,1,2,3`. -/
example :
    (do let a ← construct growth Heap.empty (.il [1, 2, 3])
        let b ← reserve growth a.1 a.2 10
        let c ← insertGen growth false b.1 b.2 0 (.one (.slot 1))
        toList c.1 c.2) = Except.ok [1, 1, 2, 3] ∧
    (do let a ← construct growth Heap.empty (.il [1, 2, 3])
        let b ← reserve growth a.1 a.2 10
        let c ← insertGen growth true b.1 b.2 0 (.one (.slot 1))
        toList c.1 c.2) = Except.ok [2, 1, 2, 3] ∧
    (svstep [1, 2, 3] (.insert1 0 (.slot 1))).map (·.1) = some [2, 1, 2, 3] := ⟨by rfl, by rfl, by decide⟩

/-- same for `insert(pos, n, v[i])` -/
example :
    (do let a ← construct growth Heap.empty (.il [1, 2, 3])
        let b ← reserve growth a.1 a.2 10
        let c ← insertGen growth false b.1 b.2 0 (.rep 1 (.slot 1))
        toList c.1 c.2) = Except.ok [1, 1, 2, 3] ∧
    (svstep [1, 2, 3] (.insertN 0 1 (.slot 1))).map (·.1) = some [2, 1, 2, 3] := ⟨by rfl, by decide⟩

/-- before fix dc3c09a `erase(first,last)` returned `last`: for `{1,2,3,4,5}`, `erase(begin()+1, begin()+3)` the old
code returned offset 3; std::vector (the specification) and the repaired model return offset 1. -/
example :
    (svstep [1, 2, 3, 4, 5] (.eraseR 1 3)).map (·.2) = some (some 1) ∧ (some 3 : Option Nat) ≠ some 1 ∧
    (do let a ← construct growth Heap.empty (.il [1, 2, 3, 4, 5])
        let c ← eraseR a.1 a.2 1 3
        pure c.2.2) = Except.ok 1 := ⟨by decide, by decide, by rfl⟩

end Fcppt.C07
