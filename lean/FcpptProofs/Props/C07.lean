/-! Property theorems for C07 — placeholder until the property's model is built. -/
