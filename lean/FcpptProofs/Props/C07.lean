import FcpptModel.Spec.C07
import FcpptProofs.C07.Finish
import FcpptProofs.C07.Extra
import FcpptProofs.C07.Failure
/-!
# C07 — property theorems

`g` is any growth policy with `n ≤ g n cap` (the code's `max n (2*cap)` is `growth`, see `growth_ge`).
`GInv st ss` (FcpptProofs/C07/Global.lean) says: the heap is well formed, every vector register `r` owns a live
block of exactly `capacity` cells whose first `size` cells hold the list `ss.vec r`, `size ≤ capacity`, every
buffer register likewise with its write area inside the block, no two registers share a block, every live
block belongs to a register.

A history is a list of operations over any number of vector and buffer registers; "valid" means that the List
specification `Spec.sstep` (= std::vector's preconditions: positions inside `[0,size]`, a reference argument
`v[i]` refers to an existing element, …) is defined.

Only theorems live in this file; the lemmas are in `FcpptProofs/C07/`.
-/
namespace Fcppt.C07
open Spec

/-- the code's growth policy satisfies the only assumption made about it -/
theorem growth_ge (n c : Nat) : n ≤ growth n c := Nat.le_max_left _ _

/-- One valid operation (any of: constructors, push_back, pop_back, the three inserts incl. aliased arguments and
input/forward ranges, both erases, resize, reserve, shrink_to_fit, clear, swap, move construction/assignment,
every buffer operation, to_raw_vector): the model does not fault (no out-of-bounds or uninitialised access, no
double free, no wrong-size deallocate), returns the iterator offset std::vector returns, and the invariant +
representation relation hold again for the specification's next state. -/
theorem step_ok (g : Nat → Nat → Nat) (hg : ∀ n c, n ≤ g n c) {st : St} {ss : SSt} (G : GInv st ss)
    (o : Op) (ss' : SSt) (ret : Option Nat) (hs : sstep ss o = some (ss', ret)) :
    ∃ st', step g st o = .ok (st', ret) ∧ GInv st' ss' :=
  step_spec g hg G o ss' ret hs

/-- All histories: from the initial state (all registers default constructed / null) every valid operation
sequence of any length runs without fault and ends in a state related to the specification's state. -/
theorem history (g : Nat → Nat → Nat) (hg : ∀ n c, n ≤ g n c) :
    ∀ (ops : List Op) {st : St} {ss : SSt} (ss' : SSt), GInv st ss → srunAll ss ops = some ss' →
    ∃ st', runAll g st ops = .ok st' ∧ GInv st' ss'
  | [], st, ss, ss', G, hs => by
    simp only [srunAll, Option.some.injEq] at hs
    subst hs
    exact ⟨st, rfl, G⟩
  | o :: os, st, ss, ss', G, hs => by
    simp only [srunAll, Option.bind_eq_some_iff] at hs
    obtain ⟨⟨ss1, ret⟩, h1, h2⟩ := hs
    obtain ⟨st1, he, G1⟩ := step_ok g hg G o ss1 ret h1
    obtain ⟨st2, he2, G2⟩ := history g hg os ss' G1 h2
    exact ⟨st2, by simp only [runAll, he, ok_bind]; exact he2, G2⟩

/-- `history` from the very beginning -/
theorem history_from_init (g : Nat → Nat → Nat) (hg : ∀ n c, n ≤ g n c) (ops : List Op) (ss' : SSt)
    (hs : srunAll SSt.init ops = some ss') : ∃ st', runAll g St.init ops = .ok st' ∧ GInv st' ss' :=
  history g hg ops ss' ginv_init hs

/-- After every valid history: contents (by iteration) and size of every vector are those of std::vector,
and the capacity is never below the size. -/
theorem contents_size_capacity (g : Nat → Nat → Nat) (hg : ∀ n c, n ≤ g n c) (ops : List Op) (ss' : SSt)
    (hs : srunAll SSt.init ops = some ss') :
    ∃ st', runAll g St.init ops = .ok st' ∧
      ∀ r, toList st'.heap (st'.vec r) = .ok (ss'.vec r) ∧ (st'.vec r).last = (ss'.vec r).length ∧
        (st'.vec r).last ≤ (st'.vec r).cap := by
  obtain ⟨st', he, G⟩ := history_from_init g hg ops ss' hs
  exact ⟨st', he, fun r => ⟨toList_of_owns (G.vec r), (G.vec r).1.symm, (G.vec r).2.1⟩⟩

/-- After every valid history a further valid operation returns the iterator (offset from `begin()`) that
std::vector returns, and leaves the contents std::vector has — in particular for `insert(pos, v[i])`,
`insert(pos, n, v[i])`, `push_back(v[i])`, `resize(n, v[i])` with the aliased value read before anything moves. -/
theorem returned_iterator_and_contents (g : Nat → Nat → Nat) (hg : ∀ n c, n ≤ g n c) (ops : List Op) (ss1 : SSt)
    (hs : srunAll SSt.init ops = some ss1) (o : Op) (ss2 : SSt) (ret : Option Nat) (ho : sstep ss1 o = some (ss2, ret)) :
    ∃ st1 st2, runAll g St.init ops = .ok st1 ∧ step g st1 o = .ok (st2, ret) ∧
      ∀ r, toList st2.heap (st2.vec r) = .ok (ss2.vec r) := by
  obtain ⟨st1, he, G⟩ := history_from_init g hg ops ss1 hs
  obtain ⟨st2, he2, G2⟩ := step_ok g hg G o ss2 ret ho
  exact ⟨st1, st2, he, he2, fun r => toList_of_owns (G2.vec r)⟩

/-- The single-vector layer on its own (this is what is used for every `Op.v`): a valid operation on a vector
owning `l` does not fault, refines the list operation, and touches no block of any other owner (`Frame`). -/
theorem vector_op_refines (g : Nat → Nat → Nat) (hg : ∀ n c, n ≤ g n c) {h : Heap} {v : RV} {l : List Int}
    (hwf : HeapWf h) (ho : Owns h v l) (o : VOp) (l' : List Int) (ret : Option Nat) (hs : svstep l o = some (l', ret)) :
    ∃ h' v', vstep g h v o = .ok (h', v', ret) ∧ Owns h' v' l' ∧ Frame h v.base h' v'.base :=
  vstep_spec g hg hwf ho o l' ret hs

/-- A buffer grown and filled in any pattern (any valid history) hands exactly its read area to the
raw_vector it is converted into; the buffer is empty afterwards and nothing is copied or leaked
(the invariant, which includes "every live block has exactly one owner", holds again). -/
theorem buffer_hands_read_area (g : Nat → Nat → Nat) (hg : ∀ n c, n ≤ g n c) (ops : List Op) (ss1 : SSt)
    (hs : srunAll SSt.init ops = some ss1) (r b : Nat) :
    ∃ st1 st2, runAll g St.init ops = .ok st1 ∧ step g st1 (.ctorBuf r b) = .ok (st2, none) ∧
      Buf.readArea st1.heap (st1.buf b) = .ok (ss1.buf b).1 ∧
      toList st2.heap (st2.vec r) = .ok (ss1.buf b).1 ∧
      (st2.buf b).base = none ∧ Buf.readArea st2.heap (st2.buf b) = .ok [] := by
  obtain ⟨st1, he, G⟩ := history_from_init g hg ops ss1 hs
  obtain ⟨st2, he2, G2⟩ := step_ok g hg G (.ctorBuf r b) _ none rfl
  refine ⟨st1, st2, he, he2, ?_, ?_, ?_, ?_⟩
  · rw [readArea_eq]; exact toList_of_owns (G.buf b).1
  · simpa [upd] using toList_of_owns (G2.vec r)
  · -- the buffer register holds null pointers
    simp only [step, toRawVector_eq] at he2
    cases hd : deallocate st1.heap (st1.vec r) with
    | error e => rw [hd] at he2; cases he2
    | ok h1 =>
      rw [hd] at he2
      simp only [ok_bind, pure_eq_ok, Except.ok.injEq, Prod.mk.injEq] at he2
      rw [← he2.1]
      simp [upd, Buf.null]
  · rw [readArea_eq]; simpa [upd] using toList_of_owns (G2.buf b).1

/-- ownership transfer without copying: converting buffer `b` into register `r` allocates nothing (`next` unchanged) and the
vector's storage *is* the buffer's block, with the buffer's capacity and the read area as contents (`buffer_hands_read_area`) -/
theorem to_raw_vector_transfers_storage (g : Nat → Nat → Nat) {st st2 : St} {ret : Option Nat} (r b : Nat)
    (he : step g st (.ctorBuf r b) = .ok (st2, ret)) :
    st2.heap.next = st.heap.next ∧ (st2.vec r).base = (st.buf b).base ∧ (st2.vec r).last = (st.buf b).readEnd ∧
      (st2.vec r).cap = (st.buf b).cap ∧ st2.buf b = Buf.null := by
  simp only [step, bind_eq_ok, pure_eq_ok, Except.ok.injEq, Prod.mk.injEq] at he
  obtain ⟨h1, hd, rfl, _⟩ := he
  refine ⟨?_, by simp [upd, toRawVector, Buf.release], by simp [upd, toRawVector, Buf.release],
    by simp [upd, toRawVector, Buf.release], by simp [upd, toRawVector, Buf.release]⟩
  simp only [deallocate] at hd
  split at hd
  · simp only [Except.ok.injEq] at hd; rw [← hd]
  · simp only [Heap.free] at hd
    split at hd
    · cases hd
    · split at hd
      · simp only [Except.ok.injEq] at hd; rw [← hd]; rfl
      · cases hd

/-- No leak, no double free: after any valid history, running the destructors of all registers succeeds
(each block is freed exactly once, with the size it was allocated with) and leaves no live allocation.
(`hv`/`hb`: registers the history never used still hold null pointers; the driver uses 3 + 2 registers.) -/
theorem no_leak_no_double_free (g : Nat → Nat → Nat) (hg : ∀ n c, n ≤ g n c) (ops : List Op) (ss' : SSt)
    (hs : srunAll SSt.init ops = some ss') (nv nb : Nat) :
    ∃ st', runAll g St.init ops = .ok st' ∧
      ((∀ r, nv ≤ r → (st'.vec r).base = none) → (∀ k, nb ≤ k → (st'.buf k).base = none) →
        ∃ h, finish st' nv nb = .ok h ∧ ∀ i, h.slot i = none) := by
  obtain ⟨st', he, G⟩ := history_from_init g hg ops ss' hs
  exact ⟨st', he, fun hv hb => finish_spec G nv nb hv hb⟩

/-- comparison.hpp: `==` and `<` of two vectors are equality and lexicographic order of the lists they hold -/
theorem comparison_spec {st : St} {ss : SSt} (G : GInv st ss) (r s : Nat) :
    equalV st.heap (st.vec r) (st.vec s) = .ok (ss.vec r == ss.vec s) ∧
    lessV st.heap (st.vec r) (st.vec s) = .ok (lexLt (ss.vec r) (ss.vec s)) := by
  have h1 := toList_of_owns (G.vec r)
  have h2 := toList_of_owns (G.vec s)
  refine ⟨?_, by simp [lessV, h1, h2]⟩
  simp only [equalV]
  by_cases hl : (st.vec r).last = (st.vec s).last
  · simp [hl, h1, h2]
  · have : ss.vec r ≠ ss.vec s := fun he => hl (by rw [← (G.vec r).1, ← (G.vec s).1, he])
    simp [hl, this]

/-! ## returned references -/

/-- `v[i]`, `*(begin() + i)`, `data()[i]`, `front()`, `back()` after every valid history: defined exactly when std::vector's
accessor is (`accIdx`), and the reference designates the element std::vector's reference designates. Storing through it is
`VOp.assign`, covered by `step_ok`. -/
theorem references_spec {st : St} {ss : SSt} (G : GInv st ss) (r : Nat) (a : Acc) (i : Nat) (hi : accIdx (ss.vec r) a = some i) :
    ∃ x, (ss.vec r)[i]? = some x ∧ readRef st.heap (st.vec r) a = .ok x :=
  readRef_spec (G.vec r) a i hi

/-- storing through a returned reference changes that element and nothing else (also no other register: `Frame`) -/
theorem reference_store_spec {h : Heap} {v : RV} {l : List Int} (hwf : HeapWf h) (ho : Owns h v l) (a : Acc) (x : Int) (i : Nat)
    (hi : accIdx l a = some i) :
    ∃ h', writeRef h v a x = .ok h' ∧ Owns h' v (l.set i x) ∧ Frame h v.base h' v.base :=
  writeRef_spec hwf ho a x i hi

/-! ## capacity and reallocation -/

/-- the code's growth policy at least doubles -/
theorem growth_doubles : Geo growth := fun n c => by
  show 2 * c ≤ max n (c * 2)
  have := Nat.le_max_right n (c * 2)
  omega

/-- Capacity and storage identity of every valid single-vector operation, for every growth policy `g` with `n ≤ g n c`:
the capacity never decreases except by `shrink_to_fit`, which makes it exactly the size; `reserve(n)` makes it at least `n`;
the storage (hence every iterator / reference into it) stays the same **iff** the new size fits into the old capacity
(for `reserve`: iff `n` does), and then the capacity is unchanged too; under a doubling policy (`growth_doubles`) a
capacity that changes at least doubles.  (`CapFacts`, FcpptProofs/C07/Extra.lean, spells these out per operation.) -/
theorem capacity_and_reallocation (g : Nat → Nat → Nat) (hg : ∀ n c, n ≤ g n c) {h : Heap} {v : RV} {l : List Int}
    (hwf : HeapWf h) (ho : Owns h v l) (o : VOp) (l' : List Int) (ret : Option Nat) (hs : svstep l o = some (l', ret)) :
    ∃ h' v', vstep g h v o = .ok (h', v', ret) ∧ Owns h' v' l' ∧ CapFacts g v v' l' o := by
  obtain ⟨h', v', he, ho', _⟩ := vstep_spec g hg hwf ho o l' ret hs
  have hc := vstep_capacity g hg hwf ho o l' ret hs he
  have hlt := ho.base_lt hwf
  have hl' := ho'.1
  have gen : Fits g h v v' → v.cap ≤ v'.cap ∧ (v'.base = v.base ↔ l'.length ≤ v.cap) ∧ (v'.base = v.base → v'.cap = v.cap) ∧
      (Geo g → v'.cap = v.cap ∨ 2 * v.cap ≤ v'.cap) := fun f => by
    have := f.facts hlt
    rw [hl']; exact this
  refine ⟨h', v', he, ho', ?_⟩
  cases o with
  | shrink => simp only [CapSpec] at hc; simp only [CapFacts]; omega
  | reserve n =>
    simp only [CapSpec] at hc
    simp only [CapFacts]
    obtain ⟨_, hc⟩ := hc
    rcases hc with ⟨a1, a2, a3⟩ | ⟨a1, ⟨b, ab, abn⟩, a3, a4, a5⟩
    · exact ⟨by omega, by omega, ⟨fun _ => a1, fun _ => a2⟩, fun _ => a3, fun _ => Or.inl a3⟩
    · have hne : v'.base ≠ v.base := by
        intro heq
        have := hlt b (by rw [← heq]; exact ab)
        omega
      exact ⟨a3, a4, ⟨fun heq => absurd heq hne, fun hle => by omega⟩, fun heq => absurd heq hne, fun hg2 => Or.inr (a5 hg2)⟩
  | pushBack s => exact gen hc
  | popBack => exact gen hc
  | insert1 pos s => exact gen hc
  | insertN pos n s => exact gen hc
  | insertRange pos xs fwd => exact gen hc
  | erase1 pos => exact gen hc
  | eraseR a b => exact gen hc
  | resize n s => exact gen hc
  | clear => exact gen hc
  | assign a x => exact gen hc
  | insertSelf pos a b => exact gen hc

/-- the same after every valid history, for every register -/
theorem capacity_in_histories (g : Nat → Nat → Nat) (hg : ∀ n c, n ≤ g n c) (ops : List Op) (ss1 : SSt)
    (hs : srunAll SSt.init ops = some ss1) (r : Nat) (o : VOp) (l' : List Int) (ret : Option Nat)
    (ho : svstep (ss1.vec r) o = some (l', ret)) :
    ∃ st1 h' v', runAll g St.init ops = .ok st1 ∧ vstep g st1.heap (st1.vec r) o = .ok (h', v', ret) ∧ Owns h' v' l' ∧
      CapFacts g (st1.vec r) v' l' o := by
  obtain ⟨st1, he, G⟩ := history_from_init g hg ops ss1 hs
  obtain ⟨h', v', hv, hown, hc⟩ := capacity_and_reallocation g hg G.ledger.wf (G.vec r) o l' ret ho
  exact ⟨st1, h', v', he, hv, hown, hc⟩

/-- `resize_write_area(n)` of a buffer keeps the storage iff `n` cells fit behind the read area -/
theorem buffer_reallocation {g : Nat → Nat → Nat} {st : St} {ss : SSt} (G : GInv st ss) (k n : Nat) {h' : Heap} {b' : Buf}
    (he : Buf.resizeWriteArea g st.heap (st.buf k) n = .ok (h', b')) :
    (b'.base = (st.buf k).base ↔ n ≤ (st.buf k).cap - (st.buf k).readEnd) ∧ b'.readEnd = (st.buf k).readEnd ∧
      b'.writeEnd = (st.buf k).readEnd + n :=
  resizeWriteArea_inplace_iff G.ledger.wf (G.buf k) he

/-- `buffer[i]` is the i-th element of the read area -/
theorem buffer_index_spec {st : St} {ss : SSt} (G : GInv st ss) (k i : Nat) (hi : i < (ss.buf k).1.length) :
    Buf.index st.heap (st.buf k) i = .ok (ss.buf k).1[i] :=
  Buf.index_spec (G.buf k) i hi

/-! ## a range of the vector itself -/

/-- `v.insert(v.begin() + pos, v.begin() + a, v.begin() + b)` (not allowed for std::vector): whenever the range lies in front of
the insertion point (`b ≤ pos`, in particular for every append `pos = size()`), a copy of the range is inserted, on the
reallocating path (the old block is read before it is freed) and on the in-place path (the range is not touched by the shift)
alike. Outside this condition the result depends on the capacity — see the refuted `example` below. -/
theorem insert_own_range (g : Nat → Nat → Nat) (hg : ∀ n c, n ≤ g n c) {h : Heap} {v : RV} {l : List Int}
    (hwf : HeapWf h) (ho : Owns h v l) (pos a b : Nat) (hab : a ≤ b) (hbp : b ≤ pos) (hp : pos ≤ l.length) :
    ∃ h' v', insertSelf g h v pos a b = .ok (h', v') ∧ Owns h' v' (insertAt l pos ((l.drop a).take (b - a))) ∧
      Frame h v.base h' v'.base := by
  obtain ⟨h', v', he, ho', hf⟩ := vstep_spec g hg hwf ho (.insertSelf pos a b) _ none
    (by simp only [svstep]; rw [if_pos ⟨hab, hbp, hp⟩])
  refine ⟨h', v', ?_, ho', hf⟩
  simp only [vstep, bind_eq_ok, pure_eq_ok, Except.ok.injEq, Prod.mk.injEq] at he
  obtain ⟨⟨x, y⟩, hxy, rfl, rfl, _⟩ := he
  exact hxy

/-- `fcppt::io::read_chars` (read_from_opt + to_raw_vector) against the stream specification `sreadChars`
(`istream::read(count)` is good iff `count` characters are available): a good read yields a vector that holds exactly the
first `count` characters and owns the only block the call leaves behind; a short read yields nothing and leaves the heap as
it was (the temporary buffer is freed exactly once) -/
theorem read_chars_spec (g : Nat → Nat → Nat) (hg : ∀ n c, n ≤ g n c) {h : Heap} (hwf : HeapWf h) (input : List Int) (count : Nat) :
    match sreadChars input count with
    | some xs => ∃ h' v, readChars g h input count = .ok (h', some v) ∧ Owns h' v xs ∧ Frame h none h' v.base
    | none => ∃ h', readChars g h input count = .ok (h', none) ∧ Frame h none h' none :=
  readChars_spec g hg hwf input count

/-! ## allocation failure (`std::bad_alloc` from `allocate`) -/

/-- Strong guarantee, for every failure schedule `i`: when an operation on one vector other than the single-pass range insert
(push_back, the three inserts incl. own ranges, resize, reserve, shrink_to_fit, …) or an operation on one buffer
(`resize_write_area`, `append_from`, `append_from_opt`) throws, heap and all registers are exactly as before (constructors: `ctor_failure_no_leak`) — so the ownership
invariant still holds (no dangling register, no double free, no leak at `finish`), for the same specification state. -/
theorem alloc_failure_strong_guarantee (i : Inj) (g : Nat → Nat → Nat) {st st' : St} {ss : SSt} (G : GInv st ss) (o : Op)
    (ho : (∃ r vo, o = .v r vo ∧ ∀ pos xs, vo ≠ .insertRange pos xs false) ∨ ∃ k bo, o = .b k bo) (ret : Option Nat)
    (he : stepF i g st o = .ok (.threw st', ret)) :
    st'.heap = st.heap ∧ st'.vec = st.vec ∧ st'.buf = st.buf ∧ GInv st' ss := by
  have fin : st'.heap = st.heap → st'.vec = st.vec → st'.buf = st.buf →
      st'.heap = st.heap ∧ st'.vec = st.vec ∧ st'.buf = st.buf ∧ GInv st' ss := fun h1 h2 h3 => by
    refine ⟨h1, h2, h3, ?_⟩
    cases st' with | mk a b c =>
    cases st with | mk a' b' c' =>
    simp only at h1 h2 h3
    subst h1; subst h2; subst h3
    exact G
  rcases ho with ⟨r, vo, rfl, hne⟩ | ⟨k, bo, rfl⟩
  · simp only [stepF, bind_eq_ok] at he
    obtain ⟨⟨x, i'⟩, hx, he⟩ := he
    cases x with
    | done y => simp only [pure_eq_ok, Except.ok.injEq, Prod.mk.injEq] at he; obtain ⟨hc, _⟩ := he; cases hc
    | threw y =>
      obtain ⟨h', v', r'⟩ := y
      obtain ⟨rfl, rfl⟩ := vstepF_threw hne hx
      simp only [pure_eq_ok, Except.ok.injEq, Prod.mk.injEq, Out.threw.injEq] at he
      obtain ⟨rfl, _⟩ := he
      exact fin rfl (upd_self _ _) rfl
  · simp only [stepF, bind_eq_ok] at he
    obtain ⟨⟨x, i'⟩, hx, he⟩ := he
    cases x with
    | done y => simp only [pure_eq_ok, Except.ok.injEq, Prod.mk.injEq] at he; obtain ⟨hc, _⟩ := he; cases hc
    | threw y =>
      obtain ⟨h', b', r'⟩ := y
      obtain ⟨rfl, rfl⟩ := bstepF_threw hx
      simp only [pure_eq_ok, Except.ok.injEq, Prod.mk.injEq, Out.threw.injEq] at he
      obtain ⟨rfl, _⟩ := he
      exact fin rfl rfl (upd_self _ _)

/-- A throwing constructor (count, forward / single-pass range, initializer_list; any schedule): the register holds no object
(null pointers), every other register is untouched, and every slot of the heap is as it was once the register's previous
object had been destroyed (`h1`) — in particular what the single-pass insertion had allocated before the failing allocation
has been given back (fix db1a7e0). The ownership invariant holds again: no dangling register, no double free, no leak. -/
theorem ctor_failure_no_leak (i : Inj) (g : Nat → Nat → Nat) (hg : ∀ n c, n ≤ g n c) {st st' : St} {ss : SSt} (G : GInv st ss)
    (r : Nat) (c : Ctor) (ret : Option Nat) (he : stepF i g st (.ctor r c) = .ok (.threw st', ret)) :
    ∃ h1, deallocate st.heap (st.vec r) = .ok h1 ∧ (∀ j, st'.heap.slot j = h1.slot j) ∧
      st'.vec = upd st.vec r RV.null ∧ st'.buf = st.buf ∧ GInv st' ⟨upd ss.vec r [], ss.buf⟩ := by
  have hwf := G.ledger.wf
  obtain ⟨h1, hd, hf1⟩ := destroy_spec hwf (G.vec r)
  have hd' := hd
  simp only [stepF, hd, ok_bind, bind_eq_ok] at he
  obtain ⟨⟨x, i'⟩, hx, he⟩ := he
  cases x with
  | done y => simp only [pure_eq_ok, Except.ok.injEq, Prod.mk.injEq] at he; obtain ⟨hc, _⟩ := he; cases hc
  | threw y =>
    obtain ⟨h2, v2⟩ := y
    obtain ⟨rfl, hf2⟩ := constructF_threw g hg hf1.wf c hx
    simp only [pure_eq_ok, Except.ok.injEq, Prod.mk.injEq, Out.threw.injEq] at he
    obtain ⟨rfl, _⟩ := he
    refine ⟨h1, hd', fun j => hf2.other j (by simp) (by simp), rfl, rfl, ?_⟩
    exact ginv_update_vec G r (v' := RV.null) (Frame.trans hwf ((G.vec r).base_lt hwf) hf1 hf2) (Owns.null h2)

/-- the range constructor before fix db1a7e0 (`catchRange := false`) is refuted: when the single-pass insertion throws at its
second allocation, the block the first insertion allocated stays live although no object exists; the fixed constructor gives
it back -/
example :
    (do let r ← constructF ⟨some 2, none⟩ growth Heap.empty (.range [1, 2, 3] false) false
        match r.1 with
        | .threw s => pure (s.1.liveCount, s.2.base.isSome)
        | .done _ => pure (99, false)) = Except.ok (1, true) ∧
    (do let r ← constructF ⟨some 2, none⟩ growth Heap.empty (.range [1, 2, 3] false)
        match r.1 with
        | .threw s => pure (s.1.liveCount, s.2.base.isSome)
        | .done _ => pure (99, false)) = Except.ok (0, false) := ⟨by rfl, by rfl⟩

/-- a history in which allocations fail, evaluated with the code's policy: a failing `reserve` on an emptied vector that still
owns its store, a failing `shrink_to_fit`, a failing reallocating `push_back`, the single-pass insert failing at its second
allocation (basic guarantee: the first element stays), failing constructors (register left null), a failing
`resize_write_area` — every register stays usable and the destructors leave no block and free none twice -/
example :
    (do let run := fun (st : St) (i : Inj) (o : Op) => (do
          let x ← stepF i growth st o
          match x.1 with | .done s => pure s | .threw s => pure s : M St)
        let st ← run St.init Inj.none (.ctor 0 (.il [1, 2, 3]))
        let st ← run st Inj.none (.v 0 .clear)
        let st ← run st ⟨some 1, none⟩ (.v 0 (.reserve 10))
        let st ← run st Inj.none (.v 0 (.pushBack (.val 7)))
        let st ← run st ⟨some 1, none⟩ (.v 0 .shrink)
        let st ← run st ⟨none, some 3⟩ (.v 0 (.insertN 0 5 (.slot 0)))
        let st ← run st ⟨some 2, none⟩ (.v 1 (.insertRange 0 [4, 5, 6] false))
        let st ← run st ⟨some 1, none⟩ (.ctor 2 (.count 4 9))
        let st ← run st Inj.none (.bctor 0 2)
        let st ← run st ⟨some 1, none⟩ (.b 0 (.append 5 [1]))
        let st ← run st ⟨some 2, none⟩ (.bread 1 4 [1, 2])
        let a ← toList st.heap (st.vec 0)
        let b ← toList st.heap (st.vec 1)
        let c ← toList st.heap (st.vec 2)
        let h ← finish st 3 2
        pure (a, b, c, (st.vec 0).cap, (st.buf 0).writeSize, st.heap.liveCount, h.liveCount)) =
      Except.ok ([7], [4], [], 3, 2, 3, 0) := by rfl

/-- the seeded variant of `reallocate` (an empty vector gives its store back *before* the new one is allocated) is refuted:
when that allocation throws, the vector still has the pointers of a block that is no longer allocated, and its destructor
frees it a second time; the code's order (`vstepF`: allocate first) leaves heap and vector as they were -/
example :
    (do let a ← construct growth Heap.empty (.il [1, 2, 3])
        let c ← clear a.1 a.2
        let r ← reallocateFreeFirstF ⟨some 1, none⟩ c.1 c.2 10
        match r with
        | .done _ => pure (false, false)
        | .threw s => pure ((s.2.base.bind fun b => s.1.slot b).isNone && s.2.base.isSome,
                            (match deallocate s.1 s.2 with | .error .doubleFree => true | _ => false))) = Except.ok (true, true) ∧
    (do let a ← construct growth Heap.empty (.il [1, 2, 3])
        let c ← clear a.1 a.2
        let r ← vstepF ⟨some 1, none⟩ growth c.1 c.2 (.reserve 10)
        match r.1 with
        | .done _ => pure (false, false)
        | .threw s => pure ((s.2.1.base.bind fun b => s.1.slot b).isSome,
                            (deallocate s.1 s.2.1).toOption.isSome)) = Except.ok (true, true) := ⟨by rfl, by rfl⟩

/-! ## derived comparison operators, dynamic_array -/

/-- comparison.hpp `!= > >= <=` as defined there from `==` and `<`: negated equality, the flipped order, and
`<=` / `>=` are "less or equal" / "greater or equal" of the lexicographic order (`lexLt_total`) -/
theorem comparison_derived_spec {st : St} {ss : SSt} (G : GInv st ss) (r s : Nat) :
    neV st.heap (st.vec r) (st.vec s) = .ok (!(ss.vec r == ss.vec s)) ∧
    gtV st.heap (st.vec r) (st.vec s) = .ok (lexLt (ss.vec s) (ss.vec r)) ∧
    leV st.heap (st.vec r) (st.vec s) = .ok (lexLt (ss.vec r) (ss.vec s) || ss.vec r == ss.vec s) ∧
    geV st.heap (st.vec r) (st.vec s) = .ok (lexLt (ss.vec s) (ss.vec r) || ss.vec s == ss.vec r) := by
  obtain ⟨h1, h2⟩ := comparison_spec G r s
  obtain ⟨_, h4⟩ := comparison_spec G s r
  refine ⟨by simp [neV, h1], by simp [gtV, h4], ?_, ?_⟩
  · simp only [leV, gtV, h4, ok_bind, pure_eq_ok]; rw [lexLt_total]
  · simp only [geV, h2, ok_bind, pure_eq_ok]; rw [lexLt_total]

/-- `dynamic_array<T>(n)`: `size()` and `data_end() - data()` are `n`, what is stored through `data()` inside the array is read
back, the destructor returns the allocation with the size it was allocated with: afterwards the heap is as before. -/
theorem dynamic_array_roundtrip {h : Heap} (hwf : HeapWf h) (n : Nat) (xs : List Int) (hx : xs.length ≤ n) :
    ∃ h', dynRoundTrip h n xs = .ok (h', n, n, xs) ∧ (∀ i, h'.slot i = h.slot i) :=
  let ⟨h', he, hs, _⟩ := dynRoundTrip_spec hwf n xs hx
  ⟨h', he, hs⟩

/-! ## non-vacuity: the hypotheses are satisfiable by non-trivial histories -/

/-- a valid history with an aliased in-place insert, an input-range insert, erase, swap, move, a buffer conversion -/
example :
    (srunAll SSt.init
      [.ctor 0 (.il [1, 2, 3]), .v 0 (.reserve 10), .v 0 (.insert1 0 (.slot 1)), .v 0 (.insertN 2 2 (.slot 0)),
       .v 0 (.insertRange 1 [7, 8] false), .v 0 (.eraseR 1 3), .swap 0 1, .ctorMove 2 1,
       .bctor 0 2, .b 0 (.fillWritten [5, 6]), .b 0 (.append 4 [9]), .ctorBuf 1 0]).map
      (fun s => (s.vec 2, s.vec 1, s.buf 0)) = some ([2, 1, 2, 2, 2, 3], [5, 6, 9], ([], 0)) := by decide

/-- the model run of the same history agrees (an instance of `history`, evaluated) -/
example :
    (do let st ← runAll growth St.init
          [.ctor 0 (.il [1, 2, 3]), .v 0 (.reserve 10), .v 0 (.insert1 0 (.slot 1)), .v 0 (.insertN 2 2 (.slot 0)),
           .v 0 (.insertRange 1 [7, 8] false), .v 0 (.eraseR 1 3), .swap 0 1, .ctorMove 2 1,
           .bctor 0 2, .b 0 (.fillWritten [5, 6]), .b 0 (.append 4 [9]), .ctorBuf 1 0]
        let a ← toList st.heap (st.vec 2)
        let b ← toList st.heap (st.vec 1)
        pure (a, b, st.heap.liveCount)) = Except.ok ([2, 1, 2, 2, 2, 3], [5, 6, 9], 2) := by rfl

/-- the operations added later are valid for the specification and run in the model: stores through `v[i]` / `front()` / `back()`,
self-move-assignment of a vector and of a buffer, `read_from_opt` with a succeeding and a failing source, conversion of a
released buffer -/
example :
    (srunAll SSt.init
      [.ctor 0 (.il [1, 2, 3]), .v 0 (.assign (.index 1) 7), .v 0 (.assign .front 8), .v 0 (.assign .back 9), .moveAssign 0 0,
       .breadOpt 0 4 (some [5, 6]), .bmoveAssign 0 0, .breadOpt 1 3 none, .ctorBuf 1 0, .ctorBuf 2 0]).map
      (fun s => (s.vec 0, s.vec 1, s.vec 2, s.buf 0, s.buf 1)) = some ([8, 7, 9], [5, 6], [], ([], 0), ([], 0)) := by rfl

example :
    (do let st ← runAll growth St.init
          [.ctor 0 (.il [1, 2, 3]), .v 0 (.assign (.index 1) 7), .v 0 (.assign .front 8), .v 0 (.assign .back 9), .moveAssign 0 0,
           .breadOpt 0 4 (some [5, 6]), .bmoveAssign 0 0, .breadOpt 1 3 none, .ctorBuf 1 0, .ctorBuf 2 0]
        let a ← toList st.heap (st.vec 0)
        let b ← toList st.heap (st.vec 1)
        let x ← readRef st.heap (st.vec 0) .back
        pure (a, b, x, (st.vec 1).cap, st.heap.liveCount)) = Except.ok ([8, 7, 9], [5, 6], 9, 4, 2) := by rfl

/-- `capacity_and_reallocation` at work: after `reserve(10)`, `clear()` and three `push_back`s keep the storage (same block,
capacity 10); `shrink_to_fit` then makes the capacity 3; the next `push_back` at least doubles it -/
example :
    (do let a ← construct growth Heap.empty (.il [1, 2, 3])
        let b ← reserve growth a.1 a.2 10
        let c ← clear b.1 b.2
        let d ← pushBack growth c.1 c.2 (.val 4)
        let e ← pushBack growth d.1 d.2 (.slot 0)
        let f ← pushBack growth e.1 e.2 (.val 5)
        let s ← shrinkToFit f.1 f.2
        let p ← pushBack growth s.1 s.2 (.val 6)
        pure (b.2.base == f.2.base, f.2.cap, s.2.cap, p.2.cap)) = Except.ok (true, 10, 3, 6) := by rfl

/-- `dynamic_array_roundtrip`, evaluated -/
example : (dynRoundTrip Heap.empty 4 [7, 8]).map (fun r => (r.2, r.1.liveCount)) = Except.ok ((4, 4, [7, 8]), 0) := by rfl

/-- a range of the vector itself *behind* the insertion point: `{1,2,3,4}`, `insert(begin(), begin()+2, begin()+4)`.
With capacity 4 the vector reallocates and a copy of `3,4` is inserted; with capacity 10 the in-place path shifts first and
then reads `1,2` where `3,4` used to be (observed identically on the real code by the correspondence, `std=na` lines).
This is why the specification covers own ranges only in front of the insertion point (`insert_own_range`). -/
example :
    (do let a ← construct growth Heap.empty (.il [1, 2, 3, 4])
        let c ← insertSelf growth a.1 a.2 0 2 4
        toList c.1 c.2) = Except.ok [3, 4, 1, 2, 3, 4] ∧
    (do let a ← construct growth Heap.empty (.il [1, 2, 3, 4])
        let b ← reserve growth a.1 a.2 10
        let c ← insertSelf growth b.1 b.2 0 2 4
        toList c.1 c.2) = Except.ok [1, 2, 1, 2, 3, 4] ∧
    (do let a ← construct growth Heap.empty (.il [1, 2, 3, 4])
        let b ← reserve growth a.1 a.2 10
        let c ← insertSelf growth b.1 b.2 4 1 3
        toList c.1 c.2) = Except.ok [1, 2, 3, 4, 2, 3] ∧
    (svstep [1, 2, 3, 4] (.insertSelf 4 1 3)).map (·.1) = some [1, 2, 3, 4, 2, 3] ∧
    svstep [1, 2, 3, 4] (.insertSelf 0 2 4) = none := ⟨by rfl, by rfl, by rfl, by decide, by decide⟩

/-! ## the two repaired defects: the old behaviour violates the specification -/

/-- before fix b34f226 the in-place branch read `_value` after the shift: `{1,2,3}`, capacity 10,
`insert(begin(), v[1])` gave `1,1,2,3`; the specification (std::vector) and the repaired model give `2,1,2,3`. -/
example :
    (do let a ← construct growth Heap.empty (.il [1, 2, 3])
        let b ← reserve growth a.1 a.2 10
        let c ← insertGen growth false b.1 b.2 0 (.one (.slot 1))
        toList c.1 c.2) = Except.ok [1, 1, 2, 3] ∧
    (do let a ← construct growth Heap.empty (.il [1, 2, 3])
        let b ← reserve growth a.1 a.2 10
        let c ← insertGen growth true b.1 b.2 0 (.one (.slot 1))
        toList c.1 c.2) = Except.ok [2, 1, 2, 3] ∧
    (svstep [1, 2, 3] (.insert1 0 (.slot 1))).map (·.1) = some [2, 1, 2, 3] := ⟨by rfl, by rfl, by decide⟩

/-- same for `insert(pos, n, v[i])` -/
example :
    (do let a ← construct growth Heap.empty (.il [1, 2, 3])
        let b ← reserve growth a.1 a.2 10
        let c ← insertGen growth false b.1 b.2 0 (.rep 1 (.slot 1))
        toList c.1 c.2) = Except.ok [1, 1, 2, 3] ∧
    (svstep [1, 2, 3] (.insertN 0 1 (.slot 1))).map (·.1) = some [2, 1, 2, 3] := ⟨by rfl, by decide⟩

/-- before fix dc3c09a `erase(first,last)` returned `last`: for `{1,2,3,4,5}`, `erase(begin()+1, begin()+3)` the old
code returned offset 3; std::vector (the specification) and the repaired model return offset 1. -/
example :
    (svstep [1, 2, 3, 4, 5] (.eraseR 1 3)).map (·.2) = some (some 1) ∧ (some 3 : Option Nat) ≠ some 1 ∧
    (do let a ← construct growth Heap.empty (.il [1, 2, 3, 4, 5])
        let c ← eraseR a.1 a.2 1 3
        pure c.2.2) = Except.ok 1 := ⟨by decide, by decide, by rfl⟩

end Fcppt.C07
