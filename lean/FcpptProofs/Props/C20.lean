import FcpptModel.Spec.C20
import FcpptProofs.C20.Lemmas
import FcpptProofs.C20.Script
import FcpptProofs.C20.ScriptRange
/-!
# C20 — property theorems

Throughout, `G` is an arbitrary engine, `D` an arbitrary standard distribution with a two-component
`param_type`, `ty` an arbitrary result-type shape (plain / nested strong typedefs / enum, any nesting), and
`β` an arbitrary base type.  Nothing about the numbers the standard library produces is assumed in the
transparency theorems; the range theorems assume exactly the standard's contract (`StdDist.UniformInt`).
Only theorems and examples live here; lemmas are in `FcpptProofs/C20/Lemmas.lean`.
-/
namespace Fcppt.C20
variable {β δ γ : Type}

/-! ## type_iso is an isomorphism -/

/-- `base_value(decorated_value<R>(x)) = x` for every result-type shape -/
theorem undecorate_decorate (t : Ty) (x : β) : undecorate (decorate t x) = x :=
  undecorate_decorate' t x

/-- `decorated_value<R>(base_value(v)) = v` for every value `v` of type `R` -/
theorem decorate_undecorate (v : DVal β) (t : Ty) (h : v.HasTy t) : decorate t (undecorate v) = v :=
  decorate_undecorate' v t h

/-- `decorated_value<R>` produces a value of type `R` -/
theorem decorate_hasTy (t : Ty) (x : β) : (decorate t x).HasTy t := decorate_hasTy' t x

/-! ## the generator wrapper is transparent -/

/-- `generator::basic_pseudo<G>` is, for a distribution, the same generator as `G`
(same `operator()`, `min()`, `max()`), whatever the engine is. -/
theorem basicPseudo_transparent (G : Gen γ) : basicPseudo G = G := rfl

/-- hence any distribution draws the same value and leaves the same states behind -/
theorem draw_through_basicPseudo (D : StdDist β δ) (G : Gen γ) (d : δ) (g : γ) :
    D.draw (basicPseudo G) d g = D.draw G d g := rfl

/-- seeding: the wrapped engine is constructed from exactly the value inside the `seed` strong typedef -/
theorem basicPseudoSeed_eq {σ : Type} (mkEngine : σ → γ) (s : σ) :
    basicPseudoSeed mkEngine (.strong (.base s)) = mkEngine s := rfl

/-! ## parameters -/

/-- **The interval is passed exactly**: a distribution constructed from bounds `a`, `b` given in any result
type hands `(a, b)` to the wrapped distribution's constructor — for every constructor of `basic`. -/
theorem interval_passed_exactly (D : StdDist β δ) (ty : Ty) (a b : β) :
    (Basic.ctor D ⟨decorate ty a, decorate ty b⟩).dist = D.ofParam (a, b) ∧
    (Basic.ctor2 D (decorate ty a) (decorate ty b)).dist = D.ofParam (a, b) ∧
    (Variate.ctorParam D ⟨decorate ty a, decorate ty b⟩).distribution.dist = D.ofParam (a, b) ∧
    ∀ d : Basic δ, (Basic.setParam D d ⟨decorate ty a, decorate ty b⟩).dist = D.setParam d.dist (a, b) := by
  simp [Basic.ctor, Basic.ctor2, Variate.ctorParam, Basic.setParam, Param2.convertFrom, undecorate_decorate']

/-- the same for arbitrary (not necessarily freshly decorated) bounds: what arrives is their base values -/
theorem interval_passed_exactly' (D : StdDist β δ) (p : Param2 β) :
    (Basic.ctor D p).dist = D.ofParam (undecorate p.fst, undecorate p.snd) := rfl

/-- what the wrapped distribution then reports as its parameters, under [rand.req.dist] -/
theorem wrapped_params (D : StdDist β δ) (hL : D.Lawful) (ty : Ty) (a b : β) :
    D.param (Basic.ctor D ⟨decorate ty a, decorate ty b⟩).dist = (a, b) ∧
    ∀ d : Basic δ, D.param (Basic.setParam D d ⟨decorate ty a, decorate ty b⟩).dist = (a, b) := by
  refine ⟨?_, fun d => ?_⟩
  · rw [(interval_passed_exactly D ty a b).1, hL.param_ofParam]
  · rw [(interval_passed_exactly D ty a b).2.2.2 d, hL.param_setParam]

/-- **Parameter round trip** `convert_to ∘ convert_from = id` on well-typed parameters and
`convert_from ∘ convert_to = id`.  (`convert_to` cannot be instantiated on the pinned tree — see notes — so
this half of the statement is about the model of the text only; `convert_from` is tied.) -/
theorem params_roundtrip (ty : Ty) (p : Param2 β) (h1 : p.fst.HasTy ty) (h2 : p.snd.HasTy ty) (q : β × β) :
    Param2.convertTo ty p.convertFrom = p ∧ (Param2.convertTo ty q).convertFrom = q := by
  constructor
  · cases p with
    | mk f s => simp [Param2.convertTo, Param2.convertFrom, decorate_undecorate' f ty h1, decorate_undecorate' s ty h2]
  · simp [Param2.convertTo, Param2.convertFrom, undecorate_decorate']

/-- reading the parameters of a freshly constructed distribution back gives the parameters it was built from -/
theorem readParams_ctor (D : StdDist β δ) (hL : D.Lawful) (ty : Ty) (p : Param2 β)
    (h1 : p.fst.HasTy ty) (h2 : p.snd.HasTy ty) : Basic.readParams D ty (Basic.ctor D p) = p := by
  unfold Basic.readParams Basic.ctor
  rw [hL.param_ofParam]
  exact (params_roundtrip ty p h1 h2 (p.convertFrom)).1

/-- `min()` / `max()` are the wrapped distribution's, decorated -/
theorem min_max_decorated (D : StdDist β δ) (ty : Ty) (b : Basic δ) :
    Basic.min D ty b = decorate ty (D.min b.dist) ∧ Basic.max D ty b = decorate ty (D.max b.dist) := ⟨rfl, rfl⟩

/-! ## transparency -/

/-- **Transparency of a variate.**  For every engine `G`, distribution `D`, result type `ty`, number of
draws `n`, variate state and generator state: the variate over `basic_pseudo<G>` yields exactly the values
the bare distribution yields from the bare engine, re-wrapped by `decorate ty`, and leaves the wrapped
distribution and the (shared) generator in exactly the states the bare run leaves them in. -/
theorem variate_transparent (D : StdDist β δ) (ty : Ty) (G : Gen γ) (n : Nat) (v : Variate δ) (g : γ) :
    Variate.draws D ty (basicPseudo G) n v g =
      (((stdDraws D G n v.distribution.dist g).1.map (decorate ty)),
        ⟨⟨(stdDraws D G n v.distribution.dist g).2.1⟩⟩,
        (stdDraws D G n v.distribution.dist g).2.2) :=
  variate_draws_eq D ty G n v g

/-- the same, starting from the requested parameters: `variate(gen, basic(min(a), max(b)))` draws
`map decorate (draws of D(a, b))` -/
theorem transparent (D : StdDist β δ) (ty : Ty) (G : Gen γ) (a b : β) (n : Nat) (g : γ) :
    (Variate.draws D ty (basicPseudo G) n (Variate.ctor (Basic.ctor D ⟨decorate ty a, decorate ty b⟩)) g).1 =
      (stdDraws D G n (D.ofParam (a, b)) g).1.map (decorate ty) ∧
    (Variate.draws D ty (basicPseudo G) n (Variate.ctorParam D ⟨decorate ty a, decorate ty b⟩) g).1 =
      (stdDraws D G n (D.ofParam (a, b)) g).1.map (decorate ty) := by
  have h := (interval_passed_exactly D ty a b).1
  constructor
  · rw [variate_transparent]; simp only [Variate.ctor]; rw [h]
  · rw [variate_transparent]; simp only [Variate.ctorParam]; rw [h]

/-- **Transparency over histories.**  Any interleaving of draws, `reset()` and `param(p)` on a
`distribution::basic` gives the decorated values of the same history on the wrapped distribution (with the
parameters' base values), and the same final distribution and generator states. -/
theorem history_transparent (D : StdDist β δ) (ty : Ty) (G : Gen γ) (ops : List (Op β)) (b : Basic δ) (g : γ) :
    runF D ty (basicPseudo G) ops b g =
      (((runS D G ops b.dist g).1.map (decorate ty)), ⟨(runS D G ops b.dist g).2.1⟩, (runS D G ops b.dist g).2.2) :=
  runF_eq D ty G ops b g

/-- nothing is lost or added: the variate draws exactly `n` values -/
theorem draws_length (D : StdDist β δ) (ty : Ty) (G : Gen γ) (n : Nat) (v : Variate δ) (g : γ) :
    (Variate.draws D ty G n v g).1.length = n := by
  rw [variate_draws_eq]; simp [stdDraws_length]

/-- the undecorated fcppt sequence *is* the standard sequence -/
theorem undecorated_draws (D : StdDist β δ) (ty : Ty) (G : Gen γ) (n : Nat) (v : Variate δ) (g : γ) :
    (Variate.draws D ty (basicPseudo G) n v g).1.map undecorate = (stdDraws D G n v.distribution.dist g).1 := by
  rw [variate_transparent]
  simp [List.map_map, Function.comp_def, undecorate_decorate']

/-- every drawn value has the requested result type -/
theorem draws_hasTy (D : StdDist β δ) (ty : Ty) (G : Gen γ) (n : Nat) (v : Variate δ) (g : γ) :
    ∀ x ∈ (Variate.draws D ty G n v g).1, x.HasTy ty := by
  intro x hx
  rw [variate_draws_eq] at hx
  simp only [List.mem_map] at hx
  obtain ⟨y, _, rfl⟩ := hx
  exact decorate_hasTy' ty y

/-! ## programs over several objects -/

/-- **Transparency of whole programs.**  Take any program over any number of `distribution::basic` objects
and `variate`s on two generators of one type: construction by either constructor / `make_basic`, copy construction,
copy assignment (also onto itself), moves, `swap`, draws from any object in any interleaving, `reset()`,
`param(p)`, `==`, `min()` / `max()` / parameters / `operator<<`, variates built from a distribution in whatever
state it is (`variate(gen, dist)`, `make_variate`, `variate(gen, params)`), copies and assignments of variates
(the target then draws from the generator the source refers to), and direct calls of the generators in between.  It fails (uses an object that does not exist) exactly when the same program
written against the bare standard distribution and the bare engine fails, and otherwise every observation
is the standard program's observation with the drawn values / `min` / `max` re-wrapped by `decorate`, and
every object ends in exactly the state of its standard counterpart — in particular a copy continues the
sequence of its original from the original's state, and drawing never happens on a temporary copy. -/
theorem script_transparent (D : StdDist β δ) (out : δ → String) (ty : Ty) (G : Gen γ)
    (acts : List (Act β)) (s : ObjsF δ) (g : γ × γ) :
    (runScriptF D out ty (basicPseudo G) acts s g).map (fun r => (r.1, r.2.1.erase, r.2.2)) =
      (runScriptS D out G acts s.erase g).map (fun r => (r.1.map (Ev.map (decorate ty)), r.2.1, r.2.2)) :=
  runScriptF_erase D out ty G acts s g

/-- forgetting the wrappers loses nothing: two fcppt object tables with the same standard counterparts are equal -/
theorem erase_injective (s t : ObjsF δ) (h : s.erase = t.erase) : s = t :=
  ObjsF.erase_inj s t h

/-- **A copy continues the sequence of its original.**  Right after `D_i` has been made from `D_j` (copy
construction, copy assignment, move), a draw from `D_i` yields exactly what a draw from `D_j` would have yielded
at that point, advances the generator the same way and leaves `D_i` in the state `D_j` would have been left in:
nothing of the wrapped distribution's state is lost or restarted by copying. -/
theorem copy_continues_sequence (D : StdDist β δ) (out : δ → String) (ty : Ty) (G : Gen γ) (i j : Nat) (w : Bool)
    (s : ObjsF δ) (g : γ × γ) (d : Basic δ) (hj : s.dist j = some d) :
    (runScriptF D out ty G [.copy i j false, .draw i w] s g).map (fun r => (r.1, r.2.1.dist i, r.2.2)) =
      (runScriptF D out ty G [.draw j w] s g).map (fun r => (r.1, r.2.1.dist j, r.2.2)) ∧
    (runScriptF D out ty G [.draw j w] s g).map (fun r => (r.1, r.2.1.dist j, r.2.2)) =
      .ok ([.val (Basic.draw D ty G d (pick w g)).1], some (Basic.draw D ty G d (pick w g)).2.1,
        put w g (Basic.draw D ty G d (pick w g)).2.2) := by
  constructor <;> simp [runScriptF, stepF, hj, upd, Except.map]

/-- **A variate holds its own copy of the distribution.**  Building `V_k` from `D_i` and drawing from `V_k`
leaves every distribution object, `D_i` included, exactly as it was; the value drawn is the one `D_i` itself would
have produced next from the generator the variate refers to. -/
theorem variate_owns_copy (D : StdDist β δ) (out : δ → String) (ty : Ty) (G : Gen γ) (k i : Nat) (w : Bool)
    (s : ObjsF δ) (g : γ × γ) (d : Basic δ) (hi : s.dist i = some d) :
    (runScriptF D out ty G [.varD k i w, .vdraw k] s g).map (fun r => (r.1, r.2.1.dist, r.2.2)) =
      .ok ([.val (Basic.draw D ty G d (pick w g)).1], s.dist, put w g (Basic.draw D ty G d (pick w g)).2.2) := by
  simp [runScriptF, stepF, hi, upd, Except.map, Variate.draw, Variate.ctor]

/-- **Assigning a variate re-seats its generator.**  After `V_k = V_l` a draw from `V_k` uses the generator `V_l`
refers to (not the one `V_k` was built on) and continues `V_l`'s distribution state. -/
theorem variate_assign_reseats (D : StdDist β δ) (out : δ → String) (ty : Ty) (G : Gen γ) (k l : Nat)
    (s : ObjsF δ) (g : γ × γ) (v v' : Variate δ) (w w' : Bool) (hl : s.var l = some (v, w)) (hk : s.var k = some (v', w')) :
    (runScriptF D out ty G [.varCopy k l true, .vdraw k] s g).map (fun r => (r.1, r.2.2)) =
      .ok ([.val (Variate.draw D ty G v (pick w g)).1], put w g (Variate.draw D ty G v (pick w g)).2.2) := by
  simp [runScriptF, stepF, hl, hk, upd, Except.map]

/-! ## bounds (given the standard's contract for `uniform_int_distribution`) -/

/-- **In range**: a uniform integer distribution of any result type, built for `[lo, hi]` with `lo ≤ hi`,
only yields values inside `[lo, hi]`, for every number of draws, engine and generator state. -/
theorem in_range {D : StdDist Int δ} (hU : D.UniformInt) (ty : Ty) (G : Gen γ) (p : Param2 Int)
    (hle : undecorate p.fst ≤ undecorate p.snd) (n : Nat) (g : γ) :
    InInterval p.fst p.snd (Variate.draws D ty (basicPseudo G) n (Variate.ctor (Basic.ctor D p)) g).1 := by
  intro v hv
  rw [variate_transparent] at hv
  simp only [List.mem_map] at hv
  obtain ⟨x, hx, rfl⟩ := hv
  have hp : D.param (Variate.ctor (Basic.ctor D p)).distribution.dist = (undecorate p.fst, undecorate p.snd) := by
    simp [Variate.ctor, Basic.ctor, Param2.convertFrom, hU.toLawful.param_ofParam]
  have := stdDraws_mem hU G n _ g (by rw [hp]; exact hle) x hx
  rw [hp] at this
  simpa [undecorate_decorate'] using this

/-- the same for a distribution in an arbitrary state (after any history) that currently holds `(a, b)` -/
theorem in_range_any_state {D : StdDist Int δ} (hU : D.UniformInt) (ty : Ty) (G : Gen γ) (v : Variate δ)
    (hle : (D.param v.distribution.dist).1 ≤ (D.param v.distribution.dist).2) (n : Nat) (g : γ) :
    ∀ x ∈ (Variate.draws D ty (basicPseudo G) n v g).1,
      (D.param v.distribution.dist).1 ≤ undecorate x ∧ undecorate x ≤ (D.param v.distribution.dist).2 := by
  intro x hx
  rw [variate_transparent] at hx
  simp only [List.mem_map] at hx
  obtain ⟨y, hy, rfl⟩ := hx
  simpa [undecorate_decorate'] using stdDraws_mem hU G n _ g hle y hy

/-- **In range over histories**: for any interleaving of draws, `reset()` and `param(p)` (each `p` with
`min ≤ max`), every drawn value lies in the interval that had been requested at the moment of the draw. -/
theorem history_in_range {D : StdDist Int δ} (hU : D.UniformInt) (ty : Ty) (G : Gen γ) :
    ∀ (ops : List (Op Int)) (b : Basic δ) (g : γ) (q : Int × Int), D.param b.dist = q → q.1 ≤ q.2 → OpsValid ops →
      AllWithin (runF D ty (basicPseudo G) ops b g).1 (boundsInForce ops q) := by
  intro ops
  induction ops with
  | nil => intro b g q _ _ _; trivial
  | cons o ops ih =>
    intro b g q hq hle hv
    cases o with
    | draw =>
      simp only [runF, boundsInForce]
      refine ⟨?_, ih _ _ q ?_ hle hv⟩
      · have := hU.draw_mem (basicPseudo G) b.dist g (by rw [hq]; exact hle)
        rw [hq] at this
        simpa [Basic.draw, Basic.makeResult, undecorate_decorate'] using this
      · simp only [Basic.draw]
        rw [hU.toLawful.param_draw, hq]
    | reset =>
      simp only [runF, boundsInForce]
      exact ih _ g q (by simp only [Basic.reset]; rw [hU.toLawful.param_reset, hq]) hle hv
    | setParam p =>
      simp only [runF, boundsInForce]
      exact ih _ g _ (by simp only [Basic.setParam, Param2.convertFrom]; rw [hU.toLawful.param_setParam]) hv.1 hv.2

/-- **In range over whole programs** (given the standard's contract).  For any program over any number of
uniform integer distributions and variates — copies, assignments, swaps, `reset()`, `param(p)`, variates built
from used distributions, copies of variates, in any interleaving — that asks only for non-empty intervals and
does not use an object that does not exist: every drawn value lies in the interval that had been requested
*for the object it was drawn from* at that moment (an interval travels with every copy), and `min()`, `max()`
and the parameters of the wrapped distribution report exactly that interval.  `boundsScript` computes the
requested intervals from the program text alone. -/
theorem script_in_range {D : StdDist Int δ} (hU : D.UniformInt) (out : δ → String) (ty : Ty) (G : Gen γ)
    (acts : List (Act Int)) (g : γ × γ) (r : List (Ev (DVal Int) Int) × ObjsF δ × (γ × γ))
    (hr : runScriptF D out ty (basicPseudo G) acts ObjsF.empty g = .ok r) (hv : ∀ a ∈ acts, ActValid a) :
    EvsWithin r.1 (boundsScript acts Bnds.empty) :=
  (runScriptF_within hU out ty (basicPseudo G) acts ObjsF.empty g Bnds.empty r hr (tracks_empty D) hv).1

/-- the same from any state whose objects hold the intervals listed in `b` -/
theorem script_in_range_from {D : StdDist Int δ} (hU : D.UniformInt) (out : δ → String) (ty : Ty) (G : Gen γ)
    (acts : List (Act Int)) (s : ObjsF δ) (g : γ × γ) (b : Bnds) (r : List (Ev (DVal Int) Int) × ObjsF δ × (γ × γ))
    (hr : runScriptF D out ty (basicPseudo G) acts s g = .ok r) (ht : Tracks D s b) (hv : ∀ a ∈ acts, ActValid a) :
    EvsWithin r.1 (boundsScript acts b) ∧ Tracks D r.2.1 (acts.foldl (fun b a => (boundsStep a b).2) b) :=
  runScriptF_within hU out ty (basicPseudo G) acts s g b r hr ht hv

/-- **Enum distributions yield enumerators**: `make_uniform_enum<E>()` for an enum whose largest
enumerator has value `maxValue` only yields `E(x)` with `0 ≤ x ≤ maxValue`. -/
theorem enum_in_range {D : StdDist Int δ} (hU : D.UniformInt) (G : Gen γ) (maxValue : Nat) (n : Nat) (g : γ) :
    ∀ v ∈ (Variate.draws D .enum (basicPseudo G) n (Variate.ctor (Basic.ctor D (makeUniformEnum maxValue))) g).1,
      ∃ x : Int, v = .enum x ∧ 0 ≤ x ∧ x ≤ maxValue := by
  intro v hv
  have hr := in_range hU .enum G (makeUniformEnum maxValue) (by simp [makeUniformEnum, undecorate]) n g v hv
  rw [variate_transparent] at hv
  simp only [List.mem_map] at hv
  obtain ⟨x, _, rfl⟩ := hv
  refine ⟨x, rfl, ?_⟩
  simpa [makeUniformEnum, undecorate, decorate] using hr

/-- the interval `make_uniform_enum` requests is `[0, maxValue]` — all enumerators, nothing else -/
theorem makeUniformEnum_interval (maxValue : Nat) :
    (makeUniformEnum maxValue).convertFrom = (0, (maxValue : Int)) := rfl

/-! ## index / container factories -/

/-- **Empty gives none**: the factories return nothing exactly for an empty container, and otherwise the
index interval is `[0, size - 1]`. -/
theorem empty_gives_none {α : Type} (D : StdDist Int δ) (c : List α) :
    (makeUniformIndices c = none ↔ c = []) ∧
    ((makeUniformContainer D c).isNone ↔ c = []) ∧
    (c ≠ [] → (makeUniformIndices c).map Param2.convertFrom = some (0, ((c.length - 1 : Nat) : Int))) := by
  rw [makeUniformContainer, makeUniformIndices_eq]
  by_cases h : c = []
  · simp [h]
  · simp [h, Param2.convertFrom, undecorate]

/-- no invalid distribution is ever constructed: the interval handed to the wrapped distribution satisfies
its precondition `a ≤ b` -/
theorem indices_precondition {α : Type} (c : List α) (p : Param2 Int) (h : makeUniformIndices c = some p) :
    p.convertFrom.1 ≤ p.convertFrom.2 := by
  rw [makeUniformIndices_eq] at h
  by_cases hc : c = []
  · simp [hc] at h
  · simp [hc] at h
    subst h
    simp [Param2.convertFrom, undecorate]

/-- **Index valid and element membership**: a `uniform_container` made by the factory never indexes out of
bounds (the model's `oob` fault is unreachable) and every result is the container's element at a valid
index — for every non-empty container, engine, number of draws. -/
theorem container_elem_mem {α : Type} {D : StdDist Int δ} (hU : D.UniformInt) (G : Gen γ) (c : List α) (hc : c ≠ [])
    (n : Nat) (g : γ) :
    ∃ u r, makeUniformContainer D c = some u ∧
      UniformContainer.draws D (basicPseudo G) n u g = .ok r ∧ r.1.length = n ∧
      ∀ ei ∈ r.1, ei.2 < c.length ∧ c[ei.2]? = some ei.1 ∧ ei.1 ∈ c := by
  have hsome : makeUniformContainer D c =
      some (UniformContainer.ctor D c ⟨.base 0, .base (Int.ofNat (c.length - 1))⟩) := by
    simp [makeUniformContainer, makeUniformIndices_eq, hc]
  have hinv : UniformContainer.Inv D c (UniformContainer.ctor D c ⟨.base 0, .base (Int.ofNat (c.length - 1))⟩) := by
    refine ⟨rfl, ?_⟩
    simp [UniformContainer.ctor, Basic.ctor, Param2.convertFrom, undecorate, hU.toLawful.param_ofParam]
  obtain ⟨r, hr, hl, hall⟩ := container_draws_ok hU G c hc n _ hinv g
  refine ⟨_, r, hsome, hr, hl, fun ei hei => ?_⟩
  obtain ⟨h1, h2⟩ := hall ei hei
  exact ⟨h1, h2, List.mem_of_getElem? h2⟩

/-- `index_valid` on its own: the index drawn for a non-empty container is `< size` -/
theorem index_valid {α : Type} {D : StdDist Int δ} (hU : D.UniformInt) (G : Gen γ) (c : List α) (hc : c ≠ [])
    (n : Nat) (g : γ) (u : UniformContainer α δ) (hu : makeUniformContainer D c = some u)
    (r : List (α × Nat) × UniformContainer α δ × γ) (hr : UniformContainer.draws D (basicPseudo G) n u g = .ok r) :
    ∀ ei ∈ r.1, ei.2 < c.length := by
  obtain ⟨u', r', hu', hr', _, hall⟩ := container_elem_mem hU G c hc n g
  rw [hu] at hu'
  cases hu'
  rw [hr] at hr'
  cases hr'
  exact fun ei hei => (hall ei hei).1

/-- **Container programs never index out of bounds.**  Any program over several `uniform_container`s on one
container of size `n` — made by the factory or by the public constructor with an index interval inside
`[0, n)`, copied and assigned at will, drawn from in any interleaving, while the program overwrites elements
directly or through the references the draws return — either uses a wrapper that does not exist or runs to
the end: the `oob` fault of `operator[]` is unreachable, every index drawn is `< n`, and the wrappers keep
holding intervals inside the container (`CInv`). -/
theorem container_script_safe {α : Type} {D : StdDist Int δ} (hU : D.UniformInt) (G : Gen γ) (n : Nat)
    (acts : List (CAct α)) (c : List α) (s : Nat → Option (Basic δ)) (g : γ) (hinv : CInv D n c s)
    (hv : ∀ a ∈ acts, CActValid n a) :
    runCScript D (basicPseudo G) acts c s g = .error .emptyDeref ∨
      ∃ r, runCScript D (basicPseudo G) acts c s g = .ok r ∧ CInv D n r.2.1 r.2.2.1 ∧ ∀ ev ∈ r.1, CEv.idxLt n ev :=
  runCScript_safe hU (basicPseudo G) n acts c s g hinv hv

/-- one step: what a draw returns *is* the element the container holds at the drawn index at that moment (the
wrapper refers to the container, it has no copy of it), and the factory reports a wrapper iff the container is
not empty -/
theorem container_step_elem {α : Type} {D : StdDist Int δ} (hU : D.UniformInt) (G : Gen γ) (n : Nat) (a : CAct α)
    (c : List α) (s : Nat → Option (Basic δ)) (g : γ) (hinv : CInv D n c s) (hv : CActValid n a) :
    cstep D (basicPseudo G) a c s g = .error .emptyDeref ∨
      ∃ r, cstep D (basicPseudo G) a c s g = .ok r ∧ CInv D n r.2.1 r.2.2.1 ∧ ∀ ev ∈ r.1, CEvOk n c ev :=
  cstep_safe hU (basicPseudo G) n a c s g hinv hv

/-- the empty table of wrappers satisfies the invariant for every container -/
theorem container_inv_start {α : Type} (D : StdDist Int δ) (c : List α) : CInv D c.length c (fun _ => none) :=
  ⟨rfl, fun _ _ h => by simp at h⟩

/-! ## both ends -/

/-- "Reaches both ends" is inherited from the standard distribution in both directions: the fcppt sequence
contains both requested bounds iff the standard sequence contains `a` and `b`. -/
theorem ends_transfer (D : StdDist β δ) (ty : Ty) (G : Gen γ) (a b : β) (n : Nat) (g : γ) :
    ReachesBothEnds (decorate ty a) (decorate ty b)
        (Variate.draws D ty (basicPseudo G) n (Variate.ctor (Basic.ctor D ⟨decorate ty a, decorate ty b⟩)) g).1 ↔
      ReachesBothEnds a b (stdDraws D G n (D.ofParam (a, b)) g).1 := by
  rw [(transparent D ty G a b n g).1]
  unfold ReachesBothEnds
  simp only [List.mem_map]
  constructor
  · rintro ⟨⟨x, hx, hxa⟩, ⟨y, hy, hyb⟩⟩
    exact ⟨decorate_injective ty hxa ▸ hx, decorate_injective ty hyb ▸ hy⟩
  · rintro ⟨ha, hb⟩
    exact ⟨⟨a, ha, rfl⟩, ⟨b, hb, rfl⟩⟩

/-! ## the contracts are satisfiable; concrete runs -/

/-- the exactly specified (stateful) distribution of the harness (`mod_dist`) fulfils the standard's contract, so
the range theorems are not vacuous -/
theorem modDist_contract : StdDist.UniformInt modDist where
  param_ofParam := fun _ => rfl
  param_setParam := fun _ _ => rfl
  param_reset := fun _ => rfl
  param_draw := fun _ _ _ => rfl
  min_eq := fun _ => rfl
  max_eq := fun _ => rfl
  draw_mem := by
    intro γ G d g h
    simp only [modDist] at h ⊢
    have hpos : 0 < d.1.2 - d.1.1 + 1 := by omega
    have h1 := Int.emod_nonneg (Int.ofNat ((G.next g).1 + d.2 * (d.2 + 1) / 2)) (Int.ne_of_gt hpos)
    have h2 := Int.emod_lt_of_pos (Int.ofNat ((G.next g).1 + d.2 * (d.2 + 1) / 2)) hpos
    omega

/-- a strong typedef of a strong typedef of `int` over `[-3, 5]` from the counter engine seeded with 10 -/
example :
    (Variate.draws modDist (.strong (.strong .base)) (basicPseudo ctrEngine) 4
      (Variate.ctor (Basic.ctor modDist ⟨decorate (.strong (.strong .base)) (-3), decorate (.strong (.strong .base)) 5⟩)) 10).1
      = [.strong (.strong (.base (-2))), .strong (.strong (.base 0)), .strong (.strong (.base 3)), .strong (.strong (.base (-2)))] := by
  decide

/-- a history on a strong typedef: draw from `[0,3]`, `param([10,11])`, draw, `reset()`, draw -/
example :
    (runF modDist (.strong .base) (basicPseudo ctrEngine)
      [.draw, .setParam ⟨.strong (.base 10), .strong (.base 11)⟩, .draw, .reset, .draw]
      (Basic.ctor modDist ⟨.strong (.base 0), .strong (.base 3)⟩) 6).1
      = [.strong (.base 2), .strong (.base 10), .strong (.base 10)] ∧
    boundsInForce [.draw, .setParam ⟨.strong (.base 10), .strong (.base 11)⟩, .draw, .reset, .draw] (0, 3)
      = [(0, 3), (10, 11), (10, 11)] := by
  decide

/-- containers: `[10, 20, 30]` is drawn by index; the empty container gives nothing -/
example : (makeUniformContainer modDist [10, 20, 30]).isSome = true ∧ (makeUniformContainer modDist ([] : List Int)).isNone = true := by
  decide

example :
    (match makeUniformContainer modDist [10, 20, 30] with
     | some u => (UniformContainer.draws modDist (basicPseudo ctrEngine) 4 u 5).toOption.map (·.1)
     | none => none) = some [(30, 2), (20, 1), (20, 1), (30, 2)] := by
  decide

/-- a wrapped distribution that breaks the standard's contract makes the container wrapper fault: the
hypothesis `hU` of `container_elem_mem` is needed -/
example :
    let bad : StdDist Int ((Int × Int) × Nat) := { modDist with draw := fun {_} _ d g => (d.1.2 + 1, d, g) }
    (match makeUniformContainer bad [10, 20, 30] with
     | some u => (UniformContainer.draw bad ctrEngine u 0).toOption.isNone
     | none => false) = true := by
  decide

/-- an off-by-one variant of `make_uniform_indices` (`max(size())`) would violate `index_valid`: with the
counter engine the seventh draw indexes past the end -/
example :
    (UniformContainer.draws modDist ctrEngine 8 (UniformContainer.ctor modDist [10, 20, 30] ⟨.base 0, .base 3⟩) 0).toOption.isNone = true := by
  decide

/-- a program with copies: `D1` is copy-constructed from `D0` after two draws and continues `D0`'s sequence from
`D0`'s state (`k = 2`), both on the one generator; comparing them tells the states apart -/
example :
    (runScriptF modDist modOut (.strong .base) (basicPseudo ctrEngine)
      [.newP 0 ⟨.strong (.base 0), .strong (.base 9)⟩, .draw 0 false, .draw 0 false, .copy 1 0 false, .eq 0 1, .draw 1 false, .eq 0 1,
        .draw 0 false, .eq 0 1, .look 1] ObjsF.empty (5, 0)).toOption.map (·.1)
      = some [.val (.strong (.base 5)), .val (.strong (.base 7)), .eq true, .val (.strong (.base 0)), .eq false,
          .val (.strong (.base 1)), .eq true, .look (.strong (.base 0)) (.strong (.base 9)) (0, 9) "0 9 3"] ∧
    boundsScript [.newP 0 ⟨.strong (.base 0), .strong (.base 9)⟩, .draw 0 false, .draw 0 false, .copy 1 0 false, .eq 0 1, .draw 1 false,
        .eq 0 1, .draw 0 false, .eq 0 1, .look 1] Bnds.empty
      = [some (0, 9), some (0, 9), none, some (0, 9), none, some (0, 9), none, some (0, 9)] := by
  decide

/-- drawing from a temporary copy (the seeded regression `C20-2`) is refuted by the model: the second value would
repeat the state `k = 0` -/
example :
    let lossy : List (Act Int) := [.newP 0 ⟨.base 0, .base 9⟩, .copy 1 0 false, .draw 1 false, .copy 1 0 false, .draw 1 false]
    let right : List (Act Int) := [.newP 0 ⟨.base 0, .base 9⟩, .draw 0 false, .draw 0 false]
    (runScriptF modDist modOut .base (basicPseudo ctrEngine) lossy ObjsF.empty (5, 0)).toOption.map (·.1) = some [.val (.base 5), .val (.base 6)] ∧
    (runScriptF modDist modOut .base (basicPseudo ctrEngine) right ObjsF.empty (5, 0)).toOption.map (·.1) = some [.val (.base 5), .val (.base 7)] := by
  decide

/-- assigning a variate re-seats its generator: `V1` (on the second generator, at 100) is assigned `V0` (on the
first, at 5) and from then on draws from the first generator, continuing `V0`'s distribution state -/
example :
    (runScriptF modDist modOut .base (basicPseudo ctrEngine)
      [.varP 0 ⟨.base 0, .base 9⟩ false, .varP 1 ⟨.base 0, .base 9⟩ true, .vdraw 0, .vdraw 1, .varCopy 1 0 true, .vdraw 1, .vdraw 0,
        .raw true, .raw false] ObjsF.empty (5, 100)).toOption.map (·.1)
      = some [.val (.base 5), .val (.base 0), .val (.base 7), .val (.base 8), .raw 101, .raw 8] := by
  decide

/-- a container program: the wrapper sees the element written after it was made, and the program writes through
the reference a draw returns -/
example :
    (runCScript modDist (basicPseudo ctrEngine) [.make 0, .draw 0, .write 2 99, .copy 1 0 false, .draw 1, .drawWrite 0 7]
      [10, 20, 30] (fun _ => none) 5).toOption.map (fun r => (r.1, r.2.1))
      = some ([.made true, .elem 30 2, .elem 20 1, .elem 99 2], [10, 20, 7]) := by
  decide

end Fcppt.C20
