/-! Property theorems for C20 — placeholder until the property's model is built. -/
