/-! Property theorems for C12 — placeholder until the property's model is built. -/
