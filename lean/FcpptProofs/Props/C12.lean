import FcpptProofs.C12.Rewind
import FcpptProofs.C12.Parsers
import FcpptProofs.C12.Grammar
import FcpptProofs.C12.GrammarTerm
import FcpptProofs.C12.GrammarInv
/-!
# C12 — the parse stream reports true line/column and rewinds exactly

Model: `FcpptModel/Model/C12.lean` (istream state machine + `detail::stream`), spec:
`FcpptModel/Spec/C12.lean` (`line`, `column`, the abstract index stream `astep`/`arun`).
All theorems quantify over every text (any length, any characters), every history of
`get_char` / `get_position` / `set_position(saved j)` (any length) and every read budget of the
failure-injecting stream; nothing is bounded.
-/
namespace Fcppt.C12

/-- **Refinement**: for every text, every read budget and every history, the observations of the
implementation-level stream (flags, `tellg`/`seekg`, eof clearing, stored and restored location)
are exactly those of the abstract stream of the documentation: an index `i`; reading yields
`t[i]` and advances; a position is `(i, line i, column i)`; restoring a saved position sets the
index; at the end of input and once the underlying stream has failed no character is produced. -/
theorem run_refines (t : List Ch) (k : Option Nat) (ops : List Op) :
    (run (HState.open t k) ops).2 = (arun t k AState.init ops).2 :=
  (run_refines_rel ops (rel_open t k)).2

/-- **Location invariant**: after every history the stored location is the true line and column
of the current index, the index is inside the text, and every position handed out so far denotes
an index of the text together with that index's true line and column. -/
theorem location_inv (t : List Ch) (k : Option Nat) (ops : List Op) :
    let x := (run (HState.open t k) ops).1
    x.s.is.buf = t ∧ x.s.is.idx ≤ t.length ∧
      x.s.loc = ⟨line t x.s.is.idx, column t x.s.is.idx⟩ ∧
      ∀ p ∈ x.saved, ∃ i, i ≤ t.length ∧ p = ⟨(i : Int), some ⟨line t i, column t i⟩⟩ := by
  intro x
  have r := (run_refines_rel ops (rel_open t k)).1
  refine ⟨r.buf, by rw [r.idx]; exact r.le, by rw [r.idx]; exact r.loc, ?_⟩
  intro p hp
  have hs : x.saved = _ := r.saved
  rw [hs] at hp
  obtain ⟨i, hi, rfl⟩ := List.mem_map.mp hp
  exact ⟨i, r.savedLe i hi, rfl⟩

/-- **A position is the offset of the next unread character, with its line and column**: in any
state reached on a plain stream, `get_position` reports `(i, line i, column i)` for the current index
`i`, and the read that follows returns exactly `t[i]` (nothing at the end of input). -/
theorem position_denotes_next_unread (t : List Ch) (ops : List Op) :
    let x := (run (HState.open t none) ops).1
    let i := x.s.is.idx
    (step x .pos).2 = .pos ⟨(i : Int), some ⟨line t i, column t i⟩⟩ ∧
      (step (step x .pos).1 .get).2 = .ch t[i]? := by
  intro x i
  obtain ⟨a, r, d⟩ := Reach.rel (t := t) (h := x) ⟨ops, rfl⟩
  obtain ⟨r1, e1⟩ := step_refines r .pos
  obtain ⟨_, e2⟩ := step_refines r1 .get
  have hi : i = a.i := r.idx
  refine ⟨by rw [e1, hi]; simp [astep, d, posAt, locAt], ?_⟩
  rw [e2, hi]
  simp only [astep, d, Bool.false_eq_true, ↓reduceIte]
  generalize t[a.i]? = o
  cases o <;> rfl

/-- **Exact rewind, state level**: if `get_position` in a reachable state `x1` returned `p`
leaving the stream in state `s1`, then `set_position p` in *any* reachable state `x2` of the same
text succeeds and puts the stream into exactly `s1` (buffer index, all three state bits, stored
location).  Everything later is a function of that state, so all subsequent reads and positions
are those observed when `p` was saved. -/
theorem rewind_exact (t : List Ch) (x1 x2 : HState) (r1 : Reach t x1) (r2 : Reach t x2)
    (s1 : Stream) (p : Pos) (hp : x1.s.getPosition = (s1, .ok p)) :
    x2.s.setPosition p = (s1, .ok ()) := by
  obtain ⟨a1, rel1, d1⟩ := r1.rel
  obtain ⟨a2, rel2, d2⟩ := r2.rel
  obtain ⟨s1', p', g1, _, g3⟩ := rewind_state rel1 rel2 d1 d2
  rw [hp] at g1
  obtain ⟨rfl, rfl⟩ : s1 = s1' ∧ p = p' := by simpa using g1
  exact g3

/-- `get_position` never fails on a plain stream (so `rewind_exact` is not vacuous). -/
theorem getPosition_ok (t : List Ch) (x : HState) (r : Reach t x) :
    ∃ s1 p, x.s.getPosition = (s1, .ok p) := by
  obtain ⟨a, rel, d⟩ := r.rel
  obtain ⟨s1, p, g1, _, _⟩ := rewind_state rel rel d d
  exact ⟨s1, p, g1⟩

/-- **Exact rewind, history level**: take any history `ops1`, save the position, run any history
`ops2`, restore the saved position.  Then every continuation `ops3` (which may itself save and
restore, and may restore anything saved up to and including that position) observes exactly what
it observes when run directly after the position was saved. -/
theorem rewind_exact_hist (t : List Ch) (ops1 ops2 ops3 : List Op) :
    let x1 := (run (HState.open t none) (ops1 ++ [.pos])).1
    let x2 := (run x1 (ops2 ++ [.set (x1.saved.length - 1)])).1
    SetsBelow x1.saved.length ops3 → (run x2 ops3).2 = (run x1 ops3).2 :=
  rewind_hist t ops1 ops2 ops3

/-- **End of input never yields a character**, whatever the state bits are. -/
theorem eof_never_char (s : Stream) (h : s.is.buf.length ≤ s.is.idx) (c : Ch) :
    s.getChar.2 ≠ .ok (some c) :=
  getChar_eof s h c

/-- **A failed underlying stream never yields a character**: once `badbit` is set every operation
throws the stream exception and changes nothing. -/
theorem bad_never_char (s : Stream) (h : s.is.bad = true) :
    s.getChar = (s, .error streamFailed) ∧ s.getPosition = (s, .error streamFailed) ∧
      ∀ p, s.setPosition p = (s, .error streamFailed) := by
  simp [Stream.getChar, Stream.getPosition, Stream.setPosition, h]

/-- The read on which the underlying stream fails returns nothing and leaves the stream bad. -/
theorem failing_read_never_char (s : Stream) (k : Nat) (c : Ch) (hg : s.is.good = true)
    (hk : s.is.failAfter = some k) (hr : k ≤ s.is.reads) (hc : s.is.buf[s.is.idx]? = some c) :
    s.getChar.2 = .ok none ∧ s.getChar.1.is.bad = true := by
  obtain ⟨⟨buf, idx, eof, fail, bad, fa, reads⟩, loc⟩ := s
  simp only at hk hr hc
  subst hk
  simp [IStream.good] at hg
  obtain ⟨⟨rfl, rfl⟩, rfl⟩ := hg
  simp [Stream.getChar, IStream.get, IStream.sentry, IStream.good, IStream.sbumpc, hc, hr]

/-- Every character that is returned is the text's character at the current index; the stream was
good, stays not-bad, and the read budget was not exhausted. -/
theorem char_is_text {s s' : Stream} {c : Ch} (h : s.getChar = (s', .ok (some c))) :
    s.is.good = true ∧ s.is.buf[s.is.idx]? = some c ∧ s'.is.idx = s.is.idx + 1 ∧ s'.is.bad = false ∧
      s'.is.buf = s.is.buf ∧ ∀ k, s.is.failAfter = some k → s.is.reads < k :=
  getChar_some h

/-- A dead stream makes `fcppt::parse::parse` fail (the exception is caught by `phrase_parse`);
it never succeeds with a character. -/
theorem parse_bad_fails (s : Stream) (pred : Ch → Bool) (h : s.is.bad = true) :
    s.parse pred = (s, .fail .exception) := by
  simp [Stream.parse, Stream.charPred, Stream.getChar, h]

/-- **Error location**: in any state reached on a plain stream with current index `i`,
`literal` / `char_set` / `char_` (and the skippers of the same names; `pred` is the acceptance test)
* at the end of input fail with the location-free "EOF" error,
* on an accepted character succeed with it,
* on a rejected character fail with an "Expected" error carrying the line and column of index
  `i + 1` — immediately after the offending character —
and in the last two cases the stream is left at index `i + 1` with that location stored. -/
theorem expected_location (t : List Ch) (ops : List Op) (pred : Ch → Bool) :
    let x := (run (HState.open t none) ops).1
    let i := x.s.is.idx
    match t[i]? with
    | none => (x.s.charPred pred).2 = .ok (.fail .eof)
    | some c =>
      (x.s.charPred pred).2
          = .ok (if pred c then .ok c else .fail (.expected (some ⟨line t (i + 1), column t (i + 1)⟩)))
        ∧ (x.s.charPred pred).1.is.idx = i + 1
        ∧ (x.s.charPred pred).1.loc = ⟨line t (i + 1), column t (i + 1)⟩ := by
  intro x i
  obtain ⟨a, r, d⟩ := Reach.rel (t := t) (h := x) ⟨ops, rfl⟩
  have hi : i = a.i := r.idx
  rw [hi]
  exact charPred_spec r d pred

/-- **The spec's column is the documented one** (`basic_stream_decl.hpp`): with `j` the 1-based
index of the last newline among the first `i` characters (`j = 0` if there is none) the column is
`i - j + 1`.  (`line` is literally "number of newlines before, plus one".) -/
theorem column_doc (t : List Ch) (i : Nat) (hi : i ≤ t.length) :
    ∃ j, j ≤ i ∧ column t i = i - j + 1 ∧ (j = 0 ∨ t[j - 1]? = some nl) ∧
      ∀ m, j ≤ m → m < i → t[m]? ≠ some nl :=
  column_doc_aux t i hi

/-! ## The clients of `get_position` / `set_position`: backtracking combinators

`P.parse` / `Sk.skip` (`Model/C12/Grammar.lean`) mirror `alternative`, `optional`, `repetition`,
`repetition_plus`, `not_`, `fatal`, `sequence`, `basic_string`, the character parsers and the
skippers `epsilon`, `literal`, `char_set`, `sequence`, `repetition`, running over a *traced* stream
that records every `basic_stream` call.  `P.aparse` / `Sk.askip` (`Spec/C12Grammar.lean`) are the
same combinators on a bare index: to backtrack is to continue at the index where the sub-parser
started, the location of an error is computed from the text. -/

/-- histories of stream operations are histories in the wider sense (`XOp`: stream operations and
whole parses), so the theorems below, stated for the latter, cover them -/
theorem xrun_ops (h : HState) (ops : List Op) : xrun h (ops.map .op) = (run h ops).1 := by
  induction ops generalizing h with
  | nil => rfl
  | cons o os ih => simp only [List.map_cons, xrun, xstep, run]; exact ih _

theorem ops_wf (ops : List Op) : ∀ o ∈ ops.map XOp.op, o.wf = true := by
  intro o ho
  obtain ⟨_, _, rfl⟩ := List.mem_map.mp ho
  rfl

/-- a recorded call left the stream live over the text `t` with the true line and column stored -/
def Ev.True (t : List Ch) (e : Ev) : Prop :=
  e.s.is.buf = t ∧ e.s.is.idx ≤ t.length ∧ e.s.is.bad = false ∧
    e.s.loc = ⟨line t e.s.is.idx, column t e.s.is.idx⟩

/-- **The combinators refine the PEG semantics on indices, call by call.**  In every state reached
on a plain stream by any history of reads, position saves, rewinds and earlier parses of well-formed
grammars (`XOp`; any recorded log), `phrase_parse(p, stream, sk)` — leading
skipper, then the parser — for every parser `p` and skipper `sk`:
* diverges exactly if the index semantics does (only possible for a repetition whose body succeeds
  without consuming, see `wellformed_returns`);
* otherwise yields the result of the index semantics — including, inside "Expected" errors, the
  line and column *after* the offending character — and leaves the stream at the abstract index with
  that index's true line/column stored;
* and EVERY `get_char` / `get_position` / `set_position` call the combinators issued on the way left
  the stream with the true line/column of its index stored (the log grows by such calls only). -/
theorem combinators_refine_peg (t : List Ch) (xs : List XOp) (hw : ∀ o ∈ xs, o.wf = true) (log : List Ev) (sk : Sk) (p : P) :
    let x : TS := ⟨(xrun (HState.open t none) xs).s, log⟩
    let o := (sk.skip x).andThen (p.parse sk)
    match aphrase t p sk x.s.is.idx with
    | .error f => o.2 = .error f
    | .ok (r, j) =>
      o.2 = .ok r ∧ o.1.s.is.idx = j ∧ j ≤ t.length ∧ o.1.s.is.buf = t ∧ o.1.s.is.bad = false ∧
        o.1.s.loc = ⟨line t j, column t j⟩ ∧
        ∃ new, o.1.log = new ++ log ∧ ∀ e ∈ new, Ev.True t e := by
  intro x o
  have hat : At t x.s x.s.is.idx := live_at (liveH_xrun xs (liveH_open t) hw)
  have := agrees_andThen (skip_agrees sk x _ hat) (parse_agrees (t := t) sk p)
  show match (sk.askip t x.s.is.idx).andThen (p.aparse t sk) with
    | .error f => o.2 = .error f
    | .ok (r, j) => _
  cases ha : (sk.askip t x.s.is.idx).andThen (p.aparse t sk) with
  | error f => rw [ha] at this; exact this
  | ok rj =>
    obtain ⟨r, j⟩ := rj
    rw [ha] at this
    obtain ⟨h1, h2, new, h3, h4⟩ := this
    refine ⟨h1, h2.idx, h2.le, h2.buf, Rel.bad h2, h2.loc, new, h3, ?_⟩
    intro e he
    obtain ⟨k, hk⟩ := h4 e he
    exact ⟨hk.buf, by rw [hk.idx]; exact hk.le, Rel.bad hk, by rw [hk.idx]; exact hk.loc⟩

/-- **The location stays true through every combinator on EVERY stream** — failing ones (any read
budget `k`) included, and whatever the outcome (result, stream exception caught by `phrase_parse`,
divergence): after `phrase_parse` from any reachable state, the buffer is the text, the index is
inside it, the stored location is the true line/column of the index; and the same holds after every
single `basic_stream` call the combinators issued. -/
theorem combinators_keep_location (t : List Ch) (k : Option Nat) (ops : List Op) (log : List Ev) (sk : Sk) (p : P) :
    let x : TS := ⟨(run (HState.open t k) ops).1.s, log⟩
    let x' := (TS.phrase p sk x).1
    (x'.s.is.buf = t ∧ x'.s.is.idx ≤ t.length ∧ x'.s.loc = ⟨line t x'.s.is.idx, column t x'.s.is.idx⟩) ∧
      ∃ new, x'.log = new ++ log ∧ ∀ e ∈ new,
        e.s.is.buf = t ∧ e.s.is.idx ≤ t.length ∧ e.s.loc = ⟨line t e.s.is.idx, column t e.s.is.idx⟩ := by
  intro x x'
  have hg : Good t k x.s := ⟨_, _, _, (run_refines_rel ops (rel_open t k)).1.forget⟩
  have hs := safe_andThen (o := sk.skip x) (g := p.parse sk) (safe_skip sk x hg) (safe_parse sk p)
  have hx' : x' = ((sk.skip x).andThen (p.parse sk)).1 := by
    show (TS.phrase p sk x).1 = _
    simp only [TS.phrase]
    rcases (sk.skip x).andThen (p.parse sk) with ⟨y, r⟩
    cases r with
    | ok r => rfl
    | error f => cases f <;> rfl
  rw [hx']
  obtain ⟨g, new, e1, e2⟩ := hs
  exact ⟨g.loc, new, e1, fun e he => (e2 e he).loc⟩

/-- **Location invariant for histories that interleave reads, position saves, rewinds AND whole
parses** (any grammar, any skipper, any read budget, any length): the buffer is the text, the index
is inside it, the stored location is the true line/column of the index, and every saved position is
`(i, line i, column i)` for an index `i` of the text — so a position saved before, between or after
parses can be restored at any later point. -/
theorem location_inv_with_parses (t : List Ch) (k : Option Nat) (xs : List XOp) :
    let x := xrun (HState.open t k) xs
    x.s.is.buf = t ∧ x.s.is.idx ≤ t.length ∧ x.s.loc = ⟨line t x.s.is.idx, column t x.s.is.idx⟩ ∧
      ∀ p ∈ x.saved, ∃ i, i ≤ t.length ∧ p = ⟨(i : Int), some ⟨line t i, column t i⟩⟩ := by
  intro x
  obtain ⟨g1, g2⟩ := goodH_xrun (t := t) (k := k) xs (goodH_open t k)
  obtain ⟨a, b, c⟩ := g1.loc
  exact ⟨a, b, c, g2⟩

/-- `fcppt::parse::phrase_parse` itself (the function-try-block included): the result is the one of
the index semantics whenever that returns. -/
theorem phrase_result (t : List Ch) (xs : List XOp) (hw : ∀ o ∈ xs, o.wf = true) (log : List Ev) (sk : Sk) (p : P) (r : R) (j : Nat) :
    let x : TS := ⟨(xrun (HState.open t none) xs).s, log⟩
    aphrase t p sk x.s.is.idx = .ok (r, j) → (TS.phrase p sk x).2 = r ∧ (TS.phrase p sk x).1.s.is.idx = j := by
  intro x ha
  have := combinators_refine_peg t xs hw log sk p
  simp only at this
  rw [ha] at this
  obtain ⟨h1, h2, _⟩ := this
  rcases ho : (sk.skip x).andThen (p.parse sk) with ⟨x', res⟩
  rw [ho] at h1 h2
  simp only at h1 h2
  subst h1
  simp only [TS.phrase, ho]
  exact ⟨trivial, h2⟩

/-- **Well-formed grammars always return**: if every repetition body (of the parser and of the
skipper) consumes when it succeeds, the index semantics returns on every text at every index — it
never runs out of loop fuel — moves only forward and stays inside the text; a success of a consuming
parser has moved forward.  With `combinators_refine_peg`: the model never reports divergence for
such grammars, which are the ones the correspondence runs. -/
theorem wellformed_returns (t : List Ch) (sk : Sk) (p : P) (hs : sk.wf = true) (hp : p.wf = true)
    (i : Nat) (hi : i ≤ t.length) :
    ∃ r j, aphrase t p sk i = .ok (r, j) ∧ i ≤ j ∧ j ≤ t.length ∧ (p.consumes = true → r = .ok () → i < j) :=
  aphrase_prog t sk hs p hp i hi

/-- **`not_` consumes nothing, exactly**: whatever the inner parser read (across newlines, into
the end of input), afterwards the stream is in exactly the state the initial `get_position` left —
same index, same three state bits, same stored location. -/
theorem not_restores_exactly (t : List Ch) (xs : List XOp) (hw : ∀ o ∈ xs, o.wf = true) (log : List Ev) (sk : Sk) (p : P) (r : R) (j : Nat) :
    let x : TS := ⟨(xrun (HState.open t none) xs).s, log⟩
    p.aparse t sk x.s.is.idx = .ok (r, j) → ((P.not p).parse sk x).1.s = x.s.getPosition.1 := by
  intro x ha
  exact not_exact sk p (live_at (liveH_xrun xs (liveH_open t) hw)) ha

/-- **`optional` of a failing parser consumes nothing, exactly** (same statement). -/
theorem optional_restores_exactly (t : List Ch) (xs : List XOp) (hw : ∀ o ∈ xs, o.wf = true) (log : List Ev) (sk : Sk) (p : P)
    (e : PError) (j : Nat) :
    let x : TS := ⟨(xrun (HState.open t none) xs).s, log⟩
    p.aparse t sk x.s.is.idx = .ok (.error e, j) → ((P.opt p).parse sk x).1.s = x.s.getPosition.1 := by
  intro x ha
  exact opt_exact sk p (live_at (liveH_xrun xs (liveH_open t) hw)) ha

/-- **A position saved before a parse is still exact after it**: `p0` obtained by `get_position`
in a reachable state (leaving stream state `s1`); later, from any reachable state, any
`phrase_parse` that returns; then `set_position p0` yields exactly `s1` again. -/
theorem saved_position_survives_parse (t : List Ch) (x1 : HState) (r1 : Reach t x1) (s1 : Stream) (p0 : Pos)
    (hp : x1.s.getPosition = (s1, .ok p0)) (xs : List XOp) (hw : ∀ o ∈ xs, o.wf = true) (log : List Ev) (sk : Sk) (p : P) (r : R) (j : Nat) :
    let x : TS := ⟨(xrun (HState.open t none) xs).s, log⟩
    aphrase t p sk x.s.is.idx = .ok (r, j) →
      ((sk.skip x).andThen (p.parse sk)).1.s.setPosition p0 = (s1, .ok ()) := by
  intro x ha
  have hat : At t x.s x.s.is.idx := live_at (liveH_xrun xs (liveH_open t) hw)
  have := agrees_andThen (skip_agrees sk x _ hat) (parse_agrees (t := t) sk p)
  have ha' : (sk.askip t x.s.is.idx).andThen (p.aparse t sk) = .ok (r, j) := ha
  rw [ha'] at this
  obtain ⟨_, h2, _⟩ := this
  obtain ⟨a1, rel1, d1⟩ := r1.rel
  obtain ⟨s, q, g1, _, g3⟩ := rewind_state rel1 h2 d1 rfl
  rw [hp] at g1
  obtain ⟨rfl, rfl⟩ : s1 = s ∧ p0 = q := by simpa using g1
  exact g3

/-- **`basic_string` in closed form** (`"Expected <string>"` carries no location): with `k` the
length of the longest common prefix of the string and the rest of the text, the parser succeeds iff
`k` is the whole string and then stands behind it; otherwise it fails with a location-free
"Expected" and the offending character stays consumed (index `i + k + 1`, or the end of input). -/
theorem string_parser_closed_form (t : List Ch) (sk : Sk) (s : List Ch) (i : Nat) (hi : i ≤ t.length) :
    (P.str s).aparse t sk i = .ok
      (if lcp s (t.drop i) = s.length then (.ok (), i + s.length)
       else (.error (.plain (.exp none)), min (i + lcp s (t.drop i) + 1) t.length)) := by
  simp only [P.aparse, astr_closed t s i hi]

/-- `operator==` of locations and of positions is equality of all components. -/
theorem location_eq_iff (a b : Loc) : a.eq b = true ↔ a = b := by
  obtain ⟨l1, c1⟩ := a
  obtain ⟨l2, c2⟩ := b
  simp [Loc.eq]

theorem position_eq_iff (a b : Pos) : a.eq b = true ↔ a = b := by
  obtain ⟨o1, l1⟩ := a
  obtain ⟨o2, l2⟩ := b
  cases l1 <;> cases l2 <;> simp [Pos.eq, location_eq_iff]

/-- `phrase_parse_stream` on an untouched istream is `phrase_parse` on a freshly opened stream
(so `combinators_refine_peg` with the empty history applies). -/
theorem phraseStream_fresh (t : List Ch) (k : Option Nat) (sk : Sk) (p : P) :
    IStream.phraseStream p sk (IStream.open t k) = TS.phrase p sk ⟨Stream.open t k, []⟩ := rfl

/-! ## Non-vacuity and concrete instances -/

-- "xy\nz\n" (the text of test/parse/stream.cpp): read three characters, save, read to the end and
-- beyond (eof and fail bits set), restore, read again
example :
    (run (HState.open [120, 121, 10, 122, 10] none)
      [.get, .get, .get, .pos, .get, .get, .get, .get, .set 0, .pos, .get]).2
    = [.ch (some 120), .ch (some 121), .ch (some 10), .pos ⟨3, some ⟨2, 1⟩⟩, .ch (some 122), .ch (some 10),
       .ch none, .ch none, .ok, .pos ⟨3, some ⟨2, 1⟩⟩, .ch (some 122)] := by decide

-- the hypotheses of rewind_exact_hist are met by a non-trivial continuation that itself rewinds
example : SetsBelow 1 [Op.get, .pos, .set 0, .get] := by
  intro op h j e; subst e; simp at h; omega

-- the failing stream: budget 1, second read fails and yields nothing, afterwards exceptions
example :
    (run (HState.open [97, 98, 99] (some 1)) [.get, .pos, .get, .get, .pos, .set 0]).2
    = [.ch (some 97), .pos ⟨1, some ⟨1, 2⟩⟩, .ch none, .exc, .exc, .exc] := by decide

-- error location: "a\nb", after reading 'a' a literal 'x' rejects '\n'; the error carries 2:1,
-- the location after the newline
example :
    ((run (HState.open [97, 10, 98] none) [.get]).1.s.charPred (· == 120)).2
    = .ok (.fail (.expected (some ⟨2, 1⟩))) := by rfl

-- a position is not restored correctly by an implementation that forgets to clear eof: without
-- the `clear()` in set_position the seek fails (sentry) — the model distinguishes the two
example :
    let s := (run (HState.open [97] none) [.pos, .get, .get]).1.s
    (s.is.seekg 0).fail = true ∧ (s.is.clear.seekg 0).fail = false := by decide

-- `(a "\n" | a a) b` on "aab": the left alternative fails after consuming 'a' and rejecting the
-- second 'a' (error location 1:3), the right one starts again at index 0 and succeeds, then 'b'
example :
    (TS.phrase (.seq (.alt (.seq (.lit 97) (.lit 10)) (.seq (.lit 97) (.lit 97))) (.lit 98)) .eps
      ⟨Stream.open [97, 97, 98] none, []⟩).2 = .ok () := by decide

-- both alternatives fail: the message skeleton carries both locations, each after its offender
example :
    (TS.phrase (.alt (.seq (.lit 97) (.lit 10)) (.lit 98)) .eps ⟨Stream.open [97, 97] none, []⟩).2
    = .error ⟨[.lb, .exp (some ⟨1, 3⟩), .or, .exp (some ⟨1, 2⟩), .rb], false⟩ := by decide

-- `*(a)` with the skipper `*space` on "a a\n": ends behind the last skipped blank, before the newline
example :
    (TS.phrase (.rep (.lit 97)) (.rep (.cset [32])) ⟨Stream.open [97, 32, 97, 10] none, []⟩).1.s.is.idx = 3 := by
  decide

-- the hypotheses of `wellformed_returns` hold for a nested repetition; a nullable body is rejected,
-- and the model reports that such a grammar does not return
example : (P.rep (.seq (.lit 97) (.rep (.lit 10)))).wf = true ∧ (P.rep (.opt .any)).wf = false := by decide
example : (P.rep (.opt .any)).aparse [97] .eps 0 = .error .fuel := by decide

-- the old behaviour that the seeded regression C12-2 introduced (column bumped by a failed read at
-- the end of input) is refuted by the model: two reads at the end leave 1:2
example :
    (run (HState.open [97] none) [.get, .get, .get, .pos]).2
    = [.ch (some 97), .ch none, .ch none, .pos ⟨1, some ⟨1, 2⟩⟩] := by decide

end Fcppt.C12
