import FcpptProofs.C12.Rewind
import FcpptProofs.C12.Parsers
/-!
# C12 — the parse stream reports true line/column and rewinds exactly

Model: `FcpptModel/Model/C12.lean` (istream state machine + `detail::stream`), spec:
`FcpptModel/Spec/C12.lean` (`line`, `column`, the abstract index stream `astep`/`arun`).
All theorems quantify over every text (any length, any characters), every history of
`get_char` / `get_position` / `set_position(saved j)` (any length) and every read budget of the
failure-injecting stream; nothing is bounded.
-/
namespace Fcppt.C12

/-- **Refinement**: for every text, every read budget and every history, the observations of the
implementation-level stream (flags, `tellg`/`seekg`, eof clearing, stored and restored location)
are exactly those of the abstract stream of the documentation: an index `i`; reading yields
`t[i]` and advances; a position is `(i, line i, column i)`; restoring a saved position sets the
index; at the end of input and once the underlying stream has failed no character is produced. -/
theorem run_refines (t : List Ch) (k : Option Nat) (ops : List Op) :
    (run (HState.open t k) ops).2 = (arun t k AState.init ops).2 :=
  (run_refines_rel ops (rel_open t k)).2

/-- **Location invariant**: after every history the stored location is the true line and column
of the current index, the index is inside the text, and every position handed out so far denotes
an index of the text together with that index's true line and column. -/
theorem location_inv (t : List Ch) (k : Option Nat) (ops : List Op) :
    let x := (run (HState.open t k) ops).1
    x.s.is.buf = t ∧ x.s.is.idx ≤ t.length ∧
      x.s.loc = ⟨line t x.s.is.idx, column t x.s.is.idx⟩ ∧
      ∀ p ∈ x.saved, ∃ i, i ≤ t.length ∧ p = ⟨(i : Int), some ⟨line t i, column t i⟩⟩ := by
  intro x
  have r := (run_refines_rel ops (rel_open t k)).1
  refine ⟨r.buf, by rw [r.idx]; exact r.le, by rw [r.idx]; exact r.loc, ?_⟩
  intro p hp
  have hs : x.saved = _ := r.saved
  rw [hs] at hp
  obtain ⟨i, hi, rfl⟩ := List.mem_map.mp hp
  exact ⟨i, r.savedLe i hi, rfl⟩

/-- **A position is the offset of the next unread character, with its line and column**: in any
state reached on a plain stream, `get_position` reports `(i, line i, column i)` for the current index
`i`, and the read that follows returns exactly `t[i]` (nothing at the end of input). -/
theorem position_denotes_next_unread (t : List Ch) (ops : List Op) :
    let x := (run (HState.open t none) ops).1
    let i := x.s.is.idx
    (step x .pos).2 = .pos ⟨(i : Int), some ⟨line t i, column t i⟩⟩ ∧
      (step (step x .pos).1 .get).2 = .ch t[i]? := by
  intro x i
  obtain ⟨a, r, d⟩ := Reach.rel (t := t) (h := x) ⟨ops, rfl⟩
  obtain ⟨r1, e1⟩ := step_refines r .pos
  obtain ⟨_, e2⟩ := step_refines r1 .get
  have hi : i = a.i := r.idx
  refine ⟨by rw [e1, hi]; simp [astep, d, posAt, locAt], ?_⟩
  rw [e2, hi]
  simp only [astep, d, Bool.false_eq_true, ↓reduceIte]
  generalize t[a.i]? = o
  cases o <;> rfl

/-- **Exact rewind, state level**: if `get_position` in a reachable state `x1` returned `p`
leaving the stream in state `s1`, then `set_position p` in *any* reachable state `x2` of the same
text succeeds and puts the stream into exactly `s1` (buffer index, all three state bits, stored
location).  Everything later is a function of that state, so all subsequent reads and positions
are those observed when `p` was saved. -/
theorem rewind_exact (t : List Ch) (x1 x2 : HState) (r1 : Reach t x1) (r2 : Reach t x2)
    (s1 : Stream) (p : Pos) (hp : x1.s.getPosition = (s1, .ok p)) :
    x2.s.setPosition p = (s1, .ok ()) := by
  obtain ⟨a1, rel1, d1⟩ := r1.rel
  obtain ⟨a2, rel2, d2⟩ := r2.rel
  obtain ⟨s1', p', g1, _, g3⟩ := rewind_state rel1 rel2 d1 d2
  rw [hp] at g1
  obtain ⟨rfl, rfl⟩ : s1 = s1' ∧ p = p' := by simpa using g1
  exact g3

/-- `get_position` never fails on a plain stream (so `rewind_exact` is not vacuous). -/
theorem getPosition_ok (t : List Ch) (x : HState) (r : Reach t x) :
    ∃ s1 p, x.s.getPosition = (s1, .ok p) := by
  obtain ⟨a, rel, d⟩ := r.rel
  obtain ⟨s1, p, g1, _, _⟩ := rewind_state rel rel d d
  exact ⟨s1, p, g1⟩

/-- **Exact rewind, history level**: take any history `ops1`, save the position, run any history
`ops2`, restore the saved position.  Then every continuation `ops3` (which may itself save and
restore, and may restore anything saved up to and including that position) observes exactly what
it observes when run directly after the position was saved. -/
theorem rewind_exact_hist (t : List Ch) (ops1 ops2 ops3 : List Op) :
    let x1 := (run (HState.open t none) (ops1 ++ [.pos])).1
    let x2 := (run x1 (ops2 ++ [.set (x1.saved.length - 1)])).1
    SetsBelow x1.saved.length ops3 → (run x2 ops3).2 = (run x1 ops3).2 :=
  rewind_hist t ops1 ops2 ops3

/-- **End of input never yields a character**, whatever the state bits are. -/
theorem eof_never_char (s : Stream) (h : s.is.buf.length ≤ s.is.idx) (c : Ch) :
    s.getChar.2 ≠ .ok (some c) :=
  getChar_eof s h c

/-- **A failed underlying stream never yields a character**: once `badbit` is set every operation
throws the stream exception and changes nothing. -/
theorem bad_never_char (s : Stream) (h : s.is.bad = true) :
    s.getChar = (s, .error streamFailed) ∧ s.getPosition = (s, .error streamFailed) ∧
      ∀ p, s.setPosition p = (s, .error streamFailed) := by
  simp [Stream.getChar, Stream.getPosition, Stream.setPosition, h]

/-- The read on which the underlying stream fails returns nothing and leaves the stream bad. -/
theorem failing_read_never_char (s : Stream) (k : Nat) (c : Ch) (hg : s.is.good = true)
    (hk : s.is.failAfter = some k) (hr : k ≤ s.is.reads) (hc : s.is.buf[s.is.idx]? = some c) :
    s.getChar.2 = .ok none ∧ s.getChar.1.is.bad = true := by
  obtain ⟨⟨buf, idx, eof, fail, bad, fa, reads⟩, loc⟩ := s
  simp only at hk hr hc
  subst hk
  simp [IStream.good] at hg
  obtain ⟨⟨rfl, rfl⟩, rfl⟩ := hg
  simp [Stream.getChar, IStream.get, IStream.sentry, IStream.good, IStream.sbumpc, hc, hr]

/-- Every character that is returned is the text's character at the current index; the stream was
good, stays not-bad, and the read budget was not exhausted. -/
theorem char_is_text {s s' : Stream} {c : Ch} (h : s.getChar = (s', .ok (some c))) :
    s.is.good = true ∧ s.is.buf[s.is.idx]? = some c ∧ s'.is.idx = s.is.idx + 1 ∧ s'.is.bad = false ∧
      s'.is.buf = s.is.buf ∧ ∀ k, s.is.failAfter = some k → s.is.reads < k :=
  getChar_some h

/-- A dead stream makes `fcppt::parse::parse` fail (the exception is caught by `phrase_parse`);
it never succeeds with a character. -/
theorem parse_bad_fails (s : Stream) (pred : Ch → Bool) (h : s.is.bad = true) :
    s.parse pred = (s, .fail .exception) := by
  simp [Stream.parse, Stream.charPred, Stream.getChar, h]

/-- **Error location**: in any state reached on a plain stream with current index `i`,
`literal` / `char_set` / `char_` (and the skippers of the same names; `pred` is the acceptance test)
* at the end of input fail with the location-free "EOF" error,
* on an accepted character succeed with it,
* on a rejected character fail with an "Expected" error carrying the line and column of index
  `i + 1` — immediately after the offending character —
and in the last two cases the stream is left at index `i + 1` with that location stored. -/
theorem expected_location (t : List Ch) (ops : List Op) (pred : Ch → Bool) :
    let x := (run (HState.open t none) ops).1
    let i := x.s.is.idx
    match t[i]? with
    | none => (x.s.charPred pred).2 = .ok (.fail .eof)
    | some c =>
      (x.s.charPred pred).2
          = .ok (if pred c then .ok c else .fail (.expected (some ⟨line t (i + 1), column t (i + 1)⟩)))
        ∧ (x.s.charPred pred).1.is.idx = i + 1
        ∧ (x.s.charPred pred).1.loc = ⟨line t (i + 1), column t (i + 1)⟩ := by
  intro x i
  obtain ⟨a, r, d⟩ := Reach.rel (t := t) (h := x) ⟨ops, rfl⟩
  have hi : i = a.i := r.idx
  rw [hi]
  exact charPred_spec r d pred

/-- **The spec's column is the documented one** (`basic_stream_decl.hpp`): with `j` the 1-based
index of the last newline among the first `i` characters (`j = 0` if there is none) the column is
`i - j + 1`.  (`line` is literally "number of newlines before, plus one".) -/
theorem column_doc (t : List Ch) (i : Nat) (hi : i ≤ t.length) :
    ∃ j, j ≤ i ∧ column t i = i - j + 1 ∧ (j = 0 ∨ t[j - 1]? = some nl) ∧
      ∀ m, j ≤ m → m < i → t[m]? ≠ some nl :=
  column_doc_aux t i hi

/-! ## Non-vacuity and concrete instances -/

-- "xy\nz\n" (the text of test/parse/stream.cpp): read three characters, save, read to the end and
-- beyond (eof and fail bits set), restore, read again
example :
    (run (HState.open [120, 121, 10, 122, 10] none)
      [.get, .get, .get, .pos, .get, .get, .get, .get, .set 0, .pos, .get]).2
    = [.ch (some 120), .ch (some 121), .ch (some 10), .pos ⟨3, some ⟨2, 1⟩⟩, .ch (some 122), .ch (some 10),
       .ch none, .ch none, .ok, .pos ⟨3, some ⟨2, 1⟩⟩, .ch (some 122)] := by decide

-- the hypotheses of rewind_exact_hist are met by a non-trivial continuation that itself rewinds
example : SetsBelow 1 [Op.get, .pos, .set 0, .get] := by
  intro op h j e; subst e; simp at h; omega

-- the failing stream: budget 1, second read fails and yields nothing, afterwards exceptions
example :
    (run (HState.open [97, 98, 99] (some 1)) [.get, .pos, .get, .get, .pos, .set 0]).2
    = [.ch (some 97), .pos ⟨1, some ⟨1, 2⟩⟩, .ch none, .exc, .exc, .exc] := by decide

-- error location: "a\nb", after reading 'a' a literal 'x' rejects '\n'; the error carries 2:1,
-- the location after the newline
example :
    ((run (HState.open [97, 10, 98] none) [.get]).1.s.charPred (· == 120)).2
    = .ok (.fail (.expected (some ⟨2, 1⟩))) := by rfl

-- a position is not restored correctly by an implementation that forgets to clear eof: without
-- the `clear()` in set_position the seek fails (sentry) — the model distinguishes the two
example :
    let s := (run (HState.open [97] none) [.pos, .get, .get]).1.s
    (s.is.seekg 0).fail = true ∧ (s.is.clear.seekg 0).fail = false := by decide

end Fcppt.C12
