import FcpptProofs.C11.Iter
set_option linter.unusedSimpArgs false
set_option linter.unusedVariables false
/-!
# C11 — property theorems

`Model/C11.lean` executes the pointer writes of every special member of `fcppt::intrusive::base` and
`fcppt::intrusive::list`; `Spec/C11.lean` describes the same operations on rings of nodes.  The
theorems below hold for **every** history of valid operations, of any length, over any number of
lists and elements.  Lemmas live in `FcpptProofs/C11/`.
-/
namespace Fcppt.C11
open Spec

/-- the pointwise ring invariant of DESIGN.md: the links of every live node are live and mutually inverse -/
def RingInv (σ : Store) : Prop := ∀ n, σ.live n = true →
  σ.live (σ.next n) = true ∧ σ.live (σ.prev n) = true ∧ σ.prev (σ.next n) = n ∧ σ.next (σ.prev n) = n

/-- every operation of a history is valid in the abstract state it is applied to -/
def validRun (R : Rings) : List Op → Bool
  | [] => true
  | op :: ops => valid R op && validRun (Spec.step R op) ops

/-- **The representation implies the pointwise ring invariant.** -/
theorem ringInv_of_rep {σ : Store} {R : Rings} (rep : Rep σ R) : RingInv σ := by
  intro n hn
  have hm := (rep.live n).1 hn
  obtain ⟨r, hr, hnr⟩ := mem_nodes.1 hm
  have h1 := Ring_next (rep.ring r hr) hnr
  have h2 := Ring_prev (rep.ring r hr) hnr
  exact ⟨rep.live_of_mem (mem_nodes.2 ⟨r, hr, h1.1⟩), rep.live_of_mem (mem_nodes.2 ⟨r, hr, h2.1⟩), h1.2, h2.2⟩

/-- **One step**: a valid operation on a represented store does not fault (no dead node is read or
written) and yields a store that represents the abstract result. -/
theorem list_step_inv {σ : Store} {R : Rings} (rep : Rep σ R) (op : Op) (hv : valid R op = true) :
    ∃ σ', step σ op = .ok σ' ∧ Rep σ' (Spec.step R op) :=
  step_rep rep op hv

/-- **Every history**: running any list of valid operations never faults and ends in a store that
represents `Spec.run`. -/
theorem history_rep {σ : Store} {R : Rings} (rep : Rep σ R) (ops : List Op) (hv : validRun R ops = true) :
    ∃ σ', run σ ops = .ok σ' ∧ Rep σ' (Spec.run R ops) := by
  induction ops generalizing σ R with
  | nil => exact ⟨σ, rfl, rep⟩
  | cons op ops ih =>
    simp only [validRun, Bool.and_eq_true] at hv
    obtain ⟨σ1, h1, rep1⟩ := step_rep rep op hv.1
    obtain ⟨σ2, h2, rep2⟩ := ih rep1 hv.2
    exact ⟨σ2, by simp [run, h1, bind, Except.bind, h2], rep2⟩

/-- **RingInv is preserved by every operation, for every history from the empty program state.** -/
theorem ring_inv_history (ops : List Op) (hv : validRun [] ops = true) :
    ∃ σ', run Store.empty ops = .ok σ' ∧ RingInv σ' := by
  obtain ⟨σ', h, rep⟩ := history_rep Rep_empty ops hv
  exact ⟨σ', h, ringInv_of_rep rep⟩

/-- **No operation of any valid history touches a destroyed node** (the model checks the pointee of
every read and write; `Fault.oob` is its heap-use-after-free). -/
theorem never_refers_to_dead (ops : List Op) (hv : validRun [] ops = true) (f : Fault) :
    run Store.empty ops ≠ .error f := by
  obtain ⟨σ', h, _⟩ := history_rep Rep_empty ops hv
  rw [h]; intro e; cases e

/-- **Iteration = abstract membership.** After any valid history, `begin() … end()` over list `k`
terminates (any fuel ≥ the number of members suffices) and visits exactly the abstract member list,
in order; iterating backwards visits it in reverse. -/
theorem walk_eq_members (ops : List Op) (hv : validRun [] ops = true) {σ' : Store}
    (hrun : run Store.empty ops = .ok σ') {k : Nat} {l : List Node}
    (hm : members (Spec.run [] ops) k = some l) {fuel : Nat} (hf : l.length ≤ fuel) :
    walk σ' (.head k) fuel = .ok l ∧ walkBack σ' (.head k) fuel = .ok l.reverse := by
  obtain ⟨σ'', h, rep⟩ := history_rep Rep_empty ops hv
  rw [hrun] at h; cases h
  exact ⟨walk_members rep hm hf, walkBack_members rep hm hf⟩

/-- the members of a list are elements (never a list head), pairwise distinct, and alive -/
theorem members_are_live_elements (ops : List Op) (hv : validRun [] ops = true) {σ' : Store}
    (hrun : run Store.empty ops = .ok σ') {k : Nat} {l : List Node}
    (hm : members (Spec.run [] ops) k = some l) :
    l.Nodup ∧ ∀ n ∈ l, (∃ e, n = Node.elem e) ∧ σ'.live n = true := by
  obtain ⟨σ'', h, rep⟩ := history_rep Rep_empty ops hv
  rw [hrun] at h; cases h
  have hr := members_mem hm
  refine ⟨(List.nodup_cons.1 (rep.wf.nodup _ hr)).2, fun n hn => ⟨rep.wf.tail _ hr n hn, ?_⟩⟩
  exact rep.live_of_mem (mem_nodes.2 ⟨_, hr, by simp [hn]⟩)

/-- a list is alive exactly when the abstract state has a member list for it -/
theorem list_live_iff {σ : Store} {R : Rings} (rep : Rep σ R) (k : Nat) :
    σ.live (.head k) = true ↔ ∃ l, members R k = some l := by
  constructor
  · intro h
    obtain ⟨r, hr, hm⟩ := mem_nodes.1 ((rep.live _).1 h)
    obtain ⟨l, rfl⟩ := head_front rep.wf hr hm
    exact ⟨l, members_of_mem rep.wf hr⟩
  · rintro ⟨l, hl⟩
    exact rep.live_of_mem (mem_nodes.2 ⟨_, members_mem hl, by simp⟩)


/-! ## Iterator objects (`intrusive/iterator_impl.hpp`) -/

/-- **`++` and `--` are mutually inverse on every live position** (element hook, list head or orphan), and the
position reached is alive again — an iterator that stands on a live node can be moved in both directions for ever
without touching a destroyed node. -/
theorem iter_inc_dec_inverse {σ : Store} {R : Rings} (rep : Rep σ R) {n : Node} (hn : n ∈ nodes R) :
    (∃ m, m ∈ nodes R ∧ iterIncrement σ (some n) = .ok (some m) ∧ iterDecrement σ (some m) = .ok (some n)) ∧
    (∃ m, m ∈ nodes R ∧ iterDecrement σ (some n) = .ok (some m) ∧ iterIncrement σ (some m) = .ok (some n)) := by
  have inv := ringInv_of_rep rep n (rep.live_of_mem hn)
  have hl := rep.live_of_mem hn
  refine ⟨⟨σ.next n, rep.next_mem hn, iterIncrement_live hl, ?_⟩, ⟨σ.prev n, rep.prev_mem hn, iterDecrement_live hl, ?_⟩⟩
  · rw [iterDecrement_live inv.1, inv.2.2.1]
  · rw [iterIncrement_live inv.2.1, inv.2.2.2]

/-- **Positions**: in a represented store, `begin() + i` stands on the `i`-th member of the list, `begin() + size`
is `end()`; `end() - (i+1)` stands on the `i`-th member from the back, `end() - (size+1)` is `end()` again
(`begin()`/`end()` of the const and the non-const overload have the same body). -/
theorem iter_positions {σ : Store} {R : Rings} (rep : Rep σ R) {k : Nat} {l : List Node}
    (hm : members R k = some l) :
    (∀ i (hi : i < l.length), (listBegin σ (.head k) >>= iterAdvance σ i) = .ok (iterAt l[i])) ∧
    (listBegin σ (.head k) >>= iterAdvance σ l.length) = .ok (listEnd (.head k)) ∧
    (∀ i (hi : i < l.length), iterRetreat σ (i + 1) (listEnd (.head k)) = .ok (iterAt l[l.length - 1 - i])) ∧
    iterRetreat σ (l.length + 1) (listEnd (.head k)) = .ok (listEnd (.head k)) := by
  have hr := members_mem hm
  have hring : Path σ (.head k) l (.head k) := rep.ring _ hr
  have hlive : ∀ x ∈ Node.head k :: l, σ.live x = true := fun x hx => rep.live_of_mem (mem_nodes.2 ⟨_, hr, hx⟩)
  have hb : ∀ n, (listBegin σ (.head k) >>= iterAdvance σ n) = iterAdvance σ (n + 1) (listEnd (.head k)) := by
    intro n
    simp [listBegin, listEnd, iterAdvance, iterIncrement, bind, Except.bind]
  have fwd := iterAdvance_path hring hlive
  have hflip : Path σ.flip (.head k) l.reverse (.head k) := Path_flip hring
  have bwd := iterAdvance_path (σ := σ.flip) hflip (fun x hx => hlive x (by simp at hx ⊢; exact hx))
  refine ⟨fun i hi => ?_, ?_, fun i hi => ?_, ?_⟩
  · rw [hb, listEnd, fwd i (by simp; omega)]
    simp [iterAt, List.getElem_append_left hi]
  · rw [hb, listEnd, fwd l.length (by simp)]
    simp
  · rw [iterRetreat_flip, listEnd, bwd i (by simp; omega)]
    have hi' : i < l.reverse.length := by simpa using hi
    simp [iterAt, List.getElem_append_left hi', List.getElem_reverse]
  · rw [iterRetreat_flip, listEnd, bwd l.length (by simp)]
    simp

/-- **Dereferencing** an iterator that stands on a member of a list yields that element (never a fault); `end()` and the
default-constructed iterator are not dereferenceable. -/
theorem iter_deref {σ : Store} {R : Rings} (rep : Rep σ R) {k : Nat} {l : List Node}
    (hm : members R k = some l) :
    (∀ n ∈ l, ∃ e, n = Node.elem e ∧ iterDeref σ (iterAt n) = .ok e) ∧
    (∃ f, iterDeref σ (listEnd (.head k)) = .error f) ∧ (∃ f, iterDeref σ iterDefault = .error f) := by
  have hr := members_mem hm
  refine ⟨fun n hn => ?_, ⟨_, rfl⟩, ⟨_, rfl⟩⟩
  obtain ⟨e, rfl⟩ := rep.wf.tail _ hr n hn
  have := rep.live_of_mem (n := Node.elem e) (mem_nodes.2 ⟨_, hr, by simp [hn]⟩)
  exact ⟨e, rfl, by simp [iterDeref, iterAt, this]⟩

/-- **Equality of iterators is equality of positions**: `begin() + i == begin() + j` iff `i = j` (members are pairwise
distinct), no `begin() + i` with `i < size` equals `end()`, and `empty()` is `begin() == end()` is "no members". -/
theorem iter_equal {σ : Store} {R : Rings} (rep : Rep σ R) {k : Nat} {l : List Node}
    (hm : members R k = some l) :
    (∀ i j (hi : i < l.length) (hj : j < l.length), iterEqual (iterAt l[i]) (iterAt l[j]) = decide (i = j)) ∧
    (∀ i (hi : i < l.length), iterEqual (iterAt l[i]) (listEnd (.head k)) = false) ∧
    listEmpty σ (.head k) = .ok l.isEmpty ∧
    (∀ b, listBegin σ (.head k) = .ok b → iterEqual b (listEnd (.head k)) = l.isEmpty) := by
  have hr := members_mem hm
  have nd := rep.wf.nodup _ hr
  have hh : σ.live (.head k) = true := rep.live_of_mem (mem_nodes.2 ⟨_, hr, by simp⟩)
  have hring : Path σ (.head k) l (.head k) := rep.ring _ hr
  have hnext : σ.next (.head k) = (l ++ [Node.head k])[0]'(by simp) := by
    cases l with
    | nil => exact hring.1
    | cons y ys => exact hring.1.1
  have hne : ∀ i (hi : i < l.length), l[i] ≠ Node.head k := fun i hi e =>
    (List.nodup_cons.1 nd).1 (e ▸ List.getElem_mem hi)
  have hbe : (σ.next (.head k) == Node.head k) = l.isEmpty := by
    cases l with
    | nil => simp [hnext]
    | cons y ys =>
      have := hne 0 (by simp)
      simp only [List.getElem_cons_zero] at this
      simp [hnext, this]
  refine ⟨fun i j hi hj => ?_, fun i hi => ?_, ?_, fun b hb => ?_⟩
  · have := List.getElem_inj (h₀ := hi) (h₁ := hj) (List.nodup_cons.1 nd).2
    simp only [iterEqual, iterAt, Option.some_beq_some]
    by_cases e : i = j
    · subst e; simp
    · have : l[i] ≠ l[j] := fun h => e (this.1 h)
      simp [e, this]
  · simp [iterEqual, iterAt, listEnd, hne i hi]
  · simp [listEmpty, rdNext, hh, bind, Except.bind, hbe]
  · simp [listBegin, rdNext, hh, bind, Except.bind] at hb
    subst hb
    simpa [iterEqual, listEnd] using hbe

/-- **Post-increment / post-decrement** (`fcppt::iterator::base`): the returned iterator is the old position, the
iterator itself moves exactly like `++it` / `--it`. -/
theorem iter_post_ops (σ : Store) (it : Iter) :
    iterPostInc σ it = (iterIncrement σ it).map (fun it' => (it, it')) ∧
    iterPostDec σ it = (iterDecrement σ it).map (fun it' => (it, it')) := by
  constructor
  · simp only [iterPostInc, bind, Except.bind, Except.map]
  · simp only [iterPostDec, bind, Except.bind, Except.map]

/-- **An iterator kept across operations stays usable as long as its node lives**: after any valid history, an iterator
standing on any live node (however it was obtained, before whatever operations) can be incremented and decremented, and
lands on a live node; if it stands on a member of list `k` at index `i`, then `size - i` increments reach `end()`. -/
theorem iter_survives_history (ops : List Op) (hv : validRun [] ops = true) {σ' : Store}
    (hrun : run Store.empty ops = .ok σ') {n : Node} (hn : σ'.live n = true) :
    (∃ m, σ'.live m = true ∧ iterIncrement σ' (some n) = .ok (some m)) ∧
    (∃ m, σ'.live m = true ∧ iterDecrement σ' (some n) = .ok (some m)) ∧
    (∀ k l i (hi : i < l.length), members (Spec.run [] ops) k = some l → l[i] = n →
      iterAdvance σ' (l.length - i) (some n) = .ok (listEnd (.head k))) := by
  obtain ⟨σ'', h, rep⟩ := history_rep Rep_empty ops hv
  rw [hrun] at h; cases h
  have hm := (rep.live n).1 hn
  obtain ⟨⟨m1, a1, b1, _⟩, ⟨m2, a2, b2, _⟩⟩ := iter_inc_dec_inverse rep hm
  refine ⟨⟨m1, rep.live_of_mem a1, b1⟩, ⟨m2, rep.live_of_mem a2, b2⟩, ?_⟩
  intro k l i hi hmem hli
  -- split the ring at position i: the rest of the path from l[i] to the head
  have hr := members_mem hmem
  have hring : Path σ' (.head k) l (.head k) := rep.ring _ hr
  have hsplit : l = l.take i ++ l[i] :: l.drop (i + 1) := by
    rw [← List.drop_eq_getElem_cons hi, List.take_append_drop]
  rw [hsplit] at hring
  have hrest := (Path_append.1 hring).2
  have hlive : ∀ x ∈ l[i] :: l.drop (i + 1), σ'.live x = true := fun x hx =>
    rep.live_of_mem (n := x) (mem_nodes.2 ⟨_, hr, by
      rcases List.mem_cons.1 hx with e | e
      · rw [e]; exact List.mem_cons_of_mem _ (List.getElem_mem hi)
      · exact List.mem_cons_of_mem _ (List.mem_of_mem_drop e)⟩)
  have := iterAdvance_path hrest hlive (l.drop (i + 1)).length (by simp)
  rw [← hli]
  have hlen : l.length - i = (l.drop (i + 1)).length + 1 := by simp; omega
  rw [hlen, this]
  simp [listEnd]

/-! ### non-vacuity and the abstract operations on a concrete history -/

/-- a history with every kind of operation: valid, and the abstract result is what the prose says -/
def demo : List Op :=
  [.newList 0, .newElem 0 0, .newElem 1 0, .newElem 2 0, .newList 1, .newElem 3 1,
   .moveCtor 4 1,            -- 4 takes the place of 1
   .moveAssign 3 0,          -- 3 leaves list 1 and takes the place of 0
   .listMoveAssign 1 0,      -- list 1 (empty by now) takes over list 0
   .listMoveCtor 2 1, .unlink 4, .delElem 3, .listMoveAssign 2 0 /- from an empty list -/, .delList 2,
   .moveCtor 5 4 /- from an unlinked element -/, .moveAssign 5 0 /- from a moved-from element -/]

example : validRun [] demo = true := by decide
example : members (Spec.run [] (demo.take 9)) 1 = some [.elem 3, .elem 4, .elem 2] := by decide
example : members (Spec.run [] (demo.take 12)) 2 = some [.elem 2] := by decide
example : members (Spec.run [] demo) 2 = none := by decide
example : members (Spec.run [] demo) 0 = some [] := by decide
/-- element 2 survives in an orphan ring: alive, in no list; 5 (moved from unlinked elements twice) is unlinked -/
example : Spec.run [] demo = [[.elem 5], [.elem 4], [.head 1], [.head 0], [.elem 0], [.elem 1], [.elem 2]] := by decide

/-! ### the repaired defect (fcppt commit dcbe9a0) and the guard of `valid` -/

/-- `list::operator=(list&&)` as it was before dcbe9a0: nothing happened when the source was empty -/
def listAssignMoveOld (σ : Store) (k other : Nat) : M Store :=
  if other = k then .ok σ else do
    let e ← listEmpty σ (.head other)
    if e then .ok σ else baseAssignMove σ (.head k) (.head other)

/-- Old behaviour refuted: list 0 = [e0]; `list0 = std::move(empty list1)` left `e0` linked to the head of
list 0 (so list 0 was not empty afterwards, contradicting the abstract result). -/
example :
    (do let σ ← run Store.empty [.newList 0, .newElem 0 0, .newList 1]
        let σ ← listAssignMoveOld σ 0 1
        walk σ (.head 0) 8) = .ok [.elem 0] ∧
    members (Spec.run [] [.newList 0, .newElem 0 0, .newList 1, .listMoveAssign 0 1]) 0 = some [] := by
  decide

/-- … and with the repaired code the same history gives the empty list. -/
example :
    (do let σ ← run Store.empty [.newList 0, .newElem 0 0, .newList 1, .listMoveAssign 0 1]
        walk σ (.head 0) 8) = .ok [] := by
  decide

/-- does the computation end in the given fault? (`Store` holds functions, so `=` on results is not decidable) -/
def faults {α : Type} (r : M α) (f : Fault) : Bool :=
  match r with
  | .error g => g == f
  | .ok _ => false

/-! ### the second repaired defect (fcppt commit f84f067): element moves from an unlinked source -/

/-- `base(base&&)` as it was before f84f067: no test for an unlinked source -/
def baseCtorMoveOld (σ : Store) (self other : Node) : M Store := do
  let p ← rdPrev σ other
  let n ← rdNext σ other
  let σ := σ.alloc self p n
  attach σ self other

/-- `base::operator=(base&&)` as it was before f84f067 -/
def baseAssignMoveOld (σ : Store) (self other : Node) : M Store :=
  if other = self then .ok σ else do
    let σ ← detach σ self
    let op ← rdPrev σ other
    let σ ← wrPrev σ self op
    let on ← rdNext σ other
    let σ ← wrNext σ self on
    attach σ self other

/-- Old behaviour refuted (replay `corpus/C11/defect-f84f067.ops`, first history): move-constructing `e1`
from the unlinked `e0` left `e1` pointing at `e0` with nothing pointing at `e1`; destroying `e0` and then
`e1` wrote through a dangling pointer (heap-use-after-free). -/
example :
    (do let σ ← run Store.empty [.newList 0, .newElem 0 0, .unlink 0]
        let σ ← baseCtorMoveOld σ (.elem 1) (.elem 0)
        pure (σ.next (.elem 1), σ.prev (.elem 1), σ.next (.elem 0), σ.prev (.elem 0)))
      = .ok (Node.elem 0, Node.elem 0, Node.elem 0, Node.elem 0) ∧
    faults (do let σ ← run Store.empty [.newList 0, .newElem 0 0, .unlink 0]
               let σ ← baseCtorMoveOld σ (.elem 1) (.elem 0)
               run σ [.delElem 0, .delElem 1]) .oob = true := by
  decide

/-- … with the repaired code the new element is unlinked and both destructions are harmless. -/
example :
    (do let σ ← run Store.empty [.newList 0, .newElem 0 0, .unlink 0, .moveCtor 1 0]
        pure (σ.next (.elem 1), σ.prev (.elem 1), σ.next (.elem 0), σ.prev (.elem 0)))
      = .ok (Node.elem 1, Node.elem 1, Node.elem 0, Node.elem 0) ∧
    validRun [] [.newList 0, .newElem 0 0, .unlink 0, .moveCtor 1 0, .delElem 0, .delElem 1] = true := by
  decide

set_option maxRecDepth 8000 in
/-- Old behaviour refuted (second history of the replay): the stale links of `e3` corrupted list 0, which `e2`
had meanwhile joined — afterwards iteration of list 0 never reached `end()`; no dead object involved. -/
example :
    (do let σ ← run Store.empty [.newList 0, .newElem 0 0, .newElem 1 0, .newElem 2 0, .unlink 2]
        let σ ← baseCtorMoveOld σ (.elem 3) (.elem 2)
        let σ ← run σ [.moveAssign 2 0, .delElem 3]
        walk σ (.head 0) 12) = .error .fuel := by
  decide

/-- … with the repaired code list 0 is `[e2, e1]` after the same history. -/
example :
    (do let σ ← run Store.empty [.newList 0, .newElem 0 0, .newElem 1 0, .newElem 2 0, .unlink 2,
                                 .moveCtor 3 2, .moveAssign 2 0, .delElem 3]
        walk σ (.head 0) 12) = .ok [.elem 2, .elem 1] := by
  decide

/-- Old move assignment refuted: orphan ring `[e0, e1]` (their list was destroyed), `e0 = std::move(e1)`:
`e1` is unlinked once `e0` has left, and the old code left `e0` pointing at `e1`. -/
example :
    (do let σ ← run Store.empty [.newList 0, .newElem 0 0, .newElem 1 0, .delList 0]
        let σ ← baseAssignMoveOld σ (.elem 0) (.elem 1)
        pure (σ.next (.elem 0), σ.prev (.elem 0))) = .ok (Node.elem 1, Node.elem 1) ∧
    (do let σ ← run Store.empty [.newList 0, .newElem 0 0, .newElem 1 0, .delList 0, .moveAssign 0 1]
        pure (σ.next (.elem 0), σ.prev (.elem 0))) = .ok (Node.elem 0, Node.elem 0) := by
  decide

/-! ## Signals -/

/-- every signal operation of a history is valid as an operation on the connection lists -/
def sigValidRun (R : Rings) : List Sig.Op → Bool
  | [] => true
  | op :: ops => valid R op.toList && sigValidRun (Spec.step R op.toList) ops

def sigRun (st : Sig.State) : List Sig.Op → M Sig.State
  | [] => .ok st
  | op :: ops => do
    let st ← Sig.step st op
    sigRun st ops

/-- **Every signal history** (connect, connection death, signal move / move-assignment / destruction in
any order) runs without touching a dead connection and keeps the connection lists represented. -/
theorem sig_history_rep {st : Sig.State} {R : Rings} (h : SRep st R) (ops : List Sig.Op)
    (hv : sigValidRun R ops = true) :
    ∃ st', sigRun st ops = .ok st' ∧ SRep st' (Spec.run R (ops.map Sig.Op.toList)) := by
  induction ops generalizing st R with
  | nil => exact ⟨st, rfl, h⟩
  | cons op ops ih =>
    simp only [sigValidRun, Bool.and_eq_true] at hv
    obtain ⟨s1, h1, r1⟩ := sig_step_rep h op hv.1
    obtain ⟨s2, h2, r2⟩ := ih r1 hv.2
    exact ⟨s2, by simp [sigRun, h1, bind, Except.bind, h2], by simpa [Spec.run] using r2⟩

private theorem nodup_of_map_elem : ∀ {xs : List Nat}, (xs.map Node.elem).Nodup → xs.Nodup
  | [], _ => List.nodup_nil
  | x :: xs, h => by
    simp only [List.map_cons, List.nodup_cons, List.mem_map, not_exists, not_and] at h ⊢
    exact ⟨fun hx => h.1 x hx rfl, nodup_of_map_elem h.2⟩

private theorem mapM_conns {st : Sig.State} {R : Rings} (h : SRep st R) :
    ∀ l : List Node, (∀ n ∈ l, (∃ e, n = Node.elem e) ∧ n ∈ nodes R) →
    ∃ (xs : List Nat) (cs : List Sig.Conn), l = xs.map Node.elem ∧ xs.map st.conn = cs.map some ∧
      l.mapM (fun n => match n with
        | .elem x => (match st.conn x with
          | some c => .ok c.callback
          | none => .error .oob)
        | .head _ => .error .oob) = (.ok (cs.map (·.callback)) : M (List Nat)) := by
  intro l
  induction l with
  | nil => intro _; exact ⟨[], [], rfl, rfl, rfl⟩
  | cons n t ih =>
    intro hl
    obtain ⟨⟨e, rfl⟩, hn⟩ := hl n (by simp)
    obtain ⟨c, hc⟩ := h.conn e hn
    obtain ⟨xs, cs, h1, h2, h3⟩ := ih (fun m hm => hl m (by simp [hm]))
    refine ⟨e :: xs, c :: cs, by simp [h1], by simp [hc, h2], ?_⟩
    simp [List.mapM_cons, hc, h3, bind, Except.bind, pure, Except.pure]

/-- **Calling a signal invokes exactly the callbacks of the live connections in its list, once each,
in connection order**: the connection ids `xs` are the abstract members (pairwise distinct, all with a
live payload `cs`), and the invoked callbacks are theirs, in that order. -/
theorem call_invokes_live_once_in_order {st : Sig.State} {R : Rings} (h : SRep st R) {s : Nat} {l : List Node}
    (hm : members R s = some l) {fuel : Nat} (hf : l.length ≤ fuel) :
    ∃ (xs : List Nat) (cs : List Sig.Conn), l = xs.map Node.elem ∧ xs.Nodup ∧ xs.map st.conn = cs.map some ∧
      Sig.invoked st s fuel = .ok (cs.map (·.callback)) := by
  have hr := members_mem hm
  have hnd := (List.nodup_cons.1 (h.rep.wf.nodup _ hr)).2
  obtain ⟨xs, cs, h1, h2, h3⟩ := mapM_conns h l (fun n hn =>
    ⟨h.rep.wf.tail _ hr n hn, mem_nodes.2 ⟨_, hr, by simp [hn]⟩⟩)
  refine ⟨xs, cs, h1, ?_, h2, ?_⟩
  · rw [h1] at hnd; exact nodup_of_map_elem hnd
  · simp only [Sig.invoked, walk_members h.rep hm hf, bind, Except.bind]
    exact h3

/-- **The void specialisation** `object<void(Args...), Base>::operator()` (a range-`for` over `connections()` instead of a
fold): the loop terminates, touches no dead connection and invokes exactly the callbacks of the live connections of the
signal, once each, in connection order — the same list `Sig.invoked` that the fold of the non-void signal runs over. -/
theorem callVoid_invokes_live_once_in_order {st : Sig.State} {R : Rings} (h : SRep st R) {s : Nat} {l : List Node}
    (hm : members R s = some l) {fuel : Nat} (hf : l.length ≤ fuel) :
    ∃ (xs : List Nat) (cs : List Sig.Conn), l = xs.map Node.elem ∧ xs.Nodup ∧ xs.map st.conn = cs.map some ∧
      Sig.callVoid st s fuel = .ok (cs.map (·.callback)) ∧ Sig.callVoid st s fuel = Sig.invoked st s fuel := by
  obtain ⟨xs, cs, h1, h2, h3, h4⟩ := call_invokes_live_once_in_order h hm hf
  have hr := members_mem hm
  have hring : Path st.store (.head s) l (.head s) := h.rep.ring _ hr
  have nd := h.rep.wf.nodup _ hr
  have hh : st.store.live (.head s) = true := h.rep.live_of_mem (mem_nodes.2 ⟨_, hr, by simp⟩)
  have key : Sig.callVoid st s fuel = .ok (cs.map (·.callback)) := by
    subst h1
    have := callVoidFrom_path (st := st) (h := .head s) (cs := cs) (fuel := fuel) [] hring
      (fun x hx => h.rep.live_of_mem (mem_nodes.2 ⟨_, hr, by simp [hx]⟩)) h3 (List.nodup_cons.1 nd).1 (by simpa using hf)
    simpa [Sig.callVoid, rdNext, hh, bind, Except.bind] using this
  exact ⟨xs, cs, h1, h2, h3, key, by rw [key, h4]⟩

/-- **The result of a call is the left fold of the combiner over the callback results, starting from
the initial value** (`fs` = the callbacks invoked; with no connection the initial value is returned and
the combiner is not needed). -/
theorem call_is_left_fold (cb : Nat → Nat → Nat) (comb : Nat → Nat → Nat → Nat) {st : Sig.State} {s fuel : Nat}
    {fs : List Nat} (hi : Sig.invoked st s fuel = .ok fs) (init arg : Nat) :
    (fs = [] → Sig.call cb comb st s fuel init arg = .ok ([], init)) ∧
    (∀ c, st.combiner s = some c →
      Sig.call cb comb st s fuel init arg = .ok (fs, fs.foldl (fun acc f => comb c acc (cb f arg)) init)) := by
  constructor
  · intro e; subst e
    simp [Sig.call, hi, bind, Except.bind]
  · intro c hc
    cases fs with
    | nil => simp [Sig.call, hi, bind, Except.bind]
    | cons f t => simp [Sig.call, hi, hc, bind, Except.bind]

/-- **The unregister function of a connection runs exactly once when the connection dies**: its
counter goes up by one, no other counter changes, and the connection is gone afterwards (so it cannot
die again). -/
theorem unregister_exactly_once {st st' : Sig.State} {x u : Nat} {c : Sig.Conn} (hc : st.conn x = some c)
    (hu : c.unreg = some u) (hs : Sig.step st (.disconnect x) = .ok st') :
    st'.unregCount u = st.unregCount u + 1 ∧ (∀ v, v ≠ u → st'.unregCount v = st.unregCount v) ∧
    st'.conn x = none := by
  simp only [Sig.step, hc, hu, bind, Except.bind] at hs
  split at hs
  · cases hs
  · split at hs
    · cases hs
    · cases hs
      exact ⟨by simp, fun v hv => by simp [hv], by simp⟩

/-- … and no other operation (nor the death of a connection without unregister function) runs any. -/
theorem unregister_only_on_death {st st' : Sig.State} {op : Sig.Op}
    (hop : ∀ x c, op = .disconnect x → st.conn x = some c → c.unreg = none)
    (hs : Sig.step st op = .ok st') : st'.unregCount = st.unregCount := by
  cases op with
  | disconnect x =>
    simp only [Sig.step] at hs
    cases hc : st.conn x with
    | none => simp [hc] at hs
    | some c =>
      have := hop x c rfl hc
      simp only [hc, this, bind, Except.bind] at hs
      split at hs
      · cases hs
      · cases hs; rfl
  | newSig s c => simp only [Sig.step, bind, Except.bind] at hs; split at hs <;> cases hs; rfl
  | connect x s f u => simp only [Sig.step, bind, Except.bind] at hs; split at hs <;> cases hs; rfl
  | moveCtor s' s => simp only [Sig.step, bind, Except.bind] at hs; split at hs <;> cases hs; rfl
  | moveAssign s s2 => simp only [Sig.step, bind, Except.bind] at hs; split at hs <;> cases hs; rfl
  | delSig s => simp only [Sig.step, bind, Except.bind] at hs; split at hs <;> cases hs; rfl

/-- non-vacuity: a signal history with connect, death, move, move-assignment -/
example : sigValidRun [] [.newSig 0 (some 1), .connect 0 0 5 (some 1), .connect 1 0 6 none, .moveCtor 1 0,
    .connect 2 0 7 (some 2), .moveAssign 0 1, .disconnect 0, .delSig 0, .disconnect 1] = true := by decide

end Fcppt.C11
