/-! Property theorems for C11 — placeholder until the property's model is built. -/
