import FcpptProofs.C11.Iter
import FcpptProofs.C11.Members
import FcpptProofs.C11.Hold
import FcpptProofs.C11.Reentrant
set_option linter.unusedSimpArgs false
set_option linter.unusedVariables false
/-!
# C11 — property theorems

`Model/C11.lean` executes the pointer writes of every special member of `fcppt::intrusive::base` and
`fcppt::intrusive::list`; `Spec/C11.lean` describes the same operations on rings of nodes.  The
theorems below hold for **every** history of valid operations, of any length, over any number of
lists and elements.  Lemmas live in `FcpptProofs/C11/`.
-/
namespace Fcppt.C11
open Spec

/-- the pointwise ring invariant of DESIGN.md: the links of every live node are live and mutually inverse -/
def RingInv (σ : Store) : Prop := ∀ n, σ.live n = true →
  σ.live (σ.next n) = true ∧ σ.live (σ.prev n) = true ∧ σ.prev (σ.next n) = n ∧ σ.next (σ.prev n) = n

/-- every operation of a history is valid in the abstract state it is applied to -/
def validRun (R : Rings) : List Op → Bool
  | [] => true
  | op :: ops => valid R op && validRun (Spec.step R op) ops

/-- **The representation implies the pointwise ring invariant.** -/
theorem ringInv_of_rep {σ : Store} {R : Rings} (rep : Rep σ R) : RingInv σ := by
  intro n hn
  have hm := (rep.live n).1 hn
  obtain ⟨r, hr, hnr⟩ := mem_nodes.1 hm
  have h1 := Ring_next (rep.ring r hr) hnr
  have h2 := Ring_prev (rep.ring r hr) hnr
  exact ⟨rep.live_of_mem (mem_nodes.2 ⟨r, hr, h1.1⟩), rep.live_of_mem (mem_nodes.2 ⟨r, hr, h2.1⟩), h1.2, h2.2⟩

/-- **One step**: a valid operation on a represented store does not fault (no dead node is read or
written) and yields a store that represents the abstract result. -/
theorem list_step_inv {σ : Store} {R : Rings} (rep : Rep σ R) (op : Op) (hv : valid R op = true) :
    ∃ σ', step σ op = .ok σ' ∧ Rep σ' (Spec.step R op) :=
  step_rep rep op hv

/-- **Every history**: running any list of valid operations never faults and ends in a store that
represents `Spec.run`. -/
theorem history_rep {σ : Store} {R : Rings} (rep : Rep σ R) (ops : List Op) (hv : validRun R ops = true) :
    ∃ σ', run σ ops = .ok σ' ∧ Rep σ' (Spec.run R ops) := by
  induction ops generalizing σ R with
  | nil => exact ⟨σ, rfl, rep⟩
  | cons op ops ih =>
    simp only [validRun, Bool.and_eq_true] at hv
    obtain ⟨σ1, h1, rep1⟩ := step_rep rep op hv.1
    obtain ⟨σ2, h2, rep2⟩ := ih rep1 hv.2
    exact ⟨σ2, by simp [run, h1, bind, Except.bind, h2], rep2⟩

/-- **RingInv is preserved by every operation, for every history from the empty program state.** -/
theorem ring_inv_history (ops : List Op) (hv : validRun [] ops = true) :
    ∃ σ', run Store.empty ops = .ok σ' ∧ RingInv σ' := by
  obtain ⟨σ', h, rep⟩ := history_rep Rep_empty ops hv
  exact ⟨σ', h, ringInv_of_rep rep⟩

/-- **No operation of any valid history touches a destroyed node** (the model checks the pointee of
every read and write; `Fault.oob` is its heap-use-after-free). -/
theorem never_refers_to_dead (ops : List Op) (hv : validRun [] ops = true) (f : Fault) :
    run Store.empty ops ≠ .error f := by
  obtain ⟨σ', h, _⟩ := history_rep Rep_empty ops hv
  rw [h]; intro e; cases e

/-- **Iteration = abstract membership.** After any valid history, `begin() … end()` over list `k`
terminates (any fuel ≥ the number of members suffices) and visits exactly the abstract member list,
in order; iterating backwards visits it in reverse. -/
theorem walk_eq_members (ops : List Op) (hv : validRun [] ops = true) {σ' : Store}
    (hrun : run Store.empty ops = .ok σ') {k : Nat} {l : List Node}
    (hm : members (Spec.run [] ops) k = some l) {fuel : Nat} (hf : l.length ≤ fuel) :
    walk σ' (.head k) fuel = .ok l ∧ walkBack σ' (.head k) fuel = .ok l.reverse := by
  obtain ⟨σ'', h, rep⟩ := history_rep Rep_empty ops hv
  rw [hrun] at h; cases h
  exact ⟨walk_members rep hm hf, walkBack_members rep hm hf⟩

/-- the members of a list are elements (never a list head), pairwise distinct, and alive -/
theorem members_are_live_elements (ops : List Op) (hv : validRun [] ops = true) {σ' : Store}
    (hrun : run Store.empty ops = .ok σ') {k : Nat} {l : List Node}
    (hm : members (Spec.run [] ops) k = some l) :
    l.Nodup ∧ ∀ n ∈ l, (∃ e, n = Node.elem e) ∧ σ'.live n = true := by
  obtain ⟨σ'', h, rep⟩ := history_rep Rep_empty ops hv
  rw [hrun] at h; cases h
  have hr := members_mem hm
  refine ⟨(List.nodup_cons.1 (rep.wf.nodup _ hr)).2, fun n hn => ⟨rep.wf.tail _ hr n hn, ?_⟩⟩
  exact rep.live_of_mem (mem_nodes.2 ⟨_, hr, by simp [hn]⟩)

/-- a list is alive exactly when the abstract state has a member list for it -/
theorem list_live_iff {σ : Store} {R : Rings} (rep : Rep σ R) (k : Nat) :
    σ.live (.head k) = true ↔ ∃ l, members R k = some l := by
  constructor
  · intro h
    obtain ⟨r, hr, hm⟩ := mem_nodes.1 ((rep.live _).1 h)
    obtain ⟨l, rfl⟩ := head_front rep.wf hr hm
    exact ⟨l, members_of_mem rep.wf hr⟩
  · rintro ⟨l, hl⟩
    exact rep.live_of_mem (mem_nodes.2 ⟨_, members_mem hl, by simp⟩)



/-! ## What each operation does to the member lists

The sentence of the property — "a list contains exactly the live, not moved-from elements that were linked into it (or into
a list it took over), in link order" — operation by operation, as equations between the member lists before and after
(`j` ranges over **all** lists).  Together with `walk_eq_members` (iteration = `members`) these say what iteration
yields after any history. -/

/-- the abstract state of every valid history is well-formed (rings duplicate-free, pairwise disjoint, heads in front) -/
theorem wf_history {R : Rings} (wf : Wf R) (ops : List Op) (hv : validRun R ops = true) : Wf (Spec.run R ops) := by
  induction ops generalizing R with
  | nil => exact wf
  | cons op ops ih =>
    simp only [validRun, Bool.and_eq_true] at hv
    exact ih (Wf_step wf op hv.1) hv.2

/-- `new list`: the new list is empty, no other list changes -/
theorem members_newList (R : Rings) (k j : Nat) :
    members (Spec.step R (.newList k)) j = if j = k then some [] else members R j := by
  simp only [Spec.step, members_cons_single]
  by_cases e : j = k
  · subst e; simp
  · have : Node.head k ≠ Node.head j := fun h => e (by cases h; rfl)
    simp [e, this]

/-- `new T(list_k)`: the new element is the last member of list `k`, no other list changes -/
theorem members_newElem (R : Rings) (e k j : Nat) :
    members (Spec.step R (.newElem e k)) j =
      if j = k then (members R k).map (fun l => l ++ [Node.elem e]) else members R j :=
  members_push R k _ j

/-- `delete e`: the element leaves whatever list it was in; order of the others unchanged -/
theorem members_delElem {R : Rings} (wf : Wf R) (e j : Nat) :
    members (Spec.step R (.delElem e)) j = (members R j).map (fun l => l.erase (Node.elem e)) := by
  simp [Spec.step, members_erase wf]

/-- `e->unlink()`: the same, and the element stays alive outside every list -/
theorem members_unlink {R : Rings} (wf : Wf R) (e j : Nat) :
    members (Spec.step R (.unlink e)) j = (members R j).map (fun l => l.erase (Node.elem e)) ∧
    Node.elem e ∈ nodes (Spec.step R (.unlink e)) := by
  simp [Spec.step, members_cons_single, members_erase wf, nodes_cons]

/-- `new T(std::move(*e))`: the new element takes the place of `e` in whatever list `e` was a member of (nothing changes
if `e` was in none); the moved-from `e` is in no list afterwards -/
theorem members_moveCtor {R : Rings} (wf : Wf R) {e' e : Nat} (hv : valid R (.moveCtor e' e) = true) (j : Nat) :
    members (Spec.step R (.moveCtor e' e)) j = (members R j).map (fun l => l.map (subst (.elem e) (.elem e'))) ∧
    ∀ l, members (Spec.step R (.moveCtor e' e)) j = some l → Node.elem e ∉ l := by
  simp only [valid, Bool.and_eq_true, decide_eq_true_eq] at hv
  have hne : e ≠ e' := fun h => hv.1 (h ▸ hv.2)
  have key : members (Spec.step R (.moveCtor e' e)) j = (members R j).map (fun l => l.map (subst (.elem e) (.elem e'))) := by
    simp only [Spec.step]
    split
    · rename_i ha
      rw [members_cons_single, if_neg (by simp)]
      cases hm : members R j with
      | none => rfl
      | some l => simp [map_subst_of_not_mem (not_mem_members_of_alone wf hv.2 ha hm)]
    · rw [members_cons_single, if_neg (by simp), members_replace_elem wf hv.1]
  refine ⟨key, fun l hl => ?_⟩
  rw [key] at hl
  cases hm : members R j with
  | none => simp [hm] at hl
  | some l0 =>
    simp only [hm, Option.map_some, Option.some.injEq] at hl
    subst hl
    simp only [List.mem_map, not_exists, not_and]
    intro x _ hx
    by_cases h : x = Node.elem e
    · simp [subst, h] at hx; exact hne hx.symm
    · simp [subst, h] at hx

/-- `*a = std::move(*b)`: `a` leaves its list and takes the place of `b` (self-assignment: nothing happens) -/
theorem members_moveAssign {R : Rings} (wf : Wf R) {a b : Nat} (hv : valid R (.moveAssign a b) = true) (j : Nat) :
    members (Spec.step R (.moveAssign a b)) j =
      if b = a then members R j
      else (members R j).map (fun l => (l.erase (.elem a)).map (subst (.elem b) (.elem a))) := by
  simp only [valid, Bool.and_eq_true, decide_eq_true_eq] at hv
  by_cases e : b = a
  · simp [Spec.step, e]
  · simp only [Spec.step, e, ite_false]
    have hw : Node.elem a ∉ nodes (eraseNode R (.elem a)) := fun h => ((mem_nodes_erase wf).1 h).2 rfl
    have hb : Node.elem b ∈ nodes (eraseNode R (.elem a)) :=
      (mem_nodes_erase wf).2 ⟨hv.2, fun h => e (by cases h; rfl)⟩
    split
    · rename_i ha
      rw [members_cons_single, if_neg (by simp), members_erase wf, if_neg (by simp)]
      cases hm : members R j with
      | none => rfl
      | some l =>
        have hm' : members (eraseNode R (.elem a)) j = some (l.erase (.elem a)) := by
          rw [members_erase wf, if_neg (by simp), hm]; rfl
        simp [map_subst_of_not_mem (not_mem_members_of_alone (Wf_erase wf _) hb ha hm')]
    · rw [members_cons_single, if_neg (by simp), members_replace_elem (Wf_erase wf _) hw, members_erase wf,
        if_neg (by simp)]
      cases members R j <;> rfl

/-- `new list(std::move(*k))`: the new list has the members of `k`, `k` is empty, no other list changes -/
theorem members_listMoveCtor {R : Rings} (wf : Wf R) {k' k : Nat} (hv : valid R (.listMoveCtor k' k) = true) (j : Nat) :
    members (Spec.step R (.listMoveCtor k' k)) j =
      if j = k' then members R k else if j = k then some [] else members R j := by
  simp only [valid, Bool.and_eq_true, decide_eq_true_eq] at hv
  have hkk : k ≠ k' := fun h => hv.1 (h ▸ hv.2)
  simp only [Spec.step]
  split
  · rename_i ha
    have h0 := members_of_alone_head wf hv.2 ha
    rw [members_cons_single]
    by_cases e1 : j = k'
    · subst e1; simp [h0]
    · have : Node.head k' ≠ Node.head j := fun h => e1 (by cases h; rfl)
      by_cases e2 : j = k
      · subst e2; simp [e1, this, h0]
      · simp [e1, e2, this]
  · rw [members_cons_single, members_replace_head wf hv.1]
    by_cases e2 : j = k
    · subst e2; simp [hkk]
    · have : Node.head k ≠ Node.head j := fun h => e2 (by cases h; rfl)
      simp [e2, this]

/-- `*k = std::move(*k2)` (`k ≠ k2`): `k` has the members of `k2`, `k2` is empty, no other list changes; the former members
of `k` stay alive but are in no list any more -/
theorem members_listMoveAssign {R : Rings} (wf : Wf R) {k k2 : Nat} (hv : valid R (.listMoveAssign k k2) = true)
    (hne : k2 ≠ k) (j : Nat) :
    members (Spec.step R (.listMoveAssign k k2)) j =
      if j = k then members R k2 else if j = k2 then some [] else members R j := by
  simp only [valid, Bool.and_eq_true, decide_eq_true_eq] at hv
  have hw : Node.head k ∉ nodes (eraseNode R (.head k)) := fun h => ((mem_nodes_erase wf).1 h).2 rfl
  simp only [Spec.step, hne, ite_false]
  split
  · rename_i ha
    have h0 := members_of_alone_head wf hv.2 ha
    rw [members_cons_single]
    by_cases e1 : j = k
    · subst e1; simp [h0]
    · have : Node.head k ≠ Node.head j := fun h => e1 (by cases h; rfl)
      rw [if_neg this, members_erase wf, if_neg this, map_erase_head wf]
      by_cases e2 : j = k2
      · subst e2; simp [e1, h0]
      · simp [e1, e2]
  · rw [members_cons_single]
    by_cases e2 : j = k2
    · subst e2; simp [hne]
    · have : Node.head k2 ≠ Node.head j := fun h => e2 (by cases h; rfl)
      rw [if_neg this, members_replace_head (Wf_erase wf _) hw]
      have hk2 : Node.head k ≠ Node.head k2 := fun h => hne (by cases h; rfl)
      by_cases e1 : j = k
      · subst e1
        simp only [ite_true]
        rw [members_erase wf, if_neg hk2, map_erase_head wf]
      · have : Node.head k ≠ Node.head j := fun h => e1 (by cases h; rfl)
        simp only [e1, e2, ite_false]
        rw [members_erase wf, if_neg this, map_erase_head wf]

/-- `delete list k`: the list is gone, no other list changes (its former members stay alive, in no list) -/
theorem members_delList {R : Rings} (wf : Wf R) (k j : Nat) :
    members (Spec.step R (.delList k)) j = if j = k then none else members R j := by
  simp only [Spec.step, members_erase wf]
  by_cases e : j = k
  · subst e; simp
  · have : Node.head k ≠ Node.head j := fun h => e (by cases h; rfl)
    simp [e, this, map_erase_head wf]

/-- the four operations the generic `std::swap` performs on two lists: `list tmp(std::move(a)); a = std::move(b); b = std::move(tmp);` and
the destruction of `tmp` -/
def listSwapOps (t k k2 : Nat) : List Op :=
  [.listMoveCtor t k, .listMoveAssign k k2, .listMoveAssign k2 t, .delList t]

/-- **`std::swap` of two lists exchanges their member lists and changes no other list; swapping a list with itself changes
nothing** (all four steps are valid operations, so `history_rep` applies: no fault, links consistent). -/
theorem list_swap_members {R : Rings} (wf : Wf R) {t k k2 : Nat} (hk : Node.head k ∈ nodes R) (hk2 : Node.head k2 ∈ nodes R)
    (ht : Node.head t ∉ nodes R) :
    validRun R (listSwapOps t k k2) = true ∧
    ∀ j, members (Spec.run R (listSwapOps t k k2)) j =
      if j = k then members R k2 else if j = k2 then members R k else if j = t then none else members R j := by
  have live_iff : ∀ {R' : Rings}, Wf R' → ∀ j, Node.head j ∈ nodes R' ↔ members R' j ≠ none := fun wf' j => by
    rw [Ne, members_none_iff wf']; exact Iff.symm Classical.not_not
  have htk : t ≠ k := fun e => ht (e ▸ hk)
  have htk2 : t ≠ k2 := fun e => ht (e ▸ hk2)
  have mk : members R k ≠ none := (live_iff wf k).1 hk
  have mk2 : members R k2 ≠ none := (live_iff wf k2).1 hk2
  -- step 1
  have v1 : valid R (.listMoveCtor t k) = true := by simp [valid, ht, hk]
  have wf1 := Wf_step wf _ v1
  have m1 := members_listMoveCtor wf v1
  -- step 2
  have hk1 : Node.head k ∈ nodes (Spec.step R (.listMoveCtor t k)) := (live_iff wf1 k).2 (by rw [m1]; simp [Ne.symm htk])
  have hk21 : Node.head k2 ∈ nodes (Spec.step R (.listMoveCtor t k)) := (live_iff wf1 k2).2 (by
    rw [m1]; by_cases e : k2 = k
    · simp [e, Ne.symm htk]
    · simpa [Ne.symm htk2, e] using mk2)
  have ht1 : Node.head t ∈ nodes (Spec.step R (.listMoveCtor t k)) := (live_iff wf1 t).2 (by rw [m1]; simpa using mk)
  have v2 : valid (Spec.step R (.listMoveCtor t k)) (.listMoveAssign k k2) = true := by simp [valid, hk1, hk21]
  have wf2 := Wf_step wf1 _ v2
  by_cases e : k2 = k
  · -- self-swap
    subst e
    have r2 : Spec.step (Spec.step R (.listMoveCtor t k2)) (.listMoveAssign k2 k2) = Spec.step R (.listMoveCtor t k2) := by
      simp [Spec.step]
    have v3 : valid (Spec.step R (.listMoveCtor t k2)) (.listMoveAssign k2 t) = true := by simp [valid, hk1, ht1]
    have wf3 := Wf_step wf1 _ v3
    have m3 := members_listMoveAssign wf1 v3 htk
    have ht3 : Node.head t ∈ nodes (Spec.step (Spec.step R (.listMoveCtor t k2)) (.listMoveAssign k2 t)) :=
      (live_iff wf3 t).2 (by rw [m3]; simp [htk])
    have v4 : valid (Spec.step (Spec.step R (.listMoveCtor t k2)) (.listMoveAssign k2 t)) (.delList t) = true := by
      simp [valid, ht3]
    refine ⟨by simp only [listSwapOps, validRun, v1, v2, r2, v3, v4, Bool.and_self], fun j => ?_⟩
    simp only [listSwapOps, Spec.run, r2, members_delList wf3, m3, m1]
    by_cases a : j = k2
    · subst a; simp [Ne.symm htk]
    · by_cases b : j = t
      · subst b; simp [htk]
      · simp [a, b]
  · have m2 := members_listMoveAssign wf1 v2 e
    have hk22 : Node.head k2 ∈ nodes (Spec.step (Spec.step R (.listMoveCtor t k)) (.listMoveAssign k k2)) :=
      (live_iff wf2 k2).2 (by rw [m2]; simp [e])
    have ht2 : Node.head t ∈ nodes (Spec.step (Spec.step R (.listMoveCtor t k)) (.listMoveAssign k k2)) :=
      (live_iff wf2 t).2 (by simp only [m2, m1]; simpa [htk, htk2] using mk)
    have v3 : valid (Spec.step (Spec.step R (.listMoveCtor t k)) (.listMoveAssign k k2)) (.listMoveAssign k2 t) = true := by
      simp [valid, hk22, ht2]
    have wf3 := Wf_step wf2 _ v3
    have m3 := members_listMoveAssign wf2 v3 htk2
    have ht3 : Node.head t ∈ nodes (Spec.step (Spec.step (Spec.step R (.listMoveCtor t k)) (.listMoveAssign k k2)) (.listMoveAssign k2 t)) :=
      (live_iff wf3 t).2 (by rw [m3]; simp [htk2])
    have v4 : valid (Spec.step (Spec.step (Spec.step R (.listMoveCtor t k)) (.listMoveAssign k k2)) (.listMoveAssign k2 t)) (.delList t) = true := by
      simp [valid, ht3]
    refine ⟨by simp only [listSwapOps, validRun, v1, v2, v3, v4, Bool.and_self], fun j => ?_⟩
    simp only [listSwapOps, Spec.run, members_delList wf3, m3, m2, m1]
    have ekk2 : k ≠ k2 := fun h => e h.symm
    by_cases a : j = k
    · subst a; simp [ekk2, Ne.symm htk, Ne.symm htk2, e]
    · by_cases b : j = k2
      · subst b; simp [a, htk, htk2, Ne.symm htk2]
      · by_cases c : j = t
        · subst c; simp [htk, htk2]
        · simp [a, b, c]

/-- an element is a member of at most one list, at most once -/
theorem member_of_one_list {R : Rings} (wf : Wf R) {j1 j2 : Nat} {l1 l2 : List Node} {n : Node}
    (h1 : members R j1 = some l1) (h2 : members R j2 = some l2) (m1 : n ∈ l1) (m2 : n ∈ l2) : j1 = j2 ∧ l1.Nodup := by
  have := wf.uniq _ (members_mem h1) _ (members_mem h2) n (by simp [m1]) (by simp [m2])
  cases this
  exact ⟨rfl, (List.nodup_cons.1 (wf.nodup _ (members_mem h1))).2⟩

/-! ## Iterator objects (`intrusive/iterator_impl.hpp`) -/

/-- **`++` and `--` are mutually inverse on every live position** (element hook, list head or orphan), and the
position reached is alive again — an iterator that stands on a live node can be moved in both directions for ever
without touching a destroyed node. -/
theorem iter_inc_dec_inverse {σ : Store} {R : Rings} (rep : Rep σ R) {n : Node} (hn : n ∈ nodes R) :
    (∃ m, m ∈ nodes R ∧ iterIncrement σ (some n) = .ok (some m) ∧ iterDecrement σ (some m) = .ok (some n)) ∧
    (∃ m, m ∈ nodes R ∧ iterDecrement σ (some n) = .ok (some m) ∧ iterIncrement σ (some m) = .ok (some n)) := by
  have inv := ringInv_of_rep rep n (rep.live_of_mem hn)
  have hl := rep.live_of_mem hn
  refine ⟨⟨σ.next n, rep.next_mem hn, iterIncrement_live hl, ?_⟩, ⟨σ.prev n, rep.prev_mem hn, iterDecrement_live hl, ?_⟩⟩
  · rw [iterDecrement_live inv.1, inv.2.2.1]
  · rw [iterIncrement_live inv.2.1, inv.2.2.2]

/-- **Positions**: in a represented store, `begin() + i` stands on the `i`-th member of the list, `begin() + size`
is `end()`; `end() - (i+1)` stands on the `i`-th member from the back, `end() - (size+1)` is `end()` again
(`begin()`/`end()` of the const and the non-const overload have the same body). -/
theorem iter_positions {σ : Store} {R : Rings} (rep : Rep σ R) {k : Nat} {l : List Node}
    (hm : members R k = some l) :
    (∀ i (hi : i < l.length), (listBegin σ (.head k) >>= iterAdvance σ i) = .ok (iterAt l[i])) ∧
    (listBegin σ (.head k) >>= iterAdvance σ l.length) = .ok (listEnd (.head k)) ∧
    (∀ i (hi : i < l.length), iterRetreat σ (i + 1) (listEnd (.head k)) = .ok (iterAt l[l.length - 1 - i])) ∧
    iterRetreat σ (l.length + 1) (listEnd (.head k)) = .ok (listEnd (.head k)) := by
  have hr := members_mem hm
  have hring : Path σ (.head k) l (.head k) := rep.ring _ hr
  have hlive : ∀ x ∈ Node.head k :: l, σ.live x = true := fun x hx => rep.live_of_mem (mem_nodes.2 ⟨_, hr, hx⟩)
  have hb : ∀ n, (listBegin σ (.head k) >>= iterAdvance σ n) = iterAdvance σ (n + 1) (listEnd (.head k)) := by
    intro n
    simp [listBegin, listEnd, iterAdvance, iterIncrement, bind, Except.bind]
  have fwd := iterAdvance_path hring hlive
  have hflip : Path σ.flip (.head k) l.reverse (.head k) := Path_flip hring
  have bwd := iterAdvance_path (σ := σ.flip) hflip (fun x hx => hlive x (by simp at hx ⊢; exact hx))
  refine ⟨fun i hi => ?_, ?_, fun i hi => ?_, ?_⟩
  · rw [hb, listEnd, fwd i (by simp; omega)]
    simp [iterAt, List.getElem_append_left hi]
  · rw [hb, listEnd, fwd l.length (by simp)]
    simp
  · rw [iterRetreat_flip, listEnd, bwd i (by simp; omega)]
    have hi' : i < l.reverse.length := by simpa using hi
    simp [iterAt, List.getElem_append_left hi', List.getElem_reverse]
  · rw [iterRetreat_flip, listEnd, bwd l.length (by simp)]
    simp

/-- **Dereferencing** an iterator that stands on a member of a list yields that element (never a fault); `end()` and the
default-constructed iterator are not dereferenceable. -/
theorem iter_deref {σ : Store} {R : Rings} (rep : Rep σ R) {k : Nat} {l : List Node}
    (hm : members R k = some l) :
    (∀ n ∈ l, ∃ e, n = Node.elem e ∧ iterDeref σ (iterAt n) = .ok e) ∧
    (∃ f, iterDeref σ (listEnd (.head k)) = .error f) ∧ (∃ f, iterDeref σ iterDefault = .error f) := by
  have hr := members_mem hm
  refine ⟨fun n hn => ?_, ⟨_, rfl⟩, ⟨_, rfl⟩⟩
  obtain ⟨e, rfl⟩ := rep.wf.tail _ hr n hn
  have := rep.live_of_mem (n := Node.elem e) (mem_nodes.2 ⟨_, hr, by simp [hn]⟩)
  exact ⟨e, rfl, by simp [iterDeref, iterAt, this]⟩

/-- **Equality of iterators is equality of positions**: `begin() + i == begin() + j` iff `i = j` (members are pairwise
distinct), no `begin() + i` with `i < size` equals `end()`, and `empty()` is `begin() == end()` is "no members". -/
theorem iter_equal {σ : Store} {R : Rings} (rep : Rep σ R) {k : Nat} {l : List Node}
    (hm : members R k = some l) :
    (∀ i j (hi : i < l.length) (hj : j < l.length), iterEqual (iterAt l[i]) (iterAt l[j]) = decide (i = j)) ∧
    (∀ i (hi : i < l.length), iterEqual (iterAt l[i]) (listEnd (.head k)) = false) ∧
    listEmpty σ (.head k) = .ok l.isEmpty ∧
    (∀ b, listBegin σ (.head k) = .ok b → iterEqual b (listEnd (.head k)) = l.isEmpty) := by
  have hr := members_mem hm
  have nd := rep.wf.nodup _ hr
  have hh : σ.live (.head k) = true := rep.live_of_mem (mem_nodes.2 ⟨_, hr, by simp⟩)
  have hring : Path σ (.head k) l (.head k) := rep.ring _ hr
  have hnext : σ.next (.head k) = (l ++ [Node.head k])[0]'(by simp) := by
    cases l with
    | nil => exact hring.1
    | cons y ys => exact hring.1.1
  have hne : ∀ i (hi : i < l.length), l[i] ≠ Node.head k := fun i hi e =>
    (List.nodup_cons.1 nd).1 (e ▸ List.getElem_mem hi)
  have hbe : (σ.next (.head k) == Node.head k) = l.isEmpty := by
    cases l with
    | nil => simp [hnext]
    | cons y ys =>
      have := hne 0 (by simp)
      simp only [List.getElem_cons_zero] at this
      simp [hnext, this]
  refine ⟨fun i j hi hj => ?_, fun i hi => ?_, ?_, fun b hb => ?_⟩
  · have := List.getElem_inj (h₀ := hi) (h₁ := hj) (List.nodup_cons.1 nd).2
    simp only [iterEqual, iterAt, Option.some_beq_some]
    by_cases e : i = j
    · subst e; simp
    · have : l[i] ≠ l[j] := fun h => e (this.1 h)
      simp [e, this]
  · simp [iterEqual, iterAt, listEnd, hne i hi]
  · simp [listEmpty, rdNext, hh, bind, Except.bind, hbe]
  · simp [listBegin, rdNext, hh, bind, Except.bind] at hb
    subst hb
    simpa [iterEqual, listEnd] using hbe

/-- **Post-increment / post-decrement** (`fcppt::iterator::base`): the returned iterator is the old position, the
iterator itself moves exactly like `++it` / `--it`. -/
theorem iter_post_ops (σ : Store) (it : Iter) :
    iterPostInc σ it = (iterIncrement σ it).map (fun it' => (it, it')) ∧
    iterPostDec σ it = (iterDecrement σ it).map (fun it' => (it, it')) := by
  constructor
  · simp only [iterPostInc, bind, Except.bind, Except.map]
  · simp only [iterPostDec, bind, Except.bind, Except.map]

/-- **An iterator kept across operations stays usable as long as its node lives**: after any valid history, an iterator
standing on any live node (however it was obtained, before whatever operations) can be incremented and decremented, and
lands on a live node; if it stands on a member of list `k` at index `i`, then `size - i` increments reach `end()`. -/
theorem iter_survives_history (ops : List Op) (hv : validRun [] ops = true) {σ' : Store}
    (hrun : run Store.empty ops = .ok σ') {n : Node} (hn : σ'.live n = true) :
    (∃ m, σ'.live m = true ∧ iterIncrement σ' (some n) = .ok (some m)) ∧
    (∃ m, σ'.live m = true ∧ iterDecrement σ' (some n) = .ok (some m)) ∧
    (∀ k l i (hi : i < l.length), members (Spec.run [] ops) k = some l → l[i] = n →
      iterAdvance σ' (l.length - i) (some n) = .ok (listEnd (.head k))) := by
  obtain ⟨σ'', h, rep⟩ := history_rep Rep_empty ops hv
  rw [hrun] at h; cases h
  have hm := (rep.live n).1 hn
  obtain ⟨⟨m1, a1, b1, _⟩, ⟨m2, a2, b2, _⟩⟩ := iter_inc_dec_inverse rep hm
  refine ⟨⟨m1, rep.live_of_mem a1, b1⟩, ⟨m2, rep.live_of_mem a2, b2⟩, ?_⟩
  intro k l i hi hmem hli
  -- split the ring at position i: the rest of the path from l[i] to the head
  have hr := members_mem hmem
  have hring : Path σ' (.head k) l (.head k) := rep.ring _ hr
  have hsplit : l = l.take i ++ l[i] :: l.drop (i + 1) := by
    rw [← List.drop_eq_getElem_cons hi, List.take_append_drop]
  rw [hsplit] at hring
  have hrest := (Path_append.1 hring).2
  have hlive : ∀ x ∈ l[i] :: l.drop (i + 1), σ'.live x = true := fun x hx =>
    rep.live_of_mem (n := x) (mem_nodes.2 ⟨_, hr, by
      rcases List.mem_cons.1 hx with e | e
      · rw [e]; exact List.mem_cons_of_mem _ (List.getElem_mem hi)
      · exact List.mem_cons_of_mem _ (List.mem_of_mem_drop e)⟩)
  have := iterAdvance_path hrest hlive (l.drop (i + 1)).length (by simp)
  rw [← hli]
  have hlen : l.length - i = (l.drop (i + 1)).length + 1 := by simp; omega
  rw [hlen, this]
  simp [listEnd]

/-! ### non-vacuity and the abstract operations on a concrete history -/

/-- a history with every kind of operation: valid, and the abstract result is what the prose says -/
def demo : List Op :=
  [.newList 0, .newElem 0 0, .newElem 1 0, .newElem 2 0, .newList 1, .newElem 3 1,
   .moveCtor 4 1,            -- 4 takes the place of 1
   .moveAssign 3 0,          -- 3 leaves list 1 and takes the place of 0
   .listMoveAssign 1 0,      -- list 1 (empty by now) takes over list 0
   .listMoveCtor 2 1, .unlink 4, .delElem 3, .listMoveAssign 2 0 /- from an empty list -/, .delList 2,
   .moveCtor 5 4 /- from an unlinked element -/, .moveAssign 5 0 /- from a moved-from element -/]

example : validRun [] demo = true := by decide
example : members (Spec.run [] (demo.take 9)) 1 = some [.elem 3, .elem 4, .elem 2] := by decide
example : members (Spec.run [] (demo.take 12)) 2 = some [.elem 2] := by decide
example : members (Spec.run [] demo) 2 = none := by decide
example : members (Spec.run [] demo) 0 = some [] := by decide
/-- element 2 survives in an orphan ring: alive, in no list; 5 (moved from unlinked elements twice) is unlinked -/
example : Spec.run [] demo = [[.elem 5], [.elem 4], [.head 1], [.head 0], [.elem 0], [.elem 1], [.elem 2]] := by decide

/-! ### the repaired defect (fcppt commit dcbe9a0) and the guard of `valid` -/

/-- `list::operator=(list&&)` as it was before dcbe9a0: nothing happened when the source was empty -/
def listAssignMoveOld (σ : Store) (k other : Nat) : M Store :=
  if other = k then .ok σ else do
    let e ← listEmpty σ (.head other)
    if e then .ok σ else baseAssignMove σ (.head k) (.head other)

/-- Old behaviour refuted: list 0 = [e0]; `list0 = std::move(empty list1)` left `e0` linked to the head of
list 0 (so list 0 was not empty afterwards, contradicting the abstract result). -/
example :
    (do let σ ← run Store.empty [.newList 0, .newElem 0 0, .newList 1]
        let σ ← listAssignMoveOld σ 0 1
        walk σ (.head 0) 8) = .ok [.elem 0] ∧
    members (Spec.run [] [.newList 0, .newElem 0 0, .newList 1, .listMoveAssign 0 1]) 0 = some [] := by
  decide

/-- … and with the repaired code the same history gives the empty list. -/
example :
    (do let σ ← run Store.empty [.newList 0, .newElem 0 0, .newList 1, .listMoveAssign 0 1]
        walk σ (.head 0) 8) = .ok [] := by
  decide

/-- does the computation end in the given fault? (`Store` holds functions, so `=` on results is not decidable) -/
def faults {α : Type} (r : M α) (f : Fault) : Bool :=
  match r with
  | .error g => g == f
  | .ok _ => false

/-! ### the second repaired defect (fcppt commit f84f067): element moves from an unlinked source -/

/-- `base(base&&)` as it was before f84f067: no test for an unlinked source -/
def baseCtorMoveOld (σ : Store) (self other : Node) : M Store := do
  let p ← rdPrev σ other
  let n ← rdNext σ other
  let σ := σ.alloc self p n
  attach σ self other

/-- `base::operator=(base&&)` as it was before f84f067 -/
def baseAssignMoveOld (σ : Store) (self other : Node) : M Store :=
  if other = self then .ok σ else do
    let σ ← detach σ self
    let op ← rdPrev σ other
    let σ ← wrPrev σ self op
    let on ← rdNext σ other
    let σ ← wrNext σ self on
    attach σ self other

/-- Old behaviour refuted (replay `corpus/C11/defect-f84f067.ops`, first history): move-constructing `e1`
from the unlinked `e0` left `e1` pointing at `e0` with nothing pointing at `e1`; destroying `e0` and then
`e1` wrote through a dangling pointer (heap-use-after-free). -/
example :
    (do let σ ← run Store.empty [.newList 0, .newElem 0 0, .unlink 0]
        let σ ← baseCtorMoveOld σ (.elem 1) (.elem 0)
        pure (σ.next (.elem 1), σ.prev (.elem 1), σ.next (.elem 0), σ.prev (.elem 0)))
      = .ok (Node.elem 0, Node.elem 0, Node.elem 0, Node.elem 0) ∧
    faults (do let σ ← run Store.empty [.newList 0, .newElem 0 0, .unlink 0]
               let σ ← baseCtorMoveOld σ (.elem 1) (.elem 0)
               run σ [.delElem 0, .delElem 1]) .oob = true := by
  decide

/-- … with the repaired code the new element is unlinked and both destructions are harmless. -/
example :
    (do let σ ← run Store.empty [.newList 0, .newElem 0 0, .unlink 0, .moveCtor 1 0]
        pure (σ.next (.elem 1), σ.prev (.elem 1), σ.next (.elem 0), σ.prev (.elem 0)))
      = .ok (Node.elem 1, Node.elem 1, Node.elem 0, Node.elem 0) ∧
    validRun [] [.newList 0, .newElem 0 0, .unlink 0, .moveCtor 1 0, .delElem 0, .delElem 1] = true := by
  decide

set_option maxRecDepth 8000 in
/-- Old behaviour refuted (second history of the replay): the stale links of `e3` corrupted list 0, which `e2`
had meanwhile joined — afterwards iteration of list 0 never reached `end()`; no dead object involved. -/
example :
    (do let σ ← run Store.empty [.newList 0, .newElem 0 0, .newElem 1 0, .newElem 2 0, .unlink 2]
        let σ ← baseCtorMoveOld σ (.elem 3) (.elem 2)
        let σ ← run σ [.moveAssign 2 0, .delElem 3]
        walk σ (.head 0) 12) = .error .fuel := by
  decide

/-- … with the repaired code list 0 is `[e2, e1]` after the same history. -/
example :
    (do let σ ← run Store.empty [.newList 0, .newElem 0 0, .newElem 1 0, .newElem 2 0, .unlink 2,
                                 .moveCtor 3 2, .moveAssign 2 0, .delElem 3]
        walk σ (.head 0) 12) = .ok [.elem 2, .elem 1] := by
  decide

/-- Old move assignment refuted: orphan ring `[e0, e1]` (their list was destroyed), `e0 = std::move(e1)`:
`e1` is unlinked once `e0` has left, and the old code left `e0` pointing at `e1`. -/
example :
    (do let σ ← run Store.empty [.newList 0, .newElem 0 0, .newElem 1 0, .delList 0]
        let σ ← baseAssignMoveOld σ (.elem 0) (.elem 1)
        pure (σ.next (.elem 0), σ.prev (.elem 0))) = .ok (Node.elem 1, Node.elem 1) ∧
    (do let σ ← run Store.empty [.newList 0, .newElem 0 0, .newElem 1 0, .delList 0, .moveAssign 0 1]
        pure (σ.next (.elem 0), σ.prev (.elem 0))) = .ok (Node.elem 0, Node.elem 0) := by
  decide

/-! ## Signals -/

/-- every signal operation of a history is valid as an operation on the connection lists -/
def sigValidRun (R : Rings) : List Sig.Op → Bool
  | [] => true
  | op :: ops => valid R op.toList && sigValidRun (Spec.step R op.toList) ops

def sigRun (st : Sig.State) : List Sig.Op → M Sig.State
  | [] => .ok st
  | op :: ops => do
    let st ← Sig.step st op
    sigRun st ops

/-- **Every signal history** (connect, connection death, signal move / move-assignment / destruction in
any order) runs without touching a dead connection and keeps the connection lists represented. -/
theorem sig_history_rep {st : Sig.State} {R : Rings} (h : SRep st R) (ops : List Sig.Op)
    (hv : sigValidRun R ops = true) :
    ∃ st', sigRun st ops = .ok st' ∧ SRep st' (Spec.run R (ops.map Sig.Op.toList)) := by
  induction ops generalizing st R with
  | nil => exact ⟨st, rfl, h⟩
  | cons op ops ih =>
    simp only [sigValidRun, Bool.and_eq_true] at hv
    obtain ⟨s1, h1, r1⟩ := sig_step_rep h op hv.1
    obtain ⟨s2, h2, r2⟩ := ih r1 hv.2
    exact ⟨s2, by simp [sigRun, h1, bind, Except.bind, h2], by simpa [Spec.run] using r2⟩

private theorem nodup_of_map_elem : ∀ {xs : List Nat}, (xs.map Node.elem).Nodup → xs.Nodup
  | [], _ => List.nodup_nil
  | x :: xs, h => by
    simp only [List.map_cons, List.nodup_cons, List.mem_map, not_exists, not_and] at h ⊢
    exact ⟨fun hx => h.1 x hx rfl, nodup_of_map_elem h.2⟩

private theorem mapM_conns {st : Sig.State} {R : Rings} (h : SRep st R) :
    ∀ l : List Node, (∀ n ∈ l, (∃ e, n = Node.elem e) ∧ n ∈ nodes R) →
    ∃ (xs : List Nat) (cs : List Sig.Conn), l = xs.map Node.elem ∧ xs.map st.conn = cs.map some ∧
      l.mapM (fun n => match n with
        | .elem x => (match st.conn x with
          | some c => .ok c.callback
          | none => .error .oob)
        | .head _ => .error .oob) = (.ok (cs.map (·.callback)) : M (List Nat)) := by
  intro l
  induction l with
  | nil => intro _; exact ⟨[], [], rfl, rfl, rfl⟩
  | cons n t ih =>
    intro hl
    obtain ⟨⟨e, rfl⟩, hn⟩ := hl n (by simp)
    obtain ⟨c, hc⟩ := h.conn e hn
    obtain ⟨xs, cs, h1, h2, h3⟩ := ih (fun m hm => hl m (by simp [hm]))
    refine ⟨e :: xs, c :: cs, by simp [h1], by simp [hc, h2], ?_⟩
    simp [List.mapM_cons, hc, h3, bind, Except.bind, pure, Except.pure]

/-- **Calling a signal invokes exactly the callbacks of the live connections in its list, once each,
in connection order**: the connection ids `xs` are the abstract members (pairwise distinct, all with a
live payload `cs`), and the invoked callbacks are theirs, in that order. -/
theorem call_invokes_live_once_in_order {st : Sig.State} {R : Rings} (h : SRep st R) {s : Nat} {l : List Node}
    (hm : members R s = some l) {fuel : Nat} (hf : l.length ≤ fuel) :
    ∃ (xs : List Nat) (cs : List Sig.Conn), l = xs.map Node.elem ∧ xs.Nodup ∧ xs.map st.conn = cs.map some ∧
      Sig.invoked st s fuel = .ok (cs.map (·.callback)) := by
  have hr := members_mem hm
  have hnd := (List.nodup_cons.1 (h.rep.wf.nodup _ hr)).2
  obtain ⟨xs, cs, h1, h2, h3⟩ := mapM_conns h l (fun n hn =>
    ⟨h.rep.wf.tail _ hr n hn, mem_nodes.2 ⟨_, hr, by simp [hn]⟩⟩)
  refine ⟨xs, cs, h1, ?_, h2, ?_⟩
  · rw [h1] at hnd; exact nodup_of_map_elem hnd
  · simp only [Sig.invoked, walk_members h.rep hm hf, bind, Except.bind]
    exact h3

/-- **The void specialisation** `object<void(Args...), Base>::operator()` (a range-`for` over `connections()` instead of a
fold): the loop terminates, touches no dead connection and invokes exactly the callbacks of the live connections of the
signal, once each, in connection order — the same list `Sig.invoked` that the fold of the non-void signal runs over. -/
theorem callVoid_invokes_live_once_in_order {st : Sig.State} {R : Rings} (h : SRep st R) {s : Nat} {l : List Node}
    (hm : members R s = some l) {fuel : Nat} (hf : l.length ≤ fuel) :
    ∃ (xs : List Nat) (cs : List Sig.Conn), l = xs.map Node.elem ∧ xs.Nodup ∧ xs.map st.conn = cs.map some ∧
      Sig.callVoid st s fuel = .ok (cs.map (·.callback)) ∧ Sig.callVoid st s fuel = Sig.invoked st s fuel := by
  obtain ⟨xs, cs, h1, h2, h3, h4⟩ := call_invokes_live_once_in_order h hm hf
  have hr := members_mem hm
  have hring : Path st.store (.head s) l (.head s) := h.rep.ring _ hr
  have nd := h.rep.wf.nodup _ hr
  have hh : st.store.live (.head s) = true := h.rep.live_of_mem (mem_nodes.2 ⟨_, hr, by simp⟩)
  have key : Sig.callVoid st s fuel = .ok (cs.map (·.callback)) := by
    subst h1
    have := callVoidFrom_path (st := st) (h := .head s) (cs := cs) (fuel := fuel) [] hring
      (fun x hx => h.rep.live_of_mem (mem_nodes.2 ⟨_, hr, by simp [hx]⟩)) h3 (List.nodup_cons.1 nd).1 (by simpa using hf)
    simpa [Sig.callVoid, rdNext, hh, bind, Except.bind] using this
  exact ⟨xs, cs, h1, h2, h3, key, by rw [key, h4]⟩

/-- **The result of a call is the left fold of the combiner over the callback results, starting from
the initial value** (`fs` = the callbacks invoked; with no connection the initial value is returned and
the combiner is not needed). -/
theorem call_is_left_fold (cb : Nat → Nat → Nat) (comb : Nat → Nat → Nat → Nat) {st : Sig.State} {s fuel : Nat}
    {fs : List Nat} (hi : Sig.invoked st s fuel = .ok fs) (init arg : Nat) :
    (fs = [] → Sig.call cb comb st s fuel init arg = .ok ([], init)) ∧
    (∀ c, st.combiner s = some c →
      Sig.call cb comb st s fuel init arg = .ok (fs, fs.foldl (fun acc f => comb c acc (cb f arg)) init)) := by
  constructor
  · intro e; subst e
    simp [Sig.call, hi, bind, Except.bind]
  · intro c hc
    cases fs with
    | nil => simp [Sig.call, hi, bind, Except.bind]
    | cons f t => simp [Sig.call, hi, hc, bind, Except.bind]

/-- **The unregister function of a connection runs exactly once when the connection dies**: its
counter goes up by one, no other counter changes, and the connection is gone afterwards (so it cannot
die again). -/
theorem unregister_exactly_once {st st' : Sig.State} {x u : Nat} {c : Sig.Conn} (hc : st.conn x = some c)
    (hu : c.unreg = some u) (hs : Sig.step st (.disconnect x) = .ok st') :
    st'.unregCount u = st.unregCount u + 1 ∧ (∀ v, v ≠ u → st'.unregCount v = st.unregCount v) ∧
    st'.conn x = none := by
  simp only [Sig.step, hc, hu, bind, Except.bind] at hs
  split at hs
  · cases hs
  · split at hs
    · cases hs
    · cases hs
      exact ⟨by simp, fun v hv => by simp [hv], by simp⟩

/-- … and no other operation (nor the death of a connection without unregister function) runs any. -/
theorem unregister_only_on_death {st st' : Sig.State} {op : Sig.Op}
    (hop : ∀ x c, op = .disconnect x → st.conn x = some c → c.unreg = none)
    (hs : Sig.step st op = .ok st') : st'.unregCount = st.unregCount := by
  cases op with
  | disconnect x =>
    simp only [Sig.step] at hs
    cases hc : st.conn x with
    | none => simp [hc] at hs
    | some c =>
      have := hop x c rfl hc
      simp only [hc, this, bind, Except.bind] at hs
      split at hs
      · cases hs
      · cases hs; rfl
  | newSig s c => simp only [Sig.step, bind, Except.bind] at hs; split at hs <;> cases hs; rfl
  | connect x s f u => simp only [Sig.step, bind, Except.bind] at hs; split at hs <;> cases hs; rfl
  | moveCtor s' s => simp only [Sig.step, bind, Except.bind] at hs; split at hs <;> cases hs; rfl
  | moveAssign s s2 => simp only [Sig.step, bind, Except.bind] at hs; split at hs <;> cases hs; rfl
  | delSig s => simp only [Sig.step, bind, Except.bind] at hs; split at hs <;> cases hs; rfl


/-! ## Owners of connections: `auto_connection`, `optional_auto_connection`, `auto_connection_container`

"…invokes exactly the callbacks whose connection object is still alive": a connection object is alive exactly as long as
some owner holds its `auto_connection`. -/

def holdRun (st : Hold.State) : List Hold.Op → M Hold.State
  | [] => .ok st
  | op :: ops => do
    let st ← Hold.step st op
    holdRun st ops

/-- every operation of an owner history is valid where it is applied (who-holds-what is threaded by the pure `ownStep`) -/
def holdValidRun (own : Nat → List Nat) (R : Rings) : List Hold.Op → Bool
  | [] => true
  | op :: ops => holdValid own R op && holdValidRun (ownStep own op) (holdStep own R op) ops

def holdSpecRun (own : Nat → List Nat) (R : Rings) : List Hold.Op → Rings
  | [] => R
  | op :: ops => holdSpecRun (ownStep own op) (holdStep own R op) ops

/-- **One owner operation** (connect into an owner, reset / erase / clear / overwrite an owner, move an `auto_connection`
between owners, swap owners, any operation on whole signals): no fault, the connection lists stay represented, and
afterwards the live connections are exactly the ones some owner holds, each in exactly one slot. -/
theorem hold_step_inv {st : Hold.State} {R : Rings} (h : Owned st R) (op : Hold.Op)
    (hv : holdValid st.own R op = true) :
    ∃ st', Hold.step st op = .ok st' ∧ st'.own = ownStep st.own op ∧ Owned st' (holdStep st.own R op) :=
  hold_step_owned h op hv

/-- **Every owner history** -/
theorem hold_history_inv {st : Hold.State} {R : Rings} (h : Owned st R) (ops : List Hold.Op)
    (hv : holdValidRun st.own R ops = true) :
    ∃ st', holdRun st ops = .ok st' ∧ Owned st' (holdSpecRun st.own R ops) := by
  induction ops generalizing st R with
  | nil => exact ⟨st, rfl, h⟩
  | cons op ops ih =>
    simp only [holdValidRun, Bool.and_eq_true] at hv
    obtain ⟨s1, h1, o1, r1⟩ := hold_step_owned h op hv.1
    obtain ⟨s2, h2, r2⟩ := ih r1 (by rw [o1]; exact hv.2)
    exact ⟨s2, by simp [holdRun, h1, bind, Except.bind, h2], by simpa [holdSpecRun, o1] using r2⟩

/-- **A signal invokes exactly the callbacks whose connection object is still held by someone**: after any owner history
from the empty program, a call of signal `s` invokes callbacks of pairwise distinct connections, every one of them held by
exactly one owner; conversely a connection that no owner holds is dead (not a node of any ring) and so not invoked by any
signal. -/
theorem invoked_iff_held (ops : List Hold.Op) (hv : holdValidRun Hold.State.empty.own [] ops = true) {st' : Hold.State}
    (hrun : holdRun Hold.State.empty ops = .ok st') {s : Nat} {l : List Node}
    (hm : members (holdSpecRun Hold.State.empty.own [] ops) s = some l) {fuel : Nat} (hf : l.length ≤ fuel) :
    ∃ (xs : List Nat) (cs : List Sig.Conn), l = xs.map Node.elem ∧ xs.Nodup ∧ xs.map st'.sig.conn = cs.map some ∧
      Sig.invoked st'.sig s fuel = .ok (cs.map (·.callback)) ∧
      (∀ x ∈ xs, ∃ o, x ∈ st'.own o ∧ ∀ o', x ∈ st'.own o' → o' = o) ∧
      (∀ x, (∀ o, x ∉ st'.own o) → x ∉ xs ∧ st'.sig.store.live (.elem x) = false) := by
  obtain ⟨s2, h2, ow⟩ := hold_history_inv Owned_empty ops hv
  rw [hrun] at h2; cases h2
  obtain ⟨xs, cs, h1, h2, h3, h4⟩ := call_invokes_live_once_in_order ow.srep hm hf
  have hr := members_mem hm
  refine ⟨xs, cs, h1, h2, h3, h4, fun x hx => ?_, fun x hx => ?_⟩
  · have : Node.elem x ∈ nodes (holdSpecRun Hold.State.empty.own [] ops) :=
      mem_nodes.2 ⟨_, hr, by rw [h1]; simp [hx]⟩
    obtain ⟨o, ho⟩ := (ow.live x).1 this
    exact ⟨o, ho, fun o' ho' => ow.disj _ _ x ho' ho⟩
  · have hdead : Node.elem x ∉ nodes (holdSpecRun Hold.State.empty.own [] ops) := fun hn => by
      obtain ⟨o, ho⟩ := (ow.live x).1 hn
      exact hx o ho
    refine ⟨fun hxs => hdead (mem_nodes.2 ⟨_, hr, by rw [h1]; simp [hxs]⟩), ?_⟩
    exact ow.srep.rep.dead_of_not_mem hdead

/-- **Destroying several connections at once** (`clear()`, destruction of or assignment over a container): every one of
them dies, nothing else does, and each unregister function runs exactly as many times as connections carrying it died —
once per dying connection. -/
theorem clear_unregisters_each_once {st : Hold.State} {R : Rings} (h : Owned st R) (o : Nat) :
    ∃ st', Hold.step st (.clear o) = .ok st' ∧ st'.own o = [] ∧
      st'.sig.conn = (fun x => if x ∈ st.own o then none else st.sig.conn x) ∧
      (∀ u, st'.sig.unregCount u = st.sig.unregCount u +
        ((st.own o).filter (fun x => decide ((st.sig.conn x).bind (·.unreg) = some u))).length) ∧
      (∀ n, n ∈ nodes (holdStep st.own R (.clear o)) ↔ n ∈ nodes R ∧ ∀ x ∈ st.own o, n ≠ Node.elem x) := by
  obtain ⟨s1, h1, _, c1, _, u1⟩ := killAll_rep h.srep (st.own o) (h.nodup o) (fun x hx => (h.live x).2 ⟨o, hx⟩)
  refine ⟨{ sig := s1, own := Hold.setOwn st.own o [] }, by simp [Hold.step, h1, bind, Except.bind],
    by simp [Hold.setOwn], c1, u1, fun n => ?_⟩
  simp only [holdStep]
  exact mem_nodes_eraseAll h.srep.rep.wf _

/-- non-vacuity: an owner history with every kind of operation, over an `int` signal with unregister functions and a plain
void signal; two connections die in one `clear` -/
example : holdValidRun Hold.State.empty.own []
    [.sig (.newSig 0 (some 1)), .connect 0 0 0 5 (some 1), .connect 1 1 0 6 (some 1), .sig (.newSig 1 none),
     .connect 2 2 1 7 none, .transfer 0 0 16, .transfer 1 0 16, .transfer 2 0 16, .swap 16 17, .release 17 1,
     .sig (.moveCtor 2 0), .connect 3 3 2 8 (some 2), .clear 0, .transfer 3 0 0, .clear 17, .sig (.delSig 2), .release 0 0] = true := by
  decide


/-! ## Calls whose callbacks change the set of connections -/

/-- **A call whose callbacks let go of connections or connect new callbacks never touches a destroyed connection**, as long
as no callback lets go of the connection it is itself running from (`loopSafe`, a condition on the caller).  For a signal
`s` of an owned program state the call either needs more fuel (callbacks that keep connecting new callbacks), or hits the
moved-from combiner of a non-void signal before anything ran, or returns — and then the program state is again owned and
represented, for the rings obtained from `R` by the effects that ran (`res.trace`), and `s` is still alive. -/
theorem rcall_never_touches_dead (act : Nat → Hold.Act) (cb : Nat → Nat → Nat) (comb : Nat → Nat → Nat → Nat) (isVoid : Bool)
    {st : Hold.State} {R : Rings} (h : Owned st R) {s : Nat} (hs : Node.head s ∈ nodes R) (fuel init arg : Nat)
    (hsafe : loopSafe act (.head s) fuel st (st.sig.store.next (.head s)) = true) :
    Hold.rcall act cb comb isVoid st s fuel init arg = .error .fuel ∨
    (Hold.rcall act cb comb isVoid st s fuel init arg = .error .emptyDeref ∧ isVoid = false ∧ st.sig.combiner s = none) ∨
    ∃ res, Hold.rcall act cb comb isVoid st s fuel init arg = .ok res ∧ Owned res.st (Spec.run R res.trace) ∧
      Node.head s ∈ nodes (Spec.run R res.trace) := by
  have hl := h.srep.rep.live_of_mem hs
  obtain ⟨r, hr, hm⟩ := mem_nodes.1 hs
  have hsr : SameRing R (.head s) (st.sig.store.next (.head s)) := ⟨r, hr, hm, (Ring_next (h.srep.rep.ring _ hr) hm).1⟩
  simp only [Hold.rcall, rdNext, hl, ite_true, bind, Except.bind]
  by_cases e : st.sig.store.next (.head s) = .head s
  · simp only [e, ite_true]
    exact Or.inr (Or.inr ⟨_, rfl, h, hs⟩)
  · simp only [e, ite_false]
    cases isVoid with
    | true =>
      simp only [ite_true]
      rcases callLoop_safe act cb none arg s fuel [] init [] h hsr hsafe with a | ⟨res, tr, a, b, c, d⟩
      · exact Or.inl a
      · simp only [List.nil_append] at b
        exact Or.inr (Or.inr ⟨res, a, by rw [b]; exact c, by rw [b]; exact d⟩)
    | false =>
      simp only [Bool.false_eq_true, ite_false]
      cases hc : st.sig.combiner s with
      | none => exact Or.inr (Or.inl ⟨rfl, by simp⟩)
      | some c0 =>
        rcases callLoop_safe act cb (some (comb c0)) arg s fuel [] init [] h hsr hsafe with a | ⟨res, tr, a, b, c, d⟩
        · exact Or.inl a
        · simp only [List.nil_append] at b
          exact Or.inr (Or.inr ⟨res, a, by rw [b]; exact c, by rw [b]; exact d⟩)

/-- **Without effects the loop is the plain call**: the callbacks of the live connections in connection order, the
accumulator folded from the left (non-void) or left alone (void), the program state untouched. -/
theorem rcall_without_effects (cb : Nat → Nat → Nat) (comb : Nat → Nat → Nat → Nat) {st : Hold.State} {R : Rings}
    (h : SRep st.sig R) {s : Nat} {l : List Node} (hm : members R s = some l) {fuel : Nat} (hf : l.length ≤ fuel)
    (init arg : Nat) :
    ∃ fs, Sig.invoked st.sig s fuel = .ok fs ∧
      Hold.rcall (fun _ => .none) cb comb true st s fuel init arg = .ok ⟨st, fs, init, []⟩ ∧
      ∀ c, st.sig.combiner s = some c →
        Hold.rcall (fun _ => .none) cb comb false st s fuel init arg =
          .ok ⟨st, fs, fs.foldl (fun acc f => comb c acc (cb f arg)) init, []⟩ := by
  obtain ⟨xs, cs, h1, _, h3, h4⟩ := call_invokes_live_once_in_order h hm hf
  have hr := members_mem hm
  have hring : Path st.sig.store (.head s) l (.head s) := h.rep.ring _ hr
  have nd := h.rep.wf.nodup _ hr
  have hh : st.sig.store.live (.head s) = true := h.rep.live_of_mem (mem_nodes.2 ⟨_, hr, by simp⟩)
  subst h1
  have key := fun cmb => callLoop_path_noeffect cb cmb arg (st := st) (h := .head s) (cs := cs) (fuel := fuel) [] init [] hring
    (fun x hx => h.rep.live_of_mem (mem_nodes.2 ⟨_, hr, by simp [hx]⟩)) h3 (List.nodup_cons.1 nd).1 (by simpa using hf)
  refine ⟨cs.map (·.callback), h4, ?_, fun c hc => ?_⟩
  · simp only [Hold.rcall, rdNext, hh, ite_true, bind, Except.bind]
    split
    · rename_i e
      -- no connection at all
      cases xs with
      | nil => cases cs with
        | nil => rfl
        | cons c cs => simp at h3
      | cons x xs =>
        have : st.sig.store.next (.head s) = .elem x := hring.1.1
        rw [this] at e; cases e
    · simp only [ite_true, key none, List.nil_append]
      have : ∀ (fs : List Nat) (a : Nat), fs.foldl (fun ac f => accStep none ac (cb f arg)) a = a := by
        intro fs; induction fs with
        | nil => intro a; rfl
        | cons f t ih => intro a; simpa [accStep] using ih a
      rw [this]
  · simp only [Hold.rcall, rdNext, hh, ite_true, bind, Except.bind]
    split
    · rename_i e
      cases xs with
      | nil => cases cs with
        | nil => rfl
        | cons c cs => simp at h3
      | cons x xs =>
        have : st.sig.store.next (.head s) = .elem x := hring.1.1
        rw [this] at e; cases e
    · simp only [Bool.false_eq_true, ite_false, hc, key (some (comb c)), List.nil_append]
      rfl

/-- the three things that can happen, on a signal with connections 0, 1, 2 (callbacks 10, 11, 12) held by holders 0, 1, 2:
a callback lets go of a later connection — it is not invoked; a callback connects a new callback — it is invoked in the same
call; a callback lets go of its own connection — `++it` reads the destroyed hook (the model's heap-use-after-free), which
is why `loopSafe` excludes it. -/
def reentrantDemo : Hold.State :=
  match holdRun Hold.State.empty [.sig (.newSig 0 none), .connect 0 0 0 10 none, .connect 1 1 0 11 none, .connect 2 2 0 12 none] with
  | .ok st => st
  | .error _ => Hold.State.empty

example : (Hold.rcall (fun f => if f = 10 then .reset 1 else .none) (fun _ _ => 0) (fun _ _ _ => 0) true reentrantDemo 0 8 0 0).toOption.map (·.log)
    = some [10, 12] := by decide
example : (Hold.rcall (fun f => if f = 11 then .connect 3 0 13 none else .none) (fun _ _ => 0) (fun _ _ _ => 0) true reentrantDemo 0 8 0 0).toOption.map (·.log)
    = some [10, 11, 12, 13] := by decide
example : faults (Hold.rcall (fun f => if f = 11 then .reset 1 else .none) (fun _ _ => 0) (fun _ _ _ => 0) true reentrantDemo 0 8 0 0) .oob = true ∧
    loopSafe (fun f => if f = 11 then .reset 1 else .none) (.head 0) 8 reentrantDemo (reentrantDemo.sig.store.next (.head 0)) = false ∧
    loopSafe (fun f => if f = 10 then .reset 1 else .none) (.head 0) 8 reentrantDemo (reentrantDemo.sig.store.next (.head 0)) = true := by
  decide

/-- non-vacuity: a signal history with connect, death, move, move-assignment -/
example : sigValidRun [] [.newSig 0 (some 1), .connect 0 0 5 (some 1), .connect 1 0 6 none, .moveCtor 1 0,
    .connect 2 0 7 (some 2), .moveAssign 0 1, .disconnect 0, .delSig 0, .disconnect 1] = true := by decide

end Fcppt.C11
