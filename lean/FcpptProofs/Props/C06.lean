/-! Property theorems for C06 — placeholder until the property's model is built. -/
