import FcpptProofs.C06.PowTac
set_option linter.unusedSimpArgs false
set_option linter.unusedVariables false
/-!
C06 — math::log2 (after the repair 700a7aa): for every non-zero value of every unsigned type the
loop terminates without an invalid shift and returns ⌊log₂ x⌋ — in particular for values with the
top bit set, where the unrepaired loop shifted by the full width.
-/
namespace Fcppt.C06
open Fcppt Fcppt.Gen


theorem log2_u8_loop_step (f : Nat) (r v : Int) (h0 : 0 ≤ v) (hh : v ≤ 255) (hr : 0 ≤ r) (hr2 : r < 100) :
    log2_u8.loop1 (f + 1) r v = if v ≠ 0 then log2_u8.loop1 f (r + 1) (v / 2) else .ok (r, v) := by
  rw [log2_u8.loop1]
  c06_shnorm
  c06_loopfin

/-- `log2<u8>(x) = ⌊log₂ x⌋` for every `x ≠ 0`; no Fault (no invalid shift, terminates). -/
theorem log2_u8_correct (x : Int) (h : IntTy.u8.InRange x) (hpos : 0 < x) :
    ∃ q, log2_u8 x = .ok q ∧ IsLog2 x q := by
  have hx : 0 ≤ x ∧ x ≤ 255 := by c06_norm; omega
  obtain ⟨k, hk, hb⟩ := log2_loop_spec log2_u8.loop1 255 log2_u8_loop_step 8 199 0 (x / 2) (by omega) (by omega) (by omega)
    (by omega) (by omega) (by omega)
  refine ⟨k, ?_, ?_⟩
  · have e : ∀ A B, A = 0 → B = x / 2 →
        (log2_u8.loop1 200 A B >>= fun p => Except.ok p.fst) = Except.ok (k : Int) := by
      intro A B hA hB
      subst hA hB
      rw [show (200 : Nat) = 199 + 1 from rfl, hk]
      simp [ok_bind]
    simp only [log2_u8]
    c06_shnorm
    repeat' split
    all_goals (first | omega | (apply e <;> omega))
  · have hx2 : IsBitLen x (k + 1) := isBitLen_half hpos hb
    rcases hx2 with ⟨h0, _⟩ | ⟨_, hl, hu⟩
    · omega
    · simp only [IsLog2, Int.toNat_natCast]
      exact ⟨by omega, by simpa using hl, hu⟩


theorem log2_u16_loop_step (f : Nat) (r v : Int) (h0 : 0 ≤ v) (hh : v ≤ 65535) (hr : 0 ≤ r) (hr2 : r < 100) :
    log2_u16.loop1 (f + 1) r v = if v ≠ 0 then log2_u16.loop1 f (r + 1) (v / 2) else .ok (r, v) := by
  rw [log2_u16.loop1]
  c06_shnorm
  c06_loopfin

/-- `log2<u16>(x) = ⌊log₂ x⌋` for every `x ≠ 0`; no Fault (no invalid shift, terminates). -/
theorem log2_u16_correct (x : Int) (h : IntTy.u16.InRange x) (hpos : 0 < x) :
    ∃ q, log2_u16 x = .ok q ∧ IsLog2 x q := by
  have hx : 0 ≤ x ∧ x ≤ 65535 := by c06_norm; omega
  obtain ⟨k, hk, hb⟩ := log2_loop_spec log2_u16.loop1 65535 log2_u16_loop_step 16 199 0 (x / 2) (by omega) (by omega) (by omega)
    (by omega) (by omega) (by omega)
  refine ⟨k, ?_, ?_⟩
  · have e : ∀ A B, A = 0 → B = x / 2 →
        (log2_u16.loop1 200 A B >>= fun p => Except.ok p.fst) = Except.ok (k : Int) := by
      intro A B hA hB
      subst hA hB
      rw [show (200 : Nat) = 199 + 1 from rfl, hk]
      simp [ok_bind]
    simp only [log2_u16]
    c06_shnorm
    repeat' split
    all_goals (first | omega | (apply e <;> omega))
  · have hx2 : IsBitLen x (k + 1) := isBitLen_half hpos hb
    rcases hx2 with ⟨h0, _⟩ | ⟨_, hl, hu⟩
    · omega
    · simp only [IsLog2, Int.toNat_natCast]
      exact ⟨by omega, by simpa using hl, hu⟩


theorem log2_u32_loop_step (f : Nat) (r v : Int) (h0 : 0 ≤ v) (hh : v ≤ 4294967295) (hr : 0 ≤ r) (hr2 : r < 100) :
    log2_u32.loop1 (f + 1) r v = if v ≠ 0 then log2_u32.loop1 f (r + 1) (v / 2) else .ok (r, v) := by
  rw [log2_u32.loop1]
  c06_shnorm
  c06_loopfin

/-- `log2<u32>(x) = ⌊log₂ x⌋` for every `x ≠ 0`; no Fault (no invalid shift, terminates). -/
theorem log2_u32_correct (x : Int) (h : IntTy.u32.InRange x) (hpos : 0 < x) :
    ∃ q, log2_u32 x = .ok q ∧ IsLog2 x q := by
  have hx : 0 ≤ x ∧ x ≤ 4294967295 := by c06_norm; omega
  obtain ⟨k, hk, hb⟩ := log2_loop_spec log2_u32.loop1 4294967295 log2_u32_loop_step 32 199 0 (x / 2) (by omega) (by omega) (by omega)
    (by omega) (by omega) (by omega)
  refine ⟨k, ?_, ?_⟩
  · have e : ∀ A B, A = 0 → B = x / 2 →
        (log2_u32.loop1 200 A B >>= fun p => Except.ok p.fst) = Except.ok (k : Int) := by
      intro A B hA hB
      subst hA hB
      rw [show (200 : Nat) = 199 + 1 from rfl, hk]
      simp [ok_bind]
    simp only [log2_u32]
    c06_shnorm
    repeat' split
    all_goals (first | omega | (apply e <;> omega))
  · have hx2 : IsBitLen x (k + 1) := isBitLen_half hpos hb
    rcases hx2 with ⟨h0, _⟩ | ⟨_, hl, hu⟩
    · omega
    · simp only [IsLog2, Int.toNat_natCast]
      exact ⟨by omega, by simpa using hl, hu⟩

/-- the defect repaired by 700a7aa: the old loop `r = 1; while ((x >> r) != 0) ++r;` reaches a shift by the full width -/
example : CInt.shr IntTy.u32 4294967295 32 = .error .shift := by rfl

theorem log2_u64_loop_step (f : Nat) (r v : Int) (h0 : 0 ≤ v) (hh : v ≤ 18446744073709551615) (hr : 0 ≤ r) (hr2 : r < 100) :
    log2_u64.loop1 (f + 1) r v = if v ≠ 0 then log2_u64.loop1 f (r + 1) (v / 2) else .ok (r, v) := by
  rw [log2_u64.loop1]
  c06_shnorm
  c06_loopfin

/-- `log2<u64>(x) = ⌊log₂ x⌋` for every `x ≠ 0`; no Fault (no invalid shift, terminates). -/
theorem log2_u64_correct (x : Int) (h : IntTy.u64.InRange x) (hpos : 0 < x) :
    ∃ q, log2_u64 x = .ok q ∧ IsLog2 x q := by
  have hx : 0 ≤ x ∧ x ≤ 18446744073709551615 := by c06_norm; omega
  obtain ⟨k, hk, hb⟩ := log2_loop_spec log2_u64.loop1 18446744073709551615 log2_u64_loop_step 64 199 0 (x / 2) (by omega) (by omega) (by omega)
    (by omega) (by omega) (by omega)
  refine ⟨k, ?_, ?_⟩
  · have e : ∀ A B, A = 0 → B = x / 2 →
        (log2_u64.loop1 200 A B >>= fun p => Except.ok p.fst) = Except.ok (k : Int) := by
      intro A B hA hB
      subst hA hB
      rw [show (200 : Nat) = 199 + 1 from rfl, hk]
      simp [ok_bind]
    simp only [log2_u64]
    c06_shnorm
    repeat' split
    all_goals (first | omega | (apply e <;> omega))
  · have hx2 : IsBitLen x (k + 1) := isBitLen_half hpos hb
    rcases hx2 with ⟨h0, _⟩ | ⟨_, hl, hu⟩
    · omega
    · simp only [IsLog2, Int.toNat_natCast]
      exact ⟨by omega, by simpa using hl, hu⟩

/-- the defect repaired by 700a7aa: the old loop `r = 1; while ((x >> r) != 0) ++r;` reaches a shift by the full width -/
example : CInt.shr IntTy.u64 18446744073709551615 64 = .error .shift := by rfl

end Fcppt.C06
