import FcpptProofs.C06.Tactics
set_option linter.unusedSimpArgs false
set_option linter.unusedVariables false
/-!
C06 — enum_::from_int for enums whose underlying type is signed (`int`, the default, and `signed char`): the size type is
the unsigned counterpart, the enumerators are `0 … size-1` with `size ≤ max(underlying) + 1`.
-/
namespace Fcppt.C06
open Fcppt Fcppt.Gen

theorem from_int_i8_u8_correct (value size : Int) (h : IntTy.u8.InRange value) (hs : 0 ≤ size ∧ size ≤ IntTy.i8.hi + 1) :
    from_int_i8_u8 value size = .ok (fromIntSpec size value) := by
  gen_unfold_from_int
  c06_norm
  c06_finish

theorem from_int_i8_u16_correct (value size : Int) (h : IntTy.u16.InRange value) (hs : 0 ≤ size ∧ size ≤ IntTy.i8.hi + 1) :
    from_int_i8_u16 value size = .ok (fromIntSpec size value) := by
  gen_unfold_from_int
  c06_norm
  c06_finish

theorem from_int_i8_u32_correct (value size : Int) (h : IntTy.u32.InRange value) (hs : 0 ≤ size ∧ size ≤ IntTy.i8.hi + 1) :
    from_int_i8_u32 value size = .ok (fromIntSpec size value) := by
  gen_unfold_from_int
  c06_norm
  c06_finish

theorem from_int_i8_u64_correct (value size : Int) (h : IntTy.u64.InRange value) (hs : 0 ≤ size ∧ size ≤ IntTy.i8.hi + 1) :
    from_int_i8_u64 value size = .ok (fromIntSpec size value) := by
  gen_unfold_from_int
  c06_norm
  c06_finish

theorem from_int_i32_u8_correct (value size : Int) (h : IntTy.u8.InRange value) (hs : 0 ≤ size ∧ size ≤ IntTy.i32.hi + 1) :
    from_int_i32_u8 value size = .ok (fromIntSpec size value) := by
  gen_unfold_from_int
  c06_norm
  c06_finish

theorem from_int_i32_u16_correct (value size : Int) (h : IntTy.u16.InRange value) (hs : 0 ≤ size ∧ size ≤ IntTy.i32.hi + 1) :
    from_int_i32_u16 value size = .ok (fromIntSpec size value) := by
  gen_unfold_from_int
  c06_norm
  c06_finish

theorem from_int_i32_u32_correct (value size : Int) (h : IntTy.u32.InRange value) (hs : 0 ≤ size ∧ size ≤ IntTy.i32.hi + 1) :
    from_int_i32_u32 value size = .ok (fromIntSpec size value) := by
  gen_unfold_from_int
  c06_norm
  c06_finish

theorem from_int_i32_u64_correct (value size : Int) (h : IntTy.u64.InRange value) (hs : 0 ≤ size ∧ size ≤ IntTy.i32.hi + 1) :
    from_int_i32_u64 value size = .ok (fromIntSpec size value) := by
  gen_unfold_from_int
  c06_norm
  c06_finish

/-- non-vacuity: the largest enum over `signed char` (128 enumerators) -/
example : from_int_i8_u16 127 128 = .ok (some 127) ∧ from_int_i8_u16 128 128 = .ok none ∧ from_int_i8_u16 383 128 = .ok none := ⟨by rfl, by rfl, by rfl⟩

end Fcppt.C06
