import FcpptProofs.C06.Conv
set_option linter.unusedSimpArgs false
set_option linter.unusedVariables false
/-!
C06 — the unchecked casts the checked ones are built from: `cast::size` (same signedness, any two widths),
`cast::to_signed`, `cast::to_unsigned` are the C++20 modular conversion (`IsConv`: the unique value of the destination
type congruent to the source modulo 2^bits, `isConv_unique`) and preserve every representable value;
`cast::safe_numeric` (widening, same signedness) and `cast::promote_int` preserve every value.  No Fault.
-/
namespace Fcppt.C06
open Fcppt Fcppt.Gen

theorem size_u8_u8_correct (x : Int) (h : IntTy.u8.InRange x) :
    ∃ r, size_u8_u8 x = .ok r ∧ IsConv IntTy.u8 x r ∧ (IntTy.u8.InRange x → r = x) := by
  c06_cast gen_unfold_size

theorem safe_numeric_u8_u8_correct (x : Int) (h : IntTy.u8.InRange x) : safe_numeric_u8_u8 x = .ok x := by
  c06_ranges
  gen_unfold_safe_numeric
  first | rfl | (c06_exec; c06_finish)

theorem size_u8_u16_correct (x : Int) (h : IntTy.u16.InRange x) :
    ∃ r, size_u8_u16 x = .ok r ∧ IsConv IntTy.u8 x r ∧ (IntTy.u8.InRange x → r = x) := by
  c06_cast gen_unfold_size

theorem size_u8_u32_correct (x : Int) (h : IntTy.u32.InRange x) :
    ∃ r, size_u8_u32 x = .ok r ∧ IsConv IntTy.u8 x r ∧ (IntTy.u8.InRange x → r = x) := by
  c06_cast gen_unfold_size

theorem size_u8_u64_correct (x : Int) (h : IntTy.u64.InRange x) :
    ∃ r, size_u8_u64 x = .ok r ∧ IsConv IntTy.u8 x r ∧ (IntTy.u8.InRange x → r = x) := by
  c06_cast gen_unfold_size

theorem size_u16_u8_correct (x : Int) (h : IntTy.u8.InRange x) :
    ∃ r, size_u16_u8 x = .ok r ∧ IsConv IntTy.u16 x r ∧ (IntTy.u16.InRange x → r = x) := by
  c06_cast gen_unfold_size

theorem safe_numeric_u16_u8_correct (x : Int) (h : IntTy.u8.InRange x) : safe_numeric_u16_u8 x = .ok x := by
  c06_ranges
  gen_unfold_safe_numeric
  first | rfl | (c06_exec; c06_finish)

theorem size_u16_u16_correct (x : Int) (h : IntTy.u16.InRange x) :
    ∃ r, size_u16_u16 x = .ok r ∧ IsConv IntTy.u16 x r ∧ (IntTy.u16.InRange x → r = x) := by
  c06_cast gen_unfold_size

theorem safe_numeric_u16_u16_correct (x : Int) (h : IntTy.u16.InRange x) : safe_numeric_u16_u16 x = .ok x := by
  c06_ranges
  gen_unfold_safe_numeric
  first | rfl | (c06_exec; c06_finish)

theorem size_u16_u32_correct (x : Int) (h : IntTy.u32.InRange x) :
    ∃ r, size_u16_u32 x = .ok r ∧ IsConv IntTy.u16 x r ∧ (IntTy.u16.InRange x → r = x) := by
  c06_cast gen_unfold_size

theorem size_u16_u64_correct (x : Int) (h : IntTy.u64.InRange x) :
    ∃ r, size_u16_u64 x = .ok r ∧ IsConv IntTy.u16 x r ∧ (IntTy.u16.InRange x → r = x) := by
  c06_cast gen_unfold_size

theorem size_u32_u8_correct (x : Int) (h : IntTy.u8.InRange x) :
    ∃ r, size_u32_u8 x = .ok r ∧ IsConv IntTy.u32 x r ∧ (IntTy.u32.InRange x → r = x) := by
  c06_cast gen_unfold_size

theorem safe_numeric_u32_u8_correct (x : Int) (h : IntTy.u8.InRange x) : safe_numeric_u32_u8 x = .ok x := by
  c06_ranges
  gen_unfold_safe_numeric
  first | rfl | (c06_exec; c06_finish)

theorem size_u32_u16_correct (x : Int) (h : IntTy.u16.InRange x) :
    ∃ r, size_u32_u16 x = .ok r ∧ IsConv IntTy.u32 x r ∧ (IntTy.u32.InRange x → r = x) := by
  c06_cast gen_unfold_size

theorem safe_numeric_u32_u16_correct (x : Int) (h : IntTy.u16.InRange x) : safe_numeric_u32_u16 x = .ok x := by
  c06_ranges
  gen_unfold_safe_numeric
  first | rfl | (c06_exec; c06_finish)

theorem size_u32_u32_correct (x : Int) (h : IntTy.u32.InRange x) :
    ∃ r, size_u32_u32 x = .ok r ∧ IsConv IntTy.u32 x r ∧ (IntTy.u32.InRange x → r = x) := by
  c06_cast gen_unfold_size

theorem safe_numeric_u32_u32_correct (x : Int) (h : IntTy.u32.InRange x) : safe_numeric_u32_u32 x = .ok x := by
  c06_ranges
  gen_unfold_safe_numeric
  first | rfl | (c06_exec; c06_finish)

theorem size_u32_u64_correct (x : Int) (h : IntTy.u64.InRange x) :
    ∃ r, size_u32_u64 x = .ok r ∧ IsConv IntTy.u32 x r ∧ (IntTy.u32.InRange x → r = x) := by
  c06_cast gen_unfold_size

theorem size_u64_u8_correct (x : Int) (h : IntTy.u8.InRange x) :
    ∃ r, size_u64_u8 x = .ok r ∧ IsConv IntTy.u64 x r ∧ (IntTy.u64.InRange x → r = x) := by
  c06_cast gen_unfold_size

theorem safe_numeric_u64_u8_correct (x : Int) (h : IntTy.u8.InRange x) : safe_numeric_u64_u8 x = .ok x := by
  c06_ranges
  gen_unfold_safe_numeric
  first | rfl | (c06_exec; c06_finish)

theorem size_u64_u16_correct (x : Int) (h : IntTy.u16.InRange x) :
    ∃ r, size_u64_u16 x = .ok r ∧ IsConv IntTy.u64 x r ∧ (IntTy.u64.InRange x → r = x) := by
  c06_cast gen_unfold_size

theorem safe_numeric_u64_u16_correct (x : Int) (h : IntTy.u16.InRange x) : safe_numeric_u64_u16 x = .ok x := by
  c06_ranges
  gen_unfold_safe_numeric
  first | rfl | (c06_exec; c06_finish)

theorem size_u64_u32_correct (x : Int) (h : IntTy.u32.InRange x) :
    ∃ r, size_u64_u32 x = .ok r ∧ IsConv IntTy.u64 x r ∧ (IntTy.u64.InRange x → r = x) := by
  c06_cast gen_unfold_size

theorem safe_numeric_u64_u32_correct (x : Int) (h : IntTy.u32.InRange x) : safe_numeric_u64_u32 x = .ok x := by
  c06_ranges
  gen_unfold_safe_numeric
  first | rfl | (c06_exec; c06_finish)

theorem size_u64_u64_correct (x : Int) (h : IntTy.u64.InRange x) :
    ∃ r, size_u64_u64 x = .ok r ∧ IsConv IntTy.u64 x r ∧ (IntTy.u64.InRange x → r = x) := by
  c06_cast gen_unfold_size

theorem safe_numeric_u64_u64_correct (x : Int) (h : IntTy.u64.InRange x) : safe_numeric_u64_u64 x = .ok x := by
  c06_ranges
  gen_unfold_safe_numeric
  first | rfl | (c06_exec; c06_finish)

theorem size_i8_i8_correct (x : Int) (h : IntTy.i8.InRange x) :
    ∃ r, size_i8_i8 x = .ok r ∧ IsConv IntTy.i8 x r ∧ (IntTy.i8.InRange x → r = x) := by
  c06_cast gen_unfold_size

theorem safe_numeric_i8_i8_correct (x : Int) (h : IntTy.i8.InRange x) : safe_numeric_i8_i8 x = .ok x := by
  c06_ranges
  gen_unfold_safe_numeric
  first | rfl | (c06_exec; c06_finish)

theorem size_i8_i16_correct (x : Int) (h : IntTy.i16.InRange x) :
    ∃ r, size_i8_i16 x = .ok r ∧ IsConv IntTy.i8 x r ∧ (IntTy.i8.InRange x → r = x) := by
  c06_cast gen_unfold_size

theorem size_i8_i32_correct (x : Int) (h : IntTy.i32.InRange x) :
    ∃ r, size_i8_i32 x = .ok r ∧ IsConv IntTy.i8 x r ∧ (IntTy.i8.InRange x → r = x) := by
  c06_cast gen_unfold_size

theorem size_i8_i64_correct (x : Int) (h : IntTy.i64.InRange x) :
    ∃ r, size_i8_i64 x = .ok r ∧ IsConv IntTy.i8 x r ∧ (IntTy.i8.InRange x → r = x) := by
  c06_cast gen_unfold_size

theorem size_i16_i8_correct (x : Int) (h : IntTy.i8.InRange x) :
    ∃ r, size_i16_i8 x = .ok r ∧ IsConv IntTy.i16 x r ∧ (IntTy.i16.InRange x → r = x) := by
  c06_cast gen_unfold_size

theorem safe_numeric_i16_i8_correct (x : Int) (h : IntTy.i8.InRange x) : safe_numeric_i16_i8 x = .ok x := by
  c06_ranges
  gen_unfold_safe_numeric
  first | rfl | (c06_exec; c06_finish)

theorem size_i16_i16_correct (x : Int) (h : IntTy.i16.InRange x) :
    ∃ r, size_i16_i16 x = .ok r ∧ IsConv IntTy.i16 x r ∧ (IntTy.i16.InRange x → r = x) := by
  c06_cast gen_unfold_size

theorem safe_numeric_i16_i16_correct (x : Int) (h : IntTy.i16.InRange x) : safe_numeric_i16_i16 x = .ok x := by
  c06_ranges
  gen_unfold_safe_numeric
  first | rfl | (c06_exec; c06_finish)

theorem size_i16_i32_correct (x : Int) (h : IntTy.i32.InRange x) :
    ∃ r, size_i16_i32 x = .ok r ∧ IsConv IntTy.i16 x r ∧ (IntTy.i16.InRange x → r = x) := by
  c06_cast gen_unfold_size

theorem size_i16_i64_correct (x : Int) (h : IntTy.i64.InRange x) :
    ∃ r, size_i16_i64 x = .ok r ∧ IsConv IntTy.i16 x r ∧ (IntTy.i16.InRange x → r = x) := by
  c06_cast gen_unfold_size

theorem size_i32_i8_correct (x : Int) (h : IntTy.i8.InRange x) :
    ∃ r, size_i32_i8 x = .ok r ∧ IsConv IntTy.i32 x r ∧ (IntTy.i32.InRange x → r = x) := by
  c06_cast gen_unfold_size

theorem safe_numeric_i32_i8_correct (x : Int) (h : IntTy.i8.InRange x) : safe_numeric_i32_i8 x = .ok x := by
  c06_ranges
  gen_unfold_safe_numeric
  first | rfl | (c06_exec; c06_finish)

theorem size_i32_i16_correct (x : Int) (h : IntTy.i16.InRange x) :
    ∃ r, size_i32_i16 x = .ok r ∧ IsConv IntTy.i32 x r ∧ (IntTy.i32.InRange x → r = x) := by
  c06_cast gen_unfold_size

theorem safe_numeric_i32_i16_correct (x : Int) (h : IntTy.i16.InRange x) : safe_numeric_i32_i16 x = .ok x := by
  c06_ranges
  gen_unfold_safe_numeric
  first | rfl | (c06_exec; c06_finish)

theorem size_i32_i32_correct (x : Int) (h : IntTy.i32.InRange x) :
    ∃ r, size_i32_i32 x = .ok r ∧ IsConv IntTy.i32 x r ∧ (IntTy.i32.InRange x → r = x) := by
  c06_cast gen_unfold_size

theorem safe_numeric_i32_i32_correct (x : Int) (h : IntTy.i32.InRange x) : safe_numeric_i32_i32 x = .ok x := by
  c06_ranges
  gen_unfold_safe_numeric
  first | rfl | (c06_exec; c06_finish)

theorem size_i32_i64_correct (x : Int) (h : IntTy.i64.InRange x) :
    ∃ r, size_i32_i64 x = .ok r ∧ IsConv IntTy.i32 x r ∧ (IntTy.i32.InRange x → r = x) := by
  c06_cast gen_unfold_size

theorem size_i64_i8_correct (x : Int) (h : IntTy.i8.InRange x) :
    ∃ r, size_i64_i8 x = .ok r ∧ IsConv IntTy.i64 x r ∧ (IntTy.i64.InRange x → r = x) := by
  c06_cast gen_unfold_size

theorem safe_numeric_i64_i8_correct (x : Int) (h : IntTy.i8.InRange x) : safe_numeric_i64_i8 x = .ok x := by
  c06_ranges
  gen_unfold_safe_numeric
  first | rfl | (c06_exec; c06_finish)

theorem size_i64_i16_correct (x : Int) (h : IntTy.i16.InRange x) :
    ∃ r, size_i64_i16 x = .ok r ∧ IsConv IntTy.i64 x r ∧ (IntTy.i64.InRange x → r = x) := by
  c06_cast gen_unfold_size

theorem safe_numeric_i64_i16_correct (x : Int) (h : IntTy.i16.InRange x) : safe_numeric_i64_i16 x = .ok x := by
  c06_ranges
  gen_unfold_safe_numeric
  first | rfl | (c06_exec; c06_finish)

theorem size_i64_i32_correct (x : Int) (h : IntTy.i32.InRange x) :
    ∃ r, size_i64_i32 x = .ok r ∧ IsConv IntTy.i64 x r ∧ (IntTy.i64.InRange x → r = x) := by
  c06_cast gen_unfold_size

theorem safe_numeric_i64_i32_correct (x : Int) (h : IntTy.i32.InRange x) : safe_numeric_i64_i32 x = .ok x := by
  c06_ranges
  gen_unfold_safe_numeric
  first | rfl | (c06_exec; c06_finish)

theorem size_i64_i64_correct (x : Int) (h : IntTy.i64.InRange x) :
    ∃ r, size_i64_i64 x = .ok r ∧ IsConv IntTy.i64 x r ∧ (IntTy.i64.InRange x → r = x) := by
  c06_cast gen_unfold_size

theorem safe_numeric_i64_i64_correct (x : Int) (h : IntTy.i64.InRange x) : safe_numeric_i64_i64 x = .ok x := by
  c06_ranges
  gen_unfold_safe_numeric
  first | rfl | (c06_exec; c06_finish)

/-- `to_signed`: the value itself whenever it fits (`x ≤ max`), otherwise `x - 2^8` -/
theorem to_signed_u8_correct (x : Int) (h : IntTy.u8.InRange x) :
    ∃ r, to_signed_u8 x = .ok r ∧ IsConv IntTy.i8 x r ∧ (IntTy.i8.InRange x → r = x) := by
  c06_cast gen_unfold_to_signed

/-- `to_signed`: the value itself whenever it fits (`x ≤ max`), otherwise `x - 2^16` -/
theorem to_signed_u16_correct (x : Int) (h : IntTy.u16.InRange x) :
    ∃ r, to_signed_u16 x = .ok r ∧ IsConv IntTy.i16 x r ∧ (IntTy.i16.InRange x → r = x) := by
  c06_cast gen_unfold_to_signed

/-- `to_signed`: the value itself whenever it fits (`x ≤ max`), otherwise `x - 2^32` -/
theorem to_signed_u32_correct (x : Int) (h : IntTy.u32.InRange x) :
    ∃ r, to_signed_u32 x = .ok r ∧ IsConv IntTy.i32 x r ∧ (IntTy.i32.InRange x → r = x) := by
  c06_cast gen_unfold_to_signed

/-- `to_signed`: the value itself whenever it fits (`x ≤ max`), otherwise `x - 2^64` -/
theorem to_signed_u64_correct (x : Int) (h : IntTy.u64.InRange x) :
    ∃ r, to_signed_u64 x = .ok r ∧ IsConv IntTy.i64 x r ∧ (IntTy.i64.InRange x → r = x) := by
  c06_cast gen_unfold_to_signed

/-- `to_unsigned`: the value itself whenever it is non-negative, otherwise `x + 2^8` -/
theorem to_unsigned_i8_correct (x : Int) (h : IntTy.i8.InRange x) :
    ∃ r, to_unsigned_i8 x = .ok r ∧ IsConv IntTy.u8 x r ∧ (IntTy.u8.InRange x → r = x) := by
  c06_cast gen_unfold_to_unsigned

/-- `to_unsigned`: the value itself whenever it is non-negative, otherwise `x + 2^16` -/
theorem to_unsigned_i16_correct (x : Int) (h : IntTy.i16.InRange x) :
    ∃ r, to_unsigned_i16 x = .ok r ∧ IsConv IntTy.u16 x r ∧ (IntTy.u16.InRange x → r = x) := by
  c06_cast gen_unfold_to_unsigned

/-- `to_unsigned`: the value itself whenever it is non-negative, otherwise `x + 2^32` -/
theorem to_unsigned_i32_correct (x : Int) (h : IntTy.i32.InRange x) :
    ∃ r, to_unsigned_i32 x = .ok r ∧ IsConv IntTy.u32 x r ∧ (IntTy.u32.InRange x → r = x) := by
  c06_cast gen_unfold_to_unsigned

/-- `to_unsigned`: the value itself whenever it is non-negative, otherwise `x + 2^64` -/
theorem to_unsigned_i64_correct (x : Int) (h : IntTy.i64.InRange x) :
    ∃ r, to_unsigned_i64 x = .ok r ∧ IsConv IntTy.u64 x r ∧ (IntTy.u64.InRange x → r = x) := by
  c06_cast gen_unfold_to_unsigned

theorem promote_int_u8_correct (x : Int) (h : IntTy.u8.InRange x) : promote_int_u8 x = .ok x := by
  c06_ranges
  gen_unfold_promote_int
  first | rfl | (c06_exec; c06_finish)

theorem promote_int_u16_correct (x : Int) (h : IntTy.u16.InRange x) : promote_int_u16 x = .ok x := by
  c06_ranges
  gen_unfold_promote_int
  first | rfl | (c06_exec; c06_finish)

theorem promote_int_u32_correct (x : Int) (h : IntTy.u32.InRange x) : promote_int_u32 x = .ok x := by
  c06_ranges
  gen_unfold_promote_int
  first | rfl | (c06_exec; c06_finish)

theorem promote_int_u64_correct (x : Int) (h : IntTy.u64.InRange x) : promote_int_u64 x = .ok x := by
  c06_ranges
  gen_unfold_promote_int
  first | rfl | (c06_exec; c06_finish)

theorem promote_int_i8_correct (x : Int) (h : IntTy.i8.InRange x) : promote_int_i8 x = .ok x := by
  c06_ranges
  gen_unfold_promote_int
  first | rfl | (c06_exec; c06_finish)

theorem promote_int_i16_correct (x : Int) (h : IntTy.i16.InRange x) : promote_int_i16 x = .ok x := by
  c06_ranges
  gen_unfold_promote_int
  first | rfl | (c06_exec; c06_finish)

theorem promote_int_i32_correct (x : Int) (h : IntTy.i32.InRange x) : promote_int_i32 x = .ok x := by
  c06_ranges
  gen_unfold_promote_int
  first | rfl | (c06_exec; c06_finish)

theorem promote_int_i64_correct (x : Int) (h : IntTy.i64.InRange x) : promote_int_i64 x = .ok x := by
  c06_ranges
  gen_unfold_promote_int
  first | rfl | (c06_exec; c06_finish)

/-- non-vacuity / the wrap-around outside the guard: `to_signed<u8>(200) = -56`, `size<u8>(u16 300) = 44` -/
example : to_signed_u8 200 = .ok (-56) ∧ size_u8_u16 300 = .ok 44 ∧ to_unsigned_i8 (-1) = .ok 255 := ⟨by rfl, by rfl, by rfl⟩

end Fcppt.C06
