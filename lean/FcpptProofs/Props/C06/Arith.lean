import FcpptProofs.C06.Ceil
set_option linter.unusedSimpArgs false
set_option linter.unusedVariables false
/-!
C06 — math::ceil_div (unsigned, 32/64 bit) and math::ceil_div_signed (32/64 bit): the result is
*the* ceiling of the exact quotient (`IsCeilDiv`, unique by `isCeilDiv_unique`) for every sign
combination whenever that ceiling is representable; a zero divisor gives `none`; no Fault.
-/
namespace Fcppt.C06
open Fcppt Fcppt.Gen

theorem ceil_div_u32_correct (a b : Int) (ha : IntTy.u32.InRange a) (hb : IntTy.u32.InRange b) (hnz : b ≠ 0) :
    ∃ q, ceil_div_u32 a b = .ok (some q) ∧ IsCeilDiv a b q := by
  have ha0 : 0 ≤ a := by c06_norm; omega
  have hb0 : 0 < b := by c06_norm; omega
  obtain ⟨hc, hle, hq0⟩ := ceil_unsigned a b ha0 hb0
  refine ⟨_, ?_, hc⟩
  have e1 : Int.tmod a b = a % b := Int.tmod_eq_emod_of_nonneg ha0
  have e2 : Int.tdiv a b = a / b := Int.tdiv_eq_ediv_of_nonneg ha0
  have h1 : 0 ≤ a % b := Int.emod_nonneg a hnz
  have h2 : a % b < b := Int.emod_lt_of_pos a hb0
  have h3 : 0 ≤ a / b := Int.ediv_nonneg ha0 (Int.le_of_lt hb0)
  have h4 : a / b ≤ a := Int.ediv_le_self b ha0
  gen_unfold_ceil_div
  c06_norm
  rw [e1, e2]
  generalize a / b = q at *
  generalize a % b = r at *
  c06_finish

theorem ceil_div_u32_zero (a : Int) : ceil_div_u32 a 0 = .ok none := by
  gen_unfold_ceil_div; c06_zero

theorem ceil_div_u64_correct (a b : Int) (ha : IntTy.u64.InRange a) (hb : IntTy.u64.InRange b) (hnz : b ≠ 0) :
    ∃ q, ceil_div_u64 a b = .ok (some q) ∧ IsCeilDiv a b q := by
  have ha0 : 0 ≤ a := by c06_norm; omega
  have hb0 : 0 < b := by c06_norm; omega
  obtain ⟨hc, hle, hq0⟩ := ceil_unsigned a b ha0 hb0
  refine ⟨_, ?_, hc⟩
  have e1 : Int.tmod a b = a % b := Int.tmod_eq_emod_of_nonneg ha0
  have e2 : Int.tdiv a b = a / b := Int.tdiv_eq_ediv_of_nonneg ha0
  have h1 : 0 ≤ a % b := Int.emod_nonneg a hnz
  have h2 : a % b < b := Int.emod_lt_of_pos a hb0
  have h3 : 0 ≤ a / b := Int.ediv_nonneg ha0 (Int.le_of_lt hb0)
  have h4 : a / b ≤ a := Int.ediv_le_self b ha0
  gen_unfold_ceil_div
  c06_norm
  rw [e1, e2]
  generalize a / b = q at *
  generalize a % b = r at *
  c06_finish

theorem ceil_div_u64_zero (a : Int) : ceil_div_u64 a 0 = .ok none := by
  gen_unfold_ceil_div; c06_zero

theorem ceil_div_signed_i32_correct (a b : Int) (ha : IntTy.i32.InRange a) (hb : IntTy.i32.InRange b) (hnz : b ≠ 0)
    (hrep : ∀ q, IsCeilDiv a b q → IntTy.i32.InRange q) :
    ∃ q, ceil_div_signed_i32 a b = .ok (some q) ∧ IsCeilDiv a b q := by
  have hc := ceil_signed a b hnz
  have hin := hrep _ hc
  refine ⟨_, ?_, hc⟩
  have hab : (Int.tdiv a b).natAbs ≤ a.natAbs := Int.natAbs_tdiv_le_natAbs a b
  have hr1 := tmod_abs_lt a b
  have hr2 := tmod_sign a b
  have hdm := Int.mul_tdiv_add_tmod a b
  gen_unfold_ceil_div_signed
  c06_norm
  generalize Int.tdiv a b = q at *
  generalize Int.tmod a b = r at *
  c06_finish

theorem ceil_div_signed_i32_zero (a : Int) : ceil_div_signed_i32 a 0 = .ok none := by
  gen_unfold_ceil_div_signed; c06_zero

theorem ceil_div_signed_i64_correct (a b : Int) (ha : IntTy.i64.InRange a) (hb : IntTy.i64.InRange b) (hnz : b ≠ 0)
    (hrep : ∀ q, IsCeilDiv a b q → IntTy.i64.InRange q) :
    ∃ q, ceil_div_signed_i64 a b = .ok (some q) ∧ IsCeilDiv a b q := by
  have hc := ceil_signed a b hnz
  have hin := hrep _ hc
  refine ⟨_, ?_, hc⟩
  have hab : (Int.tdiv a b).natAbs ≤ a.natAbs := Int.natAbs_tdiv_le_natAbs a b
  have hr1 := tmod_abs_lt a b
  have hr2 := tmod_sign a b
  have hdm := Int.mul_tdiv_add_tmod a b
  gen_unfold_ceil_div_signed
  c06_norm
  generalize Int.tdiv a b = q at *
  generalize Int.tmod a b = r at *
  c06_finish

theorem ceil_div_signed_i64_zero (a : Int) : ceil_div_signed_i64 a 0 = .ok none := by
  gen_unfold_ceil_div_signed; c06_zero

end Fcppt.C06
