import FcpptProofs.C06.Range
set_option linter.unusedSimpArgs false
set_option linter.unusedVariables false
/-!
C06 — `cast::truncation_check<bool>` from every source type (after the repair 14450a3): `bool` is an integral type that holds
exactly 0 and 1, so exactly these two values are converted and everything else is reported as truncated.  Before the
repair the overloads were selected by `sizeof`; `sizeof(bool) == sizeof(uint8_t)` sent the 8-bit sources to the
"destination is at least as wide" overload, which converts unconditionally (found by the correspondence batch
`truncation_check_b_*`: `call truncation_check_b_u8 2` → `some 1`).
-/
namespace Fcppt.C06
open Fcppt Fcppt.Gen

macro "c06_boolfin" : tactic => `(tactic| (
    repeat' split
    all_goals (first | rfl | omega | (simp only [Except.ok.injEq, Option.some.injEq, decide_eq_decide, reduceCtorEq]; omega))))

theorem truncation_check_b_u8_correct (x : Int) (h : IntTy.u8.InRange x) : truncation_check_b_u8 x = .ok (truncBoolSpec x) := by
  gen_unfold_truncation_check; c06_norm; simp only [truncBoolSpec]; c06_boolfin

theorem truncation_check_b_u16_correct (x : Int) (h : IntTy.u16.InRange x) : truncation_check_b_u16 x = .ok (truncBoolSpec x) := by
  gen_unfold_truncation_check; c06_norm; simp only [truncBoolSpec]; c06_boolfin

theorem truncation_check_b_u32_correct (x : Int) (h : IntTy.u32.InRange x) : truncation_check_b_u32 x = .ok (truncBoolSpec x) := by
  gen_unfold_truncation_check; c06_norm; simp only [truncBoolSpec]; c06_boolfin

theorem truncation_check_b_u64_correct (x : Int) (h : IntTy.u64.InRange x) : truncation_check_b_u64 x = .ok (truncBoolSpec x) := by
  gen_unfold_truncation_check; c06_norm; simp only [truncBoolSpec]; c06_boolfin

theorem truncation_check_b_i8_correct (x : Int) (h : IntTy.i8.InRange x) : truncation_check_b_i8 x = .ok (truncBoolSpec x) := by
  gen_unfold_truncation_check; c06_norm; simp only [truncBoolSpec]; c06_boolfin

theorem truncation_check_b_i16_correct (x : Int) (h : IntTy.i16.InRange x) : truncation_check_b_i16 x = .ok (truncBoolSpec x) := by
  gen_unfold_truncation_check; c06_norm; simp only [truncBoolSpec]; c06_boolfin

theorem truncation_check_b_i32_correct (x : Int) (h : IntTy.i32.InRange x) : truncation_check_b_i32 x = .ok (truncBoolSpec x) := by
  gen_unfold_truncation_check; c06_norm; simp only [truncBoolSpec]; c06_boolfin

theorem truncation_check_b_i64_correct (x : Int) (h : IntTy.i64.InRange x) : truncation_check_b_i64 x = .ok (truncBoolSpec x) := by
  gen_unfold_truncation_check; c06_norm; simp only [truncBoolSpec]; c06_boolfin

/-- non-vacuity -/
example : truncation_check_b_u8 1 = .ok (some true) ∧ truncation_check_b_i8 0 = .ok (some false) ∧ truncation_check_b_u8 2 = .ok none ∧
    truncation_check_b_i64 (-1) = .ok none := ⟨by rfl, by rfl, by rfl, by rfl⟩

/-- the defect repaired by 14450a3: the overload selected by `sizeof(Dest) >= sizeof(Source)` is `optional<Dest>(source)`, i.e.
`some (source ≠ 0)`; on `uint8_t{2}` that is `some true`, while 2 is not a value of `bool` -/
example : (some (decide ((2 : Int) ≠ 0)) : Option Bool) = some true ∧ truncBoolSpec 2 = none := ⟨by decide, by decide⟩

end Fcppt.C06
