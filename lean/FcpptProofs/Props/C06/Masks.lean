import FcpptProofs.C06.Range
set_option linter.unusedSimpArgs false
set_option linter.unusedVariables false
/-!
C06 — the compile-time bit mask helpers `bit::mask_c<T, M>()` (the mask `M`) and `bit::shifted_mask_c<T, B>()` (`2^B`)
for the instantiations of the registry.
-/
namespace Fcppt.C06
open Fcppt Fcppt.Gen

theorem mask_c_u8_0_correct : mask_c_u8_0 = .ok 0 := by
  gen_unfold_mask_c
  first | rfl | (c06_exec; c06_finish) | decide +kernel

theorem mask_c_u8_1_correct : mask_c_u8_1 = .ok 1 := by
  gen_unfold_mask_c
  first | rfl | (c06_exec; c06_finish) | decide +kernel

theorem mask_c_u8_5_correct : mask_c_u8_5 = .ok 5 := by
  gen_unfold_mask_c
  first | rfl | (c06_exec; c06_finish) | decide +kernel

theorem mask_c_u8_255_correct : mask_c_u8_255 = .ok 255 := by
  gen_unfold_mask_c
  first | rfl | (c06_exec; c06_finish) | decide +kernel

theorem shifted_mask_c_u8_0_correct : shifted_mask_c_u8_0 = .ok ((2 : Int) ^ 0) := by
  first | rfl | decide +kernel

theorem shifted_mask_c_u8_3_correct : shifted_mask_c_u8_3 = .ok ((2 : Int) ^ 3) := by
  first | rfl | decide +kernel

theorem shifted_mask_c_u8_7_correct : shifted_mask_c_u8_7 = .ok ((2 : Int) ^ 7) := by
  first | rfl | decide +kernel

theorem mask_c_u16_0_correct : mask_c_u16_0 = .ok 0 := by
  gen_unfold_mask_c
  first | rfl | (c06_exec; c06_finish) | decide +kernel

theorem mask_c_u16_256_correct : mask_c_u16_256 = .ok 256 := by
  gen_unfold_mask_c
  first | rfl | (c06_exec; c06_finish) | decide +kernel

theorem mask_c_u16_65535_correct : mask_c_u16_65535 = .ok 65535 := by
  gen_unfold_mask_c
  first | rfl | (c06_exec; c06_finish) | decide +kernel

theorem shifted_mask_c_u16_0_correct : shifted_mask_c_u16_0 = .ok ((2 : Int) ^ 0) := by
  first | rfl | decide +kernel

theorem shifted_mask_c_u16_8_correct : shifted_mask_c_u16_8 = .ok ((2 : Int) ^ 8) := by
  first | rfl | decide +kernel

theorem shifted_mask_c_u16_15_correct : shifted_mask_c_u16_15 = .ok ((2 : Int) ^ 15) := by
  first | rfl | decide +kernel

theorem mask_c_u32_0_correct : mask_c_u32_0 = .ok 0 := by
  gen_unfold_mask_c
  first | rfl | (c06_exec; c06_finish) | decide +kernel

theorem mask_c_u32_65536_correct : mask_c_u32_65536 = .ok 65536 := by
  gen_unfold_mask_c
  first | rfl | (c06_exec; c06_finish) | decide +kernel

theorem mask_c_u32_4294967295_correct : mask_c_u32_4294967295 = .ok 4294967295 := by
  gen_unfold_mask_c
  first | rfl | (c06_exec; c06_finish) | decide +kernel

theorem shifted_mask_c_u32_0_correct : shifted_mask_c_u32_0 = .ok ((2 : Int) ^ 0) := by
  first | rfl | decide +kernel

theorem shifted_mask_c_u32_16_correct : shifted_mask_c_u32_16 = .ok ((2 : Int) ^ 16) := by
  first | rfl | decide +kernel

theorem shifted_mask_c_u32_31_correct : shifted_mask_c_u32_31 = .ok ((2 : Int) ^ 31) := by
  first | rfl | decide +kernel

theorem mask_c_u64_0_correct : mask_c_u64_0 = .ok 0 := by
  gen_unfold_mask_c
  first | rfl | (c06_exec; c06_finish) | decide +kernel

theorem mask_c_u64_4294967296_correct : mask_c_u64_4294967296 = .ok 4294967296 := by
  gen_unfold_mask_c
  first | rfl | (c06_exec; c06_finish) | decide +kernel

theorem mask_c_u64_18446744073709551615_correct : mask_c_u64_18446744073709551615 = .ok 18446744073709551615 := by
  gen_unfold_mask_c
  first | rfl | (c06_exec; c06_finish) | decide +kernel

theorem shifted_mask_c_u64_0_correct : shifted_mask_c_u64_0 = .ok ((2 : Int) ^ 0) := by
  first | rfl | decide +kernel

theorem shifted_mask_c_u64_32_correct : shifted_mask_c_u64_32 = .ok ((2 : Int) ^ 32) := by
  first | rfl | decide +kernel

theorem shifted_mask_c_u64_63_correct : shifted_mask_c_u64_63 = .ok ((2 : Int) ^ 63) := by
  first | rfl | decide +kernel

end Fcppt.C06
