import FcpptProofs.C06.Interval
set_option linter.unusedSimpArgs false
set_option linter.unusedVariables false
/-!
C06 — math::interval_distance (anchored header, not named in the statement): what it computes, exactly.
For every type the result is `intervalDistSpec` (Spec/C06.lean) — converted to `T` for the types that are promoted to
`int` and for the unsigned types (which wrap), exact for `int32_t`/`int64_t` under `intervalDistGuard` (every difference
the function evaluates is representable; otherwise the subtraction overflows: `interval_distance_*_overflow`).
The facts about `intervalDistSpec` itself (symmetry unless the upper ends coincide, gap / overlap / containment cases,
and the documented-but-not-implemented "touching" case) are in FcpptProofs/C06/Interval.lean and restated here.
-/
namespace Fcppt.C06
open Fcppt Fcppt.Gen

theorem interval_distance_u8_correct (a1 b1 a2 b2 : Int) (h1 : IntTy.u8.InRange a1) (h2 : IntTy.u8.InRange b1)
    (h3 : IntTy.u8.InRange a2) (h4 : IntTy.u8.InRange b2) :
    interval_distance_u8 a1 b1 a2 b2 = .ok (IntTy.wrap IntTy.u8 (intervalDistSpec a1 b1 a2 b2)) := by
  c06_ranges
  gen_unfold_interval_distance
  simp only [intervalDistSpec, Int.max_def]
  c06_exec
  c06_norm
  c06_finish

theorem interval_distance_u16_correct (a1 b1 a2 b2 : Int) (h1 : IntTy.u16.InRange a1) (h2 : IntTy.u16.InRange b1)
    (h3 : IntTy.u16.InRange a2) (h4 : IntTy.u16.InRange b2) :
    interval_distance_u16 a1 b1 a2 b2 = .ok (IntTy.wrap IntTy.u16 (intervalDistSpec a1 b1 a2 b2)) := by
  c06_ranges
  gen_unfold_interval_distance
  simp only [intervalDistSpec, Int.max_def]
  c06_exec
  c06_norm
  c06_finish

/-- unsigned, not promoted: every difference wraps BEFORE the maximum is taken -/
theorem interval_distance_u32_correct (a1 b1 a2 b2 : Int) (h1 : IntTy.u32.InRange a1) (h2 : IntTy.u32.InRange b1)
    (h3 : IntTy.u32.InRange a2) (h4 : IntTy.u32.InRange b2) :
    interval_distance_u32 a1 b1 a2 b2 = .ok (intervalDistSpecW IntTy.u32 a1 b1 a2 b2) := by
  c06_ranges
  gen_unfold_interval_distance
  simp only [intervalDistSpecW, Int.max_def]
  c06_exec
  c06_norm
  c06_finish

/-- disjoint intervals: the gap is returned exactly (two intervals that only touch in a point of a degenerate interval
already go through the wrapped maximum) -/
theorem interval_distance_u32_disjoint (a1 b1 a2 b2 : Int) (h1 : IntTy.u32.InRange a1) (h2 : IntTy.u32.InRange b1)
    (h3 : IntTy.u32.InRange a2) (h4 : IntTy.u32.InRange b2) (hi1 : a1 ≤ b1) (hi2 : a2 ≤ b2) (hd : b1 < a2 ∨ b2 < a1) :
    interval_distance_u32 a1 b1 a2 b2 = .ok (intervalDistSpec a1 b1 a2 b2) := by
  rw [interval_distance_u32_correct a1 b1 a2 b2 h1 h2 h3 h4]
  c06_ranges
  simp only [intervalDistSpecW, intervalDistSpec, Int.max_def]
  c06_norm
  c06_finish

/-- unsigned, not promoted: every difference wraps BEFORE the maximum is taken -/
theorem interval_distance_u64_correct (a1 b1 a2 b2 : Int) (h1 : IntTy.u64.InRange a1) (h2 : IntTy.u64.InRange b1)
    (h3 : IntTy.u64.InRange a2) (h4 : IntTy.u64.InRange b2) :
    interval_distance_u64 a1 b1 a2 b2 = .ok (intervalDistSpecW IntTy.u64 a1 b1 a2 b2) := by
  c06_ranges
  gen_unfold_interval_distance
  simp only [intervalDistSpecW, Int.max_def]
  c06_exec
  c06_norm
  c06_finish

/-- disjoint intervals: the gap is returned exactly (two intervals that only touch in a point of a degenerate interval
already go through the wrapped maximum) -/
theorem interval_distance_u64_disjoint (a1 b1 a2 b2 : Int) (h1 : IntTy.u64.InRange a1) (h2 : IntTy.u64.InRange b1)
    (h3 : IntTy.u64.InRange a2) (h4 : IntTy.u64.InRange b2) (hi1 : a1 ≤ b1) (hi2 : a2 ≤ b2) (hd : b1 < a2 ∨ b2 < a1) :
    interval_distance_u64 a1 b1 a2 b2 = .ok (intervalDistSpec a1 b1 a2 b2) := by
  rw [interval_distance_u64_correct a1 b1 a2 b2 h1 h2 h3 h4]
  c06_ranges
  simp only [intervalDistSpecW, intervalDistSpec, Int.max_def]
  c06_norm
  c06_finish

theorem interval_distance_i8_correct (a1 b1 a2 b2 : Int) (h1 : IntTy.i8.InRange a1) (h2 : IntTy.i8.InRange b1)
    (h3 : IntTy.i8.InRange a2) (h4 : IntTy.i8.InRange b2) :
    interval_distance_i8 a1 b1 a2 b2 = .ok (IntTy.wrap IntTy.i8 (intervalDistSpec a1 b1 a2 b2)) := by
  c06_ranges
  gen_unfold_interval_distance
  simp only [intervalDistSpec, Int.max_def]
  c06_exec
  c06_norm
  c06_finish

theorem interval_distance_i16_correct (a1 b1 a2 b2 : Int) (h1 : IntTy.i16.InRange a1) (h2 : IntTy.i16.InRange b1)
    (h3 : IntTy.i16.InRange a2) (h4 : IntTy.i16.InRange b2) :
    interval_distance_i16 a1 b1 a2 b2 = .ok (IntTy.wrap IntTy.i16 (intervalDistSpec a1 b1 a2 b2)) := by
  c06_ranges
  gen_unfold_interval_distance
  simp only [intervalDistSpec, Int.max_def]
  c06_exec
  c06_norm
  c06_finish

theorem interval_distance_i32_correct (a1 b1 a2 b2 : Int) (h1 : IntTy.i32.InRange a1) (h2 : IntTy.i32.InRange b1)
    (h3 : IntTy.i32.InRange a2) (h4 : IntTy.i32.InRange b2) (hg : intervalDistGuard IntTy.i32 a1 b1 a2 b2) :
    interval_distance_i32 a1 b1 a2 b2 = .ok (intervalDistSpec a1 b1 a2 b2) := by
  simp only [intervalDistGuard] at hg
  c06_ranges
  split at hg <;> split at hg <;> (
    gen_unfold_interval_distance
    simp only [intervalDistSpec, Int.max_def]
    c06_exec
    c06_finish)

/-- outside the guard a subtraction overflows (undefined behaviour in C++) -/
theorem interval_distance_i32_overflow (a1 b1 a2 b2 : Int) (h1 : IntTy.i32.InRange a1) (h2 : IntTy.i32.InRange b1)
    (h3 : IntTy.i32.InRange a2) (h4 : IntTy.i32.InRange b2) (hg : ¬ intervalDistGuard IntTy.i32 a1 b1 a2 b2) :
    interval_distance_i32 a1 b1 a2 b2 = .error .signedOverflow := by
  simp only [intervalDistGuard] at hg
  c06_ranges
  split at hg <;> split at hg <;> (
    gen_unfold_interval_distance
    c06_exec
    c06_finish)

theorem interval_distance_i64_correct (a1 b1 a2 b2 : Int) (h1 : IntTy.i64.InRange a1) (h2 : IntTy.i64.InRange b1)
    (h3 : IntTy.i64.InRange a2) (h4 : IntTy.i64.InRange b2) (hg : intervalDistGuard IntTy.i64 a1 b1 a2 b2) :
    interval_distance_i64 a1 b1 a2 b2 = .ok (intervalDistSpec a1 b1 a2 b2) := by
  simp only [intervalDistGuard] at hg
  c06_ranges
  split at hg <;> split at hg <;> (
    gen_unfold_interval_distance
    simp only [intervalDistSpec, Int.max_def]
    c06_exec
    c06_finish)

/-- outside the guard a subtraction overflows (undefined behaviour in C++) -/
theorem interval_distance_i64_overflow (a1 b1 a2 b2 : Int) (h1 : IntTy.i64.InRange a1) (h2 : IntTy.i64.InRange b1)
    (h3 : IntTy.i64.InRange a2) (h4 : IntTy.i64.InRange b2) (hg : ¬ intervalDistGuard IntTy.i64 a1 b1 a2 b2) :
    interval_distance_i64 a1 b1 a2 b2 = .error .signedOverflow := by
  simp only [intervalDistGuard] at hg
  c06_ranges
  split at hg <;> split at hg <;> (
    gen_unfold_interval_distance
    c06_exec
    c06_finish)

/-- two disjoint intervals in either order: the gap; `[0,5]`/`[2,5]` (equal upper ends): -3 one way, 0 the other -/
example : interval_distance_i32 0 2 5 9 = .ok 3 ∧ interval_distance_i32 5 9 0 2 = .ok 3 ∧
    interval_distance_i32 0 5 2 5 = .ok (-3) ∧ interval_distance_i32 2 5 0 5 = .ok 0 := ⟨by rfl, by rfl, by rfl, by rfl⟩

/-- an unsigned "negative" distance wraps -/
example : interval_distance_u8 0 5 3 9 = .ok 254 := by rfl

end Fcppt.C06
