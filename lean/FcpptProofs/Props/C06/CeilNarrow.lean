import FcpptProofs.C06.Ceil
import FcpptProofs.C06.Range
set_option linter.unusedSimpArgs false
set_option linter.unusedVariables false
/-!
C06 — math::ceil_div_signed for the narrow signed types (every intermediate is computed in `int` and cast back to `T`):
*the* ceiling of the exact quotient for every sign combination whenever it is representable; zero divisor: `none`.
-/
namespace Fcppt.C06
open Fcppt Fcppt.Gen

theorem ceil_div_signed_i8_correct (a b : Int) (ha : IntTy.i8.InRange a) (hb : IntTy.i8.InRange b) (hnz : b ≠ 0)
    (hrep : ∀ q, IsCeilDiv a b q → IntTy.i8.InRange q) :
    ∃ q, ceil_div_signed_i8 a b = .ok (some q) ∧ IsCeilDiv a b q := by
  have hc := ceil_signed a b hnz
  have hin := hrep _ hc
  refine ⟨_, ?_, hc⟩
  have hab : (Int.tdiv a b).natAbs ≤ a.natAbs := Int.natAbs_tdiv_le_natAbs a b
  have hr1 := tmod_abs_lt a b
  have hr2 := tmod_sign a b
  clear hrep hc
  c06_ranges
  generalize hqe : Int.tdiv a b = q at *
  generalize hre : Int.tmod a b = r at *
  have hq : -128 ≤ q ∧ q ≤ 128 := by omega
  have hr : -128 < r ∧ r < 128 := by omega
  clear hab hr1
  -- the code is run with the linear bounds only (the facts about the result come back for the last step)
  revert hin hr2
  gen_unfold_ceil_div_signed
  c06_wraps
  simp only [CInt.div, CInt.mod, hqe, hre]
  simp only [hnz, ↓reduceIte, not_false_eq_true, decide_true, ne_eq, decide_not, Bool.not_false, Bool.not_true, decide_false]
  c06_exec
  intro hin hr2
  c06_norm
  c06_finish

theorem ceil_div_signed_i8_zero (a : Int) : ceil_div_signed_i8 a 0 = .ok none := by
  gen_unfold_ceil_div_signed; c06_zero

theorem ceil_div_signed_i16_correct (a b : Int) (ha : IntTy.i16.InRange a) (hb : IntTy.i16.InRange b) (hnz : b ≠ 0)
    (hrep : ∀ q, IsCeilDiv a b q → IntTy.i16.InRange q) :
    ∃ q, ceil_div_signed_i16 a b = .ok (some q) ∧ IsCeilDiv a b q := by
  have hc := ceil_signed a b hnz
  have hin := hrep _ hc
  refine ⟨_, ?_, hc⟩
  have hab : (Int.tdiv a b).natAbs ≤ a.natAbs := Int.natAbs_tdiv_le_natAbs a b
  have hr1 := tmod_abs_lt a b
  have hr2 := tmod_sign a b
  clear hrep hc
  c06_ranges
  generalize hqe : Int.tdiv a b = q at *
  generalize hre : Int.tmod a b = r at *
  have hq : -32768 ≤ q ∧ q ≤ 32768 := by omega
  have hr : -32768 < r ∧ r < 32768 := by omega
  clear hab hr1
  -- the code is run with the linear bounds only (the facts about the result come back for the last step)
  revert hin hr2
  gen_unfold_ceil_div_signed
  c06_wraps
  simp only [CInt.div, CInt.mod, hqe, hre]
  simp only [hnz, ↓reduceIte, not_false_eq_true, decide_true, ne_eq, decide_not, Bool.not_false, Bool.not_true, decide_false]
  c06_exec
  intro hin hr2
  c06_norm
  c06_finish

theorem ceil_div_signed_i16_zero (a : Int) : ceil_div_signed_i16 a 0 = .ok none := by
  gen_unfold_ceil_div_signed; c06_zero

/-- outside the guard (the ceiling 128 is not an `int8_t`) the narrow instantiation wraps instead of overflowing -/
example : ceil_div_signed_i8 (-128) (-1) = .ok (some (-128)) := by rfl

end Fcppt.C06
