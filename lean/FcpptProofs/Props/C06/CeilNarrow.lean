import FcpptProofs.C06.Ceil
import FcpptProofs.C06.Range
set_option linter.unusedSimpArgs false
set_option linter.unusedVariables false
/-!
C06 — math::ceil_div_signed for the narrow signed types (every intermediate is computed in `int` and cast back to `T`):
*the* ceiling of the exact quotient for every sign combination whenever it is representable; zero divisor: `none`.
-/
namespace Fcppt.C06
open Fcppt Fcppt.Gen

theorem ceil_div_signed_i8_correct (a b : Int) (ha : IntTy.i8.InRange a) (hb : IntTy.i8.InRange b) (hnz : b ≠ 0)
    (hrep : ∀ q, IsCeilDiv a b q → IntTy.i8.InRange q) :
    ∃ q, ceil_div_signed_i8 a b = .ok (some q) ∧ IsCeilDiv a b q := by
  have hc := ceil_signed a b hnz
  have hin := hrep _ hc
  refine ⟨_, ?_, hc⟩
  have hab : (Int.tdiv a b).natAbs ≤ a.natAbs := Int.natAbs_tdiv_le_natAbs a b
  have hr1 := tmod_abs_lt a b
  clear hrep hc
  c06_ranges
  gen_unfold_ceil_div_signed
  c06_wraps
  simp only [CInt.div, CInt.mod]
  generalize Int.tdiv a b = q at *
  generalize Int.tmod a b = r at *
  c06_exec
  c06_finish

theorem ceil_div_signed_i8_zero (a : Int) : ceil_div_signed_i8 a 0 = .ok none := by
  gen_unfold_ceil_div_signed; c06_zero

theorem ceil_div_signed_i16_correct (a b : Int) (ha : IntTy.i16.InRange a) (hb : IntTy.i16.InRange b) (hnz : b ≠ 0)
    (hrep : ∀ q, IsCeilDiv a b q → IntTy.i16.InRange q) :
    ∃ q, ceil_div_signed_i16 a b = .ok (some q) ∧ IsCeilDiv a b q := by
  have hc := ceil_signed a b hnz
  have hin := hrep _ hc
  refine ⟨_, ?_, hc⟩
  have hab : (Int.tdiv a b).natAbs ≤ a.natAbs := Int.natAbs_tdiv_le_natAbs a b
  have hr1 := tmod_abs_lt a b
  clear hrep hc
  c06_ranges
  gen_unfold_ceil_div_signed
  c06_wraps
  simp only [CInt.div, CInt.mod]
  generalize Int.tdiv a b = q at *
  generalize Int.tmod a b = r at *
  c06_exec
  c06_finish

theorem ceil_div_signed_i16_zero (a : Int) : ceil_div_signed_i16 a 0 = .ok none := by
  gen_unfold_ceil_div_signed; c06_zero

/-- outside the guard (the ceiling 128 is not an `int8_t`) the narrow instantiation wraps instead of overflowing -/
example : ceil_div_signed_i8 (-128) (-1) = .ok (some (-128)) := by rfl

end Fcppt.C06
