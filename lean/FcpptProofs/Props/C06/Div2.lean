import FcpptProofs.C06.Range
set_option linter.unusedSimpArgs false
set_option linter.unusedVariables false
/-!
C06 — math::div on the narrow types (the quotient is computed in `int`, where it is always representable) and on
operands of different types (the usual arithmetic conversions first convert both operands to the common type `C`;
the result is the truncated quotient *of the converted operands* whenever that is representable in `C`).
Zero divisor: `none`.  No Fault.
-/
namespace Fcppt.C06
open Fcppt Fcppt.Gen

theorem div_u8_correct (a b : Int) (ha : IntTy.u8.InRange a) (hb : IntTy.u8.InRange b) (hnz : b ≠ 0) :
    div_u8 a b = .ok (some (Int.tdiv a b)) := by
  have hab : (Int.tdiv a b).natAbs ≤ a.natAbs := Int.natAbs_tdiv_le_natAbs a b
  c06_ranges
  gen_unfold_div
  c06_wraps
  simp only [CInt.div]
  generalize Int.tdiv a b = q at *
  c06_exec
  c06_finish

theorem div_u8_zero (a : Int) : div_u8 a 0 = .ok none := by
  gen_unfold_div; c06_zero

theorem div_i8_correct (a b : Int) (ha : IntTy.i8.InRange a) (hb : IntTy.i8.InRange b) (hnz : b ≠ 0) :
    div_i8 a b = .ok (some (Int.tdiv a b)) := by
  have hab : (Int.tdiv a b).natAbs ≤ a.natAbs := Int.natAbs_tdiv_le_natAbs a b
  c06_ranges
  gen_unfold_div
  c06_wraps
  simp only [CInt.div]
  generalize Int.tdiv a b = q at *
  c06_exec
  c06_finish

theorem div_i8_zero (a : Int) : div_i8 a 0 = .ok none := by
  gen_unfold_div; c06_zero

theorem div_u16_correct (a b : Int) (ha : IntTy.u16.InRange a) (hb : IntTy.u16.InRange b) (hnz : b ≠ 0) :
    div_u16 a b = .ok (some (Int.tdiv a b)) := by
  have hab : (Int.tdiv a b).natAbs ≤ a.natAbs := Int.natAbs_tdiv_le_natAbs a b
  c06_ranges
  gen_unfold_div
  c06_wraps
  simp only [CInt.div]
  generalize Int.tdiv a b = q at *
  c06_exec
  c06_finish

theorem div_u16_zero (a : Int) : div_u16 a 0 = .ok none := by
  gen_unfold_div; c06_zero

theorem div_i16_correct (a b : Int) (ha : IntTy.i16.InRange a) (hb : IntTy.i16.InRange b) (hnz : b ≠ 0) :
    div_i16 a b = .ok (some (Int.tdiv a b)) := by
  have hab : (Int.tdiv a b).natAbs ≤ a.natAbs := Int.natAbs_tdiv_le_natAbs a b
  c06_ranges
  gen_unfold_div
  c06_wraps
  simp only [CInt.div]
  generalize Int.tdiv a b = q at *
  c06_exec
  c06_finish

theorem div_i16_zero (a : Int) : div_i16 a 0 = .ok none := by
  gen_unfold_div; c06_zero

/-- `div(i32, u32)` is computed in `u32` -/
theorem div_i32_u32_correct (a b : Int) (ha : IntTy.i32.InRange a) (hb : IntTy.u32.InRange b) (hnz : b ≠ 0)
    (hr : IntTy.u32.InRange (Int.tdiv (IntTy.wrap IntTy.u32 a) b)) :
    div_i32_u32 a b = .ok (some (Int.tdiv (IntTy.wrap IntTy.u32 a) b)) := by
  c06_ranges
  gen_unfold_div
  simp only [CInt.conv]
  generalize IntTy.wrap IntTy.u32 a = a' at *
  simp only [CInt.div, CInt.arith]
  generalize Int.tdiv a' b = q at *
  c06_exec
  c06_finish

/-- operands that are representable in the common type are not changed by the conversion: the plain quotient -/
theorem div_i32_u32_exact (a b : Int) (ha : IntTy.i32.InRange a) (hb : IntTy.u32.InRange b) (hnz : b ≠ 0)
    (ha' : IntTy.u32.InRange a) (hb' : IntTy.u32.InRange b) (hr : IntTy.u32.InRange (Int.tdiv a b)) :
    div_i32_u32 a b = .ok (some (Int.tdiv a b)) := by
  have e := div_i32_u32_correct a b ha hb hnz
  c06_ranges
  rw [wrap_u32_id a (by omega) (by omega)] at e
  exact e hr

theorem div_i32_u32_zero (a : Int) : div_i32_u32 a 0 = .ok none := by
  gen_unfold_div; c06_zero

/-- `div(u32, i32)` is computed in `u32` -/
theorem div_u32_i32_correct (a b : Int) (ha : IntTy.u32.InRange a) (hb : IntTy.i32.InRange b) (hnz : b ≠ 0)
    (hr : IntTy.u32.InRange (Int.tdiv a (IntTy.wrap IntTy.u32 b))) :
    div_u32_i32 a b = .ok (some (Int.tdiv a (IntTy.wrap IntTy.u32 b))) := by
  have hb' : IntTy.wrap IntTy.u32 b ≠ 0 := by c06_norm; omega
  c06_ranges
  gen_unfold_div
  simp only [CInt.conv]
  generalize IntTy.wrap IntTy.u32 b = b' at *
  simp only [CInt.div, CInt.arith]
  generalize Int.tdiv a b' = q at *
  c06_exec
  c06_finish

/-- operands that are representable in the common type are not changed by the conversion: the plain quotient -/
theorem div_u32_i32_exact (a b : Int) (ha : IntTy.u32.InRange a) (hb : IntTy.i32.InRange b) (hnz : b ≠ 0)
    (ha' : IntTy.u32.InRange a) (hb' : IntTy.u32.InRange b) (hr : IntTy.u32.InRange (Int.tdiv a b)) :
    div_u32_i32 a b = .ok (some (Int.tdiv a b)) := by
  have e := div_u32_i32_correct a b ha hb hnz
  c06_ranges
  rw [wrap_u32_id b (by omega) (by omega)] at e
  exact e hr

theorem div_u32_i32_zero (a : Int) : div_u32_i32 a 0 = .ok none := by
  gen_unfold_div; c06_zero

/-- `div(i8, u8)` is computed in `i32` -/
theorem div_i8_u8_correct (a b : Int) (ha : IntTy.i8.InRange a) (hb : IntTy.u8.InRange b) (hnz : b ≠ 0)
    (hr : IntTy.i32.InRange (Int.tdiv (IntTy.wrap IntTy.i32 a) (IntTy.wrap IntTy.i32 b))) :
    div_i8_u8 a b = .ok (some (Int.tdiv (IntTy.wrap IntTy.i32 a) (IntTy.wrap IntTy.i32 b))) := by
  have hb' : IntTy.wrap IntTy.i32 b ≠ 0 := by c06_norm; omega
  c06_ranges
  gen_unfold_div
  simp only [CInt.conv]
  generalize IntTy.wrap IntTy.i32 a = a' at *
  generalize IntTy.wrap IntTy.i32 b = b' at *
  simp only [CInt.div, CInt.arith]
  generalize Int.tdiv a' b' = q at *
  c06_exec
  c06_finish

/-- operands that are representable in the common type are not changed by the conversion: the plain quotient -/
theorem div_i8_u8_exact (a b : Int) (ha : IntTy.i8.InRange a) (hb : IntTy.u8.InRange b) (hnz : b ≠ 0)
    (ha' : IntTy.i32.InRange a) (hb' : IntTy.i32.InRange b) (hr : IntTy.i32.InRange (Int.tdiv a b)) :
    div_i8_u8 a b = .ok (some (Int.tdiv a b)) := by
  have e := div_i8_u8_correct a b ha hb hnz
  c06_ranges
  rw [wrap_i32_id a (by omega) (by omega)] at e
  rw [wrap_i32_id b (by omega) (by omega)] at e
  exact e hr

theorem div_i8_u8_zero (a : Int) : div_i8_u8 a 0 = .ok none := by
  gen_unfold_div; c06_zero

/-- `div(u8, i64)` is computed in `i64` -/
theorem div_u8_i64_correct (a b : Int) (ha : IntTy.u8.InRange a) (hb : IntTy.i64.InRange b) (hnz : b ≠ 0)
    (hr : IntTy.i64.InRange (Int.tdiv (IntTy.wrap IntTy.i64 a) b)) :
    div_u8_i64 a b = .ok (some (Int.tdiv (IntTy.wrap IntTy.i64 a) b)) := by
  c06_ranges
  gen_unfold_div
  simp only [CInt.conv]
  generalize IntTy.wrap IntTy.i64 a = a' at *
  simp only [CInt.div, CInt.arith]
  generalize Int.tdiv a' b = q at *
  c06_exec
  c06_finish

/-- operands that are representable in the common type are not changed by the conversion: the plain quotient -/
theorem div_u8_i64_exact (a b : Int) (ha : IntTy.u8.InRange a) (hb : IntTy.i64.InRange b) (hnz : b ≠ 0)
    (ha' : IntTy.i64.InRange a) (hb' : IntTy.i64.InRange b) (hr : IntTy.i64.InRange (Int.tdiv a b)) :
    div_u8_i64 a b = .ok (some (Int.tdiv a b)) := by
  have e := div_u8_i64_correct a b ha hb hnz
  c06_ranges
  rw [wrap_i64_id a (by omega) (by omega)] at e
  exact e hr

theorem div_u8_i64_zero (a : Int) : div_u8_i64 a 0 = .ok none := by
  gen_unfold_div; c06_zero

/-- `div(i64, u64)` is computed in `u64` -/
theorem div_i64_u64_correct (a b : Int) (ha : IntTy.i64.InRange a) (hb : IntTy.u64.InRange b) (hnz : b ≠ 0)
    (hr : IntTy.u64.InRange (Int.tdiv (IntTy.wrap IntTy.u64 a) b)) :
    div_i64_u64 a b = .ok (some (Int.tdiv (IntTy.wrap IntTy.u64 a) b)) := by
  c06_ranges
  gen_unfold_div
  simp only [CInt.conv]
  generalize IntTy.wrap IntTy.u64 a = a' at *
  simp only [CInt.div, CInt.arith]
  generalize Int.tdiv a' b = q at *
  c06_exec
  c06_finish

/-- operands that are representable in the common type are not changed by the conversion: the plain quotient -/
theorem div_i64_u64_exact (a b : Int) (ha : IntTy.i64.InRange a) (hb : IntTy.u64.InRange b) (hnz : b ≠ 0)
    (ha' : IntTy.u64.InRange a) (hb' : IntTy.u64.InRange b) (hr : IntTy.u64.InRange (Int.tdiv a b)) :
    div_i64_u64 a b = .ok (some (Int.tdiv a b)) := by
  have e := div_i64_u64_correct a b ha hb hnz
  c06_ranges
  rw [wrap_u64_id a (by omega) (by omega)] at e
  exact e hr

theorem div_i64_u64_zero (a : Int) : div_i64_u64 a 0 = .ok none := by
  gen_unfold_div; c06_zero

/-- `div(u16, i32)` is computed in `i32` -/
theorem div_u16_i32_correct (a b : Int) (ha : IntTy.u16.InRange a) (hb : IntTy.i32.InRange b) (hnz : b ≠ 0)
    (hr : IntTy.i32.InRange (Int.tdiv (IntTy.wrap IntTy.i32 a) b)) :
    div_u16_i32 a b = .ok (some (Int.tdiv (IntTy.wrap IntTy.i32 a) b)) := by
  c06_ranges
  gen_unfold_div
  simp only [CInt.conv]
  generalize IntTy.wrap IntTy.i32 a = a' at *
  simp only [CInt.div, CInt.arith]
  generalize Int.tdiv a' b = q at *
  c06_exec
  c06_finish

/-- operands that are representable in the common type are not changed by the conversion: the plain quotient -/
theorem div_u16_i32_exact (a b : Int) (ha : IntTy.u16.InRange a) (hb : IntTy.i32.InRange b) (hnz : b ≠ 0)
    (ha' : IntTy.i32.InRange a) (hb' : IntTy.i32.InRange b) (hr : IntTy.i32.InRange (Int.tdiv a b)) :
    div_u16_i32 a b = .ok (some (Int.tdiv a b)) := by
  have e := div_u16_i32_correct a b ha hb hnz
  c06_ranges
  rw [wrap_i32_id a (by omega) (by omega)] at e
  exact e hr

theorem div_u16_i32_zero (a : Int) : div_u16_i32 a 0 = .ok none := by
  gen_unfold_div; c06_zero

/-- `div(i16, u64)` is computed in `u64` -/
theorem div_i16_u64_correct (a b : Int) (ha : IntTy.i16.InRange a) (hb : IntTy.u64.InRange b) (hnz : b ≠ 0)
    (hr : IntTy.u64.InRange (Int.tdiv (IntTy.wrap IntTy.u64 a) b)) :
    div_i16_u64 a b = .ok (some (Int.tdiv (IntTy.wrap IntTy.u64 a) b)) := by
  c06_ranges
  gen_unfold_div
  simp only [CInt.conv]
  generalize IntTy.wrap IntTy.u64 a = a' at *
  simp only [CInt.div, CInt.arith]
  generalize Int.tdiv a' b = q at *
  c06_exec
  c06_finish

/-- operands that are representable in the common type are not changed by the conversion: the plain quotient -/
theorem div_i16_u64_exact (a b : Int) (ha : IntTy.i16.InRange a) (hb : IntTy.u64.InRange b) (hnz : b ≠ 0)
    (ha' : IntTy.u64.InRange a) (hb' : IntTy.u64.InRange b) (hr : IntTy.u64.InRange (Int.tdiv a b)) :
    div_i16_u64 a b = .ok (some (Int.tdiv a b)) := by
  have e := div_i16_u64_correct a b ha hb hnz
  c06_ranges
  rw [wrap_u64_id a (by omega) (by omega)] at e
  exact e hr

theorem div_i16_u64_zero (a : Int) : div_i16_u64 a 0 = .ok none := by
  gen_unfold_div; c06_zero

/-- `div(u64, i8)` is computed in `u64` -/
theorem div_u64_i8_correct (a b : Int) (ha : IntTy.u64.InRange a) (hb : IntTy.i8.InRange b) (hnz : b ≠ 0)
    (hr : IntTy.u64.InRange (Int.tdiv a (IntTy.wrap IntTy.u64 b))) :
    div_u64_i8 a b = .ok (some (Int.tdiv a (IntTy.wrap IntTy.u64 b))) := by
  have hb' : IntTy.wrap IntTy.u64 b ≠ 0 := by c06_norm; omega
  c06_ranges
  gen_unfold_div
  simp only [CInt.conv]
  generalize IntTy.wrap IntTy.u64 b = b' at *
  simp only [CInt.div, CInt.arith]
  generalize Int.tdiv a b' = q at *
  c06_exec
  c06_finish

/-- operands that are representable in the common type are not changed by the conversion: the plain quotient -/
theorem div_u64_i8_exact (a b : Int) (ha : IntTy.u64.InRange a) (hb : IntTy.i8.InRange b) (hnz : b ≠ 0)
    (ha' : IntTy.u64.InRange a) (hb' : IntTy.u64.InRange b) (hr : IntTy.u64.InRange (Int.tdiv a b)) :
    div_u64_i8 a b = .ok (some (Int.tdiv a b)) := by
  have e := div_u64_i8_correct a b ha hb hnz
  c06_ranges
  rw [wrap_u64_id b (by omega) (by omega)] at e
  exact e hr

theorem div_u64_i8_zero (a : Int) : div_u64_i8 a 0 = .ok none := by
  gen_unfold_div; c06_zero

/-- `div(i32, i64)` is computed in `i64` -/
theorem div_i32_i64_correct (a b : Int) (ha : IntTy.i32.InRange a) (hb : IntTy.i64.InRange b) (hnz : b ≠ 0)
    (hr : IntTy.i64.InRange (Int.tdiv (IntTy.wrap IntTy.i64 a) b)) :
    div_i32_i64 a b = .ok (some (Int.tdiv (IntTy.wrap IntTy.i64 a) b)) := by
  c06_ranges
  gen_unfold_div
  simp only [CInt.conv]
  generalize IntTy.wrap IntTy.i64 a = a' at *
  simp only [CInt.div, CInt.arith]
  generalize Int.tdiv a' b = q at *
  c06_exec
  c06_finish

/-- operands that are representable in the common type are not changed by the conversion: the plain quotient -/
theorem div_i32_i64_exact (a b : Int) (ha : IntTy.i32.InRange a) (hb : IntTy.i64.InRange b) (hnz : b ≠ 0)
    (ha' : IntTy.i64.InRange a) (hb' : IntTy.i64.InRange b) (hr : IntTy.i64.InRange (Int.tdiv a b)) :
    div_i32_i64 a b = .ok (some (Int.tdiv a b)) := by
  have e := div_i32_i64_correct a b ha hb hnz
  c06_ranges
  rw [wrap_i64_id a (by omega) (by omega)] at e
  exact e hr

theorem div_i32_i64_zero (a : Int) : div_i32_i64 a 0 = .ok none := by
  gen_unfold_div; c06_zero

/-- `div(u32, u64)` is computed in `u64` -/
theorem div_u32_u64_correct (a b : Int) (ha : IntTy.u32.InRange a) (hb : IntTy.u64.InRange b) (hnz : b ≠ 0)
    (hr : IntTy.u64.InRange (Int.tdiv (IntTy.wrap IntTy.u64 a) b)) :
    div_u32_u64 a b = .ok (some (Int.tdiv (IntTy.wrap IntTy.u64 a) b)) := by
  c06_ranges
  gen_unfold_div
  simp only [CInt.conv]
  generalize IntTy.wrap IntTy.u64 a = a' at *
  simp only [CInt.div, CInt.arith]
  generalize Int.tdiv a' b = q at *
  c06_exec
  c06_finish

/-- operands that are representable in the common type are not changed by the conversion: the plain quotient -/
theorem div_u32_u64_exact (a b : Int) (ha : IntTy.u32.InRange a) (hb : IntTy.u64.InRange b) (hnz : b ≠ 0)
    (ha' : IntTy.u64.InRange a) (hb' : IntTy.u64.InRange b) (hr : IntTy.u64.InRange (Int.tdiv a b)) :
    div_u32_u64 a b = .ok (some (Int.tdiv a b)) := by
  have e := div_u32_u64_correct a b ha hb hnz
  c06_ranges
  rw [wrap_u64_id a (by omega) (by omega)] at e
  exact e hr

theorem div_u32_u64_zero (a : Int) : div_u32_u64 a 0 = .ok none := by
  gen_unfold_div; c06_zero

/-- the conversion is visible: `div(int32_t{-6}, uint32_t{3})` divides 4294967290 by 3 -/
example : div_i32_u32 (-6) 3 = .ok (some 1431655763) := by rfl

end Fcppt.C06
