import FcpptProofs.C06.TruncTac
set_option linter.unusedSimpArgs false
/-! C06 — `cast::truncation_check<i32>` from every source type: the value iff representable. -/
namespace Fcppt.C06
open Fcppt Fcppt.Gen

theorem truncation_check_i32_u8_correct (x : Int) (h : IntTy.u8.InRange x) :
    truncation_check_i32_u8 x = .ok (truncSpec IntTy.i32 x) := by
  c06_trunc

theorem truncation_check_i32_u16_correct (x : Int) (h : IntTy.u16.InRange x) :
    truncation_check_i32_u16 x = .ok (truncSpec IntTy.i32 x) := by
  c06_trunc

theorem truncation_check_i32_u32_correct (x : Int) (h : IntTy.u32.InRange x) :
    truncation_check_i32_u32 x = .ok (truncSpec IntTy.i32 x) := by
  c06_trunc

theorem truncation_check_i32_u64_correct (x : Int) (h : IntTy.u64.InRange x) :
    truncation_check_i32_u64 x = .ok (truncSpec IntTy.i32 x) := by
  c06_trunc

theorem truncation_check_i32_i8_correct (x : Int) (h : IntTy.i8.InRange x) :
    truncation_check_i32_i8 x = .ok (truncSpec IntTy.i32 x) := by
  c06_trunc

theorem truncation_check_i32_i16_correct (x : Int) (h : IntTy.i16.InRange x) :
    truncation_check_i32_i16 x = .ok (truncSpec IntTy.i32 x) := by
  c06_trunc

theorem truncation_check_i32_i32_correct (x : Int) (h : IntTy.i32.InRange x) :
    truncation_check_i32_i32 x = .ok (truncSpec IntTy.i32 x) := by
  c06_trunc

theorem truncation_check_i32_i64_correct (x : Int) (h : IntTy.i64.InRange x) :
    truncation_check_i32_i64 x = .ok (truncSpec IntTy.i32 x) := by
  c06_trunc

end Fcppt.C06
