import FcpptProofs.Props.C06.Pow
import FcpptProofs.C06.Range
set_option linter.unusedSimpArgs false
set_option linter.unusedVariables false
/-!
C06 — math::next_power_of_2: for every value of every unsigned type for which the result is
representable (`x ≤ 2^(bits-1)`) the function returns the least power of two that is `≥ x`
(`IsNextPow2`); the loop terminates and nothing overflows.
-/
namespace Fcppt.C06
open Fcppt Fcppt.Gen

private theorem npo2_u8_loop_step (f : Nat) (c r : Int) (h0 : 0 ≤ c) (hh : c ≤ 255) (hr : 0 ≤ r) (hr1 : r ≤ 255)
    (hr2 : c / 2 ≠ 0 → r * 2 ≤ 255) :
    next_power_of_2_u8.loop1 (f + 1) c r 2 =
      if c / 2 ≠ 0 then next_power_of_2_u8.loop1 f (c / 2) (r * 2) 2 else .ok (c / 2, r) := by
  rw [next_power_of_2_u8.loop1]
  have e1 : Int.tdiv c 2 = c / 2 := Int.tdiv_eq_ediv_of_nonneg h0
  c06_exec
  rw [e1]
  repeat' split
  all_goals (first | rfl | omega)

theorem next_power_of_2_u8_correct (x : Int) (h : IntTy.u8.InRange x) (hrep : x ≤ 128) :
    ∃ p, next_power_of_2_u8 x = .ok p ∧ IsNextPow2 x p := by
  have hx : 0 ≤ x ∧ x ≤ 255 := by c06_norm; omega
  by_cases hx0 : x = 0
  · subst hx0
    refine ⟨1, by simp only [next_power_of_2_u8]; c06_exec, ⟨0, by simp⟩, by omega, ?_⟩
    intro k _
    have : (0:Int) < 2 ^ k := Int.pow_pos (by omega)
    omega
  · obtain ⟨b, hb, hiff⟩ := is_power_of_2_u8_correct x h
    cases b with
    | true =>
      have hp : IsPow2 x := hiff.mp rfl
      refine ⟨x, ?_, hp, by omega, fun k hk => hk⟩
      simp only [next_power_of_2_u8, hb]
      c06_exec
      simp [hx0]
    | false =>
      have hnp : ¬ IsPow2 x := fun hp => by simpa using hiff.mpr hp
      obtain ⟨k, hk, hk0, hl, hu⟩ := npo2_loop_spec (fun f c r => next_power_of_2_u8.loop1 f c r 2) 255
        npo2_u8_loop_step 8 199 x 1 (by omega) (by omega) (by omega) (by omega) (by omega) (by omega)
      have hne : x ≠ 2 ^ (k - 1) := fun he => hnp ⟨k - 1, he⟩
      have hpk : (2 : Int) ^ k = 2 ^ (k - 1) * 2 := by
        have : k = (k - 1) + 1 := by omega
        conv => lhs; rw [this, Int.pow_succ]
      refine ⟨2 ^ k, ?_, ⟨k, rfl⟩, by omega, ?_⟩
      · simp only [next_power_of_2_u8, hb]
        generalize hP : (2 : Int) ^ (k - 1) = P at *
        have hk' : next_power_of_2_u8.loop1 200 x 1 2 = Except.ok (0, P) := by
          have := hk; simp only [Int.one_mul] at this; exact this
        c06_exec
        rw [hk']
        c06_exec
        rw [hpk]
        repeat' split
        all_goals (first | rfl | omega)
      · intro j hj
        by_cases hjk : k ≤ j
        · have : (2:Nat) ^ k ≤ 2 ^ j := Nat.pow_le_pow_right (by omega) hjk
          exact_mod_cast this
        · exfalso
          have : (2:Nat) ^ j ≤ 2 ^ (k - 1) := Nat.pow_le_pow_right (by omega) (by omega)
          have h2 : (2:Int) ^ j ≤ 2 ^ (k - 1) := by exact_mod_cast this
          exact hnp ⟨j, by omega⟩

private theorem npo2_u16_loop_step (f : Nat) (c r : Int) (h0 : 0 ≤ c) (hh : c ≤ 65535) (hr : 0 ≤ r) (hr1 : r ≤ 65535)
    (hr2 : c / 2 ≠ 0 → r * 2 ≤ 65535) :
    next_power_of_2_u16.loop1 (f + 1) c r 2 =
      if c / 2 ≠ 0 then next_power_of_2_u16.loop1 f (c / 2) (r * 2) 2 else .ok (c / 2, r) := by
  rw [next_power_of_2_u16.loop1]
  have e1 : Int.tdiv c 2 = c / 2 := Int.tdiv_eq_ediv_of_nonneg h0
  c06_exec
  rw [e1]
  repeat' split
  all_goals (first | rfl | omega)

theorem next_power_of_2_u16_correct (x : Int) (h : IntTy.u16.InRange x) (hrep : x ≤ 32768) :
    ∃ p, next_power_of_2_u16 x = .ok p ∧ IsNextPow2 x p := by
  have hx : 0 ≤ x ∧ x ≤ 65535 := by c06_norm; omega
  by_cases hx0 : x = 0
  · subst hx0
    refine ⟨1, by simp only [next_power_of_2_u16]; c06_exec, ⟨0, by simp⟩, by omega, ?_⟩
    intro k _
    have : (0:Int) < 2 ^ k := Int.pow_pos (by omega)
    omega
  · obtain ⟨b, hb, hiff⟩ := is_power_of_2_u16_correct x h
    cases b with
    | true =>
      have hp : IsPow2 x := hiff.mp rfl
      refine ⟨x, ?_, hp, by omega, fun k hk => hk⟩
      simp only [next_power_of_2_u16, hb]
      c06_exec
      simp [hx0]
    | false =>
      have hnp : ¬ IsPow2 x := fun hp => by simpa using hiff.mpr hp
      obtain ⟨k, hk, hk0, hl, hu⟩ := npo2_loop_spec (fun f c r => next_power_of_2_u16.loop1 f c r 2) 65535
        npo2_u16_loop_step 16 199 x 1 (by omega) (by omega) (by omega) (by omega) (by omega) (by omega)
      have hne : x ≠ 2 ^ (k - 1) := fun he => hnp ⟨k - 1, he⟩
      have hpk : (2 : Int) ^ k = 2 ^ (k - 1) * 2 := by
        have : k = (k - 1) + 1 := by omega
        conv => lhs; rw [this, Int.pow_succ]
      refine ⟨2 ^ k, ?_, ⟨k, rfl⟩, by omega, ?_⟩
      · simp only [next_power_of_2_u16, hb]
        generalize hP : (2 : Int) ^ (k - 1) = P at *
        have hk' : next_power_of_2_u16.loop1 200 x 1 2 = Except.ok (0, P) := by
          have := hk; simp only [Int.one_mul] at this; exact this
        c06_exec
        rw [hk']
        c06_exec
        rw [hpk]
        repeat' split
        all_goals (first | rfl | omega)
      · intro j hj
        by_cases hjk : k ≤ j
        · have : (2:Nat) ^ k ≤ 2 ^ j := Nat.pow_le_pow_right (by omega) hjk
          exact_mod_cast this
        · exfalso
          have : (2:Nat) ^ j ≤ 2 ^ (k - 1) := Nat.pow_le_pow_right (by omega) (by omega)
          have h2 : (2:Int) ^ j ≤ 2 ^ (k - 1) := by exact_mod_cast this
          exact hnp ⟨j, by omega⟩

private theorem npo2_u32_loop_step (f : Nat) (c r : Int) (h0 : 0 ≤ c) (hh : c ≤ 4294967295) (hr : 0 ≤ r) (hr1 : r ≤ 4294967295)
    (hr2 : c / 2 ≠ 0 → r * 2 ≤ 4294967295) :
    next_power_of_2_u32.loop1 (f + 1) c r 2 =
      if c / 2 ≠ 0 then next_power_of_2_u32.loop1 f (c / 2) (r * 2) 2 else .ok (c / 2, r) := by
  rw [next_power_of_2_u32.loop1]
  have e1 : Int.tdiv c 2 = c / 2 := Int.tdiv_eq_ediv_of_nonneg h0
  c06_exec
  rw [e1]
  repeat' split
  all_goals (first | rfl | omega)

theorem next_power_of_2_u32_correct (x : Int) (h : IntTy.u32.InRange x) (hrep : x ≤ 2147483648) :
    ∃ p, next_power_of_2_u32 x = .ok p ∧ IsNextPow2 x p := by
  have hx : 0 ≤ x ∧ x ≤ 4294967295 := by c06_norm; omega
  by_cases hx0 : x = 0
  · subst hx0
    refine ⟨1, by simp only [next_power_of_2_u32]; c06_exec, ⟨0, by simp⟩, by omega, ?_⟩
    intro k _
    have : (0:Int) < 2 ^ k := Int.pow_pos (by omega)
    omega
  · obtain ⟨b, hb, hiff⟩ := is_power_of_2_u32_correct x h
    cases b with
    | true =>
      have hp : IsPow2 x := hiff.mp rfl
      refine ⟨x, ?_, hp, by omega, fun k hk => hk⟩
      simp only [next_power_of_2_u32, hb]
      c06_exec
      simp [hx0]
    | false =>
      have hnp : ¬ IsPow2 x := fun hp => by simpa using hiff.mpr hp
      obtain ⟨k, hk, hk0, hl, hu⟩ := npo2_loop_spec (fun f c r => next_power_of_2_u32.loop1 f c r 2) 4294967295
        npo2_u32_loop_step 32 199 x 1 (by omega) (by omega) (by omega) (by omega) (by omega) (by omega)
      have hne : x ≠ 2 ^ (k - 1) := fun he => hnp ⟨k - 1, he⟩
      have hpk : (2 : Int) ^ k = 2 ^ (k - 1) * 2 := by
        have : k = (k - 1) + 1 := by omega
        conv => lhs; rw [this, Int.pow_succ]
      refine ⟨2 ^ k, ?_, ⟨k, rfl⟩, by omega, ?_⟩
      · simp only [next_power_of_2_u32, hb]
        generalize hP : (2 : Int) ^ (k - 1) = P at *
        have hk' : next_power_of_2_u32.loop1 200 x 1 2 = Except.ok (0, P) := by
          have := hk; simp only [Int.one_mul] at this; exact this
        c06_exec
        rw [hk']
        c06_exec
        rw [hpk]
        repeat' split
        all_goals (first | rfl | omega)
      · intro j hj
        by_cases hjk : k ≤ j
        · have : (2:Nat) ^ k ≤ 2 ^ j := Nat.pow_le_pow_right (by omega) hjk
          exact_mod_cast this
        · exfalso
          have : (2:Nat) ^ j ≤ 2 ^ (k - 1) := Nat.pow_le_pow_right (by omega) (by omega)
          have h2 : (2:Int) ^ j ≤ 2 ^ (k - 1) := by exact_mod_cast this
          exact hnp ⟨j, by omega⟩

private theorem npo2_u64_loop_step (f : Nat) (c r : Int) (h0 : 0 ≤ c) (hh : c ≤ 18446744073709551615) (hr : 0 ≤ r) (hr1 : r ≤ 18446744073709551615)
    (hr2 : c / 2 ≠ 0 → r * 2 ≤ 18446744073709551615) :
    next_power_of_2_u64.loop1 (f + 1) c r 2 =
      if c / 2 ≠ 0 then next_power_of_2_u64.loop1 f (c / 2) (r * 2) 2 else .ok (c / 2, r) := by
  rw [next_power_of_2_u64.loop1]
  have e1 : Int.tdiv c 2 = c / 2 := Int.tdiv_eq_ediv_of_nonneg h0
  c06_exec
  rw [e1]
  repeat' split
  all_goals (first | rfl | omega)

theorem next_power_of_2_u64_correct (x : Int) (h : IntTy.u64.InRange x) (hrep : x ≤ 9223372036854775808) :
    ∃ p, next_power_of_2_u64 x = .ok p ∧ IsNextPow2 x p := by
  have hx : 0 ≤ x ∧ x ≤ 18446744073709551615 := by c06_norm; omega
  by_cases hx0 : x = 0
  · subst hx0
    refine ⟨1, by simp only [next_power_of_2_u64]; c06_exec, ⟨0, by simp⟩, by omega, ?_⟩
    intro k _
    have : (0:Int) < 2 ^ k := Int.pow_pos (by omega)
    omega
  · obtain ⟨b, hb, hiff⟩ := is_power_of_2_u64_correct x h
    cases b with
    | true =>
      have hp : IsPow2 x := hiff.mp rfl
      refine ⟨x, ?_, hp, by omega, fun k hk => hk⟩
      simp only [next_power_of_2_u64, hb]
      c06_exec
      simp [hx0]
    | false =>
      have hnp : ¬ IsPow2 x := fun hp => by simpa using hiff.mpr hp
      obtain ⟨k, hk, hk0, hl, hu⟩ := npo2_loop_spec (fun f c r => next_power_of_2_u64.loop1 f c r 2) 18446744073709551615
        npo2_u64_loop_step 64 199 x 1 (by omega) (by omega) (by omega) (by omega) (by omega) (by omega)
      have hne : x ≠ 2 ^ (k - 1) := fun he => hnp ⟨k - 1, he⟩
      have hpk : (2 : Int) ^ k = 2 ^ (k - 1) * 2 := by
        have : k = (k - 1) + 1 := by omega
        conv => lhs; rw [this, Int.pow_succ]
      refine ⟨2 ^ k, ?_, ⟨k, rfl⟩, by omega, ?_⟩
      · simp only [next_power_of_2_u64, hb]
        generalize hP : (2 : Int) ^ (k - 1) = P at *
        have hk' : next_power_of_2_u64.loop1 200 x 1 2 = Except.ok (0, P) := by
          have := hk; simp only [Int.one_mul] at this; exact this
        c06_exec
        rw [hk']
        c06_exec
        rw [hpk]
        repeat' split
        all_goals (first | rfl | omega)
      · intro j hj
        by_cases hjk : k ≤ j
        · have : (2:Nat) ^ k ≤ 2 ^ j := Nat.pow_le_pow_right (by omega) hjk
          exact_mod_cast this
        · exfalso
          have : (2:Nat) ^ j ≤ 2 ^ (k - 1) := Nat.pow_le_pow_right (by omega) (by omega)
          have h2 : (2:Int) ^ j ≤ 2 ^ (k - 1) := by exact_mod_cast this
          exact hnp ⟨j, by omega⟩


end Fcppt.C06
