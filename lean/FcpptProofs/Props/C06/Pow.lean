import FcpptProofs.C06.Pow2
set_option linter.unusedSimpArgs false
set_option linter.unusedVariables false
/-!
C06 — math::is_power_of_2, math::power_of_2, bit::shifted_mask, bit::test for the four unsigned types.
-/
namespace Fcppt.C06
open Fcppt Fcppt.Gen

private theorem and_two_pow' (v k : Nat) : v &&& 2 ^ k = if v.testBit k then 2 ^ k else 0 := by
  apply Nat.eq_of_testBit_eq
  intro i
  rw [Nat.testBit_and, Nat.testBit_two_pow]
  by_cases h : k = i
  · subst h
    cases hb : v.testBit k <;> simp [hb, Nat.testBit_two_pow]
  · cases hb : v.testBit k <;> simp [hb, h, Nat.testBit_two_pow]


private theorem band_i32_nat (a b : Nat) (ha : (a : Int) ≤ 2147483647) (hb : (b : Int) ≤ 2147483647) :
    CInt.band IntTy.i32 a b = ((a &&& b : Nat) : Int) := by
  have hl : a &&& b ≤ a := Nat.and_le_left
  simp only [CInt.band, CInt.bitop, IntTy.toU]
  c06_norm
  have e1 : (a : Int) % 4294967296 = a := by omega
  have e2 : (b : Int) % 4294967296 = b := by omega
  rw [e1, e2, Int.toNat_natCast, Int.toNat_natCast]
  have : Int.ofNat (Nat.land a b) = ((a &&& b : Nat) : Int) := rfl
  rw [this]
  first | omega | (split <;> omega)

private theorem band_u32_nat (a b : Nat) (ha : (a : Int) ≤ 4294967295) (hb : (b : Int) ≤ 4294967295) :
    CInt.band IntTy.u32 a b = ((a &&& b : Nat) : Int) := by
  have hl : a &&& b ≤ a := Nat.and_le_left
  simp only [CInt.band, CInt.bitop, IntTy.toU]
  c06_norm
  have e1 : (a : Int) % 4294967296 = a := by omega
  have e2 : (b : Int) % 4294967296 = b := by omega
  rw [e1, e2, Int.toNat_natCast, Int.toNat_natCast]
  have : Int.ofNat (Nat.land a b) = ((a &&& b : Nat) : Int) := rfl
  rw [this]
  first | omega | (split <;> omega)

private theorem band_u64_nat (a b : Nat) (ha : (a : Int) ≤ 18446744073709551615) (hb : (b : Int) ≤ 18446744073709551615) :
    CInt.band IntTy.u64 a b = ((a &&& b : Nat) : Int) := by
  have hl : a &&& b ≤ a := Nat.and_le_left
  simp only [CInt.band, CInt.bitop, IntTy.toU]
  c06_norm
  have e1 : (a : Int) % 18446744073709551616 = a := by omega
  have e2 : (b : Int) % 18446744073709551616 = b := by omega
  rw [e1, e2, Int.toNat_natCast, Int.toNat_natCast]
  have : Int.ofNat (Nat.land a b) = ((a &&& b : Nat) : Int) := rfl
  rw [this]
  first | omega | (split <;> omega)

/-- `is_power_of_2<u8>(x)` is true exactly for the powers of two -/
theorem is_power_of_2_u8_correct (x : Int) (h : IntTy.u8.InRange x) :
    ∃ b, is_power_of_2_u8 x = .ok b ∧ (b = true ↔ IsPow2 x) := by
  have hx : 0 ≤ x ∧ x ≤ 255 := by c06_norm; omega
  obtain ⟨n, rfl⟩ := Int.eq_ofNat_of_zero_le hx.1
  simp only [is_power_of_2_u8]
  by_cases h0 : n = 0
  · subst h0
    refine ⟨false, by c06_norm; rfl, ?_⟩
    simp [IsPow2]
    intro k hk
    have : (0:Int) < 2 ^ k := Int.pow_pos (by omega)
    omega
  · have hn : 0 < n := by omega
    have e1 : CInt.conv IntTy.i32 (n : Int) = n := by c06_norm; c06_finish
    have e2 : CInt.sub IntTy.i32 (n : Int) 1 = .ok (((n - 1 : Nat) : Int)) := by c06_norm; c06_finish
    refine ⟨decide (n &&& (n - 1) = 0), ?_, ?_⟩
    · simp only [e1, e2, ok_bind, pure_eq_ok, ite_bind]
      rw [band_i32_nat n (n - 1) (by omega) (by omega)]
      have : ((n : Int) ≠ 0) := by omega
      simp [this]
      omega
    · rw [decide_eq_true_iff, and_pred_eq_zero_iff n hn]
      constructor
      · rintro ⟨k, hk⟩; exact ⟨k, by rw [hk]; simp⟩
      · rintro ⟨k, hk⟩; exact ⟨k, by exact_mod_cast hk⟩

/-- `power_of_2<u8>(e) = 2^e` for every exponent below the width (the representable cases); no Fault -/
theorem power_of_2_u8_correct (e : Nat) (he : e < 8) : power_of_2_u8 e = .ok ((2 : Int) ^ e) := by
  have : ∀ e : Fin 8, power_of_2_u8 (e.val : Int) = .ok ((2 : Int) ^ e.val) := by decide +kernel
  exact this ⟨e, he⟩

theorem shifted_mask_u8_correct (e : Nat) (he : e < 8) : shifted_mask_u8 e = .ok ((2 : Int) ^ e) := by
  simp only [shifted_mask_u8, power_of_2_u8_correct e he, ok_bind, pure_eq_ok]

/-- `bit::test(v, m)` holds iff value and mask have a common bit -/
theorem bit_test_u8_correct (v m : Nat) (hv : (v : Int) ≤ 255) (hm : (m : Int) ≤ 255) :
    bit_test_u8 v m = .ok (decide (v &&& m ≠ 0)) := by
  simp only [bit_test_u8]
  have e1 : CInt.conv IntTy.i32 (v : Int) = v := by c06_norm; c06_finish
  have e2 : CInt.conv IntTy.i32 (m : Int) = m := by c06_norm; c06_finish
  have e0 : CInt.conv IntTy.i32 (CInt.conv IntTy.u8 0) = 0 := by c06_norm <;> rfl
  have e0' : CInt.conv IntTy.u8 0 = 0 := by c06_norm <;> rfl
  have e0'' : CInt.conv IntTy.i32 0 = 0 := by c06_norm <;> rfl
  simp only [e1, e2, e0, e0', e0'']
  rw [band_i32_nat v m (by omega) (by omega)]
  simp only [pure_eq_ok]
  congr 1
  simp only [ne_eq, decide_not, Bool.not_eq_eq_eq_not, Bool.not_not, decide_eq_decide]
  constructor
  · intro h; exact_mod_cast h
  · intro h; exact_mod_cast h

/-- the selected bit: test against `shifted_mask(k)` is `testBit k` -/
theorem bit_test_u8_shifted_mask (v k : Nat) (hv : (v : Int) ≤ 255) (hk : k < 8) :
    bit_test_u8 v ((2 ^ k : Nat)) = .ok (v.testBit k) := by
  have hp : ((2 ^ k : Nat) : Int) ≤ 255 := by
    have : 2 ^ k < 2 ^ 8 := Nat.pow_lt_pow_right (by omega) hk
    have e : (2:Nat) ^ 8 = 256 := by decide
    omega
  rw [bit_test_u8_correct v (2 ^ k) hv hp, and_two_pow']
  congr 1
  cases hb : v.testBit k <;> simp [hb]

/-- `is_power_of_2<u16>(x)` is true exactly for the powers of two -/
theorem is_power_of_2_u16_correct (x : Int) (h : IntTy.u16.InRange x) :
    ∃ b, is_power_of_2_u16 x = .ok b ∧ (b = true ↔ IsPow2 x) := by
  have hx : 0 ≤ x ∧ x ≤ 65535 := by c06_norm; omega
  obtain ⟨n, rfl⟩ := Int.eq_ofNat_of_zero_le hx.1
  simp only [is_power_of_2_u16]
  by_cases h0 : n = 0
  · subst h0
    refine ⟨false, by c06_norm; rfl, ?_⟩
    simp [IsPow2]
    intro k hk
    have : (0:Int) < 2 ^ k := Int.pow_pos (by omega)
    omega
  · have hn : 0 < n := by omega
    have e1 : CInt.conv IntTy.i32 (n : Int) = n := by c06_norm; c06_finish
    have e2 : CInt.sub IntTy.i32 (n : Int) 1 = .ok (((n - 1 : Nat) : Int)) := by c06_norm; c06_finish
    refine ⟨decide (n &&& (n - 1) = 0), ?_, ?_⟩
    · simp only [e1, e2, ok_bind, pure_eq_ok, ite_bind]
      rw [band_i32_nat n (n - 1) (by omega) (by omega)]
      have : ((n : Int) ≠ 0) := by omega
      simp [this]
      omega
    · rw [decide_eq_true_iff, and_pred_eq_zero_iff n hn]
      constructor
      · rintro ⟨k, hk⟩; exact ⟨k, by rw [hk]; simp⟩
      · rintro ⟨k, hk⟩; exact ⟨k, by exact_mod_cast hk⟩

/-- `power_of_2<u16>(e) = 2^e` for every exponent below the width (the representable cases); no Fault -/
theorem power_of_2_u16_correct (e : Nat) (he : e < 16) : power_of_2_u16 e = .ok ((2 : Int) ^ e) := by
  have : ∀ e : Fin 16, power_of_2_u16 (e.val : Int) = .ok ((2 : Int) ^ e.val) := by decide +kernel
  exact this ⟨e, he⟩

theorem shifted_mask_u16_correct (e : Nat) (he : e < 16) : shifted_mask_u16 e = .ok ((2 : Int) ^ e) := by
  simp only [shifted_mask_u16, power_of_2_u16_correct e he, ok_bind, pure_eq_ok]

/-- `bit::test(v, m)` holds iff value and mask have a common bit -/
theorem bit_test_u16_correct (v m : Nat) (hv : (v : Int) ≤ 65535) (hm : (m : Int) ≤ 65535) :
    bit_test_u16 v m = .ok (decide (v &&& m ≠ 0)) := by
  simp only [bit_test_u16]
  have e1 : CInt.conv IntTy.i32 (v : Int) = v := by c06_norm; c06_finish
  have e2 : CInt.conv IntTy.i32 (m : Int) = m := by c06_norm; c06_finish
  have e0 : CInt.conv IntTy.i32 (CInt.conv IntTy.u16 0) = 0 := by c06_norm <;> rfl
  have e0' : CInt.conv IntTy.u16 0 = 0 := by c06_norm <;> rfl
  have e0'' : CInt.conv IntTy.i32 0 = 0 := by c06_norm <;> rfl
  simp only [e1, e2, e0, e0', e0'']
  rw [band_i32_nat v m (by omega) (by omega)]
  simp only [pure_eq_ok]
  congr 1
  simp only [ne_eq, decide_not, Bool.not_eq_eq_eq_not, Bool.not_not, decide_eq_decide]
  constructor
  · intro h; exact_mod_cast h
  · intro h; exact_mod_cast h

/-- the selected bit: test against `shifted_mask(k)` is `testBit k` -/
theorem bit_test_u16_shifted_mask (v k : Nat) (hv : (v : Int) ≤ 65535) (hk : k < 16) :
    bit_test_u16 v ((2 ^ k : Nat)) = .ok (v.testBit k) := by
  have hp : ((2 ^ k : Nat) : Int) ≤ 65535 := by
    have : 2 ^ k < 2 ^ 16 := Nat.pow_lt_pow_right (by omega) hk
    have e : (2:Nat) ^ 16 = 65536 := by decide
    omega
  rw [bit_test_u16_correct v (2 ^ k) hv hp, and_two_pow']
  congr 1
  cases hb : v.testBit k <;> simp [hb]

/-- `is_power_of_2<u32>(x)` is true exactly for the powers of two -/
theorem is_power_of_2_u32_correct (x : Int) (h : IntTy.u32.InRange x) :
    ∃ b, is_power_of_2_u32 x = .ok b ∧ (b = true ↔ IsPow2 x) := by
  have hx : 0 ≤ x ∧ x ≤ 4294967295 := by c06_norm; omega
  obtain ⟨n, rfl⟩ := Int.eq_ofNat_of_zero_le hx.1
  simp only [is_power_of_2_u32]
  by_cases h0 : n = 0
  · subst h0
    refine ⟨false, by c06_norm; rfl, ?_⟩
    simp [IsPow2]
    intro k hk
    have : (0:Int) < 2 ^ k := Int.pow_pos (by omega)
    omega
  · have hn : 0 < n := by omega
    have e1 : True := trivial
    have e2 : CInt.sub IntTy.u32 (n : Int) (CInt.conv IntTy.u32 1) = .ok (((n - 1 : Nat) : Int)) := by c06_norm; c06_finish
    refine ⟨decide (n &&& (n - 1) = 0), ?_, ?_⟩
    · simp only [e1, e2, ok_bind, pure_eq_ok, ite_bind]
      rw [band_u32_nat n (n - 1) (by omega) (by omega)]
      have : ((n : Int) ≠ 0) := by omega
      simp [this]
      omega
    · rw [decide_eq_true_iff, and_pred_eq_zero_iff n hn]
      constructor
      · rintro ⟨k, hk⟩; exact ⟨k, by rw [hk]; simp⟩
      · rintro ⟨k, hk⟩; exact ⟨k, by exact_mod_cast hk⟩

/-- `power_of_2<u32>(e) = 2^e` for every exponent below the width (the representable cases); no Fault -/
theorem power_of_2_u32_correct (e : Nat) (he : e < 32) : power_of_2_u32 e = .ok ((2 : Int) ^ e) := by
  have : ∀ e : Fin 32, power_of_2_u32 (e.val : Int) = .ok ((2 : Int) ^ e.val) := by decide +kernel
  exact this ⟨e, he⟩

theorem shifted_mask_u32_correct (e : Nat) (he : e < 32) : shifted_mask_u32 e = .ok ((2 : Int) ^ e) := by
  simp only [shifted_mask_u32, power_of_2_u32_correct e he, ok_bind, pure_eq_ok]

/-- `bit::test(v, m)` holds iff value and mask have a common bit -/
theorem bit_test_u32_correct (v m : Nat) (hv : (v : Int) ≤ 4294967295) (hm : (m : Int) ≤ 4294967295) :
    bit_test_u32 v m = .ok (decide (v &&& m ≠ 0)) := by
  simp only [bit_test_u32]
  have e1 : CInt.conv IntTy.u32 (v : Int) = v := by c06_norm; c06_finish
  have e2 : CInt.conv IntTy.u32 (m : Int) = m := by c06_norm; c06_finish
  have e0 : CInt.conv IntTy.u32 (CInt.conv IntTy.u32 0) = 0 := by c06_norm <;> rfl
  have e0' : CInt.conv IntTy.u32 0 = 0 := by c06_norm <;> rfl
  have e0'' : CInt.conv IntTy.u32 0 = 0 := by c06_norm <;> rfl
  simp only [e1, e2, e0, e0', e0'']
  rw [band_u32_nat v m (by omega) (by omega)]
  simp only [pure_eq_ok]
  congr 1
  simp only [ne_eq, decide_not, Bool.not_eq_eq_eq_not, Bool.not_not, decide_eq_decide]
  constructor
  · intro h; exact_mod_cast h
  · intro h; exact_mod_cast h

/-- the selected bit: test against `shifted_mask(k)` is `testBit k` -/
theorem bit_test_u32_shifted_mask (v k : Nat) (hv : (v : Int) ≤ 4294967295) (hk : k < 32) :
    bit_test_u32 v ((2 ^ k : Nat)) = .ok (v.testBit k) := by
  have hp : ((2 ^ k : Nat) : Int) ≤ 4294967295 := by
    have : 2 ^ k < 2 ^ 32 := Nat.pow_lt_pow_right (by omega) hk
    have e : (2:Nat) ^ 32 = 4294967296 := by decide
    omega
  rw [bit_test_u32_correct v (2 ^ k) hv hp, and_two_pow']
  congr 1
  cases hb : v.testBit k <;> simp [hb]

/-- `is_power_of_2<u64>(x)` is true exactly for the powers of two -/
theorem is_power_of_2_u64_correct (x : Int) (h : IntTy.u64.InRange x) :
    ∃ b, is_power_of_2_u64 x = .ok b ∧ (b = true ↔ IsPow2 x) := by
  have hx : 0 ≤ x ∧ x ≤ 18446744073709551615 := by c06_norm; omega
  obtain ⟨n, rfl⟩ := Int.eq_ofNat_of_zero_le hx.1
  simp only [is_power_of_2_u64]
  by_cases h0 : n = 0
  · subst h0
    refine ⟨false, by c06_norm; rfl, ?_⟩
    simp [IsPow2]
    intro k hk
    have : (0:Int) < 2 ^ k := Int.pow_pos (by omega)
    omega
  · have hn : 0 < n := by omega
    have e1 : True := trivial
    have e2 : CInt.sub IntTy.u64 (n : Int) (CInt.conv IntTy.u64 1) = .ok (((n - 1 : Nat) : Int)) := by c06_norm; c06_finish
    refine ⟨decide (n &&& (n - 1) = 0), ?_, ?_⟩
    · simp only [e1, e2, ok_bind, pure_eq_ok, ite_bind]
      rw [band_u64_nat n (n - 1) (by omega) (by omega)]
      have : ((n : Int) ≠ 0) := by omega
      simp [this]
      omega
    · rw [decide_eq_true_iff, and_pred_eq_zero_iff n hn]
      constructor
      · rintro ⟨k, hk⟩; exact ⟨k, by rw [hk]; simp⟩
      · rintro ⟨k, hk⟩; exact ⟨k, by exact_mod_cast hk⟩

/-- `power_of_2<u64>(e) = 2^e` for every exponent below the width (the representable cases); no Fault -/
theorem power_of_2_u64_correct (e : Nat) (he : e < 64) : power_of_2_u64 e = .ok ((2 : Int) ^ e) := by
  have : ∀ e : Fin 64, power_of_2_u64 (e.val : Int) = .ok ((2 : Int) ^ e.val) := by decide +kernel
  exact this ⟨e, he⟩

theorem shifted_mask_u64_correct (e : Nat) (he : e < 64) : shifted_mask_u64 e = .ok ((2 : Int) ^ e) := by
  simp only [shifted_mask_u64, power_of_2_u64_correct e he, ok_bind, pure_eq_ok]

/-- `bit::test(v, m)` holds iff value and mask have a common bit -/
theorem bit_test_u64_correct (v m : Nat) (hv : (v : Int) ≤ 18446744073709551615) (hm : (m : Int) ≤ 18446744073709551615) :
    bit_test_u64 v m = .ok (decide (v &&& m ≠ 0)) := by
  simp only [bit_test_u64]
  have e1 : CInt.conv IntTy.u64 (v : Int) = v := by c06_norm; c06_finish
  have e2 : CInt.conv IntTy.u64 (m : Int) = m := by c06_norm; c06_finish
  have e0 : CInt.conv IntTy.u64 (CInt.conv IntTy.u64 0) = 0 := by c06_norm <;> rfl
  have e0' : CInt.conv IntTy.u64 0 = 0 := by c06_norm <;> rfl
  have e0'' : CInt.conv IntTy.u64 0 = 0 := by c06_norm <;> rfl
  simp only [e1, e2, e0, e0', e0'']
  rw [band_u64_nat v m (by omega) (by omega)]
  simp only [pure_eq_ok]
  congr 1
  simp only [ne_eq, decide_not, Bool.not_eq_eq_eq_not, Bool.not_not, decide_eq_decide]
  constructor
  · intro h; exact_mod_cast h
  · intro h; exact_mod_cast h

/-- the selected bit: test against `shifted_mask(k)` is `testBit k` -/
theorem bit_test_u64_shifted_mask (v k : Nat) (hv : (v : Int) ≤ 18446744073709551615) (hk : k < 64) :
    bit_test_u64 v ((2 ^ k : Nat)) = .ok (v.testBit k) := by
  have hp : ((2 ^ k : Nat) : Int) ≤ 18446744073709551615 := by
    have : 2 ^ k < 2 ^ 64 := Nat.pow_lt_pow_right (by omega) hk
    have e : (2:Nat) ^ 64 = 18446744073709551616 := by decide
    omega
  rw [bit_test_u64_correct v (2 ^ k) hv hp, and_two_pow']
  congr 1
  cases hb : v.testBit k <;> simp [hb]

end Fcppt.C06
