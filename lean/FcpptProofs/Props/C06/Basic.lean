import FcpptProofs.C06.Tactics
set_option linter.unusedSimpArgs false
/-!
C06 — enum_::from_int, math::div, math::mod, math::clamp, math::diff for every instantiation the
translator produced.  All statements: operands are values of the C++ type; whenever the exact
result is representable the function returns exactly it (no Fault), zero divisor / empty interval
give `none`.
-/
namespace Fcppt.C06
open Fcppt Fcppt.Gen

private theorem conv_i32_id (x : Int) (h : -2147483648 ≤ x ∧ x ≤ 2147483647) : CInt.conv IntTy.i32 x = x := by
  c06_norm; c06_finish

theorem from_int_u8_u8_correct (value size : Int) (h : IntTy.u8.InRange value) (hs : IntTy.u8.InRange size) :
    from_int_u8_u8 value size = .ok (fromIntSpec size value) := by
  gen_unfold_from_int
  c06_norm
  c06_finish

theorem from_int_u8_u16_correct (value size : Int) (h : IntTy.u16.InRange value) (hs : IntTy.u8.InRange size) :
    from_int_u8_u16 value size = .ok (fromIntSpec size value) := by
  gen_unfold_from_int
  c06_norm
  c06_finish

theorem from_int_u8_u32_correct (value size : Int) (h : IntTy.u32.InRange value) (hs : IntTy.u8.InRange size) :
    from_int_u8_u32 value size = .ok (fromIntSpec size value) := by
  gen_unfold_from_int
  c06_norm
  c06_finish

theorem from_int_u8_u64_correct (value size : Int) (h : IntTy.u64.InRange value) (hs : IntTy.u8.InRange size) :
    from_int_u8_u64 value size = .ok (fromIntSpec size value) := by
  gen_unfold_from_int
  c06_norm
  c06_finish

theorem from_int_u16_u8_correct (value size : Int) (h : IntTy.u8.InRange value) (hs : IntTy.u16.InRange size) :
    from_int_u16_u8 value size = .ok (fromIntSpec size value) := by
  gen_unfold_from_int
  c06_norm
  c06_finish

theorem from_int_u16_u16_correct (value size : Int) (h : IntTy.u16.InRange value) (hs : IntTy.u16.InRange size) :
    from_int_u16_u16 value size = .ok (fromIntSpec size value) := by
  gen_unfold_from_int
  c06_norm
  c06_finish

theorem from_int_u16_u32_correct (value size : Int) (h : IntTy.u32.InRange value) (hs : IntTy.u16.InRange size) :
    from_int_u16_u32 value size = .ok (fromIntSpec size value) := by
  gen_unfold_from_int
  c06_norm
  c06_finish

theorem from_int_u16_u64_correct (value size : Int) (h : IntTy.u64.InRange value) (hs : IntTy.u16.InRange size) :
    from_int_u16_u64 value size = .ok (fromIntSpec size value) := by
  gen_unfold_from_int
  c06_norm
  c06_finish

theorem from_int_u32_u8_correct (value size : Int) (h : IntTy.u8.InRange value) (hs : IntTy.u32.InRange size) :
    from_int_u32_u8 value size = .ok (fromIntSpec size value) := by
  gen_unfold_from_int
  c06_norm
  c06_finish

theorem from_int_u32_u16_correct (value size : Int) (h : IntTy.u16.InRange value) (hs : IntTy.u32.InRange size) :
    from_int_u32_u16 value size = .ok (fromIntSpec size value) := by
  gen_unfold_from_int
  c06_norm
  c06_finish

theorem from_int_u32_u32_correct (value size : Int) (h : IntTy.u32.InRange value) (hs : IntTy.u32.InRange size) :
    from_int_u32_u32 value size = .ok (fromIntSpec size value) := by
  gen_unfold_from_int
  c06_norm
  c06_finish

theorem from_int_u32_u64_correct (value size : Int) (h : IntTy.u64.InRange value) (hs : IntTy.u32.InRange size) :
    from_int_u32_u64 value size = .ok (fromIntSpec size value) := by
  gen_unfold_from_int
  c06_norm
  c06_finish

theorem from_int_u64_u8_correct (value size : Int) (h : IntTy.u8.InRange value) (hs : IntTy.u64.InRange size) :
    from_int_u64_u8 value size = .ok (fromIntSpec size value) := by
  gen_unfold_from_int
  c06_norm
  c06_finish

theorem from_int_u64_u16_correct (value size : Int) (h : IntTy.u16.InRange value) (hs : IntTy.u64.InRange size) :
    from_int_u64_u16 value size = .ok (fromIntSpec size value) := by
  gen_unfold_from_int
  c06_norm
  c06_finish

theorem from_int_u64_u32_correct (value size : Int) (h : IntTy.u32.InRange value) (hs : IntTy.u64.InRange size) :
    from_int_u64_u32 value size = .ok (fromIntSpec size value) := by
  gen_unfold_from_int
  c06_norm
  c06_finish

theorem from_int_u64_u64_correct (value size : Int) (h : IntTy.u64.InRange value) (hs : IntTy.u64.InRange size) :
    from_int_u64_u64 value size = .ok (fromIntSpec size value) := by
  gen_unfold_from_int
  c06_norm
  c06_finish

/-- math::div: the C++ quotient (truncated towards zero) whenever it is representable -/
theorem div_u32_correct (a b : Int) (ha : IntTy.u32.InRange a) (hb : IntTy.u32.InRange b) (hnz : b ≠ 0)
    (hr : IntTy.u32.InRange (Int.tdiv a b)) : div_u32 a b = .ok (some (Int.tdiv a b)) := by
  gen_unfold_div
  c06_norm
  generalize Int.tdiv a b = q at *
  c06_finish

theorem div_u32_zero (a : Int) : div_u32 a 0 = .ok none := by
  gen_unfold_div; c06_zero

/-- math::div: the C++ quotient (truncated towards zero) whenever it is representable -/
theorem div_i32_correct (a b : Int) (ha : IntTy.i32.InRange a) (hb : IntTy.i32.InRange b) (hnz : b ≠ 0)
    (hr : IntTy.i32.InRange (Int.tdiv a b)) : div_i32 a b = .ok (some (Int.tdiv a b)) := by
  gen_unfold_div
  c06_norm
  generalize Int.tdiv a b = q at *
  c06_finish

theorem div_i32_zero (a : Int) : div_i32 a 0 = .ok none := by
  gen_unfold_div; c06_zero

/-- math::div: the C++ quotient (truncated towards zero) whenever it is representable -/
theorem div_u64_correct (a b : Int) (ha : IntTy.u64.InRange a) (hb : IntTy.u64.InRange b) (hnz : b ≠ 0)
    (hr : IntTy.u64.InRange (Int.tdiv a b)) : div_u64 a b = .ok (some (Int.tdiv a b)) := by
  gen_unfold_div
  c06_norm
  generalize Int.tdiv a b = q at *
  c06_finish

theorem div_u64_zero (a : Int) : div_u64 a 0 = .ok none := by
  gen_unfold_div; c06_zero

/-- math::div: the C++ quotient (truncated towards zero) whenever it is representable -/
theorem div_i64_correct (a b : Int) (ha : IntTy.i64.InRange a) (hb : IntTy.i64.InRange b) (hnz : b ≠ 0)
    (hr : IntTy.i64.InRange (Int.tdiv a b)) : div_i64 a b = .ok (some (Int.tdiv a b)) := by
  gen_unfold_div
  c06_norm
  generalize Int.tdiv a b = q at *
  c06_finish

theorem div_i64_zero (a : Int) : div_i64 a 0 = .ok none := by
  gen_unfold_div; c06_zero

/-- math::mod (unsigned): the remainder, `none` for a zero divisor -/
theorem mod_u8_correct (a b : Int) (ha : IntTy.u8.InRange a) (hb : IntTy.u8.InRange b) (hnz : b ≠ 0) :
    mod_u8 a b = .ok (some (a % b)) := by
  have ha0 : 0 ≤ a := by c06_norm; omega
  have hb0 : 0 < b := by c06_norm; omega
  have e1 : Int.tmod a b = a % b := Int.tmod_eq_emod_of_nonneg ha0
  have h1 : 0 ≤ a % b := Int.emod_nonneg a hnz
  have h2 : a % b < b := Int.emod_lt_of_pos a hb0
  have h3 : 0 ≤ Int.tdiv a b := Int.tdiv_nonneg ha0 (Int.le_of_lt hb0)
  have h4 : Int.tdiv a b ≤ a := by
    rw [Int.tdiv_eq_ediv_of_nonneg ha0]; exact Int.ediv_le_self b ha0
  gen_unfold_mod
  try rw [conv_i32_id a (by c06_norm; omega), conv_i32_id b (by c06_norm; omega)]
  c06_norm
  rw [e1]
  generalize Int.tdiv a b = q at *
  generalize a % b = r at *
  c06_finish

theorem mod_u8_zero (a : Int) : mod_u8 a 0 = .ok none := by
  gen_unfold_mod; c06_zero

/-- math::mod (unsigned): the remainder, `none` for a zero divisor -/
theorem mod_u16_correct (a b : Int) (ha : IntTy.u16.InRange a) (hb : IntTy.u16.InRange b) (hnz : b ≠ 0) :
    mod_u16 a b = .ok (some (a % b)) := by
  have ha0 : 0 ≤ a := by c06_norm; omega
  have hb0 : 0 < b := by c06_norm; omega
  have e1 : Int.tmod a b = a % b := Int.tmod_eq_emod_of_nonneg ha0
  have h1 : 0 ≤ a % b := Int.emod_nonneg a hnz
  have h2 : a % b < b := Int.emod_lt_of_pos a hb0
  have h3 : 0 ≤ Int.tdiv a b := Int.tdiv_nonneg ha0 (Int.le_of_lt hb0)
  have h4 : Int.tdiv a b ≤ a := by
    rw [Int.tdiv_eq_ediv_of_nonneg ha0]; exact Int.ediv_le_self b ha0
  gen_unfold_mod
  try rw [conv_i32_id a (by c06_norm; omega), conv_i32_id b (by c06_norm; omega)]
  c06_norm
  rw [e1]
  generalize Int.tdiv a b = q at *
  generalize a % b = r at *
  c06_finish

theorem mod_u16_zero (a : Int) : mod_u16 a 0 = .ok none := by
  gen_unfold_mod; c06_zero

/-- math::mod (unsigned): the remainder, `none` for a zero divisor -/
theorem mod_u32_correct (a b : Int) (ha : IntTy.u32.InRange a) (hb : IntTy.u32.InRange b) (hnz : b ≠ 0) :
    mod_u32 a b = .ok (some (a % b)) := by
  have ha0 : 0 ≤ a := by c06_norm; omega
  have hb0 : 0 < b := by c06_norm; omega
  have e1 : Int.tmod a b = a % b := Int.tmod_eq_emod_of_nonneg ha0
  have h1 : 0 ≤ a % b := Int.emod_nonneg a hnz
  have h2 : a % b < b := Int.emod_lt_of_pos a hb0
  have h3 : 0 ≤ Int.tdiv a b := Int.tdiv_nonneg ha0 (Int.le_of_lt hb0)
  have h4 : Int.tdiv a b ≤ a := by
    rw [Int.tdiv_eq_ediv_of_nonneg ha0]; exact Int.ediv_le_self b ha0
  gen_unfold_mod
  try rw [conv_i32_id a (by c06_norm; omega), conv_i32_id b (by c06_norm; omega)]
  c06_norm
  rw [e1]
  generalize Int.tdiv a b = q at *
  generalize a % b = r at *
  c06_finish

theorem mod_u32_zero (a : Int) : mod_u32 a 0 = .ok none := by
  gen_unfold_mod; c06_zero

/-- math::mod (unsigned): the remainder, `none` for a zero divisor -/
theorem mod_u64_correct (a b : Int) (ha : IntTy.u64.InRange a) (hb : IntTy.u64.InRange b) (hnz : b ≠ 0) :
    mod_u64 a b = .ok (some (a % b)) := by
  have ha0 : 0 ≤ a := by c06_norm; omega
  have hb0 : 0 < b := by c06_norm; omega
  have e1 : Int.tmod a b = a % b := Int.tmod_eq_emod_of_nonneg ha0
  have h1 : 0 ≤ a % b := Int.emod_nonneg a hnz
  have h2 : a % b < b := Int.emod_lt_of_pos a hb0
  have h3 : 0 ≤ Int.tdiv a b := Int.tdiv_nonneg ha0 (Int.le_of_lt hb0)
  have h4 : Int.tdiv a b ≤ a := by
    rw [Int.tdiv_eq_ediv_of_nonneg ha0]; exact Int.ediv_le_self b ha0
  gen_unfold_mod
  try rw [conv_i32_id a (by c06_norm; omega), conv_i32_id b (by c06_norm; omega)]
  c06_norm
  rw [e1]
  generalize Int.tdiv a b = q at *
  generalize a % b = r at *
  c06_finish

theorem mod_u64_zero (a : Int) : mod_u64 a 0 = .ok none := by
  gen_unfold_mod; c06_zero

theorem clamp_u8_correct (v lo hi : Int) (hv : IntTy.u8.InRange v) (hl : IntTy.u8.InRange lo) (hh : IntTy.u8.InRange hi) :
    clamp_u8 v lo hi = .ok (clampSpec v lo hi) := by
  gen_unfold_clamp
  try simp only [Int.max_def, Int.min_def]
  c06_norm
  simp only [Int.max_def, Int.min_def]
  c06_finish

/-- math::diff: |a - b| whenever that is representable -/
theorem diff_u8_correct (a b : Int) (ha : IntTy.u8.InRange a) (hb : IntTy.u8.InRange b)
    (hr : IntTy.u8.InRange (if a < b then b - a else a - b)) :
    diff_u8 a b = .ok (if a < b then b - a else a - b) := by
  gen_unfold_diff
  c06_norm
  c06_finish

theorem clamp_u16_correct (v lo hi : Int) (hv : IntTy.u16.InRange v) (hl : IntTy.u16.InRange lo) (hh : IntTy.u16.InRange hi) :
    clamp_u16 v lo hi = .ok (clampSpec v lo hi) := by
  gen_unfold_clamp
  try simp only [Int.max_def, Int.min_def]
  c06_norm
  simp only [Int.max_def, Int.min_def]
  c06_finish

/-- math::diff: |a - b| whenever that is representable -/
theorem diff_u16_correct (a b : Int) (ha : IntTy.u16.InRange a) (hb : IntTy.u16.InRange b)
    (hr : IntTy.u16.InRange (if a < b then b - a else a - b)) :
    diff_u16 a b = .ok (if a < b then b - a else a - b) := by
  gen_unfold_diff
  c06_norm
  c06_finish

theorem clamp_u32_correct (v lo hi : Int) (hv : IntTy.u32.InRange v) (hl : IntTy.u32.InRange lo) (hh : IntTy.u32.InRange hi) :
    clamp_u32 v lo hi = .ok (clampSpec v lo hi) := by
  gen_unfold_clamp
  try simp only [Int.max_def, Int.min_def]
  c06_norm
  simp only [Int.max_def, Int.min_def]
  c06_finish

/-- math::diff: |a - b| whenever that is representable -/
theorem diff_u32_correct (a b : Int) (ha : IntTy.u32.InRange a) (hb : IntTy.u32.InRange b)
    (hr : IntTy.u32.InRange (if a < b then b - a else a - b)) :
    diff_u32 a b = .ok (if a < b then b - a else a - b) := by
  gen_unfold_diff
  c06_norm
  c06_finish

theorem clamp_u64_correct (v lo hi : Int) (hv : IntTy.u64.InRange v) (hl : IntTy.u64.InRange lo) (hh : IntTy.u64.InRange hi) :
    clamp_u64 v lo hi = .ok (clampSpec v lo hi) := by
  gen_unfold_clamp
  try simp only [Int.max_def, Int.min_def]
  c06_norm
  simp only [Int.max_def, Int.min_def]
  c06_finish

/-- math::diff: |a - b| whenever that is representable -/
theorem diff_u64_correct (a b : Int) (ha : IntTy.u64.InRange a) (hb : IntTy.u64.InRange b)
    (hr : IntTy.u64.InRange (if a < b then b - a else a - b)) :
    diff_u64 a b = .ok (if a < b then b - a else a - b) := by
  gen_unfold_diff
  c06_norm
  c06_finish

theorem clamp_i8_correct (v lo hi : Int) (hv : IntTy.i8.InRange v) (hl : IntTy.i8.InRange lo) (hh : IntTy.i8.InRange hi) :
    clamp_i8 v lo hi = .ok (clampSpec v lo hi) := by
  gen_unfold_clamp
  try simp only [Int.max_def, Int.min_def]
  c06_norm
  simp only [Int.max_def, Int.min_def]
  c06_finish

/-- math::diff: |a - b| whenever that is representable -/
theorem diff_i8_correct (a b : Int) (ha : IntTy.i8.InRange a) (hb : IntTy.i8.InRange b)
    (hr : IntTy.i8.InRange (if a < b then b - a else a - b)) :
    diff_i8 a b = .ok (if a < b then b - a else a - b) := by
  gen_unfold_diff
  c06_norm
  c06_finish

theorem clamp_i16_correct (v lo hi : Int) (hv : IntTy.i16.InRange v) (hl : IntTy.i16.InRange lo) (hh : IntTy.i16.InRange hi) :
    clamp_i16 v lo hi = .ok (clampSpec v lo hi) := by
  gen_unfold_clamp
  try simp only [Int.max_def, Int.min_def]
  c06_norm
  simp only [Int.max_def, Int.min_def]
  c06_finish

/-- math::diff: |a - b| whenever that is representable -/
theorem diff_i16_correct (a b : Int) (ha : IntTy.i16.InRange a) (hb : IntTy.i16.InRange b)
    (hr : IntTy.i16.InRange (if a < b then b - a else a - b)) :
    diff_i16 a b = .ok (if a < b then b - a else a - b) := by
  gen_unfold_diff
  c06_norm
  c06_finish

theorem clamp_i32_correct (v lo hi : Int) (hv : IntTy.i32.InRange v) (hl : IntTy.i32.InRange lo) (hh : IntTy.i32.InRange hi) :
    clamp_i32 v lo hi = .ok (clampSpec v lo hi) := by
  gen_unfold_clamp
  try simp only [Int.max_def, Int.min_def]
  c06_norm
  simp only [Int.max_def, Int.min_def]
  c06_finish

/-- math::diff: |a - b| whenever that is representable -/
theorem diff_i32_correct (a b : Int) (ha : IntTy.i32.InRange a) (hb : IntTy.i32.InRange b)
    (hr : IntTy.i32.InRange (if a < b then b - a else a - b)) :
    diff_i32 a b = .ok (if a < b then b - a else a - b) := by
  gen_unfold_diff
  c06_norm
  c06_finish

theorem clamp_i64_correct (v lo hi : Int) (hv : IntTy.i64.InRange v) (hl : IntTy.i64.InRange lo) (hh : IntTy.i64.InRange hi) :
    clamp_i64 v lo hi = .ok (clampSpec v lo hi) := by
  gen_unfold_clamp
  try simp only [Int.max_def, Int.min_def]
  c06_norm
  simp only [Int.max_def, Int.min_def]
  c06_finish

/-- math::diff: |a - b| whenever that is representable -/
theorem diff_i64_correct (a b : Int) (ha : IntTy.i64.InRange a) (hb : IntTy.i64.InRange b)
    (hr : IntTy.i64.InRange (if a < b then b - a else a - b)) :
    diff_i64 a b = .ok (if a < b then b - a else a - b) := by
  gen_unfold_diff
  c06_norm
  c06_finish

end Fcppt.C06
