import FcpptModel.Spec.C18
/-! Property theorems for C18 — under construction. -/
namespace Fcppt.C18
theorem placeholder_partial : True := trivial
end Fcppt.C18
