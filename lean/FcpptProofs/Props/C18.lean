/-! Property theorems for C18 — placeholder until the property's model is built. -/
