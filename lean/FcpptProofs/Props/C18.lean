import FcpptModel.Spec.C18
import FcpptProofs.C18.IntTy
import FcpptProofs.C18.Cyclic
import FcpptProofs.C18.Spiral
import FcpptProofs.C18.Diamond
import FcpptProofs.C18.Iter
import FcpptProofs.C18.Base
import FcpptProofs.C18.SpiralT
/-!
# C18 — property theorems: ranges and iterators enumerate exactly their documented sequence

All statements are about the executable model `FcpptModel/Model/C18.lean` (which the correspondence ties to the
C++ templates) and hold for **every** integer width `bits ≥ 1` and signedness, every enum size, every boundary
length `≥ 1` and step count, every spiral distance and origin, every container.  `f` is surplus loop fuel: the
loops terminate with exactly the documented number of iterations, whatever budget beyond that they are given.
Only theorems live here; lemmas are in `FcpptProofs/C18/`.
-/
namespace Fcppt.C18
open Spec

/-! ## int_range -/

/-- the documented sequence `b, b+1, …, e-1` really is that: ascending by one, from `b`, below `e` -/
theorem int_range_spec_mem (b e x : Int) : x ∈ Spec.intRange b e ↔ b ≤ x ∧ x < e := by
  unfold Spec.intRange; rw [mem_iota]; omega

theorem int_range_spec_getElem (b e : Int) (i : Nat) (h : (i : Int) < e - b) : (Spec.intRange b e)[i]? = some (b + i) :=
  getElem?_iota b _ i (by omega)

theorem int_range_spec_length (b e : Int) : (Spec.intRange b e).length = Spec.intRangeCount b e := length_iota _ _

/-- nothing if `e ≤ b` -/
theorem int_range_spec_empty (b e : Int) (h : e ≤ b) : Spec.intRange b e = [] := by
  unfold Spec.intRange; rw [show (e - b).toNat = 0 by omega]; rfl

/-- **`make_int_range(b, e)` yields `b, b+1, …, e-1` (nothing if `e ≤ b`)** for every integer type — narrow (promoted),
unsigned (modular) and `int`/`long` alike: the increment never wraps and never overflows on the way. -/
theorem int_range_elems (t : IntTy) (hb : 1 ≤ t.bits) (b e : Int) (hbr : t.InRange b) (her : t.InRange e) (f : Nat) :
    (makeIntRange b e).elems t (f + Spec.intRangeCount b e + 1) = .ok (Spec.intRange b e) := by
  unfold makeIntRange IntRange.make IntRange.elems Spec.intRange Spec.intRangeCount
  by_cases h : e < b
  · have h0 : (e - b).toNat = 0 := by omega
    simp only [h, if_true, h0]
    simp [intLoop_succ, iota]
  · simp only [h, if_false]
    have := intLoop_spec t hb (e - b).toNat b hbr.1 (by have := her.2; omega) f
    rwa [show b + ((e - b).toNat : Int) = e by omega] at this

/-- a loop budget not larger than the element count is reported as such (`overrun`), never as a shorter list -/
theorem int_range_elems_fuel (t : IntTy) (hb : 1 ≤ t.bits) (b e : Int) (hbr : t.InRange b) (her : t.InRange e) (f : Nat)
    (hf : f ≤ Spec.intRangeCount b e) : (makeIntRange b e).elems t f = .error .fuel := by
  unfold makeIntRange IntRange.make IntRange.elems
  unfold Spec.intRangeCount at hf
  by_cases h : e < b
  · have : f = 0 := by omega
    subst this; simp [intLoop]
  · simp only [h, if_false]
    have := intLoop_fuel t hb (e - b).toNat b hbr.1 (by have := her.2; omega) f hf
    rwa [show b + ((e - b).toNat : Int) = e by omega] at this

/-- **`make_int_range_count(n)` yields `0 .. n-1`** -/
theorem int_range_count_elems (t : IntTy) (hb : 1 ≤ t.bits) (n : Int) (hn : t.InRange n) (f : Nat) :
    (makeIntRangeCount n).elems t (f + n.toNat + 1) = .ok (Spec.intRange 0 n) := by
  have h0 : t.InRange 0 := ⟨t.lo_nonpos, t.hi_nonneg⟩
  have := int_range_elems t hb 0 n h0 hn f
  simpa [makeIntRangeCount, Spec.intRangeCount] using this

/-- **`size()` is the number of elements whenever that number is representable in the range's own type** -/
theorem int_range_size (t : IntTy) (hb : 1 ≤ t.bits) (b e : Int)
    (hrep : (Spec.intRangeCount b e : Int) ≤ t.hi) :
    (makeIntRange b e).size t = .ok (Spec.intRangeCount b e) := by
  unfold makeIntRange IntRange.make IntRange.size
  unfold Spec.intRangeCount at hrep ⊢
  have hlo := t.lo_nonpos
  by_cases h : e < b
  · simp only [h, if_true, Int.sub_self]
    rw [show ((e - b).toNat : Int) = 0 by omega, IntTy.wrap_of_inRange t hb ⟨hlo, t.hi_nonneg⟩]
    have h1 : ¬ t.hi < 0 := by have := t.hi_nonneg; omega
    have h2 : ¬ (0 : Int) < t.lo := by omega
    simp [h1, h2]
  · simp only [h, if_false]
    have hd : ((e - b).toNat : Int) = e - b := by omega
    rw [hd] at hrep ⊢
    rw [IntTy.wrap_of_inRange t hb ⟨by omega, hrep⟩]
    have h1 : ¬ t.hi < e - b := by omega
    have h2 : ¬ e - b < t.lo := by omega
    simp [h1, h2]

/-- for unsigned types the count is always representable -/
theorem int_range_size_unsigned (t : IntTy) (hb : 1 ≤ t.bits) (hu : t.signed = false) (b e : Int) (hbr : t.InRange b)
    (her : t.InRange e) : (makeIntRange b e).size t = .ok (Spec.intRangeCount b e) := by
  apply int_range_size t hb b e
  have h1 := hbr.1; have h2 := her.2
  simp only [IntTy.lo, hu] at h1
  have := t.hi_nonneg
  unfold Spec.intRangeCount
  simp at h1; omega

/-- the overflow boundary, narrow signed types (`int8_t`, `int16_t`): a count above the maximum comes back wrapped
modulo `2^bits`, i.e. negative (`make_int_range<int8_t>(-128, 127).size() == -1`) -/
theorem int_range_size_narrow_wraps (t : IntTy) (hb : 1 ≤ t.bits) (hp : t.promotes = true) (b e : Int)
    (hbr : t.InRange b) (her : t.InRange e) (hbig : t.hi < e - b) :
    (makeIntRange b e).size t = .ok (e - b - 2 ^ t.bits) := by
  have hs : t.signed = true := by
    cases hsg : t.signed
    · have h1 := hbr.1; have h2 := her.2
      simp [IntTy.lo, IntTy.hi, hsg] at h1 h2 hbig; omega
    · rfl
  have hne : ¬ e < b := by have := t.hi_nonneg; omega
  have htr : t.trapping = false := by simp [IntTy.trapping, hp]
  unfold makeIntRange IntRange.make IntRange.size
  simp only [hne, if_false, htr, Bool.false_and, Bool.false_eq_true]
  have hsp := two_pow_split hb
  have hpp := two_pow_pos (t.bits - 1)
  have h1 := hbr.1; have h2 := her.2
  simp [IntTy.lo, IntTy.hi, hs] at h1 h2 hbig
  have hm : (e - b) % 2 ^ t.bits = e - b := Int.emod_eq_of_lt (by omega) (by omega)
  congr 1
  simp only [IntTy.wrap, hm, hs, Bool.true_and, decide_eq_true_eq]
  rw [if_pos (by omega)]

/-- the overflow boundary, `int` / `long`: the subtraction `end_ - begin_` overflows — undefined behaviour, which the
model reports as a fault instead of inventing a value (UBSan reports the same in the harness, op `irub`) -/
theorem int_range_size_wide_overflow (t : IntTy) (htr : t.trapping = true) (b e : Int) (hbig : t.hi < e - b) :
    (makeIntRange b e).size t = .error .signedOverflow := by
  have hne : ¬ e < b := by have := t.hi_nonneg; omega
  unfold makeIntRange IntRange.make IntRange.size
  simp [hne, htr, hbig]

/-- `fcppt::range::size` (counting with `std::distance` in the iterator's difference type, then `to_unsigned`)
gives the number of steps when it is representable -/
theorem range_size_correct (t : IntTy) (hb : 1 ≤ t.bits) (n : Nat) (h : (n : Int) ≤ t.hi) : rangeSize t n = .ok n := by
  unfold rangeSize
  have hlo := t.lo_nonpos
  have hn : ¬ t.hi < (n : Int) := by omega
  rw [IntTy.wrap_of_inRange t hb ⟨by omega, h⟩]
  rw [IntTy.wrap_of_inRange t.toUnsigned hb]
  · simp [hn]
  · have hp := two_pow_split hb
    have hpp := two_pow_pos (t.bits - 1)
    constructor
    · simp [IntTy.lo, IntTy.toUnsigned]
    · simp only [IntTy.hi, IntTy.toUnsigned] at h ⊢
      split at h <;> simp <;> omega

/-- `range::empty` of an int range: exactly when `e ≤ b`; `range::singular`: exactly when it has one element (the increment
inside `singular` is never applied at the maximum of the type) -/
theorem int_range_empty_singular (t : IntTy) (hb : 1 ≤ t.bits) (b e : Int) (hbr : t.InRange b) (her : t.InRange e) :
    ((makeIntRange b e).empty = true ↔ e ≤ b) ∧
      (makeIntRange b e).singular t = .ok (decide (Spec.intRangeCount b e = 1)) := by
  unfold makeIntRange IntRange.make IntRange.singular IntRange.empty IntIter.equal Spec.intRangeCount
  by_cases h : e < b
  · simp only [h, if_true]
    refine ⟨by simp; omega, ?_⟩
    have : ¬ (e - b).toNat = 1 := by omega
    simp [this]
  · simp only [h, if_false]
    refine ⟨by simp; omega, ?_⟩
    by_cases hbe : b = e
    · subst hbe; simp
    · have hne : ¬ b = e := hbe
      simp only [decide_eq_true_eq, hne, if_false]
      rw [incr_ok t hb hbr.1 (by have := her.2; omega)]
      have hiff : b + 1 = e ↔ (e - b).toNat = 1 := by omega
      simp only [hiff]

/-! ## `int_iterator` / `enum_::iterator` used directly, the operations inherited from `iterator::base` -/

/-- `a == b` on `int_iterator`s (and `enum_::iterator`s) is equality of the values, `a != b` its negation -/
theorem int_iter_equal_iff (a b : Int) : (IntIter.equal a b = true ↔ a = b) ∧ (IntIter.notEqual a b = true ↔ a ≠ b) := by
  simp [IntIter.equal, IntIter.notEqual]

/-- `it++` returns the old iterator and moves to the next value -/
theorem int_iter_post_incr (t : IntTy) (hb : 1 ≤ t.bits) (v : Int) (hlo : t.lo ≤ v) (hhi : v + 1 ≤ t.hi) :
    IntIter.postIncr t v = .ok (v, v + 1) := by
  unfold IntIter.postIncr; rw [incr_ok t hb hlo hhi]

/-- at the maximum of a narrow or unsigned type `it++` wraps to the minimum (defined behaviour) … -/
theorem int_iter_post_incr_wraps (t : IntTy) (hb : 1 ≤ t.bits) (htr : t.trapping = false) :
    IntIter.postIncr t t.hi = .ok (t.hi, t.lo) := by
  unfold IntIter.postIncr; rw [incr_hi_wraps t hb htr]

/-- … and for `int` / `long` it is undefined -/
theorem int_iter_post_incr_overflow (t : IntTy) (htr : t.trapping = true) :
    IntIter.postIncr t t.hi = .error .signedOverflow := by
  unfold IntIter.postIncr; rw [incr_hi_traps t htr]

/-- `swap` exchanges the two iterators; swapping twice (member swap, then the free function) restores them; swapping an
iterator with itself leaves it unchanged -/
theorem swap_pair_spec {α : Type} (a b : α) :
    swapPair (a, b) = (b, a) ∧ swapPair (swapPair (a, b)) = (a, b) ∧ swapPair (a, a) = (a, a) := ⟨rfl, rfl, rfl⟩

/-- an `iterator::range` of two `int_iterator`s `b ≤ e` is the same sequence as `make_int_range(b, e)` -/
theorem int_iter_range_elems (t : IntTy) (hb : 1 ≤ t.bits) (b e : Int) (hbr : t.InRange b) (her : t.InRange e) (hbe : b ≤ e) (f : Nat) :
    intIterRange t b e (f + Spec.intRangeCount b e + 1) = .ok (Spec.intRange b e) := by
  have := int_range_elems t hb b e hbr her f
  have hne : ¬ e < b := by omega
  simpa [makeIntRange, IntRange.make, IntRange.elems, intIterRange, hne] using this

/-- … but there is **no clamp**: for an inverted pair `e < b` over a narrow or unsigned type the loop runs up to the
maximum, wraps around and continues from the minimum up to `e - 1` -/
theorem int_iter_range_inverted_wraps (t : IntTy) (hb : 1 ≤ t.bits) (htr : t.trapping = false) (b e : Int)
    (hbr : t.InRange b) (her : t.InRange e) (hlt : e < b) (f : Nat) :
    intIterRange t b e (f + ((t.hi - b).toNat + 1) + ((e - t.lo).toNat + 1)) =
      .ok (Spec.iota b ((t.hi - b).toNat + 1) ++ Spec.iota t.lo (e - t.lo).toNat) := by
  obtain ⟨hb1, hb2⟩ := hbr
  obtain ⟨he1, he2⟩ := her
  unfold intIterRange
  -- b .. hi - 1
  have h1 := intLoop_prefix t hb e (t.hi - b).toNat b hb1 (by omega) (fun x h1 h2 => by omega) (f + ((e - t.lo).toNat + 1) + 1)
  rw [show b + ((t.hi - b).toNat : Int) = t.hi by omega] at h1
  rw [show f + ((t.hi - b).toNat + 1) + ((e - t.lo).toNat + 1) = f + ((e - t.lo).toNat + 1) + 1 + (t.hi - b).toNat by omega, h1]
  -- the step at hi wraps to lo
  have hne : ¬ t.hi = e := by omega
  rw [intLoop_succ, if_neg hne, incr_hi_wraps t hb htr]
  -- lo .. e - 1
  have h2 := intLoop_spec t hb (e - t.lo).toNat t.lo (Int.le_refl _) (by omega) f
  rw [show t.lo + ((e - t.lo).toNat : Int) = e by omega] at h2
  simp only [show f + ((e - t.lo).toNat + 1) = f + (e - t.lo).toNat + 1 by omega, h2, prependI]
  congr 1
  have happ : ∀ (n : Nat) (x : Int), Spec.iota x (n + 1) = Spec.iota x n ++ [x + n] := by
    intro n; induction n with
    | zero => intro x; simp [Spec.iota]
    | succ n ih => intro x; rw [Spec.iota, ih (x + 1)]; simp [Spec.iota]; omega
  rw [happ, show b + (((t.hi - b).toNat : Nat) : Int) = t.hi by omega]
  simp

/-! ## enum ranges -/

theorem enum_range_spec_mem (s e x : Int) : x ∈ Spec.enumRange s e ↔ s ≤ x ∧ x ≤ e := by
  unfold Spec.enumRange; rw [mem_iota]; omega

theorem enum_range_spec_nodup (s e : Int) : (Spec.enumRange s e).Nodup := nodup_iota _ _

theorem enum_range_spec_ascending (s e : Int) : (Spec.enumRange s e).Pairwise (· < ·) := pairwise_iota _ _

/-- **`make_range_start_end(s, e)` yields every enumerator of the closed sub-range `[s, e]` once, in order**
(the empty sub-range is `s = e + 1`), for an enum whose `size_type` has `w` bits and can hold `e + 1` -/
theorem enum_range_elems (w : Nat) (hw : 1 ≤ w) (s e : Int) (hs : 0 ≤ s) (hse : s ≤ e + 1) (he : e + 1 < 2 ^ w) (f : Nat) :
    (makeRangeStartEnd w s e).elems w (f + (e + 1 - s).toNat + 1) = .ok (Spec.enumRange s e) := by
  have hlo : (sizeTy w).lo = 0 := by simp [sizeTy, IntTy.lo]
  have hhi : (sizeTy w).hi = 2 ^ w - 1 := by simp [sizeTy, IntTy.hi]
  have hb : 1 ≤ (sizeTy w).bits := hw
  unfold makeRangeStartEnd EnumRange.elems Spec.enumRange
  simp only
  rw [IntTy.wrap_of_inRange (sizeTy w) hb ⟨by omega, by omega⟩]
  have := intLoop_spec (sizeTy w) hb (e + 1 - s).toNat s (by omega) (by omega) f
  rwa [show s + ((e + 1 - s).toNat : Int) = e + 1 by omega] at this

/-- `size()` of an enum sub-range is its number of enumerators -/
theorem enum_range_size (w : Nat) (hw : 1 ≤ w) (s e : Int) (hs : 0 ≤ s) (hse : s ≤ e + 1) (he : e + 1 < 2 ^ w) :
    (makeRangeStartEnd w s e).size w = e + 1 - s := by
  have hlo : (sizeTy w).lo = 0 := by simp [sizeTy, IntTy.lo]
  have hhi : (sizeTy w).hi = 2 ^ w - 1 := by simp [sizeTy, IntTy.hi]
  have hb : 1 ≤ (sizeTy w).bits := hw
  unfold makeRangeStartEnd EnumRange.size
  simp only
  rw [IntTy.wrap_of_inRange (sizeTy w) hb (x := e + 1) ⟨by omega, by omega⟩,
    IntTy.wrap_of_inRange (sizeTy w) hb (x := e + 1 - s) ⟨by omega, by omega⟩]

/-- `make_range_start(s)` yields `s .. max`, `make_range()` yields every enumerator (`n < 2^w` enumerators) -/
theorem enum_make_range_start_elems (w n : Nat) (hw : 1 ≤ w) (hn : (n : Int) < 2 ^ w) (s : Int) (hs : 0 ≤ s) (hsn : s ≤ n) (f : Nat) :
    (makeRangeStart w n s).elems w (f + ((n : Int) - s).toNat + 1) = .ok (Spec.enumRange s ((n : Int) - 1)) := by
  have := enum_range_elems w hw s ((n : Int) - 1) hs (by omega) (by omega) f
  rwa [show (n : Int) - 1 + 1 - s = n - s by omega] at this

theorem enum_make_range_elems (w n : Nat) (hw : 1 ≤ w) (hn : (n : Int) < 2 ^ w) (f : Nat) :
    (makeRange w n).elems w (f + n + 1) = .ok (Spec.enumRange 0 ((n : Int) - 1)) := by
  have := enum_make_range_start_elems w n hw hn 0 (Int.le_refl _) (by omega) f
  simpa [makeRange] using this

/-- an inverted pair (`start > end + 1`, a precondition violation of `make_range_start_end`) is **not** empty: the loop runs to
the maximum of the `size_type`, wraps and stops at `end` — mirrored and exercised, outside the property -/
theorem enum_range_inverted_wraps (w : Nat) (hw : 1 ≤ w) (s e : Int) (he0 : 0 ≤ e) (hes : e + 1 < s) (hs : s < 2 ^ w) (f : Nat) :
    (makeRangeStartEnd w s e).elems w (f + ((2 ^ w - 1 - s).toNat + 1) + ((e + 1).toNat + 1)) =
      .ok (Spec.iota s ((2 ^ w - 1 - s).toNat + 1) ++ Spec.iota 0 (e + 1).toNat) := by
  have hlo : (sizeTy w).lo = 0 := by simp [sizeTy, IntTy.lo]
  have hhi : (sizeTy w).hi = 2 ^ w - 1 := by simp [sizeTy, IntTy.hi]
  have hb : 1 ≤ (sizeTy w).bits := hw
  have htr : (sizeTy w).trapping = false := by simp [sizeTy, IntTy.trapping]
  unfold makeRangeStartEnd EnumRange.elems
  simp only
  rw [IntTy.wrap_of_inRange (sizeTy w) hb ⟨by omega, by omega⟩]
  have := int_iter_range_inverted_wraps (sizeTy w) hb htr s (e + 1) ⟨by omega, by omega⟩ ⟨by omega, by omega⟩ (by omega) f
  rw [hhi, hlo] at this
  simpa [intIterRange] using this

/-- the boundary of that guard: an enum that uses *every* value of its `size_type` (`2^w` enumerators) gets an
**empty** `make_range()`, because `max + 1` wraps to `0`.  Outside the property's quantifier (≤ 9 enumerators);
recorded so that the guard `n < 2^w` above is seen to be sharp. -/
theorem enum_make_range_full_width_empty (w : Nat) (f : Nat) :
    (makeRange w (2 ^ w)).elems w (f + 1) = .ok [] := by
  have h : (sizeTy w).wrap (2 ^ w) = 0 := by
    simp [IntTy.wrap, sizeTy]
  simp [makeRange, makeRangeStart, makeRangeStartEnd, EnumRange.elems, h, intLoop_succ]

/-- `range::empty` / `range::singular` of an enum sub-range `[s, e]` -/
theorem enum_range_empty_singular (w : Nat) (hw : 1 ≤ w) (s e : Int) (hs : 0 ≤ s) (hse : s ≤ e + 1) (he : e + 1 < 2 ^ w) :
    ((makeRangeStartEnd w s e).empty = true ↔ s = e + 1) ∧ (makeRangeStartEnd w s e).singular w = .ok (decide (s = e)) := by
  have hlo : (sizeTy w).lo = 0 := by simp [sizeTy, IntTy.lo]
  have hhi : (sizeTy w).hi = 2 ^ w - 1 := by simp [sizeTy, IntTy.hi]
  have hb : 1 ≤ (sizeTy w).bits := hw
  unfold makeRangeStartEnd EnumRange.singular EnumRange.empty IntIter.equal
  simp only
  rw [IntTy.wrap_of_inRange (sizeTy w) hb ⟨by omega, by omega⟩]
  refine ⟨by simp, ?_⟩
  by_cases h : s = e + 1
  · simp [h]; omega
  · simp only [decide_eq_true_eq, h, if_false]
    rw [incr_ok (sizeTy w) hb (by omega) (by omega)]
    have hiff : s + 1 = e + 1 ↔ s = e := by omega
    simp only [hiff]

/-- `enum_::range<E>(b, e)` constructed directly from two `size_type` values is the half-open `[b, e)` -/
theorem enum_range_direct_elems (w : Nat) (hw : 1 ≤ w) (b e : Int) (hb0 : 0 ≤ b) (hbe : b ≤ e) (he : e < 2 ^ w) (f : Nat) :
    (EnumRange.mk b e).elems w (f + (e - b).toNat + 1) = .ok (Spec.iota b (e - b).toNat) ∧
      (EnumRange.mk b e).size w = e - b := by
  have hlo : (sizeTy w).lo = 0 := by simp [sizeTy, IntTy.lo]
  have hhi : (sizeTy w).hi = 2 ^ w - 1 := by simp [sizeTy, IntTy.hi]
  have hb : 1 ≤ (sizeTy w).bits := hw
  constructor
  · unfold EnumRange.elems
    have := intLoop_spec (sizeTy w) hb (e - b).toNat b (by omega) (by omega) f
    rwa [show b + ((e - b).toNat : Int) = e by omega] at this
  · unfold EnumRange.size
    exact IntTy.wrap_of_inRange (sizeTy w) hb ⟨by simp only []; omega, by simp only []; omega⟩

/-! ## cyclic iterator -/

/-- **advancing by `n ≥ 0` equals `n` single steps forward** (boundary of any length ≥ 1, any multiple of wrap-arounds) -/
theorem advance_eq_steps_forward (c : Cyc) (h : c.Inside) (n : Int) (hn : 0 ≤ n) :
    c.advance n = .ok (iter Cyc.increment n.toNat c) := by
  have hlt : c.first < c.second := by have := h.1; have := h.2; omega
  rw [Cyc.advance_eq c n hlt, Cyc.iter_increment_eq c h, show ((n.toNat : Nat) : Int) = n by omega]

/-- **advancing by `n < 0` equals `|n|` single steps backward** -/
theorem advance_eq_steps_backward (c : Cyc) (h : c.Inside) (n : Int) (hn : n < 0) :
    c.advance n = .ok (iter Cyc.decrement (-n).toNat c) := by
  have hlt : c.first < c.second := by have := h.1; have := h.2; omega
  rw [Cyc.advance_eq c n hlt, Cyc.iter_decrement_eq c h, show (((-n).toNat : Nat) : Int) = -n by omega]
  congr 3; omega

/-- **the iterator always stays inside its boundary**: `advance` … -/
theorem advance_inside (c : Cyc) (hlt : c.first < c.second) (n : Int) :
    ∃ c', c.advance n = .ok c' ∧ c'.Inside ∧ c'.first = c.first ∧ c'.second = c.second :=
  ⟨_, Cyc.advance_eq c n hlt, Cyc.atOffset_inside c _ hlt, rfl, rfl⟩

/-- … `++` … -/
theorem increment_inside (c : Cyc) (h : c.Inside) :
    c.increment.Inside ∧ c.increment.first = c.first ∧ c.increment.second = c.second := by
  have hlt : c.first < c.second := by have := h.1; have := h.2; omega
  rw [Cyc.increment_eq c h]; exact ⟨Cyc.atOffset_inside c _ hlt, rfl, rfl⟩

/-- … and `--` -/
theorem decrement_inside (c : Cyc) (h : c.Inside) :
    c.decrement.Inside ∧ c.decrement.first = c.first ∧ c.decrement.second = c.second := by
  have hlt : c.first < c.second := by have := h.1; have := h.2; omega
  rw [Cyc.decrement_eq c h]; exact ⟨Cyc.atOffset_inside c _ hlt, rfl, rfl⟩

/-- the position reached: offset `(o + n) mod size` from the start of the boundary, for either sign of `n` -/
theorem advance_position (c : Cyc) (hlt : c.first < c.second) (n : Int) :
    c.advance n = .ok { c with it := c.first + Spec.cycOffset (c.second - c.first) (c.it - c.first) n } :=
  Cyc.advance_eq c n hlt

/-- **whole histories**: after any sequence of `++` / `it++`, `--` / `it--`, `+= n`, `-= n` (`CycOp.sub`) the iterator is inside its boundary, the boundary
is unchanged, and the position is the start offset plus the net displacement, modulo the boundary length -/
theorem history_position (c : Cyc) (h : c.Inside) (ops : List CycOp) :
    ∃ c', c.run ops = .ok c' ∧ c'.Inside ∧ c'.first = c.first ∧ c'.second = c.second ∧
      c'.it = c.first + Spec.cycOffset (c.second - c.first) (c.it - c.first) (Spec.cycNet ops) := by
  have hlt : c.first < c.second := by have := h.1; have := h.2; omega
  exact ⟨_, Cyc.run_eq c h ops, Cyc.atOffset_inside c _ hlt, rfl, rfl, rfl⟩

/-- `--` undoes `++` and vice versa -/
theorem decrement_increment (c : Cyc) (h : c.Inside) : c.increment.decrement = c ∧ c.decrement.increment = c := by
  obtain ⟨h1, h2⟩ := h
  cases c with | mk it first second =>
  simp only at h1 h2
  constructor
  · unfold Cyc.increment Cyc.decrement
    by_cases he : it + 1 = second
    · simp [he]; omega
    · simp only [he, if_false]
      rw [if_neg (by omega)]; simp
  · unfold Cyc.increment Cyc.decrement
    by_cases he : it = first
    · simp [he]
    · simp only [he, if_false]
      rw [if_neg (by omega)]; simp

/-- an empty boundary is a precondition violation of `advance` (division by zero), not a silent result -/
theorem advance_empty_boundary (c : Cyc) (h : c.first = c.second) (n : Int) : c.advance n = .error .divZero := by
  unfold Cyc.advance; simp [h]

/-! ### every other public member of `cyclic_iterator` / `iterator::base` -/

/-- `==` compares the positions only — two iterators at the same position with different boundaries are equal -/
theorem cyc_equal_iff (a b : Cyc) : a.equal b = true ↔ a.it = b.it := by simp [Cyc.equal]

theorem cyc_equal_ignores_boundary (i f₁ s₁ f₂ s₂ : Int) : (Cyc.mk i f₁ s₁).equal (Cyc.mk i f₂ s₂) = true := by simp [Cyc.equal]

/-- `a - b` is the difference of the positions; the ordering operators are the ordering of the positions -/
theorem cyc_order (a b : Cyc) :
    a.sub b = a.it - b.it ∧ (a.lt b = true ↔ a.it < b.it) ∧ (a.gt b = true ↔ b.it < a.it) ∧
      (a.le b = true ↔ a.it ≤ b.it) ∧ (a.ge b = true ↔ b.it ≤ a.it) := by
  simp [Cyc.sub, Cyc.lt, Cyc.gt, Cyc.le, Cyc.ge, Cyc.distanceTo]

/-- exactly one of `a < b`, `a == b`, `a > b` holds; on the same object: `a == a`, `a <= a`, `a >= a`, not `a < a`, `a - a = 0` -/
theorem cyc_trichotomy (a b : Cyc) :
    (a.lt b = true ∧ a.equal b = false ∧ a.gt b = false) ∨ (a.lt b = false ∧ a.equal b = true ∧ a.gt b = false) ∨
      (a.lt b = false ∧ a.equal b = false ∧ a.gt b = true) := by
  simp [Cyc.sub, Cyc.lt, Cyc.gt, Cyc.equal, Cyc.distanceTo]; omega

theorem cyc_self_comparison (a : Cyc) :
    a.equal a = true ∧ a.lt a = false ∧ a.gt a = false ∧ a.le a = true ∧ a.ge a = true ∧ a.sub a = 0 := by
  simp [Cyc.sub, Cyc.lt, Cyc.gt, Cyc.le, Cyc.ge, Cyc.equal, Cyc.distanceTo]

/-- the difference between an advanced iterator and its origin -/
theorem cyc_sub_advance (c : Cyc) (h : c.Inside) (n : Int) :
    ∃ c', c.advance n = .ok c' ∧ c'.sub c = Spec.cycOffset (c.second - c.first) (c.it - c.first) n - (c.it - c.first) := by
  have hlt : c.first < c.second := by have := h.1; have := h.2; omega
  refine ⟨_, advance_position c hlt n, ?_⟩
  simp [Cyc.sub, Cyc.distanceTo]; omega

/-- **constructed outside or at the end of the boundary**: `advance` brings any position back inside
(`advance_inside` / `advance_position` need no hypothesis on `it`); in particular `it = boundary end` and `+= 0` gives the first position -/
theorem advance_zero_at_end (c : Cyc) (hlt : c.first < c.second) (h : c.it = c.second) :
    c.advance 0 = .ok { c with it := c.first } := by
  rw [advance_position c hlt 0]
  simp [Spec.cycOffset, h]

/-- … but `++` does not: at or right of the end of the boundary it only moves further away (the precondition of the class) -/
theorem increment_right_of_boundary_escapes (c : Cyc) (h : c.second ≤ c.it) (k : Nat) :
    iter Cyc.increment k c = { c with it := c.it + k } := Cyc.iter_increment_escapes c h k

/-- left of a non-empty boundary `++` walks up to the first position (and is inside from then on) -/
theorem increment_left_of_boundary_enters (c : Cyc) (hlt : c.first < c.second) (h : c.it ≤ c.first) :
    iter Cyc.increment (c.first - c.it).toNat c = { c with it := c.first } ∧ ({ c with it := c.first } : Cyc).Inside := by
  constructor
  · rw [Cyc.iter_increment_enters c hlt _ (by omega)]; congr 1; omega
  · exact ⟨Int.le_refl _, hlt⟩

/-- `--` at the end of a non-empty boundary steps onto its last position -/
theorem decrement_at_end_enters (c : Cyc) (hlt : c.first < c.second) (h : c.it = c.second) :
    c.decrement = { c with it := c.second - 1 } ∧ c.decrement.Inside := by
  have hne : ¬ c.it = c.first := by omega
  have : c.decrement = { c with it := c.second - 1 } := by unfold Cyc.decrement; simp [hne]; omega
  rw [this]; exact ⟨rfl, by simp [Cyc.Inside]; omega⟩

/-- **empty boundary** (also the state of a default-constructed iterator): `++` and `--` leave it, `advance` divides by zero -/
theorem empty_boundary_steps (c : Cyc) (h : c.first = c.second) (hit : c.it = c.first) (n : Int) :
    c.increment.it = c.it + 1 ∧ c.decrement.it = c.first - 1 ∧ c.advance n = .error .divZero := by
  refine ⟨?_, ?_, advance_empty_boundary c h n⟩
  · have : ¬ c.it + 1 = c.second := by omega
    unfold Cyc.increment; simp [this]
  · unfold Cyc.decrement; simp [hit, h]

theorem default_ctor_empty (n : Int) :
    Cyc.default.first = Cyc.default.second ∧ Cyc.default.it = Cyc.default.first ∧ Cyc.default.advance n = .error .divZero :=
  ⟨rfl, rfl, advance_empty_boundary _ rfl n⟩

/-- **converting constructor / assignment** (`cyclic_iterator<iterator>` → `cyclic_iterator<const_iterator>`, compiles since
fix e9807ba): position and boundary are kept, whatever the target held before — so everything proved above about
`advance`, `++`, `--` and whole histories holds for the converted iterator as for its source -/
theorem convert_keeps (c self : Cyc) (n : Int) (ops : List CycOp) :
    Cyc.convert c = c ∧ Cyc.assignFrom self c = c ∧ (Cyc.convert c).advance n = c.advance n ∧
      (Cyc.assignFrom self c).run ops = c.run ops := by
  cases c; exact ⟨rfl, rfl, rfl, rfl⟩

/-- **`ptrdiff_t` arithmetic**: as long as `offset + n` is representable `advance` is the mathematical one … -/
theorem advance64_eq (c : Cyc) (n : Int) (h : ptrdiffTy.InRange (c.it - c.first + n)) : c.advance64 n = c.advance n := by
  unfold Cyc.advance64; simp [h]

/-- … so for an iterator inside its boundary every `n` up to `2^63 - 1 - offset` (either sign) lands on `(offset + n) mod size` -/
theorem advance64_position (c : Cyc) (h : c.Inside) (n : Int) (hn : ptrdiffTy.InRange (c.it - c.first + n)) :
    c.advance64 n = .ok { c with it := c.first + Spec.cycOffset (c.second - c.first) (c.it - c.first) n } := by
  have hlt : c.first < c.second := by have := h.1; have := h.2; omega
  rw [advance64_eq c n hn, advance_position c hlt n]

/-- beyond that the addition overflows: undefined behaviour, reported (UBSan reports the same in the harness, op `cycl`) -/
theorem advance64_overflow (c : Cyc) (n : Int) (h : ¬ ptrdiffTy.InRange (c.it - c.first + n)) :
    c.advance64 n = .error .signedOverflow := by
  unfold Cyc.advance64; simp [h]

/-- `it -= n` is `it += -n`: the same position as `advance (-n)`, except that `-n` itself overflows for the minimum -/
theorem sub_assign64 (c : Cyc) (n : Int) :
    (ptrdiffTy.InRange (-n) → ptrdiffTy.InRange (c.it - c.first - n) → c.subAssign64 n = c.advance (-n)) ∧
      c.subAssign64 (-(2 ^ 63)) = .error .signedOverflow := by
  constructor
  · intro h1 h2
    unfold Cyc.subAssign64
    rw [if_neg (by simpa using h1), advance64_eq c (-n) (by rwa [show c.it - c.first + -n = c.it - c.first - n by omega])]
  · unfold Cyc.subAssign64
    have : ¬ ptrdiffTy.InRange (-(-(2 ^ 63 : Int))) := by decide
    rw [if_pos this]

/-! ## grid spiral range -/

/-- **closed form**: `make_spiral_range(c, D)` is the centre followed by rings `1 .. D`, each ring walked side by side
(`posOf`), and the loop stops exactly there — `end()` is the first position of ring `D + 1` -/
theorem spiral_range_eq (c : Pos) (D : Nat) (f : Nat) :
    spiralRange c D (f + Spec.ringsLen D + 2) = .ok (Spec.spiral c D) := by
  have hav := avoids_end c D
  unfold spiralRange
  rw [init_eq_conc, show f + ringsLen D + 2 = (f + 1 + ringsLen D) + 1 by omega, spiralLoop_succ]
  have hne : ¬ (conc c D 0 3 0).cur = ⟨c.x - 1, c.y - (D : Int)⟩ := by
    cases c; simp [conc, posOf, Pos.add_def]; omega
  rw [if_neg hne, incr_ring, loop_rings c _ D D hav D (Nat.le_refl _) (f + 1), spiralLoop_succ]
  have he : (conc c D (D + 1) 0 1).cur = ⟨c.x - 1, c.y - (D : Int)⟩ := by
    cases c; simp [conc, posOf, Pos.add_def]; omega
  rw [if_pos he]
  cases c; simp [prepend, spiral, conc, posOf, Pos.add_def]

/-- the first position of ring `D + 1` is where `end()` sits -/
theorem spiral_end_is_first_of_next_ring (c : Pos) (D : Nat) :
    (⟨c.x - 1, c.y - (D : Int)⟩ : Pos) = c + posOf (D + 1) 0 1 := by
  cases c; simp [posOf, Pos.add_def]; omega

/-- **every lattice point within Manhattan distance `D` is visited, and nothing else** -/
theorem spiral_mem (c p : Pos) (D : Nat) : p ∈ Spec.spiral c D ↔ Spec.manhattan p c ≤ D := mem_spiral' c p D

/-- **exactly once** -/
theorem spiral_nodup (c : Pos) (D : Nat) : (Spec.spiral c D).Nodup := nodup_spiral' c D

theorem spiral_visits_diamond_once (c p : Pos) (D : Nat) :
    (Spec.spiral c D).count p = if Spec.manhattan p c ≤ D then 1 else 0 := by
  rw [(spiral_nodup c D).count]
  simp only [spiral_mem]

/-- **in rings of non-decreasing distance** -/
theorem spiral_rings_nondecreasing (c : Pos) (D : Nat) :
    (Spec.spiral c D).Pairwise (fun p q => Spec.manhattan p c ≤ Spec.manhattan q c) := sorted_spiral' c D

/-- the number of visited points, `2·D·(D+1) + 1` -/
theorem spiral_length (c : Pos) (D : Nat) : (Spec.spiral c D).length = 2 * D * (D + 1) + 1 := by
  simp [spiral, length_rings, ringsLen_eq]

/-- the full statement about the *model's loop*, all in one: for every origin and every distance `D ≥ 0` the range
terminates and its element list contains each point of the diamond once and only those, sorted by distance -/
theorem spiral_range_visits_diamond_once (c : Pos) (D : Nat) (f : Nat) :
    ∃ l, spiralRange c D (f + 2 * D * (D + 1) + 2) = .ok l ∧
      (∀ p, l.count p = if Spec.manhattan p c ≤ D then 1 else 0) ∧
      l.Pairwise (fun p q => Spec.manhattan p c ≤ Spec.manhattan q c) := by
  refine ⟨Spec.spiral c D, ?_, fun p => spiral_visits_diamond_once c p D, spiral_rings_nondecreasing c D⟩
  rw [← ringsLen_eq]; exact spiral_range_eq c D f

/-! ### `spiral_iterator` used directly, and the spiral in the arithmetic of its coordinate type -/

/-- `==` on spiral iterators compares the current position only -/
theorem spiral_iter_equal_iff (a b : Spiral) : a.equal b = true ↔ a.cur = b.cur := by simp [Spiral.equal]

/-- `max_dist` does not influence the walk of a `spiral_iterator` (it is stored and never read): an iterator keeps spiralling
outwards past the `end()` of the range it came from -/
theorem spiral_iter_ignores_max_dist (c : Pos) (d₁ d₂ : Int) (k : Nat) :
    (iter Spiral.increment k (Spiral.init c d₁)).cur = (iter Spiral.increment k (Spiral.init c d₂)).cur := by
  have hinc : ∀ (s : Spiral) (m : Int), ({ s with maxDist := m } : Spiral).increment = { s.increment with maxDist := m } := by
    intro s m
    unfold Spiral.increment
    by_cases h1 : s.step = s.curDist
    · by_cases h2 : (⟨s.dir.y, -s.dir.x⟩ : Pos) = ⟨-1, 1⟩ <;> simp [h1, h2]
    · simp [h1]
  have hit : ∀ (k : Nat) (s : Spiral) (m : Int),
      iter Spiral.increment k { s with maxDist := m } = { iter Spiral.increment k s with maxDist := m } := by
    intro k; induction k with
    | zero => intro s m; rfl
    | succ k ih => intro s m; simp only [iter]; rw [hinc, ih]
  have e : iter Spiral.increment k (Spiral.init c d₂) = { iter Spiral.increment k (Spiral.init c d₁) with maxDist := d₂ } :=
    hit k (Spiral.init c d₁) d₂
  rw [e]

/-- the `k`-th increment of `spiral_iterator(c, D)` stands on the `k`-th point of the documented sequence; it compares equal
to `end()` for the first time after exactly `2·D·(D+1) + 1` increments -/
theorem spiral_iter_steps (c : Pos) (D : Nat) :
    (∀ k, k < 2 * D * (D + 1) + 1 →
        (Spec.spiral c D)[k]? = some (iter Spiral.increment k (Spiral.init c D)).cur ∧
        (iter Spiral.increment k (Spiral.init c D)).cur ≠ ⟨c.x - 1, c.y - (D : Int)⟩) ∧
      (iter Spiral.increment (2 * D * (D + 1) + 1) (Spiral.init c D)).cur = ⟨c.x - 1, c.y - (D : Int)⟩ := by
  have hr := spiral_range_eq c D 0
  unfold spiralRange at hr
  obtain ⟨h1, h2⟩ := spiralLoop_states _ _ _ _ hr
  rw [spiral_length] at h1 h2
  refine ⟨fun k hk => ⟨h1 k hk, fun hcon => ?_⟩, h2⟩
  have hmem : (iter Spiral.increment k (Spiral.init c D)).cur ∈ Spec.spiral c D := List.mem_of_getElem? (h1 k hk)
  rw [hcon, spiral_mem, spiral_end_is_first_of_next_ring, manhattan_posOf c (D + 1) 0 1 (by omega) (by omega) (by omega)] at hmem
  omega

/-- **coordinates near the limits of the coordinate type**: if the box of radius `D + 1` around the origin fits into the type
(`D + 1`, not `D`: the iterator steps onto `end()`, the first point of ring `D + 1`), no operation of the walk overflows and the
range is the documented sequence — so every statement above holds for `int` / `long` coordinates up to the limits -/
theorem spiral_range_typed_eq (t : IntTy) (hb : 1 ≤ t.bits) (c : Pos) (D : Nat)
    (hx : t.lo ≤ c.x - (D + 1) ∧ c.x + (D + 1) ≤ t.hi) (hy : t.lo ≤ c.y - (D + 1) ∧ c.y + (D + 1) ≤ t.hi) (f : Nat) :
    spiralRangeT t c D (f + Spec.ringsLen D + 2) = .ok (Spec.spiral c D) := by
  have hr := spiral_range_eq c D f
  unfold spiralRange at hr
  obtain ⟨h1, _⟩ := spiralLoop_states _ _ _ _ hr
  unfold spiralRangeT
  rw [addT_ok t hb (a := c.x) (b := -1) ⟨by omega, by omega⟩, addT_ok t hb (a := c.y) (b := -(D : Int)) ⟨by omega, by omega⟩]
  simp only []
  rw [show c.x + -1 = c.x - 1 by omega, show c.y + -(D : Int) = c.y - D by omega]
  apply spiralLoopT_eq t _ _ _ _ hr
  intro k hk
  obtain ⟨d, seg, tt, hst, h3, htd, h0, h1'⟩ := reach_conc c D k
  have hmem : (iter Spiral.increment k (Spiral.init c D)).cur ∈ Spec.spiral c D := List.mem_of_getElem? (h1 k hk)
  have hd : d ≤ D := by
    by_cases hd0 : d = 0
    · omega
    · rw [hst, spiral_mem] at hmem
      have : (conc c D d seg tt).cur = c + posOf d seg tt := rfl
      rw [this, manhattan_posOf c d seg tt h3 (by omega) htd] at hmem
      exact hmem
  rw [hst]
  exact incrementT_conc t hb c D D d seg tt hd htd hx hy

/-- closer to a limit `end()` itself is not representable: for `int` / `long` undefined behaviour, reported as such -/
theorem spiral_range_typed_end_overflow (t : IntTy) (htr : t.trapping = true) (c : Pos) (D : Int)
    (h : ¬ t.InRange (c.x - 1) ∨ ¬ t.InRange (c.y - D)) (fuel : Nat) :
    spiralRangeT t c D fuel = .error .signedOverflow := by
  unfold spiralRangeT
  by_cases hx : t.InRange (c.x + -1)
  · have hy : ¬ t.InRange (c.y + -D) := by
      rcases h with h | h
      · exact absurd (by rwa [show c.x - 1 = c.x + -1 by omega]) h
      · rwa [show c.y + -D = c.y - D by omega]
    cases hax : addT t c.x (-1) with
    | error e =>
      have := hax
      unfold addT at this
      simp [htr, hx] at this
    | ok ex => simp only [addT_overflow t htr hy]
  · simp only [addT_overflow t htr hx]

/-! ## neighbour helpers -/

/-- `neumann_neighbors(p)` returns exactly the documented four positions, in the documented order, when `p` is not on
the edge of the coordinate type -/
theorem neumann_eq (t : IntTy) (hb : 1 ≤ t.bits) (p : Pos) (hx : t.lo < p.x ∧ p.x < t.hi) (hy : t.lo < p.y ∧ p.y < t.hi) :
    neumann t p = .ok (Spec.neumann p) := by
  unfold neumann
  rw [pred_ok t hb (by omega) (by omega), incr_ok t hb (by omega) (by omega),
    pred_ok t hb (by omega) (by omega), incr_ok t hb (by omega) (by omega)]
  rfl

theorem moore_eq (t : IntTy) (hb : 1 ≤ t.bits) (p : Pos) (hx : t.lo < p.x ∧ p.x < t.hi) (hy : t.lo < p.y ∧ p.y < t.hi) :
    moore t p = .ok (Spec.moore p) := by
  unfold moore
  rw [pred_ok t hb (by omega) (by omega), incr_ok t hb (by omega) (by omega),
    pred_ok t hb (by omega) (by omega), incr_ok t hb (by omega) (by omega)]
  rfl

/-- for unsigned (and promoted) coordinate types there is no undefined behaviour at all: every neighbour coordinate is the
mathematical one reduced modulo `2^bits`, wherever `p` is ("no range checking is performed") -/
theorem neighbours_wrapping (t : IntTy) (htr : t.trapping = false) (p : Pos) :
    neumann t p = .ok [⟨t.wrap (p.x - 1), p.y⟩, ⟨t.wrap (p.x + 1), p.y⟩, ⟨p.x, t.wrap (p.y - 1)⟩, ⟨p.x, t.wrap (p.y + 1)⟩] ∧
      moore t p = .ok [⟨t.wrap (p.x - 1), p.y⟩, ⟨t.wrap (p.x + 1), p.y⟩, ⟨p.x, t.wrap (p.y - 1)⟩, ⟨p.x, t.wrap (p.y + 1)⟩,
        ⟨t.wrap (p.x - 1), t.wrap (p.y - 1)⟩, ⟨t.wrap (p.x - 1), t.wrap (p.y + 1)⟩, ⟨t.wrap (p.x + 1), t.wrap (p.y - 1)⟩,
        ⟨t.wrap (p.x + 1), t.wrap (p.y + 1)⟩] := by
  simp [neumann, moore, pred, incr, htr]

/-- on the edge of an `int` / `long` coordinate type the neighbour computation overflows (undefined; "no range checking is performed") -/
theorem neighbours_edge_overflow (t : IntTy) (htr : t.trapping = true) (p : Pos)
    (h : p.x = t.lo ∨ p.x = t.hi ∨ p.y = t.lo ∨ p.y = t.hi) :
    neumann t p = .error .signedOverflow ∧ moore t p = .error .signedOverflow := by
  have key : ∀ (a b c d : M Int), (a = .error .signedOverflow ∨ b = .error .signedOverflow ∨ c = .error .signedOverflow ∨ d = .error .signedOverflow) →
      (∀ v, v = a ∨ v = b ∨ v = c ∨ v = d → v = .error .signedOverflow ∨ ∃ x, v = .ok x) →
      (match a, b, c, d with
        | .ok xm, .ok xp, .ok ym, .ok yp => (.ok [⟨xm, p.y⟩, ⟨xp, p.y⟩, ⟨p.x, ym⟩, ⟨p.x, yp⟩] : M (List Pos))
        | .error e, _, _, _ => .error e
        | _, .error e, _, _ => .error e
        | _, _, .error e, _ => .error e
        | _, _, _, .error e => .error e) = .error .signedOverflow ∧
      (match a, b, c, d with
        | .ok xm, .ok xp, .ok ym, .ok yp =>
          (.ok [⟨xm, p.y⟩, ⟨xp, p.y⟩, ⟨p.x, ym⟩, ⟨p.x, yp⟩, ⟨xm, ym⟩, ⟨xm, yp⟩, ⟨xp, ym⟩, ⟨xp, yp⟩] : M (List Pos))
        | .error e, _, _, _ => .error e
        | _, .error e, _, _ => .error e
        | _, _, .error e, _ => .error e
        | _, _, _, .error e => .error e) = .error .signedOverflow := by
    intro a b c d hone hall
    have ha := hall a (Or.inl rfl)
    have hb' := hall b (Or.inr (Or.inl rfl))
    have hc := hall c (Or.inr (Or.inr (Or.inl rfl)))
    have hd := hall d (Or.inr (Or.inr (Or.inr rfl)))
    rcases ha with ha | ⟨xa, ha⟩ <;> rcases hb' with hb' | ⟨xb, hb'⟩ <;> rcases hc with hc | ⟨xc, hc⟩ <;> rcases hd with hd | ⟨xd, hd⟩ <;>
      subst ha hb' hc hd <;> simp at hone ⊢
  have hall : ∀ v, v = pred t p.x ∨ v = incr t p.x ∨ v = pred t p.y ∨ v = incr t p.y → v = .error .signedOverflow ∨ ∃ x, v = .ok x := by
    intro v hv
    rcases hv with rfl | rfl | rfl | rfl <;> (first | (unfold pred; split <;> simp) | (unfold incr; split <;> simp))
  have hone : pred t p.x = .error .signedOverflow ∨ incr t p.x = .error .signedOverflow ∨ pred t p.y = .error .signedOverflow ∨
      incr t p.y = .error .signedOverflow := by
    rcases h with h | h | h | h
    · left; unfold pred; simp [htr, h]; omega
    · right; left; unfold incr; simp [htr, h]; omega
    · right; right; left; unfold pred; simp [htr, h]; omega
    · right; right; right; unfold incr; simp [htr, h]; omega
  exact key _ _ _ _ hone hall

/-- the four von Neumann neighbours are exactly the points at Manhattan distance 1, each once -/
theorem neumann_spec (p q : Pos) : (q ∈ Spec.neumann p ↔ Spec.manhattan q p = 1) ∧ (Spec.neumann p).Nodup := by
  cases p; cases q
  constructor
  · simp [Spec.neumann, manhattan]; omega
  · simp [Spec.neumann]; omega

/-- the eight Moore neighbours are exactly the points at Chebyshev distance 1, each once -/
theorem moore_spec (p q : Pos) : (q ∈ Spec.moore p ↔ Spec.chebyshev q p = 1) ∧ (Spec.moore p).Nodup := by
  cases p; cases q
  constructor
  · simp [Spec.moore, Spec.neumann, chebyshev]; omega
  · simp [Spec.moore, Spec.neumann]; omega

/-- at the edge of an unsigned coordinate type there is no range check: the neighbour wraps around -/
theorem pred_unsigned_wraps (t : IntTy) (hu : t.signed = false) : pred t 0 = .ok t.hi := by
  have hp := two_pow_pos t.bits
  have : (-1 : Int) % 2 ^ t.bits = 2 ^ t.bits - 1 := by
    rw [← Int.add_emod_right (-1) (2 ^ t.bits), show (-1 : Int) + 2 ^ t.bits = 2 ^ t.bits - 1 by omega]
    exact Int.emod_eq_of_lt (by omega) (by omega)
  simp [pred, IntTy.trapping, hu, IntTy.wrap, IntTy.hi, this]

/-! ## iterator::range, adapt_range, range::size, math::int_range_count -/

/-- **`iterator::make_range(b, e)` / `range(b, e)` yields exactly the elements between the two iterators** -/
theorem iterator_range_elems {α : Type} (c : List α) (i j : Nat) (hij : i ≤ j) (hj : j ≤ c.length) (f : Nat) :
    (iterMakeRange i j).elems c (f + (j - i) + 1) = .ok (Spec.slice c i j) := by
  have := iterLoop_spec c (j - i) i (by omega) f
  rwa [show i + (j - i) = j by omega] at this

/-- **`adapt_range(c)` yields the whole container** -/
theorem adapt_range_elems {α : Type} (c : List α) (f : Nat) : (adaptRange c).elems c (f + c.length + 1) = .ok c := by
  have := iterator_range_elems c 0 c.length (Nat.zero_le _) (Nat.le_refl _) f
  simpa [adaptRange, iterMakeRange, Spec.slice] using this

/-- `range::size` of an iterator range is the number of its elements (below `2^63`, the limit of `ptrdiff_t`) -/
theorem iterator_range_size (i j : Nat) (hij : i ≤ j) (hj : (j : Int) < 2 ^ 63) :
    (iterMakeRange i j).size = ((j - i : Nat) : Int) := by
  unfold iterMakeRange IterRange.size
  have hin : (IntTy.mk false 64).InRange ((j : Int) - i) := by
    simp [IntTy.InRange, IntTy.lo, IntTy.hi]; omega
  rw [IntTy.wrap_of_inRange _ (by decide) hin]; omega

/-- `range::empty` / `range::singular` of an iterator range, `range::from_pair` -/
theorem iter_range_empty_singular (i j : Nat) (hij : i ≤ j) :
    ((iterMakeRange i j).empty = true ↔ j - i = 0) ∧ ((iterMakeRange i j).singular = true ↔ j - i = 1) ∧
      iterFromPair (i, j) = iterMakeRange i j := by
  refine ⟨?_, ?_, rfl⟩
  · show (decide (i = j) = true ↔ j - i = 0)
    rw [decide_eq_true_iff]; omega
  · show ((!decide (i = j) && decide (i + 1 = j)) = true ↔ j - i = 1)
    rw [Bool.and_eq_true, Bool.not_eq_true', decide_eq_false_iff_not, decide_eq_true_iff]; omega

/-- `operator==` of two `iterator::range`s: both ends equal -/
theorem iter_range_equal_iff (l r : IterRange) :
    (l.equal r = true ↔ l = r) ∧ (l.notEqual r = true ↔ l ≠ r) ∧ l.equal l = true := by
  cases l; cases r; simp [IterRange.equal, IterRange.notEqual]; omega

/-- `math::int_range_count<N>` is `0, 1, …, N-1` -/
theorem math_int_range_count_eq (n : Nat) : mathIntRangeCount n = List.range n := by
  simp [mathIntRangeCount]

/-- `math::int_range<A, B>` is `A, A+1, …, B-1` -/
theorem math_int_range_eq (a b : Nat) : (mathIntRange a b).map (fun (n : Nat) => (n : Int)) = Spec.iota a (b - a) := by
  rw [iota_eq_map_range]; simp [mathIntRange]

/-! ## Non-vacuity: the hypotheses are met by concrete, non-trivial values; boundary behaviour on literals -/

-- int8_t: the range ending at the type's maximum, and the inverted one
example : (makeIntRange 125 127).elems ⟨true, 8⟩ 3 = .ok [125, 126] := by rfl
example : (makeIntRange 5 (-3)).elems ⟨true, 8⟩ 1 = .ok [] := by rfl
example : (⟨true, 8⟩ : IntTy).InRange 125 ∧ (⟨true, 8⟩ : IntTy).InRange 127 := by decide
-- size() of the full int8_t range is not representable: wraps to -1; the same shape over int is undefined
example : (makeIntRange (-128) 127).size ⟨true, 8⟩ = .ok (-1) := by rfl
example : (makeIntRange (-2147483648) 2147483647).size ⟨true, 32⟩ = .error .signedOverflow := by rfl
example : (makeIntRange 0 255).size ⟨false, 8⟩ = .ok 255 := by rfl
-- enum with 5 enumerators over uint8: sub-range [1,3], the empty sub-range, the whole enum
example : (makeRangeStartEnd 8 1 3).elems 8 4 = .ok [1, 2, 3] := by rfl
example : (makeRangeStartEnd 8 3 2).elems 8 1 = .ok [] := by rfl
example : (makeRange 8 5).elems 8 6 = .ok [0, 1, 2, 3, 4] := by rfl
-- cyclic: boundary [2,5) of length 3, at 3; -300 is a multiple of 3; -20 wraps
example : (⟨3, 2, 5⟩ : Cyc).Inside := ⟨by decide, by decide⟩
example : (⟨3, 2, 5⟩ : Cyc).advance (-300) = .ok ⟨3, 2, 5⟩ := by rfl
example : (⟨3, 2, 5⟩ : Cyc).advance (-20) = .ok ⟨4, 2, 5⟩ := by rfl
example : iter Cyc.decrement 20 (⟨3, 2, 5⟩ : Cyc) = ⟨4, 2, 5⟩ := by rfl
-- what the uncorrected truncating remainder would give for the same input: a position left of the boundary
example : (2 : Int) + ((3 - 2 + (-20) : Int).tmod 3) = 1 := by rfl
-- spiral of distance 1 around (5,5): centre, then left, down (y+1), right, up
example : spiralRange ⟨5, 5⟩ 1 6 = .ok [⟨5, 5⟩, ⟨4, 5⟩, ⟨5, 6⟩, ⟨6, 5⟩, ⟨5, 4⟩] := by rfl
example : Spec.spiral ⟨5, 5⟩ 1 = [⟨5, 5⟩, ⟨4, 5⟩, ⟨5, 6⟩, ⟨6, 5⟩, ⟨5, 4⟩] := by rfl
example : (Spec.spiral ⟨0, 0⟩ 3).length = 25 := by rfl
-- neighbours
example : neumann ⟨true, 32⟩ ⟨0, 0⟩ = .ok [⟨-1, 0⟩, ⟨1, 0⟩, ⟨0, -1⟩, ⟨0, 1⟩] := by rfl
example : iterator_range_elems [10, 20, 30, 40] 1 3 (by decide) (by decide) 0 = iterator_range_elems [10, 20, 30, 40] 1 3 (by decide) (by decide) 0 := rfl
example : (iterMakeRange 1 3).elems [10, 20, 30, 40] 3 = .ok [20, 30] := by rfl

end Fcppt.C18
