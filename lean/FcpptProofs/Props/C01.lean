import FcpptModel.Model.C01
import FcpptModel.Spec.C01
import FcpptModel.Model.C01.Env
import FcpptProofs.C01.Stream
import FcpptProofs.C01.Path
import FcpptProofs.C01.Vector
import FcpptProofs.Props.C01.Scalar
import FcpptProofs.Props.C06.Basic
import FcpptProofs.Props.C06.Arith
import FcpptProofs.Props.C06.Log2
import FcpptProofs.Props.C06.Pow
import FcpptProofs.Props.C06.NextPow
import FcpptProofs.Props.C06.Trunc_u8
import FcpptProofs.Props.C06.Trunc_u16
import FcpptProofs.Props.C06.Trunc_u32
import FcpptProofs.Props.C06.Trunc_u64
import FcpptProofs.Props.C06.Trunc_i8
import FcpptProofs.Props.C06.Trunc_i16
import FcpptProofs.Props.C06.Trunc_i32
import FcpptProofs.Props.C06.Trunc_i64
set_option linter.unusedSimpArgs false
set_option linter.unusedVariables false
/-!
# C01 — the safe API is total

`f args = .ok r` in a model means: no out-of-bounds access, no invalid shift, no signed overflow,
no empty-optional dereference, no division by zero, terminated (`Fault.fuel` not reached) and no
exception.  Part 1 are the container / string / argument helpers modelled in `Model/C01.lean`;
part 2 states totality of the *translated* scalar helpers (regenerated from /repo on every run)
under exactly the guard "the exact result is representable" — each is a corollary of the C06
correctness theorem for that instantiation, restated here in the `∃ r, f x = .ok r` form of C01
for one representative width per function family plus the widths where a defect was repaired
(`Props/C01/Scalar.lean` has every remaining instantiation).  Part 3: the io helpers on streams in
every state (`Model/C01/Stream.lean`), part 4: the path helpers (`Model/C01/Path.lean`), part 5:
helpers fed by the environment (`Model/C01/Env.lean`), part 6: the component-wise vector wrappers of the
translated scalar helpers (`Model/C01/Vector.lean`).
-/
namespace Fcppt.C01
open Fcppt

/-! ## Part 1: container, string and argument helpers -/

theorem readAt_lt {α} (c : List α) (i : Nat) (h : i < c.length) : readAt c i = .ok c[i] := by
  simp [readAt, List.getElem?_eq_getElem h]

/-- at_optional never faults and is exactly `c[i]?` -/
theorem atOptional_total {α} (c : List α) (i : Nat) : atOptional c i = .ok c[i]? := by
  unfold atOptional
  by_cases h : i < c.length
  · simp [h, readAt_lt c i h, List.getElem?_eq_getElem h]; rfl
  · simp [h, List.getElem?_eq_none (Nat.le_of_not_lt h)]; rfl

theorem maybeFront_total {α} (c : List α) : maybeFront c = .ok c.head? := by
  cases c with
  | nil => rfl
  | cons x xs => simp [maybeFront, readAt]; rfl

theorem maybeBack_total {α} (c : List α) : maybeBack c = .ok c.getLast? := by
  cases c with
  | nil => rfl
  | cons x xs =>
    have h : (x :: xs).length - 1 < (x :: xs).length := by simp
    simp only [maybeBack, List.isEmpty_cons, Bool.false_eq_true, ↓reduceIte, readAt_lt _ _ h]
    rw [List.getLast?_eq_getElem?]
    simp [List.getElem?_eq_getElem h]; rfl

/-- pop_back: removes and returns the last element, `none` and unchanged on empty; never faults -/
theorem popBack_total {α} (c : List α) : popBack c = .ok (c.getLast?, c.dropLast) := by
  cases c with
  | nil => rfl
  | cons x xs =>
    have h : (x :: xs).length - 1 < (x :: xs).length := by simp
    simp only [popBack, List.isEmpty_cons, Bool.not_false, ↓reduceIte, readAt_lt _ _ h]
    rw [List.getLast?_eq_getElem?]
    simp [List.getElem?_eq_getElem h]; rfl

theorem popFront_total {α} (c : List α) : popFront c = .ok (c.head?, c.drop 1) := by
  cases c with
  | nil => rfl
  | cons x xs => simp [popFront, readAt]; rfl

/-- find_opt: the mapped value of the first pair with that key; dereferences only a found iterator -/
theorem findOpt_total {κ ν} [BEq κ] (m : List (κ × ν)) (k : κ) :
    findOpt m k = .ok ((m.find? (fun p => p.1 == k)).map (·.2)) := by
  unfold findOpt
  cases h : m.findIdx? (fun p => p.1 == k) with
  | none =>
    have : m.find? (fun p => p.1 == k) = none := by
      rw [List.findIdx?_eq_none_iff] at h
      rw [List.find?_eq_none]; intro x hx; simpa using h x hx
    simp [this]; rfl
  | some i =>
    have hi := List.findIdx?_eq_some_iff_getElem.mp h
    obtain ⟨hlt, hp, hmin⟩ := hi
    have hf : m.find? (fun p => p.1 == k) = some m[i] := by
      rw [List.find?_eq_some_iff_getElem]
      exact ⟨hp, i, hlt, rfl, fun j hj => by simpa using hmin j hj⟩
    simp [readAt_lt m i hlt, hf]; rfl

private theorem mapM_range_readAt {α} (src : List α) :
    ∀ n, n ≤ src.length → (List.range n).mapM (readAt src) = (Except.ok (src.take n) : M (List α))
  | 0, _ => rfl
  | n + 1, h => by
    have hn : n < src.length := by omega
    rw [List.range_succ, List.mapM_append, mapM_range_readAt src n (by omega)]
    simp only [List.mapM_cons, List.mapM_nil, readAt_lt src n hn]
    show Except.ok (List.take n src ++ [src[n]]) = _
    rw [List.take_succ, List.getElem?_eq_getElem hn]; rfl

/-- array::from_range<Size>: exactly the source iff it has `Size` elements; every read is in range -/
theorem fromRange_total {α} (size : Nat) (src : List α) :
    fromRange size src = .ok (if src.length = size then some src else none) := by
  unfold fromRange
  by_cases h : src.length = size
  · subst h
    simp only [↓reduceIte, mapM_range_readAt src src.length (Nat.le_refl _), List.take_length]; rfl
  · simp [h]; rfl

/-- runtime_index: calls `f` with the index iff it is below `max`, terminates within `max + 1` steps -/
theorem runtimeIndex_total {β} (max i : Nat) (f : Nat → β) (fail : β) :
    runtimeIndex max i f fail = .ok (if i < max then f i else fail) := by
  unfold runtimeIndex
  have : ∀ fuel cur, cur ≤ max → cur ≤ i → max + 1 ≤ fuel + cur →
      runtimeIndexFrom max f fail i fuel cur = .ok (if i < max then f i else fail) := by
    intro fuel
    induction fuel with
    | zero => intro cur h1 _ h3; omega
    | succ fuel ih =>
      intro cur h1 h2 h3
      unfold runtimeIndexFrom
      by_cases hc : cur = max
      · subst hc
        have : ¬ i < cur := by omega
        simp [this]; rfl
      · by_cases hi : i = cur
        · subst hi
          have : i < max := by omega
          simp [hc, this]; rfl
        · simp only [hc, ↓reduceIte, hi]
          exact ih (cur + 1) (by omega) (by omega) (by omega)
  exact this (max + 1) 0 (by omega) (by omega) (by omega)

/-- enum_::from_string: the enumerator whose name equals the string, first match, else none -/
theorem fromString_spec (names : List String) (s : String) :
    fromString names s = (names.findIdx? (· == s)) := by
  unfold fromString; cases names.findIdx? (· == s) <;> rfl

theorem fromString_some (names : List String) (s : String) (i : Nat) (h : fromString names s = some i) :
    i < names.length ∧ names[i]? = some s := by
  rw [fromString_spec] at h
  obtain ⟨hlt, hp, _⟩ := List.findIdx?_eq_some_iff_getElem.mp h
  exact ⟨hlt, by simp [List.getElem?_eq_getElem hlt]; simpa using hp⟩

/-- is_flag (repaired) is total on every string — including the lone "-" on which the unrepaired
version reads past the end -/
theorem isFlag_total (s : Str) : ∃ r, isFlag s = .ok r := by
  unfold isFlag
  cases s with
  | nil => exact ⟨none, rfl⟩
  | cons c0 t =>
    cases t with
    | nil =>
      by_cases h : isDash c0 <;> simp [readAt, h, pure, Except.pure, bind, Except.bind]
    | cons c1 t2 =>
      by_cases h : isDash c0 <;> by_cases h1 : isDash c1 <;>
        simp [readAt, h, h1, pure, Except.pure, bind, Except.bind]

theorem isFlag_spec (s : Str) :
    isFlag s = .ok (match s with
      | [] => none
      | c0 :: t => if !isDash c0 then none else
          match t with
          | [] => some (true, [])
          | c1 :: t2 => if isDash c1 then some (false, t2) else some (true, c1 :: t2)) := by
  unfold isFlag
  cases s with
  | nil => rfl
  | cons c0 t =>
    cases t with
    | nil => by_cases h : isDash c0 <;> simp [readAt, h, pure, Except.pure, bind, Except.bind]
    | cons c1 t2 =>
      by_cases h : isDash c0 <;> by_cases h1 : isDash c1 <;>
        simp [readAt, h, h1, pure, Except.pure, bind, Except.bind]

/-- the defect repaired by 2723549: the old is_flag faults (reads `*end()`) on exactly the lone dash -/
example : isFlagOld ['-'] = .error .oob ∧ isFlag ['-'] = .ok (some (true, [])) := ⟨rfl, rfl⟩

/-- next_arg is total (terminates within `size + 1` iterations, reads only inside the vector) and
its result is the index of an argument that is not a flag. -/
theorem nextArg_total (args : List Str) (names : List (Str × Bool)) :
    ∃ r, nextArg args names = .ok r ∧
      (∀ i, r = some i → i < args.length ∧ ∃ a, args[i]? = some a ∧ isFlag a = .ok none) := by
  unfold nextArg
  have : ∀ fuel cur, cur ≤ args.length → args.length + 1 ≤ fuel + cur →
      ∃ r, nextArgFrom args names fuel cur = .ok r ∧
        (∀ i, r = some i → i < args.length ∧ ∃ a, args[i]? = some a ∧ isFlag a = .ok none) := by
    intro fuel
    induction fuel with
    | zero => intro cur h1 h2; omega
    | succ fuel ih =>
      intro cur h1 h2
      unfold nextArgFrom
      by_cases hc : cur = args.length
      · exact ⟨none, by simp [hc]; rfl, by simp⟩
      · have hlt : cur < args.length := by omega
        simp only [hc, ↓reduceIte, readAt_lt args cur hlt]
        obtain ⟨r, hr⟩ := isFlag_total args[cur]
        cases r with
        | none =>
          refine ⟨some cur, by simp [hr, bind, Except.bind]; rfl, ?_⟩
          intro i hi
          cases hi
          exact ⟨hlt, args[cur], by simp [List.getElem?_eq_getElem hlt], hr⟩
        | some fl =>
          obtain ⟨sh, nm⟩ := fl
          simp only [hr, bind, Except.bind]
          by_cases hskip : cur + 1 ≠ args.length ∧ names.contains (nm, sh) = true
          · simp only [hskip, and_self, ↓reduceIte, ne_eq, not_false_eq_true]
            exact ih (cur + 1 + 1) (by omega) (by omega)
          · simp only [hskip, ↓reduceIte]
            exact ih (cur + 1) (by omega) (by omega)
  exact this (args.length + 1) 0 (by omega) (by omega)

theorem isFlag_eq_spec (s : Str) : isFlag s = .ok (isFlagSpec s) := by
  rw [isFlag_spec]; unfold isFlagSpec; rfl

theorem nextArgFrom_eq_spec (args : List Str) (names : List (Str × Bool)) :
    ∀ fuel cur, cur ≤ args.length → args.length + 1 ≤ fuel + cur →
      nextArgFrom args names fuel cur = .ok (nextArgSpec names (args.drop cur) cur) := by
  intro fuel
  induction fuel with
  | zero => intro cur h1 h2; omega
  | succ fuel ih =>
    intro cur h1 h2
    unfold nextArgFrom
    by_cases hc : cur = args.length
    · simp [hc, nextArgSpec]; rfl
    · have hlt : cur < args.length := by omega
      have hdrop : args.drop cur = args[cur] :: args.drop (cur + 1) := by
        rw [List.drop_eq_getElem_cons hlt]
      simp only [hc, ↓reduceIte, readAt_lt args cur hlt, hdrop, bind, Except.bind, isFlag_eq_spec]
      unfold nextArgSpec
      cases hf : isFlagSpec args[cur] with
      | none => rfl
      | some fl =>
        obtain ⟨sh, nm⟩ := fl
        simp only
        by_cases hend : cur + 1 = args.length
        · have hnil : args.drop (cur + 1) = [] := by simp [hend]
          simp only [hend, ne_eq, not_true_eq_false, false_and, ↓reduceIte, hnil]
          rw [ih args.length (by omega) (by omega)]
          simp [nextArgSpec]
        · have hlt2 : cur + 1 < args.length := by omega
          have hdrop2 : args.drop (cur + 1) = args[cur + 1] :: args.drop (cur + 1 + 1) := by
            rw [List.drop_eq_getElem_cons hlt2]
          by_cases hn : names.contains (nm, sh) = true
          · simp only [ne_eq, hend, not_false_eq_true, hn, and_self, ↓reduceIte, hdrop2]
            exact ih (cur + 1 + 1) (by omega) (by omega)
          · simp only [ne_eq, hend, not_false_eq_true, hn, and_false, ↓reduceIte, hdrop2, Bool.false_eq_true]
            rw [ih (cur + 1) (by omega) (by omega), hdrop2]

/-- next_arg IS its specification: the first argument that is neither a flag nor an option's value -/
theorem nextArg_eq_spec (args : List Str) (names : List (Str × Bool)) :
    nextArg args names = .ok (nextArgSpec names args 0) := by
  unfold nextArg
  simpa using nextArgFrom_eq_spec args names (args.length + 1) 0 (by omega) (by omega)

example : nextArgSpec [("x".toList, true)] ["-x".toList, "v".toList, "--".toList, "a".toList] 0 = some 3 ∧
    nextArgSpec [("x".toList, true)] ["-x".toList] 0 = none := by decide

/-- read_chars hands over exactly the requested prefix or nothing; never more than was read -/
theorem readChars_spec (stream : List Nat) (count : Nat) :
    (readCharsSpec stream count = none ↔ stream.length < count) ∧
    (∀ r, readCharsSpec stream count = some r → r.length = count ∧ r = stream.take count) := by
  unfold readCharsSpec
  by_cases h : count ≤ stream.length
  · simp [h] <;> omega
  · simp [h] <;> omega

/-- file_size: whatever the operating system answers, the result is an optional (no exception) -/
theorem fileSize_total (os : Option Nat) : fileSize os = none ∨ ∃ n, fileSize os = some n ∧ os = some n := by
  unfold fileSize
  cases os with
  | none => exact Or.inl rfl
  | some n => by_cases h : n = 2 ^ 64 - 1 <;> simp [h]

/-! ## Part 2: the translated scalar helpers are total under "exact result representable"

Each line is the C06 correctness theorem of that instantiation, in the totality form. -/

open Fcppt.Gen Fcppt.C06

theorem log2_u32_total (x : Int) (h : IntTy.u32.InRange x) (hx : 0 < x) : ∃ r, log2_u32 x = .ok r :=
  let ⟨q, hq, _⟩ := log2_u32_correct x h hx; ⟨q, hq⟩
theorem log2_u64_total (x : Int) (h : IntTy.u64.InRange x) (hx : 0 < x) : ∃ r, log2_u64 x = .ok r :=
  let ⟨q, hq, _⟩ := log2_u64_correct x h hx; ⟨q, hq⟩
theorem log2_u8_total (x : Int) (h : IntTy.u8.InRange x) (hx : 0 < x) : ∃ r, log2_u8 x = .ok r :=
  let ⟨q, hq, _⟩ := log2_u8_correct x h hx; ⟨q, hq⟩
theorem next_power_of_2_u32_total (x : Int) (h : IntTy.u32.InRange x) (hr : x ≤ 2147483648) :
    ∃ r, next_power_of_2_u32 x = .ok r :=
  let ⟨q, hq, _⟩ := next_power_of_2_u32_correct x h hr; ⟨q, hq⟩
theorem next_power_of_2_u8_total (x : Int) (h : IntTy.u8.InRange x) (hr : x ≤ 128) :
    ∃ r, next_power_of_2_u8 x = .ok r :=
  let ⟨q, hq, _⟩ := next_power_of_2_u8_correct x h hr; ⟨q, hq⟩
theorem ceil_div_u32_total (a b : Int) (ha : IntTy.u32.InRange a) (hb : IntTy.u32.InRange b) :
    ∃ r, ceil_div_u32 a b = .ok r := by
  by_cases h : b = 0
  · subst h; exact ⟨none, ceil_div_u32_zero a⟩
  · obtain ⟨q, hq, _⟩ := ceil_div_u32_correct a b ha hb h; exact ⟨some q, hq⟩
theorem ceil_div_signed_i32_total (a b : Int) (ha : IntTy.i32.InRange a) (hb : IntTy.i32.InRange b)
    (hrep : ∀ q, IsCeilDiv a b q → IntTy.i32.InRange q) : ∃ r, ceil_div_signed_i32 a b = .ok r := by
  by_cases h : b = 0
  · subst h; exact ⟨none, ceil_div_signed_i32_zero a⟩
  · obtain ⟨q, hq, _⟩ := ceil_div_signed_i32_correct a b ha hb h hrep; exact ⟨some q, hq⟩
theorem ceil_div_signed_i64_total (a b : Int) (ha : IntTy.i64.InRange a) (hb : IntTy.i64.InRange b)
    (hrep : ∀ q, IsCeilDiv a b q → IntTy.i64.InRange q) : ∃ r, ceil_div_signed_i64 a b = .ok r := by
  by_cases h : b = 0
  · subst h; exact ⟨none, ceil_div_signed_i64_zero a⟩
  · obtain ⟨q, hq, _⟩ := ceil_div_signed_i64_correct a b ha hb h hrep; exact ⟨some q, hq⟩
theorem div_i32_total (a b : Int) (ha : IntTy.i32.InRange a) (hb : IntTy.i32.InRange b)
    (hr : b ≠ 0 → IntTy.i32.InRange (Int.tdiv a b)) : ∃ r, div_i32 a b = .ok r := by
  by_cases h : b = 0
  · subst h; exact ⟨none, div_i32_zero a⟩
  · exact ⟨_, div_i32_correct a b ha hb h (hr h)⟩
theorem mod_u8_total (a b : Int) (ha : IntTy.u8.InRange a) (hb : IntTy.u8.InRange b) : ∃ r, mod_u8 a b = .ok r := by
  by_cases h : b = 0
  · subst h; exact ⟨none, mod_u8_zero a⟩
  · exact ⟨_, mod_u8_correct a b ha hb h⟩
theorem clamp_i16_total (v lo hi : Int) (hv : IntTy.i16.InRange v) (hl : IntTy.i16.InRange lo) (hh : IntTy.i16.InRange hi) :
    ∃ r, clamp_i16 v lo hi = .ok r := ⟨_, clamp_i16_correct v lo hi hv hl hh⟩
theorem diff_u8_total (a b : Int) (ha : IntTy.u8.InRange a) (hb : IntTy.u8.InRange b)
    (hr : IntTy.u8.InRange (if a < b then b - a else a - b)) : ∃ r, diff_u8 a b = .ok r :=
  ⟨_, diff_u8_correct a b ha hb hr⟩
theorem diff_i32_total (a b : Int) (ha : IntTy.i32.InRange a) (hb : IntTy.i32.InRange b)
    (hr : IntTy.i32.InRange (if a < b then b - a else a - b)) : ∃ r, diff_i32 a b = .ok r :=
  ⟨_, diff_i32_correct a b ha hb hr⟩
theorem truncation_check_i16_u8_total (x : Int) (h : IntTy.u8.InRange x) : ∃ r, truncation_check_i16_u8 x = .ok r :=
  ⟨_, truncation_check_i16_u8_correct x h⟩
theorem truncation_check_u8_i64_total (x : Int) (h : IntTy.i64.InRange x) : ∃ r, truncation_check_u8_i64 x = .ok r :=
  ⟨_, truncation_check_u8_i64_correct x h⟩
theorem from_int_u8_u16_total (x size : Int) (h : IntTy.u16.InRange x) (hs : IntTy.u8.InRange size) :
    ∃ r, from_int_u8_u16 x size = .ok r := ⟨_, from_int_u8_u16_correct x size h hs⟩
theorem is_power_of_2_u64_total (x : Int) (h : IntTy.u64.InRange x) : ∃ r, is_power_of_2_u64 x = .ok r :=
  let ⟨b, hb, _⟩ := is_power_of_2_u64_correct x h; ⟨b, hb⟩
theorem power_of_2_u32_total (e : Nat) (he : e < 32) : ∃ r, power_of_2_u32 e = .ok r :=
  ⟨_, power_of_2_u32_correct e he⟩

/-- outside the guard the model shows the fault the C++ would have: shift by the full width, INT_MIN / -1 -/
example : power_of_2_u32 32 = .error .shift ∧ ceil_div_signed_i32 (-2147483648) (-1) = .error .signedOverflow :=
  ⟨by rfl, by rfl⟩

/-! ## Part 3: the io helpers on streams in every state -/

/-- read_chars on a stream in ANY state (bits preset, streambuf that throws, short input) never writes outside
the buffer it allocated, never hands over an uninitialised cell, and answers with exactly the requested
characters or nothing -/
theorem readChars_prefix_or_nothing (s : IStream) (count : Nat) :
    readChars s count = .ok ((s.read count).1,
      if s.good ∧ count ≤ s.buf.length then some (s.buf.take count) else none) := by
  unfold readChars
  rw [resize_from_empty]
  by_cases hg : s.good = true
  · by_cases hc : count ≤ s.buf.length
    · have hr : s.read count = ({ s with buf := s.buf.drop count }, s.buf.take count, count) := by
        simp [IStream.read, sentryNoskip, hg, hc]
      have hw := writeCells_ok (s.buf.take count) [] (List.replicate count none) (by simp [hc])
      have hgood : ({ s with buf := s.buf.drop count } : IStream).good = true := by simpa [IStream.good] using hg
      have hlen : (s.buf.take count).length = count := by simp [hc]
      simp only [List.nil_append, List.length_nil] at hw
      simp only [hr, hw, Except.bind, hgood, ↓reduceIte, hg, hc, and_self, Buf.toRawVector, Nat.zero_add]
      have hm := mapM_range_readCell (s.buf.take count) (List.drop (s.buf.take count).length (List.replicate count none)) count (by omega)
      rw [hm]
      simp [List.take_take, pure, Except.pure]
    · have hlt : s.buf.length < count := by omega
      have hw := writeCells_ok s.buf [] (List.replicate count none) (by simp; omega)
      simp only [List.nil_append, List.length_nil] at hw
      by_cases ht : s.throwsAtEnd = true
      · have hr : s.read count = ({ s with buf := [], bad := true }, s.buf, 0) := by
          simp [IStream.read, sentryNoskip, hg, hc, ht]
        have hbad : ({ s with buf := [], bad := true } : IStream).good = false := by simp [IStream.good]
        simp [hr, hw, Except.bind, hbad, hc, pure, Except.pure]
      · have hr : s.read count = ({ s with buf := [], eof := true, fail := true }, s.buf, s.buf.length) := by
          simp [IStream.read, sentryNoskip, hg, hc, ht]
        have hbad : ({ s with buf := [], eof := true, fail := true } : IStream).good = false := by simp [IStream.good]
        simp [hr, hw, Except.bind, hbad, hc, pure, Except.pure]
  · have hr : s.read count = ({ s with fail := true }, [], 0) := by
      simp [IStream.read, sentryNoskip, hg]
    have hbad : ({ s with fail := true } : IStream).good = false := by simp [IStream.good]
    simp [hr, writeCells, Except.bind, hbad, hg, pure, Except.pure]

/-- read_chars is total; on a good stream it is the specification `readCharsSpec`, on any other stream nothing -/
theorem readChars_total (s : IStream) (count : Nat) :
    readChars s count = .ok ((s.read count).1, if s.good then readCharsSpec s.buf count else none) := by
  rw [readChars_prefix_or_nothing]
  unfold readCharsSpec
  by_cases hg : s.good = true <;> by_cases hc : count ≤ s.buf.length <;> simp [hg, hc]

/-- two consecutive reads continue where the first one stopped -/
theorem readChars_twice (s : IStream) (a b : Nat) (hg : s.good = true) (h : a + b ≤ s.buf.length) :
    ∃ s1 s2, readChars s a = .ok (s1, some (s.buf.take a)) ∧ readChars s1 b = .ok (s2, some ((s.buf.drop a).take b)) := by
  have ha : a ≤ s.buf.length := by omega
  have hr : s.read a = ({ s with buf := s.buf.drop a }, s.buf.take a, a) := by
    simp [IStream.read, sentryNoskip, hg, ha]
  have hg1 : ({ s with buf := s.buf.drop a } : IStream).good = true := by simpa [IStream.good] using hg
  refine ⟨{ s with buf := s.buf.drop a }, (({ s with buf := s.buf.drop a } : IStream).read b).1, ?_, ?_⟩
  · rw [readChars_prefix_or_nothing, hr]; simp [hg, ha]
  · rw [readChars_prefix_or_nothing]
    have hb : b ≤ (s.buf.drop a).length := by simp; omega
    simp [hg1]; omega

/-- stream_to_string never hands over a part of the content: everything the streambuf delivers, or nothing -/
theorem streamToString_complete (s : IStream) (r : List Nat) (h : streamToString false s = some r) : r = s.buf := by
  unfold streamToString insertStreambuf at h
  simp only [Bool.false_eq_true, ↓reduceIte] at h
  split at h
  · cases h; rfl
  · cases h

/-- when it answers: the stream has not failed, and either it is empty or the streambuf did not throw -/
theorem streamToString_some_iff (s : IStream) :
    (streamToString false s).isSome ↔ (s.failed = false ∧ (s.buf = [] ∨ s.throwsAtEnd = false)) := by
  unfold streamToString insertStreambuf
  cases hf : s.failed <;> cases ht : s.throwsAtEnd <;> cases hb : s.buf <;> simp [OStream.good]

theorem streamToString_nullbuf (s : IStream) (h : s.bad = true) : streamToString true s = none := by
  simp [streamToString, IStream.failed, h]

/-- io::peek does not consume, io::get consumes exactly the character it returns -/
theorem ioPeek_keeps (s : IStream) : (ioPeek s).1.buf = s.buf := by
  unfold ioPeek IStream.peek sentryNoskip
  by_cases hg : s.good = true
  · cases hb : s.buf <;> by_cases ht : s.throwsAtEnd = true <;> simp [hg, hb, ht]
  · simp [hg]

theorem ioGet_some (s s' : IStream) (c : Nat) (h : ioGet s = (s', some c)) :
    s.good = true ∧ s.buf = c :: s'.buf ∧ s'.good = true := by
  unfold ioGet IStream.get sentryNoskip at h
  by_cases hg : s.good = true
  · cases hb : s.buf with
    | nil => by_cases ht : s.throwsAtEnd = true <;> simp [hg, hb, ht] at h
    | cons x xs =>
      simp [hg, hb] at h
      obtain ⟨h1, h2⟩ := h
      subst h1 h2
      exact ⟨hg, rfl, by simpa [IStream.good] using hg⟩
  · simp [hg] at h

theorem ioGet_none_iff (s : IStream) : (ioGet s).2 = none ↔ (s.good = false ∨ s.buf = []) := by
  unfold ioGet IStream.get sentryNoskip
  by_cases hg : s.good = true
  · cases hb : s.buf <;> by_cases ht : s.throwsAtEnd = true <;> simp [hg, hb, ht]
  · simp [hg]

/-- io::read<T>: a value exactly when the stream was good and held `sizeof(T)` characters; it consumes exactly those -/
theorem ioRead_some_iff (size : Nat) (signed big : Bool) (s : IStream) :
    ((ioRead size signed big s).2.isSome ↔ (s.good = true ∧ size ≤ s.buf.length)) ∧
    ((ioRead size signed big s).2.isSome → (ioRead size signed big s).1.buf = s.buf.drop size) := by
  unfold ioRead IStream.read sentryNoskip
  by_cases hg : s.good = true
  · have hnf : s.fail = false ∧ s.bad = false ∧ s.eof = false := by
      simp [IStream.good] at hg; simp [hg]
    by_cases hc : size ≤ s.buf.length
    · simp [hg, hc, IStream.failed, hnf]
    · by_cases ht : s.throwsAtEnd = true <;> simp [hg, hc, ht, IStream.failed, hnf]
  · simp [hg, IStream.failed]

/-- write_chars reports success exactly when the stream was good and the streambuf took everything; the stream never
receives more than the data, and a stream that was not good receives nothing -/
theorem writeChars_spec (o : OStream) (data : List Nat) :
    ((writeChars o data).2 = true ↔ (o.good = true ∧ ∀ k, o.room = some k → data.length ≤ k)) ∧
    (∃ n, n ≤ data.length ∧ (writeChars o data).1.content = o.content ++ data.take n) ∧
    (o.good = false → (writeChars o data).1 = o) := by
  by_cases hg : o.good = true
  · have hflags : o.eof = false ∧ o.fail = false ∧ o.bad = false := by
      simp [OStream.good] at hg; simp [hg]
    cases hr : o.room with
    | none =>
      have hw : o.write data = { o with content := o.content ++ data } := by simp [OStream.write, hg, hr]
      refine ⟨?_, ⟨data.length, Nat.le_refl _, ?_⟩, ?_⟩
      · simp [writeChars, hw, OStream.good, hflags, hg]
      · simp [writeChars, hw]
      · intro h; simp [hg] at h
    | some k =>
      by_cases hk : data.length ≤ k
      · have hw : o.write data = { o with content := o.content ++ data, room := some (k - data.length) } := by
          simp [OStream.write, hg, hr, hk]
        refine ⟨?_, ⟨data.length, Nat.le_refl _, ?_⟩, ?_⟩
        · simp [writeChars, hw, OStream.good, hflags, hg, hk]
        · simp [writeChars, hw]
        · intro h; simp [hg] at h
      · have hw : o.write data = { o with content := o.content ++ data.take k, room := some 0, bad := true } := by
          simp [OStream.write, hg, hr, hk]
        refine ⟨?_, ⟨k, by omega, ?_⟩, ?_⟩
        · simp [writeChars, hw, OStream.good, hg, hk]
        · simp [writeChars, hw]
        · intro h; simp [hg] at h
  · have hw : o.write data = o := by simp [OStream.write, hg]
    refine ⟨?_, ⟨0, Nat.zero_le _, ?_⟩, ?_⟩
    · simp [writeChars, hw, hg]
    · simp [writeChars, hw]
    · intro _; simp [writeChars, hw]

example : readChars { buf := [1, 2, 3] } 2 = .ok ({ buf := [3] }, some [1, 2]) := by decide
example : readChars { buf := [1, 2, 3], throwsAtEnd := true } 4 = .ok ({ buf := [], bad := true, throwsAtEnd := true }, none) := by decide
example : readChars { buf := [1, 2, 3], eof := true } 0 = .ok ({ buf := [1, 2, 3], eof := true, fail := true }, none) := by decide
/-- an `ifstream` opened on a directory (empty content, `underflow` throws): stream_to_string answers with the empty string -/
example : streamToString false { buf := [], throwsAtEnd := true } = some [] := by decide
example : streamToString false { buf := [1], throwsAtEnd := true } = none := by decide

/-! ## Part 4: the path helpers -/
section PathPart
open Fcppt.C01.Path

/-- extension_without_dot never reads `ret[0]` of an empty string, and removes exactly the leading dot -/
theorem extensionWithoutDot_total (s : Path.Str) : extensionWithoutDot s = .ok ((extension s).drop 1) := by
  unfold extensionWithoutDot
  cases he : extension s with
  | nil => simp [pure, Except.pure]
  | cons c r =>
    have hh := extension_head s (by simp [he])
    rw [he] at hh
    simp at hh
    subst hh
    simp [readAt, pure, Except.pure, bind, Except.bind]

/-- stem and extension split the file name: nothing is lost and nothing is invented -/
theorem stem_append_extension (s : Path.Str) (n : Path.Str) (h : (parse s).lastName = some n) :
    stem s ++ extension s = n := by
  unfold stem extension pathToString P.stem P.extension
  cases hf : (parse s).findExtension with
  | none =>
    -- no string to look at, or an empty one
    unfold P.findExtension at hf
    simp only [h] at hf
    split at hf
    · rename_i h0; simp at h0; simp [h0]
    · split at hf
      · cases hf
      · cases hr : rfindDot n <;> simp [hr] at hf
  | some pr =>
    obtain ⟨m, e⟩ := pr
    have hm := findExtension_fst _ m e hf
    rw [h] at hm
    cases hm
    cases e <;> simp

/-- strip_prefix is total inside its documented precondition (the prefix has no more elements than the path) … -/
theorem stripPrefix_total (pre s : Path.Str) (h : numSubpaths pre ≤ numSubpaths s) :
    stripPrefix pre s = .ok (((parse s).elements.drop (numSubpaths pre)).foldl append []) := by
  unfold stripPrefix
  have : ¬ numSubpaths pre > (parse s).elements.length := by unfold numSubpaths at h ⊢; omega
  simp [this, bind, Except.bind, pure, Except.pure, throw, throwThe, MonadExceptOf.throw]

/-- … and outside of it `std::next` walks past `end()`: the function is rightly documented as unsafe there -/
theorem stripPrefix_unsafe (pre s : Path.Str) (h : numSubpaths s < numSubpaths pre) :
    stripPrefix pre s = .error .oob := by
  unfold stripPrefix
  have : numSubpaths pre > (parse s).elements.length := by unfold numSubpaths at h ⊢; omega
  simp [this, bind, Except.bind, throw, throwThe, MonadExceptOf.throw]

theorem stripPrefix_self (s : Path.Str) : stripPrefix s s = .ok [] := by
  rw [stripPrefix_total s s (Nat.le_refl _)]
  simp [numSubpaths]

example : removeExtension "a//b.c".toList = "a/b".toList ∧ removeExtension "/b.c".toList = "/b".toList ∧
    removeExtension "..".toList = "..".toList ∧ normalize "a/.".toList = "a/".toList ∧ numSubpaths "a//b/".toList = 3 := by decide
example : stripPrefix "/a".toList "/a/b/".toList = .ok "b/".toList ∧ stripPrefix "a/b".toList "a".toList = .error .oob := by decide

end PathPart

/-! ## Part 5: helpers fed by the environment -/

/-- fcppt::args reads exactly argv[0 .. argc) -/
theorem args_total (argc : Int) (argv : List Str) (h0 : 0 ≤ argc) (h1 : argc.toNat ≤ argv.length) :
    args argc argv = .ok (argv.take argc.toNat) := by
  unfold args
  have : ¬ argc < 0 := by omega
  simp only [this, ↓reduceIte]
  exact mapM_range_readAt argv _ h1

/-- args_from_second: everything but the program name; `argc == 0` (no program name) gives the empty vector and
never forms `argv + 1` / `argc - 1` -/
theorem argsFromSecond_total (argc : Int) (argv : List Str) (h0 : 0 ≤ argc) (h1 : argc.toNat ≤ argv.length) :
    argsFromSecond argc argv = .ok ((argv.take argc.toNat).drop 1) := by
  unfold argsFromSecond
  by_cases hz : argc = 0
  · subst hz; simp; rfl
  · simp only [hz, ↓reduceIte]
    rw [args_total (argc - 1) (argv.drop 1) (by omega) (by simp; omega)]
    congr 1
    have : argc.toNat = (argc - 1).toNat + 1 := by omega
    rw [this, List.drop_take]
    simp

/-- what the guard is for: without it the count would be negative -/
example : args ((0 : Int) - 1) ([] : List Str) = .error .oob := by decide

theorem getenv_some (env : List (Str × Str)) (name v : Str) (h : getenv env name = some v) :
    ∃ n, (n, v) ∈ env ∧ n = name.takeWhile (· != '\x00') ∧ n ≠ [] ∧ ¬ n.contains '=' := by
  unfold getenv at h
  simp only at h
  split at h
  · cases h
  · rename_i hc
    simp only [Option.map_eq_some_iff] at h
    obtain ⟨e, he, hv⟩ := h
    have hmem := List.mem_of_find?_eq_some he
    have hp := List.find?_some he
    simp at hp
    refine ⟨e.1, ?_, hp, ?_, ?_⟩
    · rw [← hv]; exact hmem
    · intro hn; rw [hp] at hn; simp [hn] at hc
    · intro hn; rw [hp] at hn; simp at hc hn; exact hc.2 hn

theorem createDirectory_none_iff (ec : Nat) : createDirectory ec = none ↔ ec = 0 := by
  unfold createDirectory makeOptionalErrorCode; by_cases h : ec = 0 <;> simp [h]

theorem makeRange_total {ρ} (ec : Nat) (r : ρ) :
    (ec = 0 → makeRange ec r = .inr r) ∧ (ec ≠ 0 → makeRange ec r = .inl ec) := by
  unfold makeRange makeOptionalErrorCode; by_cases h : ec = 0 <;> simp [h]

/-- open_exn: the stream, or the documented fcppt::exception — nothing else -/
theorem fsOpenExn_total (isOpen : Bool) :
    (isOpen = true → fsOpenExn isOpen = .ok ()) ∧ (isOpen = false → fsOpenExn isOpen = .error (.exception (.other "fcppt"))) := by
  cases isOpen <;> simp [fsOpenExn, fsOpen]

/-- flag_name is a right inverse of is_flag: what it produces is recognised as that flag -/
theorem isFlag_flagName_long (name : Str) : isFlag (flagName name false) = .ok (some (false, name)) := by
  simp [flagName, isFlag, readAt, isDash, pure, Except.pure, bind, Except.bind]

theorem isFlag_flagName_short (name : Str) (h : name.head? ≠ some '-') :
    isFlag (flagName name true) = .ok (some (true, name)) := by
  cases name with
  | nil => simp [flagName, isFlag, readAt, isDash, pure, Except.pure, bind, Except.bind]
  | cons c r =>
    have hc : (c == '-') = false := by simpa using h
    simp [flagName, isFlag, readAt, isDash, pure, Except.pure, bind, Except.bind, hc]

/-- fcppt::system: an exit status (0…255) exactly for a command that exited; a command killed by a signal gives nothing -/
theorem systemResult_spec (status : Nat) :
    (status % 128 = 0 → ∃ v, systemResult status = some v ∧ v < 256) ∧ (status % 128 ≠ 0 → systemResult status = none) := by
  unfold systemResult
  by_cases h : status % 128 = 0
  · simp only [h, ↓reduceIte]
    exact ⟨fun _ => ⟨_, rfl, Nat.mod_lt _ (by decide)⟩, fun h' => absurd rfl h'⟩
  · simp [h]

/-- vector::atan2 answers unless BOTH components are zero; a NaN component is not a zero -/
theorem vectorAtan2_none_iff (x y : FClass) : vectorAtan2 x y = none ↔ (x = .zero ∧ y = .zero) := by
  unfold vectorAtan2; cases x <;> cases y <;> simp

theorem weakLock_none_iff (owners : Nat) : weakLock owners = none ↔ owners = 0 := by
  unfold weakLock; by_cases h : owners = 0 <;> simp [h]

theorem dynamicCast_spec (dyn target : Cls) :
    (dynamicCast dyn target = some dyn ↔ dyn.isA target = true) ∧ (dynamicCast dyn target = none ↔ dyn.isA target = false) := by
  unfold dynamicCast; cases dyn.isA target <;> simp

/-- gmtime / localtime: the broken-down time, or the documented std::runtime_error — nothing else -/
theorem timeGmtime_total (answer : Option Tm) :
    (∀ r, answer = some r → timeGmtime answer = .ok r) ∧
    (answer = none → timeGmtime answer = .error (.exception (.other "runtime_error"))) := by
  cases answer <;> simp [timeGmtime]

example : argsFromSecond 3 ["p".toList, "a".toList, "b".toList] = .ok ["a".toList, "b".toList] ∧ argsFromSecond 0 [] = .ok [] := by decide
example : (gmtimeR 951782400 = some ⟨2000, 2, 29, 0, 0, 0⟩) ∧ gmtimeR 67768036191676800 = none ∧ gmtimeR (-1) = some ⟨1969, 12, 31, 23, 59, 59⟩ := by decide
example : dynamicCast .m .iface = some .m ∧ dynamicCast .d3 .d1 = some .d3 ∧ dynamicCast .d1 .d3 = none := by decide

/-! ## Part 6: math::vector — component-wise wrappers of the translated scalar helpers, all or nothing -/

/-- vector / scalar (int32): total whenever every exact quotient is representable; nothing iff the divisor is zero -/
theorem vdiv_i32_total (v : List Int) (d : Int) (hv : ∀ x ∈ v, IntTy.i32.InRange x) (hd : IntTy.i32.InRange d)
    (hr : d ≠ 0 → ∀ x ∈ v, IntTy.i32.InRange (Int.tdiv x d)) :
    vdiv_i32 v d = .ok (sequenceOpt (v.map fun x => if d = 0 then none else some (Int.tdiv x d))) := by
  unfold vdiv_i32
  apply vectorMap_ok
  intro x hx
  by_cases h : d = 0
  · subst h; simp [div_i32_zero]
  · simp [h, div_i32_correct x d (hv x hx) hd h (hr h x hx)]

theorem vdiv_u32_total (v : List Int) (d : Int) (hv : ∀ x ∈ v, IntTy.u32.InRange x) (hd : IntTy.u32.InRange d) :
    vdiv_u32 v d = .ok (sequenceOpt (v.map fun x => if d = 0 then none else some (Int.tdiv x d))) := by
  unfold vdiv_u32
  apply vectorMap_ok
  intro x hx
  by_cases h : d = 0
  · subst h; simp [div_u32_zero]
  · simp [h, div_u32_correct x d (hv x hx) hd h (u32_tdiv_inRange x d (hv x hx) hd h)]

theorem vmod_u32_total (v : List Int) (d : Int) (hv : ∀ x ∈ v, IntTy.u32.InRange x) (hd : IntTy.u32.InRange d) :
    vmod_u32 v d = .ok (sequenceOpt (v.map fun x => if d = 0 then none else some (x % d))) := by
  unfold vmod_u32
  apply vectorMap_ok
  intro x hx
  by_cases h : d = 0
  · subst h; simp [mod_u32_zero]
  · simp [h, mod_u32_correct x d (hv x hx) hd h]

/-- vector / vector: component by component, nothing iff SOME divisor component is zero -/
theorem vdivv_i32_total (l r : List Int) (hl : ∀ x ∈ l, IntTy.i32.InRange x) (hr : ∀ y ∈ r, IntTy.i32.InRange y)
    (hq : ∀ p ∈ l.zip r, p.2 ≠ 0 → IntTy.i32.InRange (Int.tdiv p.1 p.2)) :
    vdivv_i32 l r = .ok (sequenceOpt ((l.zip r).map fun p => if p.2 = 0 then none else some (Int.tdiv p.1 p.2))) := by
  unfold vdivv_i32
  apply vectorZip_ok (g := fun a b => if b = 0 then none else some (Int.tdiv a b))
  intro p hp
  have h1 := hl p.1 (List.of_mem_zip hp).1
  have h2 := hr p.2 (List.of_mem_zip hp).2
  by_cases h : p.2 = 0
  · simp [h, div_i32_zero]
  · simp [h, div_i32_correct p.1 p.2 h1 h2 h (hq p hp h)]

theorem vmodv_u32_total (l r : List Int) (hl : ∀ x ∈ l, IntTy.u32.InRange x) (hr : ∀ y ∈ r, IntTy.u32.InRange y) :
    vmodv_u32 l r = .ok (sequenceOpt ((l.zip r).map fun p => if p.2 = 0 then none else some (p.1 % p.2))) := by
  unfold vmodv_u32
  apply vectorZip_ok (g := fun a b => if b = 0 then none else some (a % b))
  intro p hp
  have h1 := hl p.1 (List.of_mem_zip hp).1
  have h2 := hr p.2 (List.of_mem_zip hp).2
  by_cases h : p.2 = 0
  · simp [h, mod_u32_zero]
  · simp [h, mod_u32_correct p.1 p.2 h1 h2 h]

/-- ceil_div_signed on a vector: total whenever every exact ceiling is representable; every component is the ceiling -/
theorem vceildiv_i32_total (v : List Int) (d : Int) (hv : ∀ x ∈ v, IntTy.i32.InRange x) (hd : IntTy.i32.InRange d)
    (hrep : ∀ x ∈ v, ∀ q, IsCeilDiv x d q → IntTy.i32.InRange q) :
    ∃ r, vceildiv_i32 v d = .ok r ∧
      (d = 0 → v ≠ [] → r = none) ∧
      (d ≠ 0 → ∃ qs, r = some qs ∧ qs.length = v.length ∧ ∀ i (h1 : i < v.length) (h2 : i < qs.length), IsCeilDiv v[i] d qs[i]) := by
  unfold vceildiv_i32
  by_cases h : d = 0
  · subst h
    rw [vectorMap_ok (g := fun _ => none) v (fun x _ => ceil_div_signed_i32_zero x)]
    refine ⟨_, rfl, ?_, fun h => absurd rfl h⟩
    intro _ hne
    rw [sequenceOpt_eq_none_iff]
    cases v with
    | nil => exact absurd rfl hne
    | cons x r => simp
  · -- choose the quotient of every component
    have hex : ∀ x ∈ v, ∃ q, ceil_div_signed_i32 x d = .ok (some q) ∧ IsCeilDiv x d q :=
      fun x hx => ceil_div_signed_i32_correct x d (hv x hx) hd h (hrep x hx)
    have key : ∀ (w : List Int), (∀ x ∈ w, ∃ q, ceil_div_signed_i32 x d = .ok (some q) ∧ IsCeilDiv x d q) →
        ∃ qs : List Int, w.mapM (fun x => ceil_div_signed_i32 x d) = .ok (qs.map some) ∧ qs.length = w.length ∧
          ∀ i (h1 : i < w.length) (h2 : i < qs.length), IsCeilDiv w[i] d qs[i] := by
      intro w
      induction w with
      | nil => intro _; exact ⟨[], rfl, rfl, fun i h1 _ => absurd h1 (by simp)⟩
      | cons x t ih =>
        intro hw
        obtain ⟨q, hq, hc⟩ := hw x (by simp)
        obtain ⟨qs, hqs, hlen, hall⟩ := ih (fun y hy => hw y (by simp [hy]))
        refine ⟨q :: qs, ?_, by simp [hlen], ?_⟩
        · simp only [List.mapM_cons, hq, hqs, bind, Except.bind, List.map_cons]; rfl
        · intro i h1 h2
          cases i with
          | zero => simpa using hc
          | succ j => simpa using hall j (by simpa using h1) (by simpa using h2)
    obtain ⟨qs, hqs, hlen, hall⟩ := key v hex
    refine ⟨some qs, ?_, fun h0 => absurd h0 h, fun _ => ⟨qs, rfl, hlen, hall⟩⟩
    unfold vectorMap
    rw [hqs]
    show Except.ok (sequenceOpt (qs.map some)) = _
    rw [sequenceOpt_map_some]


example : vdiv_i32 [7, -7, 2147483647] 2 = .ok (some [3, -3, 1073741823]) ∧ vdiv_i32 [1, 2] 0 = .ok none ∧
    vdivv_i32 [4, 5] [2, 0] = .ok none ∧ vceildiv_i32 [5, -5] 2 = .ok (some [3, -2]) := by decide
/-- outside the guard the component's fault is the vector's: INT_MIN / -1 -/
example : vdiv_i32 [1, -2147483648] (-1) = .error .signedOverflow := by decide

end Fcppt.C01
