import FcpptModel.Model.C01
import FcpptProofs.Props.C06.Basic
import FcpptProofs.Props.C06.Arith
import FcpptProofs.Props.C06.Log2
import FcpptProofs.Props.C06.Pow
import FcpptProofs.Props.C06.NextPow
import FcpptProofs.Props.C06.Trunc_u8
import FcpptProofs.Props.C06.Trunc_u16
import FcpptProofs.Props.C06.Trunc_u32
import FcpptProofs.Props.C06.Trunc_u64
import FcpptProofs.Props.C06.Trunc_i8
import FcpptProofs.Props.C06.Trunc_i16
import FcpptProofs.Props.C06.Trunc_i32
import FcpptProofs.Props.C06.Trunc_i64
set_option linter.unusedSimpArgs false
set_option linter.unusedVariables false
/-!
# C01 — the safe API is total

`f args = .ok r` in a model means: no out-of-bounds access, no invalid shift, no signed overflow,
no empty-optional dereference, no division by zero, terminated (`Fault.fuel` not reached) and no
exception.  Part 1 are the container / string / argument helpers modelled in `Model/C01.lean`;
part 2 states totality of the *translated* scalar helpers (regenerated from /repo on every run)
under exactly the guard "the exact result is representable" — each is a corollary of the C06
correctness theorem for that instantiation, restated here in the `∃ r, f x = .ok r` form of C01
for one representative width per function family plus the widths where a defect was repaired.
-/
namespace Fcppt.C01
open Fcppt

/-! ## Part 1: container, string and argument helpers -/

theorem readAt_lt {α} (c : List α) (i : Nat) (h : i < c.length) : readAt c i = .ok c[i] := by
  simp [readAt, List.getElem?_eq_getElem h]

/-- at_optional never faults and is exactly `c[i]?` -/
theorem atOptional_total {α} (c : List α) (i : Nat) : atOptional c i = .ok c[i]? := by
  unfold atOptional
  by_cases h : i < c.length
  · simp [h, readAt_lt c i h, List.getElem?_eq_getElem h]; rfl
  · simp [h, List.getElem?_eq_none (Nat.le_of_not_lt h)]; rfl

theorem maybeFront_total {α} (c : List α) : maybeFront c = .ok c.head? := by
  cases c with
  | nil => rfl
  | cons x xs => simp [maybeFront, readAt]; rfl

theorem maybeBack_total {α} (c : List α) : maybeBack c = .ok c.getLast? := by
  cases c with
  | nil => rfl
  | cons x xs =>
    have h : (x :: xs).length - 1 < (x :: xs).length := by simp
    simp only [maybeBack, List.isEmpty_cons, Bool.false_eq_true, ↓reduceIte, readAt_lt _ _ h]
    rw [List.getLast?_eq_getElem?]
    simp [List.getElem?_eq_getElem h]; rfl

/-- pop_back: removes and returns the last element, `none` and unchanged on empty; never faults -/
theorem popBack_total {α} (c : List α) : popBack c = .ok (c.getLast?, c.dropLast) := by
  cases c with
  | nil => rfl
  | cons x xs =>
    have h : (x :: xs).length - 1 < (x :: xs).length := by simp
    simp only [popBack, List.isEmpty_cons, Bool.not_false, ↓reduceIte, readAt_lt _ _ h]
    rw [List.getLast?_eq_getElem?]
    simp [List.getElem?_eq_getElem h]; rfl

theorem popFront_total {α} (c : List α) : popFront c = .ok (c.head?, c.drop 1) := by
  cases c with
  | nil => rfl
  | cons x xs => simp [popFront, readAt]; rfl

/-- find_opt: the mapped value of the first pair with that key; dereferences only a found iterator -/
theorem findOpt_total {κ ν} [BEq κ] (m : List (κ × ν)) (k : κ) :
    findOpt m k = .ok ((m.find? (fun p => p.1 == k)).map (·.2)) := by
  unfold findOpt
  cases h : m.findIdx? (fun p => p.1 == k) with
  | none =>
    have : m.find? (fun p => p.1 == k) = none := by
      rw [List.findIdx?_eq_none_iff] at h
      rw [List.find?_eq_none]; intro x hx; simpa using h x hx
    simp [this]; rfl
  | some i =>
    have hi := List.findIdx?_eq_some_iff_getElem.mp h
    obtain ⟨hlt, hp, hmin⟩ := hi
    have hf : m.find? (fun p => p.1 == k) = some m[i] := by
      rw [List.find?_eq_some_iff_getElem]
      exact ⟨hp, i, hlt, rfl, fun j hj => by simpa using hmin j hj⟩
    simp [readAt_lt m i hlt, hf]; rfl

private theorem mapM_range_readAt {α} (src : List α) :
    ∀ n, n ≤ src.length → (List.range n).mapM (readAt src) = (Except.ok (src.take n) : M (List α))
  | 0, _ => rfl
  | n + 1, h => by
    have hn : n < src.length := by omega
    rw [List.range_succ, List.mapM_append, mapM_range_readAt src n (by omega)]
    simp only [List.mapM_cons, List.mapM_nil, readAt_lt src n hn]
    show Except.ok (List.take n src ++ [src[n]]) = _
    rw [List.take_succ, List.getElem?_eq_getElem hn]; rfl

/-- array::from_range<Size>: exactly the source iff it has `Size` elements; every read is in range -/
theorem fromRange_total {α} (size : Nat) (src : List α) :
    fromRange size src = .ok (if src.length = size then some src else none) := by
  unfold fromRange
  by_cases h : src.length = size
  · subst h
    simp only [↓reduceIte, mapM_range_readAt src src.length (Nat.le_refl _), List.take_length]; rfl
  · simp [h]; rfl

/-- runtime_index: calls `f` with the index iff it is below `max`, terminates within `max + 1` steps -/
theorem runtimeIndex_total {β} (max i : Nat) (f : Nat → β) (fail : β) :
    runtimeIndex max i f fail = .ok (if i < max then f i else fail) := by
  unfold runtimeIndex
  have : ∀ fuel cur, cur ≤ max → cur ≤ i → max + 1 ≤ fuel + cur →
      runtimeIndexFrom max f fail i fuel cur = .ok (if i < max then f i else fail) := by
    intro fuel
    induction fuel with
    | zero => intro cur h1 _ h3; omega
    | succ fuel ih =>
      intro cur h1 h2 h3
      unfold runtimeIndexFrom
      by_cases hc : cur = max
      · subst hc
        have : ¬ i < cur := by omega
        simp [this]; rfl
      · by_cases hi : i = cur
        · subst hi
          have : i < max := by omega
          simp [hc, this]; rfl
        · simp only [hc, ↓reduceIte, hi]
          exact ih (cur + 1) (by omega) (by omega) (by omega)
  exact this (max + 1) 0 (by omega) (by omega) (by omega)

/-- enum_::from_string: the enumerator whose name equals the string, first match, else none -/
theorem fromString_spec (names : List String) (s : String) :
    fromString names s = (names.findIdx? (· == s)) := by
  unfold fromString; cases names.findIdx? (· == s) <;> rfl

theorem fromString_some (names : List String) (s : String) (i : Nat) (h : fromString names s = some i) :
    i < names.length ∧ names[i]? = some s := by
  rw [fromString_spec] at h
  obtain ⟨hlt, hp, _⟩ := List.findIdx?_eq_some_iff_getElem.mp h
  exact ⟨hlt, by simp [List.getElem?_eq_getElem hlt]; simpa using hp⟩

/-- is_flag (repaired) is total on every string — including the lone "-" on which the unrepaired
version reads past the end -/
theorem isFlag_total (s : Str) : ∃ r, isFlag s = .ok r := by
  unfold isFlag
  cases s with
  | nil => exact ⟨none, rfl⟩
  | cons c0 t =>
    cases t with
    | nil =>
      by_cases h : isDash c0 <;> simp [readAt, h, pure, Except.pure, bind, Except.bind]
    | cons c1 t2 =>
      by_cases h : isDash c0 <;> by_cases h1 : isDash c1 <;>
        simp [readAt, h, h1, pure, Except.pure, bind, Except.bind]

theorem isFlag_spec (s : Str) :
    isFlag s = .ok (match s with
      | [] => none
      | c0 :: t => if !isDash c0 then none else
          match t with
          | [] => some (true, [])
          | c1 :: t2 => if isDash c1 then some (false, t2) else some (true, c1 :: t2)) := by
  unfold isFlag
  cases s with
  | nil => rfl
  | cons c0 t =>
    cases t with
    | nil => by_cases h : isDash c0 <;> simp [readAt, h, pure, Except.pure, bind, Except.bind]
    | cons c1 t2 =>
      by_cases h : isDash c0 <;> by_cases h1 : isDash c1 <;>
        simp [readAt, h, h1, pure, Except.pure, bind, Except.bind]

/-- the defect repaired by 2723549: the old is_flag faults (reads `*end()`) on exactly the lone dash -/
example : isFlagOld ['-'] = .error .oob ∧ isFlag ['-'] = .ok (some (true, [])) := ⟨rfl, rfl⟩

/-- next_arg is total (terminates within `size + 1` iterations, reads only inside the vector) and
its result is the index of an argument that is not a flag. -/
theorem nextArg_total (args : List Str) (names : List (Str × Bool)) :
    ∃ r, nextArg args names = .ok r ∧
      (∀ i, r = some i → i < args.length ∧ ∃ a, args[i]? = some a ∧ isFlag a = .ok none) := by
  unfold nextArg
  have : ∀ fuel cur, cur ≤ args.length → args.length + 1 ≤ fuel + cur →
      ∃ r, nextArgFrom args names fuel cur = .ok r ∧
        (∀ i, r = some i → i < args.length ∧ ∃ a, args[i]? = some a ∧ isFlag a = .ok none) := by
    intro fuel
    induction fuel with
    | zero => intro cur h1 h2; omega
    | succ fuel ih =>
      intro cur h1 h2
      unfold nextArgFrom
      by_cases hc : cur = args.length
      · exact ⟨none, by simp [hc]; rfl, by simp⟩
      · have hlt : cur < args.length := by omega
        simp only [hc, ↓reduceIte, readAt_lt args cur hlt]
        obtain ⟨r, hr⟩ := isFlag_total args[cur]
        cases r with
        | none =>
          refine ⟨some cur, by simp [hr, bind, Except.bind]; rfl, ?_⟩
          intro i hi
          cases hi
          exact ⟨hlt, args[cur], by simp [List.getElem?_eq_getElem hlt], hr⟩
        | some fl =>
          obtain ⟨sh, nm⟩ := fl
          simp only [hr, bind, Except.bind]
          by_cases hskip : cur + 1 ≠ args.length ∧ names.contains (nm, sh) = true
          · simp only [hskip, and_self, ↓reduceIte, ne_eq, not_false_eq_true]
            exact ih (cur + 1 + 1) (by omega) (by omega)
          · simp only [hskip, ↓reduceIte]
            exact ih (cur + 1) (by omega) (by omega)
  exact this (args.length + 1) 0 (by omega) (by omega)

/-- read_chars hands over exactly the requested prefix or nothing; never more than was read -/
theorem readChars_spec (stream : List Nat) (count : Nat) :
    (readCharsSpec stream count = none ↔ stream.length < count) ∧
    (∀ r, readCharsSpec stream count = some r → r.length = count ∧ r = stream.take count) := by
  unfold readCharsSpec
  by_cases h : count ≤ stream.length
  · simp [h] <;> omega
  · simp [h] <;> omega

/-- file_size: whatever the operating system answers, the result is an optional (no exception) -/
theorem fileSize_total (os : Option Nat) : fileSize os = none ∨ ∃ n, fileSize os = some n ∧ os = some n := by
  unfold fileSize
  cases os with
  | none => exact Or.inl rfl
  | some n => by_cases h : n = 2 ^ 64 - 1 <;> simp [h]

/-! ## Part 2: the translated scalar helpers are total under "exact result representable"

Each line is the C06 correctness theorem of that instantiation, in the totality form. -/

open Fcppt.Gen Fcppt.C06

theorem log2_u32_total (x : Int) (h : IntTy.u32.InRange x) (hx : 0 < x) : ∃ r, log2_u32 x = .ok r :=
  let ⟨q, hq, _⟩ := log2_u32_correct x h hx; ⟨q, hq⟩
theorem log2_u64_total (x : Int) (h : IntTy.u64.InRange x) (hx : 0 < x) : ∃ r, log2_u64 x = .ok r :=
  let ⟨q, hq, _⟩ := log2_u64_correct x h hx; ⟨q, hq⟩
theorem log2_u8_total (x : Int) (h : IntTy.u8.InRange x) (hx : 0 < x) : ∃ r, log2_u8 x = .ok r :=
  let ⟨q, hq, _⟩ := log2_u8_correct x h hx; ⟨q, hq⟩
theorem next_power_of_2_u32_total (x : Int) (h : IntTy.u32.InRange x) (hr : x ≤ 2147483648) :
    ∃ r, next_power_of_2_u32 x = .ok r :=
  let ⟨q, hq, _⟩ := next_power_of_2_u32_correct x h hr; ⟨q, hq⟩
theorem next_power_of_2_u8_total (x : Int) (h : IntTy.u8.InRange x) (hr : x ≤ 128) :
    ∃ r, next_power_of_2_u8 x = .ok r :=
  let ⟨q, hq, _⟩ := next_power_of_2_u8_correct x h hr; ⟨q, hq⟩
theorem ceil_div_u32_total (a b : Int) (ha : IntTy.u32.InRange a) (hb : IntTy.u32.InRange b) :
    ∃ r, ceil_div_u32 a b = .ok r := by
  by_cases h : b = 0
  · subst h; exact ⟨none, ceil_div_u32_zero a⟩
  · obtain ⟨q, hq, _⟩ := ceil_div_u32_correct a b ha hb h; exact ⟨some q, hq⟩
theorem ceil_div_signed_i32_total (a b : Int) (ha : IntTy.i32.InRange a) (hb : IntTy.i32.InRange b)
    (hrep : ∀ q, IsCeilDiv a b q → IntTy.i32.InRange q) : ∃ r, ceil_div_signed_i32 a b = .ok r := by
  by_cases h : b = 0
  · subst h; exact ⟨none, ceil_div_signed_i32_zero a⟩
  · obtain ⟨q, hq, _⟩ := ceil_div_signed_i32_correct a b ha hb h hrep; exact ⟨some q, hq⟩
theorem ceil_div_signed_i64_total (a b : Int) (ha : IntTy.i64.InRange a) (hb : IntTy.i64.InRange b)
    (hrep : ∀ q, IsCeilDiv a b q → IntTy.i64.InRange q) : ∃ r, ceil_div_signed_i64 a b = .ok r := by
  by_cases h : b = 0
  · subst h; exact ⟨none, ceil_div_signed_i64_zero a⟩
  · obtain ⟨q, hq, _⟩ := ceil_div_signed_i64_correct a b ha hb h hrep; exact ⟨some q, hq⟩
theorem div_i32_total (a b : Int) (ha : IntTy.i32.InRange a) (hb : IntTy.i32.InRange b)
    (hr : b ≠ 0 → IntTy.i32.InRange (Int.tdiv a b)) : ∃ r, div_i32 a b = .ok r := by
  by_cases h : b = 0
  · subst h; exact ⟨none, div_i32_zero a⟩
  · exact ⟨_, div_i32_correct a b ha hb h (hr h)⟩
theorem mod_u8_total (a b : Int) (ha : IntTy.u8.InRange a) (hb : IntTy.u8.InRange b) : ∃ r, mod_u8 a b = .ok r := by
  by_cases h : b = 0
  · subst h; exact ⟨none, mod_u8_zero a⟩
  · exact ⟨_, mod_u8_correct a b ha hb h⟩
theorem clamp_i16_total (v lo hi : Int) (hv : IntTy.i16.InRange v) (hl : IntTy.i16.InRange lo) (hh : IntTy.i16.InRange hi) :
    ∃ r, clamp_i16 v lo hi = .ok r := ⟨_, clamp_i16_correct v lo hi hv hl hh⟩
theorem diff_u8_total (a b : Int) (ha : IntTy.u8.InRange a) (hb : IntTy.u8.InRange b)
    (hr : IntTy.u8.InRange (if a < b then b - a else a - b)) : ∃ r, diff_u8 a b = .ok r :=
  ⟨_, diff_u8_correct a b ha hb hr⟩
theorem diff_i32_total (a b : Int) (ha : IntTy.i32.InRange a) (hb : IntTy.i32.InRange b)
    (hr : IntTy.i32.InRange (if a < b then b - a else a - b)) : ∃ r, diff_i32 a b = .ok r :=
  ⟨_, diff_i32_correct a b ha hb hr⟩
theorem truncation_check_i16_u8_total (x : Int) (h : IntTy.u8.InRange x) : ∃ r, truncation_check_i16_u8 x = .ok r :=
  ⟨_, truncation_check_i16_u8_correct x h⟩
theorem truncation_check_u8_i64_total (x : Int) (h : IntTy.i64.InRange x) : ∃ r, truncation_check_u8_i64 x = .ok r :=
  ⟨_, truncation_check_u8_i64_correct x h⟩
theorem from_int_u8_u16_total (x size : Int) (h : IntTy.u16.InRange x) (hs : IntTy.u8.InRange size) :
    ∃ r, from_int_u8_u16 x size = .ok r := ⟨_, from_int_u8_u16_correct x size h hs⟩
theorem is_power_of_2_u64_total (x : Int) (h : IntTy.u64.InRange x) : ∃ r, is_power_of_2_u64 x = .ok r :=
  let ⟨b, hb, _⟩ := is_power_of_2_u64_correct x h; ⟨b, hb⟩
theorem power_of_2_u32_total (e : Nat) (he : e < 32) : ∃ r, power_of_2_u32 e = .ok r :=
  ⟨_, power_of_2_u32_correct e he⟩

/-- outside the guard the model shows the fault the C++ would have: shift by the full width, INT_MIN / -1 -/
example : power_of_2_u32 32 = .error .shift ∧ ceil_div_signed_i32 (-2147483648) (-1) = .error .signedOverflow :=
  ⟨by rfl, by rfl⟩

end Fcppt.C01
