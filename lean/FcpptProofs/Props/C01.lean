/-! Property theorems for C01 — placeholder until the property's model is built. -/
