import FcpptProofs.C15.Bytes
/-!
# C15 — textual and binary encodings round-trip losslessly: property theorems

Model: `FcpptModel/Model/C15/*.lean`, meanings: `FcpptModel/Spec/C15.lean`, lemmas: `FcpptProofs/C15/*.lean`.
-/
namespace Fcppt.C15

/-! ## byte order (`reverse_mem`, `endianness::swap/convert`, `io::write/read`) -/

/-- The index loop of `reverse_mem.cpp` never leaves the buffer and reverses it (every length, every element type). -/
theorem reverse_mem_is_reverse {α : Type} (d : List α) : reverseMem d = .ok d.reverse :=
  reverseMem_eq_reverse d

theorem reverse_involutive {α : Type} (d : List α) : (reverseMem d >>= reverseMem) = .ok d := by
  simp [reverseMem_eq_reverse, bind, Except.bind]

/-- `swap(swap(v)) = v` for every value of every integer type of `bytes ≥ 1` bytes, on either kind of machine. -/
theorem swap_swap (native : Endian) (t : IntTy) (v : Int) (ht : 0 < t.bytes) (hv : t.InRange v) :
    (swap native t v >>= swap native t) = .ok v := by
  simp only [swap_eq, bind, Except.bind]
  rw [objRep_ofObjRep native t _ ht (by simp), List.reverse_reverse, ofObjRep_objRep native t v ht hv]

/-- `swap` stays inside the type (it is a permutation of the type's values). -/
theorem swap_in_range (native : Endian) (t : IntTy) (v : Int) (ht : 0 < t.bytes) :
    ∃ r, swap native t v = .ok r ∧ t.InRange r :=
  ⟨_, swap_eq native t v, ofObjRep_inRange native t _ ht (by simp)⟩

/-- `convert(convert(v, e), e) = v` for both values of `e` (host → format → host). -/
theorem convert_roundtrip (native : Endian) (t : IntTy) (v : Int) (e : Endian) (ht : 0 < t.bytes) (hv : t.InRange v) :
    (convert native t v e >>= fun x => convert native t x e) = .ok v := by
  unfold convert
  by_cases h : e = native
  · simp [h, bind, Except.bind, pure, Except.pure]
  · simp only [if_neg h]; exact swap_swap native t v ht hv

/-- The bytes `io::write` emits for `std::endian::big` are the base-256 digits of the value's (two's complement)
bits, most significant first — whatever the machine's own order is; they are appended to what the stream held. -/
theorem write_bytes_big_is_msb_first (native : Endian) (t : IntTy) (s : List Byte) (v : Int) (ht : 0 < t.bytes) (hv : t.InRange v) :
    ∃ out, write native t s v .big = .ok (s ++ out) ∧ out.map Fin.val = Spec.beDigits t.bytes (Spec.twos t.bits v) := by
  rw [← toU_eq_twos t v ht hv, beDigits_eq_reverse, ← leBytes_map_val]
  cases native
  · refine ⟨(leBytes t.bytes (toU t v)).reverse, ?_, by simp⟩
    simp only [write, convert, swap_eq, bind, Except.bind, pure, Except.pure, if_neg (by decide : Endian.big ≠ Endian.little)]
    rw [objRep_ofObjRep _ t _ ht (by simp)]; simp [objRep]
  · exact ⟨(leBytes t.bytes (toU t v)).reverse, by simp [write, convert, objRep, bind, Except.bind, pure, Except.pure], by simp⟩

/-- … and least significant first for `std::endian::little`. -/
theorem write_bytes_little_is_lsb_first (native : Endian) (t : IntTy) (s : List Byte) (v : Int) (ht : 0 < t.bytes) (hv : t.InRange v) :
    ∃ out, write native t s v .little = .ok (s ++ out) ∧ out.map Fin.val = Spec.leDigits t.bytes (Spec.twos t.bits v) := by
  rw [← toU_eq_twos t v ht hv, ← leBytes_map_val]
  cases native
  · exact ⟨leBytes t.bytes (toU t v), by simp [write, convert, objRep, bind, Except.bind, pure, Except.pure], rfl⟩
  · refine ⟨leBytes t.bytes (toU t v), ?_, rfl⟩
    simp only [write, convert, swap_eq, bind, Except.bind, pure, Except.pure, if_neg (by decide : Endian.little ≠ Endian.big)]
    rw [objRep_ofObjRep _ t _ ht (by simp)]; simp [objRep]

/-- The digit lists of the two theorems above determine the number (so the byte layout loses nothing):
Horner evaluation gives back the `8·n`-bit pattern. -/
theorem digits_value (n x : Nat) (hx : x < 256 ^ n) :
    Spec.ofBE (Spec.beDigits n x) = x ∧ Spec.ofLE (Spec.leDigits n x) = x := by
  rw [spec_ofBE_beDigits, spec_ofLE_leDigits, Nat.mod_eq_of_lt hx]; exact ⟨rfl, rfl⟩

/-- `io::write` then `io::read` in the same byte order gives the value back, consumes exactly what was written and
leaves the rest of the stream alone: every width, signedness, byte order, machine and value. -/
theorem read_write_roundtrip (native : Endian) (t : IntTy) (v : Int) (e : Endian) (rest : List Byte)
    (ht : 0 < t.bytes) (hv : t.InRange v) :
    ∃ out, write native t [] v e = .ok out ∧ out.length = t.bytes ∧ read native t (out ++ rest) e = .ok (some v, rest) := by
  obtain ⟨x, hx⟩ : ∃ x, convert native t v e = .ok x := by
    unfold convert; split
    · exact ⟨_, rfl⟩
    · exact ⟨_, swap_eq native t v⟩
  have hback : convert native t x e = .ok v := by
    have := convert_roundtrip native t v e ht hv
    simpa [hx, bind, Except.bind] using this
  have hxr : t.InRange x := by
    unfold convert at hx; split at hx
    · cases hx; exact hv
    · rw [swap_eq] at hx; cases hx; exact ofObjRep_inRange native t _ ht (by simp)
  refine ⟨objRep native t x, by simp [write, hx, bind, Except.bind, pure, Except.pure], by simp, ?_⟩
  unfold read
  rw [if_neg (by simp)]
  simp only [List.take_left' (length_objRep native t x), List.drop_left' (length_objRep native t x),
    ofObjRep_objRep native t x ht hxr, hback, bind, Except.bind, pure, Except.pure]

/-- A stream that holds fewer than `sizeof(Type)` bytes never yields a value (no value from a partial read). -/
theorem read_short_input_fails (native : Endian) (t : IntTy) (s : List Byte) (e : Endian) (h : s.length < t.bytes) :
    read native t s e = .ok (none, []) := by
  simp [read, h, pure, Except.pure]

/-- Conversely a value is only ever produced from `sizeof(Type)` bytes, it is a value of the type, and writing it
reproduces exactly the bytes that were read (reading loses nothing either). -/
theorem read_some_complete (native : Endian) (t : IntTy) (s : List Byte) (e : Endian) (ht : 0 < t.bytes) :
    t.bytes ≤ s.length →
    ∃ v, read native t s e = .ok (some v, s.drop t.bytes) ∧ t.InRange v ∧ write native t [] v e = .ok (s.take t.bytes) := by
  intro hl
  have hlen : (s.take t.bytes).length = t.bytes := by simp; omega
  have hr : t.InRange (ofObjRep native t (s.take t.bytes)) := ofObjRep_inRange native t _ ht hlen
  unfold read
  rw [if_neg (by omega)]
  by_cases h : e = native
  · refine ⟨ofObjRep native t (s.take t.bytes), by simp [convert, h, bind, Except.bind, pure, Except.pure], hr, ?_⟩
    simp [write, convert, h, bind, Except.bind, pure, Except.pure, objRep_ofObjRep native t _ ht hlen]
  · refine ⟨ofObjRep native t (objRep native t (ofObjRep native t (s.take t.bytes))).reverse, ?_, ?_, ?_⟩
    · simp [convert, h, swap_eq, bind, Except.bind, pure, Except.pure]
    · exact ofObjRep_inRange native t _ ht (by simp)
    · simp only [write, convert, if_neg h, swap_eq, bind, Except.bind, pure, Except.pure, List.nil_append]
      rw [objRep_ofObjRep native t _ ht hlen]
      have h2 : ((s.take t.bytes).reverse).length = t.bytes := by rw [List.length_reverse]; exact hlen
      rw [objRep_ofObjRep native t _ ht h2, List.reverse_reverse, objRep_ofObjRep native t _ ht hlen]

/-! ### non-vacuity: concrete values on the little-endian machine of the sandbox -/

def u32 : IntTy := ⟨4, false⟩
def i16 : IntTy := ⟨2, true⟩

example : write .little u32 [] 0x01020304 .big = .ok [1, 2, 3, 4] := by decide
example : write .little u32 [] 0x01020304 .little = .ok [4, 3, 2, 1] := by decide
example : write .little i16 [] (-2) .big = .ok [0xFF, 0xFE] := by decide
example : read .little i16 [0xFF, 0xFE, 7] .big = .ok (some (-2), [7]) := by decide
example : read .little u32 [1, 2, 3] .big = .ok (none, []) := by decide
example : swap .little i16 1 = .ok 256 := by decide
example : swap .little i16 128 = .ok (-32768) := by decide
example : reverseMem [1, 2, 3, 4, 5] = .ok [5, 4, 3, 2, 1] := by decide
example : u32.InRange 0x01020304 ∧ i16.InRange (-2) := by decide

end Fcppt.C15
