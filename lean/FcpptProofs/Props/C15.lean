import FcpptProofs.C15.Bytes
import FcpptProofs.C15.Extract
import FcpptProofs.C15.EnumVec
import FcpptProofs.C15.Old
import FcpptProofs.C15.Widen
import FcpptProofs.C15.Stream
import FcpptProofs.C15.TextExt
import FcpptProofs.C15.Toy
/-!
# C15 — textual and binary encodings round-trip losslessly: property theorems

Model: `FcpptModel/Model/C15/*.lean`, meanings: `FcpptModel/Spec/C15.lean`, lemmas: `FcpptProofs/C15/*.lean`.
-/
namespace Fcppt.C15

/-! ## byte order (`reverse_mem`, `endianness::swap/convert`, `io::write/read`) -/

/-- The index loop of `reverse_mem.cpp` never leaves the buffer and reverses it (every length, every element type). -/
theorem reverse_mem_is_reverse {α : Type} (d : List α) : reverseMem d = .ok d.reverse :=
  reverseMem_eq_reverse d

theorem reverse_involutive {α : Type} (d : List α) : (reverseMem d >>= reverseMem) = .ok d := by
  simp [reverseMem_eq_reverse, bind, Except.bind]

/-- `swap(swap(v)) = v` for every value of every integer type of `bytes ≥ 1` bytes, on either kind of machine. -/
theorem swap_swap (native : Endian) (t : IntTy) (v : Int) (ht : 0 < t.bytes) (hv : t.InRange v) :
    (swap native t v >>= swap native t) = .ok v := by
  simp only [swap_eq, bind, Except.bind]
  rw [objRep_ofObjRep native t _ ht (by simp), List.reverse_reverse, ofObjRep_objRep native t v ht hv]

/-- `swap` stays inside the type (it is a permutation of the type's values). -/
theorem swap_in_range (native : Endian) (t : IntTy) (v : Int) (ht : 0 < t.bytes) :
    ∃ r, swap native t v = .ok r ∧ t.InRange r :=
  ⟨_, swap_eq native t v, ofObjRep_inRange native t _ ht (by simp)⟩

/-- `convert(convert(v, e), e) = v` for both values of `e` (host → format → host). -/
theorem convert_roundtrip (native : Endian) (t : IntTy) (v : Int) (e : Endian) (ht : 0 < t.bytes) (hv : t.InRange v) :
    (convert native t v e >>= fun x => convert native t x e) = .ok v := by
  unfold convert
  by_cases h : e = native
  · simp [h, bind, Except.bind, pure, Except.pure]
  · simp only [if_neg h]; exact swap_swap native t v ht hv

/-- The bytes `io::write` emits for `std::endian::big` are the base-256 digits of the value's (two's complement)
bits, most significant first — whatever the machine's own order is; they are appended to what the stream held. -/
theorem write_bytes_big_is_msb_first (native : Endian) (t : IntTy) (s : List Byte) (v : Int) (ht : 0 < t.bytes) (hv : t.InRange v) :
    ∃ out, write native t s v .big = .ok (s ++ out) ∧ out.map Fin.val = Spec.beDigits t.bytes (Spec.twos t.bits v) := by
  rw [← toU_eq_twos t v ht hv, beDigits_eq_reverse, ← leBytes_map_val]
  cases native
  · refine ⟨(leBytes t.bytes (toU t v)).reverse, ?_, by simp⟩
    simp only [write, convert, swap_eq, bind, Except.bind, pure, Except.pure, if_neg (by decide : Endian.big ≠ Endian.little)]
    rw [objRep_ofObjRep _ t _ ht (by simp)]; simp [objRep]
  · exact ⟨(leBytes t.bytes (toU t v)).reverse, by simp [write, convert, objRep, bind, Except.bind, pure, Except.pure], by simp⟩

/-- … and least significant first for `std::endian::little`. -/
theorem write_bytes_little_is_lsb_first (native : Endian) (t : IntTy) (s : List Byte) (v : Int) (ht : 0 < t.bytes) (hv : t.InRange v) :
    ∃ out, write native t s v .little = .ok (s ++ out) ∧ out.map Fin.val = Spec.leDigits t.bytes (Spec.twos t.bits v) := by
  rw [← toU_eq_twos t v ht hv, ← leBytes_map_val]
  cases native
  · exact ⟨leBytes t.bytes (toU t v), by simp [write, convert, objRep, bind, Except.bind, pure, Except.pure], rfl⟩
  · refine ⟨leBytes t.bytes (toU t v), ?_, rfl⟩
    simp only [write, convert, swap_eq, bind, Except.bind, pure, Except.pure, if_neg (by decide : Endian.little ≠ Endian.big)]
    rw [objRep_ofObjRep _ t _ ht (by simp)]; simp [objRep]

/-- The digit lists of the two theorems above determine the number (so the byte layout loses nothing):
Horner evaluation gives back the `8·n`-bit pattern. -/
theorem digits_value (n x : Nat) (hx : x < 256 ^ n) :
    Spec.ofBE (Spec.beDigits n x) = x ∧ Spec.ofLE (Spec.leDigits n x) = x := by
  rw [spec_ofBE_beDigits, spec_ofLE_leDigits, Nat.mod_eq_of_lt hx]; exact ⟨rfl, rfl⟩

/-- `io::write` then `io::read` in the same byte order gives the value back, consumes exactly what was written and
leaves the rest of the stream alone: every width, signedness, byte order, machine and value. -/
theorem read_write_roundtrip (native : Endian) (t : IntTy) (v : Int) (e : Endian)
    (ht : 0 < t.bytes) (hv : t.InRange v) :
    ∃ out, write native t [] v e = .ok out ∧ out.length = t.bytes ∧
      ∀ rest, read native t (out ++ rest) e = .ok (some v, rest) := by
  obtain ⟨x, hx⟩ : ∃ x, convert native t v e = .ok x := by
    unfold convert; split
    · exact ⟨_, rfl⟩
    · exact ⟨_, swap_eq native t v⟩
  have hback : convert native t x e = .ok v := by
    have := convert_roundtrip native t v e ht hv
    simpa [hx, bind, Except.bind] using this
  have hxr : t.InRange x := by
    unfold convert at hx; split at hx
    · cases hx; exact hv
    · rw [swap_eq] at hx; cases hx; exact ofObjRep_inRange native t _ ht (by simp)
  refine ⟨objRep native t x, by simp [write, hx, bind, Except.bind, pure, Except.pure], by simp, fun rest => ?_⟩
  unfold read
  rw [if_neg (by simp)]
  simp only [List.take_left' (length_objRep native t x), List.drop_left' (length_objRep native t x),
    ofObjRep_objRep native t x ht hxr, hback, bind, Except.bind, pure, Except.pure]

/-- Any number of values written to one stream come back in order, exactly `n · sizeof(Type)` bytes are used and one
more read fails without a value. -/
theorem read_write_many_roundtrip (native : Endian) (t : IntTy) (e : Endian) (vs : List Int)
    (ht : 0 < t.bytes) (hv : ∀ v ∈ vs, t.InRange v) :
    ∃ out, writeAll native t e vs [] = .ok out ∧ out.length = t.bytes * vs.length ∧
      readN native t e (vs.length + 1) out = .ok (vs, []) := by
  -- generalised over what the stream already holds (for writing) and how many more reads follow
  have key : ∀ (vs : List Int), (∀ v ∈ vs, t.InRange v) → ∀ (pre : List Byte),
      ∃ out, writeAll native t e vs pre = .ok (pre ++ out) ∧ out.length = t.bytes * vs.length ∧
        ∀ n, readN native t e (vs.length + n) out = (readN native t e n []).map (fun p => (vs ++ p.1, p.2)) := by
    intro vs
    induction vs with
    | nil =>
      intro _ pre
      refine ⟨[], by simp [writeAll, pure, Except.pure], by simp, fun n => ?_⟩
      simp only [List.length_nil, Nat.zero_add, List.nil_append]
      cases readN native t e n [] <;> rfl
    | cons v vs ih =>
      intro hv pre
      obtain ⟨o1, hw1, hl1, hr1⟩ := read_write_roundtrip native t v e ht (hv v (by simp))
      have hwpre : write native t pre v e = .ok (pre ++ o1) := by
        unfold write at hw1 ⊢
        cases hc : convert native t v e with
        | error f => simp [hc, bind, Except.bind] at hw1
        | ok x => simp [hc, bind, Except.bind, pure, Except.pure] at hw1 ⊢; rw [← hw1]
      obtain ⟨o2, hw2, hl2, hr2⟩ := ih (fun x hx => hv x (by simp [hx])) (pre ++ o1)
      refine ⟨o1 ++ o2, ?_, ?_, fun n => ?_⟩
      · simp only [writeAll, List.foldlM_cons, hwpre, bind, Except.bind] at hw2 ⊢
        rw [hw2, List.append_assoc]
      · simp only [List.length_append, List.length_cons, hl1, hl2, Nat.mul_add, Nat.mul_one]; omega
      · rw [show (v :: vs).length + n = (vs.length + n) + 1 by simp only [List.length_cons]; omega]
        simp only [readN, hr1 o2, bind, Except.bind, hr2 n]
        cases readN native t e n [] <;> simp [Except.map, pure, Except.pure]
  obtain ⟨out, hw, hl, hr⟩ := key vs hv []
  refine ⟨out, by simpa using hw, hl, ?_⟩
  rw [hr 1]
  have hshort : read native t [] e = .ok (none, []) := by simp [read, ht, pure, Except.pure]
  simp [readN, hshort, pure, Except.pure, bind, Except.bind, Except.map]

/-- A stream that holds fewer than `sizeof(Type)` bytes never yields a value (no value from a partial read). -/
theorem read_short_input_fails (native : Endian) (t : IntTy) (s : List Byte) (e : Endian) (h : s.length < t.bytes) :
    read native t s e = .ok (none, []) := by
  simp [read, h, pure, Except.pure]

/-- Conversely a value is only ever produced from `sizeof(Type)` bytes, it is a value of the type, and writing it
reproduces exactly the bytes that were read (reading loses nothing either). -/
theorem read_some_complete (native : Endian) (t : IntTy) (s : List Byte) (e : Endian) (ht : 0 < t.bytes) :
    t.bytes ≤ s.length →
    ∃ v, read native t s e = .ok (some v, s.drop t.bytes) ∧ t.InRange v ∧ write native t [] v e = .ok (s.take t.bytes) := by
  intro hl
  have hlen : (s.take t.bytes).length = t.bytes := by simp; omega
  have hr : t.InRange (ofObjRep native t (s.take t.bytes)) := ofObjRep_inRange native t _ ht hlen
  unfold read
  rw [if_neg (by omega)]
  by_cases h : e = native
  · refine ⟨ofObjRep native t (s.take t.bytes), by simp [convert, h, bind, Except.bind, pure, Except.pure], hr, ?_⟩
    simp [write, convert, h, bind, Except.bind, pure, Except.pure, objRep_ofObjRep native t _ ht hlen]
  · refine ⟨ofObjRep native t (objRep native t (ofObjRep native t (s.take t.bytes))).reverse, ?_, ?_, ?_⟩
    · simp [convert, h, swap_eq, bind, Except.bind, pure, Except.pure]
    · exact ofObjRep_inRange native t _ ht (by simp)
    · simp only [write, convert, if_neg h, swap_eq, bind, Except.bind, pure, Except.pure, List.nil_append]
      rw [objRep_ofObjRep native t _ ht hlen]
      have h2 : ((s.take t.bytes).reverse).length = t.bytes := by rw [List.length_reverse]; exact hlen
      rw [objRep_ofObjRep native t _ ht h2, List.reverse_reverse, objRep_ofObjRep native t _ ht hlen]


/-! ### one `std::stringstream` object (`Model/C15/Stream.lean`): the state bits are shared by both directions -/

/-- Values of ANY mix of arithmetic types and byte orders written to one stream come back in the same order when read
with the same types and byte orders; exactly the bytes written are consumed (`rest` is what the stream held behind
them), the stream stays good. -/
theorem stream_fifo_roundtrip (native : Endian) (items : List Item) (hok : ∀ i ∈ items, 0 < i.t.bytes ∧ i.t.InRange i.v) :
    ∃ s1, ioWriteAll native {} items = .ok s1 ∧ s1.good = true ∧
      ioReadAll native s1 (items.map fun i => (i.t, i.e)) = .ok ({}, items.map fun i => some i.v) := by
  refine ⟨{ buf := wires native items }, ?_, rfl, ?_⟩
  · have := ioWriteAll_good native items {} rfl
    simpa using this
  · have := ioReadAll_wires native items hok { buf := wires native items } [] rfl (by simp)
    simpa using this

/-- … also when the stream already held something and when more follows: writes append, reads take from the front. -/
theorem stream_write_appends_read_takes (native : Endian) (items : List Item) (hok : ∀ i ∈ items, 0 < i.t.bytes ∧ i.t.InRange i.v)
    (s : BStream) (hg : s.good = true) :
    (∃ out, ioWriteAll native s items = .ok { s with buf := s.buf ++ out } ∧ out.length = (items.map fun i => i.t.bytes).sum ∧
      ∀ rest, ioReadAll native { s with buf := out ++ rest } (items.map fun i => (i.t, i.e)) =
        .ok ({ s with buf := rest }, items.map fun i => some i.v)) := by
  refine ⟨wires native items, ioWriteAll_good native items s hg, ?_, fun rest => ?_⟩
  · clear hok
    induction items with
    | nil => rfl
    | cons i r ih => simp [wires, wire_length] at ih ⊢
  · exact ioReadAll_wires native items hok { s with buf := wires native items ++ rest } rest (by simpa [BStream.good] using hg) rfl

/-- A read from a good stream that holds fewer than `sizeof(Type)` bytes yields no value, swallows what was there and
leaves `eofbit | failbit` behind … -/
theorem stream_short_read_fails (native : Endian) (t : IntTy) (s : BStream) (e : Endian) (hg : s.good = true) (hl : s.buf.length < t.bytes) :
    ioRead native t s e = .ok ({ buf := [], eof := true, fail := true }, none) :=
  ioRead_short native t s e hg hl

/-- … and from then on (until `clear()`) nothing is read and nothing is written: every `io::read` yields no value,
every `io::write` leaves the stream as it is, `write_chars` reports `false`, `read_chars` nothing. -/
theorem stream_failure_is_sticky (native : Endian) (t : IntTy) (s : BStream) (v : Int) (e : Endian) (data : List Byte) (n : Nat)
    (hf : s.fail = true) :
    ioRead native t s e = .ok (s, none) ∧ ioWrite native t s v e = .ok s ∧ writeChars s data = (s, false) ∧ readChars s n = (s, none) := by
  have hg : s.good = false := by simp [BStream.good, hf]
  have hs : ({ s with fail := true } : BStream) = s := by cases s; simp_all
  refine ⟨by rw [ioRead_not_good native t s e hg, hs], ioWrite_not_good native t s v e hg, ?_, ?_⟩
  · simp [writeChars, BStream.put, hg]
  · simp [readChars, BStream.get, BStream.good, hf, hs]

/-- `clear()` makes the stream usable again; what was written before the failure and not yet read is still there. -/
theorem stream_clear_recovers (native : Endian) (t : IntTy) (s : BStream) (v : Int) (e : Endian) (ht : 0 < t.bytes) (hv : t.InRange v)
    (hb : s.buf = []) :
    ∃ s1, ioWrite native t s.clear v e = .ok s1 ∧ ioRead native t s1 e = .ok (s.clear, some v) := by
  have hg : s.clear.good = true := rfl
  refine ⟨_, ioWrite_good native t s.clear v e hg, ?_⟩
  have hbuf : s.clear.buf = [] := hb
  have hread := read_wire native t v e ht hv []
  have := ioRead_good_enough native t { s.clear with buf := s.clear.buf ++ wire native t v e } e rfl
    (by simp [hbuf, wire_length]) v [] (by simpa [hbuf] using hread)
  rw [this]
  simp [BStream.clear, hb]

/-- `write_chars` then `read_chars` of the same count gives the bytes back and leaves the stream good and empty; one
byte more cannot be read: no buffer, never a shorter one. -/
theorem write_chars_read_chars_roundtrip (data : List Byte) :
    writeChars {} data = ({ buf := data }, true) ∧ readChars { buf := data } data.length = ({}, some data) ∧
    readChars { buf := data } (data.length + 1) = ({ buf := [], eof := true, fail := true }, none) := by
  refine ⟨rfl, ?_, ?_⟩
  · simp [readChars, BStream.get, BStream.good]
  · simp [readChars, BStream.get, BStream.good]


/-! ### non-vacuity: concrete values on the little-endian machine of the sandbox -/

def u32 : IntTy := ⟨4, false⟩
def i16 : IntTy := ⟨2, true⟩

example : write .little u32 [] 0x01020304 .big = .ok [1, 2, 3, 4] := by decide
example : write .little u32 [] 0x01020304 .little = .ok [4, 3, 2, 1] := by decide
example : write .little i16 [] (-2) .big = .ok [0xFF, 0xFE] := by decide
example : read .little i16 [0xFF, 0xFE, 7] .big = .ok (some (-2), [7]) := by decide
example : read .little u32 [1, 2, 3] .big = .ok (none, []) := by decide
example : swap .little i16 1 = .ok 256 := by decide
example : swap .little i16 128 = .ok (-32768) := by decide
example : reverseMem [1, 2, 3, 4, 5] = .ok [5, 4, 3, 2, 1] := by decide
example : u32.InRange 0x01020304 ∧ i16.InRange (-2) := by decide
example : (ioWriteAll .little {} [⟨u32, .big, 1⟩, ⟨i16, .little, -2⟩]).map (·.buf) = .ok [0, 0, 0, 1, 0xFE, 0xFF] := by decide
example : ioReadAll .little { buf := [0, 0, 0, 1, 0xFE, 0xFF] } [(u32, .big), (i16, .little), (u32, .big), (i16, .big)] =
    .ok ({ buf := [], eof := true, fail := true }, [some 1, some (-2), none, none]) := by decide


/-! ## decimal text (`output_to_string`, `extract_from_string`) -/

/-- Printing any value of any integer type of 1…8 bytes (that is not a character type) and parsing the text back
gives the value: `extract_from_string<T>(output_to_string(v)) = v`, and the whole text is consumed. -/
theorem extract_output_roundtrip (t : IntTy) (ht : 0 < t.bytes) (h8 : t.bytes ≤ 8) (v : Int) (hv : t.InRange v) :
    extractFromString (.num t) (outputToString (.num t) v) = some v :=
  extractFromString_output_num t ht h8 v hv

/-- Character types (`char`, `signed char`, `unsigned char` = `std::int8_t`/`std::uint8_t`) are written and read as
one character: every value whose character is not white space comes back (needs the `peek()` test of 900f8ee) … -/
theorem extract_output_roundtrip_char (sg : Bool) (v : Int) (hv : IntTy.InRange ⟨1, sg⟩ v) (hs : isSpace (charCode v) = false) :
    extractFromString (.char sg) (outputToString (.char sg) v) = some v := by
  have hc : charValue sg (charCode v) = v := by
    unfold IntTy.InRange IntTy.minVal IntTy.maxVal IntTy.bits at hv
    unfold charValue charCode
    cases sg <;> simp at hv ⊢ <;> omega
  unfold extractFromString extract outputToString IStream.ofString
  simp only [getChar_nonspace _ _ hs, Bool.false_eq_true, if_false, Option.map_some, hc]
  simp [peek, sentry, IStream.good]

/-- … and for the six white-space characters (`\t \n \v \f \r` and space) the extraction skips the character and
reports failure: no value, never a wrong one. -/
theorem extract_output_char_whitespace (sg : Bool) (v : Int) (hs : isSpace (charCode v) = true) :
    extractFromString (.char sg) (outputToString (.char sg) v) = none := by
  unfold extractFromString extract outputToString IStream.ofString getChar sentry IStream.good
  simp [List.dropWhile, hs]

/-- Never truncates: when `extract_from_string<T>` returns a value, the **whole** text was the numeral (white space,
optional sign, digits — nothing behind), the value is the numeral's value and a value of the type. -/
theorem extract_never_truncates (t : IntTy) (ht : 0 < t.bytes) (s : List Ch) (v : Int)
    (h : extractFromString (.num t) s = some v) :
    ∃ neg mag, Spec.IsNumeral s neg mag ∧ t.InRange v ∧ v = Spec.numeralValue t.signed t.bits neg mag :=
  extractFromString_num_some t ht s v h

/-- Anything behind the numeral that is not a further digit makes the extraction fail. -/
theorem extract_rejects_trailing (t : IntTy) (ht : 0 < t.bytes) (h8 : t.bytes ≤ 8) (v : Int) (hv : t.InRange v)
    (c : Ch) (rest : List Ch) (hc : isDigit c = false) :
    extractFromString (.num t) (outputToString (.num t) v ++ c :: rest) = none := by
  have h := extractNum_putInt t ht h8 v hv (c :: rest) (noDigitHead_cons hc)
  unfold extractFromString extract outputToString IStream.ofString
  simp only [h]
  simp [peek, sentry, IStream.good]

/-- A character destination accepts exactly: white space, then one character that is the last one. -/
theorem extract_never_truncates_char (sg : Bool) (s : List Ch) (v : Int) (h : extractFromString (.char sg) s = some v) :
    ∃ ws c, s = ws ++ [c] ∧ (∀ x ∈ ws, Spec.IsSpaceChar x) ∧ isSpace c = false ∧ v = charValue sg c := by
  unfold extractFromString extract IStream.ofString getChar sentry IStream.good at h
  simp only [Bool.not_false, Bool.and_self, if_true, Bool.false_eq_true, if_false] at h
  have hsplit := List.takeWhile_append_dropWhile (p := isSpace) (l := s)
  cases hb : s.dropWhile isSpace with
  | nil => simp [hb] at h
  | cons c r =>
    simp only [hb, List.isEmpty_cons, Bool.false_eq_true, if_false, if_true, Option.map_some] at h
    have hcs : isSpace c = false := by
      cases hc : isSpace c with
      | false => rfl
      | true =>
        have h1 : (s.dropWhile isSpace).head? = some c := by rw [hb]; rfl
        have := List.head?_dropWhile_not (p := isSpace) (l := s)
        rw [h1] at this
        simp [hc] at this
    cases r with
    | nil =>
      refine ⟨s.takeWhile isSpace, c, ?_, takeWhile_space_spec s, hcs, ?_⟩
      · rw [← hb, hsplit]
      · simp [peek, sentry, IStream.good] at h; exact h.symm
    | cons d r => simp [peek, sentry, IStream.good] at h


/-! ### `bool`, strings, other locales -/

/-- `extract_from_string<bool>(output_to_string(b)) = b` for both values. -/
theorem extract_output_roundtrip_bool (b : Bool) : extractFromStringG extractBool (putBool b) = some b := by
  cases b <;> decide

/-- A `bool` is only ever produced from a complete numeral whose value is 0 or 1 (`"2"`, `"1x"`, `"1 "` fail). -/
theorem extract_bool_never_truncates (s : List Ch) (b : Bool) (h : extractFromStringG extractBool s = some b) :
    ∃ neg mag, Spec.IsNumeral s neg mag ∧ (if b then (1 : Int) else 0) = Spec.numeralValue true 64 neg mag := by
  obtain ⟨neg, mag, hn, _, hv⟩ := extractFromString_num_some ⟨8, true⟩ (by decide) s _ (extractBool_as_long s b h)
  exact ⟨neg, mag, hn, hv⟩

/-- Strings: `os << s` writes `s`; `extract_from_string<std::string>` gives it back iff it is non-empty and free of
white space (leading white space in the source is skipped) … -/
theorem extract_string_roundtrip (ws w : List Ch) (hws : ∀ c ∈ ws, isSpace c = true) (hne : w ≠ []) (hw : ∀ c ∈ w, isSpace c = false) :
    extractFromStringG extractString (ws ++ w) = some w :=
  extractString_of_word ws w hws hne hw

/-- … and a result is always the WHOLE text behind the leading white space — a string with a blank inside or behind it
is a reported failure, never its first word. -/
theorem extract_string_never_a_part (s w : List Ch) (h : extractFromStringG extractString s = some w) :
    w ≠ [] ∧ (∀ c ∈ w, isSpace c = false) ∧ ∃ ws, (∀ c ∈ ws, isSpace c = true) ∧ s = ws ++ w := by
  obtain ⟨h1, h2, h3⟩ := extractString_some s w h
  exact ⟨h1, h2, s.takeWhile isSpace, takeWhile_all s, h3⟩

theorem extract_string_with_blank_fails (a b : List Ch) (ha : a ≠ []) (haw : ∀ c ∈ a, isSpace c = false) :
    extractFromStringG extractString (a ++ 32 :: b) = none := by
  cases h : extractFromStringG extractString (a ++ 32 :: b) with
  | none => rfl
  | some w =>
    exfalso
    obtain ⟨_, hw, ws, hws, hs⟩ := extract_string_never_a_part _ w h
    -- the first character of `a` is not white space, so `ws` is empty and `w` contains the blank
    cases ws with
    | nil =>
      have : (32 : Ch) ∈ w := by rw [← List.nil_append w, ← hs]; simp
      have := hw 32 this
      simp [isSpace] at this
    | cons c ws =>
      cases a with
      | nil => exact ha rfl
      | cons d a =>
        simp only [List.cons_append, List.cons.injEq] at hs
        have h1 := haw d (by simp)
        have h2 := hws c (by simp)
        rw [← hs.1, h1] at h2
        cases h2

/-- A locale whose `numpunct` groups digits only inserts separators: without them the text is the classic one … -/
theorem grouped_output_is_classic_plus_separators (v : Int) : (putIntGrouped v).filter (· != 44) = putInt v :=
  putIntGrouped_filter v

/-- … so the value comes back. -/
theorem extract_output_roundtrip_grouped (t : IntTy) (ht : 0 < t.bytes) (h8 : t.bytes ≤ 8) (v : Int) (hv : t.InRange v) :
    extractFromString (.num t) ((putIntGrouped v).filter (· != 44)) = some v := by
  rw [putIntGrouped_filter]; exact extract_output_roundtrip t ht h8 v hv

/-- With a locale in which one more character `x` counts as white space (and is neither a digit nor a sign), any run of
white space and `x` in front of the numeral is skipped. -/
theorem extract_other_ctype_skips (x : Ch) (hx : isDigit x = false ∧ x ≠ 45) (t : IntTy) (ht : 0 < t.bytes) (h8 : t.bytes ≤ 8)
    (v : Int) (hv : t.InRange v) (pre : List Ch) (hpre : ∀ c ∈ pre, isSpace c = true ∨ c = x) :
    extractFromStringX x t (pre ++ putInt v) = some v := by
  obtain ⟨c, r, hp, hc⟩ := putInt_head' v
  have hcs : (isSpace c || c == x) = false := by
    rcases hc with rfl | hc
    · have : (45 == x) = false := by simp; exact fun h => hx.2 h.symm
      simp [isSpace, this]
    · have h1 := isSpace_digit hc
      have : (c == x) = false := by
        simp; intro h; rw [h] at hc; rw [hx.1] at hc; cases hc
      simp [h1, this]
  unfold extractFromStringX
  rw [dropWhile_pre pre _ (fun c hc' => by rcases hpre c hc' with h | h <;> simp [h])]
  rw [hp, List.dropWhile_cons_of_neg (by simp [hcs]), ← hp]
  exact extract_output_roundtrip t ht h8 v hv

/-! ### the defect repaired by 900f8ee, refuted on a witness: with `iss.eof()` no character could ever be extracted -/

example : Old.extractFromString (.char true) [97] = none := by decide
example : extractFromString (.char true) [97] = some 97 := by decide
/-- for number types both tests agree on this input -/
example : Old.extractFromString (.num i16) [45, 49, 50] = some (-12) ∧ extractFromString (.num i16) [45, 49, 50] = some (-12) := by decide

/-! ### non-vacuity -/
example : outputToString (.num i16) (-32768) = [45, 51, 50, 55, 54, 56] := by decide
example : extractFromString (.num i16) [32, 45, 51, 50, 55, 54, 56] = some (-32768) := by decide
example : extractFromString (.num i16) [51, 50, 55, 54, 56] = none := by decide          -- 32768 overflows short
example : extractFromString (.num ⟨2, false⟩) [45, 49] = some 65535 := by decide         -- "-1" into unsigned short (num_get rule)
example : extractFromString (.num i16) [49, 50, 32] = none := by decide                  -- trailing blank

/-! ## enums (`to_string`, `from_string`, `<<`, `>>`) over a names table -/

/-- `from_string(to_string(e)) = e` for every enumerator of every enum whose names are pairwise different. -/
theorem from_string_to_string (names : List (List Ch)) (hn : names.Nodup) (e : Nat) (he : e < names.length) :
    ∃ n, enumToString names e = .ok n ∧ enumFromString names n = some e := by
  refine ⟨names[e], by simp [enumToString, he], ?_⟩
  exact indexOf_getElem names hn e _ (by simp [he])

/-- `to_string(from_string(s)) = s` whenever `from_string` finds something (no assumption on the table), and it finds
the first enumerator with that name. -/
theorem to_string_from_string (names : List (List Ch)) (s : List Ch) (e : Nat) (h : enumFromString names s = some e) :
    enumToString names e = .ok s ∧ ∀ j, j < e → enumToString names j ≠ .ok s := by
  obtain ⟨h1, h2⟩ := indexOf_some names s e h
  refine ⟨by simp [enumToString, h1], fun j hj hc => ?_⟩
  unfold enumToString at hc
  cases hj' : names[j]? with
  | none => simp [hj'] at hc
  | some n => simp [hj'] at hc; exact h2 j hj (by rw [hj', hc])

/-- `from_string` fails exactly on the strings that are not a name. -/
theorem from_string_none_iff (names : List (List Ch)) (s : List Ch) : enumFromString names s = none ↔ s ∉ names :=
  indexOf_none names s

/-- Stream output then stream input gives the enumerator back and stops right behind the name (at the end of the
text or in front of white space), for every enumerator whose name is non-empty and free of white space and NUL. -/
theorem enum_stream_roundtrip (names : List (List Ch)) (hn : names.Nodup) (e : Nat) (n : List Ch) (rest : List Ch)
    (hname : enumToString names e = .ok n) (hne : n ≠ []) (hw : ∀ c ∈ n, isSpace c = false ∧ c ≠ 0) (hr : SpaceHead rest) :
    ∃ out, enumOutput names [] e = .ok out ∧
      enumInput names { buf := out ++ rest, eof := false, fail := false } = ({ buf := rest, eof := rest.isEmpty, fail := false }, some e) := by
  refine ⟨n, by simp [enumOutput, hname, bind, Except.bind, pure, Except.pure], ?_⟩
  have hidx : names[e]? = some n := by
    unfold enumToString at hname
    cases h : names[e]? with
    | none => simp [h] at hname
    | some m => simp [h] at hname; rw [hname]
  have hnar : narrowString n = some n := by
    unfold narrowString
    rw [if_neg]
    simp only [List.any_eq_true, not_exists, not_and]
    intro c hc; simp; exact (hw c hc).2
  unfold enumInput
  rw [getWord_word n rest hne (fun c hc => (hw c hc).1) hr]
  simp [hnar, enumFromString, indexOf_getElem names hn e n hidx]


/-- What stream input does on ANY text and ANY names table (duplicates, blanks, empty names allowed): it skips white
space, takes the first word up to the next white space (or the end), and the result is `from_string` of exactly that
word — the first enumerator carrying it — or `failbit` if it is not a name or contains a NUL; the stream stops right
behind the word.  So a name with a blank inside can never be read back as a whole (its first word is looked up), and a
duplicated name reads back as the first enumerator with that name. -/
theorem enum_input_is_from_string_of_first_word (names : List (List Ch)) (ws w rest : List Ch) (hws : ∀ c ∈ ws, isSpace c = true)
    (hne : w ≠ []) (hw : ∀ c ∈ w, isSpace c = false) (hr : SpaceHead rest) :
    enumInput names (IStream.ofString (ws ++ (w ++ rest))) =
      match (narrowString w).bind (enumFromString names) with
      | some e => ({ buf := rest, eof := rest.isEmpty, fail := false }, some e)
      | none => ({ buf := rest, eof := rest.isEmpty, fail := true }, none) :=
  enumInput_word names ws w rest hws hne hw hr

/-- … the same through a `wchar_t` stream (a character outside ASCII cannot be narrowed: failure). -/
theorem enum_input_wide_is_from_string_of_first_word (names : List (List Ch)) (ws w rest : List Ch) (hws : ∀ c ∈ ws, isSpace c = true)
    (hne : w ≠ []) (hw : ∀ c ∈ w, isSpace c = false) (hr : SpaceHead rest) :
    enumInputW names (IStream.ofString (ws ++ (w ++ rest))) =
      match (narrowStringW w).bind (enumFromString names) with
      | some e => ({ buf := rest, eof := rest.isEmpty, fail := false }, some e)
      | none => ({ buf := rest, eof := rest.isEmpty, fail := true }, none) :=
  enumInputW_word names ws w rest hws hne hw hr

/-- At the end of the text (only white space left) input fails with `eofbit | failbit` and stores nothing. -/
theorem enum_input_at_end_fails (names : List (List Ch)) (ws : List Ch) (hws : ∀ c ∈ ws, isSpace c = true) :
    enumInput names (IStream.ofString ws) = ({ buf := [], eof := true, fail := true }, none) :=
  enumInput_no_word names ws hws

/-- Stream round trip without assuming distinct names: what comes back is the FIRST enumerator with that name. -/
theorem enum_stream_roundtrip_first (names : List (List Ch)) (e : Nat) (n : List Ch) (ws rest : List Ch)
    (hname : enumToString names e = .ok n) (hne : n ≠ []) (hw : ∀ c ∈ n, isSpace c = false ∧ c ≠ 0)
    (hws : ∀ c ∈ ws, isSpace c = true) (hr : SpaceHead rest) :
    ∃ out e', enumOutput names [] e = .ok out ∧ enumFromString names n = some e' ∧ e' ≤ e ∧ enumToString names e' = .ok n ∧
      enumInput names (IStream.ofString (ws ++ (out ++ rest))) = ({ buf := rest, eof := rest.isEmpty, fail := false }, some e') := by
  have hidx : names[e]? = some n := by
    unfold enumToString at hname
    cases h : names[e]? with
    | none => simp [h] at hname
    | some m => simp [h] at hname; rw [hname]
  have hmem : n ∈ names := List.mem_of_getElem? hidx
  cases hf : enumFromString names n with
  | none => exact absurd hmem ((from_string_none_iff names n).1 hf)
  | some e' =>
    obtain ⟨h1, h2⟩ := to_string_from_string names n e' hf
    have hle : e' ≤ e := by
      apply Nat.le_of_not_lt
      intro hlt
      exact h2 e hlt hname
    have hnar : narrowString n = some n := by
      unfold narrowString
      rw [if_neg]
      simp only [List.any_eq_true, not_exists, not_and]
      intro c hc; simp; exact (hw c hc).2
    refine ⟨n, e', by simp [enumOutput, hname, bind, Except.bind, pure, Except.pure], rfl, hle, h1, ?_⟩
    rw [enumInput_word names ws n rest hws hne (fun c hc => (hw c hc).1) hr]
    simp [hnar, hf]

/-! ### non-vacuity and the role of the hypothesis: with a duplicated name the first enumerator wins -/
example : enumFromString [[97], [98], [97]] [97] = some 0 := by decide
example : enumToString [[97], [98], [97]] 2 = .ok [97] := by decide
example : ([[102, 111, 111], [98, 97, 114]] : List (List Ch)).Nodup := by decide
example : enumInput [[102, 111, 111], [98, 97, 114]] (IStream.ofString [32, 98, 97, 114, 10]) =
    ({ buf := [10], eof := false, fail := false }, some 1) := by decide
example : (enumInput [[102, 111, 111], [98, 97, 114]] (IStream.ofString [98, 97])).2 = none := by decide

/-! ## vectors and dims (`(a,b,c)`) -/

/-- Writing a vector of any length whose elements are values of the element type and reading it back gives the same
elements, consumes exactly the text written and leaves the stream good. -/
theorem vector_input_output_roundtrip (t : IntTy) (ht : 0 < t.bytes) (h8 : t.bytes ≤ 8) (vs : List Int)
    (hv : ∀ v ∈ vs, t.InRange v) (rest : List Ch) :
    vecInput t vs.length (IStream.ofString (vecOutput vs [] ++ rest)) = ({ buf := rest, eof := false, fail := false }, vs) := by
  unfold vecInput IStream.ofString
  rw [vecOutput_eq]
  simp only [List.nil_append, List.append_assoc, List.cons_append]
  rw [expect_match 40 _ (by decide)]
  have h := vecInputLoop_body t ht h8 vs hv rest []
  rw [h]
  simp only [List.reverse_nil, List.nil_append]
  rw [expect_match 41 _ (by decide)]


/-- White space is tolerated in front of `(`, around every number and in front of `)`: any such text reads as the same
vector, and the stream stops right behind `)`. -/
theorem vector_input_whitespace_tolerant (t : IntTy) (ht : 0 < t.bytes) (h8 : t.bytes ≤ 8)
    (w0 : List Ch) (items : List (List Ch × Int × List Ch)) (rest : List Ch) (hw0 : AllSpace w0)
    (hi : ∀ i ∈ items, AllSpace i.1 ∧ t.InRange i.2.1 ∧ AllSpace i.2.2) :
    vecInput t items.length (IStream.ofString (w0 ++ 40 :: (vecBodyWs items ++ 41 :: rest))) =
      ({ buf := rest, eof := false, fail := false }, items.map (·.2.1)) := by
  simp only [vecInput, IStream.ofString, expect_ws w0 40 _ hw0 (by decide), vecInputLoop_bodyWs t ht h8 items hi rest [],
    List.reverse_nil, List.nil_append]
  cases hitems : items with
  | nil => simp [expect_match 41 _ (by decide)]
  | cons i r =>
    simp only [reduceCtorEq, if_false]
    have hsp : AllSpace (((i :: r).getLast?.map (·.2.2)).getD []) := by
      cases hl : (i :: r).getLast? with
      | none => intro c hc; simp at hc
      | some x =>
        have := hi x (by rw [hitems]; exact List.mem_of_getLast? hl)
        simpa using this.2.2
    rw [expect_ws _ 41 rest hsp (by decide)]

/-- Several vectors written one after another (white space between them allowed) are read back one by one from the
same stream: each `>>` stops right behind its `)`. -/
theorem vector_sequence_roundtrip (t : IntTy) (ht : 0 < t.bytes) (h8 : t.bytes ≤ 8) (n : Nat)
    (items : List (List Ch × List Int)) (hi : ∀ i ∈ items, AllSpace i.1 ∧ i.2.length = n ∧ ∀ v ∈ i.2, t.InRange v) (rest : List Ch) :
    vecInputMany t n items.length (IStream.ofString ((items.flatMap fun i => i.1 ++ vecOutput i.2 []) ++ rest)) =
      ({ buf := rest, eof := false, fail := false }, items.map (·.2)) := by
  induction items with
  | nil => simp [vecInputMany, IStream.ofString]
  | cons i r ih =>
    obtain ⟨sep, vs⟩ := i
    obtain ⟨hsep, hlen, hv⟩ := hi (sep, vs) (by simp)
    have ih' := ih (fun x hx => hi x (by simp [hx]))
    simp only [List.length_cons, vecInputMany, List.flatMap_cons, List.append_assoc, List.map_cons]
    -- the first vector: the whitespace-tolerant theorem with no white space inside
    have h1 := vector_input_whitespace_tolerant t ht h8 sep (vs.map fun v => ([], v, [])) ((r.flatMap fun i => i.1 ++ vecOutput i.2 []) ++ rest) hsep
      (by intro x hx; obtain ⟨v, hvm, rfl⟩ := List.mem_map.1 hx; exact ⟨by intro c hc; simp at hc, hv v hvm, by intro c hc; simp at hc⟩)
    rw [List.length_map, vecBodyWs_plain, hlen] at h1
    have hout : vecOutput vs [] = 40 :: (vecBody vs ++ [41]) := by simp [vecOutput_eq]
    simp only [hout, List.cons_append, List.append_assoc, List.nil_append, IStream.ofString] at h1 ih' ⊢
    simp only [h1, ih', List.map_map]
    simp [Function.comp_def]

/-- Matrix output is `one_dimensional_output` over the rows: `(` row `,` row … `)` with every row printed as a vector
(there is no matrix input operator; each row is text that `>>` of a vector reads back by the theorems above). -/
theorem matrix_output_is_rows (rows : List (List Int)) (out : List Ch) :
    matOutput rows out = out ++ [40] ++ matBody rows ++ [41] := by
  simp [matOutput, matOutputLoop_eq]

example : matOutput [[1, 2], [3, -4]] [] = [40, 40, 49, 44, 50, 41, 44, 40, 51, 44, 45, 52, 41, 41] := by decide

example : vecOutput [1, -2, 3] [] = [40, 49, 44, 45, 50, 44, 51, 41] := by decide
example : vecInput ⟨4, true⟩ 2 (IStream.ofString [40, 32, 49, 32, 44, 50, 41, 120]) = ({ buf := [120], eof := false, fail := false }, [1, 2]) := by decide
/-- a missing `)` is a failure -/
example : (vecInput ⟨4, true⟩ 2 (IStream.ofString [40, 49, 44, 50])).1.fail = true := by decide


/-! ### the stream helpers `io::peek`, `io::get`, `io::expect` -/

/-- `io::peek` does not consume and does not change the state when it sees a character: `io::get` right after it
returns that character and removes exactly it. -/
theorem get_after_peek (s : IStream) (c : Ch) (h : (peek s).2 = some c) :
    ∃ r, (peek s).1 = s ∧ s.buf = c :: r ∧ ioGet s = ({ s with buf := r }, some c) :=
  get_after_peek' s c h

/-- `io::expect(stream, c)` skips white space and consumes exactly one further character; `failbit` is set iff that
character is not `c` (the stream does not put it back) … -/
theorem expect_consumes_one_character (ws : List Ch) (d : Ch) (rest : List Ch) (c : Ch) (hws : ∀ x ∈ ws, isSpace x = true) (hd : isSpace d = false) :
    expect (IStream.ofString (ws ++ d :: rest)) c = { buf := rest, eof := false, fail := decide (d ≠ c) } :=
  expect_spec' ws d rest c hws hd

/-- … and at the end of the text it fails with `eofbit | failbit`. -/
theorem expect_at_end_fails (ws : List Ch) (c : Ch) (hws : ∀ x ∈ ws, isSpace x = true) :
    expect (IStream.ofString ws) c = { buf := [], eof := true, fail := true } :=
  expect_at_end' ws c hws

/-- `enum_::array` output: `[` name `=` value `,` … `]`, names in enumerator order. -/
theorem enum_array_output_form (names : List (List Ch)) (vals : List Int) (out : List Ch) :
    enumArrayOutput names vals out = out ++ [91] ++ enumArrayBody (names.zip vals) ++ [93] := by
  simp [enumArrayOutput, enumArrayOutputLoop_eq]

example : enumArrayOutput [[97], [98]] [1, -2] [] = [91, 97, 61, 49, 44, 98, 61, 45, 50, 93] := by decide

/-! ## the `impl::codecvt` loop over an arbitrary converter -/

/-- For ANY converter that satisfies the contract (`Contract`: writes inside the window, reads inside the input, what it
wrote is the conversion of what it consumed, output only from consumed input) and any compositional meaning `R` of
"conversion", the loop — from every loop state that can arise, i.e. every buffer size, capacity and growth history —
terminates within the fuel, never faults, and returns a failure or the conversion of the COMPLETE input ending in the
initial state; never a proper prefix.  (`noconv`: the input itself, as the code does.) -/
theorem codecvt_loop_complete_or_fail {σ In Out : Type} (cv : Converter σ In Out) (R : σ → List In → List Out → σ → Prop)
    (hc : Contract cv R) (hR : Compositional R) (string : List In)
    (fuel : Nat) (state : σ) (frm : Nat) (buf : Buf Out)
    (hfrm : frm ≤ string.length) (hinv : R cv.init (string.take frm) buf.data state)
    (hfuel : loopMeasure string.length cv.maxLength frm buf < fuel) :
    ∃ res, codecvtLoop cv string fuel state frm buf = .ok res ∧
      (res = none ∨ (res = some (string.map cv.cast) ∧ ∃ s inp w, (cv.step s inp w).res = .noconv) ∨
        ∃ out s', res = some out ∧ R cv.init string out s' ∧ cv.isInit s' = true) :=
  loop_outcome cv R hc hR string fuel state frm buf hfrm hinv hfuel

/-- … in particular `fcppt::impl::codecvt` itself (initial buffer = length of the input, `2n + 3` iterations suffice). -/
theorem codecvt_complete_or_fail {σ In Out : Type} (cv : Converter σ In Out) (R : σ → List In → List Out → σ → Prop)
    (hc : Contract cv R) (hR : Compositional R) (hinit : cv.isInit cv.init = true) (string : List In) :
    ∃ res, codecvt cv string = .ok res ∧
      (res = none ∨ (res = some (string.map cv.cast) ∧ ∃ s inp w, (cv.step s inp w).res = .noconv) ∨
        ∃ out s', res = some out ∧ R cv.init string out s' ∧ cv.isInit s' = true) :=
  codecvt_outcome cv R hc hR hinit string

/-- Never a proper prefix: if conversion is a function of the input, a result is THE conversion of the whole input. -/
theorem codecvt_never_a_proper_prefix {σ In Out : Type} (cv : Converter σ In Out) (R : σ → List In → List Out → σ → Prop)
    (hc : Contract cv R) (hR : Compositional R) (hinit : cv.isInit cv.init = true)
    (hnn : ∀ s inp w, (cv.step s inp w).res ≠ .noconv)
    (hfun : ∀ a x y s1 s2, R cv.init a x s1 → R cv.init a y s2 → x = y)
    (string : List In) (full : List Out) (sf : σ) (hfull : R cv.init string full sf) (out : List Out)
    (h : codecvt cv string = .ok (some out)) : out = full := by
  obtain ⟨res, hres, ho⟩ := codecvt_outcome cv R hc hR hinit string
  rw [h] at hres
  cases hres
  rcases ho with ho | ⟨_, s, inp, w, hn⟩ | ⟨o, s', ho, hr, _⟩
  · cases ho
  · exact absurd hn (hnn s inp w)
  · cases ho; exact hfun _ _ _ _ _ hr hfull

/-- If moreover the converter does not get stuck on good input (`Live`), good input is converted. -/
theorem codecvt_succeeds_on_good_input {σ In Out : Type} (cv : Converter σ In Out) (R : σ → List In → List Out → σ → Prop)
    (hc : Contract cv R) (Good : σ → List In → Prop) (hl : Live cv Good) (string : List In) (hg : Good cv.init string) :
    ∃ out, codecvt cv string = .ok (some out) :=
  codecvt_succeeds cv R hc Good hl string hg


/-- Termination and absence of faults need no meaning of "conversion" at all: ANY converter that writes inside its
window, reads inside its input and produces output only from consumed input — whatever results it reports, however
untruthful its `max_length()` — makes `impl::codecvt` return (a result or a failure) within `2n + 3` iterations. -/
theorem codecvt_total {σ In Out : Type} (cv : Converter σ In Out)
    (hwin : ∀ s inp w, (cv.step s inp w).produced.length ≤ w) (hbound : ∀ s inp w, (cv.step s inp w).consumed ≤ inp.length)
    (hprog : ∀ s inp w, (cv.step s inp w).produced ≠ [] → 0 < (cv.step s inp w).consumed)
    (hinit : cv.isInit cv.init = true) (string : List In) : ∃ res, codecvt cv string = .ok res := by
  obtain ⟨res, h, _⟩ := codecvt_outcome cv (fun _ _ _ _ => True)
    ⟨hwin, hbound, fun _ _ _ _ => trivial, fun s inp w _ hp => hprog s inp w hp⟩ ⟨fun _ => trivial, fun _ _ => trivial⟩ hinit string
  exact ⟨res, h⟩

/-- The scripted facets the harness installs (every flag set, every `max_length()`, every chunk size, both directions)
are such converters: the model of the loop never faults or diverges on them, so every `toy` line of the correspondence
compares a genuine result. -/
theorem toy_codecvt_total (p : Toy) (wide : Bool) (s : List Nat) : ∃ res, toyCodecvt p wide s = .ok res := by
  have hc := toy_contract p wide
  refine codecvt_total (toyConverter p wide) hc.window hc.bound (fun st inp w hp => ?_) rfl s
  have := (toyGo_spec p st inp w 0 []).2.2.2
  simp only [toyConverter, toyStep] at hp ⊢
  exact this (by simpa using List.length_pos_iff.mpr hp)


/-- The scripted facets are a second, very different instance of the abstract loop theorem (a state that is not initial
between two calls, `noconv`, `error`, `partial` without output, chunked calls, `ok` with input left over): with the
meaning `ToyRel` of their conversion (a function of state and input, `toyRel_functional`), whatever `impl::codecvt`
returns for ANY parameter set and ANY input is the input itself (`noconv`) or THE complete conversion ending in the
initial state — never a part of it. -/
theorem toy_codecvt_complete_or_fail (p : Toy) (wide : Bool) (s : List Nat) :
    ∃ res, toyCodecvt p wide s = .ok res ∧
      (res = none ∨ res = some (s.map (toyConverter p wide).cast) ∨ ∃ out, res = some out ∧ ToyRel 0 s out 0 ∧
        ∀ out' st', ToyRel 0 s out' st' → out' = out ∧ st' = 0) := by
  obtain ⟨res, h, ho⟩ := codecvt_outcome (toyConverter p wide) ToyRel (toy_contract_sound p wide) toyRel_compositional rfl s
  refine ⟨res, h, ?_⟩
  rcases ho with ho | ⟨ho, _⟩ | ⟨out, s', ho, hr, hi⟩
  · exact Or.inl ho
  · exact Or.inr (Or.inl ho)
  · have hs : s' = 0 := by simpa [toyConverter] using hi
    subst hs
    exact Or.inr (Or.inr ⟨out, ho, hr, fun out' st' h' => toyRel_functional h' hr⟩)


/-! non-vacuity: the branches the C.utf8 facet never takes -/
example : toyCodecvt ⟨true, false, false, 3, 0⟩ false [1, 15, 5] = .ok (some [2, 2, 20]) := by decide
/-- chunked calls and a lead unit whose follower arrives in the next call: the state is carried from call to call -/
example : toyCodecvt ⟨true, false, true, 3, 2⟩ false [2, 15, 5, 3] = .ok (some [3, 3, 3, 20, 4]) := by decide
/-- `noconv`: the input itself (sign-extended `char` → `wchar_t`), not what the buffer held so far -/
example : toyCodecvt ⟨true, false, false, 3, 0⟩ false [1, 0xFD] = .ok (some [1, 0xFFFFFFFD]) := by decide
/-- a lead unit at the very end: failure, whether the facet swallows it (`ok`, state not initial) or holds it back (`partial`, nothing written) -/
example : toyCodecvt ⟨true, false, false, 3, 0⟩ false [1, 15] = .ok none ∧ toyCodecvt ⟨false, false, false, 3, 0⟩ false [1, 15] = .ok none := by decide
/-- an untruthful `max_length()` makes the loop give up although the input is fine (a failure, never a part) -/
example : toyCodecvt ⟨true, false, false, 1, 0⟩ false [2] = .ok none ∧ toyCodecvt ⟨true, false, false, 3, 0⟩ false [2] = .ok (some [3, 3, 3]) := by decide

/-- `error` in the first call is a failure, `noconv` in the first call returns the input itself (converted character
by character) — never the buffer. -/
theorem codecvt_first_call_error_or_noconv {σ In Out : Type} (cv : Converter σ In Out) (string : List In) (hne : string ≠ [])
    (hwin : (cv.step cv.init string string.length).produced.length ≤ string.length)
    (hbound : (cv.step cv.init string string.length).consumed ≤ string.length) :
    ((cv.step cv.init string string.length).res = .error → codecvt cv string = .ok none) ∧
    ((cv.step cv.init string string.length).res = .noconv → codecvt cv string = .ok (some (string.map cv.cast))) := by
  have he : string.isEmpty = false := by cases string <;> simp_all
  constructor <;> intro h <;>
  · unfold codecvt
    simp only [he, Bool.false_eq_true, if_false, loopFuel]
    unfold codecvtLoop
    simp only [Buf.create, List.drop_zero, Nat.zero_add]
    rw [if_neg (by omega)]
    simp [h]

/-- The model of the C.utf8 facet (libstdc++ over glibc, validated against the real facet on every run) satisfies the
contract and is live on valid input — the hypotheses above are not vacuous. -/
theorem facet_model_meets_contract :
    Contract utf8Out OutRel ∧ Compositional OutRel ∧ Live utf8Out OutGood ∧
    Contract utf8In DecRel ∧ Compositional DecRel ∧ Live utf8In InGood :=
  ⟨utf8Out_contract, outRel_compositional, utf8Out_live, utf8In_contract, decRel_compositional, utf8In_live⟩

/-! ### the three repaired defects of the loop, refuted on witnesses (`Old.codecvt v`: the loop before the fix) -/

/-- before 59b5504: `narrow(L"ä")` is the empty string, `narrow(L"a\U0010FFFF")` is the prefix `"a"` -/
example : Old.codecvt 0 utf8Out [0xE4] = .ok (some []) := by decide
example : Old.codecvt 0 utf8Out [0x61, 0x10FFFF] = .ok (some [0x61]) := by decide
/-- before 5e38615: `narrow(L"ä\0ä")` loses its last character (`ok` with an exactly full window behind the NUL) -/
example : Old.codecvt 1 utf8Out [0xE4, 0, 0xE4] = .ok (some [0xC3, 0xA4, 0]) := by decide
/-- before ee22c42: `widen("a\xc3")` is `L"a"` (glibc keeps the incomplete byte in the state and reports `ok`) -/
example : Old.codecvt 2 utf8In [0x61, 0xC3] = .ok (some [0x61]) := by decide
/-- now -/
example : narrowLocale [0xE4] = .ok (some [0xC3, 0xA4]) := by decide
example : narrowLocale [0x61, 0x10FFFF] = .ok (some [0x61, 0xF4, 0x8F, 0xBF, 0xBF]) := by decide
example : narrowLocale [0xE4, 0, 0xE4] = .ok (some [0xC3, 0xA4, 0, 0xC3, 0xA4]) := by decide
example : widenLocale [0x61, 0xC3] = .ok none := by decide

/-! ## UTF-8 -/

/-- The encoder is UTF-8 by its bit layout; Unicode scalar values are valid and take at most four bytes. -/
theorem encode_is_utf8 (c : Nat) : encodeWc c = Spec.utf8Encode c := encodeWc_eq_spec c

theorem scalar_is_valid (c : Nat) (h : Spec.IsScalar c) : validWc c = true ∧ (Spec.utf8Encode c).length ≤ 4 :=
  ⟨scalar_valid c h, scalar_len c h⟩

/-- decode ∘ encode = id for every list (any length) of valid characters — all scalar values among them —, and the
decoder is a function: the encoding loses nothing. -/
theorem decode_encode (ws : List Nat) (hv : ∀ c ∈ ws, validWc c = true) :
    DecRel [] (Spec.utf8EncodeAll ws) ws [] ∧ ∀ out p, DecRel [] (Spec.utf8EncodeAll ws) out p → out = ws ∧ p = [] := by
  rw [← encodeAll_eq_spec ws hv]
  exact ⟨decRel_encodeAll ws hv, fun out p h => decRel_functional h (decRel_encodeAll ws hv)⟩

theorem decode_encode_scalars (ws : List Nat) (hs : ∀ c ∈ ws, Spec.IsScalar c) : DecRel [] (Spec.utf8EncodeAll ws) ws [] :=
  (decode_encode ws (fun c hc => scalar_valid c (hs c hc))).1

/-- the encoding is injective on strings (it is a prefix code) -/
theorem encode_injective (w1 w2 : List Nat) (h1 : ∀ c ∈ w1, validWc c = true) (h2 : ∀ c ∈ w2, validWc c = true)
    (h : Spec.utf8EncodeAll w1 = Spec.utf8EncodeAll w2) : w1 = w2 := by
  have a := (decode_encode w1 h1).1
  rw [h] at a
  exact ((decode_encode w2 h2).2 w1 [] a).1

/-- encode ∘ decode = id: whatever the decoder accepts completely (nothing pending) outside the excluded class is
the encoding of its output, every output character is valid — overlong forms, surrogates, stray and missing
continuation bytes are never accepted. -/
theorem encode_decode (bs out : List Nat) (h : DecRel [] bs out []) (hn : nulWhilePending [] bs = false) :
    bs = Spec.utf8EncodeAll out ∧ ∀ c ∈ out, validWc c = true := by
  obtain ⟨h1, h2⟩ := decRel_sound h hn
  simp only [List.nil_append, List.append_nil] at h1
  exact ⟨by rw [h1, encodeAll_eq_spec out h2], h2⟩

/-! ## `narrow` / `widen` in C.utf8 -/

/-- `narrow_locale` (= `from_std_wstring_locale`): the complete UTF-8 encoding or a failure, never a part of it. -/
theorem narrow_complete_or_fail (ws : List Nat) :
    narrowLocale ws = .ok none ∨ (narrowLocale ws = .ok (some (Spec.utf8EncodeAll ws)) ∧ ∀ c ∈ ws, validWc c = true) := by
  rcases narrowLocale_outcome ws with h | ⟨h, hv⟩
  · exact Or.inl h
  · exact Or.inr ⟨by rw [h, encodeAll_eq_spec ws hv], hv⟩

/-- `widen_locale` (= `to_std_wstring_locale`): a failure, or the decoding of the complete input with nothing pending;
and unless the input belongs to the excluded class of the known finding (a NUL byte arriving while an incomplete
sequence is pending — `nulWhilePending`, e.g. `c3 00 a4`), the input is exactly the UTF-8 encoding of the result. -/
theorem widen_complete_or_fail (bs : List Nat) :
    widenLocale bs = .ok none ∨
    ∃ out, widenLocale bs = .ok (some out) ∧ DecRel [] bs out [] ∧
      (nulWhilePending [] bs = false → bs = Spec.utf8EncodeAll out ∧ ∀ c ∈ out, validWc c = true) := by
  rcases widenLocale_outcome bs with h | ⟨out, h, hd⟩
  · exact Or.inl h
  · exact Or.inr ⟨out, h, hd, fun hn => encode_decode bs out hd hn⟩

/-- NUL-free input of any validity is never in the excluded class: there the strong statement holds unconditionally. -/
theorem widen_complete_or_fail_nul_free (bs : List Nat) (h0 : ∀ b ∈ bs, b ≠ 0) :
    widenLocale bs = .ok none ∨ ∃ out, widenLocale bs = .ok (some out) ∧ bs = Spec.utf8EncodeAll out ∧ ∀ c ∈ out, validWc c = true := by
  rcases widen_complete_or_fail bs with h | ⟨out, h, _, hs⟩
  · exact Or.inl h
  · exact Or.inr ⟨out, h, hs (nulWhilePending_of_no_nul bs h0 [])⟩

/-- The known finding, reproduced by the model: `c3 00 a4` is in the excluded class and is "converted". -/
example : nulWhilePending [] [0xC3, 0x00, 0xA4] = true ∧ widenLocale [0xC3, 0x00, 0xA4] = .ok (some [0, 0xE4]) := by decide
/-- the class is about pending bytes only: a NUL between complete characters is fine -/
example : nulWhilePending [] [0xC3, 0xA4, 0x00, 0xC3, 0xA4] = false ∧
    widenLocale [0xC3, 0xA4, 0x00, 0xC3, 0xA4] = .ok (some [0xE4, 0, 0xE4]) := by decide

/-- `widen(narrow(s)) = s` for every string (every length, embedded NULs allowed) of valid characters, through every
buffer growth path of both loops. -/
theorem narrow_widen_roundtrip (ws : List Nat) (hv : ∀ c ∈ ws, validWc c = true) :
    narrowLocale ws = .ok (some (Spec.utf8EncodeAll ws)) ∧ widenLocale (Spec.utf8EncodeAll ws) = .ok (some ws) := by
  rw [← encodeAll_eq_spec ws hv]
  exact ⟨narrowLocale_valid ws hv, widenLocale_valid ws hv⟩

/-- … in particular for every string of Unicode scalar values U+0000 … U+10FFFF. -/
theorem narrow_widen_roundtrip_scalars (ws : List Nat) (hs : ∀ c ∈ ws, Spec.IsScalar c) :
    narrowLocale ws = .ok (some (Spec.utf8EncodeAll ws)) ∧ widenLocale (Spec.utf8EncodeAll ws) = .ok (some ws) :=
  narrow_widen_roundtrip ws (fun c hc => scalar_valid c (hs c hc))

/-- `narrow(widen(b)) = b` whenever `widen` succeeds outside the excluded class. -/
theorem widen_narrow_roundtrip (bs out : List Nat) (h : widenLocale bs = .ok (some out)) (hn : nulWhilePending [] bs = false) :
    narrowLocale out = .ok (some bs) := by
  rcases widen_complete_or_fail bs with h' | ⟨o, h', _, hs⟩
  · rw [h] at h'; cases h'
  · rw [h] at h'; cases h'
    obtain ⟨hb, hv⟩ := hs hn
    rw [hb]; exact (narrow_widen_roundtrip out hv).1

/-- Invalid input is reported: a string with a character the encoder refuses has no narrow form … -/
theorem narrow_fails_on_invalid (ws : List Nat) (c : Nat) (hc : c ∈ ws) (hbad : validWc c = false) : narrowLocale ws = .ok none := by
  rcases narrow_complete_or_fail ws with h | ⟨_, hv⟩
  · exact h
  · have := hv c hc; rw [hbad] at this; cases this

/-- … and bytes that are not the encoding of anything (outside the excluded class) make `widen` throw. -/
theorem widen_fails_on_invalid (bs : List Nat) (hn : nulWhilePending [] bs = false)
    (hbad : ¬ ∃ ws, (∀ c ∈ ws, validWc c = true) ∧ bs = Spec.utf8EncodeAll ws) : widenLocale bs = .ok none := by
  rcases widen_complete_or_fail bs with h | ⟨out, _, _, hs⟩
  · exact h
  · obtain ⟨hb, hv⟩ := hs hn
    exact absurd ⟨out, hv, hb⟩ hbad


/-! ## to / from `fcppt::string` (`FCPPT_NARROW_STRING`: `fcppt::string` is `std::string`) -/

/-- `to_std_string(from_std_string(s)) = s` for every byte string (no conversion takes place, any locale). -/
theorem to_std_string_from_std_string (s : List Nat) : toStdString (fromStdString s) = some s := rfl

/-- `to_std_wstring(from_std_wstring(ws)) = ws` for every string of valid characters, and `from_std_wstring` either
gives the complete UTF-8 form or fails. -/
theorem to_std_wstring_from_std_wstring (ws : List Nat) (hv : ∀ c ∈ ws, validWc c = true) :
    ∃ bs, fromStdWstring ws = .ok (some bs) ∧ toStdWstring bs = .ok (some ws) :=
  ⟨_, (narrow_widen_roundtrip ws hv).1, (narrow_widen_roundtrip ws hv).2⟩

theorem from_std_wstring_complete_or_fail (ws : List Nat) :
    fromStdWstring ws = .ok none ∨ (fromStdWstring ws = .ok (some (Spec.utf8EncodeAll ws)) ∧ ∀ c ∈ ws, validWc c = true) :=
  narrow_complete_or_fail ws

/-! ### non-vacuity -/
example : Spec.IsScalar 0x10FFFF ∧ Spec.IsScalar 0x1F600 ∧ ¬ Spec.IsScalar 0xD800 := by
  refine ⟨by unfold Spec.IsScalar; omega, by unfold Spec.IsScalar; omega, by unfold Spec.IsScalar; omega⟩
example : Spec.utf8EncodeAll [0x61, 0xE4, 0x20AC, 0x1F600] = [0x61, 0xC3, 0xA4, 0xE2, 0x82, 0xAC, 0xF0, 0x9F, 0x98, 0x80] := by decide
example : widenLocale [0xC0, 0x80] = .ok none ∧ widenLocale [0xED, 0xA0, 0x80] = .ok none ∧ widenLocale [0xE2, 0x82] = .ok none := by decide
example : narrowLocale [0x61, 0xD800] = .ok none := by decide

end Fcppt.C15
