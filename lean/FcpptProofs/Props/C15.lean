/-! Property theorems for C15 — placeholder until the property's model is built. -/
