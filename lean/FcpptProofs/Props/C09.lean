import FcpptModel.Model.C09
/-! Property theorems for C09 (being built). -/
