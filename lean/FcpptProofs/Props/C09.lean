/-! Property theorems for C09 — placeholder until the property's model is built. -/
