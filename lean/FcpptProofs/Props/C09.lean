import FcpptProofs.C09.ToRoot
/-!
# C09 — property theorems

Statement (properties.jsonl): after any sequence of tree operations — also applied to nodes that are children of another
node — every child's `parent()` refers to the node that lists it as a child, a root has no parent, and no link refers to a
destroyed node; `pre_order`, `to_root`, `depth`, `level`, `child_position`, `map` and comparison agree with the same
computations on a plain recursive reference model; copies are deep and independent.

Model: `FcpptModel/Model/C09.lean` (objects with address, `parent_`, by-value child list); reference model: rose trees
`RT` (`FcpptModel/Spec/C09.lean`).  `Inv` (FcpptProofs/C09/Basic.lean): addresses unique and below `next`, roots have
`parent_ = nullptr`, `LinkOK` below every root.  Misuse that creates self-ownership is excluded by `Op.guard`.
-/
namespace Fcppt.C09
open PT

/-- a history: every operation is applied to the heap the previous ones produced; excluded misuse stops the run -/
def runOps : St → List Op → Except Fault St
  | s, [] => .ok s
  | s, op :: ops => if op.guard then step s op >>= fun s' => runOps s' ops else .error .oob

def RT.runOps : List RT → List Op → Option (List RT)
  | F, [] => some F
  | F, op :: ops => RT.step F op >>= fun F' => RT.runOps F' ops

/-! ## the link invariant holds after every history -/

theorem inv_init : Inv St.init :=
  ⟨fun _ => by simp [St.init], fun _ _ => by simp [St.init], fun _ h => by simp [St.init] at h⟩

/-- every member function, on a root or an inner node, preserves the invariant -/
theorem tree_step_inv {s s' : St} {op : Op} (h : Inv s) (hguard : op.guard = true) (hs : step s op = .ok s') : Inv s' :=
  step_inv h hguard hs

theorem history_inv_from : ∀ (ops : List Op) (s s' : St), Inv s → runOps s ops = .ok s' → Inv s'
  | [], s, s', h, hr => by simp only [runOps, Except.ok.injEq] at hr; subst hr; exact h
  | op :: ops, s, s', h, hr => by
    simp only [runOps] at hr
    split at hr
    · rename_i hg
      obtain ⟨s1, h1, h2⟩ := bind_ok.1 hr
      exact history_inv_from ops s1 s' (step_inv h hg h1) h2
    · cases hr

/-- all histories, of any length, over any number of trees -/
theorem history_inv (ops : List Op) (s : St) (hr : runOps St.init ops = .ok s) : Inv s :=
  history_inv_from ops St.init s inv_init hr

/-- every child's `parent()` is exactly the node that lists it -/
theorem child_parent_is_owner {s : St} (h : Inv s) {p : Path} {j : Nat} {n c : PT}
    (hn : getF p s.forest = some n) (hc : n.kids[j]? = some c) : c.parent = some n.id :=
  (kidsOK h.roots hn c (List.mem_of_getElem? hc)).1

/-- a root has no parent -/
theorem root_no_parent {s : St} (h : Inv s) {r : Nat} {t : PT} (ht : s.forest[r]? = some t) : t.parent = none :=
  (h.roots t (List.mem_of_getElem? ht)).1

/-- no link refers to a destroyed node: a non-null `parent_` is the address of a live object, which is the owner,
and dereferencing it (`findF`) yields that object -/
theorem parent_live {s : St} (h : Inv s) {p : Path} {c : PT} {i : Nat}
    (hc : getF p s.forest = some c) (hp : c.parent = some i) :
    ∃ q j o, p = q ++ [j] ∧ getF q s.forest = some o ∧ o.id = i ∧ o.kids[j]? = some c ∧ findF i s.forest = some o := by
  cases p with
  | nil => simp [getF] at hc
  | cons r q =>
    rcases List.eq_nil_or_concat q with rfl | ⟨q', j, rfl⟩
    · simp only [getF] at hc
      cases ht : s.forest[r]? with
      | none => simp [ht] at hc
      | some t =>
        simp only [ht, getT, Option.some.injEq] at hc; subst hc
        rw [root_no_parent h ht] at hp; cases hp
    · simp only [List.concat_eq_append] at hc ⊢
      have hcs := hc
      rw [getF_snoc] at hcs
      cases ho : getF (r :: q') s.forest with
      | none => simp [ho] at hcs
      | some o =>
        simp only [ho, Option.bind_some] at hcs
        have := child_parent_is_owner h ho hcs
        rw [hp, Option.some.injEq] at this
        exact ⟨r :: q', j, o, rfl, ho, this.symm, hcs, this ▸ findF_of_get h.uniq ho⟩

/-- addresses identify objects: two live objects with the same address are the same sub-object -/
theorem address_unique {s : St} (h : Inv s) {p q : Path} {x y : PT}
    (hx : getF p s.forest = some x) (hy : getF q s.forest = some y) (he : x.id = y.id) : p = q :=
  getF_inj h.uniq hx hy he

/-! ## refinement: the heap denotes the forest the abstract operation yields -/

theorem tree_refines {s s' : St} {op : Op} (hs : step s op = .ok s') :
    RT.step (absF s.forest) op = some (absF s'.forest) :=
  step_refines hs

theorem history_refines_from : ∀ (ops : List Op) (s s' : St), runOps s ops = .ok s' →
    RT.runOps (absF s.forest) ops = some (absF s'.forest)
  | [], s, s', hr => by simp only [runOps, Except.ok.injEq] at hr; subst hr; rfl
  | op :: ops, s, s', hr => by
    simp only [runOps] at hr
    split at hr
    · obtain ⟨s1, h1, h2⟩ := bind_ok.1 hr
      simp [RT.runOps, step_refines h1, history_refines_from ops s1 s' h2]
    · cases hr

theorem history_refines (ops : List Op) (s : St) (hr : runOps St.init ops = .ok s) :
    RT.runOps [] ops = some (absF s.forest) :=
  history_refines_from ops St.init s hr

/-! ## observers = reference computations -/

/-- `pre_order` (explicit stack) visits the values in recursive pre-order -/
theorem pre_order_eq (t : PT) : preOrder t = .ok (RT.flatten (abs t)) := preOrder_eq t

/-- `to_root` from the node at path `p` yields the node and its ancestors, root last -/
theorem to_root_eq {s : St} (h : Inv s) {p : Path} {x : PT} (hx : getF p s.forest = some x) :
    toRoot s.forest x = .ok (RT.ancestors p (absF s.forest)) :=
  toRoot_eq h.uniq h.roots hx

theorem level_eq' {s : St} (h : Inv s) {p : Path} {x : PT} (hx : getF p s.forest = some x) :
    level s.forest x = .ok (RT.level p) :=
  level_eq h.uniq h.roots hx

theorem depth_eq' (t : PT) : depth t = RT.depth (abs t) := depth_eq t

theorem child_position_eq {s : St} (h : Inv s) {p c : Path} {P C : PT}
    (hp : getF p s.forest = some P) (hc : getF c s.forest = some C) : childPosition P C = RT.childPos p c :=
  childPosition_eq h.uniq hp hc

/-- `map` builds a tree with consistent links that denotes the mapped rose tree -/
theorem map_eq (f : Int → Int) (n : Nat) (t : PT) :
    abs (mapT f n t) = RT.map f (abs t) ∧ (mapT f n t).parent = none ∧ LinkOK (mapT f n t) :=
  ⟨abs_mapT f t n, mapT_parent f n t, linkOK_mapT f t n⟩

/-- `operator==` decides equality of the denoted rose trees (addresses and links play no role) -/
theorem eq_iff (a b : PT) : eqT a b = true ↔ abs a = abs b := eqT_iff a b

/-! ## copies are deep and independent -/

/-- a copy denotes the same rose tree, consists of fresh objects only (shares no object with anything live),
has consistent links and no parent -/
theorem copy_independent {s : St} (h : Inv s) (t : PT) :
    abs (copyT s.next t) = abs t ∧ (∀ i, 1 ≤ cntL i s.forest → cnt i (copyT s.next t) = 0) ∧
      (∀ i, cnt i (copyT s.next t) ≤ 1) ∧ (copyT s.next t).parent = none ∧ LinkOK (copyT s.next t) := by
  refine ⟨abs_copyT t s.next, fun i hi => ?_, fun i => ?_, copyT_parent _ _, linkOK_copyT _ _⟩
  · have := h.fresh i
    rw [cnt_copyT, if_neg]; omega
  · rw [cnt_copyT]; split <;> omega

/-- later operations on the copy do not change the original (and vice versa): a write below one root leaves every
other root untouched -/
theorem write_local (new : PT) (r : Nat) (q : Path) (F : List PT) (r' : Nat) (hne : r' ≠ r) :
    (putF new (r :: q) F)[r']? = F[r']? := by
  simp only [putF]
  cases F[r]? with
  | none => rfl
  | some t => exact List.getElem?_set_ne (Ne.symm hne)

/-! ## non-vacuity and the repaired defect -/

/-- a history with inner-node operands of every binary kind runs to completion (so the theorems above are not vacuous) -/
example : (runOps St.init
    [.new 1, .insV [0] .back 2, .insV [0, 0] .back 3, .insV [0] .front 4, .copyCtor [0],
     .swap [0, 1] [1], .moveAssign [1, 0] [0, 1], .copyAssign [1, 0, 1] [1], .insT [1] (.at 1) [0, 1],
     .pop [0] .back true, .moveCtor [0, 0], .erase [1] 0, .clear [2], .eraseRange [0] 0 1, .setVal [1, 0] 7,
     .del 0]).toBool = true := by decide +kernel

/-- the unrepaired `swap` (before 05c8c12): values and `parent_` exchanged, child lists exchanged without re-parenting -/
def oldSwap (ta tb : PT) : PT × PT :=
  (.node ta.id tb.val tb.parent tb.kids, .node tb.id ta.val ta.parent ta.kids)

/-- old behaviour, refuted: swapping the inner node `0.0` with the root `1` broke every clause of the invariant -/
example :
    let B : PT := .node 1 20 (some 0) [.node 2 30 (some 1) []]
    let D : PT := .node 3 40 none [.node 4 50 (some 3) []]
    ¬ Roots [.node 0 10 none [(oldSwap B D).1], (oldSwap B D).2] := by
  intro B D h
  have := (h (oldSwap B D).2 (by simp)).1
  simp [oldSwap, B, D] at this

/-- the repaired `swap` on the same heap keeps the invariant (instance of `tree_step_inv`) -/
example : ∀ s', step ⟨[.node 0 10 none [.node 1 20 (some 0) [.node 2 30 (some 1) []]],
    .node 3 40 none [.node 4 50 (some 3) []]], 5⟩ (.swap [0, 0] [1]) = .ok s' → Roots s'.forest := by
  intro s' hs
  simp [step, nodeAt, getF, getT, putF, putT, reparent, bind, Except.bind] at hs
  subst hs
  intro r hr
  simp at hr
  rcases hr with rfl | rfl <;> simp [linkOK_node]

/-- old copy assignment set the receiver's `parent_` to `nullptr`: refuted for a receiver that is a child -/
example : ¬ Roots [.node 0 10 none [(PT.node 1 20 (some 0) []).setParent none]] := by
  intro h
  have h1 := (h _ (List.mem_singleton.2 rfl)).2
  have := (linkOK_node.1 h1 _ (List.mem_singleton.2 rfl)).1
  simp at this

end Fcppt.C09
