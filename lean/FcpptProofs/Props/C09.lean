import FcpptProofs.C09.Sort
import FcpptProofs.C09.Output
import FcpptProofs.C09.Progress
/-!
# C09 — property theorems

Statement (properties.jsonl): after any sequence of tree operations — also applied to nodes that are children of another
node — every child's `parent()` refers to the node that lists it as a child, a root has no parent, and no link refers to a
destroyed node; `pre_order`, `to_root`, `depth`, `level`, `child_position`, `map` and comparison agree with the same
computations on a plain recursive reference model; copies are deep and independent.

Model: `FcpptModel/Model/C09.lean` (objects with address, `parent_`, by-value child list); reference model: rose trees
`RT` (`FcpptModel/Spec/C09.lean`).  `Inv` (FcpptProofs/C09/Basic.lean): addresses unique and below `next`, roots have
`parent_ = nullptr`, `LinkOK` below every root.  Misuse that creates self-ownership is excluded by `Op.guard`.
-/
namespace Fcppt.C09
open PT

/-- a history: every operation is applied to the heap the previous ones produced; excluded misuse stops the run -/
def runOps : St → List Op → Except Fault St
  | s, [] => .ok s
  | s, op :: ops => if op.guard then step s op >>= fun s' => runOps s' ops else .error .oob

def RT.runOps : List RT → List Op → Option (List RT)
  | F, [] => some F
  | F, op :: ops => RT.step F op >>= fun F' => RT.runOps F' ops

/-! ## the link invariant holds after every history -/

theorem inv_init : Inv St.init :=
  ⟨fun _ => by simp [St.init], fun _ _ => by simp [St.init], fun _ h => by simp [St.init] at h⟩

/-- every member function, on a root or an inner node, preserves the invariant -/
theorem tree_step_inv {s s' : St} {op : Op} (h : Inv s) (hguard : op.guard = true) (hs : step s op = .ok s') : Inv s' :=
  step_inv h hguard hs

theorem history_inv_from : ∀ (ops : List Op) (s s' : St), Inv s → runOps s ops = .ok s' → Inv s'
  | [], s, s', h, hr => by simp only [runOps, Except.ok.injEq] at hr; subst hr; exact h
  | op :: ops, s, s', h, hr => by
    simp only [runOps] at hr
    split at hr
    · rename_i hg
      obtain ⟨s1, h1, h2⟩ := bind_ok.1 hr
      exact history_inv_from ops s1 s' (step_inv h hg h1) h2
    · cases hr

/-- all histories, of any length, over any number of trees -/
theorem history_inv (ops : List Op) (s : St) (hr : runOps St.init ops = .ok s) : Inv s :=
  history_inv_from ops St.init s inv_init hr

/-- every child's `parent()` is exactly the node that lists it -/
theorem child_parent_is_owner {s : St} (h : Inv s) {p : Path} {j : Nat} {n c : PT}
    (hn : getF p s.forest = some n) (hc : n.kids[j]? = some c) : c.parent = some n.id :=
  (kidsOK h.roots hn c (List.mem_of_getElem? hc)).1

/-- a root has no parent -/
theorem root_no_parent {s : St} (h : Inv s) {r : Nat} {t : PT} (ht : s.forest[r]? = some t) : t.parent = none :=
  (h.roots t (List.mem_of_getElem? ht)).1

/-- no link refers to a destroyed node: a non-null `parent_` is the address of a live object, which is the owner,
and dereferencing it (`findF`) yields that object -/
theorem parent_live {s : St} (h : Inv s) {p : Path} {c : PT} {i : Nat}
    (hc : getF p s.forest = some c) (hp : c.parent = some i) :
    ∃ q j o, p = q ++ [j] ∧ getF q s.forest = some o ∧ o.id = i ∧ o.kids[j]? = some c ∧ findF i s.forest = some o := by
  cases p with
  | nil => simp [getF] at hc
  | cons r q =>
    rcases List.eq_nil_or_concat q with rfl | ⟨q', j, rfl⟩
    · simp only [getF] at hc
      cases ht : s.forest[r]? with
      | none => simp [ht] at hc
      | some t =>
        simp only [ht, getT, Option.some.injEq] at hc; subst hc
        rw [root_no_parent h ht] at hp; cases hp
    · simp only [List.concat_eq_append] at hc ⊢
      have hcs := hc
      rw [getF_snoc] at hcs
      cases ho : getF (r :: q') s.forest with
      | none => simp [ho] at hcs
      | some o =>
        simp only [ho, Option.bind_some] at hcs
        have := child_parent_is_owner h ho hcs
        rw [hp, Option.some.injEq] at this
        exact ⟨r :: q', j, o, rfl, ho, this.symm, hcs, this ▸ findF_of_get h.uniq ho⟩

/-- addresses identify objects: two live objects with the same address are the same sub-object -/
theorem address_unique {s : St} (h : Inv s) {p q : Path} {x y : PT}
    (hx : getF p s.forest = some x) (hy : getF q s.forest = some y) (he : x.id = y.id) : p = q :=
  getF_inj h.uniq hx hy he

/-! ## progress: valid operations never fault -/

/-- an operation whose operands exist and whose positions are in range, and that is not the excluded self-ownership misuse,
succeeds in the model (no out-of-bounds access, no dangling link followed, terminates) -/
theorem tree_step_progress {s : St} {op : Op} (hg : op.guard = true) (hv : op.valid s.forest) : ∃ s', step s op = .ok s' :=
  step_progress hg hv

/-- and `Op.valid` is not stronger than necessary: an operation that succeeds was valid -/
theorem tree_step_ok_iff_valid {s : St} {op : Op} (hg : op.guard = true) : (∃ s', step s op = .ok s') ↔ op.valid s.forest :=
  ⟨fun ⟨_, h⟩ => valid_of_step_ok hg h, step_progress hg⟩

/-- the observers never fault on a heap that satisfies the invariant: `to_root` / `level` from any live object terminate
without following a dangling link, `pre_order` terminates -/
theorem observers_progress {s : St} (h : Inv s) {p : Path} {x : PT} (hx : getF p s.forest = some x) :
    (∃ l, toRoot s.forest x = .ok l) ∧ (∃ n, level s.forest x = .ok n) ∧ (∃ l, preOrder x = .ok l) :=
  ⟨⟨_, toRoot_eq h.uniq h.roots hx⟩, ⟨_, level_eq h.uniq h.roots hx⟩, ⟨_, preOrder_eq x⟩⟩

/-! ## refinement: the heap denotes the forest the abstract operation yields -/

theorem tree_refines {s s' : St} {op : Op} (hs : step s op = .ok s') :
    RT.step (absF s.forest) op = some (absF s'.forest) :=
  step_refines hs

theorem history_refines_from : ∀ (ops : List Op) (s s' : St), runOps s ops = .ok s' →
    RT.runOps (absF s.forest) ops = some (absF s'.forest)
  | [], s, s', hr => by simp only [runOps, Except.ok.injEq] at hr; subst hr; rfl
  | op :: ops, s, s', hr => by
    simp only [runOps] at hr
    split at hr
    · obtain ⟨s1, h1, h2⟩ := bind_ok.1 hr
      simp [RT.runOps, step_refines h1, history_refines_from ops s1 s' h2]
    · cases hr

theorem history_refines (ops : List Op) (s : St) (hr : runOps St.init ops = .ok s) :
    RT.runOps [] ops = some (absF s.forest) :=
  history_refines_from ops St.init s hr

/-! ## observers = reference computations -/

/-- `pre_order` (explicit stack) visits the values in recursive pre-order -/
theorem pre_order_eq (t : PT) : preOrder t = .ok (RT.flatten (abs t)) := preOrder_eq t

/-- `to_root` from the node at path `p` yields the node and its ancestors, root last -/
theorem to_root_eq {s : St} (h : Inv s) {p : Path} {x : PT} (hx : getF p s.forest = some x) :
    toRoot s.forest x = .ok (RT.ancestors p (absF s.forest)) :=
  toRoot_eq h.uniq h.roots hx

theorem level_eq' {s : St} (h : Inv s) {p : Path} {x : PT} (hx : getF p s.forest = some x) :
    level s.forest x = .ok (RT.level p) :=
  level_eq h.uniq h.roots hx

theorem depth_eq' (t : PT) : depth t = RT.depth (abs t) := depth_eq t

theorem child_position_eq {s : St} (h : Inv s) {p c : Path} {P C : PT}
    (hp : getF p s.forest = some P) (hc : getF c s.forest = some C) : childPosition P C = RT.childPos p c :=
  childPosition_eq h.uniq hp hc

/-- `map` builds a tree with consistent links that denotes the mapped rose tree -/
theorem map_eq (f : Int → Int) (n : Nat) (t : PT) :
    abs (mapT f n t) = RT.map f (abs t) ∧ (mapT f n t).parent = none ∧ LinkOK (mapT f n t) :=
  ⟨abs_mapT f t n, mapT_parent f n t, linkOK_mapT f t n⟩

/-- `operator==` decides equality of the denoted rose trees (addresses and links play no role) -/
theorem eq_iff (a b : PT) : eqT a b = true ↔ abs a = abs b := eqT_iff a b

/-- The property in one statement: after ANY history (that does not contain the excluded misuse and whose operands exist) the
heap satisfies the link invariant, denotes exactly the forest of rose trees the reference model computes for the same history, and
on every live node every observer returns what the reference computation returns on the corresponding reference node. -/
theorem history_summary (ops : List Op) (s : St) (hr : runOps St.init ops = .ok s) :
    Inv s ∧ RT.runOps [] ops = some (absF s.forest) ∧
    ∀ (p : Path) (x : PT), getF p s.forest = some x →
      RT.getF p (absF s.forest) = some (abs x) ∧
      preOrder x = .ok (RT.flatten (abs x)) ∧ toRoot s.forest x = .ok (RT.ancestors p (absF s.forest)) ∧
      level s.forest x = .ok (RT.level p) ∧ depth x = RT.depth (abs x) ∧
      (∀ (c : Path) (C : PT), getF c s.forest = some C → childPosition x C = RT.childPos p c ∧ (eqT x C = true ↔ abs x = abs C)) ∧
      (∀ f n, abs (mapT f n x) = RT.map f (abs x)) := by
  have hi := history_inv ops s hr
  refine ⟨hi, history_refines ops s hr, fun p x hx => ⟨by rw [abs_getF, hx]; rfl, pre_order_eq x, to_root_eq hi hx,
    level_eq' hi hx, depth_eq' x, fun c C hC => ⟨child_position_eq hi hx hC, eq_iff x C⟩, fun f n => (map_eq f n x).1⟩⟩

/-! ## `sort()` / `sort(Predicate)`: a stable permutation of the children, all links preserved -/

/-- `sort()` is `sort(Predicate)` with `<` -/
theorem sort_is_sort_by_less (ks : List PT) : sortKids ks = sortKidsBy (predOf 0) ks := sortKids_eq_sortKidsBy ks

/-- the sorted child list consists of the very same child objects (address, `parent_`, whole sub-tree): nothing is copied,
lost or duplicated -/
theorem sort_children_perm (lt : Int → Int → Bool) (ks : List PT) : (sortKidsBy lt ks).Perm ks := sortKidsBy_perm lt ks

/-- the result is ordered: no child is smaller than one in front of it -/
theorem sort_children_sorted {lt : Int → Int → Bool} (h : StrictWeak lt) (ks : List PT) :
    (sortKidsBy lt ks).Pairwise (fun x y => lt y.val x.val = false) := sortKidsBy_sorted h ks

/-- the sort is stable: the children equivalent to `v` under the predicate keep their relative order -/
theorem sort_children_stable {lt : Int → Int → Bool} (h : StrictWeak lt) (ks : List PT) (v : Int) :
    (sortKidsBy lt ks).filter (fun x => !lt x.val v && !lt v x.val) = ks.filter (fun x => !lt x.val v && !lt v x.val) :=
  sortKidsBy_stable_class h ks v

/-- stability for a single pair: `x` before `y` and not `y < x` ⇒ still `x` before `y` -/
theorem sort_children_stable_pair {lt : Int → Int → Bool} (h : StrictWeak lt) {ks : List PT} {x y : PT}
    (hxy : lt y.val x.val = false) (hs : [x, y].Sublist ks) : [x, y].Sublist (sortKidsBy lt ks) :=
  sortKidsBy_stable_pair h hxy hs

/-- permutation + ordered + stable pin the result down: any arrangement of the children with these three properties is the
one `sort(Predicate)` produces (so the specification does not depend on the algorithm inside `std::list::sort`) -/
theorem sort_unique {lt : Int → Int → Bool} (h : StrictWeak lt) (ks l : List PT) (hp : l.Perm ks)
    (hs : l.Pairwise (fun x y => lt y.val x.val = false)) (hst : ∀ v, l.filter (eqv lt v) = ks.filter (eqv lt v)) :
    l = sortKidsBy lt ks := sortKidsBy_unique h ks l hp hs hst

/-- sorting a sorted list changes nothing; in particular sorting twice is sorting once -/
theorem sort_idempotent {lt : Int → Int → Bool} (h : StrictWeak lt) (ks : List PT) :
    sortKidsBy lt (sortKidsBy lt ks) = sortKidsBy lt ks := sortKidsBy_idem h ks

/-- the predicates used in the correspondence are strict weak orderings (the theorems above apply to them) -/
theorem predicates_strict_weak (k : Nat) : StrictWeak (predOf k) := predOf_strictWeak k

/-- `sort(Predicate)` on the node at path `a`: that node keeps address, value and `parent_`; its children are the same
objects in stably sorted order, each still naming the node as its parent; the invariant holds afterwards -/
theorem sort_step {s s' : St} {a : Path} {k : Nat} (h : Inv s) (hs : step s (.sortBy a k) = .ok s') :
    ∃ t, getF a s.forest = some t ∧ getF a s'.forest = some (t.setKids (sortKidsBy (predOf k) t.kids)) ∧ Inv s' ∧
      ∀ c ∈ sortKidsBy (predOf k) t.kids, c ∈ t.kids ∧ c.parent = some t.id := by
  have hi := step_inv h rfl hs
  simp only [step, bind_ok, nodeAt_ok] at hs
  obtain ⟨t, hg, hs⟩ := hs
  simp only [Except.ok.injEq] at hs; subst hs
  refine ⟨t, hg, getF_putF_same hg, hi, fun c hc => ?_⟩
  have hm := (sortKidsBy_perm (predOf k) t.kids).mem_iff.1 hc
  exact ⟨hm, (kidsOK h.roots hg c hm).1⟩

/-- the same for `sort()` -/
theorem sort_default_step {s s' : St} {a : Path} (h : Inv s) (hs : step s (.sort a) = .ok s') :
    ∃ t, getF a s.forest = some t ∧ getF a s'.forest = some (t.setKids (sortKidsBy (predOf 0) t.kids)) ∧ Inv s' ∧
      ∀ c ∈ sortKidsBy (predOf 0) t.kids, c ∈ t.kids ∧ c.parent = some t.id := by
  have hi := step_inv h rfl hs
  simp only [step, bind_ok, nodeAt_ok] at hs
  obtain ⟨t, hg, hs⟩ := hs
  simp only [Except.ok.injEq] at hs; subst hs
  rw [sortKids_eq_sortKidsBy] at hi ⊢
  refine ⟨t, hg, getF_putF_same hg, hi, fun c hc => ?_⟩
  have hm := (sortKidsBy_perm (predOf 0) t.kids).mem_iff.1 hc
  exact ⟨hm, (kidsOK h.roots hg c hm).1⟩

/-! ## `front()/back()`, `begin()/end()`, `rbegin()/rend()`, `size()/empty()` -/

theorem front_eq (t : PT) : (front t).map abs = RT.front (abs t) := front_abs t
theorem back_eq (t : PT) : (back t).map abs = RT.back (abs t) := back_abs t

/-- `front()` / `back()` are empty exactly when `empty()` -/
theorem front_back_none_iff_empty (t : PT) : (front t = none ↔ emptyK t = true) ∧ (back t = none ↔ emptyK t = true) :=
  ⟨front_eq_none_iff t, back_eq_none_iff t⟩

/-- `front()` of the node at path `p` is the object at path `p ++ [0]`: it names the node as parent and `child_position`
finds it at position 0 -/
theorem front_is_first_child {s : St} (h : Inv s) {r : Nat} {q : Path} {t c : PT} (ht : getF (r :: q) s.forest = some t)
    (hc : front t = some c) :
    getF (r :: (q ++ [0])) s.forest = some c ∧ c.parent = some t.id ∧ childPosition t c = some 0 := by
  rw [front_eq_getElem] at hc
  have hp : getF (r :: (q ++ [0])) s.forest = some c := by rw [getF_snoc, ht]; exact hc
  refine ⟨hp, child_parent_is_owner h ht hc, ?_⟩
  rw [child_position_eq h ht hp, ← List.cons_append, RT.childPos_snoc]

/-- `back()` is the object at the last child position -/
theorem back_is_last_child {s : St} (h : Inv s) {r : Nat} {q : Path} {t c : PT} (ht : getF (r :: q) s.forest = some t)
    (hc : back t = some c) :
    getF (r :: (q ++ [sizeK t - 1])) s.forest = some c ∧ c.parent = some t.id ∧ childPosition t c = some (sizeK t - 1) := by
  rw [back_eq_getElem] at hc
  have hp : getF (r :: (q ++ [sizeK t - 1])) s.forest = some c := by rw [getF_snoc, ht]; exact hc
  refine ⟨hp, child_parent_is_owner h ht hc, ?_⟩
  rw [child_position_eq h ht hp, ← List.cons_append, RT.childPos_snoc]

/-- `begin() … end()` runs over the children in order, `rbegin() … rend()` in reverse order; `size()` is their number and
`empty()` says whether it is zero -/
theorem iterators_eq (t : PT) :
    (fwd t).map abs = (abs t).kids ∧ rev t = (fwd t).reverse ∧ sizeK t = (fwd t).length ∧ (emptyK t = true ↔ sizeK t = 0) :=
  ⟨fwd_abs t, rev_eq t, sizeK_eq t, emptyK_iff t⟩

/-- the `j`-th position of `begin() … end()` on the node at path `p` refers to the object at path `p ++ [j]`; the `j`-th
position of `rbegin() … rend()` to the object at `p ++ [size() - 1 - j]` -/
theorem iterator_position {s : St} {r : Nat} {q : Path} {t : PT} (ht : getF (r :: q) s.forest = some t) (j : Nat) :
    (fwd t)[j]? = getF (r :: (q ++ [j])) s.forest ∧
      (j < sizeK t → (rev t)[j]? = getF (r :: (q ++ [sizeK t - 1 - j])) s.forest) :=
  ⟨fwd_getElem ht j, fun hj => by rw [rev_getElem t j hj, fwd_getElem ht]⟩

/-! ## the traversals as sequences of objects (what `pre_order` / `make_pre_order`, `to_root` / `make_to_root` iterate over) -/

/-- `pre_order` visits the sub-objects themselves in recursive pre-order … -/
theorem pre_order_nodes (t : PT) : preNodes t = .ok (subs t) := preNodes_eq t

/-- … every object below (and including) the start node, each exactly once -/
theorem pre_order_visits_all (t x : PT) : (x ∈ subs t ↔ ∃ q, getT q t = some x) ∧ (subs t).length = t.size :=
  ⟨mem_subs_iff t x, length_subs t⟩

/-- `to_root` from the node at path `p` visits that object and then the objects at the shorter and shorter prefixes of `p`:
the `k`-th visited object is the one at `p` shortened by `k` -/
theorem to_root_nodes {s : St} (h : Inv s) {r : Nat} {q : Path} {x : PT} (hx : getF (r :: q) s.forest = some x) :
    ∃ l, toRootNodes s.forest x = .ok l ∧ l.length = q.length + 1 ∧
      ∀ k, k ≤ q.length → l[k]? = getF (r :: q.take (q.length - k)) s.forest := by
  refine ⟨_, toRootNodes_eq h.uniq h.roots hx, ?_, fun k hk => ?_⟩
  · simp only [getF] at hx
    cases ht : s.forest[r]? with
    | none => simp [ht] at hx
    | some t => simp only [ht] at hx; simp [nodesAlongF, ht, nodesAlongT_length q t x hx]
  · simp only [getF] at hx ⊢
    cases ht : s.forest[r]? with
    | none => simp [ht] at hx
    | some t =>
      simp only [ht] at hx
      have hl := nodesAlongT_length q t x hx
      simp only [nodesAlongF, ht]
      rw [List.getElem?_reverse (by omega), hl]
      have := nodesAlongT_getElem q t x hx (q.length - k) (by omega)
      rw [← this]; congr 1

/-! ## `operator<<`: the printed form determines the tree -/

/-- what is written: one line per node in pre-order, indentation = level below the printed node -/
theorem output_eq (tab nl : Char) (t : PT) : output tab nl t = render tab nl (RT.lines 0 (abs t)) := by
  simp [output, printT_eq]

/-- the values appear in the output in pre-order (the order `pre_order` yields) -/
theorem output_values_pre_order (t : PT) : (printT 0 t).map Prod.snd = RT.flatten (abs t) := by
  rw [printT_eq, lines_values]

/-- two trees with the same output denote the same rose tree, for any two distinct separator characters that decimal
formatting never produces … -/
theorem output_determines_tree {tab nl : Char} (hne : tab ≠ nl) (ht : IsSep tab) (hn : IsSep nl) (a b : PT)
    (h : output tab nl a = output tab nl b) : abs a = abs b := by
  rw [output_eq, output_eq] at h
  exact lines_injective 0 _ _ (render_injective hne ht hn _ _ h)

/-- … in particular for the tab and newline the code uses; and the output is equal exactly when `==` holds -/
theorem output_eq_iff_equal (a b : PT) : output '\t' '\n' a = output '\t' '\n' b ↔ eqT a b = true := by
  rw [eq_iff]
  exact ⟨output_determines_tree (by simp) isSep_tab isSep_newline a b, fun h => by rw [output_eq, output_eq, h]⟩

/-! ## `object(T&&, child_list&&)` and `map` with the identity -/

/-- the tree built from a value and a copied child list: a new root, no parent, consistent links, denoting `v` over the
children of the source; everything else is untouched -/
theorem mk_from_step {s s' : St} {b : Path} {v : Int} (h : Inv s) (hs : step s (.mkFrom b v) = .ok s') :
    ∃ t r, getF b s.forest = some t ∧ s'.forest = s.forest ++ [r] ∧ abs r = .node v (t.kids.map abs) ∧ r.parent = none ∧
      LinkOK r ∧ (∀ i, 1 ≤ cntL i s.forest → cnt i r = 0) ∧ Inv s' := by
  have hi := step_inv h rfl hs
  simp only [step, bind_ok, nodeAt_ok] at hs
  obtain ⟨t, hg, hs⟩ := hs
  simp only [Except.ok.injEq] at hs; subst hs
  refine ⟨t, _, hg, rfl, by simp [map_abs_copyLp], rfl,
    linkOK_node.2 (linkOK_reparent (linkOK_copyLp_any _ _ _)), fun i hi' => ?_, hi⟩
  have := h.fresh i
  simp only [cnt_node, cntL_reparent, cntL_copyLp]
  split <;> split <;> omega

theorem RT.map_id : ∀ t : RT, RT.map (fun x => x) t = t :=
  RT.ind (fun v ks ih => by
    simp only [RT.map, RT.node.injEq, true_and]
    conv => rhs; rw [← List.map_id ks]
    exact List.map_congr_left (fun k hk => by simpa using ih k hk))

/-- mapping with the identity yields an equal tree (made of new objects) -/
theorem map_id (n : Nat) (t : PT) : eqT (mapT (fun x => x) n t) t = true := by
  rw [eq_iff, (map_eq _ n t).1, RT.map_id]

/-! ## copies are deep and independent -/

/-- a copy denotes the same rose tree, consists of fresh objects only (shares no object with anything live),
has consistent links and no parent -/
theorem copy_independent {s : St} (h : Inv s) (t : PT) :
    abs (copyT s.next t) = abs t ∧ (∀ i, 1 ≤ cntL i s.forest → cnt i (copyT s.next t) = 0) ∧
      (∀ i, cnt i (copyT s.next t) ≤ 1) ∧ (copyT s.next t).parent = none ∧ LinkOK (copyT s.next t) := by
  refine ⟨abs_copyT t s.next, fun i hi => ?_, fun i => ?_, copyT_parent _ _, linkOK_copyT _ _⟩
  · have := h.fresh i
    rw [cnt_copyT, if_neg]; omega
  · rw [cnt_copyT]; split <;> omega

/-- later operations on the copy do not change the original (and vice versa): a write below one root leaves every
other root untouched -/
theorem write_local (new : PT) (r : Nat) (q : Path) (F : List PT) (r' : Nat) (hne : r' ≠ r) :
    (putF new (r :: q) F)[r']? = F[r']? := by
  simp only [putF]
  cases F[r]? with
  | none => rfl
  | some t => exact List.getElem?_set_ne (Ne.symm hne)

/-- the same inside one tree: a write at path `a` leaves the object at every path that is neither above nor below `a`
untouched (a copy assigned into another branch of the same tree is as independent as one in another tree) -/
theorem write_disjoint (new : PT) {a b : Path} (F : List PT) (h1 : isPrefix a b = false) (h2 : isPrefix b a = false) :
    getF b (putF new a F) = getF b F :=
  getF_putF_disj h1 h2

/-- a write at `b` that is not above `a` keeps the object at `a` in place: same address, value, `parent_` and number of
children (only something below it changed) -/
theorem write_below_keeps_node (new : PT) {a b : Path} {F : List PT} {t : PT} (h : isPrefix b a = false)
    (ht : getF a F = some t) :
    ∃ t', getF a (putF new b F) = some t' ∧ t'.kids.length = t.kids.length ∧ t'.val = t.val ∧ t'.id = t.id ∧
      t'.parent = t.parent :=
  getF_putF_not_below h ht

/-! ## non-vacuity and the repaired defect -/

/-- a history with inner-node operands of every binary kind runs to completion (so the theorems above are not vacuous) -/
example : (runOps St.init
    [.new 1, .insV [0] .back 2, .insV [0, 0] .back 3, .insV [0] .front 4, .copyCtor [0],
     .swap [0, 1] [1], .moveAssign [1, 0] [0, 1], .copyAssign [1, 0, 1] [1], .insT [1] (.at 1) [0, 1],
     .pop [0] .back true, .moveCtor [0, 0], .erase [1] 0, .clear [2], .eraseRange [0] 0 1, .setVal [1, 0] 7,
     .del 0]).toBool = true := by decide +kernel

/-- `sort(Predicate)` and `object(T&&, child_list&&)` in a history; a concrete stable sort: by `v % 3` the children
`4 3 1 6` (keys `1 0 1 0`) become `3 6 4 1` -/
example : (runOps St.init
    [.new 0, .insV [0] .back 4, .insV [0] .back 3, .insV [0] .back 1, .insV [0] .back 6, .insV [0, 1] .back 9,
     .sortBy [0] 2, .mkFrom [0] 7, .sortBy [1] 1, .sort [1]]).toBool = true := by decide +kernel

example : ((sortKidsBy (predOf 2) [mkLeaf 0 4, mkLeaf 1 3, mkLeaf 2 1, mkLeaf 3 6]).map PT.id) = [1, 3, 0, 2] := by
  simp [sortKidsBy, mkLeaf, predOf, List.mergeSort, List.MergeSort.Internal.splitInTwo]

/-- the printed form of `1(2(4) 3)` -/
example : printT 0 (.node 0 1 none [.node 1 2 (some 0) [.node 2 4 (some 1) []], .node 3 3 (some 0) []])
    = [(0, 1), (1, 2), (2, 4), (1, 3)] := by simp [printT]

/-- same pre-order values, different structure ⇒ different output (what a flattened comparison would confuse) -/
example : printT 0 (.node 0 1 none [.node 1 2 none [.node 2 3 none []]]) ≠
    printT 0 (.node 0 1 none [.node 1 2 none [], .node 2 3 none []]) := by simp [printT]

/-- the unrepaired `swap` (before 05c8c12): values and `parent_` exchanged, child lists exchanged without re-parenting -/
def oldSwap (ta tb : PT) : PT × PT :=
  (.node ta.id tb.val tb.parent tb.kids, .node tb.id ta.val ta.parent ta.kids)

/-- old behaviour, refuted: swapping the inner node `0.0` with the root `1` broke every clause of the invariant -/
example :
    let B : PT := .node 1 20 (some 0) [.node 2 30 (some 1) []]
    let D : PT := .node 3 40 none [.node 4 50 (some 3) []]
    ¬ Roots [.node 0 10 none [(oldSwap B D).1], (oldSwap B D).2] := by
  intro B D h
  have := (h (oldSwap B D).2 (by simp)).1
  simp [oldSwap, B, D] at this

/-- the repaired `swap` on the same heap keeps the invariant (instance of `tree_step_inv`) -/
example : ∀ s', step ⟨[.node 0 10 none [.node 1 20 (some 0) [.node 2 30 (some 1) []]],
    .node 3 40 none [.node 4 50 (some 3) []]], 5⟩ (.swap [0, 0] [1]) = .ok s' → Roots s'.forest := by
  intro s' hs
  simp [step, nodeAt, getF, getT, putF, putT, reparent, bind, Except.bind] at hs
  subst hs
  intro r hr
  simp at hr
  rcases hr with rfl | rfl <;> simp [linkOK_node]

/-- old copy assignment set the receiver's `parent_` to `nullptr`: refuted for a receiver that is a child -/
example : ¬ Roots [.node 0 10 none [(PT.node 1 20 (some 0) []).setParent none]] := by
  intro h
  have h1 := (h _ (List.mem_singleton.2 rfl)).2
  have := (linkOK_node.1 h1 _ (List.mem_singleton.2 rfl)).1
  simp at this

end Fcppt.C09
