import FcpptProofs.C14.Old
import FcpptProofs.C14.Bits
import FcpptProofs.C14.Member
import FcpptProofs.C14.Neighbour
/-!
# C14 — vector, dim and matrix arithmetic obeys the exact ring and module laws

Model: `FcpptModel/Model/C14.lean` (row-major storage, the folds and index arithmetic of the headers).
Meaning: `Mat.toMatrix : Mat r c → Matrix (Fin r) (Fin c) ℤ` (read through `at_r_c`) and
`Storage.toFun : Storage n → (Fin n → ℤ)`; the laws are Mathlib's theorems about `Matrix`, transported.
Every theorem holds for all sizes and for every storage kind (static, row view, buffer view) of the operands;
results of operators are static objects, so laws between results are equalities of objects.
`dim` has the same operators as `vector` (`dim/arithmetic.hpp` is the same text): the vector theorems are the dim theorems.
-/
namespace Fcppt.C14
open Matrix

/-! ## 1. the model denotes Mathlib's matrix operations -/

/-- row-major layout: `at_r_c<i, j>` (row view with offset `i * columns`, element `j`) reads storage element `i * columns + j` -/
theorem atRC_eq_entry {r c : Nat} (m : Mat r c) (i : Fin r) (j : Fin c) : m.atRC i j = m.s.get ⟨i.val * c + j.val, index_lt i j⟩ :=
  Lemma.atRC_eq_entry m i j

/-- `matrix::init<M>(f)` (absolute index → `index_absolute`) has entry `f i j` at `(i, j)` -/
theorem atRC_init {r c : Nat} (f : Fin r → Fin c → Int) (i : Fin r) (j : Fin c) : (Mat.init f).atRC i j = f i j :=
  Lemma.atRC_init f i j

theorem toMatrix_add {r c : Nat} (a b : Mat r c) : (a.add b).toMatrix = a.toMatrix + b.toMatrix := Lemma.toMatrix_add a b
theorem toMatrix_sub {r c : Nat} (a b : Mat r c) : (a.sub b).toMatrix = a.toMatrix - b.toMatrix := Lemma.toMatrix_sub a b
theorem toMatrix_smulR {r c : Nat} (a : Mat r c) (k : Int) : (a.smulR k).toMatrix = k • a.toMatrix := Lemma.toMatrix_smulR a k
theorem toMatrix_smulL {r c : Nat} (k : Int) (a : Mat r c) : (Mat.smulL k a).toMatrix = k • a.toMatrix := Lemma.toMatrix_smulL k a
theorem toMatrix_mul {m n p : Nat} (a : Mat m n) (b : Mat n p) : (a.mul b).toMatrix = a.toMatrix * b.toMatrix := Lemma.toMatrix_mul a b
theorem toFun_mulVec {r c : Nat} (a : Mat r c) (v : Vec c) : (a.mulVec v).toFun = a.toMatrix.mulVec v.toFun := Lemma.toFun_mulVec a v
theorem toMatrix_transpose {r c : Nat} (a : Mat r c) : a.transpose.toMatrix = a.toMatrixᵀ := Lemma.toMatrix_transpose a
theorem toMatrix_identity (n : Nat) : (Mat.identity n).toMatrix = 1 := Lemma.toMatrix_identity n

/-- `deleted_index(cur, rem)` is `Fin.succAbove rem cur` -/
theorem deletedIndex_eq_succAbove {n : Nat} (p : Fin (n + 1)) (i : Fin n) : deletedIndex i.val p.val = (p.succAbove i).val :=
  Lemma.deletedIndex_succAbove p i

theorem toMatrix_deleteRowAndColumn {r c : Nat} (dr : Fin (r + 1)) (dc : Fin (c + 1)) (a : Mat (r + 1) (c + 1)) :
    (a.deleteRowAndColumn dr.val dc.val).toMatrix = a.toMatrix.submatrix dr.succAbove dc.succAbove :=
  Lemma.toMatrix_deleteRowAndColumn dr dc a

/-- the Laplace expansion of `matrix/detail/determinant.hpp` is the determinant, for every `N` (including 0 and 1) -/
theorem det_eq {n : Nat} (a : Mat n n) : a.det = a.toMatrix.det := Lemma.det_eq a

/-- `matrix::adjugate` is the adjugate, for every `N` -/
theorem adjugate_eq {n : Nat} (a : Mat n n) : a.adjugate.toMatrix = a.toMatrix.adjugate := Lemma.adjugate_eq a

/-- all operator results are static objects: two results that denote the same matrix are the same object -/
theorem ext_static {r c : Nat} {a b : Mat r c} (ha : a.IsStatic) (hb : b.IsStatic) (h : a.toMatrix = b.toMatrix) : a = b :=
  Lemma.Mat.ext_static ha hb h

/-! ## 2. ring and module laws, all sizes -/

theorem mul_assoc {m n p q : Nat} (a : Mat m n) (b : Mat n p) (c : Mat p q) : (a.mul b).mul c = a.mul (b.mul c) :=
  Lemma.Mat.ext_static (Lemma.Mat.isStatic_mul _ _) (Lemma.Mat.isStatic_mul _ _)
    (by simp only [Lemma.toMatrix_mul, Matrix.mul_assoc])

theorem mul_add {m n p : Nat} (a : Mat m n) (b c : Mat n p) : a.mul (b.add c) = (a.mul b).add (a.mul c) :=
  Lemma.Mat.ext_static (Lemma.Mat.isStatic_mul _ _) (Lemma.Mat.isStatic_add _ _)
    (by simp only [Lemma.toMatrix_mul, Lemma.toMatrix_add, Matrix.mul_add])

theorem add_mul {m n p : Nat} (a b : Mat m n) (c : Mat n p) : (a.add b).mul c = (a.mul c).add (b.mul c) :=
  Lemma.Mat.ext_static (Lemma.Mat.isStatic_mul _ _) (Lemma.Mat.isStatic_add _ _)
    (by simp only [Lemma.toMatrix_mul, Lemma.toMatrix_add, Matrix.add_mul])

theorem mul_sub {m n p : Nat} (a : Mat m n) (b c : Mat n p) : a.mul (b.sub c) = (a.mul b).sub (a.mul c) :=
  Lemma.Mat.ext_static (Lemma.Mat.isStatic_mul _ _) (Lemma.Mat.isStatic_sub _ _)
    (by simp only [Lemma.toMatrix_mul, Lemma.toMatrix_sub, Matrix.mul_sub])

theorem add_comm {r c : Nat} (a b : Mat r c) : a.add b = b.add a :=
  Lemma.Mat.ext_static (Lemma.Mat.isStatic_add _ _) (Lemma.Mat.isStatic_add _ _)
    (by simp only [Lemma.toMatrix_add, _root_.add_comm])

theorem add_assoc {r c : Nat} (a b d : Mat r c) : (a.add b).add d = a.add (b.add d) :=
  Lemma.Mat.ext_static (Lemma.Mat.isStatic_add _ _) (Lemma.Mat.isStatic_add _ _)
    (by simp only [Lemma.toMatrix_add, _root_.add_assoc])

theorem add_sub_cancel {r c : Nat} (a b : Mat r c) : ((a.add b).sub b).toMatrix = a.toMatrix := by
  simp [Lemma.toMatrix_add, Lemma.toMatrix_sub]

/-- `matrix * scalar` and `scalar * matrix` agree -/
theorem smulR_eq_smulL {r c : Nat} (a : Mat r c) (k : Int) : a.smulR k = Mat.smulL k a :=
  Lemma.Mat.ext_static (Lemma.Mat.isStatic_smulR _ _) (Lemma.Mat.isStatic_smulL _ _)
    (by rw [Lemma.toMatrix_smulR, Lemma.toMatrix_smulL])

theorem smul_mul {m n p : Nat} (k : Int) (a : Mat m n) (b : Mat n p) : (Mat.smulL k a).mul b = Mat.smulL k (a.mul b) :=
  Lemma.Mat.ext_static (Lemma.Mat.isStatic_mul _ _) (Lemma.Mat.isStatic_smulL _ _)
    (by simp only [Lemma.toMatrix_mul, Lemma.toMatrix_smulL, Matrix.smul_mul])

theorem mul_smul {m n p : Nat} (k : Int) (a : Mat m n) (b : Mat n p) : a.mul (Mat.smulL k b) = Mat.smulL k (a.mul b) :=
  Lemma.Mat.ext_static (Lemma.Mat.isStatic_mul _ _) (Lemma.Mat.isStatic_smulL _ _)
    (by simp only [Lemma.toMatrix_mul, Lemma.toMatrix_smulL, Matrix.mul_smul])

theorem smul_add {r c : Nat} (k : Int) (a b : Mat r c) : Mat.smulL k (a.add b) = (Mat.smulL k a).add (Mat.smulL k b) :=
  Lemma.Mat.ext_static (Lemma.Mat.isStatic_smulL _ _) (Lemma.Mat.isStatic_add _ _)
    (by simp only [Lemma.toMatrix_add, Lemma.toMatrix_smulL, _root_.smul_add])

/-- the identity is neutral (stated on the denotation: the operand itself may be a view, the product is a static copy) -/
theorem mul_identity {m n : Nat} (a : Mat m n) : (a.mul (Mat.identity n)).toMatrix = a.toMatrix := by
  rw [Lemma.toMatrix_mul, Lemma.toMatrix_identity, Matrix.mul_one]
theorem identity_mul {m n : Nat} (a : Mat m n) : ((Mat.identity m).mul a).toMatrix = a.toMatrix := by
  rw [Lemma.toMatrix_mul, Lemma.toMatrix_identity, Matrix.one_mul]

/-- transpose is an involution -/
theorem transpose_transpose {r c : Nat} (a : Mat r c) : a.transpose.transpose.toMatrix = a.toMatrix := by
  rw [Lemma.toMatrix_transpose, Lemma.toMatrix_transpose, Matrix.transpose_transpose]

/-- on results (static objects) the involution is an equality of objects -/
theorem transpose_transpose_static {r c : Nat} (a : Mat r c) (h : a.IsStatic) : a.transpose.transpose = a :=
  Lemma.Mat.ext_static (Lemma.Mat.isStatic_transpose _) h (transpose_transpose a)

/-- `(AB)ᵀ = BᵀAᵀ` -/
theorem transpose_mul {m n p : Nat} (a : Mat m n) (b : Mat n p) : (a.mul b).transpose = b.transpose.mul a.transpose :=
  Lemma.Mat.ext_static (Lemma.Mat.isStatic_transpose _) (Lemma.Mat.isStatic_mul _ _)
    (by simp only [Lemma.toMatrix_mul, Lemma.toMatrix_transpose, Matrix.transpose_mul])

theorem transpose_add {r c : Nat} (a b : Mat r c) : (a.add b).transpose = a.transpose.add b.transpose :=
  Lemma.Mat.ext_static (Lemma.Mat.isStatic_transpose _) (Lemma.Mat.isStatic_add _ _)
    (by simp only [Lemma.toMatrix_add, Lemma.toMatrix_transpose, Matrix.transpose_add])

/-- the determinant is multiplicative -/
theorem det_mul {n : Nat} (a b : Mat n n) : (a.mul b).det = a.det * b.det := by
  rw [Lemma.det_eq, Lemma.det_eq, Lemma.det_eq, Lemma.toMatrix_mul, Matrix.det_mul]

theorem det_transpose {n : Nat} (a : Mat n n) : a.transpose.det = a.det := by
  rw [Lemma.det_eq, Lemma.det_eq, Lemma.toMatrix_transpose, Matrix.det_transpose]

theorem det_identity (n : Nat) : (Mat.identity n).det = 1 := by
  rw [Lemma.det_eq, Lemma.toMatrix_identity, Matrix.det_one]

theorem det_smul {n : Nat} (k : Int) (a : Mat n n) : (Mat.smulL k a).det = k ^ n * a.det := by
  rw [Lemma.det_eq, Lemma.det_eq, Lemma.toMatrix_smulL, Matrix.det_smul, Fintype.card_fin]

/-- `A * adjugate(A) = det(A) * identity` -/
theorem mul_adjugate {n : Nat} (a : Mat n n) : a.mul a.adjugate = Mat.smulL a.det (Mat.identity n) :=
  Lemma.Mat.ext_static (Lemma.Mat.isStatic_mul _ _) (Lemma.Mat.isStatic_smulL _ _)
    (by rw [Lemma.toMatrix_mul, Lemma.adjugate_eq, Lemma.toMatrix_smulL, Lemma.toMatrix_identity, Lemma.det_eq, Matrix.mul_adjugate])

theorem adjugate_mul {n : Nat} (a : Mat n n) : a.adjugate.mul a = Mat.smulL a.det (Mat.identity n) :=
  Lemma.Mat.ext_static (Lemma.Mat.isStatic_mul _ _) (Lemma.Mat.isStatic_smulL _ _)
    (by rw [Lemma.toMatrix_mul, Lemma.adjugate_eq, Lemma.toMatrix_smulL, Lemma.toMatrix_identity, Lemma.det_eq, Matrix.adjugate_mul])

/-- `inverse` divides by the determinant: undefined for a singular matrix -/
theorem inverse_singular {n : Nat} (a : Mat n n) (h : a.det = 0) : a.inverse = .error .divZero := by
  simp [Mat.inverse, h]

theorem inverse_regular {n : Nat} (a : Mat n n) (h : a.det ≠ 0) : a.inverse = .ok (Mat.smulL (Int.tdiv 1 a.det) a.adjugate) := by
  simp [Mat.inverse, h]

/-- over the integers `inverse` is the inverse exactly for unimodular matrices -/
theorem inverse_unimodular {n : Nat} (a : Mat n n) (h : a.det = 1 ∨ a.det = -1) :
    ∃ b, a.inverse = .ok b ∧ (a.mul b).toMatrix = 1 ∧ (b.mul a).toMatrix = 1 := by
  have hne : a.det ≠ 0 := by rcases h with h | h <;> omega
  refine ⟨_, inverse_regular a hne, ?_, ?_⟩
  · rw [Lemma.toMatrix_mul, Lemma.toMatrix_smulL, Lemma.adjugate_eq, Matrix.mul_smul, Matrix.mul_adjugate, ← Lemma.det_eq, smul_smul]
    rcases h with h | h <;> simp [h]
  · rw [Lemma.toMatrix_mul, Lemma.toMatrix_smulL, Lemma.adjugate_eq, Matrix.smul_mul, Matrix.adjugate_mul, ← Lemma.det_eq, smul_smul]
    rcases h with h | h <;> simp [h]

/-- for `|det| > 1` the integer quotient `1 / det` is 0: `inverse` returns the zero matrix -/
theorem inverse_nonunimodular {n : Nat} (a : Mat n n) (h : 1 < a.det ∨ a.det < -1) :
    ∃ b, a.inverse = .ok b ∧ b.toMatrix = 0 := by
  have hne : a.det ≠ 0 := by rcases h with h | h <;> omega
  refine ⟨_, inverse_regular a hne, ?_⟩
  have : Int.tdiv 1 a.det = 0 := by
    rcases h with h | h
    · exact Int.tdiv_eq_zero_of_lt (by omega) h
    · have h1 : Int.tdiv 1 (-a.det) = 0 := Int.tdiv_eq_zero_of_lt (by omega) (by omega)
      rw [Int.tdiv_neg] at h1; omega
  rw [Lemma.toMatrix_smulL, this, zero_smul]

/-! ## 3. matrix · vector -/

theorem mulVec_mulVec {m n p : Nat} (a : Mat m n) (b : Mat n p) (v : Vec p) : (a.mul b).mulVec v = a.mulVec (b.mulVec v) :=
  Lemma.Storage.ext_static (Lemma.isStatic_mulVec _ _) (Lemma.isStatic_mulVec _ _) fun i => by
    have := congrFun (show ((a.mul b).mulVec v).toFun = (a.mulVec (b.mulVec v)).toFun by
      simp only [Lemma.toFun_mulVec, Lemma.toMatrix_mul, Matrix.mulVec_mulVec]) i
    simpa using this

theorem mulVec_add {r c : Nat} (a : Mat r c) (v w : Vec c) : (a.mulVec (add v w)).toFun = (a.mulVec v).toFun + (a.mulVec w).toFun := by
  simp only [Lemma.toFun_mulVec, Lemma.toFun_add, Matrix.mulVec_add]

theorem mulVec_smul {r c : Nat} (a : Mat r c) (k : Int) (v : Vec c) : (a.mulVec (smulL k v)).toFun = k • (a.mulVec v).toFun := by
  simp only [Lemma.toFun_mulVec, Lemma.toFun_smulL, Matrix.mulVec_smul]

theorem add_mulVec {r c : Nat} (a b : Mat r c) (v : Vec c) : ((a.add b).mulVec v).toFun = (a.mulVec v).toFun + (b.mulVec v).toFun := by
  simp only [Lemma.toFun_mulVec, Lemma.toMatrix_add, Matrix.add_mulVec]

theorem identity_mulVec {n : Nat} (v : Vec n) : ((Mat.identity n).mulVec v).toFun = v.toFun := by
  rw [Lemma.toFun_mulVec, Lemma.toMatrix_identity, Matrix.one_mulVec]

/-- the rows of `A·v` are the dot products of the rows of `A` with `v` -/
theorem get_mulVec {r c : Nat} (a : Mat r c) (v : Vec c) (i : Fin r) : (a.mulVec v).get i = dot (a.atR i) v := by
  have := congrFun (Lemma.toFun_mulVec a v) i
  rw [Lemma.dot_eq, Lemma.toFun_atR]
  exact this

/-! ## 4. vector / dim operators are component-wise -/

theorem toFun_neg {n : Nat} (v : Vec n) : (neg v).toFun = -v.toFun := Lemma.toFun_neg v
theorem toFun_add {n : Nat} (l r : Vec n) : (add l r).toFun = l.toFun + r.toFun := Lemma.toFun_add l r
theorem toFun_sub {n : Nat} (l r : Vec n) : (sub l r).toFun = l.toFun - r.toFun := Lemma.toFun_sub l r
theorem toFun_mul {n : Nat} (l r : Vec n) : (mul l r).toFun = l.toFun * r.toFun := Lemma.toFun_mul l r
theorem toFun_smulR {n : Nat} (l : Vec n) (k : Int) : (smulR l k).toFun = k • l.toFun := Lemma.toFun_smulR l k
theorem toFun_smulL {n : Nat} (k : Int) (r : Vec n) : (smulL k r).toFun = k • r.toFun := Lemma.toFun_smulL k r

/-- per component, spelled out -/
theorem get_ops {n : Nat} (l r : Vec n) (k : Int) (i : Fin n) :
    (neg l).get i = -l.get i ∧ (add l r).get i = l.get i + r.get i ∧ (sub l r).get i = l.get i - r.get i ∧
    (mul l r).get i = l.get i * r.get i ∧ (smulR l k).get i = l.get i * k ∧ (smulL k r).get i = k * r.get i := by
  simp [neg, add, sub, mul, smulR, smulL]

/-- `vector / vector`: a result exists iff no divisor component is zero, and is the truncated quotient per component -/
theorem divV_some {n : Nat} (l r v : Vec n) :
    divV l r = some v ↔ v.IsStatic ∧ ∀ i, r.get i ≠ 0 ∧ v.get i = Int.tdiv (l.get i) (r.get i) := Lemma.divV_eq_some l r v
theorem divV_none {n : Nat} (l r : Vec n) : divV l r = none ↔ ∃ i, r.get i = 0 := Lemma.divV_eq_none l r
theorem divS_some {n : Nat} (l v : Vec n) (k : Int) :
    divS l k = some v ↔ v.IsStatic ∧ ∀ i, k ≠ 0 ∧ v.get i = Int.tdiv (l.get i) k := Lemma.divS_eq_some l v k
theorem divS_none {n : Nat} (l : Vec n) (k : Int) : divS l k = none ↔ 0 < n ∧ k = 0 := Lemma.divS_eq_none l k

theorem vadd_comm {n : Nat} (l r : Vec n) : add l r = add r l :=
  Lemma.Storage.ext_static (Lemma.isStatic_add _ _) (Lemma.isStatic_add _ _) fun i => by simp [add, _root_.add_comm]

theorem vadd_assoc {n : Nat} (a b c : Vec n) : add (add a b) c = add a (add b c) :=
  Lemma.Storage.ext_static (Lemma.isStatic_add _ _) (Lemma.isStatic_add _ _) fun i => by simp [add, _root_.add_assoc]

theorem smul_vadd {n : Nat} (k : Int) (a b : Vec n) : smulL k (add a b) = add (smulL k a) (smulL k b) :=
  Lemma.Storage.ext_static (Lemma.isStatic_smulL _ _) (Lemma.isStatic_add _ _) fun i => by simp [add, smulL, _root_.mul_add]

theorem vsmulR_eq_smulL {n : Nat} (v : Vec n) (k : Int) : smulR v k = smulL k v :=
  Lemma.Storage.ext_static (Lemma.isStatic_smulR _ _) (Lemma.isStatic_smulL _ _) fun i => by simp [smulR, smulL, _root_.mul_comm]

/-! ## 5. dot, length_square, cross -/

theorem dot_eq {n : Nat} (l r : Vec n) : dot l r = l.toFun ⬝ᵥ r.toFun := Lemma.dot_eq l r

/-- the plain-array meaning: `Σ l_i r_i` -/
theorem dot_eq_sum {n : Nat} (l r : Vec n) : dot l r = ∑ i, l.get i * r.get i := by
  rw [Lemma.dot_eq]; rfl

theorem dot_comm {n : Nat} (l r : Vec n) : dot l r = dot r l := by
  rw [Lemma.dot_eq, Lemma.dot_eq, dotProduct_comm]

theorem dot_add {n : Nat} (a b c : Vec n) : dot a (add b c) = dot a b + dot a c := by
  simp only [Lemma.dot_eq, Lemma.toFun_add, dotProduct_add]

theorem dot_smul {n : Nat} (k : Int) (a b : Vec n) : dot a (smulL k b) = k * dot a b := by
  simp only [Lemma.dot_eq, Lemma.toFun_smulL, dotProduct_smul, smul_eq_mul]

theorem lengthSquare_eq {n : Nat} (v : Vec n) : lengthSquare v = ∑ i, v.get i * v.get i := by
  rw [lengthSquare, dot_eq_sum]

theorem lengthSquare_nonneg {n : Nat} (v : Vec n) : 0 ≤ lengthSquare v := by
  rw [lengthSquare_eq]; exact Finset.sum_nonneg fun i _ => mul_self_nonneg _

theorem lengthSquare_eq_zero_iff {n : Nat} (v : Vec n) : lengthSquare v = 0 ↔ ∀ i, v.get i = 0 := by
  rw [lengthSquare_eq, Finset.sum_eq_zero_iff_of_nonneg fun i _ => mul_self_nonneg _]
  simp

theorem toFun_cross (l r : Vec 3) : (cross l r).toFun = crossProduct l.toFun r.toFun := Lemma.toFun_cross l r

/-- anticommutative -/
theorem cross_anticomm (l r : Vec 3) : neg (cross l r) = cross r l :=
  Lemma.Storage.ext_static (Lemma.isStatic_neg _) (Lemma.isStatic_cross _ _) fun i => by
    have := congrFun (show (neg (cross l r)).toFun = (cross r l).toFun by
      rw [Lemma.toFun_neg, Lemma.toFun_cross, Lemma.toFun_cross, _root_.cross_anticomm]) i
    simpa using this

/-- orthogonal to both operands -/
theorem dot_cross_left (l r : Vec 3) : dot l (cross l r) = 0 := by
  rw [Lemma.dot_eq, Lemma.toFun_cross, dot_self_cross]
theorem dot_cross_right (l r : Vec 3) : dot r (cross l r) = 0 := by
  rw [Lemma.dot_eq, Lemma.toFun_cross, dot_cross_self]

theorem cross_self_zero (v : Vec 3) (i : Fin 3) : (cross v v).get i = 0 := by
  have := congrFun (show (cross v v).toFun = 0 by rw [Lemma.toFun_cross, cross_self]) i
  simpa using this

/-- Lagrange's identity `|l × r|² = |l|² |r|² − (l·r)²` -/
theorem lagrange_identity (l r : Vec 3) :
    lengthSquare (cross l r) = lengthSquare l * lengthSquare r - dot l r * dot l r := by
  simp only [lengthSquare, Lemma.dot_eq, Lemma.toFun_cross, cross_dot_cross]
  rw [dotProduct_comm r.toFun l.toFun]

/-- scalar triple product = determinant of the matrix with rows `u, v, w` -/
theorem triple_product (u v w : Vec 3) : dot u (cross v w) = Matrix.det ![u.toFun, v.toFun, w.toFun] := by
  rw [Lemma.dot_eq, Lemma.toFun_cross, triple_product_eq_det]

/-! ## 6. builders and element access -/

theorem get_init {n : Nat} (f : Fin n → Int) (i : Fin n) : (init f).get i = f i := Lemma.get_init f i
theorem get_null {n : Nat} (i : Fin n) : (null n).get i = 0 := Lemma.get_null i
theorem get_fill {n : Nat} (value : Int) (i : Fin n) : (fill n value).get i = value := Lemma.get_fill value i

theorem identity_entry (n : Nat) (i j : Fin n) : (Mat.identity n).atRC i j = if i = j then 1 else 0 := by
  simp [Mat.identity, Fin.ext_iff]

theorem toMatrix_translation (tx ty tz : Int) :
    (Mat.translation tx ty tz).toMatrix = !![1, 0, 0, tx; 0, 1, 0, ty; 0, 0, 1, tz; 0, 0, 0, 1] := Lemma.toMatrix_translation tx ty tz

theorem toMatrix_scaling (sx sy sz : Int) :
    (Mat.scaling sx sy sz).toMatrix = Matrix.diagonal ![sx, sy, sz, 1] := Lemma.toMatrix_scaling_diagonal sx sy sz

theorem translationV_eq (v : Vec 3) : Mat.translationV v = Mat.translation (v.get 0) (v.get 1) (v.get 2) := rfl
theorem scalingV_eq (v : Vec 3) : Mat.scalingV v = Mat.scaling (v.get 0) (v.get 1) (v.get 2) := rfl

/-- a translation moves the point `(p, 1)` by `(tx, ty, tz)` -/
theorem translation_mulVec (tx ty tz : Int) (p : Vec 4) (h : p.get 3 = 1) :
    ((Mat.translation tx ty tz).mulVec p).toFun = ![p.get 0 + tx, p.get 1 + ty, p.get 2 + tz, 1] := by
  rw [Lemma.toFun_mulVec, Lemma.toMatrix_translation]
  ext i
  fin_cases i <;> simp [Matrix.mulVec, dotProduct, Fin.sum_univ_four, h]

/-- translations compose by adding the offsets -/
theorem translation_mul (a b c x y z : Int) :
    (Mat.translation a b c).mul (Mat.translation x y z) = Mat.translation (a + x) (b + y) (c + z) :=
  Lemma.Mat.ext_static (Lemma.Mat.isStatic_mul _ _) (Lemma.Mat.isStatic_translation _ _ _) (by
    rw [Lemma.toMatrix_mul]
    simp only [Lemma.toMatrix_translation]
    ext i j
    fin_cases i <;> fin_cases j <;> simp [Matrix.mul_apply, Fin.sum_univ_four, _root_.add_comm])

theorem det_scaling (sx sy sz : Int) : (Mat.scaling sx sy sz).det = sx * sy * sz := by
  rw [Lemma.det_eq, Lemma.toMatrix_scaling_diagonal, Matrix.det_diagonal]
  simp [Fin.prod_univ_four]

theorem det_translation (tx ty tz : Int) : (Mat.translation tx ty tz).det = 1 := by
  rw [Lemma.det_eq, Lemma.toMatrix_translation, Matrix.det_succ_column_zero]
  simp [Fin.sum_univ_succ, Matrix.det_fin_three, Fin.succAbove, Matrix.submatrix]

/-- a row of a matrix (the row view) has the entries of that row; `at_r_c` is `at<j>` of the row -/
theorem get_atR {r c : Nat} (m : Mat r c) (i : Fin r) (j : Fin c) : (m.atR i).get j = m.atRC i j := rfl

/-- the row constructor `object(row(…), …)` puts row `i` at row `i` -/
theorem atRC_ofRows {r c : Nat} (rows : Fin r → Vec c) (i : Fin r) (j : Fin c) : (Mat.ofRows rows).atRC i j = (rows i).get j :=
  Lemma.atRC_ofRows rows i j

theorem ofRows_atR {r c : Nat} (m : Mat r c) : (Mat.ofRows fun i => fromArray (toArray (m.atR i))).toMatrix = m.toMatrix :=
  Lemma.toMatrix_ofRows_atR m

/-- run-time access: defined exactly inside the bounds -/
theorem getUnsafe_ok {n : Nat} (v : Vec n) (i : Nat) (h : i < n) : getUnsafe v i = .ok (v.get ⟨i, h⟩) := Lemma.getUnsafe_ok v i h
theorem getUnsafe_oob {n : Nat} (v : Vec n) (i : Nat) (h : n ≤ i) : getUnsafe v i = .error .oob := Lemma.getUnsafe_oob v i h
theorem mat_getUnsafe_ok {r c : Nat} (m : Mat r c) (j : Nat) (h : j < r) : m.getUnsafe j = .ok (m.atR ⟨j, h⟩) := Lemma.Mat.getUnsafe_ok m j h
theorem mat_getUnsafe_oob {r c : Nat} (m : Mat r c) (j : Nat) (h : r ≤ j) : m.getUnsafe j = .error .oob := Lemma.Mat.getUnsafe_oob m j h

theorem xyzw_eq {n : Nat} (v : Vec n) (h : 3 < n) :
    x v (by omega) = v.get ⟨0, by omega⟩ ∧ y v (by omega) = v.get ⟨1, by omega⟩ ∧ z v (by omega) = v.get ⟨2, by omega⟩ ∧ w v h = v.get ⟨3, h⟩ :=
  ⟨rfl, rfl, rfl, rfl⟩

/-- `to_array` / copying into static storage preserves every component, for every storage kind -/
theorem get_toArray {n : Nat} (s : Storage n) (i : Fin n) : (fromArray (toArray s)).get i = s.get i := by simp

/-! ## 7. casts -/

theorem get_structureCast {n : Nat} (conv : Int → Int) (src : Storage n) (i : Fin n) :
    (structureCast conv src).get i = conv (src.get i) := Lemma.get_structureCast conv src i

theorem toMatrix_structureCast {r c : Nat} (conv : Int → Int) (a : Mat r c) :
    (a.structureCast conv).toMatrix = a.toMatrix.map conv := Lemma.toMatrix_structureCast conv a

theorem get_narrowCast {n m : Nat} (h : m < n) (src : Vec n) (i : Fin m) :
    (narrowCast h src).get i = src.get ⟨i.val, Nat.lt_trans i.isLt h⟩ := Lemma.get_narrowCast h src i

theorem get_pushBack {n : Nat} (src : Vec n) (value : Int) (i : Fin (n + 1)) :
    (pushBack src value).get i = if h : i.val < n then src.get ⟨i.val, h⟩ else value := Lemma.get_pushBack src value i

/-- `narrow_cast` undoes `push_back` -/
theorem narrowCast_pushBack {n : Nat} (src : Vec n) (value : Int) (i : Fin n) :
    (narrowCast (Nat.lt_succ_self n) (pushBack src value)).get i = src.get i := by
  rw [Lemma.get_narrowCast, Lemma.get_pushBack]; simp

/-! ## 8. comparison = list equality / lexicographic order -/

theorem eq_iff_components {n : Nat} (a b : Storage n) : arrayEqual a b = true ↔ ∀ i, a.get i = b.get i := Lemma.arrayEqual_iff a b
theorem eq_iff_toList {n : Nat} (a b : Storage n) : arrayEqual a b = true ↔ a.toList = b.toList := by
  rw [Lemma.arrayEqual_iff, Lemma.toList_eq_iff]
theorem ne_eq_not {n : Nat} (a b : Storage n) : ne a b = !arrayEqual a b := rfl
theorem mat_eq_iff {r c : Nat} (a b : Mat r c) : a.eq b = true ↔ a.toMatrix = b.toMatrix := Lemma.Mat.eq_iff a b
theorem mat_ne_eq_not {r c : Nat} (a b : Mat r c) : a.ne b = !a.eq b := rfl

/-- `<` is the strict lexicographic order of the component lists -/
theorem lt_iff_toList_lt {n : Nat} (a b : Storage n) : arrayLess a b = true ↔ a.toList < b.toList := Lemma.arrayLess_iff_lt a b
/-- … i.e. the first differing component decides -/
theorem lt_iff_first_difference {n : Nat} (a b : Storage n) : arrayLess a b = true ↔ LexLt a.get b.get := Lemma.arrayLess_iff_lexLt a b

theorem gt_le_ge {n : Nat} (a b : Storage n) :
    gt a b = arrayLess b a ∧ le a b = !arrayLess b a ∧ ge a b = !arrayLess a b := ⟨rfl, rfl, rfl⟩

theorem lt_irrefl {n : Nat} (a : Storage n) : arrayLess a a = false := by
  have : ¬ (arrayLess a a = true) := by rw [Lemma.arrayLess_iff_lt]; exact _root_.lt_irrefl _
  simpa using this

theorem lt_trans {n : Nat} (a b c : Storage n) (h1 : arrayLess a b = true) (h2 : arrayLess b c = true) : arrayLess a c = true := by
  rw [Lemma.arrayLess_iff_lt] at *; exact _root_.lt_trans h1 h2

/-- exactly one of `a < b`, `a == b`, `b < a` -/
theorem lt_trichotomy {n : Nat} (a b : Storage n) :
    (arrayLess a b = true ∧ arrayEqual a b = false ∧ arrayLess b a = false) ∨
    (arrayLess a b = false ∧ arrayEqual a b = true ∧ arrayLess b a = false) ∨
    (arrayLess a b = false ∧ arrayEqual a b = false ∧ arrayLess b a = true) := by
  have hlt : ∀ x y : Storage n, arrayLess x y = false ↔ ¬ (x.toList < y.toList) := fun x y => by
    rw [← Lemma.arrayLess_iff_lt]; simp
  have heq : arrayEqual a b = false ↔ ¬ (a.toList = b.toList) := by rw [← eq_iff_toList]; simp
  rw [Lemma.arrayLess_iff_lt, Lemma.arrayLess_iff_lt, eq_iff_toList, hlt, hlt, heq]
  rcases _root_.lt_trichotomy a.toList b.toList with h | h | h
  · exact Or.inl ⟨h, ne_of_lt h, not_lt_of_gt h⟩
  · exact Or.inr (Or.inl ⟨by rw [h]; exact _root_.lt_irrefl _, h, by rw [h]; exact _root_.lt_irrefl _⟩)
  · exact Or.inr (Or.inr ⟨not_lt_of_gt h, fun e => absurd h (by rw [e]; exact _root_.lt_irrefl _), h⟩)

/-! ## 9. bit strings -/

theorem bitStrings_length (n : Nat) : (bitStrings n).length = 2 ^ (n + 1) := Lemma.length_bitStrings n

/-- vector number `k` of `bit_strings<T, n + 1>()` has binary digit `i` of `k` as component `i` -/
theorem bitStrings_get (n : Nat) (k : Nat) (hk : k < (bitStrings n).length) (i : Fin (n + 1)) :
    ((bitStrings n)[k]).get i = bitOf k i.val := Lemma.get_bitStrings n k hk i

/-! ## 10. member operators: in-place updates of objects in memory, operands that alias the target

`Mem`, `Ref` (a storage as an lvalue), `Ref.load` (the value an object has at a moment): `Model/C14/Member.lean`.
Every theorem compares the object *after* the call with the free operator of §3 applied to the values the operands had
*before* the call, per component, for all sizes and all three storage kinds. -/

/-- `storage[i]` of an lvalue storage is the cell `base + i` (static storage: its array; buffer view: the pointer;
    row view: `impl[offset + i]`) -/
theorem addr_eq_base_add {len n : Nat} (r : Ref len n) (i : Fin n) : (r.addr i).val = r.base + i.val := Lemma.addr_val r i

theorem addr_injective {len n : Nat} (r : Ref len n) : Function.Injective r.addr := Lemma.addr_injective r

/-- the components of the value of an object are the cells read through its references -/
theorem load_get {len n : Nat} (mem : Mem len) (r : Ref len n) (i : Fin n) : (r.load mem).get i = r.read mem i := Lemma.get_load mem r i

/-- the row view `at_r<i>(m)` of a matrix in memory denotes the row view of the matrix's value -/
theorem load_atR {len r c : Nat} (m : MatRef len r c) (mem : Mem len) (i : Fin r) : (m.atR i).load mem = (m.load mem).atR i := rfl

/-- the reference `at_r_c<i, j>(m)` / `m.mij()` reads the entry `(i, j)` of the matrix's value -/
theorem load_atRC {len r c : Nat} (m : MatRef len r c) (mem : Mem len) (i : Fin r) (j : Fin c) : mem[m.atRC i j] = (m.load mem).atRC i j := by
  show mem[(m.atR i).addr j] = ((m.load mem).atR i).get j
  rw [← load_atR]; exact (Lemma.get_load mem (m.atR i) j).symm

/-- which operands `left op= right` supports: exactly those where the target starts at or before the right operand, or
    behind its end.  (The right operand may therefore be the same object, overlap the target from behind, or be disjoint.) -/
theorem noClobber_iff {len n : Nat} (l r : Ref len n) : NoClobber l r ↔ (l.base ≤ r.base ∨ r.base + n ≤ l.base) := Lemma.noClobber_iff l r

/-- the right operand is the target itself: `v += v`, `v *= v`, `m -= m` -/
theorem noClobber_self {len n : Nat} (v : Ref len n) : NoClobber v v := Lemma.noClobber_self v

theorem noClobber_of_disjoint {len n : Nat} (l r : Ref len n) (h : ∀ i j, l.addr i ≠ r.addr j) : NoClobber l r := fun i j _ => h j i

/-- two row views of one matrix, in any order, equal or different rows: `at_r<0>(m) += at_r<1>(m)`, `at_r<1>(m) -= at_r<1>(m)` -/
theorem noClobber_rows {len r c : Nat} (m : MatRef len r c) (i j : Fin r) : NoClobber (m.atR i) (m.atR j) := Lemma.noClobber_rows m i j

/-- `l += r` is the free `l + r` on the values before the call -/
theorem addAssign_eq_add {len n : Nat} (l r : Ref len n) (mem : Mem len) (h : NoClobber l r) (i : Fin n) :
    (l.load (addAssign l r mem)).get i = (add (l.load mem) (r.load mem)).get i := by
  simp only [add, Lemma.get_binaryMap, Lemma.get_load]
  exact (Lemma.memberOperator_elem (· + ·) elemAdd (fun _ _ _ => rfl) l r mem h).1 i

/-- `l -= r` is the free `l - r` -/
theorem subAssign_eq_sub {len n : Nat} (l r : Ref len n) (mem : Mem len) (h : NoClobber l r) (i : Fin n) :
    (l.load (subAssign l r mem)).get i = (sub (l.load mem) (r.load mem)).get i := by
  simp only [sub, Lemma.get_binaryMap, Lemma.get_load]
  exact (Lemma.memberOperator_elem (· - ·) elemSub (fun _ _ _ => rfl) l r mem h).1 i

/-- `l *= r` (component-wise) is the free `l * r` -/
theorem mulAssign_eq_mul {len n : Nat} (l r : Ref len n) (mem : Mem len) (h : NoClobber l r) (i : Fin n) :
    (l.load (mulAssign l r mem)).get i = (mul (l.load mem) (r.load mem)).get i := by
  simp only [mul, Lemma.get_binaryMap, Lemma.get_load]
  exact (Lemma.memberOperator_elem (· * ·) elemMul (fun _ _ _ => rfl) l r mem h).1 i

/-- `+=`, `-=`, `*=` change no cell outside the target (whatever the operands are) -/
theorem memberOps_frame {len n : Nat} (l r : Ref len n) (mem : Mem len) (a : Fin len) (ha : l.Outside a) :
    (addAssign l r mem)[a] = mem[a] ∧ (subAssign l r mem)[a] = mem[a] ∧ (mulAssign l r mem)[a] = mem[a] :=
  ⟨Lemma.memberOperator_frame (· + ·) elemAdd (fun _ _ _ => rfl) l r mem a ha,
   Lemma.memberOperator_frame (· - ·) elemSub (fun _ _ _ => rfl) l r mem a ha,
   Lemma.memberOperator_frame (· * ·) elemMul (fun _ _ _ => rfl) l r mem a ha⟩

/-- `v += v` doubles, `v -= v` is null, `v *= v` squares every component -/
theorem memberOps_self {len n : Nat} (v : Ref len n) (mem : Mem len) (i : Fin n) :
    (v.load (addAssign v v mem)).get i = (v.load mem).get i + (v.load mem).get i ∧
    (v.load (subAssign v v mem)).get i = 0 ∧
    (v.load (mulAssign v v mem)).get i = (v.load mem).get i * (v.load mem).get i := by
  refine ⟨?_, ?_, ?_⟩
  · rw [addAssign_eq_add v v mem (noClobber_self v)]; simp [add]
  · rw [subAssign_eq_sub v v mem (noClobber_self v)]; simp [sub]
  · rw [mulAssign_eq_mul v v mem (noClobber_self v)]; simp [mul]

/-- `v *= s` is the free `v * s` with the value `s` had before the call — for **every** scalar argument, also a reference to
    a component of `v` itself (`v *= v.x()`, `m *= at_r_c<1,1>(m)`, `d *= d.w()`): the factor is copied at the call -/
theorem mulAssignScalar_eq_smulR {len n : Nat} (v : Ref len n) (s : Scalar len) (mem : Mem len) (i : Fin n) :
    (v.load (mulAssignScalar v s mem)).get i = (smulR (v.load mem) (s.read mem)).get i := by
  simp only [smulR, Lemma.get_map, Lemma.get_load, mulAssignScalar]
  exact (Lemma.multiplyScalar_spec v (s.read mem) mem).1 i

/-- … in particular for the scalar `at<k>(v)` of the target -/
theorem mulAssignScalar_own_component {len n : Nat} (v : Ref len n) (k : Fin n) (mem : Mem len) (i : Fin n) :
    (v.load (mulAssignScalar v (.cell (v.atI k)) mem)).get i = (v.load mem).get i * (v.load mem).get k := by
  rw [mulAssignScalar_eq_smulR]; simp [smulR, Lemma.get_load, Scalar.read, Ref.read, Ref.atI]

theorem mulAssignScalar_frame {len n : Nat} (v : Ref len n) (s : Scalar len) (mem : Mem len) (a : Fin len) (ha : v.Outside a) :
    (mulAssignScalar v s mem)[a] = mem[a] := (Lemma.multiplyScalar_spec v (s.read mem) mem).2 a ha

/-- the converting `operator=` copies the value the right operand had before the call -/
theorem assignConv_eq {len n : Nat} (l r : Ref len n) (mem : Mem len) (h : NoClobber l r) (i : Fin n) :
    (l.load (assignConv l r mem)).get i = (r.load mem).get i := by
  simp only [Lemma.get_load, assignConv]
  exact (Lemma.assign_spec l r mem h).1 i

theorem assignConv_frame {len n : Nat} (l r : Ref len n) (mem : Mem len) (a : Fin len) (ha : l.Outside a) : (assignConv l r mem)[a] = mem[a] :=
  Lemma.loop_frame n l.addr _ (fun _ _ _ h => Lemma.set_frame _ _ _ _ h) mem a ha

/-- copy assignment between two static objects copies the value (all reads happen before the writes: no condition) -/
theorem copyAssign_static {len n : Nat} (base : Nat) (hb : base + n ≤ len) (other : Ref len n) (mem : Mem len) (i : Fin n) :
    (copyAssign (.static base hb) other mem).2 = .static base hb ∧
    ((Ref.static base hb).load (copyAssign (.static base hb) other mem).1).get i = (other.load mem).get i := by
  refine ⟨rfl, ?_⟩
  simp only [Lemma.get_load, copyAssign, Ref.read, Ref.write]
  rw [(Lemma.loop_write_const n (Ref.static base hb).addr (fun i => (Vector.ofFn fun i => mem[other.addr i])[i]) mem (Lemma.addr_injective _)).1 i]
  simp

/-- copy assignment between two views of the same type copies the *view*: no cell changes, the left object afterwards
    refers to the cells of the right one (`auto r0 = m.get_unsafe(0); r0 = m.get_unsafe(1);` leaves `m` as it is) -/
theorem copyAssign_view {len n : Nat} (self other : Ref len n) (mem : Mem len) (h : ∀ base hb, self ≠ .static base hb) :
    copyAssign self other mem = (mem, other) := by
  cases self with
  | static base hb => exact absurd rfl (h base hb)
  | buffer ptr hp => rfl
  | rowView impl offset ho => rfl

/-- `detail::copy` (converting constructor into static storage) is `to_array` of the value -/
theorem copy_eq {len n : Nat} (arg : Ref len n) (mem : Mem len) : copy arg mem = fromArray (toArray (arg.load mem)) := by
  simp only [copy, toArray]
  congr 1
  ext i hi
  simp [Lemma.get_load]

/-- `dest = static_<…>(src)` (converting constructor, then assignment from the temporary) gives `dest` the value of the temporary;
    with `copy_eq`: the value `src` had before the statement, whatever `src` aliases -/
theorem assignValue_eq {len n : Nat} (dest : Ref len n) (v : Storage n) (mem : Mem len) (i : Fin n) :
    (dest.load (assignValue dest v mem)).get i = v.get i := by
  simp only [Lemma.get_load, assignValue, Ref.read, Ref.write]
  exact (Lemma.loop_write_const n dest.addr v.get mem (Lemma.addr_injective _)).1 i

theorem assignValue_copy_eq {len n : Nat} (dest src : Ref len n) (mem : Mem len) (i : Fin n) :
    (dest.load (assignValue dest (copy src mem) mem)).get i = (src.load mem).get i := by
  rw [assignValue_eq, copy_eq]; simp [toArray]

theorem assignValue_frame {len n : Nat} (dest : Ref len n) (v : Storage n) (mem : Mem len) (a : Fin len) (ha : dest.Outside a) :
    (assignValue dest v mem)[a] = mem[a] :=
  Lemma.loop_frame n dest.addr _ (fun _ _ _ h => Lemma.set_frame _ _ _ _ h) mem a ha

theorem ref_getUnsafe_ok {len n : Nat} (v : Ref len n) (i : Fin n) : v.getUnsafe i.val = .ok (v.atI i) := by simp [Ref.getUnsafe, Ref.atI]
theorem ref_getUnsafe_oob {len n : Nat} (v : Ref len n) (i : Nat) (h : n ≤ i) : v.getUnsafe i = .error .oob := by
  simp [Ref.getUnsafe, Nat.not_lt.2 h]

/-- `at<k>(v) = x` changes component `k` and nothing else -/
theorem setElem_eq {len n : Nat} (v : Ref len n) (k : Fin n) (x : Int) (mem : Mem len) (i : Fin n) :
    (v.load (setElem (v.atI k) x mem)).get i = if i = k then x else (v.load mem).get i := by
  simp only [Lemma.get_load, Ref.read, setElem, Ref.atI, Fin.getElem_fin]
  by_cases h : i = k
  · subst h; simp
  · rw [if_neg h, Vector.getElem_set_ne]
    exact fun e => h (Lemma.addr_injective v (Fin.ext e)).symm

/-- **all histories**: whatever sequence of member-operator statements runs (any operands, any aliasing), a cell that is outside
    the target of every statement keeps its value -/
theorem run_frame {len : Nat} (stmts : List (Stmt len)) (mem : Mem len) (a : Fin len) (h : ∀ s ∈ stmts, s.TargetOutside a) :
    (Stmt.run stmts mem)[a] = mem[a] := by
  induction stmts generalizing mem with
  | nil => rfl
  | cons s rest ih =>
    have hs := h s (List.mem_cons_self ..)
    have hstep : (s.exec mem)[a] = mem[a] := by
      cases s with
      | add t x => exact (memberOps_frame t x mem a hs).1
      | sub t x => exact (memberOps_frame t x mem a hs).2.1
      | mul t x => exact (memberOps_frame t x mem a hs).2.2
      | smul t sc => exact mulAssignScalar_frame t sc mem a hs
      | asg t x => exact assignConv_frame t x mem a hs
      | ctor t x => exact assignValue_frame t _ mem a hs
      | set t i v => exact Lemma.set_frame mem _ a v (hs i)
    show (Stmt.run rest (s.exec mem))[a] = mem[a]
    rw [ih (s.exec mem) fun s' hs' => h s' (List.mem_cons_of_mem _ hs'), hstep]

theorem run_append {len : Nat} (p q : List (Stmt len)) (mem : Mem len) : Stmt.run (p ++ q) mem = Stmt.run q (Stmt.run p mem) := by
  simp [Stmt.run, List.foldl_append]

/-- save – mutate – restore: `b = a; a *= s; a += x; a = b` gives `a` its old value back, whatever `s` and `x` alias
    (as long as `b` is disjoint from `a` and is not overwritten in between) -/
theorem save_mutate_restore {len n : Nat} (a b x : Ref len n) (s : Scalar len) (mem : Mem len)
    (hab : ∀ i j, a.addr i ≠ b.addr j) (i : Fin n) :
    (a.load (Stmt.run [.asg b a, .smul a s, .add a x, .asg a b] mem)).get i = (a.load mem).get i := by
  have hba : NoClobber b a := noClobber_of_disjoint b a fun i j => (hab j i).symm
  have hab' : NoClobber a b := noClobber_of_disjoint a b hab
  show (a.load (assignConv a b (addAssign a x (mulAssignScalar a s (assignConv b a mem))))).get i = _
  rw [assignConv_eq a b _ hab', load_get, load_get]
  have hb : ∀ k, a.Outside (b.addr k) := fun k j => hab j k
  show (addAssign a x (mulAssignScalar a s (assignConv b a mem)))[b.addr i] = _
  rw [(memberOps_frame a x _ _ (hb i)).1, mulAssignScalar_frame a s _ _ (hb i)]
  have := assignConv_eq b a mem hba i
  rwa [load_get, load_get] at this

/-! ### matrices -/

/-- `m += x` on matrices is the free `+` (Mathlib's), also for `m += m` -/
theorem mat_addAssign {len r c : Nat} (m x : MatRef len r c) (mem : Mem len) (h : NoClobber m.s x.s) :
    (m.load (addAssign m.s x.s mem)).toMatrix = (m.load mem).toMatrix + (x.load mem).toMatrix := by
  ext i j
  simp only [Lemma.Mat.toMatrix_apply, Matrix.add_apply, Lemma.load_atRC]
  exact (Lemma.memberOperator_elem (· + ·) elemAdd (fun _ _ _ => rfl) m.s x.s mem h).1 _

theorem mat_subAssign {len r c : Nat} (m x : MatRef len r c) (mem : Mem len) (h : NoClobber m.s x.s) :
    (m.load (subAssign m.s x.s mem)).toMatrix = (m.load mem).toMatrix - (x.load mem).toMatrix := by
  ext i j
  simp only [Lemma.Mat.toMatrix_apply, Matrix.sub_apply, Lemma.load_atRC]
  exact (Lemma.memberOperator_elem (· - ·) elemSub (fun _ _ _ => rfl) m.s x.s mem h).1 _

/-- `m *= s` is `s • m` with the value `s` had before the call, for every scalar argument — also an entry of `m` -/
theorem mat_mulAssignScalar {len r c : Nat} (m : MatRef len r c) (s : Scalar len) (mem : Mem len) :
    (m.load (mulAssignScalar m.s s mem)).toMatrix = s.read mem • (m.load mem).toMatrix := by
  ext i j
  simp only [Lemma.Mat.toMatrix_apply, Matrix.smul_apply, Lemma.load_atRC, mulAssignScalar, smul_eq_mul]
  rw [(Lemma.multiplyScalar_spec m.s (s.read mem) mem).1, Int.mul_comm]

/-- a write through a row view changes the matrix: after `at_r<i>(m) += v` row `i` of `m` is the old row plus `v`, the other
    rows are unchanged -/
theorem row_addAssign {len r c : Nat} (m : MatRef len r c) (i : Fin r) (v : Ref len c) (mem : Mem len) (h : NoClobber (m.atR i) v)
    (i' : Fin r) (j : Fin c) :
    (m.load (addAssign (m.atR i) v mem)).atRC i' j =
      if i' = i then (m.load mem).atRC i j + (v.load mem).get j else (m.load mem).atRC i' j := by
  by_cases hi : i' = i
  · subst hi
    rw [if_pos rfl]
    have := addAssign_eq_add (m.atR i') v mem h j
    simpa [load_atR, add, Mat.atRC] using this
  · rw [if_neg hi, ← load_atRC, ← load_atRC]
    exact (memberOps_frame (m.atR i) v mem _ fun k => Lemma.rows_disjoint m hi j k).1

/-- `at_r<i>(m) += at_r<j>(m)` for any two rows of the same matrix (also `i = j`) -/
theorem row_addAssign_row {len r c : Nat} (m : MatRef len r c) (i j : Fin r) (mem : Mem len) (i' : Fin r) (k : Fin c) :
    (m.load (addAssign (m.atR i) (m.atR j) mem)).atRC i' k =
      if i' = i then (m.load mem).atRC i k + (m.load mem).atRC j k else (m.load mem).atRC i' k := by
  rw [row_addAssign m i (m.atR j) mem (noClobber_rows m i j)]; rfl

/-- `at_r<i>(m) *= s` scales row `i` by the value `s` had before the call (also `at_r<1>(m) *= m.m10()`), other rows unchanged -/
theorem row_mulAssignScalar {len r c : Nat} (m : MatRef len r c) (i : Fin r) (s : Scalar len) (mem : Mem len) (i' : Fin r) (j : Fin c) :
    (m.load (mulAssignScalar (m.atR i) s mem)).atRC i' j =
      if i' = i then (m.load mem).atRC i j * s.read mem else (m.load mem).atRC i' j := by
  by_cases hi : i' = i
  · subst hi
    rw [if_pos rfl]
    have := mulAssignScalar_eq_smulR (m.atR i') s mem j
    simpa [load_atR, smulR, Mat.atRC] using this
  · rw [if_neg hi, ← load_atRC, ← load_atRC]
    exact mulAssignScalar_frame (m.atR i) s mem _ fun k => Lemma.rows_disjoint m hi j k

/-! ## 11. neighbouring API: vector ∘ dim, contents, is_quadratic, to_dim / to_vector, unit, transform_point / direction, infinity norm -/

/-- `vector + dim`, `vector - dim`, `vector * dim` are component-wise -/
theorem get_vecDimOps {n : Nat} (l r : Vec n) (i : Fin n) :
    (addD l r).get i = l.get i + r.get i ∧ (subD l r).get i = l.get i - r.get i ∧ (mulD l r).get i = l.get i * r.get i := by
  simp [addD, subD, mulD, dimMap]

/-- `vector / dim` is `vector / vector` on the components (so `divV_some`, `divV_none` describe it) -/
theorem divD_eq_divV {n : Nat} (l r : Vec n) : divD l r = divV l r := rfl

/-- `dim::contents` is the product of the components (1 for dimension 0) -/
theorem contents_eq_prod {n : Nat} (d : Vec n) : contents d = ∏ i, d.get i := Lemma.contents_eq_prod d

theorem isQuadratic_iff {n : Nat} (d : Vec (n + 1)) : isQuadratic d = true ↔ ∀ i, d.get i = d.get 0 := Lemma.isQuadratic_iff d

/-- `to_dim`, `to_vector` keep every component -/
theorem get_toDifferent {n : Nat} (s : Vec n) (i : Fin n) : (toDifferent s).get i = s.get i := Lemma.get_toDifferent s i

theorem get_unit (n axis : Nat) (i : Fin n) : (unit n axis).get i = if i.val = axis then 1 else 0 := Lemma.get_unit n axis i

/-- `transform_point(m, v)`: the first three components of `m · (v, 1)` -/
theorem get_transformPoint (m : Mat 4 4) (v : Vec 3) (i : Fin 3) :
    (m.transformPoint v).get i =
      m.atRC i.castSucc 0 * v.get 0 + m.atRC i.castSucc 1 * v.get 1 + m.atRC i.castSucc 2 * v.get 2 + m.atRC i.castSucc 3 := by
  have h := congrFun (Lemma.toFun_mulVec m (pushBack v 1)) i.castSucc
  simp only [Mat.transformPoint, Lemma.get_narrowCast]
  simp only [Lemma.Storage.toFun_apply] at h
  rw [show (⟨i.val, _⟩ : Fin 4) = i.castSucc from rfl, h]
  simp [Matrix.mulVec, dotProduct, Fin.sum_univ_four, Lemma.get_pushBack]

/-- `transform_direction(m, v)`: the first three components of `m · (v, 0)` -/
theorem get_transformDirection (m : Mat 4 4) (v : Vec 3) (i : Fin 3) :
    (m.transformDirection v).get i = m.atRC i.castSucc 0 * v.get 0 + m.atRC i.castSucc 1 * v.get 1 + m.atRC i.castSucc 2 * v.get 2 := by
  have h := congrFun (Lemma.toFun_mulVec m (pushBack v 0)) i.castSucc
  simp only [Mat.transformDirection, Lemma.get_narrowCast]
  simp only [Lemma.Storage.toFun_apply] at h
  rw [show (⟨i.val, _⟩ : Fin 4) = i.castSucc from rfl, h]
  simp [Matrix.mulVec, dotProduct, Fin.sum_univ_four, Lemma.get_pushBack]

/-- a translation moves points and leaves directions alone; a scaling scales both -/
theorem transformPoint_translation (tx ty tz : Int) (v : Vec 3) (i : Fin 3) :
    ((Mat.translation tx ty tz).transformPoint v).get i = v.get i + ![tx, ty, tz] i := by
  rw [get_transformPoint]
  have hm := toMatrix_translation tx ty tz
  have e : ∀ a b, (Mat.translation tx ty tz).atRC a b = !![1, 0, 0, tx; 0, 1, 0, ty; 0, 0, 1, tz; 0, 0, 0, 1] a b := fun a b => by rw [← hm]; rfl
  simp only [e]
  fin_cases i <;> simp

theorem transformDirection_translation (tx ty tz : Int) (v : Vec 3) (i : Fin 3) :
    ((Mat.translation tx ty tz).transformDirection v).get i = v.get i := by
  rw [get_transformDirection]
  have hm := toMatrix_translation tx ty tz
  have e : ∀ a b, (Mat.translation tx ty tz).atRC a b = !![1, 0, 0, tx; 0, 1, 0, ty; 0, 0, 1, tz; 0, 0, 0, 1] a b := fun a b => by rw [← hm]; rfl
  simp only [e]
  fin_cases i <;> simp

theorem transformPoint_scaling (sx sy sz : Int) (v : Vec 3) (i : Fin 3) :
    ((Mat.scaling sx sy sz).transformPoint v).get i = ![sx, sy, sz] i * v.get i := by
  rw [get_transformPoint]
  have hm := toMatrix_scaling sx sy sz
  have e : ∀ a b, (Mat.scaling sx sy sz).atRC a b = Matrix.diagonal ![sx, sy, sz, 1] a b := fun a b => by rw [← hm]; rfl
  simp only [e]
  fin_cases i <;> simp [Matrix.diagonal]

/-- `math::mod` is C++ `%` (truncating), nothing for a zero divisor; `vector::mod` applies it per component -/
theorem mod_some (a b r : Int) : mod a b = some r ↔ b ≠ 0 ∧ r = Int.tmod a b := Lemma.mod_eq_some a b r
theorem mod_none (a b : Int) : mod a b = none ↔ b = 0 := Lemma.mod_eq_none a b
/-- on the operands the code can be instantiated with (unsigned `T`) it is the mathematical remainder -/
theorem mod_of_nonneg (a b : Int) (ha : 0 ≤ a) (hb : 0 < b) : mod a b = some (a % b) := by
  rw [mod_some]; exact ⟨by omega, (Int.tmod_eq_emod_of_nonneg ha).symm⟩
theorem modV_some {n : Nat} (v0 v1 w : Vec n) :
    modV v0 v1 = some w ↔ w.IsStatic ∧ ∀ i, v1.get i ≠ 0 ∧ w.get i = Int.tmod (v0.get i) (v1.get i) := Lemma.modV_eq_some v0 v1 w
theorem modV_none {n : Nat} (v0 v1 : Vec n) : modV v0 v1 = none ↔ ∃ i, v1.get i = 0 := Lemma.modV_eq_none v0 v1
theorem modS_some {n : Nat} (v w : Vec n) (d : Int) :
    modS v d = some w ↔ w.IsStatic ∧ ∀ i, d ≠ 0 ∧ w.get i = Int.tmod (v.get i) d := Lemma.modS_eq_some v w d
theorem modS_none {n : Nat} (v : Vec n) (d : Int) : modS v d = none ↔ 0 < n ∧ d = 0 := Lemma.modS_eq_none v d

/-- `math::ceil_div_signed(a, b)` is the ceiling of the exact quotient for every combination of signs, nothing for `b = 0` -/
theorem ceilDivSigned_eq_ceil (a b q : Int) (h : ceilDivSigned a b = some q) : q = ⌈(a : ℚ) / b⌉ := Lemma.ceilDivSigned_eq_ceil a b q h
theorem ceilDivSigned_none (a b : Int) : ceilDivSigned a b = none ↔ b = 0 := Lemma.ceilDivSigned_eq_none a b
theorem ceilDivSigned_some (a b : Int) (h : b ≠ 0) : ∃ q, ceilDivSigned a b = some q := by
  cases hq : ceilDivSigned a b with
  | none => exact absurd ((Lemma.ceilDivSigned_eq_none a b).1 hq) h
  | some q => exact ⟨q, rfl⟩

/-- `vector::ceil_div_signed(v, d)`: the ceiling per component -/
theorem ceilDivSignedV_some {n : Nat} (v w : Vec n) (d : Int) (h : ceilDivSignedV v d = some w) (i : Fin n) :
    d ≠ 0 ∧ w.get i = ⌈((v.get i : Int) : ℚ) / d⌉ := by
  simp only [ceilDivSignedV, Lemma.sequence_eq_some] at h
  have hi := h.2 i
  simp only [Fin.getElem_fin, Vector.getElem_ofFn, Lemma.getElem_toArray] at hi
  refine ⟨fun h0 => ?_, Lemma.ceilDivSigned_eq_ceil _ _ _ hi⟩
  rw [h0, (Lemma.ceilDivSigned_eq_none _ 0).2 rfl] at hi
  cases hi

/-- `infinity_norm` of a matrix with at least one row is the largest absolute row sum -/
theorem infinityNorm_max {r c : Nat} (m : Mat (r + 1) c) :
    (∀ i, m.rowAbsSum i ≤ m.infinityNorm) ∧ ∃ i, m.infinityNorm = m.rowAbsSum i := by
  rw [Lemma.infinityNorm_eq_fold]
  obtain ⟨_, hle, hex⟩ := Lemma.fold_max longMin m.rowAbsSum
  refine ⟨hle, ?_⟩
  rcases hex with h | h
  · have h0 := hle 0
    have := Lemma.rowAbsSum_nonneg m 0
    rw [h] at h0
    exact absurd (le_trans this h0) (by decide)
  · exact h

theorem infinityNorm_nonneg {r c : Nat} (m : Mat (r + 1) c) : 0 ≤ m.infinityNorm :=
  le_trans (Lemma.rowAbsSum_nonneg m 0) ((infinityNorm_max m).1 0)

/-- `rowAbsSum` is `Σ_j |a_ij|` -/
theorem rowAbsSum_eq {r c : Nat} (m : Mat r c) (i : Fin r) : m.rowAbsSum i = ∑ j, |m.atRC i j| := rfl

/-! ## non-vacuity and the repaired defect -/

/-- a concrete non-trivial instance of the hypotheses: a unimodular 2×2 matrix in view storage -/
example : ∃ a : Mat 2 2, ¬ a.IsStatic ∧ a.det = 1 ∧ a.toMatrix = !![2, 1; 1, 1] := by
  refine ⟨⟨Storage.buffer 6 #v[7, 2, 1, 1, 1, 9] 1 (by decide)⟩, ?_, by decide, ?_⟩
  · rintro ⟨v, hv⟩; cases hv
  · ext i j; fin_cases i <;> fin_cases j <;> rfl

example : (⟨fromArray #v[1, 2, 3, 4, 5, 6, 7, 8, 10]⟩ : Mat 3 3).det = -3 := by decide
example : arrayLess (fromArray #v[1, 2, 3]) (fromArray #v[1, 3, 0]) = true := by decide
example : (cross (fromArray #v[1, 0, 0]) (fromArray #v[0, 1, 0])).toList = [0, 0, 1] := by decide

/-- after fix 88691c8: the adjugate of a 1×1 matrix is `[1]` and `A · adj A = det A · 1` holds -/
example : ((Mat.single 5).adjugate).atRC 0 0 = 1 := by decide

/-- before the fix (`determinant` of the 0×0 matrix = 0): the adjugate of `[5]` was `[0]`, and
    `A · adj A = [0] ≠ [5] = det A · 1` — the property was false for every 1×1 matrix with non-zero entry -/
example : ((Mat.single 5).oldAdjugate).atRC 0 0 = 0 := by decide
example : ((Mat.single 5).mul (Mat.single 5).oldAdjugate).atRC 0 0 ≠ (Mat.smulL (Mat.single 5).oldDet (Mat.identity 1)).atRC 0 0 := by decide

/-- member operators, non-vacuity: `v = (2, 3, -4)`, `v *= v.x()` gives `(4, 6, -8)` (the factor is copied at the call) -/
example : (mulAssignScalar (.static 0 (by decide) : Ref 3 3) (.cell ⟨0, by decide⟩) #v[2, 3, -4]).toList = [4, 6, -8] := by decide

/-- **refuted seeded variant C14-1** (`multiply_scalar` takes the factor by `const &` and captures it by reference):
    `(2, 3, -4) *= x` gives `(4, 12, -16)` — `x` is already 4 when `y` and `z` are scaled — so `*=` is not the free `*` -/
example : (multiplyScalarByRef (.static 0 (by decide) : Ref 3 3) (.cell ⟨0, by decide⟩) #v[2, 3, -4]).toList = [4, 12, -16] := by decide
example : ∃ (v : Ref 3 3) (k : Fin 3) (mem : Mem 3) (i : Fin 3),
    (v.load (multiplyScalarByRef v (.cell (v.atI k)) mem)).get i ≠ (smulR (v.load mem) ((v.load mem).get k)).get i :=
  ⟨.static 0 (by decide), 0, #v[2, 3, -4], 1, by decide⟩

/-- `at_r<0>(m) += at_r<1>(m)` and `at_r<1>(m) += at_r<1>(m)` on the 2×2 matrix `[[1, 2], [3, 4]]` -/
example : (addAssign ((⟨.static 0 (by decide)⟩ : MatRef 4 2 2).atR 0) ((⟨.static 0 (by decide)⟩ : MatRef 4 2 2).atR 1) #v[1, 2, 3, 4]).toList = [4, 6, 3, 4] := by decide
example : (addAssign ((⟨.static 0 (by decide)⟩ : MatRef 4 2 2).atR 1) ((⟨.static 0 (by decide)⟩ : MatRef 4 2 2).atR 1) #v[1, 2, 3, 4]).toList = [1, 2, 6, 8] := by decide

/-- the hypothesis `NoClobber` is needed: a target view that starts one cell *behind* the start of an overlapping right operand
    reads cells it has already written (`[1, 2, 3]`: the view at 1 `+=` the view at 0 gives `[1, 3, 6]`, the free `+` would give `[1, 3, 5]`) -/
example : (addAssign (.buffer 1 (by decide) : Ref 3 2) (.buffer 0 (by decide)) #v[1, 2, 3]).toList = [1, 3, 6] := by decide
example : ¬ NoClobber (.buffer 1 (by decide) : Ref 3 2) (.buffer 0 (by decide)) := by
  rw [noClobber_iff]; decide

end Fcppt.C14
