import FcpptModel.Spec.C14
/-! Property theorems for C14 (skeleton; extended below). -/
namespace Fcppt.C14

theorem get_init {n : Nat} (f : Fin n → Int) (i : Fin n) : (init f).get i = f i := by
  simp [init, fromArray, Storage.get]

/-- `at_r_c<R, C>(m)` reads element `R * columns + C` of the storage -/
theorem atRC_eq_entry {r c : Nat} (m : Mat r c) (i : Fin r) (j : Fin c) : m.atRC i j = m.entry i j := by
  simp [Mat.atRC, atI, Mat.atR, Storage.get, Mat.entry]

end Fcppt.C14
