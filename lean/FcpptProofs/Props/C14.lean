/-! Property theorems for C14 — placeholder until the property's model is built. -/
