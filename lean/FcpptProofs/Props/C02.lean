import FcpptProofs.C02.Refine
import FcpptProofs.C02.Sound
import FcpptProofs.C02.Progress
import FcpptProofs.C02.Total
import FcpptProofs.C02.TotalRec
import FcpptProofs.C02.TypedSound
set_option linter.unusedSimpArgs false
set_option linter.unusedVariables false
/-!
# C02 — property theorems: fcppt.parse implements ordered-choice (PEG) semantics

`M.run` / `M.parseString` (FcpptModel/Model/C02.lean) mirror the headers with an explicit stream
position that is saved and restored; `S.parse` and `Derives` (FcpptModel/Spec/C02.lean) are the
documented semantics on the remaining input.  All theorems hold for every grammar (including
recursive and ill-formed ones), every skipper, every input, every start position and every amount of
fuel; nothing is restricted to the sizes the correspondence enumerates.
Only theorems live here; lemmas are in `FcpptProofs/C02/`.
-/
namespace Fcppt.C02

/-! ## implementation model = documented semantics -/

/-- Skippers: the position-threading run (with its save/restore in `repetition`) observes exactly
the position-free semantics on the remaining input. -/
theorem skip_refines_spec (s : List Nat) (f : Nat) (sk : Sk) (pos : Nat) :
    (M.skip s f sk pos).map (absSk s) = S.skip f sk (s.drop pos) :=
  skip_refines s f sk pos

/-- **Refinement**: for every fuel, grammar, parser, skipper, input and start position the outcome
of the position-threading run — value and what is left of the input, or failure and its fatal flag,
or out of fuel — is the outcome of the position-free semantics on `s.drop pos`.  Every
`set_position` of alternative / optional / not_ / repetition therefore rewinds to exactly the
input the documented semantics continues with. -/
theorem run_refines (g : G) (s : List Nat) (f : Nat) (p : P) (sk : Sk) (pos : Nat) :
    (M.run g s f p sk pos).map (absRes s) = S.parse g f p sk (s.drop pos) :=
  run_refines' g s f p sk pos

/-- the string entry points (skipper first, parser, `consume_remaining`) agree as well -/
theorem parseString_refines_spec (g : G) (f : Nat) (p : P) (sk : Sk) (s : List Nat) :
    M.parseString g f p sk s = S.parseString g f p sk s :=
  parseString_refines g f p sk s

/-- more fuel never changes an outcome -/
theorem fuel_mono {g : G} {f f' : Nat} {p : P} {sk : Sk} {inp : List Nat} {r : Res}
    (h : S.parse g f p sk inp = some r) (hle : f ≤ f') : S.parse g f' p sk inp = some r :=
  parse_mono hle h

/-- every outcome the interpreter computes is derivable in the documented big-step semantics -/
theorem parse_sound_spec {g : G} {f : Nat} {p : P} {sk : Sk} {inp : List Nat} {r : Res}
    (h : S.parse g f p sk inp = some r) : Derives g p sk inp r :=
  parse_sound h

/-- every derivable outcome is computed, given enough fuel -/
theorem parse_complete_spec {g : G} {p : P} {sk : Sk} {inp : List Nat} {r : Res}
    (h : Derives g p sk inp r) : ∃ f, S.parse g f p sk inp = some r :=
  parse_complete h

theorem skip_sound_spec {f : Nat} {sk : Sk} {inp : List Nat} {r : SkRes}
    (h : S.skip f sk inp = some r) : SkDerives sk inp r := skip_sound h

theorem skip_complete_spec {sk : Sk} {inp : List Nat} {r : SkRes} (h : SkDerives sk inp r) :
    ∃ f, S.skip f sk inp = some r := skip_complete h

/-- **Unique derivation**: the outcome (success value, rest of the input, failure, fatal flag) of a
parser on an input is determined. -/
theorem derives_functional {g : G} {p : P} {sk : Sk} {inp : List Nat} {r₁ r₂ : Res}
    (h₁ : Derives g p sk inp r₁) (h₂ : Derives g p sk inp r₂) : r₁ = r₂ := by
  obtain ⟨f1, e1⟩ := parse_complete h₁
  obtain ⟨f2, e2⟩ := parse_complete h₂
  have a := parse_mono (f' := f1 + f2) (by omega) e1
  have b := parse_mono (f' := f1 + f2) (by omega) e2
  rw [a] at b
  exact Option.some.inj b

theorem skDerives_functional {sk : Sk} {inp : List Nat} {r₁ r₂ : SkRes}
    (h₁ : SkDerives sk inp r₁) (h₂ : SkDerives sk inp r₂) : r₁ = r₂ := by
  obtain ⟨f1, e1⟩ := skip_complete h₁
  obtain ⟨f2, e2⟩ := skip_complete h₂
  have a := skip_mono (f' := f1 + f2) (by omega) e1
  have b := skip_mono (f' := f1 + f2) (by omega) e2
  rw [a] at b
  exact Option.some.inj b

/-- The implementation model, started anywhere in the input, produces precisely the derivable
outcome (whenever it terminates), and every derivable outcome is produced. -/
theorem run_iff_derives (g : G) (s : List Nat) (p : P) (sk : Sk) (pos : Nat) (r : Res) :
    (∃ f m, M.run g s f p sk pos = some m ∧ absRes s m = r) ↔ Derives g p sk (s.drop pos) r := by
  constructor
  · rintro ⟨f, m, hm, rfl⟩
    apply parse_sound (f := f)
    rw [← run_refines, hm]; rfl
  · intro h
    obtain ⟨f, hf⟩ := parse_complete h
    rw [← run_refines] at hf
    cases hm : M.run g s f p sk pos with
    | none => simp [hm] at hf
    | some m => exact ⟨f, m, hm, by simpa [hm] using hf⟩

/-! ## the string entry points -/

/-- `parse_string` / `phrase_parse_string` / `grammar_parse_string`: the outcome is the documented
one — skipper first; failure (with its fatal flag) of skipper or parser is passed on; success
exactly when nothing of the input is left, a non-fatal failure otherwise. -/
theorem parseString_iff (g : G) (p : P) (sk : Sk) (s : List Nat) (t : Top) :
    (∃ f, M.parseString g f p sk s = some t) ↔ DerivesString g p sk s t := by
  constructor
  · rintro ⟨f, h⟩
    rw [parseString_refines] at h
    simp only [S.parseString] at h
    cases h0 : S.skip f sk s with
    | none => simp [h0] at h
    | some r0 =>
      have d0 := skip_sound h0
      cases r0 with
      | err ft => simp [h0] at h; subst h; exact .skipErr d0
      | ok r0 =>
        simp only [h0] at h
        cases h1 : S.parse g f p sk r0 with
        | none => simp [h1] at h
        | some r1 =>
          have d1 := parse_sound h1
          cases r1 with
          | err ft => simp [h1] at h; subst h; exact .err d0 d1
          | ok v rest =>
            simp only [h1] at h
            cases rest with
            | nil => simp at h; subst h; exact .ok d0 d1
            | cons c r => simp at h; subst h; exact .rest d0 d1
  · intro h
    cases h with
    | skipErr d0 =>
      obtain ⟨f, e⟩ := skip_complete d0
      exact ⟨f, by rw [parseString_refines]; simp [S.parseString, e]⟩
    | err d0 d1 =>
      obtain ⟨f0, e0⟩ := skip_complete d0
      obtain ⟨f1, e1⟩ := parse_complete d1
      have e0 := skip_mono (f' := f0 + f1) (by omega) e0
      have e1 := parse_mono (f' := f0 + f1) (by omega) e1
      exact ⟨f0 + f1, by rw [parseString_refines]; simp [S.parseString, e0, e1]⟩
    | ok d0 d1 =>
      obtain ⟨f0, e0⟩ := skip_complete d0
      obtain ⟨f1, e1⟩ := parse_complete d1
      have e0 := skip_mono (f' := f0 + f1) (by omega) e0
      have e1 := parse_mono (f' := f0 + f1) (by omega) e1
      exact ⟨f0 + f1, by rw [parseString_refines]; simp [S.parseString, e0, e1]⟩
    | rest d0 d1 =>
      obtain ⟨f0, e0⟩ := skip_complete d0
      obtain ⟨f1, e1⟩ := parse_complete d1
      have e0 := skip_mono (f' := f0 + f1) (by omega) e0
      have e1 := parse_mono (f' := f0 + f1) (by omega) e1
      exact ⟨f0 + f1, by rw [parseString_refines]; simp [S.parseString, e0, e1]⟩

/-- **The string entry points succeed iff the whole input was consumed** (after the initial skip),
and the value is the one of that derivation. -/
theorem parse_string_ok_iff_all_consumed (g : G) (p : P) (sk : Sk) (s : List Nat) (v : Val) :
    (∃ f, M.parseString g f p sk s = some (.ok v)) ↔
      ∃ r0, SkDerives sk s (.ok r0) ∧ Derives g p sk r0 (.ok v []) := by
  rw [parseString_iff]
  constructor
  · intro h; cases h with | ok d0 d1 => exact ⟨_, d0, d1⟩
  · rintro ⟨r0, d0, d1⟩; exact .ok d0 d1

/-! ## the individual clauses of the property -/

/-- alternatives are tried left to right: if the left branch succeeds, that is the result -/
theorem alt_left_biased {g : G} {a b : P} {sk : Sk} {inp : List Nat} {v : Val} {r : List Nat} {x : Res}
    (ha : Derives g a sk inp (.ok v r)) (h : Derives g (.alt a b) sk inp x) : x = .ok (.inl v) r :=
  derives_functional h (.altL ha)

/-- … and after a non-fatal failure of the left branch the right branch runs on the *same* input
(the input is rewound) and decides the result -/
theorem alt_right_on_rewound_input {g : G} {a b : P} {sk : Sk} {inp : List Nat} {x : Res}
    (ha : Derives g a sk inp (.err false)) (h : Derives g (.alt a b) sk inp x) :
    (∃ v r, Derives g b sk inp (.ok v r) ∧ x = .ok (.inr v) r) ∨
    (∃ ft, Derives g b sk inp (.err ft) ∧ x = .err ft) := by
  cases h with
  | altL h1 => cases derives_functional ha h1
  | altFatal h1 => cases derives_functional ha h1
  | altR _ h2 => exact .inl ⟨_, _, h2, rfl⟩
  | altErr _ h2 => exact .inr ⟨_, h2, rfl⟩
  | sugar hs _ => simp [IsSugar] at hs

/-- in the implementation model the right branch starts at the saved position -/
theorem alt_restores_position (g : G) (s : List Nat) (f : Nat) (a b : P) (sk : Sk) (pos q : Nat)
    (ha : M.run g s f a sk pos = some (.err false q)) :
    M.run g s (f + 1) (.alt a b) sk pos =
      (match M.run g s f b sk pos with
       | none => none
       | some (.ok v p) => some (.ok (.inr v) p)
       | some (.err ft p) => some (.err ft p)) := by
  simp only [M.run, ha]
  rcases M.run g s f b sk pos with _ | ⟨v, p⟩ | ⟨ft, p⟩ <;> rfl

/-- **fatal errors stop backtracking**: a fatal failure of the first operand makes alternative,
optional and repetition fail fatally, nothing else is tried -/
theorem fatal_stops_backtracking {g : G} {a b : P} {sk : Sk} {inp : List Nat}
    (ha : Derives g a sk inp (.err true)) :
    (∀ x, Derives g (.alt a b) sk inp x → x = .err true) ∧
    (∀ x, Derives g (.opt a) sk inp x → x = .err true) ∧
    (∀ x, Derives g (.rep a) sk inp x → x = .err true) :=
  ⟨fun _ h => derives_functional h (.altFatal ha), fun _ h => derives_functional h (.optFatal ha),
   fun _ h => derives_functional h (.repFatal ha)⟩

/-- `fatal p` fails fatally whenever `p` fails, and is `p` otherwise -/
theorem fatal_marks {g : G} {a : P} {sk : Sk} {inp : List Nat} {x : Res}
    (h : Derives g (.fatal a) sk inp x) :
    (∃ v r, Derives g a sk inp (.ok v r) ∧ x = .ok v r) ∨ (∃ ft, Derives g a sk inp (.err ft) ∧ x = .err true) := by
  cases h with
  | fatalOk h1 => exact .inl ⟨_, _, h1, rfl⟩
  | fatalErr h1 => exact .inr ⟨_, h1, rfl⟩
  | sugar hs _ => simp [IsSugar] at hs

/-- **repetitions and optionals never fail unless a fatal error occurs** -/
theorem rep_opt_never_fail_unless_fatal {g : G} {a : P} {sk : Sk} {inp : List Nat} {ft : Bool} :
    (Derives g (.rep a) sk inp (.err ft) → ft = true) ∧ (Derives g (.opt a) sk inp (.err ft) → ft = true) := by
  constructor
  · intro h
    generalize hp : P.rep a = p at h
    generalize hx : Res.err ft = x at h
    induction h with
    | repFatal _ _ => cases hx; rfl
    | repFatalS _ _ _ => cases hx; rfl
    | repMoreErr _ _ _ _ ih => cases hp; cases hx; exact ih rfl rfl
    | sugar hs _ _ => subst hp; simp [IsSugar] at hs
    | _ => first | (cases hp; done) | (cases hx; done) | (cases hp; cases hx; done)
  · intro h
    generalize hx : Res.err ft = x at h
    cases h with
    | optFatal _ => cases hx; rfl
    | sugar hs _ => simp [IsSugar] at hs
    | _ => cases hx

/-- a skipper (epsilon, literal, char_set, their repetitions and sequences) never fails fatally -/
theorem skipper_never_fatal {sk : Sk} {inp : List Nat} {x : SkRes} (h : SkDerives sk inp x) :
    ∀ ft, x = .err ft → ft = false := by
  induction h with
  | csetEof => intro ft hx; cases hx; rfl
  | csetNo => intro ft hx; cases hx; rfl
  | litEof => intro ft hx; cases hx; rfl
  | litNo => intro ft hx; cases hx; rfl
  | repFatal _ ih => intro ft hx; exact absurd (ih true rfl) (by simp)
  | repMore _ _ _ ih2 => intro ft hx; exact ih2 ft hx
  | seqErr _ ih => intro ft hx; cases hx; exact ih _ rfl
  | seqOk _ _ _ ih2 => intro ft hx; exact ih2 ft hx
  | _ => intro ft hx; cases hx

/-- … hence the sharp form of "never fail unless a fatal error occurs": a repetition fails only because one of its
*elements* failed fatally, on the input left after some number of kept elements (never because of the skipper, never
because an element failed ordinarily) -/
theorem rep_fails_only_on_fatal_element {g : G} {a : P} {sk : Sk} {inp : List Nat} {ft : Bool}
    (h : Derives g (.rep a) sk inp (.err ft)) : ft = true ∧ ∃ inp', Derives g a sk inp' (.err true) := by
  refine ⟨rep_opt_never_fail_unless_fatal.1 h, ?_⟩
  generalize hp : P.rep a = p at h
  generalize hx : Res.err ft = x at h
  induction h with
  | repFatal h1 _ => cases hp; exact ⟨_, h1⟩
  | repFatalS _ h2 _ => exact absurd (skipper_never_fatal h2 true rfl) (by simp)
  | repMoreErr _ _ _ _ ih => cases hp; cases hx; exact ih rfl rfl
  | sugar hs _ _ => subst hp; simp [IsSugar] at hs
  | _ => first | (cases hp; done) | (cases hx; done) | (cases hp; cases hx; done)

/-- **repetition is greedy**: it stops only where one more element-then-skipper fails (non-fatally) -/
theorem rep_greedy {g : G} {a : P} {sk : Sk} {inp rest : List Nat} {vs : Val}
    (h : Derives g (.rep a) sk inp (.ok vs rest)) :
    Derives g a sk rest (.err false) ∨ ∃ v r1, Derives g a sk rest (.ok v r1) ∧ SkDerives sk r1 (.err false) := by
  generalize hp : P.rep a = p at h
  generalize hx : Res.ok vs rest = x at h
  induction h generalizing vs with
  | repStop h1 => cases hp; cases hx; exact .inl h1
  | repStopS h1 h2 => cases hp; cases hx; exact .inr ⟨_, _, h1, h2⟩
  | repMore _ _ _ _ ih => cases hp; cases hx; exact ih rfl rfl
  | sugar hs _ _ => subst hp; simp [IsSugar] at hs
  | _ => first | (cases hp; done) | (cases hx; done) | (cases hp; cases hx; done)

/-- **optional is greedy**: it yields nothing only when its operand fails -/
theorem opt_greedy {g : G} {a : P} {sk : Sk} {inp rest : List Nat}
    (h : Derives g (.opt a) sk inp (.ok .none rest)) : rest = inp ∧ Derives g a sk inp (.err false) := by
  generalize hx : Res.ok .none rest = x at h
  cases h with
  | optNone h1 => cases hx; exact ⟨rfl, h1⟩
  | sugar hs _ => simp [IsSugar] at hs
  | _ => cases hx

/-- **sequences run the skipper between their parts** (and nowhere else) -/
theorem seq_skipper_between {g : G} {a b : P} {sk : Sk} {inp r3 : List Nat} {v : Val}
    (h : Derives g (.seq a b) sk inp (.ok v r3)) :
    ∃ va r1 r2 vb, Derives g a sk inp (.ok va r1) ∧ SkDerives sk r1 (.ok r2) ∧
      Derives g b sk r2 (.ok vb r3) ∧ v = .pair va vb := by
  generalize hx : Res.ok v r3 = x at h
  cases h with
  | seqOk h1 h2 h3 => cases hx; exact ⟨_, _, _, _, h1, h2, h3, rfl⟩
  | sugar hs _ => simp [IsSugar] at hs
  | _ => cases hx

/-- a repetition runs the skipper after each element it keeps -/
theorem rep_skipper_after_element {g : G} {a : P} {sk : Sk} {inp r3 : List Nat} {v vs : Val}
    (h : Derives g (.rep a) sk inp (.ok (.cons v vs) r3)) :
    ∃ r1 r2, Derives g a sk inp (.ok v r1) ∧ SkDerives sk r1 (.ok r2) ∧ Derives g (.rep a) sk r2 (.ok vs r3) := by
  generalize hx : Res.ok (.cons v vs) r3 = x at h
  cases h with
  | repMore h1 h2 h3 => cases hx; exact ⟨_, _, h1, h2, h3⟩
  | sugar hs _ => simp [IsSugar] at hs
  | _ => cases hx

/-- `lexeme` switches the skipper off -/
theorem lexeme_no_skipper {g : G} {a : P} {sk : Sk} {inp : List Nat} {x : Res} :
    Derives g (.lexeme a) sk inp x ↔ Derives g a .eps inp x := by
  constructor
  · intro h
    cases h with
    | lexeme h1 => exact h1
    | sugar hs _ => simp [IsSugar] at hs
  · exact .lexeme

/-- **negative lookahead consumes nothing** (documented semantics) -/
theorem not_consumes_nothing {g : G} {a : P} {sk : Sk} {inp rest : List Nat} {v : Val}
    (h : Derives g (.not a) sk inp (.ok v rest)) : rest = inp ∧ v = .unit := by
  generalize hx : Res.ok v rest = x at h
  cases h with
  | notOk _ => cases hx; exact ⟨rfl, rfl⟩
  | sugar hs _ => simp [IsSugar] at hs
  | _ => cases hx

/-- … and in the implementation model the position after `not_` is the position before it,
whether it succeeds or fails -/
theorem not_restores_position (g : G) (s : List Nat) (f : Nat) (a : P) (sk : Sk) (pos : Nat) (m : MRes)
    (h : M.run g s f (.not a) sk pos = some m) : m = .ok .unit pos ∨ m = .err false pos := by
  cases f with
  | zero => simp [M.run] at h
  | succ f =>
    simp only [M.run] at h
    grind

/-- optional / repetition that yield nothing leave the position where it was -/
theorem opt_rep_restore_position (g : G) (s : List Nat) (f : Nat) (a : P) (sk : Sk) (pos q : Nat) :
    (M.run g s f (.opt a) sk pos = some (.ok .none q) → q = pos) ∧
    (M.run g s f (.rep a) sk pos = some (.ok .nil q) → q = pos) := by
  cases f with
  | zero => simp [M.run]
  | succ f =>
    constructor
    · intro h
      simp only [M.run] at h
      grind
    · intro h
      simp only [M.run] at h
      grind

/-- `named` only replaces the error message: it fails exactly when the wrapped parser fails, with the same
fatal flag (repaired in af6c285; before, the flag was dropped and naming a parser re-enabled backtracking). -/
theorem named_keeps_fatal {g : G} {a : P} {sk : Sk} {inp : List Nat} {ft : Bool} :
    Derives g (.named a) sk inp (.err ft) ↔ Derives g a sk inp (.err ft) := by
  constructor
  · intro h
    generalize hx : Res.err ft = x at h
    cases h with
    | namedErr h0 => cases hx; exact h0
    | sugar hs _ => simp [IsSugar] at hs
    | _ => cases hx
  · exact .namedErr

/-- behaviour of the code recorded as such: `not_` turns *any* failure, also a fatal one, into success -/
theorem not_swallows_fatal {g : G} {a : P} {sk : Sk} {inp : List Nat}
    (h : Derives g a sk inp (.err true)) : Derives g (.not a) sk inp (.ok .unit inp) := .notOk h

/-- `+p` is `p` followed by `*p`: at least one element, then greedy -/
theorem plus_spec {g : G} {a : P} {sk : Sk} {inp : List Nat} {x : Res} :
    Derives g (.plus a) sk inp x ↔ ∃ y, Derives g (.seq a (.rep a)) sk inp y ∧ x = postRes (.plus a) y := by
  constructor
  · intro h
    generalize hp : P.plus a = p at h
    cases h with
    | sugar hs h1 => subst hp; exact ⟨_, h1, rfl⟩
    | _ => cases hp
  · rintro ⟨y, h1, rfl⟩
    exact .sugar (p := .plus a) trivial h1

/-- parsers only consume from the front, and a parser that is syntactically non-nullable (the
condition well-formed grammars impose on the operand of a repetition) consumes at least one
character whenever it succeeds — each iteration of a well-formed repetition makes progress -/
theorem nonnullable_consumes {g : G} {p : P} {sk : Sk} {inp rest : List Nat} {v : Val}
    (h : Derives g p sk inp (.ok v rest)) :
    rest.length ≤ inp.length ∧ (nullable p = false → rest.length < inp.length) :=
  progress h v rest rfl

/-- **Termination** for well-formed grammars without recursion (`WF0`: no `ref`, no repetition —
`*`, `+`, the loops of `separator`/`list` — of a nullable body) under a well-formed skipper: the
implementation model terminates with an outcome on every input, from every start position.
(The statement for *recursive* well-formed grammars is `wf_total` below.) -/
theorem wf_total_nonrec (g : G) (p : P) (hw : WF0 p) (sk : Sk) (hsk : SkWF sk) (s : List Nat) (pos : Nat) :
    ∃ f m, M.run g s f p sk pos = some m := by
  obtain ⟨x, hx⟩ := parse_total g (size p) p (Nat.le_refl _) hw sk hsk (s.drop pos)
  exact let ⟨f, m, hm, _⟩ := (run_iff_derives g s p sk pos x).mpr hx; ⟨f, m, hm⟩

/-- … and so do the string entry points -/
theorem wf_total_nonrec_string (g : G) (p : P) (hw : WF0 p) (sk : Sk) (hsk : SkWF sk) (s : List Nat) :
    ∃ f t, M.parseString g f p sk s = some t := by
  obtain ⟨x0, h0⟩ := skip_total hsk s
  cases x0 with
  | err ft => exact ⟨_, _, ((parseString_iff g p sk s _).mpr (.skipErr h0)).choose_spec⟩
  | ok r0 =>
    obtain ⟨x, hx⟩ := parse_total g (size p) p (Nat.le_refl _) hw sk hsk r0
    cases x with
    | err ft => exact ⟨_, _, ((parseString_iff g p sk s _).mpr (.err h0 hx)).choose_spec⟩
    | ok v rest =>
      cases rest with
      | nil => exact ⟨_, _, ((parseString_iff g p sk s _).mpr (.ok h0 hx)).choose_spec⟩
      | cons c r => exact ⟨_, _, ((parseString_iff g p sk s _).mpr (.rest h0 hx)).choose_spec⟩

/-- **Termination for recursive grammars** (Ford's well-formedness): if the rules can be ranked (`rk`, bounded by `K`)
so that a rule reachable from the start of another rule's body without consuming input has a strictly smaller rank
(no left recursion, direct or indirect, also through `-`/`*`/`!`/nullable prefixes) and no repetition has a nullable
body (`GWF`, `WFr`), then under a well-formed skipper the implementation model terminates with an outcome for every
parser that is well-formed at the top rank, on every input, from every start position. -/
theorem wf_total (g : G) (rk : Nat → Nat) (K : Nat) (hg : GWF g rk K) (p : P) (hw : WFr rk K p K)
    (sk : Sk) (hsk : SkWF sk) (s : List Nat) (pos : Nat) :
    ∃ f m, M.run g s f p sk pos = some m := by
  obtain ⟨x, hx⟩ := parse_total_wf g rk K hg p hw sk hsk (s.drop pos)
  exact let ⟨f, m, hm, _⟩ := (run_iff_derives g s p sk pos x).mpr hx; ⟨f, m, hm⟩

/-- … and so do the string entry points (`parse_string`, `phrase_parse_string`, `grammar_parse_string`). -/
theorem wf_total_string (g : G) (rk : Nat → Nat) (K : Nat) (hg : GWF g rk K) (p : P) (hw : WFr rk K p K)
    (sk : Sk) (hsk : SkWF sk) (s : List Nat) :
    ∃ f t, M.parseString g f p sk s = some t := by
  obtain ⟨x0, h0⟩ := skip_total hsk s
  cases x0 with
  | err ft => exact ⟨_, _, ((parseString_iff g p sk s _).mpr (.skipErr h0)).choose_spec⟩
  | ok r0 =>
    obtain ⟨x, hx⟩ := parse_total_wf g rk K hg p hw sk hsk r0
    cases x with
    | err ft => exact ⟨_, _, ((parseString_iff g p sk s _).mpr (.err h0 hx)).choose_spec⟩
    | ok v rest =>
      cases rest with
      | nil => exact ⟨_, _, ((parseString_iff g p sk s _).mpr (.ok h0 hx)).choose_spec⟩
      | cons c r => exact ⟨_, _, ((parseString_iff g p sk s _).mpr (.rest h0 hx)).choose_spec⟩

/-- `WF0` is the rank-free special case: a parser without `ref` is well-formed under every ranking. -/
theorem wf0_wfr (rk : Nat → Nat) (K : Nat) : ∀ (p : P) (k : Nat), WF0 p → WFr rk K p k := by
  intro p
  induction p with
  | ref j => intro k h; exact absurd h (by simp [WF0])
  | seq a b iha ihb => intro k h; exact ⟨iha _ h.1, ihb _ h.2⟩
  | alt a b iha ihb => intro k h; exact ⟨iha _ h.1, ihb _ h.2⟩
  | rep a iha => intro k h; exact ⟨iha _ h.1, h.2⟩
  | plus a iha => intro k h; exact ⟨iha _ h.1, h.2⟩
  | sep a s iha ihs => intro k h; exact ⟨iha _ h.1, ihs _ h.2.1, h.2.2⟩
  | list o a s c iho iha ihs ihc => intro k h; exact ⟨iho _ h.1, iha _ h.2.1, ihs _ h.2.2.1, ihc _ h.2.2.2.1, h.2.2.2.2⟩
  | opt a ih => intro k h; exact ih _ h
  | not a ih => intro k h; exact ih _ h
  | fatal a ih => intro k h; exact ih _ h
  | lexeme a ih => intro k h; exact ih _ h
  | conv _ a ih => intro k h; exact ih _ h
  | convIf _ a ih => intro k h; exact ih _ h
  | ignore a ih => intro k h; exact ih _ h
  | named a ih => intro k h; exact ih _ h
  | map _ a ih => intro k h; exact ih _ h
  | _ => intro k h; trivial

/-! ## `construct` / `as_struct` / `convert_const`, `float_`, the stream entry points -/

/-- `construct<Result>(p)`, `as_struct<Result>(p)`, `convert_const{p, c}` succeed exactly when `p` does, consume what
`p` consumes, replace the value (`Result{v}` / the constant) and leave every error — fatal flag included — unchanged -/
theorem map_spec {g : G} {m : Mapper} {a : P} {sk : Sk} {inp : List Nat} {x : Res} :
    Derives g (.map m a) sk inp x ↔
      (∃ v r, Derives g a sk inp (.ok v r) ∧ x = .ok (m.apply v) r) ∨ (∃ ft, Derives g a sk inp (.err ft) ∧ x = .err ft) := by
  constructor
  · intro h
    cases h with
    | mapOk h1 => exact .inl ⟨_, _, h1, rfl⟩
    | mapErr h1 => exact .inr ⟨_, h1, rfl⟩
    | sugar hs _ => simp [IsSugar] at hs
  · rintro (⟨v, r, h1, rfl⟩ | ⟨ft, h1, rfl⟩)
    · exact .mapOk h1
    · exact .mapErr h1

/-- `convert_const` yields its constant whatever the wrapped parser produced -/
theorem convert_const_value {g : G} {c : Val} {a : P} {sk : Sk} {inp rest : List Nat} {v : Val}
    (h : Derives g (.map (.const c) a) sk inp (.ok v rest)) : v = c := by
  rcases map_spec.mp h with ⟨w, r, _, hx⟩ | ⟨ft, _, hx⟩
  · cases hx; rfl
  · cases hx

/-- `float_` is `lexeme(-lit('-') >> +digits >> lit('.') >> +digits)` followed by the conversion of the two digit strings -/
theorem float_spec {g : G} {sk : Sk} {inp : List Nat} {x : Res} :
    Derives g .float sk inp x ↔ ∃ y, Derives g (desugar .float) sk inp y ∧ x = postRes .float y := by
  constructor
  · intro h
    generalize hp : P.float = p at h
    cases h with
    | sugar hs h1 => subst hp; exact ⟨_, h1, rfl⟩
    | _ => cases hp
  · rintro ⟨y, h1, rfl⟩
    exact .sugar (p := .float) trivial h1

/-- `parse_stream` / `phrase_parse_stream` / `grammar_parse_stream`: success with value `v` leaving the stream at offset
`q` iff, after the initial skip, the parser derives `v` with exactly `s.drop q` left — the rest of the input can be read
from the stream afterwards; nothing requires it to be empty -/
theorem parseStream_ok_iff (g : G) (p : P) (sk : Sk) (s : List Nat) (v : Val) (rest : List Nat) :
    (∃ f q, M.parseStream g f p sk s = some (.ok v, q) ∧ s.drop q = rest) ↔
      ∃ r0, SkDerives sk s (.ok r0) ∧ Derives g p sk r0 (.ok v rest) := by
  constructor
  · rintro ⟨f, q, h, rfl⟩
    simp only [M.parseStream] at h
    cases h0 : M.skip s f sk 0 with
    | none => simp [h0] at h
    | some m0 =>
      cases m0 with
      | err ft q0 => simp [h0] at h
      | ok p0 =>
        simp only [h0] at h
        have d0 : SkDerives sk s (.ok (s.drop p0)) := by
          apply skip_sound (f := f)
          have := skip_refines s f sk 0
          rw [h0] at this; simpa [absSk] using this.symm
        cases h1 : M.run g s f p sk p0 with
        | none => simp [h1] at h
        | some m1 =>
          cases m1 with
          | err ft q1 => simp [h1] at h
          | ok v1 p1 =>
            simp [h1] at h
            obtain ⟨rfl, rfl⟩ := h
            refine ⟨_, d0, ?_⟩
            apply parse_sound (f := f)
            rw [← run_refines, h1]; rfl
  · rintro ⟨r0, d0, d1⟩
    obtain ⟨f0, e0⟩ := skip_complete d0
    obtain ⟨f1, e1⟩ := parse_complete d1
    have e0 := skip_mono (f' := f0 + f1) (by omega) e0
    have e1 := parse_mono (f' := f0 + f1) (by omega) e1
    have r0' := skip_refines s (f0 + f1) sk 0
    simp only [List.drop_zero, e0] at r0'
    cases h0 : M.skip s (f0 + f1) sk 0 with
    | none => simp [h0] at r0'
    | some m0 =>
      cases m0 with
      | err ft q0 => simp [h0, absSk] at r0'
      | ok p0 =>
        simp [h0, absSk] at r0'
        subst r0'
        have r1 := run_refines g s (f0 + f1) p sk p0
        rw [e1] at r1
        cases h1 : M.run g s (f0 + f1) p sk p0 with
        | none => simp [h1] at r1
        | some m1 =>
          cases m1 with
          | err ft q1 => simp [h1, absRes] at r1
          | ok v1 p1 =>
            simp [h1, absRes] at r1
            exact ⟨f0 + f1, p1, by simp [M.parseStream, h0, h1, r1.1], r1.2⟩

/-- the string entry points are the stream entry points followed by `consume_remaining` -/
theorem parseString_of_parseStream (g : G) (f : Nat) (p : P) (sk : Sk) (s : List Nat) :
    M.parseString g f p sk s =
      (M.parseStream g f p sk s).map fun
        | (.ok v, q) => if (s.drop q).isEmpty then .ok v else .err false
        | (.err ft, _) => .err ft := by
  simp only [M.parseString, M.parseStream]
  rcases M.skip s f sk 0 with _ | ⟨p0⟩ | ⟨ft, q⟩ <;> simp
  rcases M.run g s f p sk p0 with _ | ⟨v, p1⟩ | ⟨ft, q⟩ <;> simp
  split <;> rfl

/-! ## the typed result plumbing (`sequence_result`, `alternative_result`, `repetition_result`) -/

/-- `detail::sequence_result(l, r)` has type `sequence_result<Left, Right>` -/
theorem sequence_result_typed {defs : Nat → Ty} {l r : Ty} {a b : TVal} (ha : HasTy defs a l) (hb : HasTy defs b r) :
    ∃ v, seqVal l r a b = some v ∧ HasTy defs v (seqTy l r) := seqVal_hasTy ha hb

/-- `fcppt::unit` is dropped on either side of a sequence -/
theorem seqTy_unit (t : Ty) : seqTy .unit t = t ∧ seqTy t .unit = t := by
  constructor
  · simp [seqTy]
  · unfold seqTy; split
    · rename_i h; exact h.symm
    · simp

theorem TyL.append_assoc : ∀ (a b c : TyL), (a.append b).append c = a.append (b.append c)
  | .nil, b, c => by simp [TyL.append]
  | .cons t ts, b, c => by simp [TyL.append, TyL.append_assoc ts b c]

/-- tuple flattening makes the result type of a sequence independent of how its parts are grouped -/
theorem seqTy_assoc (a b c : Ty) : seqTy (seqTy a b) c = seqTy a (seqTy b c) := by
  by_cases ha : a = .unit
  · subst ha; simp [seqTy]
  · by_cases hb : b = .unit
    · subst hb; simp [seqTy, ha]
    · by_cases hc : c = .unit
      · subst hc; simp [seqTy, ha, hb]
      · simp [seqTy, ha, hb, hc, toTup, TyL.append_assoc]

/-- `detail::make_alternative<Result>` applied to the value of either branch has type `alternative_result<Left, Right>` -/
theorem alternative_result_typed {E : TEnv} {a b : P} {ta tb τ : Ty} {v : TVal}
    (hta : typeOf E a = some ta) (htb : typeOf E b = some tb) (ht : typeOf E (.alt a b) = some τ) :
    (HasTy E.defs v ta → ∃ w, altInj (altList ta tb) ta v = some w ∧ HasTy E.defs w τ) ∧
    (HasTy E.defs v tb → ∃ w, altInj (altList ta tb) tb v = some w ∧ HasTy E.defs w τ) := by
  simp only [typeOf, hta, htb] at ht
  exact ⟨fun h => altInj_hasTy (.inl rfl) ht h, fun h => altInj_hasTy (.inr rfl) ht h⟩

/-- duplicate alternatives are merged: the alternatives of the result are exactly those of both sides -/
theorem altList_mem (l r x : Ty) : (altList l r).contains x = ((toVar l).contains x || (toVar r).contains x) := by
  simp [altList, uniq_contains, TyL.contains_append]

/-- an alternative of two parsers with the same (non-variant) result has that result, not a variant -/
theorem altTy_same (t : Ty) (h : ∀ ts, t ≠ .var ts) : altTy t t = t := by
  have : toVar t = .cons t .nil := by cases t <;> simp [toVar] <;> exact absurd rfl (h _)
  simp [altTy, altList, this, TyL.append, uniq, uniqInto, TyL.contains, TyL.snoc, single]

/-- a repetition of characters is a string, of anything else a vector; `push_back` stays inside that type -/
theorem repetition_result_typed {defs : Nat → Ty} {t : Ty} {x xs : TVal} (hx : HasTy defs x t) (hxs : HasTy defs xs (repTy t)) :
    repTy .ch = .str ∧ (t ≠ .ch → repTy t = .vec t) ∧ HasTy defs (repNil t) (repTy t) ∧
      ∃ v, repCons x xs = some v ∧ HasTy defs v (repTy t) :=
  ⟨by simp [repTy], fun h => by simp [repTy, h], repNil_hasTy t, repCons_hasTy hx hxs⟩

/-- more fuel never changes the typed value -/
theorem flat_fuel_mono (E : TEnv) (g : G) {n n' : Nat} {p : P} {v : Val} {tv : TVal}
    (h : flat E g n p v = some tv) (hle : n ≤ n') : flat E g n' p v = some tv := flat_mono E g h hle

/-- **The untyped value produced by the semantics inhabits the flattened type.**  In a grammar whose rules have their
declared result types (`WT`), for every parser with a result type (`typeOf E p = some τ`, i.e. the C++ instantiates):
whenever `p` succeeds with the universal value `v`, re-applying the plumbing of `sequence_result` / `alternative_result` /
`repetition_result` / `repetition_plus` / `construct` / `as_struct` / `convert_const` bottom-up (`flat`) is defined on
`v` and its result is an inhabitant of `τ`. -/
theorem typed_value_inhabits (E : TEnv) (g : G) (hwt : WT E g) {p : P} {τ : Ty} (hp : typeOf E p = some τ)
    {sk : Sk} {inp rest : List Nat} {v : Val} (h : Derives g p sk inp (.ok v rest)) :
    ∃ n tv, flat E g n p v = some tv ∧ HasTy E.defs tv τ :=
  good_flat E g hwt (derives_good h v rest rfl) τ hp

/-- … in particular for the values of the position-threading implementation model -/
theorem typed_run_inhabits (E : TEnv) (g : G) (hwt : WT E g) {p : P} {τ : Ty} (hp : typeOf E p = some τ)
    {s : List Nat} {f : Nat} {sk : Sk} {pos q : Nat} {v : Val} (h : M.run g s f p sk pos = some (.ok v q)) :
    ∃ n tv, flat E g n p v = some tv ∧ HasTy E.defs tv τ := by
  have hd : Derives g p sk (s.drop pos) (.ok v (s.drop q)) := by
    apply parse_sound (f := f)
    rw [← run_refines, h]; rfl
  exact typed_value_inhabits E g hwt hp hd

/-! ## non-vacuity: concrete grammars run through the model -/

def exG : G := { rules := fun i => if i = 0 then .alt (.seq (.lit 97) (.ref 0)) .eps else .fail,
                 fn := fun _ v => v, fnIf := fun _ v => .ok v }

-- a recursive rule  r0 = 'a' r0 | ε  on "aa", with a blank-skipper and blanks in the input
example : M.parseString exG 20 (.ref 0) (.rep (.cset [32])) [32, 97, 32, 97] =
    some (.ok (.inl (.pair .unit (.inl (.pair .unit (.inr .unit)))))) := by decide
-- trailing input is a (non-fatal) failure
example : M.parseString exG 20 (.lit 97) .eps [97, 98] = some (.err false) := by decide
-- fatal stops the alternative; without `fatal` the right branch is taken
example : M.parseString exG 20 (.alt (.seq (.lit 97) (.fatal (.lit 98))) .any) .eps [97] = some (.err true) := by decide
example : M.parseString exG 20 (.alt (.seq (.lit 97) (.lit 98)) .any) .eps [97] = some (.ok (.inr (.ch 97))) := by decide
-- a well-formed non-recursive parser and skipper (hypotheses of `wf_total_nonrec`)
example : WF0 (.list (.lit 97) (.plus (.cset [98, 99])) (.lit 120) (.lit 97)) ∧ SkWF (.rep (.cset [32])) := by
  simp [WF0, SkWF, nullable, skNullable]
-- the recursive grammar `exG` (r0 = 'a' r0 | ε) is well-formed with every rule at rank 0 (hypotheses of `wf_total`) …
example : GWF exG (fun _ => 0) 1 ∧ WFr (fun _ => 0) 1 (.ref 0) 1 := by
  refine ⟨fun j => ⟨by simp, ?_⟩, by simp [WFr]⟩
  by_cases h : j = 0 <;> simp [exG, h, WFr, nullable]
-- … and mutual recursion behind a consumed character: r0 = '(' r1 ')' | 'x',  r1 = r0 (',' r0)*  (ranks 1 and 2)
def exG2 : G := { rules := fun i => if i = 0 then .alt (.seq (.lit 40) (.seq (.ref 1) (.lit 41))) (.lit 120)
                                     else if i = 1 then .seq (.ref 0) (.rep (.seq (.lit 44) (.ref 0))) else .fail,
                  fn := fun _ v => v, fnIf := fun _ v => .ok v }
example : GWF exG2 (fun i => if i = 1 then 2 else 1) 3 := by
  intro j
  by_cases h0 : j = 0
  · subst h0; simp [exG2, WFr, nullable]
  · by_cases h1 : j = 1
    · subst h1; simp [exG2, WFr, nullable]
    · simp [exG2, h0, h1, WFr]
-- the hypothesis is needed: the left-recursive rule r0 = r0 'a' | ε admits no ranking and the model runs out of every fuel tried
def exLeft : G := { rules := fun _ => .alt (.seq (.ref 0) (.lit 97)) .eps, fn := fun _ v => v, fnIf := fun _ v => .ok v }
example (rk : Nat → Nat) (K : Nat) : ¬ GWF exLeft rk K := by
  intro h; have := (h 0).2; simp [exLeft, WFr] at this
example : M.run exLeft [97] 200 (.ref 0) .eps 0 = none := by decide
-- the hypotheses of the clause theorems are satisfiable
example : Derives exG (.lit 97) .eps [97] (.ok .unit []) := .litOk _ _ _
example : Derives exG (.fatal (.lit 97)) .eps [98] (.err true) := .fatalErr (.litNo _ _ _ _ (by decide))
example : Derives exG (.rep (.lit 97)) .eps [97, 98] (.ok (.cons .unit .nil) [98]) :=
  .repMore (.litOk _ _ _) (.eps _) (.repStop (.litNo _ _ _ _ (by decide)))

-- typed layer: `'a' >> [bc] >> *[c]` has the result `tuple<char, string>`: the unit of the literal is dropped, the repetition of
-- characters is a string; the value of "abcc"
def exE : TEnv := { ruleTy := fun _ => .unit, defs := fun k => if k = 7 then .tup (.cons .ch (.cons .str .nil)) else .unit }
example : typeOf exE (.seq (.lit 97) (.seq (.cset [98, 99]) (.rep (.cset [99])))) = some (.tup (.cons .ch (.cons .str .nil))) := by decide
example : flat exE exG 10 (.seq (.lit 97) (.seq (.cset [98, 99]) (.rep (.cset [99]))))
    (.pair .unit (.pair (.ch 98) (.cons (.ch 99) (.cons (.ch 99) .nil)))) = some (.tup (.cons (.ch 98) (.cons (.str [99, 99]) .nil))) := by decide
-- `([a] | 'x') | ([a] >> [a])`: variant<char, unit> merged with a tuple gives variant<char, unit, tuple<char,char>>; the right
-- branch's value gets index 2
example : typeOf exE (.alt (.alt (.cset [97]) (.lit 120)) (.seq (.cset [97]) (.cset [97]))) =
    some (.var (.cons .ch (.cons .unit (.cons (.tup (.cons .ch (.cons .ch .nil))) .nil)))) := by decide
example : flat exE exG 10 (.alt (.alt (.cset [97]) (.lit 120)) (.seq (.cset [97]) (.cset [97]))) (.inr (.pair (.ch 97) (.ch 97))) =
    some (.inj 2 (.tup (.cons (.ch 97) (.cons (.ch 97) .nil)))) := by decide
-- `[a] | [b]` is a plain char; `+('a' >> [b])` is a string (unit dropped inside), `+(([a] >> [b]))` does not instantiate
example : typeOf exE (.alt (.cset [97]) (.cset [98])) = some .ch := by decide
example : typeOf exE (.plus (.seq (.lit 97) (.cset [98]))) = some .str := by decide
example : typeOf exE (.plus (.seq (.cset [97]) (.cset [98]))) = none := by decide
-- as_struct over the tuple<char,string>
example : typeOf exE (.map (.asStruct 7) (.seq (.cset [98]) (.rep (.cset [99])))) = some (.named 7) := by decide
example : WT exE { exG with rules := fun _ => .eps } := fun _ => rfl

end Fcppt.C02
