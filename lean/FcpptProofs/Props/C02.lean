/-! Property theorems for C02 — placeholder until the property's model is built. -/
