/-! Property theorems for C03 — placeholder until the property's model is built. -/
