import FcpptProofs.C03.Parse
/-!
# C03 — property theorems (see notes/C03.md for the clause-by-clause coverage)

`parse f p st c` is the model of `Parser::parse(state, context)`; `f` is fuel (`PErr.diverge` = does not
terminate), an argument is *(original index, text)* and the third component of a success is the consumption
log *(index ↦ label of the leaf that took it)*.  All statements hold for every parser `p : OP`, every state /
argument vector, every context and every fuel.
-/
namespace Fcppt.C03

/-! ## accounting: nothing dropped, nothing used twice, order preserved -/

/-- every successful `Parser::parse` leaves a sublist of its input state (relative order preserved) -/
theorem parse_state_sublist {f : Nat} {p : OP} {st : List Arg} {c : Ctx} {st' : List Arg} {r : Rec} {lg : Log}
    (h : parse f p st c = .ok (st', r, lg)) : st'.Sublist st := (parse_acc f p st c h).sub

/-- remaining arguments and logged (consumed) arguments partition the input state: state' = state minus log -/
theorem parse_log_partition {f : Nat} {p : OP} {st : List Arg} {c : Ctx} {st' : List Arg} {r : Rec} {lg : Log}
    (h : parse f p st c = .ok (st', r, lg)) : (st'.map Prod.fst ++ lg.map Prod.fst).Perm (st.map Prod.fst) :=
  (parse_acc f p st c h).perm

private theorem idx_index (args : List String) : (index args).map Prod.fst = List.range args.length := by
  unfold index
  rw [List.map_fst_zip]
  simp

/-- **`fcppt::options::parse` succeeded ⇒ the consumption log is a permutation of all argument indices.** -/
theorem parse_accounts_all {f : Nat} {p : OP} {args : List String} {r : Rec} {lg : Log}
    (h : parseTop f p args = .ok (r, lg)) : (lg.map Prod.fst).Perm (List.range args.length) := by
  unfold parseTop parseToEmpty at h
  split at h
  · cases h
  · cases h
  · rename_i st' r' lg' hp
    split at h
    · rename_i he
      injection h with h; injection h with h1 h2; subst h1 h2
      have := (parse_acc _ _ _ _ hp).perm
      have hnil : st' = [] := by cases st' <;> simp_all
      subst hnil
      simpa [idx, lidx, idx_index] using this
    · cases h

/-- … i.e. every argument position is consumed by exactly one leaf parser, and nothing else is logged -/
theorem parse_each_index_exactly_once {f : Nat} {p : OP} {args : List String} {r : Rec} {lg : Log}
    (h : parseTop f p args = .ok (r, lg)) :
    (∀ i, i < args.length → (lg.map Prod.fst).count i = 1) ∧ (∀ i ∈ lg.map Prod.fst, i < args.length) ∧
      lg.length = args.length := by
  have hp := parse_accounts_all h
  refine ⟨fun i hi => ?_, fun i hi => ?_, ?_⟩
  · rw [List.perm_iff_count.mp hp i]
    have h1 : List.count i (List.range args.length) ≤ 1 := List.nodup_iff_count.mp List.nodup_range i
    have h2 : 0 < List.count i (List.range args.length) := List.count_pos_iff.mpr (List.mem_range.mpr hi)
    omega
  · exact List.mem_range.mp (hp.mem_iff.mp hi)
  · simpa using hp.length_eq

/-- the same for `parse_help` when it returns a parse result -/
theorem parseHelp_accounts_all {f : Nat} {hsh : Option String} {hlg : String} {p : OP} {args : List String} {r : Rec}
    {lg : Log} (h : parseHelp f hsh hlg p args = .ok (.result r lg)) : (lg.map Prod.fst).Perm (List.range args.length) := by
  unfold parseHelp at h
  split at h
  · cases h
  · cases h
  · rename_i hh
    injection h with h; injection h with h1 h2; subst h1 h2
    exact parse_accounts_all (p := helpSum hsh hlg p) hh
  · cases h

/-! ## combinators: decision logic stated outright -/

/-- product: left parser first, the right parser continues on the state the left one left; no roll-back -/
theorem product_left_to_right (f : Nat) (a b : OP) (st : List Arg) (c : Ctx) :
    parse (f + 1) (.prod a b) st c =
      match parse f a st c with
      | .error e => .error e
      | .ok (st1, r1, lg1) =>
        match parse f b st1 c with
        | .error e => .error e
        | .ok (st2, r2, lg2) => .ok (st2, r1 ++ r2, lg1 ++ lg2) := by
  cases h1 : parse f a st c with
  | error e => simp only [parse, h1]
  | ok t =>
    obtain ⟨st1, r1, lg1⟩ := t
    cases h2 : parse f b st1 c with
    | error e => simp only [parse, h1, h2]
    | ok t2 => obtain ⟨st2, r2, lg2⟩ := t2; simp only [parse, h1, h2]

/-- sum: if the left parser succeeds, its result is the result (the right parser is not consulted) -/
theorem sum_first_success {f : Nat} {l : String} {a b : OP} {st : List Arg} {c : Ctx} {st1 : List Arg} {r1 : Rec} {lg1 : Log}
    (h : parse f a st c = .ok (st1, r1, lg1)) :
    parse (f + 1) (.sum l a b) st c = .ok (st1, [(l, .left (.recd r1))], lg1) := by
  simp only [parse, h]

/-- sum: if the left parser fails, the right parser runs on the **original** state (roll-back of whatever the
left parser had consumed); only the right parser's consumption is logged -/
theorem sum_rollback {f : Nat} {l : String} {a b : OP} {st : List Arg} {c : Ctx} {e : PErr} {st2 : List Arg} {r2 : Rec} {lg2 : Log}
    (ha : parse f a st c = .error e) (he : e ≠ .diverge) (hb : parse f b st c = .ok (st2, r2, lg2)) :
    parse (f + 1) (.sum l a b) st c = .ok (st2, [(l, .right (.recd r2))], lg2) := by
  cases e with
  | diverge => exact absurd rfl he
  | other => simp only [parse, ha, hb]
  | missing m => simp only [parse, ha, hb]

/-- sum: both fail ⇒ `missing` only if both are `missing` -/
theorem sum_both_fail {f : Nat} {l : String} {a b : OP} {st : List Arg} {c : Ctx} {e1 e2 : PErr}
    (ha : parse f a st c = .error e1) (h1 : e1 ≠ .diverge) (hb : parse f b st c = .error e2) :
    parse (f + 1) (.sum l a b) st c = .error (combineErrors e1 e2) := by
  cases e1 with
  | diverge => exact absurd rfl h1
  | other => simp only [parse, ha, hb]
  | missing m => simp only [parse, ha, hb]

/-- optional is transactional (after fix 6e48692): an inner `missing` — even one noticed after arguments were
consumed — gives back the state exactly as it was and logs nothing; `other` errors are not swallowed -/
theorem optional_missing_vs_other (f : Nat) (q : OP) (st : List Arg) (c : Ctx) :
    (∀ m, parse f q st c = .error (.missing m) →
      parse (f + 1) (.optional q) st c = .ok (st, q.labels.map fun l => (l, .none), [])) ∧
    (parse f q st c = .error .other → parse (f + 1) (.optional q) st c = .error .other) ∧
    (∀ st' r lg, parse f q st c = .ok (st', r, lg) →
      parse (f + 1) (.optional q) st c = .ok (st', r.map fun (l, v) => (l, .some v), lg)) := by
  refine ⟨fun m h => ?_, fun h => ?_, fun st' r lg h => ?_⟩ <;> simp only [parse, h]

/-- the defect repaired by 6e48692, as a regression example: `optional(switch f * argument a)` on `["--f"]`
keeps `--f` in the state (so that `parse` reports the leftover) instead of dropping it -/
example : parse 10 (.optional (.prod (OP.switch "a" none "f") (.arg "b" .int))) [(0, "--f")] [] =
    .ok ([(0, "--f")], [("a", .none), ("b", .none)], []) := by rfl

end Fcppt.C03
