import FcpptProofs.C03.Parse
import FcpptProofs.C03.NextArg
import FcpptProofs.C03.Construct
import FcpptProofs.C03.Term
import FcpptProofs.C03.Help
import FcpptProofs.C03.Fuel
import FcpptProofs.C03.Labels
import FcpptProofs.C03.Names
import FcpptProofs.C03.Leaves
import FcpptProofs.C03.Index
import FcpptProofs.C03.Shape
/-!
# C03 — property theorems (see notes/C03.md for the clause-by-clause coverage)

`parse f p st c` is the model of `Parser::parse(state, context)`; `f` is fuel (`PErr.diverge` = does not
terminate), an argument is *(original index, text)* and the third component of a success is the consumption
log *(index ↦ label of the leaf that took it)*.  All statements hold for every parser `p : OP`, every state /
argument vector, every context and every fuel.
-/
namespace Fcppt.C03

/-! ## accounting: nothing dropped, nothing used twice, order preserved -/

/-- every successful `Parser::parse` leaves a sublist of its input state (relative order preserved) -/
theorem parse_state_sublist {f : Nat} {p : OP} {st : List Arg} {c : Ctx} {st' : List Arg} {r : Rec} {lg : Log}
    (h : parse f p st c = .ok (st', r, lg)) : st'.Sublist st := (parse_acc f p st c h).sub

/-- remaining arguments and logged (consumed) arguments partition the input state: state' = state minus log -/
theorem parse_log_partition {f : Nat} {p : OP} {st : List Arg} {c : Ctx} {st' : List Arg} {r : Rec} {lg : Log}
    (h : parse f p st c = .ok (st', r, lg)) : (st'.map Prod.fst ++ lg.map Prod.fst).Perm (st.map Prod.fst) :=
  (parse_acc f p st c h).perm

private theorem idx_index (args : List String) : (index args).map Prod.fst = List.range args.length := by
  unfold index
  rw [List.map_fst_zip]
  simp

/-- **`fcppt::options::parse` succeeded ⇒ the consumption log is a permutation of all argument indices.** -/
theorem parse_accounts_all {f : Nat} {p : OP} {args : List String} {r : Rec} {lg : Log}
    (h : parseTop f p args = .ok (r, lg)) : (lg.map Prod.fst).Perm (List.range args.length) := by
  unfold parseTop parseToEmpty at h
  split at h
  · cases h
  · cases h
  · rename_i st' r' lg' hp
    split at h
    · rename_i he
      injection h with h; injection h with h1 h2; subst h1 h2
      have := (parse_acc _ _ _ _ hp).perm
      have hnil : st' = [] := by cases st' <;> simp_all
      subst hnil
      simpa [idx, lidx, idx_index] using this
    · cases h

/-- … i.e. every argument position is consumed by exactly one leaf parser, and nothing else is logged -/
theorem parse_each_index_exactly_once {f : Nat} {p : OP} {args : List String} {r : Rec} {lg : Log}
    (h : parseTop f p args = .ok (r, lg)) :
    (∀ i, i < args.length → (lg.map Prod.fst).count i = 1) ∧ (∀ i ∈ lg.map Prod.fst, i < args.length) ∧
      lg.length = args.length := by
  have hp := parse_accounts_all h
  refine ⟨fun i hi => ?_, fun i hi => ?_, ?_⟩
  · rw [List.perm_iff_count.mp hp i]
    have h1 : List.count i (List.range args.length) ≤ 1 := List.nodup_iff_count.mp List.nodup_range i
    have h2 : 0 < List.count i (List.range args.length) := List.count_pos_iff.mpr (List.mem_range.mpr hi)
    omega
  · exact List.mem_range.mp (hp.mem_iff.mp hi)
  · simpa using hp.length_eq

/-- the same for `parse_help` when it returns a parse result -/
theorem parseHelp_accounts_all {f : Nat} {hsh : Option String} {hlg : String} {p : OP} {args : List String} {r : Rec}
    {lg : Log} (h : parseHelp f hsh hlg p args = .ok (.result r lg)) : (lg.map Prod.fst).Perm (List.range args.length) := by
  unfold parseHelp at h
  split at h
  · cases h
  · cases h
  · rename_i hh
    injection h with h; injection h with h1 h2; subst h1 h2
    exact parse_accounts_all (p := helpSum hsh hlg p) hh
  · cases h

/-! ## combinators: decision logic stated outright -/

/-- product: left parser first, the right parser continues on the state the left one left; no roll-back -/
theorem product_left_to_right (f : Nat) (a b : OP) (st : List Arg) (c : Ctx) :
    parse (f + 1) (.prod a b) st c =
      match parse f a st c with
      | .error e => .error e
      | .ok (st1, r1, lg1) =>
        match parse f b st1 c with
        | .error e => .error e
        | .ok (st2, r2, lg2) => .ok (st2, r1 ++ r2, lg1 ++ lg2) := by
  cases h1 : parse f a st c with
  | error e => simp only [parse, h1]
  | ok t =>
    obtain ⟨st1, r1, lg1⟩ := t
    cases h2 : parse f b st1 c with
    | error e => simp only [parse, h1, h2]
    | ok t2 => obtain ⟨st2, r2, lg2⟩ := t2; simp only [parse, h1, h2]

/-- sum: if the left parser succeeds, its result is the result (the right parser is not consulted) -/
theorem sum_first_success {f : Nat} {l : String} {a b : OP} {st : List Arg} {c : Ctx} {st1 : List Arg} {r1 : Rec} {lg1 : Log}
    (h : parse f a st c = .ok (st1, r1, lg1)) :
    parse (f + 1) (.sum l a b) st c = .ok (st1, [(l, .left (.recd r1))], lg1) := by
  simp only [parse, h]

/-- sum: if the left parser fails, the right parser runs on the **original** state (roll-back of whatever the
left parser had consumed); only the right parser's consumption is logged -/
theorem sum_rollback {f : Nat} {l : String} {a b : OP} {st : List Arg} {c : Ctx} {e : PErr} {st2 : List Arg} {r2 : Rec} {lg2 : Log}
    (ha : parse f a st c = .error e) (he : e ≠ .diverge) (hb : parse f b st c = .ok (st2, r2, lg2)) :
    parse (f + 1) (.sum l a b) st c = .ok (st2, [(l, .right (.recd r2))], lg2) := by
  cases e with
  | diverge => exact absurd rfl he
  | other m => simp only [parse, ha, hb]
  | missing m t => simp only [parse, ha, hb]

/-- sum: both fail ⇒ `missing` only if both are `missing` -/
theorem sum_both_fail {f : Nat} {l : String} {a b : OP} {st : List Arg} {c : Ctx} {e1 e2 : PErr}
    (ha : parse f a st c = .error e1) (h1 : e1 ≠ .diverge) (hb : parse f b st c = .error e2) :
    parse (f + 1) (.sum l a b) st c = .error (combineErrors e1 e2) := by
  cases e1 with
  | diverge => exact absurd rfl h1
  | other m => simp only [parse, ha, hb]
  | missing m t => simp only [parse, ha, hb]

/-- optional is transactional (after fix 6e48692): an inner `missing` — even one noticed after arguments were
consumed — gives back the state exactly as it was and logs nothing; `other` errors are not swallowed -/
theorem optional_missing_vs_other (f : Nat) (q : OP) (st : List Arg) (c : Ctx) :
    (∀ m t, parse f q st c = .error (.missing m t) →
      parse (f + 1) (.optional q) st c = .ok (st, q.labels.map fun l => (l, .none), [])) ∧
    (∀ t, parse f q st c = .error (.other t) → parse (f + 1) (.optional q) st c = .error (.other t)) ∧
    (∀ st' r lg, parse f q st c = .ok (st', r, lg) →
      parse (f + 1) (.optional q) st c = .ok (st', r.map fun (l, v) => (l, .some v), lg)) := by
  refine ⟨fun m t h => ?_, fun t h => ?_, fun st' r lg h => ?_⟩ <;> simp only [parse, h]

/-- the defect repaired by 6e48692, as a regression example: `optional(switch f * argument a)` on `["--f"]`
keeps `--f` in the state (so that `parse` reports the leftover) instead of dropping it -/
example : parse 10 (.optional (.prod (OP.switch "a" none "f") (.arg "b" .int "b_arg" none))) [(0, "--f")] [] =
    .ok ([(0, "--f")], [("a", .none), ("b", .none)], []) := by rfl

/-- `many` is transactional (after fix 6e48692): the state it returns is exactly the state on which the inner
parser reports `missing` — not one from which the failed last attempt has already taken arguments -/
theorem many_stops_at_missing : ∀ (f : Nat) (q : OP) (st : List Arg) (c : Ctx) {st' : List Arg} {r : Rec} {lg : Log},
    parse f (.many q) st c = .ok (st', r, lg) → ∃ g m t, parse g q st' c = .error (.missing m t) := by
  intro f
  induction f with
  | zero => intro q st c st' r lg h; simp [parse] at h
  | succ f ih =>
    intro q st c st' r lg h
    simp only [parse] at h
    cases hq : parse f q st c with
    | error e =>
      cases e with
      | missing m t => simp [hq] at h; obtain ⟨rfl, _, _⟩ := h; exact ⟨f, m, t, hq⟩
      | other t => simp [hq] at h
      | diverge => simp [hq] at h
    | ok t =>
      obtain ⟨st1, r1, lg1⟩ := t
      simp only [hq] at h
      cases hm : parse f (.many q) st1 c with
      | error e => simp [hm] at h
      | ok t2 =>
        obtain ⟨st2, r2, lg2⟩ := t2
        simp [hm] at h
        obtain ⟨rfl, _, _⟩ := h
        exact ih q st1 c hm

/-! ## positional arguments: flags and option values are never taken -/

/-- `next_arg` (as used by `argument` and `commands`) returns a split `x ++ y :: z` of the state **iff** `y` is not
a flag and everything before it reads, left to right, as flags and *option name, value* pairs of the context:
`y` is the first positional argument of the documented left-to-right reading. -/
theorem next_arg_spec (st : List Arg) (c : Ctx) (x z : List Arg) (y : Arg) :
    splitNext st c = some (x, y, z) ↔ st = x ++ y :: z ∧ skipped c (x.map Prod.snd) = true ∧ isFlag y.2 = none := by
  constructor
  · intro h
    exact ⟨splitNext_eq st c h, (splitNext_sound st c h).1, (splitNext_sound st c h).2⟩
  · rintro ⟨rfl, h1, h2⟩
    exact splitNext_complete x y z c h1 h2

/-- a token that starts with a dash (a flag, an option name, `-`, `--`, a negative number) is never positional -/
theorem flags_never_positional {st : List Arg} {c : Ctx} {x z : List Arg} {y : Arg}
    (h : splitNext st c = some (x, y, z)) : flagLike y.2 = false := by
  have := (splitNext_sound st c h).2
  unfold isFlag at this
  unfold flagLike
  cases hl : y.2.toList with
  | nil => simp
  | cons ch rest =>
    simp only [hl] at this
    by_cases hc : ch = '-'
    · subst hc
      cases rest with
      | nil => simp at this
      | cons d r => by_cases hd : d = '-' <;> simp [hd] at this
    · simp [hc]

/-- the public `fcppt::options::is_option` (a leading dash) and the internal `is_flag` agree on what is not positional -/
theorem is_option_iff_is_flag (s : String) : flagLike s = (isFlag s).isSome := by
  unfold flagLike isFlag
  cases hl : s.toList with
  | nil => simp
  | cons ch rest =>
    by_cases hc : ch = '-'
    · subst hc
      cases rest with
      | nil => simp
      | cons d r => by_cases hd : d = '-' <;> simp [hd]
    · simp [hc]

/-- **an option's value is never taken as a positional argument**: if the tokens before `n` read as complete
flags / option-value pairs and `n` is an option name of the context, the token right after `n` is not what
`next_arg` returns -/
theorem option_value_never_positional {st : List Arg} {c : Ctx} {x0 z : List Arg} {n v : Arg}
    (hx : skipped c (x0.map Prod.snd) = true) (hn : isOptName c n.2 = true) :
    splitNext st c ≠ some (x0 ++ [n], v, z) := by
  intro h
  have h1 := (splitNext_sound st c h).1
  have : texts (x0 ++ [n]) = x0.map Prod.snd ++ [n.2] := by simp [texts]
  rw [this, skipped_append c _ _ hx] at h1
  simp [skipped, hn] at h1

/-- `argument::parse` consumes exactly what `next_arg` finds, and its record is that token's conversion -/
theorem argument_takes_next_arg {f : Nat} {l : String} {ty : VTy} {nm : String} {help : Option String} {st : List Arg} {c : Ctx}
    {st' : List Arg} {r : Rec} {lg : Log} (h : parse (f + 1) (.arg l ty nm help) st c = .ok (st', r, lg)) :
    ∃ x y z v, splitNext st c = some (x, y, z) ∧ st' = x ++ z ∧ lg = [(y.1, l)] ∧ convert ty y.2 = some v ∧ r = [(l, v)] := by
  simp only [parse, popArg] at h
  cases hs : splitNext st c with
  | none => simp [hs] at h
  | some t =>
    obtain ⟨x, y, z⟩ := t
    simp only [hs, Option.map_some] at h
    split at h
    · rename_i v hv
      simp at h
      obtain ⟨rfl, rfl, rfl⟩ := h
      exact ⟨x, y, z, v, rfl, rfl, rfl, hv, rfl⟩
    · cases h

/-- … and it fails with a `missing_error` (the state untouched) exactly when there is no positional argument, with an
`other_error` exactly when the positional argument does not convert -/
theorem argument_failures {f : Nat} {l : String} {ty : VTy} {nm : String} {help : Option String} {st : List Arg} {c : Ctx} :
    ((∃ m t, parse (f + 1) (.arg l ty nm help) st c = .error (.missing m t)) ↔ splitNext st c = none) ∧
    ((∃ t, parse (f + 1) (.arg l ty nm help) st c = .error (.other t)) ↔
      ∃ x y z, splitNext st c = some (x, y, z) ∧ convert ty y.2 = none) ∧
    (∀ m t, parse (f + 1) (.arg l ty nm help) st c = .error (.missing m t) → m = st) := by
  simp only [parse, popArg]
  cases hs : splitNext st c with
  | none => simp
  | some t =>
    obtain ⟨x, y, z⟩ := t
    simp only [Option.map_some]
    cases hv : convert ty y.2 with
    | some v =>
      refine ⟨by simp, ?_, by simp⟩
      constructor
      · rintro ⟨t, ht⟩; cases ht
      · rintro ⟨x', y', z', he, hn⟩
        injection he with he; injection he with h1 he; injection he with h2 h3
        subst h2; rw [hv] at hn; cases hn
    | none =>
      refine ⟨by simp, ?_, by simp⟩
      constructor
      · intro _; exact ⟨x, y, z, rfl, hv⟩
      · intro _; exact ⟨_, rfl⟩

/-! ## flags and options: the first occurrence of the name is taken (and, for an option, the element after it) -/

/-- `use_flag`: nothing is taken iff no element equals the flag; otherwise the **first** element equal to it is removed
and nothing else changes -/
theorem use_flag_spec (name : String) (sh : Bool) (st : List Arg) :
    (useFlag name sh st = none ↔ ∀ a ∈ st, a.2 ≠ flagName name sh) ∧
    (∀ y st', useFlag name sh st = some (y, st') ↔
      ∃ x z, st = x ++ y :: z ∧ st' = x ++ z ∧ y.2 = flagName name sh ∧ ∀ a ∈ x, a.2 ≠ flagName name sh) :=
  ⟨useFlag_none_iff name sh st, fun y st' => useFlag_some_iff name sh st st' y⟩

/-- `use_option`: not found iff no element equals the name; "missing argument" iff its first occurrence is the last
element; otherwise the first occurrence **and the element right after it** (the value, whatever it looks like) are removed -/
theorem use_option_spec (name : String) (sh : Bool) (st : List Arg) :
    (useOption name sh st = .notFound ↔ ∀ a ∈ st, a.2 ≠ flagName name sh) ∧
    (useOption name sh st = .missingArgument ↔
      ∃ x y, st = x ++ [y] ∧ y.2 = flagName name sh ∧ ∀ a ∈ x, a.2 ≠ flagName name sh) ∧
    (∀ n v st', useOption name sh st = .found n v st' ↔
      ∃ x z, st = x ++ n :: v :: z ∧ st' = x ++ z ∧ n.2 = flagName name sh ∧ ∀ a ∈ x, a.2 ≠ flagName name sh) :=
  ⟨useOption_notFound_iff name sh st, useOption_missing_iff name sh st, fun n v st' => useOption_found_iff name sh st st' n v⟩

/-! ## names: the sets behind `flag_names()` / `option_names()` and the `parse_context` -/

/-- `operator<` of `option_name` (by name, then long before short) is a strict total order and `operator==` is its
equivalence: what the `std::set<option_name>` of a `parse_context` needs for `contains` to mean membership -/
theorem option_name_order_strict_total (a b c : String × Bool) :
    optLt a a = false ∧ (optLt a b = true → optLt b a = false) ∧ (optLt a b = true → optLt b c = true → optLt a c = true) ∧
      (a ≠ b → optLt a b = false → optLt b a = true) ∧ (a = b ↔ optLt a b = false ∧ optLt b a = false) :=
  ⟨optLt_irrefl a, optLt_asymm, optLt_trans, optLt_total, optLt_eq_iff a b⟩

/-- the name sets have exactly the members of the name lists the interpreter looks names up in -/
theorem name_sets_members (p : OP) (n : String) (o : String × Bool) :
    (n ∈ p.flagNameSet ↔ n ∈ p.flagNames) ∧ (o ∈ p.optionNameSet ↔ o ∈ p.optionNames) :=
  ⟨mem_toSet _ _ _, mem_toSet _ _ _⟩

/-- names handed upwards: `optional` / `many` pass their parser's names on, product and sum hand on both sides',
`commands` hands on nothing (its sub-command parsers get their own names as context, see `commands_unfold`) -/
theorem names_handed_upwards (q a b : OP) (l : String) (c : OP) (subs : Subs) :
    (OP.optional q).optionNames = q.optionNames ∧ (OP.many q).optionNames = q.optionNames ∧
    (OP.prod a b).optionNames = a.optionNames ++ b.optionNames ∧ (OP.sum l a b).optionNames = a.optionNames ++ b.optionNames ∧
    (OP.commands c subs).optionNames = [] ∧
    (OP.optional q).flagNames = q.flagNames ∧ (OP.many q).flagNames = q.flagNames ∧
    (OP.prod a b).flagNames = a.flagNames ++ b.flagNames ∧ (OP.sum l a b).flagNames = a.flagNames ++ b.flagNames ∧
    (OP.commands c subs).flagNames = [] := by
  simp [OP.optionNames, OP.flagNames]

/-- **`commands::parse`**: the vector is split at the first positional argument w.r.t. the *common* parser's option names;
the common parser must consume everything in front of it (`parse_to_empty`, any failure becomes an `other_error` with the
same text); the selected sub-command's parser runs on what follows **with its own option names as context** (not the
caller's and not the common parser's) and its leftover state is the result's state -/
theorem commands_unfold (f : Nat) (common : OP) (subs : Subs) (st : List Arg) (c : Ctx) :
    parse (f + 1) (.commands common subs) st c =
      match splitNext st common.optionNames with
      | none => .error (.missing st ("No command specified from " ++ showList (subs.map Prod.fst)))
      | some (first, name, second) =>
        match findSub name.2 subs with
        | none => .error (.other ("Invalid command " ++ name.2))
        | some (tag, q) =>
          match parse f common first common.optionNames with
          | .error .diverge => .error .diverge
          | .error e => .error (.other e.msg)
          | .ok (rest, ro, lgo) =>
            if !rest.isEmpty then .error (.other (leftoverText rest))
            else match parse f q second q.optionNames with
              | .error e => .error e
              | .ok (st', rq, lgq) =>
                .ok (st', [("options", .recd ro), ("sub", .recd [(tag, .recd rq)])], lgo ++ (name.1, "cmd") :: lgq) :=
  parse_commands_eq f common subs st c

/-- what `options::parse` says when arguments are left over: exactly the unconsumed ones, in order -/
theorem parseTop_leftover {f : Nat} {p : OP} {args : List String} {st' : List Arg} {r : Rec} {lg : Log}
    (h : parse f p (index args) p.optionNames = .ok (st', r, lg)) (hne : st' ≠ []) :
    parseTop f p args = .error (.error ("Leftover arguments " ++ showList (st'.map Prod.snd))) := by
  unfold parseTop parseToEmpty
  rw [h]
  cases st' with
  | nil => exact absurd rfl hne
  | cons a b => rfl

/-! ## the help wrapper -/

/-- **`parse_help`, any help switch** (with or without a short name): the answer is the help text iff the argument
vector is exactly the switch — `[--<long>]` or `[-<short>]`.  In particular `--help -h`, `-h x` or `x --help` never
give the help text. -/
theorem help_only_alone_any (f : Nat) (hsh : Option String) (hlg : String) (p : OP) (args : List String) :
    (∃ x, parseHelp (f + 2) hsh hlg p args = .ok x ∧ x.isHelp = true) ↔
      args = [flagName hlg false] ∨ ∃ s, hsh = some s ∧ args = [flagName s true] :=
  parseHelp_help_iff_any f hsh hlg p args

/-- the special case of `default_help_switch()` (no short name): only `[--help]` -/
theorem help_only_alone (f : Nat) (hlg : String) (p : OP) (args : List String) :
    (∃ x, parseHelp (f + 2) none hlg p args = .ok x ∧ x.isHelp = true) ↔ args = [flagName hlg false] := by
  rw [parseHelp_help_iff_any]
  simp

/-- the help text `parse_help` returns is the usage string of the wrapped parser (not of the sum it builds) -/
theorem help_text_is_usage {g : Nat} {hsh : Option String} {hlg : String} {p : OP} {args : List String} {t : String}
    (h : parseHelp g hsh hlg p args = .ok (.help t)) : t = p.usage := by
  unfold parseHelp at h
  split at h
  · cases h
  · injection h with h; injection h with h; exact h.symm
  · cases h
  · cases h

example : parseHelp 9 (some "h") "help" (.arg "a" .str "file" none) ["-h"] = .ok (.help "file : string") := by rfl
example : ∃ m, parseHelp 9 (some "h") "help" (.arg "a" .str "file" none) ["-h", "--help"] = .error (.error m) := ⟨_, rfl⟩

/-! ## definitions -/

/-- **the constructors accept exactly the well-formed definitions** (short ≠ long, active ≠ inactive for every
value type, disjoint names in products, distinct sub-command names), everywhere in the tree -/
theorem construct_ok_iff_wellformed (p : OP) : construct p = .ok () ↔ p.WellFormed := construct_iff p

/-- the defect repaired by 986d19b as a regression example: `flag<L, std::string>` with distinct values constructs -/
example : construct (.flag "a" none "mode" (.str "yes") (.str "no") none) = .ok () := by rfl
example : construct (.flag "a" none "mode" (.str "same") (.str "same") none) =
    .error ⟨.optionsException, "fcppt::options: The active and the inactive value must be different: same"⟩ := by rfl
example : construct (.prod (OP.switch "a" none "f") (.opt "b" none "f" none .int none)) =
    .error ⟨.duplicateNames, "fcppt::options: The following names appear multiple times in a product parser: [f]"⟩ := by
  simp [construct, checkShortLong, OP.switch, OP.allNames, OP.flagNames, OP.optionNames, commonNames, toSet, insertSet, showList,
    excText, bind, Except.bind, Val.beqBase]

/-! ## termination -/

/-- **`many` (and everything else) terminates** unless a `many` sits around a parser that can succeed without
consuming: fuel `(|state| + 1) * size p` is enough, for every state and context -/
theorem many_terminates {f : Nat} {p : OP} {st : List Arg} {c : Ctx} (hw : p.wfMany = true)
    (hf : (st.length + 1) * p.size ≤ f) : parse f p st c ≠ .error .diverge := parse_terminates f p st c hw hf

/-- the fuel the driver uses is enough: a `diverge` line of the model for a `wfMany` shape cannot occur -/
theorem parseTop_terminates {p : OP} {args : List String} (hw : p.wfMany = true) :
    parseTop (fuelFor p args.length) p args ≠ .error .diverge := by
  unfold parseTop parseToEmpty
  have hl : (index args).length = args.length := by simp [index]
  have := parse_terminates (fuelFor p args.length) p (index args) p.optionNames hw (by rw [hl]; unfold fuelFor; omega)
  split
  · rename_i h; exact absurd h this
  · simp
  · split <;> simp

/-- every success of a consuming parser takes at least one argument (what makes `many` well-founded) -/
theorem consuming_shrinks {f : Nat} {p : OP} {st : List Arg} {c : Ctx} {st' : List Arg} {r : Rec} {lg : Log}
    (hc : p.consuming = true) (h : parse f p st c = .ok (st', r, lg)) : st'.length < st.length := parse_shrinks hc h

/-- the open known finding (`many` around a parser that succeeds without consuming): no fuel is enough -/
theorem many_diverges_example (f : Nat) : parse f (.many (OP.switch "a" none "f")) [] [] = .error .diverge :=
  many_switch_diverges f

/-! ## the fuel is only a termination device -/

/-- **fuel monotonicity**: a result other than `diverge` is the result for every larger fuel -/
theorem parse_fuel_monotone {f g : Nat} {p : OP} {st : List Arg} {c : Ctx} (hfg : f ≤ g)
    (h : parse f p st c ≠ .error .diverge) : parse g p st c = parse f p st c := parse_fuel_le hfg h

/-- two fuels that are both enough give the same result: the model defines one result per (parser, state, context) -/
theorem parse_fuel_irrelevant {f g : Nat} {p : OP} {st : List Arg} {c : Ctx}
    (hf : parse f p st c ≠ .error .diverge) (hg : parse g p st c ≠ .error .diverge) : parse f p st c = parse g p st c := by
  rcases Nat.le_total f g with h | h
  · exact (parse_fuel_le h hf).symm
  · exact parse_fuel_le h hg

/-- the same for `fcppt::options::parse` -/
theorem parseTop_fuel_monotone {f g : Nat} {p : OP} {args : List String} (hfg : f ≤ g)
    (h : parseTop f p args ≠ .error .diverge) : parseTop g p args = parseTop f p args := by
  unfold parseTop parseToEmpty at h ⊢
  have hp : parse f p (index args) p.optionNames ≠ .error .diverge := by
    intro hd; rw [hd] at h; exact h rfl
  rw [parse_fuel_le hfg hp]

/-- what the driver computes with its fuel is the result for every larger fuel (shapes without a bad `many`) -/
theorem driver_fuel_is_enough {p : OP} {args : List String} (hw : p.wfMany = true) {g : Nat}
    (hg : fuelFor p args.length ≤ g) : parseTop g p args = parseTop (fuelFor p args.length) p args :=
  parseTop_fuel_monotone hg (parseTop_terminates hw)

/-! ## the indices are bookkeeping only -/

/-- **the control flow never looks at an index**: two states with the same texts give the same result up to the indices
(`zeroRes` sets every index in the remaining state, in the state of a `missing_error` and in the log to 0) — same record,
same error kind and text, same texts left over, same leaf labels in the log.  This is what makes the accounting theorems
statements about the C++, which has no indices. -/
theorem parse_ignores_indices (f : Nat) (p : OP) (s1 s2 : List Arg) (c : Ctx) (h : s1.map Prod.snd = s2.map Prod.snd) :
    zeroRes (parse f p s1 c) = zeroRes (parse f p s2 c) :=
  parse_zero f p s1 s2 c ((zero_eq_iff s1 s2).mpr h)

/-- … spelled out for a success -/
theorem parse_ignores_indices_ok {f : Nat} {p : OP} {s1 s2 : List Arg} {c : Ctx} {t1 : List Arg} {r : Rec} {l1 : Log}
    (h : s1.map Prod.snd = s2.map Prod.snd) (h1 : parse f p s1 c = .ok (t1, r, l1)) :
    ∃ t2 l2, parse f p s2 c = .ok (t2, r, l2) ∧ t1.map Prod.snd = t2.map Prod.snd ∧ l1.map Prod.snd = l2.map Prod.snd := by
  have hz := parse_ignores_indices f p s1 s2 c h
  rcases zeroRes_cases hz with ⟨u1, r', m1, u2, m2, hA, hB, hu, hm⟩ | ⟨e1, e2, hA, _, _⟩
  · rw [h1] at hA
    injection hA with hA; injection hA with a1 hA; injection hA with a2 a3
    subst a1 a2 a3
    refine ⟨u2, m2, hB, (zero_eq_iff _ _).mp hu, ?_⟩
    have := congrArg (List.map Prod.snd) hm
    simpa [zeroLog, List.map_map, Function.comp_def] using this
  · rw [h1] at hA; cases hA

/-! ## records -/

/-- **the record of a successful parse has exactly the labels of the parser's result type, in order**
(`OP.labels` = labels of `result_of<Parser>`): no field is lost or doubled by `many`'s zipping, `optional`'s mapping,
the concatenation of a product -/
theorem parse_result_labels {f : Nat} {p : OP} {st : List Arg} {c : Ctx} {st' : List Arg} {r : Rec} {lg : Log}
    (h : parse f p st c = .ok (st', r, lg)) : r.map Prod.fst = p.labels := parse_labels f p st c h

theorem parseTop_result_labels {f : Nat} {p : OP} {args : List String} {r : Rec} {lg : Log}
    (h : parseTop f p args = .ok (r, lg)) : r.map Prod.fst = p.labels := by
  unfold parseTop parseToEmpty at h
  split at h
  · cases h
  · cases h
  · rename_i st' r' lg' hp
    split at h
    · injection h with h; injection h with h1 h2; subst h1
      exact parse_labels _ _ _ _ hp
    · cases h

/-- `many`: every field of the result is a vector and all vectors have the same length (the number of iterations) -/
theorem many_fields_are_vectors_of_one_length {f : Nat} {q : OP} {st : List Arg} {c : Ctx} {st' : List Arg} {r : Rec} {lg : Log}
    (h : parse f (.many q) st c = .ok (st', r, lg)) : ∃ k, ∀ x ∈ r, ∃ vs, x.2 = Val.list vs ∧ vs.length = k :=
  many_all_lists f q st c h

/-- `optional`: either every field is absent or every field is present -/
theorem optional_fields_all_or_nothing {f : Nat} {q : OP} {st : List Arg} {c : Ctx} {st' : List Arg} {r : Rec} {lg : Log}
    (h : parse (f + 1) (.optional q) st c = .ok (st', r, lg)) :
    (∀ x ∈ r, x.2 = Val.none) ∨ (∀ x ∈ r, ∃ v, x.2 = Val.some v) := optional_all_or_nothing h

/-! ## non-vacuity -/

example : parseTop 20 (.prod (.opt "a" none "o" none .int none) (.arg "b" .str "b_arg" none)) ["x", "--o", "5"] =
    .ok ([("a", .int 5), ("b", .str "x")], [(1, "a"), (2, "a"), (0, "b")]) := by rfl
example : (OP.many (.prod (.unitSwitch "a" none "k") (.arg "b" .int "b_arg" none))).wfMany = true := by rfl
example : (OP.commands (.unit "a") [("go", "x", none, .arg "b" .int "b_arg" none)]).WellFormed := by
  simp [OP.WellFormed, WellFormedSubs]
example : splitNext [(0, "--o"), (1, "5"), (2, "-v"), (3, "x")] [("o", false)] = some ([(0, "--o"), (1, "5"), (2, "-v")], (3, "x"), []) := by rfl

/-- `use_option` takes the first occurrence and the element after it, whatever it looks like -/
example : useOption "o" false [(0, "x"), (1, "--o"), (2, "--o"), (3, "5")] = .found (1, "--o") (2, "--o") [(0, "x"), (3, "5")] := by rfl
/-- same texts, different indices: same record, same texts left over -/
example : zeroRes (parse 5 (.arg "a" .int "n" none) [(7, "--o"), (3, "5"), (9, "x")] [("o", false)]) =
    zeroRes (parse 5 (.arg "a" .int "n" none) [(0, "--o"), (1, "5"), (2, "x")] [("o", false)]) := by rfl
/-- usage of a commands parser with help texts -/
example : (OP.commands (OP.switch "a" (some "v") "verbose" (some "be loud"))
      [("run", "x", some "runs", .many (.arg "b" .str "file" none)), ("stop", "y", none, .unit "c")]).usage =
    "[ --verbose|-v ] - be loud\n  run:  (runs)  \n    [ file : string ]*\n  stop:   \n  " := by rfl
/-- the text `options::parse` returns for a leftover, and for two failing alternatives of a sum -/
example : parseTop 9 (.arg "a" .int "n" none) ["5", "x"] = .error (.error "Leftover arguments [x]") := by rfl
example : parseTop 9 (.sum "s" (.unitSwitch "a" none "k") (.arg "b" .int "n" none)) [] =
    .error (.error "  Missing flag --k.\n|\n  Missing argument \"n\".") := by rfl
example : (OP.many (.prod (.arg "a" .int "n" none) (.arg "b" .str "m" none))).labels = ["a", "b"] := by rfl

end Fcppt.C03
