import FcpptProofs.C03.Parse
/-!
# C03 — property theorems (see notes/C03.md for the clause-by-clause coverage)
-/
namespace Fcppt.C03

/-- every successful `Parser::parse` leaves a sublist of its input state (order preserved) -/
theorem parse_state_sublist {f : Nat} {p : OP} {st : List Arg} {c : Ctx} {st' : List Arg} {r : Rec} {lg : Log}
    (h : parse f p st c = .ok (st', r, lg)) : st'.Sublist st := (parse_acc f p st c h).sub

/-- remaining arguments and logged (consumed) arguments partition the input state -/
theorem parse_log_partition {f : Nat} {p : OP} {st : List Arg} {c : Ctx} {st' : List Arg} {r : Rec} {lg : Log}
    (h : parse f p st c = .ok (st', r, lg)) : (st'.map Prod.fst ++ lg.map Prod.fst).Perm (st.map Prod.fst) :=
  (parse_acc f p st c h).perm

end Fcppt.C03
