/-! Property theorems for C08 — placeholder until the property's model is built. -/
