import FcpptProofs.C08.Ext
/-!
# C08 — property theorems

Positions, dimensions, `min` and `sup` of static size `N` are lists of length `N` (index 0 fastest);
every theorem is for **every** `N ≥ 1` and every size — the code's `N ∈ {1,2,3}` with extents `0..4`
are instances.  Specification vocabulary (`FcpptModel/Spec/C08.lean`): `InBox mn sp p` (component-wise
`mn ≤ p < sp`), `InRange d p` (`InBox 0 d p`), `box mn sp` (the positions of the half-open box, first
coordinate fastest), `lin` (Horner form of the row-major index), `prod`, `ints lo n = [lo, …, lo+n-1]`.
`Denotes g v` (FcpptProofs/C08/GridLemmas.lean): the grid has a legal size and its cells are the values
`v p` for the in-range positions `p` (`denotes_iff`: exactly what `get_unsafe` observes).
Only theorems live in this file; lemmas are in `FcpptProofs/C08/`.
-/
namespace Fcppt.C08

/-! ## `dim::contents`, `offset` -/

/-- `contents` is the product of the extents. -/
theorem contents_is_product (d : List Int) : contents d = prod d := contents_eq_prod d

/-- the stride-accumulating fold of `offset` computes the row-major index `p0 + d0*(p1 + d1*(…))`. -/
theorem offset_is_row_major (p d : List Int) (h : p.length = d.length) : offset p d = lin p d :=
  offset_eq_lin p d h

/-- an in-range position has an offset in `[0, content)`. -/
theorem offset_lt {d p : Pos} (h : InRange d p) : 0 ≤ offset p d ∧ offset p d < contents d := by
  have := linR_inBox h
  rw [linR_zeros d p (inRange_length h), count_zeros d (inRange_nonNeg_size h)] at this
  rw [offset_eq_lin p d (inRange_length h).symm, contents_eq_prod]
  exact this

/-- different in-range positions have different offsets. -/
theorem offset_inj {d p q : Pos} (hp : InRange d p) (hq : InRange d q) (h : offset p d = offset q d) : p = q := by
  rw [offset_eq_lin p d (inRange_length hp).symm, offset_eq_lin q d (inRange_length hq).symm] at h
  apply linR_inj hp hq
  rw [linR_zeros d p (inRange_length hp), linR_zeros d q (inRange_length hq), h]

/-- every `k` in `[0, content)` is the offset of an in-range position: with `offset_lt` and
    `offset_inj`, `offset` is a bijection between the in-range positions and `[0, content)`. -/
theorem offset_surj {d : List Int} (hd : NonNeg d) {k : Int} (h0 : 0 ≤ k) (h1 : k < contents d) :
    ∃ p, InRange d p ∧ offset p d = k := by
  rw [contents_eq_prod, ← count_zeros d hd] at h1
  obtain ⟨p, hp, hk⟩ := linR_surj (length_zeros d) k h0 h1
  refine ⟨p, hp, ?_⟩
  have hl := inRange_length (d := d) hp
  rw [offset_eq_lin p d hl.symm, ← linR_zeros d p hl, hk]

/-! ## `next_position`, `end_position` -/

/-- whole grid: from an in-range position that is not the last one, `next_position` yields the in-range
    position whose offset is one larger. -/
theorem next_linear {d p : Pos} (hd : d ≠ []) (hp : InRange d p) (h : offset p d + 1 < contents d) :
    InRange d (next p (zeros d) d) ∧ offset (next p (zeros d) d) d = offset p d + 1 := by
  have hl := inRange_length hp
  have hne : zeros d ≠ [] := by
    cases d <;> simp_all [zeros]
  rw [offset_eq_lin p d hl.symm, contents_eq_prod, ← count_zeros d (inRange_nonNeg_size hp),
    ← linR_zeros d p hl] at h
  obtain ⟨h1, h2⟩ := (next_step hne hp).1 h
  refine ⟨h1, ?_⟩
  rw [offset_eq_lin _ d (inRange_length h1).symm, offset_eq_lin p d hl.symm,
    ← linR_zeros d _ (inRange_length h1), ← linR_zeros d p hl]
  exact h2

/-- whole grid: from the last in-range position `next_position` yields exactly `end_position`. -/
theorem next_last {d p : Pos} (hd : d ≠ []) (hp : InRange d p) (h : offset p d + 1 = contents d) :
    next p (zeros d) d = endPos (zeros d) d := by
  have hl := inRange_length hp
  have hne : zeros d ≠ [] := by
    cases d <;> simp_all [zeros]
  rw [offset_eq_lin p d hl.symm, contents_eq_prod, ← count_zeros d (inRange_nonNeg_size hp),
    ← linR_zeros d p hl] at h
  exact (next_step hne hp).2 h

/-- any sub-range: on a position of the box, `next_position` advances the box-relative linear index
    `linR` by one and stays in the box, or (from the last position) yields `end_position`. -/
theorem next_in_subrange {mn sp p : Pos} (hne : mn ≠ []) (hp : InBox mn sp p) :
    (linR mn sp p + 1 < count mn sp →
        InBox mn sp (next p mn sp) ∧ linR mn sp (next p mn sp) = linR mn sp p + 1) ∧
    (linR mn sp p + 1 = count mn sp → next p mn sp = endPos mn sp) :=
  next_step hne hp

/-- the iteration never leaves `[min, sup]`: from a position of the box, every component of `next_position` lies
    between `min_i` and `sup_i` (inclusive) — and the only arithmetic of `next_position` is `+ 1` on components of
    its argument, which are below `sup_i`.  So for representable `min`, `sup` no increment of the loop overflows
    (`long`) or wraps (`std::size_t`): the `Int` model is exact for the whole iteration. -/
theorem next_stays_within {mn sp p : Pos} (hne : mn ≠ []) (hp : InBox mn sp p) :
    Between mn sp (next p mn sp) ∧ Between mn sp (p.map (· + 1)) := by
  refine ⟨next_between hne hp, ?_⟩
  clear hne
  induction mn generalizing sp p with
  | nil => cases sp <;> cases p <;> simp_all [InBox, Between]
  | cons m ms ih =>
    cases sp with
    | nil => simp [InBox] at hp
    | cons s ss =>
      cases p with
      | nil => simp [InBox] at hp
      | cons x xs =>
        simp only [InBox] at hp
        simp only [List.map_cons, Between]
        exact ⟨by omega, by omega, ih hp.2.2⟩

/-- the end sentinel is never a position of the range (the loop cannot stop early). -/
theorem endPos_not_visited {mn sp : Pos} (hl : mn.length = sp.length) (hne : mn ≠ [])
    (h : minLessSup mn sp = true) : ¬ InBox mn sp (endPos mn sp) := by
  simp only [endPos, h, if_true]
  exact endInit_not_inBox hl hne

/-- the fold of `next_position` read literally (`fcppt::algorithm::fold` over the indices `0 … N-2`, reads and
    writes by index) is the structurally recursive `next` every other theorem is about. -/
theorem nextFold_eq_next (cur mn sp : Pos) (h1 : mn.length = cur.length) (h2 : sp.length = cur.length) :
    nextFold cur mn sp = next cur mn sp :=
  nextFold_eq cur mn sp h1 h2

/-! ## the unsigned instantiation: arithmetic modulo `2^w` -/

/-- with every multiplication and addition reduced modulo `2^w` (C++ unsigned arithmetic), `offset` and
    `contents` are the reductions of the mathematical values — for **all** positions and sizes. -/
theorem offsetW_is_wrapped_offset (w : Nat) (p d : List Int) :
    offsetW w p d = wrap w (offset p d) ∧ contentsW w d = wrap w (contents d) :=
  ⟨offsetW_eq_wrap w p d, contentsW_eq_wrap w d⟩

/-- hence no wrap-around is ever visible for an in-range position of a grid whose content is representable
    (which the allocation of the cells forces): the `w`-bit computation is the exact row-major index. -/
theorem offsetW_exact {w : Nat} {d p : Pos} (h : InRange d p) (hc : contents d ≤ 2 ^ w) :
    offsetW w p d = lin p d ∧ (contents d < 2 ^ w → contentsW w d = prod d) := by
  have hl := offset_lt h
  refine ⟨?_, fun hlt => ?_⟩
  · rw [offsetW_eq_wrap, wrap_id w hl.1 (by omega), offset_eq_lin p d (inRange_length h).symm]
  · rw [contentsW_eq_wrap, wrap_id w (by omega) hlt, contents_eq_prod]

/-! ## position ranges -/

/-- `min_less_sup` is the component-wise strict order. -/
theorem minLessSup_spec (mn sp : Pos) (hl : mn.length = sp.length) :
    minLessSup mn sp = true ↔ ∀ i (h1 : i < mn.length) (h2 : i < sp.length), mn[i] < sp[i] :=
  minLessSup_iff mn sp hl

/-- **iterate_enumerates**: for every static size `N ≥ 1` and every `min`, `sup`, the iterator loop
    `for (it = begin(); it != end(); ++it)` terminates and visits exactly the list `box min sup`. -/
theorem iterate_enumerates {mn sp : Pos} (hl : mn.length = sp.length) (hne : mn ≠ []) :
    posRange mn sp = .ok (box mn sp) :=
  posRange_eq_box hl hne

/-- the visited positions are exactly those with `min ≤ p < sup` component-wise … -/
theorem visited_iff {mn sp : Pos} (hl : mn.length = sp.length) (p : Pos) : p ∈ box mn sp ↔ InBox mn sp p :=
  mem_box hl p

/-- … each exactly once … -/
theorem visited_once {mn sp : Pos} (hl : mn.length = sp.length) : (box mn sp).Nodup := nodup_box hl

/-- … in row-major order of the sub-range (box-relative linear index 0, 1, 2, …) … -/
theorem visited_in_order {mn sp : Pos} (hl : mn.length = sp.length) :
    (box mn sp).map (linR mn sp) = ints 0 (box mn sp).length := by
  rw [map_linR_box hl, length_box hl]

/-- … `size()` (= `range_size`) many, and `range_size` is never negative … -/
theorem size_eq_visited {mn sp : Pos} (hl : mn.length = sp.length) (hne : mn ≠ []) :
    rangeSize mn sp = ((box mn sp).length : Int) := by
  rw [rangeSize_eq_count hl hne, length_box hl]

/-- … and none at all iff some component of `min` is not below `sup`. -/
theorem visited_none_iff {mn sp : Pos} (hl : mn.length = sp.length) : box mn sp = [] ↔ minLessSup mn sp = false :=
  box_eq_nil_iff hl

/-- `range_dim`: if `min < sup` in every component, component `i` is the (positive) number `sup_i - min_i` of
    values coordinate `i` takes in the range; otherwise it is the null dimension — in both cases of the static
    size, and its `contents` is the number of positions visited (`size_eq_visited`). -/
theorem rangeDim_spec (mn sp : Pos) (hl : mn.length = sp.length) :
    (rangeDim mn sp).length = mn.length ∧
    (minLessSup mn sp = true → ∀ i (h1 : i < mn.length) (h2 : i < sp.length),
        (rangeDim mn sp)[i]? = some (sp[i] - mn[i]) ∧ 0 < sp[i] - mn[i]) ∧
    (minLessSup mn sp = false → rangeDim mn sp = zeros mn) := by
  refine ⟨?_, ?_, ?_⟩
  · unfold rangeDim
    split <;> simp [hl]
  · intro h i h1 h2
    have := (minLessSup_iff mn sp hl).mp h i h1 h2
    refine ⟨?_, by omega⟩
    simp [rangeDim, h, List.getElem?_zipWith, List.getElem?_eq_getElem h1, List.getElem?_eq_getElem h2]
  · intro h
    simp [rangeDim, h, zeros]

/-- the whole-grid range visits every in-range position exactly once **in storage order**:
    the offsets of the visited positions are 0, 1, …, content-1. -/
theorem whole_grid_storage_order {d : List Int} (hne : d ≠ []) (hd : NonNeg d) :
    ∃ ps, posRangeAll d = .ok ps ∧ ps.map (fun p => offset p d) = ints 0 (contents d).toNat ∧
      ps.Nodup ∧ ∀ p, p ∈ ps ↔ InRange d p := by
  refine ⟨box (zeros d) d, posRangeAll_eq d hne, ?_, nodup_box (length_zeros d), mem_box (length_zeros d)⟩
  rw [← length_box_zeros d hd, length_box (length_zeros d), ← map_linR_box (length_zeros d)]
  apply List.map_congr_left
  intro p hp
  have hl := inRange_length ((mem_box (length_zeros d) p).mp hp)
  rw [offset_eq_lin p d hl.symm, linR_zeros d p hl]

/-- a sub-range that lies inside the grid (`0 ≤ min`, `sup ≤ size`) is visited in strictly increasing
    storage offset. -/
theorem subrange_storage_order {mn sp d : Pos} (h : Within mn sp d) :
    ((box mn sp).map (fun p => offset p d)).Pairwise (· < ·) :=
  box_pairwise_offset h

/-! ## the grid object: `get_unsafe`, `at_optional`, constructors -/

/-- `Denotes g v` says exactly: legal size, `content()` many cells, and `get_unsafe p` is `v p`
    for every in-range `p`. -/
theorem denotes_iff {α : Type} (g : Grid α) (v : Pos → α) :
    Denotes g v ↔ g.size ≠ [] ∧ NonNeg g.size ∧ g.cells.length = (contents g.size).toNat ∧
      ∀ p, InRange g.size p → g.getUnsafe p = .ok (v p) := by
  constructor
  · intro h
    refine ⟨h.1, h.2.1, ?_, fun p hp => get_of_denotes h hp⟩
    rw [h.2.2, List.length_map, length_box_zeros _ h.2.1]
  · rintro ⟨hne, hd, hlen, hget⟩
    refine ⟨hne, hd, ?_⟩
    have hlen' : g.cells.length = (box (zeros g.size) g.size).length := by rw [length_box_zeros _ hd, hlen]
    apply List.ext_getElem (by simpa using hlen')
    intro j h1 h2
    have hj : j < (box (zeros g.size) g.size).length := by simpa using h2
    have hp := (mem_box (length_zeros g.size) _).mp (List.getElem_mem hj)
    have hlin : lin (box (zeros g.size) g.size)[j] g.size = j := by
      rw [← linR_zeros g.size _ (inRange_length hp)]
      exact linR_getElem (length_zeros g.size) j hj
    have hg := hget _ hp
    unfold Grid.getUnsafe Grid.cellIndex at hg
    rw [offset_eq_lin _ g.size (inRange_length hp).symm, hlin] at hg
    simp only [Int.natCast_nonneg, Int.toNat_natCast, h1, and_self, if_true, bind, Except.bind,
      List.getElem?_eq_getElem h1] at hg
    rw [List.getElem_map]
    injection hg

/-- `object(size, value)`: every cell is the value. -/
theorem mkConst_cell {α : Type} (d : List Int) (hne : d ≠ []) (hd : NonNeg d) (c : α) :
    Denotes (Grid.mkConst d c) (fun _ => c) ∧ (Grid.mkConst d c).size = d :=
  ⟨mkConst_denotes d hne hd c, rfl⟩

/-- `object(size, function)`: the cell at every in-range position `p` is `f p`. -/
theorem mkFn_cell {α : Type} (d : List Int) (hne : d ≠ []) (hd : NonNeg d) (f : Pos → α) :
    ∃ g, Grid.mkFn d (fun p => pure (f p)) = .ok g ∧ g.size = d ∧ Denotes g f :=
  ⟨_, (mkFn_denotes d hne hd _ f (fun _ _ => rfl)).1, rfl, (mkFn_denotes d hne hd (fun p => pure (f p)) f (fun _ _ => rfl)).2⟩

/-- **mkRows_cell** — `object(static_row…)`: for rows of equal length `w` the grid has size `(w, number of rows)`,
    `w * rows` cells, and the cell at `(x, y)` is element `x` of row `y` (row-major: a row is a run of `x`). -/
theorem mkRows_cell {α : Type} (r1 : List α) (rs : List (List α)) (hw : ∀ r ∈ rs, r.length = r1.length) :
    (Grid.mkRows r1 rs).size = [(r1.length : Int), ((rs.length + 1 : Nat) : Int)] ∧
    (Grid.mkRows r1 rs).cells.length = (contents (Grid.mkRows r1 rs).size).toNat ∧
    ∀ (x y : Nat) (r : List α) (v : α), (r1 :: rs)[y]? = some r → r[x]? = some v →
      (Grid.mkRows r1 rs).getUnsafe [(x : Int), (y : Int)] = .ok v := by
  refine ⟨rfl, ?_, fun x y r v => mkRows_getUnsafe r1 rs hw x y r v⟩
  have hall : ∀ r ∈ r1 :: rs, r.length = r1.length := by
    intro r hr
    simp only [List.mem_cons] at hr
    rcases hr with rfl | h
    · rfl
    · exact hw r h
  have := length_flatten_uniform (r1 :: rs) r1.length hall
  simp only [Grid.mkRows, contents, List.foldl_cons, List.foldl_nil, Int.one_mul] at this ⊢
  rw [this, ← Int.natCast_mul, Int.toNat_natCast, List.length_cons, Nat.mul_comm]

/-! ## special members: size and cells travel together -/

/-- **special_members_refine** — every history of copy / move constructions, copy / move assignments (self-assignment
    included), member and free swaps and default constructions between objects behaves as the same history on whole grid *values*: copying
    duplicates the value, moving transfers it (the source holds nothing until assigned again), swapping exchanges
    the objects.  A history is legal for the model exactly when it is for the specification. -/
theorem special_members_refine {α : Type} (n : Nat) (st : List (Slot α)) (prog : List RegOp) :
    (regRun n st prog).map (List.map absSlot) = specRun n (st.map absSlot) prog :=
  regRun_refines n st prog

/-- consequently no history ever produces a grid whose size and cells do not belong together: every object that
    is not moved-from holds one of the grids the history started with, unchanged, or the empty grid of a default
    construction. -/
theorem special_members_preserve_values {α : Type} (n : Nat) (st st' : List (Slot α)) (prog : List RegOp)
    (h : regRun n st prog = some st') (x : Slot α) (hx : x ∈ st') (hm : x.moved = false) :
    (∃ y ∈ st, y.moved = false ∧ y.g = x.g) ∨ x.g = Grid.empty n := by
  have h1 := special_members_refine n st prog
  rw [h] at h1
  have hv : some x.g ∈ st'.map absSlot := List.mem_map.mpr ⟨x, hx, by simp [absSlot, hm]⟩
  rcases specRun_mem n _ _ prog h1.symm x.g hv with this | this
  · obtain ⟨y, hy, he⟩ := List.mem_map.mp this
    refine Or.inl ⟨y, hy, ?_⟩
    unfold absSlot at he
    cases hmv : y.moved <;> simp_all
  · exact Or.inr this

/-! ## comparison -/

/-- **eq_spec** — `operator==` on well-formed grids never reads past the second operand's cells and is equality of
    size **and** cells. -/
theorem eq_spec {α : Type} [BEq α] [LawfulBEq α] (a b : Grid α)
    (ha : a.cells.length = (contents a.size).toNat) (hb : b.cells.length = (contents b.size).toNat) :
    ∃ r, a.eq b = .ok r ∧ (r = true ↔ a = b) ∧ a.ne b = .ok (!r) := by
  obtain ⟨r, h1, h2⟩ := gridEq_spec a b ha hb
  exact ⟨r, h1, h2, by simp only [Grid.ne, h1]; rfl⟩

/-- in terms of positions: two grids are `==` iff they have the same size and the same cell at every in-range
    position (the same flattened cells under a different size are *not* equal). -/
theorem eq_iff_same_cells {α : Type} [BEq α] [LawfulBEq α] {a b : Grid α} {va vb : Pos → α}
    (ha : Denotes a va) (hb : Denotes b vb) :
    ∃ r, a.eq b = .ok r ∧ (r = true ↔ a.size = b.size ∧ ∀ p, InRange a.size p → va p = vb p) := by
  have la : a.cells.length = (contents a.size).toNat := ((denotes_iff a va).mp ha).2.2.1
  have lb : b.cells.length = (contents b.size).toNat := ((denotes_iff b vb).mp hb).2.2.1
  obtain ⟨r, h1, h2⟩ := gridEq_spec a b la lb
  refine ⟨r, h1, ?_⟩
  rw [h2, grid_eq_iff, ha.2.2, hb.2.2]
  constructor
  · rintro ⟨hs, hc⟩
    refine ⟨hs, fun p hp => ?_⟩
    rw [← hs, List.map_inj_left] at hc
    exact hc p ((mem_box (length_zeros a.size) p).mpr hp)
  · rintro ⟨hs, hc⟩
    refine ⟨hs, ?_⟩
    rw [← hs, List.map_inj_left]
    exact fun p hp => hc p ((mem_box (length_zeros a.size) p).mp hp)

/-- **lt_spec** — `operator<` is the lexicographic order on (size, cells), sizes and cells themselves compared
    lexicographically (`x` first, storage order); `>`, `<=`, `>=` are derived from it as documented. -/
theorem lt_spec (a b : Grid Int) :
    (a.lt b = true ↔ (LexLt a.size b.size ∨ (a.size = b.size ∧ LexLt a.cells b.cells))) ∧
    a.gt b = b.lt a ∧ a.le b = !(b.lt a) ∧ a.ge b = !(a.lt b) :=
  ⟨gridLt_iff a b, rfl, rfl, rfl⟩

/-- `operator<` is a strict total order on grids: irreflexive, transitive, and any two different grids are
    comparable — so exactly one of `a < b`, `a = b`, `b < a` holds. -/
theorem lt_strict_total (a b c : Grid Int) :
    a.lt a = false ∧ (a.lt b = true → b.lt c = true → a.lt c = true) ∧ (a.lt b = true ∨ a = b ∨ b.lt a = true) := by
  refine ⟨?_, ?_, ?_⟩
  · cases h : a.lt a
    · rfl
    · rcases (gridLt_iff a a).mp h with h | ⟨_, h⟩ <;> exact absurd h (LexLt.irrefl _)
  · intro h1 h2
    rw [gridLt_iff] at h1 h2 ⊢
    rcases h1 with h1 | ⟨e1, h1⟩ <;> rcases h2 with h2 | ⟨e2, h2⟩
    · exact Or.inl (h1.trans h2)
    · exact Or.inl (e2 ▸ h1)
    · exact Or.inl (e1 ▸ h2)
    · exact Or.inr ⟨e1.trans e2, h1.trans h2⟩
  · simp only [gridLt_iff, GridLt, grid_eq_iff]
    rcases LexLt.total a.size b.size with h | h | h
    · exact Or.inl (Or.inl h)
    · rcases LexLt.total a.cells b.cells with h' | h' | h'
      · exact Or.inl (Or.inr ⟨h, h'⟩)
      · exact Or.inr (Or.inl ⟨h, h'⟩)
      · exact Or.inr (Or.inr (Or.inr ⟨h.symm, h'⟩))
    · exact Or.inr (Or.inr (Or.inl h))

/-! ## output -/

/-- **output_spec** — `operator<<` never reads outside the cells and prints the nested form `render`: the last
    coordinate is the outermost level, every level is `(` its sub-levels separated by `,` `)` (so `()` for an
    extent 0), the innermost entries are the cells `v (x, …)` with `x` running fastest — the storage order. -/
theorem output_is_nested_row_major {α : Type} {g : Grid α} {v : Pos → α} (hg : Denotes g v) (sh : α → String) :
    g.output sh = .ok (render (fun p => sh (v p)) g.size.reverse []) :=
  output_spec hg sh

/-! ## interpolation -/

/-- **interpolate_spec** — for a position whose integral part `fl` has every neighbour `fl + {0,1}^N` in range
    (`0 ≤ fl_i`, `fl_i + 1 < size_i`), `interpolate` reads exactly those `2^N` cells (the index arithmetic
    `value_index + (1 << n)` on the `bit_strings` array addresses the right corners, no read outside the cells) and
    combines them coordinate by coordinate, the last coordinate outermost: `multilin`. -/
theorem interpolate_spec {α φ : Type} {g : Grid α} {v : Pos → α} (hg : Denotes g v) (ip : φ → α → α → α)
    (fl : Pos) (fr : List φ) (frf : Nat → φ) (hfr : ∀ k, k < g.size.length → fr[k]? = some (frf k))
    (hfl : InRange (g.size.map (· - 1)) fl) :
    g.interpolate fl fr ip = .ok (multilin v ip fl frf g.size.length []) :=
  interpolate_eq hg ip fl fr frf hfr hfl

/-- `in_range_dim` for any integer type tests exactly `p_i < d_i` in every component (no test against 0: for the
    signed instantiation a negative component passes; the grid's own position type is unsigned, see `inRange_spec`). -/
theorem inRangeDim_spec (d p : Pos) (hl : p.length = d.length) :
    inRangeDim d p = true ↔ ∀ i (h1 : i < p.length) (h2 : i < d.length), p[i] < d[i] := by
  induction d generalizing p with
  | nil => cases p <;> simp_all [inRangeDim]
  | cons e es ih =>
    cases p with
    | nil => simp at hl
    | cons x xs =>
      have := ih xs (by simpa using hl)
      simp only [inRangeDim, List.zip_cons_cons, List.all_cons, Bool.and_eq_true, decide_eq_true_eq] at this ⊢
      rw [this]
      constructor
      · rintro ⟨h0, h⟩ i h1 h2
        cases i with
        | zero => simpa using h0
        | succ i => simpa using h i (by simpa using h1) (by simpa using h2)
      · intro h
        refine ⟨?_, fun i h1 h2 => ?_⟩
        · have := h 0 (by simp) (by simp)
          rwa [List.getElem_cons_zero, List.getElem_cons_zero] at this
        · have := h (i + 1) (by simpa using h1) (by simpa using h2)
          rwa [List.getElem_cons_succ, List.getElem_cons_succ] at this

/-- `in_range` (for an unsigned position: all components ≥ 0) is the in-range predicate. -/
theorem inRange_spec {α : Type} (g : Grid α) {p : Pos} (hl : p.length = g.size.length) (hp : NonNeg p) :
    g.inRange p = true ↔ InRange g.size p :=
  inRangeDim_iff hl hp

/-- **at_optional_iff_in_range**: `at_optional` yields the cell for exactly the in-range positions and
    nothing otherwise; it never faults. -/
theorem atOptional_iff_in_range {α : Type} {g : Grid α} {v : Pos → α} (hg : Denotes g v) {p : Pos}
    (hl : p.length = g.size.length) (hp : NonNeg p) :
    (InRange g.size p → g.atOptional p = .ok (some (v p))) ∧ (¬ InRange g.size p → g.atOptional p = .ok none) := by
  rw [atOptional_of_denotes hg hl hp]
  constructor <;> intro h <;> simp [h]

/-- `get_unsafe` outside the grid's cells is a fault (undefined behaviour in C++), never a value. -/
theorem getUnsafe_oob {α : Type} (g : Grid α) (p : Pos)
    (h : ¬ (0 ≤ offset p g.size ∧ (offset p g.size).toNat < g.cells.length)) : g.getUnsafe p = .error .oob := by
  simp [Grid.getUnsafe, Grid.cellIndex, h, bind, Except.bind]

/-! ## cell-wise helpers -/

/-- **resize_cell**: the result has the new size; its cell at `p` is the old cell if `p` is also a position
    of the old grid and `init p` otherwise. -/
theorem resize_cell {α : Type} {g : Grid α} {v : Pos → α} (hg : Denotes g v) (n : List Int)
    (hne : n ≠ []) (hn : NonNeg n) (hl : n.length = g.size.length) (init : Pos → α) :
    ∃ r, g.resize n init = .ok r ∧ r.size = n ∧
      Denotes r (fun p => if InRange g.size p then v p else init p) :=
  ⟨_, resize_denotes hg n hne hn hl init, rfl, hne, hn, rfl⟩

/-- **map_cell**: same size, cell at `p` is `f` of the source cell at `p`. -/
theorem map_cell {α β : Type} {g : Grid α} {v : Pos → α} (hg : Denotes g v) (f : α → β) :
    ∃ r, g.map f = .ok r ∧ r.size = g.size ∧ Denotes r (fun p => f (v p)) :=
  ⟨_, map_denotes hg f, rfl, hg.1, hg.2.1, rfl⟩

/-- **apply_cell**: all grids of the same size: the result has that size and its cell at `p` is the function
    applied to the cells at `p`. -/
theorem apply_cell {α β : Type} (f : α → List α → β) {g1 : Grid α} {v1 : Pos → α} (h1 : Denotes g1 v1)
    (gs : List (Grid α)) (vs : List (Pos → α)) (h : DenotesAll gs vs) (hs : ∀ g ∈ gs, g.size = g1.size) :
    ∃ r, Grid.apply f g1 gs = .ok r ∧ r.size = g1.size ∧
      Denotes r (fun p => f (v1 p) (vs.map fun v => v p)) :=
  ⟨_, apply_denotes f h1 gs vs h hs, rfl, h1.1, h1.2.1, rfl⟩

/-- `apply` on grids that are not all of the same size: the empty grid. -/
theorem apply_size_mismatch {α β : Type} (f : α → List α → β) (g1 : Grid α) (gs : List (Grid α))
    (hs : ∃ g ∈ gs, g.size ≠ g1.size) :
    Grid.apply f g1 gs = .ok (Grid.empty g1.size.length) ∧ (Grid.empty g1.size.length : Grid β).cells = [] :=
  ⟨apply_mismatch f g1 gs hs, rfl⟩

/-- **fill_cell**: size unchanged, afterwards the cell at every in-range `p` is `f p`
    (every cell is written, none outside). -/
theorem fill_cell {α : Type} (g : Grid α) (hne : g.size ≠ []) (hd : NonNeg g.size)
    (hlen : g.cells.length = (contents g.size).toNat) (f : Pos → α) :
    ∃ r, g.fill f = .ok r ∧ r.size = g.size ∧ Denotes r f :=
  ⟨_, fill_denotes g hne hd hlen f, rfl, hne, hd, rfl⟩

/-- **fillRange_cell**: assigning `f pos` through every reference of a pos-ref range whose box lies inside the
    grid changes exactly the cells of the box: afterwards the cell at `p` is `f p` if `min ≤ p < sup` and the
    old cell otherwise; size unchanged; no write outside the cells. -/
theorem fillRange_cell {α : Type} {g : Grid α} {v : Pos → α} (hg : Denotes g v) {mn sp : Pos}
    (hl : mn.length = sp.length) (hne : mn ≠ []) (hin : ∀ p, InBox mn sp p → InRange g.size p) (f : Pos → α) :
    ∃ r, g.fillRange mn sp f = .ok r ∧ r.size = g.size ∧
      Denotes r (fun p => if InBox mn sp p then f p else v p) :=
  ⟨_, fillRange_denotes hg hl hne hin f, rfl, hg.1, hg.2.1, rfl⟩

/-- **fill_reading_own_cells** — aliasing: a fill function that reads the grid being filled, at a cell `σ p` that is
    the current one or comes later in storage order (a reference to one of the grid's own not yet written cells),
    sees the original value: the result is `h p (v (σ p))` at every `p`, as if all reads happened before all writes.
    (Reads of earlier cells see the new values — the model's `fillDep` is sequential, the correspondence op
    `fillself` exercises first / last / previous / next / current cell.) -/
theorem fill_reading_own_cells {α : Type} {g : Grid α} {v : Pos → α} (hg : Denotes g v) (σ : Pos → Pos)
    (h : Pos → α → α)
    (hσ : ∀ p, InRange g.size p → InRange g.size (σ p) ∧ offset p g.size ≤ offset (σ p) g.size) :
    ∃ r, g.fillDep (fun g' p => (h p) <$> g'.getUnsafe (σ p)) = .ok r ∧ r.size = g.size ∧
      Denotes r (fun p => h p (v (σ p))) := by
  refine ⟨_, fillDep_denotes hg σ h ?_, rfl, hg.1, hg.2.1, rfl⟩
  intro p hp
  obtain ⟨h1, h2⟩ := hσ p hp
  refine ⟨h1, ?_⟩
  rwa [offset_eq_lin p g.size (inRange_length hp).symm, offset_eq_lin (σ p) g.size (inRange_length h1).symm] at h2

/-- iterating a pos-ref range whose box lies inside the grid yields every position of the box with its cell. -/
theorem posRefRange_cells {α : Type} {g : Grid α} {v : Pos → α} (hg : Denotes g v) {mn sp : Pos}
    (hl : mn.length = sp.length) (hne : mn ≠ []) (hin : ∀ p, InBox mn sp p → InRange g.size p) :
    g.posRefRange mn sp = .ok ((box mn sp).map fun p => (p, v p)) :=
  posRefRange_of_denotes hg hl hne hin

/-! ## clamp helpers -/

/-- `clamped_min`: component-wise `max(p_i, 0)`. -/
theorem clampedMin_spec (p : Pos) : clampedMin p = p.map (fun x => if x < 0 then 0 else x) := by
  unfold clampedMin
  apply List.map_congr_left
  intro x _
  by_cases h : x < 0 <;> simp only [h, if_true, if_false] <;> omega

/-- `clamped_sup`: component-wise `min(p_i, size_i)`. -/
theorem clampedSup_spec (p d : List Int) :
    clampedSup p d = List.zipWith (fun x s => if s < x then s else x) p d := by
  unfold clampedSup
  congr 1
  funext x s
  by_cases h : s < x <;> simp only [h, if_true, if_false] <;> omega

/-- `clamped_sup_signed` on a legal size never dereferences an empty optional and clamps every component
    into `[0, size_i]`. -/
theorem clampedSupSigned_spec (p d : List Int) (hd : NonNeg d) :
    clampedSupSigned p d = .ok (List.zipWith (fun x s => if x < 0 then 0 else if s < x then s else x) p d) := by
  rw [clampedSupSigned_eq p d hd]
  congr 1
  apply zipWith_congr_nonNeg _ _ p d hd
  intro x s hs
  by_cases h1 : x < 0 <;> by_cases h2 : s < x <;> simp only [h1, h2, if_true, if_false] <;> omega

/-- a negative size component (impossible for an unsigned dimension) is the empty-optional fault. -/
theorem clampUnsafe_fault (v lo hi : Int) (h : hi < lo) : clampUnsafe v lo hi = .error .emptyDeref := by
  simp [clampUnsafe]; omega

/-- the sub-range obtained from arbitrary signed `a`, `b` through `clamped_min` / `clamped_sup_signed` is
    exactly the part of the requested box `[a, b)` that lies inside the grid — so a pos-ref range over it
    only touches cells of the grid. -/
theorem clamped_subrange (a b d : Pos) (hd : NonNeg d) (h1 : a.length = d.length) (h2 : b.length = d.length) :
    ∃ sp, clampedSupSigned b d = .ok sp ∧ sp.length = d.length ∧
      ∀ p, InBox (clampedMin a) sp p ↔ (InRange d p ∧ InBox a b p) :=
  ⟨_, clampedSupSigned_eq b d hd, by simp [h2], fun p => inBox_clamped a b d p hd h1 h2⟩

/-! ## Non-vacuity: the hypotheses are met by concrete, non-trivial values -/

example : InRange [3, 2] [2, 1] ∧ offset [2, 1] [3, 2] = 5 ∧ contents [3, 2] = 6 := by decide
example : next [2, 0] (zeros [3, 2]) [3, 2] = [0, 1] ∧ next [2, 1] (zeros [3, 2]) [3, 2] = endPos (zeros [3, 2]) [3, 2] := by decide
-- a 3-D signed sub-range with a one-wide dimension
example : posRange [-1, 0, 2] [1, 1, 4] = .ok [[-1, 0, 2], [0, 0, 2], [-1, 0, 3], [0, 0, 3]] := by rfl
-- inverted in the middle coordinate: nothing is visited although the other coordinates are fine
example : posRange [0, 2, 0] [2, 1, 2] = .ok [] ∧ rangeSize [0, 2, 0] [2, 1, 2] = 0 := ⟨by rfl, by decide⟩
-- without the reset to `min` the carry would leave the box: the model's carry really resets
example : next [1, 0] [0, 0] [2, 2] = [0, 1] := by decide
example : Within [1, 0] [3, 2] [3, 2] := by simp [Within]
-- bilinear "interpolation" that only records its arguments: corners (0,0) (1,0) (0,1) (1,1) of a 2 x 2 grid
example : (⟨[2, 2], [1, 2, 3, 4]⟩ : Grid Int).interpolate [0, 0] [10, 20] (fun f a b => f + 100 * a + 10000 * b)
    = .ok (20 + 100 * (10 + 100 * 1 + 10000 * 2) + 10000 * (10 + 100 * 3 + 10000 * 4)) := by decide
-- the guard is needed: at the right edge the "neighbour" x + 1 is the first cell of the next row
-- (the guard `fl_i + 1 < size_i` of `interpolate_spec` is a precondition of the code): in a 2 x 3 grid the cells
-- read for x = 1 are 2,3 and 4,5 — 3 and 5 belong to the rows above; in a 2 x 2 grid the last read is out of bounds
example : (⟨[2, 3], [1, 2, 3, 4, 5, 6]⟩ : Grid Int).interpolate [1, 0] [0, 0] (fun _ a b => 10 * a + b) = .ok 275 ∧
    (⟨[2, 2], [1, 2, 3, 4]⟩ : Grid Int).interpolate [1, 0] [0, 0] (fun _ a b => 10 * a + b) = .error .oob := by decide
-- fill reading the next cell shifts the cells down by one (the last keeps its own); reading the previous cell
-- propagates the first cell through the whole grid: the sequential semantics is observable
example : (⟨[3], [10, 20, 30]⟩ : Grid Int).fillDep (fun g p => g.getUnsafe (match p with | [x] => [min (x + 1) 2] | q => q))
      = .ok ⟨[3], [20, 30, 30]⟩ ∧
    (⟨[3], [10, 20, 30]⟩ : Grid Int).fillDep (fun g p => g.getUnsafe (match p with | [x] => [max (x - 1) 0] | q => q))
      = .ok ⟨[3], [10, 10, 10]⟩ := by decide
-- a 2 x 2 grid and a grid with an empty row dimension
example : (⟨[2, 2], [1, 2, 3, 4]⟩ : Grid Int).output toString = .ok "((1,2),(3,4))" ∧
    (⟨[0, 3], []⟩ : Grid Int).output toString = .ok "((),(),())" ∧ (⟨[3, 0], []⟩ : Grid Int).output toString = .ok "()" := by
  refine ⟨by rfl, by rfl, by rfl⟩
-- static rows: 3 cells per row, 2 rows; the cell at (x, y) = (2, 1) is the last of the second row
example : (Grid.mkRows [1, 2, 3] [[4, 5, 6]]).size = [3, 2] ∧ (Grid.mkRows [1, 2, 3] [[4, 5, 6]]).getUnsafe [2, 1] = .ok 6 := by decide
-- same flattened cells, different shape: not equal, and ordered by size
example : (⟨[2, 3], [1, 2, 3, 4, 5, 6]⟩ : Grid Int).eq ⟨[3, 2], [1, 2, 3, 4, 5, 6]⟩ = .ok false ∧
    (⟨[2, 3], [1, 2, 3, 4, 5, 6]⟩ : Grid Int).lt ⟨[3, 2], [1, 2, 3, 4, 5, 6]⟩ = true := by decide
-- two empty grids of different sizes are different
example : (⟨[0, 3], []⟩ : Grid Int).eq ⟨[3, 0], []⟩ = .ok false := by decide
-- a legal history: move 1 into 0, swap 0 and 2, self-move-assign 2; the moved-from object keeps only its size
example : regRun 1 [⟨(⟨[1], [7]⟩ : Grid Int), false⟩, ⟨⟨[2], [8, 9]⟩, false⟩, ⟨⟨[0], []⟩, false⟩]
      [.moveAssign 0 1, .swapMember 0 2, .moveAssign 2 2]
    = some [⟨⟨[0], []⟩, false⟩, ⟨⟨[2], []⟩, true⟩, ⟨⟨[2], [8, 9]⟩, false⟩] := by decide
-- the literal fold also tests an index whose predecessor did not carry (current position outside the box)
example : nextFold [0, 2, 0] [0, 0, 0] [2, 2, 2] = [1, 0, 1] ∧ next [0, 2, 0] [0, 0, 0] [2, 2, 2] = [1, 0, 1] := by decide
-- 2^32 x 2^32 cells: the 64-bit content wraps to 0, the offset of the last position to 2^64 - 1
example : contentsW 64 [4294967296, 4294967296] = 0 ∧
    offsetW 64 [4294967295, 4294967295] [4294967296, 4294967296] = 18446744073709551615 := by decide
example : NonNeg [3, 0, 2] ∧ contents [3, 0, 2] = 0 := by
  refine ⟨?_, by decide⟩; intro x hx; simp at hx; omega
example : Denotes (⟨[2, 2], [10, 11, 12, 13]⟩ : Grid Int) (fun p => 10 + lin p [2, 2]) := by
  refine ⟨by simp, ?_, by decide⟩; intro x hx; simp at hx; omega

end Fcppt.C08
