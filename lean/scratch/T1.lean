inductive PT where
  | node (id : Nat) (val : Int) (parent : Option Nat) (kids : List PT)
deriving Repr, Inhabited

namespace PT
def id : PT → Nat | node i _ _ _ => i
def kids : PT → List PT | node _ _ _ k => k

mutual
def size : PT → Nat
  | node _ _ _ ks => 1 + sizeL ks
def sizeL : List PT → Nat
  | [] => 0
  | k :: ks => size k + sizeL ks
end

mutual
def copyT (n : Nat) : PT → PT
  | node _ v _ ks => node n v none (copyL (n+1) (some n) ks)
def copyL (n : Nat) (p : Option Nat) : List PT → List PT
  | [] => []
  | k :: ks => (match copyT n k with | node i v _ c => node i v p c) :: copyL (n + size k) p ks
end

def cnt (i : Nat) : PT → Nat
  | node j _ _ ks => (if i = j then 1 else 0) + (ks.map (cnt i)).sum

#eval copyT 10 (node 0 1 none [node 1 2 none [node 5 5 none []], node 2 3 none []])
#eval cnt 1 (node 0 1 none [node 1 2 none [node 5 5 none []], node 2 3 none []])
#print axioms cnt
theorem cnt_eq (i j v p ks) : cnt i (node j v p ks) = (if i = j then 1 else 0) + (ks.map (cnt i)).sum := by
  simp [cnt]
theorem size_eq (j v p ks) : size (node j v p ks) = 1 + sizeL ks := by simp [size]

theorem ind {P : PT → Prop} (h : ∀ i v p ks, (∀ k ∈ ks, P k) → P (node i v p ks)) : ∀ t, P t
  | node i v p ks => h i v p ks (fun k hk => by
      have := List.sizeOf_lt_of_mem hk
      exact ind h k)
termination_by t => sizeOf t
decreasing_by simp; omega
end PT
