"""C12 — the parse stream reports true line/column and rewinds exactly."""
from vlib.runner import Batch

ID = "C12"
LEAN_PROPS = ["FcpptProofs.Props.C12"]
HARNESS = {"src": "harness/c12.cpp", "repo_srcs": ["libs/core/src/insert_extract_locale.cpp"]}
TIE = ("hand-written model (FcpptModel/Model/C12.lean: libstdc++ istream state machine + fcppt::parse::detail::stream + "
       "character-level parsers) + differential correspondence against the real templates over std::basic_istringstream<char|wchar_t> "
       "and a failure-injecting streambuf; the istream state bits AND the stored location (stream::location_, read through a member "
       "pointer) are compared after every operation; the backtracking combinators (alternative, optional, repetition, repetition_plus, "
       "not_, fatal, sequence, basic_string, skipper repetition/sequence/space) are built at run time from the real templates and run "
       "over a basic_stream wrapper that records every get_char/get_position/set_position call")
RULE = ("exh K A|B L PREFIX: digest over all texts of length L over {a,\\n,space,tab} with that prefix of a fixed history "
        "(A: read through saving every position, probe end of input, rewind to every saved position; B: every ordered pair of "
        "rewinds and every rewind from the end-of-input state), each observation = value + eof/fail/bad bits; exhaustive for "
        "L <= 9 (quick) / 12 (thorough) with A, L <= 7 / 8 with B, for char and wchar_t. seqs K TEXT FA M: digest over ALL op "
        "sequences of length <= M over {get, pos, set j (j < #pos so far)} on TEXT (all texts of length <= 4 with M=6 quick; "
        "<= 5 with M=7 and <= 3 with M=8 thorough), also with the failure-injecting buffer (FA = read budget). History batches: "
        "seeded long histories on random texts up to length 300 (newline-heavy, all byte values / wide code points), with "
        "parser calls, failing streams and fabricated positions. perr: literal/char_set/char_ and the skippers after every "
        "prefix of every text of length <= 3 (thorough: 4) — only the Line l:c numbers of the message are compared. "
        "gx K L FA SK GR: digest over all texts of length L, started after k = 0..L+1 reads, of phrase_parse(GR, stream, SK) over "
        "the recording stream: message skeleton + fatal bit, every basic_stream call with answer, state bits, stored location (and the "
        "argument of set_position), then pos, get; 414 systematic grammars x 3-8 skippers, L <= 3..5 quick / 5..6 thorough, failing "
        "buffers at every budget. ge: phrase_parse_stream / parse_stream / grammar_parse_stream on istreams read from before, plain "
        "and failing at every budget. poseq/posout: == on all ordered pairs of 24 positions (same object included), << as exact text. "
        "gp: random grammars on random texts after random histories. "
        "weight(exh) = number of texts, weight(seqs) = number of sequences, weight(gx) = texts x starts; an op is non-trivial unless "
        "it is reset/open.")
ASSUMPTIONS = [
    "std::basic_istream<Ch> get/tellg/seekg/clear/sentry and basic_stringbuf seekoff/seekpos behave as modelled in IStream "
    "(libstdc++ 12; validated on every run: rdstate() is part of every compared observation)",
    "a character is its code point; '\\n' is 10 for char and wchar_t; wchar_t values stay below WEOF",
    "line and column counters (std::uint64_t) do not overflow: texts shorter than 2^64",
    "the failure-injecting streambuf of the harness (throws from uflow after FA delivered characters, never at end of text) "
    "is the model of 'a failing underlying stream'; other ways for a streambuf to fail (seek failure on a non-seekable "
    "stream) are exercised only through fabricated positions (setraw)",
    "positions passed to set_position in the theorems are those returned by get_position of the same stream (the documented "
    "precondition); fabricated positions are correspondence-only",
]
TRUSTED = [
    "harness/c12.cpp + harness/c12_grammar.cpp (incl. the streambuf, the recording basic_stream wrapper, the type-erased skipper "
    "nodes, the reduction of messages to skeletons / 'Line l:c' numbers, the member-pointer read of stream::location_) and the "
    "line/digest protocol",
    "g++ 12 + ASan/UBSan as witness for memory safety of the instantiations",
]

ALPHA = [97, 10, 32, 9]


def txt(codes):
    return ",".join(str(c) for c in codes) if codes else "-"


def all_texts(n):
    if n == 0:
        return [[]]
    return [[c] + r for c in ALPHA for r in all_texts(n - 1)]


def all_seqs(m, k=0, acc=()):
    """same enumeration as Drv.allSeqs / harness all_seqs (order is irrelevant for refine)."""
    out = [list(acc)]
    if m == 0:
        return out
    out += all_seqs(m - 1, k, acc + ("g",))
    out += all_seqs(m - 1, k + 1, acc + ("p",))
    for j in range(k):
        out += all_seqs(m - 1, k, acc + (f"s{j}",))
    return out


_NSEQ = {}


def nseqs(m):
    if m not in _NSEQ:
        _NSEQ[m] = len(all_seqs(m))
    return _NSEQ[m]


def nontrivial(op, result):
    t = op.split()
    return bool(t) and t[0] not in ("reset", "open") and result not in ("bad-op", "no-stream")


def weight(op):
    t = op.split()
    if t[0] == "exh":
        pre = 0 if t[4] == "-" else len(t[4].split(","))
        return 4 ** (int(t[3]) - pre)
    if t[0] == "seqs":
        return nseqs(int(t[4]))
    if t[0] == "gx":
        return 4 ** int(t[2]) * (int(t[2]) + 2)
    return 1


def refine(op):
    t = op.split()
    if t[0] == "exh":
        pre = [] if t[4] == "-" else [int(x) for x in t[4].split(",")]
        return [f"walk {t[1]} {t[2]} {txt(pre + s)}" for s in all_texts(int(t[3]) - len(pre))]
    if t[0] == "seqs":
        return [f"hist {t[1]} {t[2]} {t[3]} {','.join(s) if s else '-'}" for s in all_seqs(int(t[4]))]
    if t[0] == "gx":
        L = int(t[2])
        return [f"gp {t[1]} {txt(x)} {t[3]} {','.join(['g'] * k) if k else '-'} {t[4]} {t[5]}"
                for x in all_texts(L) for k in range(L + 2)]
    if t[0] == "gp" and t[4] != "-":
        # the same parse with shorter prefix histories first
        o = t[4].split(",")
        return [f"gp {t[1]} {t[2]} {t[3]} {','.join(o[:k]) if k else '-'} {t[5]} {t[6]}" for k in range(len(o))]
    if t[0] == "walk":
        n = 0 if t[3] == "-" else len(t[3].split(","))
        return [f"hist {t[1]} {t[3]} - {','.join(script_ops(t[2], n))}"]
    if t[0] == "hist" and t[4] != "-":
        # shortest failing prefix first (not for the very long walks: one variant per prefix would be quadratic)
        o = t[4].split(",")
        if len(o) > 400:
            return None
        return [f"hist {t[1]} {t[2]} {t[3]} {','.join(o[:k])}" for k in range(1, len(o))]
    return None


def script_ops(sc, n):
    """the fixed histories of Drv.scriptA / scriptB (used only to localise a differing digest)"""
    o = ["p"] + ["g", "p"] * n
    if sc == "A":
        o += ["g", "g", "p", "g"]
        for k in range(n + 1):
            o += [f"s{n - k}", "g", "p", "g"]
        o += ["s0", f"s{n}", "g", f"s{n // 2}", "p", "g", f"s{n + 1}", "p"]
    else:
        for a in range(n + 1):
            for b in range(n + 1):
                o += [f"s{a}", "g", f"s{b}", "p", "g"]
        for b in range(n + 1):
            o += [f"s{n}", "g", f"s{b}", "g", "p"]
    return o


# ------------------------------------------------------------------ generators

def exh_ops(kind, script, lengths):
    ops = []
    for L in lengths:
        plen = max(0, L - (5 if script == "A" else 3))
        for pre in all_texts(plen):
            ops.append(f"exh {kind} {script} {L} {txt(pre)}")
    return ops


def rand_text(r, kind, maxlen):
    n = r.choice([0, 1, 2, 3, 5, 8, 13, 21, 34, 55, 89, 144, 233, 300])
    n = min(n, maxlen)
    n = r.range(max(0, n - 3), n)
    style = r.below(4)
    out = []
    for _ in range(n):
        q = r.below(100)
        if style == 0:      # newline heavy
            c = 10 if q < 40 else r.choice(ALPHA)
        elif style == 1:    # long lines
            c = 10 if q < 4 else r.choice([97, 32, 9, 98, 122])
        elif style == 2:    # the four letters uniformly
            c = r.choice(ALPHA)
        else:               # anything the character type can hold
            if q < 20:
                c = 10
            elif q < 35:
                c = r.choice([0, 13, 11, 12, 255, 127, 128, 1])
            elif kind == "w" and q < 60:
                c = r.choice([256, 0x263A, 0x2028, 0x85, 0xFFFF, 0x10000, 0x10FFFF, 0x0A0A, 0x100A])
            else:
                c = r.below(256)
        out.append(c)
    return out


def history_case(r, kind, allow_fail, allow_raw, maxlen, nops):
    """one case: reset, open, ops.  The generator runs the abstract stream (index, read budget, saved indices) to aim
    parser arguments and slot numbers, to avoid sitting at the end of input, and to stop soon after the stream died."""
    t = rand_text(r, kind, maxlen)
    n = len(t)
    fa = None
    if allow_fail and r.chance(1, 2):
        fa = r.choice([0, 1, 2, 3, max(0, n - 1), n, n + 5, r.below(n + 2), r.below(3 * n + 2)])
    ops = ["reset", f"open {kind} {txt(t)} {'-' if fa is None else fa}"]
    st = {"i": 0, "reads": 0, "dead": False, "after": 0}
    saved = []

    def read():
        # abstract effect of consuming one character
        if st["dead"]:
            return
        if st["i"] < n:
            if fa is not None and st["reads"] >= fa:
                st["dead"] = True
            else:
                st["i"] += 1
                st["reads"] += 1

    for _ in range(nops):
        if st["dead"]:
            st["after"] += 1
            if st["after"] > 3:
                break
        q = r.below(100)
        at_end = st["i"] >= n
        if at_end and saved and r.chance(2, 3):
            q = 60 + r.below(24)          # rewind rather than read at the end of input again
        if q < 40:
            run = r.choice([1, 1, 1, 2, 3, 5, 8, n + 2])
            for _ in range(min(run, n + 3)):
                ops.append("get")
                read()
        elif q < 58 or (q < 84 and not saved and not r.chance(1, 10)):
            ops.append("pos")
            if not st["dead"]:
                saved.append(st["i"])
        elif q < 84:
            if saved and not r.chance(1, 30):
                j = r.below(len(saved)) if r.chance(2, 3) else r.choice([0, len(saved) - 1])
                ops.append(f"set {j}")
                if not st["dead"]:
                    st["i"] = saved[j]
            else:
                ops.append(f"set {len(saved) + r.below(3)}")
        elif q >= 90 and q < 94 and not st["dead"]:
            # a whole grammar in the middle of the history; the generator only needs the index afterwards, and
            # takes it from a grammar whose consumption it can predict: repetition of a character set
            cs = sorted(set(r.choice(ALPHA + [98]) for _ in range(r.range(1, 3))))
            g = r.choice(["rep.cset:{c}", "seq.rep.cset:{c}.opt.lit:98", "alt.seq.rep.cset:{c}.lit:98.rep.cset:{c}",
                          "seq.rep.cset:{c}.not.lit:98"]).format(c=txt(cs))
            ops.append(f"gpar eps {g}")
            while st["i"] < n and t[st["i"]] in cs and not st["dead"]:
                read()
            if fa is not None and st["i"] < n and st["reads"] >= fa:
                st["dead"] = True
        elif q < 94 or not allow_raw:
            p = r.choice(["lit", "cset", "slit", "scset", "char"])
            cur = t[st["i"]] if st["i"] < n else r.choice(ALPHA)
            if p == "char":
                ops.append("char -")
            elif p in ("lit", "slit"):
                c = cur if r.chance(1, 2) else r.choice(ALPHA + [98])
                ops.append(f"{p} {c}")
            else:
                cs = sorted(set([r.choice(ALPHA + [98]) for _ in range(r.range(0, 3))] + ([cur] if r.chance(1, 2) else [])))
                ops.append(f"{p} {txt(cs)}")
            read()
        else:
            off = r.choice([-1, 0, n, n + 1, n + 7, r.below(n + 1), -5])
            if r.chance(1, 2):
                ops.append(f"setraw {off} -")
            else:
                ops.append(f"setraw {off} {r.range(1, 9)} {r.range(1, 9)}")
            if 0 <= off <= n and not st["dead"]:
                st["i"] = off
    return ops


def perr_ops(kind, maxlen, fa_list):
    ops = []
    for L in range(maxlen + 1):
        for t in all_texts(L):
            for skip in range(L + 2):
                pre = ",".join(["g"] * skip) if skip else "-"
                for fa in fa_list:
                    for p, args in (("lit", ["97", "10"]), ("slit", ["10", "32"]), ("cset", ["97,9", "10", "-"]),
                                    ("scset", ["32,10", "97"]), ("char", ["-"])):
                        for a in args:
                            ops.append(f"perr {kind} {txt(t)} {fa} {pre} {p} {a}")
    return ops


# ------------------------------------------------------------------ grammars (clients of get/set_position)

G_LEAVES = ["lit:97", "lit:10", "cset:32,9", "any", "str:97,10", "str:10,97,97"]
G_SMALL = ["lit:97", "lit:10", "any"]
G_UNARY = ["opt", "rep", "plus", "not", "fatal"]
G_BINARY = ["seq", "alt"]
SKIPPERS = ["eps", "rep.cset:32,9", "rep.lit:10"]
# the library's own skipper::space (repetition over a concrete char_set skipper: space, newline, tab)
SKIPPER_SPACE = "space"
# skippers that can fail, or whose repetition body fails after having consumed
SKIPPERS_X = ["lit:32", "rep.seq.lit:32.lit:9", "seq.rep.lit:32.rep.lit:10", "cset:-"]


def g_consumes(toks, i=0):
    """(consumes, next index) of the prefix-notation grammar starting at toks[i]"""
    n = toks[i].split(":")[0]
    if n in ("any", "lit", "cset", "k2"):
        return True, i + 1
    if n == "k1":
        return False, i + 1
    if n == "str":
        return toks[i] != "str:-", i + 1
    if n in ("seq", "alt"):
        a, j = g_consumes(toks, i + 1)
        b, j = g_consumes(toks, j)
        return (a or b) if n == "seq" else (a and b), j
    a, j = g_consumes(toks, i + 1)
    return (a if n in ("plus", "fatal") else False), j


def g_wf(g):
    toks = g.split(".")
    for i, t in enumerate(toks):
        if t in ("rep", "plus") and not g_consumes(toks, i + 1)[0]:
            return False
    return True


def grammar_sets():
    """(core, wide): systematic grammars.  core: every combinator over every leaf, every binary pair of leaves, the
    hand-picked ones that need a specific shape; wide: all terms of depth 3 over the small leaf set."""
    core = []
    core += [f"{u}.{l}" for u in G_UNARY for l in G_LEAVES]
    core += [f"{b}.{l}.{r}" for b in G_BINARY for l in G_SMALL + ["str:97,10"] for r in G_SMALL + ["str:97,10"]]
    core += [
        # left alternative fails after consuming across a newline / at the end of input; both fail (two locations)
        "alt.seq.lit:97.seq.lit:10.lit:97.seq.lit:97.lit:10",
        "alt.seq.lit:97.lit:97.alt.seq.lit:97.lit:10.lit:97",
        "alt.fatal.lit:97.lit:10", "alt.lit:97.fatal.lit:10", "alt.seq.lit:97.fatal.lit:97.any",
        "alt.str:97,10,97.str:97,10", "alt.str:97,10.str:97",
        # repetition whose body fails half way; the trailing skipper is consumed before the element fails
        "rep.seq.lit:97.lit:10", "rep.seq.lit:97.opt.lit:10", "rep.alt.seq.lit:97.lit:97.lit:10",
        "rep.seq.lit:97.rep.lit:10", "rep.seq.lit:97.fatal.lit:10", "plus.seq.any.not.lit:10",
        "rep.seq.not.lit:10.any", "seq.rep.lit:97.lit:10", "seq.rep.cset:97,10.any",
        # look-ahead
        "not.not.lit:97", "seq.not.lit:10.any", "seq.not.seq.lit:97.lit:10.any", "not.seq.any.seq.any.any",
        "not.rep.any", "not.fatal.lit:97", "opt.seq.lit:97.seq.lit:10.lit:97", "opt.fatal.seq.lit:97.lit:10",
        "seq.opt.lit:97.seq.opt.lit:10.opt.lit:97", "opt.opt.lit:97", "opt.rep.lit:10",
        "seq.opt.seq.lit:97.lit:97.seq.lit:97.lit:10",
        "rep.rep.lit:97" if False else "rep.plus.lit:97", "plus.plus.lit:10",
        "alt.not.any.seq.any.not.any", "seq.rep.any.not.any", "str:-", "seq.str:-.lit:97", "alt.str:-.lit:97",
        "cset:-", "cset:97,10,32,9",
        # fixed grammars whose children are held by value (k1) / by fcppt::unique_ptr (k2), not by reference
        "k1", "k2", "alt.k2.k1", "rep.k2", "not.k1",
    ]
    wide = []
    for u in G_UNARY:
        for b in G_BINARY:
            for l in G_SMALL:
                for r in G_SMALL:
                    wide.append(f"{u}.{b}.{l}.{r}")
    for b in G_BINARY:
        for u in G_UNARY:
            for l in G_SMALL:
                for r in G_SMALL:
                    wide.append(f"{b}.{u}.{l}.{r}")
                    wide.append(f"{b}.{l}.{u}.{r}")
    for u in G_UNARY:
        for v in G_UNARY:
            for l in G_SMALL:
                wide.append(f"{u}.{v}.{l}")
    seen = set()
    out = ([], [])
    for k, gs in enumerate((core, wide)):
        for g in gs:
            if g not in seen and g_wf(g):
                seen.add(g)
                out[k].append(g)
    return out


def rand_grammar(r, depth):
    q = r.below(100)
    if depth == 0 or q < 25:
        k = r.below(8)
        if k < 3:
            return f"lit:{r.choice([97, 10, 32, 98])}"
        if k == 3:
            return "any"
        if k < 6:
            return "cset:" + txt(sorted(set(r.choice(ALPHA + [98]) for _ in range(r.range(0, 3)))))
        return "str:" + txt([r.choice([97, 10, 97, 32]) for _ in range(r.range(0, 3))])
    if q < 60:
        return f"{r.choice(G_BINARY)}.{rand_grammar(r, depth - 1)}.{rand_grammar(r, depth - 1)}"
    u = r.choice(G_UNARY)
    for _ in range(20):
        g = rand_grammar(r, depth - 1)
        if u not in ("rep", "plus") or g_consumes(g.split("."))[0]:
            return f"{u}.{g}"
    return f"{u}.any"


def rand_skipper(r):
    return r.choice(SKIPPERS + SKIPPERS + SKIPPERS_X + ["rep.cset:32,9,10", "rep.lit:32", SKIPPER_SPACE])


def gx_ops(kind, grammars, skippers, lengths, fa="-"):
    return [f"gx {kind} {L} {fa} {sk} {g}" for g in grammars for sk in skippers for L in lengths]


def batches(rng, tier):
    thorough = tier == "thorough"
    # 1. exhaustive texts, fixed histories
    la = range(0, 13) if thorough else range(0, 10)
    lb = range(0, 9) if thorough else range(0, 8)
    for kind in ("c", "w"):
        yield Batch(f"exh-A-{kind}", exh_ops(kind, "A", la), exhaustive=True,
                    note=f"all texts over {{a,\\n,space,tab}} up to length {la[-1]}, script A (linear walk, end-of-input probes, rewind to every position)")
        yield Batch(f"exh-B-{kind}", exh_ops(kind, "B", lb), exhaustive=True,
                    note=f"all texts up to length {lb[-1]}, script B (all ordered pairs of rewinds, rewinds from the end-of-input state)")
    # 2. all op sequences on small texts
    for kind in ("c", "w"):
        ops = []
        if thorough:
            for L in range(0, 6):
                ops += [f"seqs {kind} {txt(t)} - 7" for t in all_texts(L)]
            for L in range(0, 4):
                ops += [f"seqs {kind} {txt(t)} - 8" for t in all_texts(L)]
        else:
            for L in range(0, 5):
                ops += [f"seqs {kind} {txt(t)} - 6" for t in all_texts(L)]
        # failing stream: every budget up to the text length
        for L in range(0, 4 if thorough else 3):
            for t in all_texts(L):
                for fa in range(0, L + 1):
                    ops.append(f"seqs {kind} {txt(t)} {fa} {7 if thorough else 6}")
        yield Batch(f"seqs-{kind}", ops, exhaustive=True,
                    note="all sequences of get/pos/set j up to the given length on all small texts; plain and failing buffers")
    # 3. error location of literal / char_set / char_ and the skippers after every prefix of every small text
    for kind in ("c", "w"):
        ops = perr_ops(kind, 4 if thorough else 3, ["-"]) + perr_ops(kind, 2, ["0", "1"])
        yield Batch(f"perr-{kind}", ops, exhaustive=True,
                    note="parsers/skippers at every index of every small text: success, EOF, Expected with Line l:c, failing stream")
    # 3b. characters that a truncating or sign-confused newline test would mistake for '\n' (and the extremes of the types)
    ops = []
    for c in [0x10A, 0x100A, 0x0A0A, 0x1000A, 0x8A, 0x2028, 0x85, 0x10FFFF, 0xFFFF, 0xFF, 0x0D, 0x0]:
        for t in ([c], [c, 97], [97, c, 10, c]):
            ops.append(f"hist w {txt(t)} - g,p,g,p,g,p,s1,g,p,s0,p")
            ops.append(f"perr w {txt(t)} - g lit 97")
            ops.append(f"gp w {txt(t)} - - rep.lit:{c} rep.alt.seq.lit:10.lit:{c}.seq.lit:97.not.lit:10")
            ops.append(f"gp w {txt(t + [10, c, c])} - g,p eps alt.str:{c},10.str:{c}")
            ops.append(f"gp w {txt(t + [10, c, c])} - g,p eps seq.opt.lit:10.rep.cset:{c},97")
            ops.append(f"gp w {txt(t + [10, c, c])} - g,p rep.lit:10 alt.str:{c},10.str:{c}")
    for c in [0x8A, 0xFF, 0x0D, 0x0, 0x0B, 0x0C, 0x7F, 0x80]:
        for t in ([c], [c, 97], [97, c, 10, c]):
            ops.append(f"hist c {txt(t)} - g,p,g,p,g,p,s1,g,p,s0,p")
            ops.append(f"perr c {txt(t)} - g lit 97")
    # 3b'. counters beyond one byte: a line of 600 characters, 300 lines, and both after rewinds
    long_a = [97] * 600
    many_nl = [10] * 300
    mixed = [97] * 299 + [10] + [97] * 400 + [10] + [97] * 10
    for kind in ("c", "w"):
        for t in (long_a, many_nl, mixed):
            n = len(t)
            walk = ["p"] + ["g"] * 255 + ["p", "g", "p", "g", "p"] + ["g"] * (n - 257) + ["p", "g", "g", "p", "s1", "p", "g", "p", "s4", "g", "p", "s0", "p"]
            ops.append(f"hist {kind} {txt(t)} - {','.join(walk)}")
            ops.append(f"perr {kind} {txt(t + [98])} - {','.join(['g'] * n)} lit 97")
            ops.append(f"gp {kind} {txt(t + [98])} - - eps seq.rep.cset:97,10.lit:97")
    # 3b''. counters beyond 16 bits: one line of 66000 characters (a column type narrower than the offset wraps at 65536) and 66000 lines
    long_ops = []
    for kind, t in (("c", [97] * 66000 + [10, 98]), ("w", [97] * 66000 + [10, 98]), ("c", [10] * 66000 + [98])):
        n = len(t)
        first = 65533
        walk = ["g"] * first + ["p", "g", "p", "g", "p", "g", "p", "g", "p"] + ["g"] * (n - first - 4) + ["p", "s2", "p", "g", "p", "s5", "g", "p"]
        long_ops.append(f"hist {kind} {txt(t)} - {','.join(walk)}")
    yield Batch("very-long-line", long_ops, note="a line of 66000 characters (char and wchar_t) and 66000 lines: line / column counters beyond 16 bits, with rewinds")
    yield Batch("special-chars", ops, note="newline look-alikes (low byte 0x0A in a wide character, CR, NEL, U+2028), 0, 0xFF, U+10FFFF")
    # 3c. the clients of get_position / set_position: every combinator, every basic_stream call compared
    core, wide = grammar_sets()
    for kind in ("c", "w"):
        ops = gx_ops(kind, core + wide, SKIPPERS, range(0, 6 if thorough else 4))
        ops += gx_ops(kind, core, SKIPPERS_X + [SKIPPER_SPACE], range(0, 5 if thorough else 4))
        ops += gx_ops(kind, core, SKIPPERS[:2], [6] if thorough else [])
        if kind == "c" or thorough:
            ops += gx_ops(kind, core, SKIPPERS, [4] if not thorough else [])
            ops += gx_ops(kind, core[:60] if not thorough else core, SKIPPERS[:2], [5] if not thorough else [])
        # failing buffers: every budget up to the text length
        for fa in range(0, 4 if thorough else 3):
            ops += gx_ops(kind, core, SKIPPERS[:2], range(fa, 4 if thorough else 3), fa=str(fa))
        yield Batch(f"gram-{kind}", ops, exhaustive=True,
                    note="alternative/optional/repetition/plus/not/fatal/sequence/string over every leaf and every pair, "
                         "skipper repetitions; all texts, started at every index and after a failed read at the end; "
                         "every get_char/get_position/set_position the combinators issue is compared with state bits and location")
        # entry points on an istream that was read from before
        ops = []
        for g in core[::4]:
            for L in range(0, 4 if thorough else 3):
                for t in all_texts(L):
                    for n in range(0, L + 2):
                        ops.append(f"ge {kind} p {txt(t)} - {n} rep.lit:32 {g}")
                        ops.append(f"ge {kind} g {txt(t)} - {n} rep.cset:32,9 {g}")
                        ops.append(f"ge {kind} e {txt(t)} - {n} eps {g}")
                    # failing buffers: every budget, with and without a direct read before
                    for fa in range(0, L + 1):
                        for n in (0, 1):
                            ops.append(f"ge {kind} p {txt(t)} {fa} {n} eps {g}")
                            ops.append(f"ge {kind} g {txt(t)} {fa} {n} rep.cset:32,9 {g}")
        yield Batch(f"entry-{kind}", ops, exhaustive=True,
                    note="phrase_parse_stream / parse_stream / grammar_parse_stream on small texts after n direct reads")
    # 3d. position / location values: == on all ordered pairs (same object included), <<
    vals = [f"{o}@{l}" for o in (0, 1, 2, 10) for l in ("-", "1:1", "1:2", "2:1", "2:2", "12:345")]
    ops = []
    for kind in ("c", "w"):
        ops += [f"poseq {kind} {a} {b}" for a in vals for b in vals]
        ops += [f"posout {kind} {a}" for a in vals]
    yield Batch("pos-values", ops, exhaustive=True,
                note="operator== of position and location on all ordered pairs of a small set, operator<< of both")
    # 3e. random grammars on random texts after random histories
    r = rng.fork("gram")
    for kind in ("c", "w"):
        ops = []
        for _ in range(12000 if thorough else 2500):
            t = rand_text(r, kind, 12)
            fa = "-" if r.chance(3, 4) else str(r.below(len(t) + 2))
            pre = []
            npos = 0
            for _ in range(r.range(0, 6)):
                q = r.below(10)
                if q < 5:
                    pre.append("g")
                elif q < 8 or npos == 0:
                    pre.append("p")
                    npos += 1
                else:
                    pre.append(f"s{r.below(npos)}")
            if r.chance(1, 4):
                pre += ["g"] * (len(t) + 1)
            ops.append(f"gp {kind} {txt(t)} {fa} {','.join(pre) if pre else '-'} {rand_skipper(r)} {rand_grammar(r, r.range(1, 4))}")
        yield Batch(f"gram-rand-{kind}", ops, note="random well-formed grammars / skippers on random texts after random histories")
    # 4. seeded long histories
    r = rng.fork("hist")
    ncase = 4000 if thorough else 800
    for kind in ("c", "w"):
        ops = []
        for _ in range(ncase):
            ops += history_case(r, kind, allow_fail=False, allow_raw=False, maxlen=300, nops=r.range(5, 60))
        yield Batch(f"hist-plain-{kind}", ops, kind="history",
                    note="random texts up to length 300, histories of get/pos/set/parser calls within the property's guard")
        ops = []
        for _ in range(ncase // 2):
            ops += history_case(r, kind, allow_fail=True, allow_raw=True, maxlen=40, nops=r.range(5, 40))
        yield Batch(f"hist-fail-raw-{kind}", ops, kind="history",
                    note="failure-injecting buffer (random budget) and fabricated positions (seek failure, absent location)")


MANIFEST = {
    "level_text": ("Machine-checked proof (Lean 4) over an executable model that mirrors libstdc++'s istream state machine "
                   "(sentry, get, tellg, seekg, clear; eof/fail/bad bits) and fcppt::parse::detail::stream on top of it: for every "
                   "text, every history of get_char/get_position/set_position(saved) of any length and every read budget of a "
                   "failing stream, the observations equal those of the abstract index stream of the documentation (run_refines); "
                   "the stored location is always (line i, column i) of the current index (location_inv, column_doc); restoring a "
                   "saved position reproduces the exact stream state in which it was taken, hence all later reads and positions "
                   "(rewind_exact, rewind_exact_hist); end of input and a bad stream never yield a character (eof_never_char, "
                   "bad_never_char, failing_read_never_char, parse_bad_fails); literal/char_set errors carry the location after "
                   "the offending character (expected_location). Every client of get_position/set_position (alternative, optional, "
                   "repetition, repetition_plus, not_, fatal, sequence, basic_string, skipper repetition/sequence) refines the PEG "
                   "semantics on a bare index call by call, from every state reached by reads, saves, rewinds and earlier parses "
                   "(combinators_refine_peg), returns for every well-formed grammar (wellformed_returns), backtracks to exactly the "
                   "saved stream state (not_/optional_restores_exactly, saved_position_survives_parse) and keeps the stored location "
                   "true after every single call on every stream, failing ones included (combinators_keep_location, "
                   "location_inv_with_parses). Tied to the code by a differential correspondence that is "
                   "exhaustive over all texts up to length 12 over {a,\\n,space,tab} (thorough; 9 quick) and over all op sequences "
                   "up to length 7/8 on small texts, for char and wchar_t, plus seeded long histories; the combinators by 414 "
                   "systematic grammars on all texts up to length 3-5 (5-6 thorough) from every start index, every basic_stream call "
                   "compared."),
    "level_note": ("Trusted: Lean kernel + propext/Quot.sound; the istream sub-model is an assumption about libstdc++ validated by "
                   "comparing rdstate() after every operation; fidelity of the hand-written model outside the exercised inputs; the "
                   "harness (its streambuf, message-number extraction) and the digest protocol. No sorry/axiom/native_decide."),
    "technique": "Lean 4 proof (simulation/refinement + invariants) over hand-written executable model + exhaustive differential correspondence (ASan/UBSan harness)",
    "design_ref": "DESIGN.md §5 C12",
}
