"""C12 — parse stream reports true line/column and rewinds exactly."""
from vlib.runner import Batch

ID = "C12"
LEAN_PROPS = ["FcpptProofs.Props.C12"]
HARNESS = {"src": "harness/c12.cpp", "repo_srcs": ["libs/core/src/insert_extract_locale.cpp"]}
TIE = "hand-written model (FcpptModel/Model/C12.lean) + differential correspondence against the real stream and parsers"
RULE = "tbd"
ASSUMPTIONS = []
TRUSTED = []


def batches(rng, tier):
    ops = ["reset", "open c 97,10,98 -", "pos", "get", "get", "pos", "get", "get", "pos", "set 1", "get", "pos"]
    yield Batch("smoke", ops, kind="history")

MANIFEST = {"level_text": "", "level_note": "", "technique": "", "design_ref": "DESIGN.md §5 C12"}
