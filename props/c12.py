"""C12 — the parse stream reports true line/column and rewinds exactly."""
from vlib.runner import Batch

ID = "C12"
LEAN_PROPS = ["FcpptProofs.Props.C12"]
HARNESS = {"src": "harness/c12.cpp", "repo_srcs": ["libs/core/src/insert_extract_locale.cpp"]}
TIE = ("hand-written model (FcpptModel/Model/C12.lean: libstdc++ istream state machine + fcppt::parse::detail::stream + "
       "character-level parsers) + differential correspondence against the real templates over std::basic_istringstream<char|wchar_t> "
       "and a failure-injecting streambuf; the istream state bits are compared after every operation")
RULE = ("exh K A|B L PREFIX: digest over all texts of length L over {a,\\n,space,tab} with that prefix of a fixed history "
        "(A: read through saving every position, probe end of input, rewind to every saved position; B: every ordered pair of "
        "rewinds and every rewind from the end-of-input state), each observation = value + eof/fail/bad bits; exhaustive for "
        "L <= 9 (quick) / 12 (thorough) with A, L <= 7 / 8 with B, for char and wchar_t. seqs K TEXT FA M: digest over ALL op "
        "sequences of length <= M over {get, pos, set j (j < #pos so far)} on TEXT (all texts of length <= 4 with M=6 quick; "
        "<= 5 with M=7 and <= 3 with M=8 thorough), also with the failure-injecting buffer (FA = read budget). History batches: "
        "seeded long histories on random texts up to length 300 (newline-heavy, all byte values / wide code points), with "
        "parser calls, failing streams and fabricated positions. perr: literal/char_set/char_ and the skippers after every "
        "prefix of every text of length <= 3 (thorough: 4) — only the Line l:c numbers of the message are compared. "
        "weight(exh) = number of texts, weight(seqs) = number of sequences; an op is non-trivial unless it is reset/open.")
ASSUMPTIONS = [
    "std::basic_istream<Ch> get/tellg/seekg/clear/sentry and basic_stringbuf seekoff/seekpos behave as modelled in IStream "
    "(libstdc++ 12; validated on every run: rdstate() is part of every compared observation)",
    "a character is its code point; '\\n' is 10 for char and wchar_t; wchar_t values stay below WEOF",
    "line and column counters (std::uint64_t) do not overflow: texts shorter than 2^64",
    "the failure-injecting streambuf of the harness (throws from uflow after FA delivered characters, never at end of text) "
    "is the model of 'a failing underlying stream'; other ways for a streambuf to fail (seek failure on a non-seekable "
    "stream) are exercised only through fabricated positions (setraw)",
    "positions passed to set_position in the theorems are those returned by get_position of the same stream (the documented "
    "precondition); fabricated positions are correspondence-only",
]
TRUSTED = [
    "harness/c12.cpp (incl. its streambuf and the extraction of 'Line l:c' from messages) and the line/digest protocol",
    "g++ 12 + ASan/UBSan as witness for memory safety of the instantiations",
]

ALPHA = [97, 10, 32, 9]


def txt(codes):
    return ",".join(str(c) for c in codes) if codes else "-"


def all_texts(n):
    if n == 0:
        return [[]]
    return [[c] + r for c in ALPHA for r in all_texts(n - 1)]


def all_seqs(m, k=0, acc=()):
    """same enumeration as Drv.allSeqs / harness all_seqs (order is irrelevant for refine)."""
    out = [list(acc)]
    if m == 0:
        return out
    out += all_seqs(m - 1, k, acc + ("g",))
    out += all_seqs(m - 1, k + 1, acc + ("p",))
    for j in range(k):
        out += all_seqs(m - 1, k, acc + (f"s{j}",))
    return out


_NSEQ = {}


def nseqs(m):
    if m not in _NSEQ:
        _NSEQ[m] = len(all_seqs(m))
    return _NSEQ[m]


def nontrivial(op, result):
    t = op.split()
    return bool(t) and t[0] not in ("reset", "open") and result not in ("bad-op", "no-stream")


def weight(op):
    t = op.split()
    if t[0] == "exh":
        pre = 0 if t[4] == "-" else len(t[4].split(","))
        return 4 ** (int(t[3]) - pre)
    if t[0] == "seqs":
        return nseqs(int(t[4]))
    return 1


def refine(op):
    t = op.split()
    if t[0] == "exh":
        pre = [] if t[4] == "-" else [int(x) for x in t[4].split(",")]
        return [f"walk {t[1]} {t[2]} {txt(pre + s)}" for s in all_texts(int(t[3]) - len(pre))]
    if t[0] == "seqs":
        return [f"hist {t[1]} {t[2]} {t[3]} {','.join(s) if s else '-'}" for s in all_seqs(int(t[4]))]
    if t[0] == "walk":
        n = 0 if t[3] == "-" else len(t[3].split(","))
        return [f"hist {t[1]} {t[3]} - {','.join(script_ops(t[2], n))}"]
    if t[0] == "hist" and t[4] != "-":
        # shortest failing prefix first
        o = t[4].split(",")
        return [f"hist {t[1]} {t[2]} {t[3]} {','.join(o[:k])}" for k in range(1, len(o))]
    return None


def script_ops(sc, n):
    """the fixed histories of Drv.scriptA / scriptB (used only to localise a differing digest)"""
    o = ["p"] + ["g", "p"] * n
    if sc == "A":
        o += ["g", "g", "p", "g"]
        for k in range(n + 1):
            o += [f"s{n - k}", "g", "p", "g"]
        o += ["s0", f"s{n}", "g", f"s{n // 2}", "p", "g", f"s{n + 1}", "p"]
    else:
        for a in range(n + 1):
            for b in range(n + 1):
                o += [f"s{a}", "g", f"s{b}", "p", "g"]
        for b in range(n + 1):
            o += [f"s{n}", "g", f"s{b}", "g", "p"]
    return o


# ------------------------------------------------------------------ generators

def exh_ops(kind, script, lengths):
    ops = []
    for L in lengths:
        plen = max(0, L - (5 if script == "A" else 3))
        for pre in all_texts(plen):
            ops.append(f"exh {kind} {script} {L} {txt(pre)}")
    return ops


def rand_text(r, kind, maxlen):
    n = r.choice([0, 1, 2, 3, 5, 8, 13, 21, 34, 55, 89, 144, 233, 300])
    n = min(n, maxlen)
    n = r.range(max(0, n - 3), n)
    style = r.below(4)
    out = []
    for _ in range(n):
        q = r.below(100)
        if style == 0:      # newline heavy
            c = 10 if q < 40 else r.choice(ALPHA)
        elif style == 1:    # long lines
            c = 10 if q < 4 else r.choice([97, 32, 9, 98, 122])
        elif style == 2:    # the four letters uniformly
            c = r.choice(ALPHA)
        else:               # anything the character type can hold
            if q < 20:
                c = 10
            elif q < 35:
                c = r.choice([0, 13, 11, 12, 255, 127, 128, 1])
            elif kind == "w" and q < 60:
                c = r.choice([256, 0x263A, 0x2028, 0x85, 0xFFFF, 0x10000, 0x10FFFF, 0x0A0A, 0x100A])
            else:
                c = r.below(256)
        out.append(c)
    return out


def history_case(r, kind, allow_fail, allow_raw, maxlen, nops):
    """one case: reset, open, ops.  The generator runs the abstract stream (index, read budget, saved indices) to aim
    parser arguments and slot numbers, to avoid sitting at the end of input, and to stop soon after the stream died."""
    t = rand_text(r, kind, maxlen)
    n = len(t)
    fa = None
    if allow_fail and r.chance(1, 2):
        fa = r.choice([0, 1, 2, 3, max(0, n - 1), n, n + 5, r.below(n + 2), r.below(3 * n + 2)])
    ops = ["reset", f"open {kind} {txt(t)} {'-' if fa is None else fa}"]
    st = {"i": 0, "reads": 0, "dead": False, "after": 0}
    saved = []

    def read():
        # abstract effect of consuming one character
        if st["dead"]:
            return
        if st["i"] < n:
            if fa is not None and st["reads"] >= fa:
                st["dead"] = True
            else:
                st["i"] += 1
                st["reads"] += 1

    for _ in range(nops):
        if st["dead"]:
            st["after"] += 1
            if st["after"] > 3:
                break
        q = r.below(100)
        at_end = st["i"] >= n
        if at_end and saved and r.chance(2, 3):
            q = 60 + r.below(24)          # rewind rather than read at the end of input again
        if q < 40:
            run = r.choice([1, 1, 1, 2, 3, 5, 8, n + 2])
            for _ in range(min(run, n + 3)):
                ops.append("get")
                read()
        elif q < 58 or (q < 84 and not saved and not r.chance(1, 10)):
            ops.append("pos")
            if not st["dead"]:
                saved.append(st["i"])
        elif q < 84:
            if saved and not r.chance(1, 30):
                j = r.below(len(saved)) if r.chance(2, 3) else r.choice([0, len(saved) - 1])
                ops.append(f"set {j}")
                if not st["dead"]:
                    st["i"] = saved[j]
            else:
                ops.append(f"set {len(saved) + r.below(3)}")
        elif q < 94 or not allow_raw:
            p = r.choice(["lit", "cset", "slit", "scset", "char"])
            cur = t[st["i"]] if st["i"] < n else r.choice(ALPHA)
            if p == "char":
                ops.append("char -")
            elif p in ("lit", "slit"):
                c = cur if r.chance(1, 2) else r.choice(ALPHA + [98])
                ops.append(f"{p} {c}")
            else:
                cs = sorted(set([r.choice(ALPHA + [98]) for _ in range(r.range(0, 3))] + ([cur] if r.chance(1, 2) else [])))
                ops.append(f"{p} {txt(cs)}")
            read()
        else:
            off = r.choice([-1, 0, n, n + 1, n + 7, r.below(n + 1), -5])
            if r.chance(1, 2):
                ops.append(f"setraw {off} -")
            else:
                ops.append(f"setraw {off} {r.range(1, 9)} {r.range(1, 9)}")
            if 0 <= off <= n and not st["dead"]:
                st["i"] = off
    return ops


def perr_ops(kind, maxlen, fa_list):
    ops = []
    for L in range(maxlen + 1):
        for t in all_texts(L):
            for skip in range(L + 2):
                pre = ",".join(["g"] * skip) if skip else "-"
                for fa in fa_list:
                    for p, args in (("lit", ["97", "10"]), ("slit", ["10", "32"]), ("cset", ["97,9", "10", "-"]),
                                    ("scset", ["32,10", "97"]), ("char", ["-"])):
                        for a in args:
                            ops.append(f"perr {kind} {txt(t)} {fa} {pre} {p} {a}")
    return ops


def batches(rng, tier):
    thorough = tier == "thorough"
    # 1. exhaustive texts, fixed histories
    la = range(0, 13) if thorough else range(0, 10)
    lb = range(0, 9) if thorough else range(0, 8)
    for kind in ("c", "w"):
        yield Batch(f"exh-A-{kind}", exh_ops(kind, "A", la), exhaustive=True,
                    note=f"all texts over {{a,\\n,space,tab}} up to length {la[-1]}, script A (linear walk, end-of-input probes, rewind to every position)")
        yield Batch(f"exh-B-{kind}", exh_ops(kind, "B", lb), exhaustive=True,
                    note=f"all texts up to length {lb[-1]}, script B (all ordered pairs of rewinds, rewinds from the end-of-input state)")
    # 2. all op sequences on small texts
    for kind in ("c", "w"):
        ops = []
        if thorough:
            for L in range(0, 6):
                ops += [f"seqs {kind} {txt(t)} - 7" for t in all_texts(L)]
            for L in range(0, 4):
                ops += [f"seqs {kind} {txt(t)} - 8" for t in all_texts(L)]
        else:
            for L in range(0, 5):
                ops += [f"seqs {kind} {txt(t)} - 6" for t in all_texts(L)]
        # failing stream: every budget up to the text length
        for L in range(0, 4 if thorough else 3):
            for t in all_texts(L):
                for fa in range(0, L + 1):
                    ops.append(f"seqs {kind} {txt(t)} {fa} {7 if thorough else 6}")
        yield Batch(f"seqs-{kind}", ops, exhaustive=True,
                    note="all sequences of get/pos/set j up to the given length on all small texts; plain and failing buffers")
    # 3. error location of literal / char_set / char_ and the skippers after every prefix of every small text
    for kind in ("c", "w"):
        ops = perr_ops(kind, 4 if thorough else 3, ["-"]) + perr_ops(kind, 2, ["0", "1"])
        yield Batch(f"perr-{kind}", ops, exhaustive=True,
                    note="parsers/skippers at every index of every small text: success, EOF, Expected with Line l:c, failing stream")
    # 3b. characters that a truncating or sign-confused newline test would mistake for '\n' (and the extremes of the types)
    ops = []
    for c in [0x10A, 0x100A, 0x0A0A, 0x1000A, 0x8A, 0x2028, 0x85, 0x10FFFF, 0xFFFF, 0xFF, 0x0D, 0x0]:
        for t in ([c], [c, 97], [97, c, 10, c]):
            ops.append(f"hist w {txt(t)} - g,p,g,p,g,p,s1,g,p,s0,p")
            ops.append(f"perr w {txt(t)} - g lit 97")
    for c in [0x8A, 0xFF, 0x0D, 0x0, 0x0B, 0x0C, 0x7F, 0x80]:
        for t in ([c], [c, 97], [97, c, 10, c]):
            ops.append(f"hist c {txt(t)} - g,p,g,p,g,p,s1,g,p,s0,p")
            ops.append(f"perr c {txt(t)} - g lit 97")
    yield Batch("special-chars", ops, note="newline look-alikes (low byte 0x0A in a wide character, CR, NEL, U+2028), 0, 0xFF, U+10FFFF")
    # 4. seeded long histories
    r = rng.fork("hist")
    ncase = 4000 if thorough else 800
    for kind in ("c", "w"):
        ops = []
        for _ in range(ncase):
            ops += history_case(r, kind, allow_fail=False, allow_raw=False, maxlen=300, nops=r.range(5, 60))
        yield Batch(f"hist-plain-{kind}", ops, kind="history",
                    note="random texts up to length 300, histories of get/pos/set/parser calls within the property's guard")
        ops = []
        for _ in range(ncase // 2):
            ops += history_case(r, kind, allow_fail=True, allow_raw=True, maxlen=40, nops=r.range(5, 40))
        yield Batch(f"hist-fail-raw-{kind}", ops, kind="history",
                    note="failure-injecting buffer (random budget) and fabricated positions (seek failure, absent location)")


MANIFEST = {
    "level_text": ("Machine-checked proof (Lean 4) over an executable model that mirrors libstdc++'s istream state machine "
                   "(sentry, get, tellg, seekg, clear; eof/fail/bad bits) and fcppt::parse::detail::stream on top of it: for every "
                   "text, every history of get_char/get_position/set_position(saved) of any length and every read budget of a "
                   "failing stream, the observations equal those of the abstract index stream of the documentation (run_refines); "
                   "the stored location is always (line i, column i) of the current index (location_inv, column_doc); restoring a "
                   "saved position reproduces the exact stream state in which it was taken, hence all later reads and positions "
                   "(rewind_exact, rewind_exact_hist); end of input and a bad stream never yield a character (eof_never_char, "
                   "bad_never_char, failing_read_never_char, parse_bad_fails); literal/char_set errors carry the location after "
                   "the offending character (expected_location). Tied to the code by a differential correspondence that is "
                   "exhaustive over all texts up to length 12 over {a,\\n,space,tab} (thorough; 9 quick) and over all op sequences "
                   "up to length 7/8 on small texts, for char and wchar_t, plus seeded long histories."),
    "level_note": ("Trusted: Lean kernel + propext/Quot.sound; the istream sub-model is an assumption about libstdc++ validated by "
                   "comparing rdstate() after every operation; fidelity of the hand-written model outside the exercised inputs; the "
                   "harness (its streambuf, message-number extraction) and the digest protocol. No sorry/axiom/native_decide."),
    "technique": "Lean 4 proof (simulation/refinement + invariants) over hand-written executable model + exhaustive differential correspondence (ASan/UBSan harness)",
    "design_ref": "DESIGN.md §5 C12",
}
