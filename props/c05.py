"""C05 — generic operations conserve values: rvalues moved once, lvalues untouched."""
import glob
import itertools
import os

from vlib import paths
from vlib.runner import Batch

ID = "C05"
LEAN_PROPS = ["FcpptProofs.Props.C05"]


FAMILIES = ("alg", "alg2", "opt", "eith", "tup", "rec", "grid", "tree", "opts", "parse")


def _repo_srcs():
    # fcppt::options / exceptions / type names are compiled in (options::flag / option constructors, parse_string)
    r = []
    for pat in ("libs/options/src/options/*.cpp", "libs/options/src/options/detail/*.cpp", "libs/options/impl/src/options/impl/*.cpp"):
        r += sorted(os.path.relpath(f, paths.REPO) for f in glob.glob(os.path.join(paths.REPO, pat)))
    # the family units of the harness (absolute paths: compiled in parallel with harness/c05.cpp)
    r += [os.path.join(paths.ROOT, "harness", f"c05_{k}.cpp") for k in FAMILIES]
    r += ["libs/core/src/exception.cpp", "libs/core/src/insert_extract_locale.cpp", "libs/core/src/from_std_string.cpp",
          "libs/core/src/type_name_from_info.cpp", "libs/core/src/type_name.cpp"]
    return r


# Diagnostic mode: C05_NO_MOVE_ONLY=1 builds the harness without the move-only twin and generates no `M` lines. Use it when a change
# in /repo makes the move-only instantiations fail to compile (reported as a broken correspondence) to get the concrete inputs.
NO_MOVE_ONLY = bool(os.environ.get("C05_NO_MOVE_ONLY"))
HARNESS = {"src": "harness/c05.cpp", "repo_srcs": _repo_srcs(), "flags": ["-DC05_NO_MOVE_ONLY"] if NO_MOVE_ONLY else [], "libs": []}
TIE = ("hand-written transfer programs (FcpptModel/Model/C05.lean over the machine of Model/C05/Machine.lean) + differential "
       "correspondence: the real templates instantiated with an instrumented element type (identity, live/moved-from, copy/move/read "
       "log) and its move-only twin; only the event abstraction is compared")
RULE = ("one op = one call of one registered operation (166): `<op> <T|M> <nargs> <cat>:<ids>... <par>...`; both sides print the shape of the "
        "result, the element objects of the result and of every argument afterwards (identity, `~` = moved-from), the identities copied, "
        "the identities move-constructed out of an argument object (in-place moves included, with multiplicity), the identities touched "
        "after a move, the live values destroyed or overwritten during the call, how many values the user's functions made from nothing, and "
        "the value category (lvalue / rvalue) with which the library handed each element to a user's function, per call (every harness "
        "function is generic, records it and steals an rvalue). "
        "Functions of several arguments hand every argument on, so each argument's value category is observed on its own and all mixed "
        "combinations are enumerated; aliasing rows pass the same object twice / a value that is an element of the container. "
        "Exhaustive per operation over "
        "every value category of every argument (l = T&, c = T const&, r = T&& / by value, i = documented in/out), every size 0..3 "
        "(thorough: 0..5) of every container argument, present/absent and every alternative, every answer table of the user's function "
        "(keep masks, break position, output counts, key present/absent), with the copyable element type and - wherever the "
        "instantiation exists - the move-only one; plus seeded samples with 6..10 elements per container for the operations on "
        "containers without a static size. Non-trivial = some argument is non-empty (or, without arguments, some value is made).")
ASSUMPTIONS = [
    "C++ value categories, temporaries, copy elision and overload resolution are language-level facts outside the model: the per-element "
    "transfer annotation of every program (move / copy / handed on as lvalue / whole-container move) is justified by the correspondence on "
    "the enumerated shapes; the theorems extend it to all sizes",
    "std::vector/std::deque/std::map move construction and move assignment transfer the buffer/nodes without touching elements and leave "
    "the source empty (libstdc++); std::optional/std::variant/std::tuple/std::array move element-wise and leave moved-from elements behind",
    "std::vector::insert / push_back relocate with the noexcept move constructor; relocations of objects that are not the caller's are not events",
    "std::reverse performs floor(n/2) swaps of (i, n-1-i); std::swap is three moves",
    "the user's functions are those of the harness: an rvalue is moved through (same identity), an lvalue is read and a new value "
    "(identity + 100 j) derived from it, nothing is copied",
    "std::remove_if / std::unique: the predicate is asked once per element in order, the kept elements behind the first gap are "
    "move-assigned once each, the rest is erased; std::vector::erase(it) move-assigns every later element one place down; "
    "std::list / std::map erase and std::list::sort / swap touch no element",
    "copies of a closure made inside libstdc++ algorithms (algorithm::remove captures its value by copy) count as the one captured copy",
    "operations outside the registry (Op.all) are not covered",
]
TRUSTED = ["harness/c05.cpp (instrumented element type, argument construction, canonical printing) and the line protocol (vh.hpp, Proto.lean)",
           "g++ 12 + ASan/UBSan as witness for the lifetime layer (use after destruction, leaks)"]

ANY = "lcr"


def masks(n, hi):
    return [list(p) for p in itertools.product(range(hi + 1), repeat=n)]


def no_par(sizes):
    return [[]]


# A row: name, value categories allowed per argument, shapes(maxn) -> iterable of (sizes, par), and for which category
# tuples the instantiation with the move-only element type exists (= the model's program contains no copy).
rv_only = lambda cats: all(c in "ri" for c in cats)
always = lambda cats: True


def sized(nargs, fixed=None, par=None, cap=None):
    """all size tuples 0..maxn (fixed: {arg index: [sizes]}), each with every parameter list par(sizes)"""
    fixed = fixed or {}

    def shapes(maxn):
        m = maxn if cap is None else min(maxn, cap)
        sets = [fixed.get(k, list(range(m + 1))) for k in range(nargs)]
        for sizes in itertools.product(*sets):
            for p in (par(sizes) if par else [[]]):
                yield sizes, p
    return shapes


def opt_sized(nargs, par=None):
    return sized(nargs, {k: [0, 1] for k in range(nargs)}, par)


def mask_shapes(maxn):
    """presence masks of length 0..maxn; the argument holds the elements of the present entries"""
    for ln in range(maxn + 1):
        for m in itertools.product([0, 1], repeat=ln):
            yield (sum(m),), list(m)


BIT = lambda s: [[0], [1]]

DIMS = [(0, 0), (1, 1), (2, 1), (1, 2), (2, 2)]
DIMS_MORE = DIMS + [(3, 1), (1, 3), (0, 2), (3, 2)]


def grid_shapes(k):
    def shapes(maxn):
        dims = DIMS_MORE if maxn > 3 else DIMS
        for ds in itertools.product(dims, repeat=k):
            yield tuple(w * h for w, h in ds), [x for d in ds for x in d]
    return shapes


def grid_resize_shapes(maxn):
    dims = DIMS_MORE if maxn > 3 else DIMS + [(3, 1), (1, 3)]
    for (w, h) in (DIMS_MORE if maxn > 3 else DIMS):
        for (w2, h2) in dims:
            yield (w * h,), [w, h, w2, h2]


def same_sized(nargs, cap):
    """all arguments have the same size 0..min(maxn, cap)"""
    return lambda maxn: [(tuple([n] * nargs), []) for n in range(min(maxn, cap) + 1)]


def no_args(pars):
    return lambda maxn: [((), p) for p in pars(maxn)]


never = lambda cats: False


def one(pars, nargs=1):
    """every argument holds exactly one element"""
    return lambda maxn: [(tuple([1] * nargs), p) for p in pars]


def table():
    return [
        ("algmap", [ANY], sized(1), always),
        ("fold", [ANY, "r"], sized(2, {1: [1]}), always),
        ("foldbrk", [ANY, "r"], sized(2, {1: [1]}, lambda s: [[k] for k in range(s[0] + 1)]), always),
        ("mapcat", [ANY], sized(1, par=lambda s: masks(s[0], 2), cap=4), always),
        ("mapopt", [ANY], sized(1, par=lambda s: masks(s[0], 1)), always),
        ("reverse", [ANY], sized(1), rv_only),
        ("join2", [ANY, ANY], sized(2), rv_only),
        ("join3", [ANY, ANY, ANY], sized(3, cap=3), rv_only),
        ("popback", ["i"], sized(1), always),
        ("popfront", ["i"], sized(1), always),
        ("mrmap", ["r"], sized(1), always),
        ("moveclear", ["i"], sized(1), always),
        ("goi", ["i"], sized(1, par=lambda s: [[k] for k in range(s[0] + 1)]), always),
        ("goiwr", ["i"], sized(1, par=lambda s: [[k] for k in range(s[0] + 1)]), always),
        # optional
        ("optmap", [ANY], opt_sized(1), always),
        ("optbind", [ANY], opt_sized(1, BIT), always),
        ("optfrom", [ANY], opt_sized(1), rv_only),
        ("optalt", [ANY], opt_sized(1, BIT), rv_only),
        ("optfilter", [ANY], opt_sized(1, BIT), rv_only),
        ("optjoin", [ANY], opt_sized(1, lambda s: [[1]] if s[0] else [[0], [1]]), rv_only),
        ("optcombine", [ANY, ANY], opt_sized(2), rv_only),
        ("optapply2", [ANY, ANY], opt_sized(2), always),
        ("optseq", [ANY], mask_shapes, rv_only),
        ("optcat", [ANY], mask_shapes, rv_only),
        ("opttocont", [ANY], opt_sized(1), rv_only),
        # move_if / move_if_rvalue themselves (l: lvalue that must stay, i: lvalue the caller asked to move)
        ("moveif", ["lcr"], one([[0]]), rv_only),
        ("moveif", ["icr"], one([[1]]), lambda cats: cats[0] in "ir"),
        ("moveifrv", ["lcr"], one([[0], [1]]), rv_only),
        ("moveifrv", ["icr"], one([[2], [3]]), lambda cats: cats[0] in "ir"),
        # either: one element, par = which alternative holds it
        ("eithmap", [ANY], one(BIT(0)), rv_only),
        ("eithmapfail", [ANY], one(BIT(0)), rv_only),
        ("eithbind", [ANY], one([[a, b] for a in (0, 1) for b in (0, 1)]), rv_only),
        ("eithmatch", [ANY], one(BIT(0)), always),
        ("eithsuccopt", [ANY], one(BIT(0)), rv_only),
        ("eithfailopt", [ANY], one(BIT(0)), rv_only),
        ("eithfromopt", [ANY], opt_sized(1), rv_only),
        ("eithjoin", [ANY], one([[0], [1], [2]]), rv_only),
        ("eithapply2", [ANY, ANY], one([[a, b] for a in (0, 1) for b in (0, 1)], 2), rv_only),
        ("eithseq", ["r"], sized(1, par=lambda s: masks(s[0], 1)), always),
        # variant<T, w1<T>, w2<T>>
        ("varmatch", [ANY], one([[0], [1], [2]]), always),
        ("varapply", [ANY], one([[0], [1], [2]]), always),
        ("varapply2", [ANY, ANY], one([[a, b] for a in range(3) for b in range(3)], 2), always),
        ("vartoopt", [ANY], one([[a, b] for a in range(3) for b in range(2)]), rv_only),
        # tuples, arrays, records: the size is a template argument (0..3; two-container operations 0..2)
        ("tupmap", [ANY], sized(1, cap=3), always),
        ("tuppush", [ANY, ANY], sized(2, {1: [1]}, cap=3), rv_only),
        ("tupconcat", [ANY, ANY], sized(2, cap=2), rv_only),
        ("arrmap", [ANY], sized(1, cap=3), always),
        ("arrpush", [ANY, ANY], sized(2, {1: [1]}, cap=3), rv_only),
        ("arrjoin2", [ANY, ANY], sized(2, cap=2), rv_only),
        ("arrjoin3", [ANY, ANY, ANY], sized(3, {2: [1]}, cap=2), rv_only),
        ("arrfromrange", [ANY], sized(1, par=lambda s: [[k] for k in range(4)], cap=4), rv_only),
        ("recmap", ["r"], sized(1, cap=3), always),
        ("recpermute", [ANY], sized(1, par=lambda s: [list(p) for p in itertools.permutations(range(s[0]))], cap=3), rv_only),
        ("recmuldisj", [ANY, ANY], sized(2, cap=2), rv_only),
        ("contmake", ["ir", "ir"], one([[]], 2), always),
        # grids (2 dimensions); par = the dimensions
        ("gridmap", [ANY], grid_shapes(1), always),
        ("gridapply2", [ANY, ANY], grid_shapes(2), always),
        ("gridresize", [ANY], grid_resize_shapes, rv_only),
        # trees: root value + leaf children
        ("treector", [ANY], one([[]]), rv_only),
        ("treepushval", ["i", ANY], sized(2, {0: [1, 2, 3], 1: [1]}), lambda cats: cats[1] == "r"),
        ("treepushtree", ["i", "r"], sized(2, {0: [1, 2, 3], 1: [1]}), always),
        ("treerelease", ["i"], lambda maxn: [((n,), [i]) for n in range(2, maxn + 2) for i in range(n - 1)], always),
        ("treemap", [ANY], lambda maxn: [((n,), []) for n in range(1, maxn + 2)], always),
        # options constructors taking element values; parse results
        ("optsflag", ["r", "r"], one([[]], 2), always),
        ("optsoption", ["r"], opt_sized(1), always),
        ("parseseq", [], lambda maxn: [((), [k]) for k in range(3)], always),
        ("parserep", [], lambda maxn: [((), [k]) for k in range(maxn + 2)], always),
        # extension round 1: tuple / array / record
        ("tupinvoke", [ANY], sized(1, cap=3), always),
        ("tupapply2", ["r", ANY], same_sized(2, 3), always),
        ("arrapply2", [ANY, ANY], same_sized(2, 3), always),
        ("tupfromarr", [ANY], sized(1, cap=3), rv_only),
        ("tupmake2", [ANY, ANY], one([[]], 2), rv_only),
        ("arrmake2", [ANY, ANY], one([[]], 2), rv_only),
        ("recctor2", [ANY, ANY], one([[0], [1]], 2), rv_only),
        ("tupinit", [], no_args(lambda m: [[k] for k in range(4)]), always),
        ("arrinit", [], no_args(lambda m: [[k] for k in range(4)]), always),
        ("recinit", [], no_args(lambda m: [[k] for k in range(4)]), always),
        # optional / either / variant: constructors, assign, to_exception, maybe*, construct, try_call, loop
        ("optmake", [ANY], one([[]]), rv_only),
        ("optctor", [ANY], one([[]]), rv_only),
        ("optassign", ["i", "r"], sized(2, {0: [0, 1], 1: [1]}), always),
        ("opttoexc", [ANY], opt_sized(1), rv_only),
        ("optmakeif", [], no_args(lambda m: [[0], [1]]), always),
        ("optmaybe", [ANY], opt_sized(1), always),
        ("optmaybevoid", [ANY], opt_sized(1), always),
        ("optmaybemulti2", [ANY, ANY], opt_sized(2), always),
        ("optmaybevoidmulti2", [ANY, ANY], opt_sized(2), always),
        ("optcopyvalue", ["lc"], opt_sized(1), never),
        ("eithmakesucc", [ANY], one([[]]), rv_only),
        ("eithmakefail", [ANY], one([[]]), rv_only),
        ("eithctor", [ANY], one(BIT(0)), rv_only),
        ("eithconstruct", [], no_args(lambda m: [[0], [1]]), always),
        ("eithtrycall", [], no_args(lambda m: [[0], [1]]), always),
        ("eithtoexc", [ANY], one(BIT(0)), rv_only),
        ("eitherrfromopt", [ANY], opt_sized(1), rv_only),
        ("eithseqerr", [ANY], sized(1, par=lambda s: masks(s[0], 1)), always),
        ("eithloop", [], no_args(lambda m: [[k] for k in range(m + 1)]), always),
        ("varctor", [ANY], one([[0], [1], [2]]), rv_only),
        # extension round 2: algorithm / container helpers (LC: `Range &` / `Range const &`)
        ("algfind", ["lc", "c"], sized(2, {1: [1]}, lambda s: [[k] for k in range(s[0] + 1)]), always),
        ("algindexof", ["lc", "c"], sized(2, {1: [1]}, lambda s: [[k] for k in range(s[0] + 1)]), always),
        ("algcontains", ["lc", "c"], sized(2, {1: [1]}, lambda s: [[k] for k in range(s[0] + 1)]), always),
        ("algfindif", ["lc"], sized(1, par=lambda s: [[k] for k in range(s[0] + 1)]), always),
        ("algfindby", ["lc"], sized(1, par=lambda s: [[k] for k in range(s[0] + 1)]), always),
        ("alggenerate", [], no_args(lambda m: [[k] for k in range(m + 2)]), always),
        ("algmapiter", ["i"], sized(1, par=lambda s: masks(s[0], 1)), always),
        ("algmapiter2", ["i"], sized(1, par=lambda s: masks(s[0], 1)), always),
        ("algseqiter", ["i"], sized(1, par=lambda s: masks(s[0], 1)), always),
        ("continsert", ["i", ANY], sized(2, {1: [1]}, lambda s: [[k] for k in range(s[0] + 1)]), lambda cats: cats[1] == "r"),
        ("setunion", ["lc", "lc"], lambda maxn: list(sized(2, par=lambda s: [[0]])(maxn)) + [((n, 0), [1]) for n in range(maxn + 1)], never),
        ("setdiff", ["lc", "lc"], lambda maxn: list(sized(2, par=lambda s: [[0]])(maxn)) + [((n, 0), [1]) for n in range(maxn + 1)], never),
        ("setinter", ["lc", "lc"], lambda maxn: list(sized(2, par=lambda s: [[0]])(maxn)) + [((n, 0), [1]) for n in range(maxn + 1)], never),
        ("mapvalcopy", ["lc"], sized(1), never),
        ("atopt", ["lc"], sized(1, par=lambda s: [[k] for k in range(s[0] + 1)]), always),
        ("maybeback", ["lc"], sized(1), always),
        ("maybefront", ["lc"], sized(1), always),
        ("findoptmapped", ["lc"], sized(1, par=lambda s: [[k] for k in range(s[0] + 1)]), always),
        ("indexmapget", ["i"], sized(1, par=lambda s: [[k] for k in range(s[0] + 3)]), always),
        # tree members (root value + children as two arguments; assignment: target + source)
        ("treectortree", ["l", "l"], sized(2, {0: [1]}, cap=4), never),
        ("treectortree", ["c", "c"], sized(2, {0: [1]}, cap=4), never),
        ("treectortree", ["r", "r"], sized(2, {0: [1]}, cap=4), always),
        ("treectorchildren", ["r", "r"], sized(2, {0: [1]}, cap=4), always),
        ("treeassign", ["i", "i", "l", "l"], sized(4, {0: [1], 2: [1]}, cap=3), never),
        ("treeassign", ["i", "i", "c", "c"], sized(4, {0: [1], 2: [1]}, cap=3), never),
        ("treeassign", ["i", "i", "r", "r"], sized(4, {0: [1], 2: [1]}, cap=3), always),
        ("treeselfassign", ["i", "i"], sized(2, {0: [1]}, lambda s: [[0]], cap=4), never),
        ("treeselfassign", ["i", "i"], sized(2, {0: [1]}, lambda s: [[1]], cap=4), always),
        ("treesetvalue", ["i", ANY], one([[]], 2), lambda cats: cats[1] == "r"),
        ("treepushfrontval", ["i", ANY], sized(2, {0: [1, 2, 3], 1: [1]}), lambda cats: cats[1] == "r"),
        ("treeinsertval", ["i", ANY], sized(2, {0: [1, 2, 3], 1: [1]}, lambda s: [[k] for k in range(s[0])]), lambda cats: cats[1] == "r"),
        ("treepushfronttree", ["i", "r"], sized(2, {0: [1, 2, 3], 1: [1]}), always),
        ("treeinserttree", ["i", "r"], sized(2, {0: [1, 2, 3], 1: [1]}, lambda s: [[k] for k in range(s[0])]), always),
        ("treepopback", ["i"], lambda maxn: [((n,), []) for n in range(1, maxn + 2)], always),
        ("treepopfront", ["i"], lambda maxn: [((n,), []) for n in range(1, maxn + 2)], always),
        ("treeerase", ["i"], lambda maxn: [((n,), [i]) for n in range(2, maxn + 2) for i in range(n - 1)], always),
        ("treeeraserange", ["i"], lambda maxn: [((n,), [i, j]) for n in range(1, maxn + 2) for j in range(n) for i in range(j + 1)], always),
        ("treeclear", ["i"], lambda maxn: [((n,), []) for n in range(1, maxn + 2)], always),
        ("treesort", ["i"], lambda maxn: [((n,), []) for n in range(1, maxn + 2)], always),
        # grid constructors / assignment / fill
        ("gridctorfn", [], no_args(lambda m: [list(d) for d in (DIMS_MORE if m > 3 else DIMS)]), always),
        ("gridctorvalue", ["c"], lambda maxn: [((1,), list(d)) for d in (DIMS_MORE if maxn > 3 else DIMS)], never),
        ("gridctorrows2", ["r", "r"], lambda maxn: [((1, 1), []), ((2, 2), [])], always),
        ("gridstaticrow2", [ANY, ANY], one([[]], 2), rv_only),
        ("gridctorgrid", [ANY], grid_shapes(1), rv_only),
        ("gridassign", ["i", ANY], sized(2, cap=3), lambda cats: cats[1] == "r"),
        ("gridselfassign", ["i"], sized(1, par=lambda s: [[0]], cap=3), never),
        ("gridselfassign", ["i"], sized(1, par=lambda s: [[1]], cap=3), always),
        ("gridfill", ["i"], sized(1, cap=4), always),
        # extension round 3: parse / options results moved through the combinators
        ("parsealt", [], no_args(lambda m: [[0], [1], [2]]), always),
        ("parseopt", [], no_args(lambda m: [[0], [1]]), always),
        ("parseconv", [], no_args(lambda m: [[0], [1]]), always),
        ("parsestruct", [], no_args(lambda m: [[0], [1], [2]]), always),
        ("parsesep", [], no_args(lambda m: [[k] for k in range(m + 2)]), always),
        ("parselist", [], no_args(lambda m: [[k] for k in range(m + 2)]), never),
        ("parserepplus", [], no_args(lambda m: [[k] for k in range(m + 2)]), always),
        ("optsarg", [], no_args(lambda m: [[0], [1]]), always),
        ("optsoptional", [], no_args(lambda m: [[0], [1]]), always),
        ("optsproduct", [], no_args(lambda m: [[0], [1], [2]]), always),
        ("optsmany", [], no_args(lambda m: [[k] for k in range(m + 2)]), always),
        ("optssum", [], no_args(lambda m: [[0], [1]]), always),
        # extension round 4: the same object twice, other container kinds, swap, record::set
        ("treeswap", ["i", "i", "i", "i"], sized(4, {0: [2], 3: [0]}, cap=3), always),
        ("treesortpred", ["i"], lambda maxn: [((n,), []) for n in range(1, maxn + 2)], always),
        ("joinself", ["lc"], sized(1), never),
        ("arrjoinself", ["lc"], sized(1, cap=2), never),
        ("tupconcatself", ["lc"], sized(1, cap=2), never),
        ("optcombineself", ["lc"], opt_sized(1), never),
        ("algmaplist", [ANY], sized(1), always),
        ("algmaparr", [ANY], sized(1, cap=3), always),
        ("algmaptup", [ANY], sized(1, cap=3), always),
        ("algloopbrktup", [ANY], sized(1, par=lambda s: [[k] for k in range(s[0] + 1)], cap=3), always),
        ("recset", ["i", ANY], sized(2, {0: [1, 2, 3], 1: [1]}, lambda s: [[k] for k in range(s[0])]), lambda cats: cats[1] == "r"),
        # in-place compaction: remove_if / unique_if with every keep mask (the first element of unique_if always stays), remove, unique
        ("algremoveif", ["i"], sized(1, par=lambda s: masks(s[0], 1), cap=5), always),
        ("alguniqueif", ["i"], sized(1, par=lambda s: [m for m in masks(s[0], 1) if not m or m[0] == 1], cap=5), always),
        ("algunique", ["i"], sized(1), always),
        ("algseqitervec", ["i"], sized(1, par=lambda s: masks(s[0], 1), cap=5), always),
        ("algremove", ["i", "c"], sized(2, {1: [1]}), never),
        ("eithfirst", [], lambda maxn: [((), list(m)) for ln in range(maxn + 1) for m in itertools.product([0, 1], repeat=ln)], always),
    ]


# operations on which the unchanged tree disagrees with the property (notes/C05.md, DEFECT CANDIDATE); run last
def candidates():
    return [
    ]


def arg_tok(k, cat, size):
    ids = ",".join(str(10 * k + 1 + j) for j in range(size)) or "-"
    return f"{cat}:{ids}"


def lines_for(row, maxn):
    name, cat_sets, shapes, mo = row
    out = []
    for cats in itertools.product(*cat_sets):
        for sizes, par in shapes(maxn):
            body = " ".join([str(len(cats))] + [arg_tok(k, c, n) for k, (c, n) in enumerate(zip(cats, sizes))] + [str(p) for p in par])
            out.append(f"{name} T {body}")
            if mo(cats) and not NO_MOVE_ONLY:
                out.append(f"{name} M {body}")
    return out


def equivalent(op, impl, model):
    """the move-only instantiation of a parser cannot be asked what it stores (parse copies): the harness prints r=?"""
    if " r=? " in impl:
        import re
        return impl == re.sub(r" r=\S+ ", " r=? ", model)
    return False


def nontrivial(op, result):
    t = op.split()
    return any(":" in x and not x.endswith(":-") for x in t[3:]) or (t[2] == "0" and len(t) > 3)


# operations whose containers have no static size: seeded samples with 6..10 elements per container
# name, value categories per argument, fixed sizes, parameters(rng, sizes)
def sampled_table():
    none = lambda r, s: []
    return [
        ("algmap", [ANY], {}, none, always),
        ("fold", [ANY, "r"], {1: 1}, none, always),
        ("foldbrk", [ANY, "r"], {1: 1}, lambda r, s: [r.below(s[0] + 1)], always),
        ("mapcat", [ANY], {}, lambda r, s: [r.below(3) for _ in range(s[0])], always),
        ("mapopt", [ANY], {}, lambda r, s: [r.below(2) for _ in range(s[0])], always),
        ("reverse", [ANY], {}, none, rv_only),
        ("join2", [ANY, ANY], {}, none, rv_only),
        ("join3", [ANY, ANY, ANY], {}, none, rv_only),
        ("popback", ["i"], {}, none, always),
        ("popfront", ["i"], {}, none, always),
        ("mrmap", ["r"], {}, none, always),
        ("moveclear", ["i"], {}, none, always),
        ("goi", ["i"], {}, lambda r, s: [r.below(s[0] + 1)], always),
        ("goiwr", ["i"], {}, lambda r, s: [r.below(s[0] + 1)], always),
        ("eithseq", ["r"], {}, lambda r, s: [0 if r.chance(1, 6) else 1 for _ in range(s[0])], always),
        ("arrfromrange", [ANY], {}, lambda r, s: [r.below(4)], rv_only),
        ("treepushval", ["i", ANY], {1: 1}, none, lambda cats: cats[1] == "r"),
        ("treerelease", ["i"], {}, lambda r, s: [r.below(s[0] - 1)], always),
        ("treemap", [ANY], {}, none, always),
        # extension rounds
        ("algfind", ["lc", "c"], {1: 1}, lambda r, s: [r.below(s[0] + 1)], always),
        ("algindexof", ["lc", "c"], {1: 1}, lambda r, s: [r.below(s[0] + 1)], always),
        ("algfindif", ["lc"], {}, lambda r, s: [r.below(s[0] + 1)], always),
        ("algfindby", ["lc"], {}, lambda r, s: [r.below(s[0] + 1)], always),
        ("algmapiter", ["i"], {}, lambda r, s: [r.below(2) for _ in range(s[0])], always),
        ("algmapiter2", ["i"], {}, lambda r, s: [r.below(2) for _ in range(s[0])], always),
        ("algseqiter", ["i"], {}, lambda r, s: [r.below(2) for _ in range(s[0])], always),
        ("continsert", ["i", ANY], {1: 1}, lambda r, s: [r.below(s[0] + 1)], lambda cats: cats[1] == "r"),
        ("setunion", ["lc", "lc"], {}, lambda r, s: [0], never),
        ("setdiff", ["lc", "lc"], {}, lambda r, s: [0], never),
        ("mapvalcopy", ["lc"], {}, none, never),
        ("atopt", ["lc"], {}, lambda r, s: [r.below(s[0] + 1)], always),
        ("indexmapget", ["i"], {}, lambda r, s: [r.below(s[0] + 4)], always),
        ("eithseqerr", [ANY], {}, lambda r, s: [0 if r.chance(1, 6) else 1 for _ in range(s[0])], always),
        ("treectortree", ["r", "r"], {0: 1}, none, always),
        ("treeassign", ["i", "i", "r", "r"], {0: 1, 2: 1}, none, always),
        ("treepopback", ["i"], {}, none, always),
        ("treepopfront", ["i"], {}, none, always),
        ("treeerase", ["i"], {}, lambda r, s: [r.below(s[0] - 1)], always),
        ("treeclear", ["i"], {}, none, always),
        ("treesort", ["i"], {}, none, always),
        ("treeinsertval", ["i", ANY], {1: 1}, lambda r, s: [r.below(s[0])], lambda cats: cats[1] == "r"),
        ("gridfill", ["i"], {}, none, always),
        ("gridassign", ["i", ANY], {}, none, lambda cats: cats[1] == "r"),
        ("joinself", ["lc"], {}, none, never),
        ("algmaplist", [ANY], {}, none, always),
        ("algremoveif", ["i"], {}, lambda r, s: [r.below(2) for _ in range(s[0])], always),
        ("alguniqueif", ["i"], {}, lambda r, s: [1] + [r.below(2) for _ in range(s[0] - 1)], always),
        ("algseqitervec", ["i"], {}, lambda r, s: [r.below(2) for _ in range(s[0])], always),
    ]


def sampled_lines(rng, count):
    rows = sampled_table()
    out = []
    for _ in range(count):
        k = rng.below(len(rows) + 3)
        if k >= len(rows):
            # presence masks / answer lists of length 6..10
            ln = rng.range(6, 10)
            which = k - len(rows)
            if which == 0:
                name = rng.choice(["optseq", "optcat"])
                mask = [0 if rng.chance(1, 5) else 1 for _ in range(ln)]
                cat = rng.choice(list(ANY))
                body = f"1 {arg_tok(0, cat, sum(mask))} " + " ".join(map(str, mask))
                out.append(f"{name} T {body}")
                if cat == "r":
                    out.append(f"{name} M {body}")
            elif which == 1:
                mask = [1 if rng.chance(1, 5) else 0 for _ in range(ln)]
                out.append("eithfirst " + rng.choice("TM") + " 0 " + " ".join(map(str, mask)))
            else:
                name = rng.choice(["parserep", "parsesep", "parserepplus", "optsmany", "alggenerate", "eithloop"])
                out.append(name + " " + rng.choice("TM") + f" 0 {rng.range(4, 8)}")
            continue
        name, cat_sets, fixed, par, mo = rows[k]
        cats = [rng.choice(list(cs)) for cs in cat_sets]
        sizes = [fixed.get(i, rng.range(6, 10)) for i in range(len(cats))]
        ps = par(rng, sizes)
        body = " ".join([str(len(cats))] + [arg_tok(i, c, n) for i, (c, n) in enumerate(zip(cats, sizes))] + [str(x) for x in ps])
        out.append(f"{name} T {body}")
        if mo(cats):
            out.append(f"{name} M {body}")
    return [l for l in out if not (NO_MOVE_ONLY and l.split()[1] == "M")]


def batches(rng, tier):
    maxn = 5 if tier == "thorough" else 3
    for row in table() + candidates():
        ops = lines_for(row, maxn)
        yield Batch(row[0], ops, exhaustive=True,
                    note=f"every value category x every shape up to size {maxn} x every answer table of the user's function, copyable and move-only element type")
    yield Batch("large-sampled", sampled_lines(rng.fork("large"), 2500 if tier == "thorough" else 400),
                note="operations on containers without a static size: 6..10 elements per container, random value categories and answer tables")


MANIFEST = {
    "level_text": ("Machine-checked proof (Lean 4) over transfer programs: every registered generic operation (Op.all in "
                   "FcpptModel/Model/C05.lean) is a program over per-element transfers (move / copy / hand on as lvalue / whole-container "
                   "move / pop / erase / swap / in-place shift) that mirrors the template's control flow; for every operation, every argument size and every value "
                   "category the interpreter's event abstraction satisfies rvalue_no_copy, rvalue_moved_at_most_once, no_read_after_move, "
                   "lvalue_unchanged, result_at_most_once, conserved, accepts_move_only, rvalue_handover_is_last_use, nothing_lost (all but the 26 operations that "
                   "destroy values by design: dropped failures, overwriting assignments, erasure) and rvalue_exactly_once_in_result (the 72 "
                   "operations documented to keep all elements). The programs "
                   "are tied to the code by a "
                   "differential correspondence that instantiates the real templates with an instrumented element type and its move-only "
                   "twin and enumerates all small shapes."),
    "level_note": ("PARTIAL: C++ value categories, temporaries and overload resolution are language-level facts - the model's per-element "
                   "transfer annotations are justified by the correspondence on the enumerated shapes, the theorems extend them to all "
                   "sizes; operations outside the registry are not covered. Trusted: Lean kernel + propext/Classical.choice/Quot.sound; "
                   "harness and line protocol; libstdc++ container move semantics as listed in the assumptions. No sorry/axiom/native_decide."),
    "technique": "Lean 4 proof over hand-written transfer programs + exhaustive small-shape differential correspondence with an instrumented element type (ASan/UBSan harness)",
    "design_ref": "DESIGN.md §5 C05",
}


def _diff_batches(harness, tier="quick", seed=1):
    """Diagnostic (used for the mutation tables of notes/C05.md): feed every batch to a given harness binary (e.g. the one the runner
    built for a mutated tree, newest entry of .cache/harness/) and to the Lean driver and print, per batch, the number of differing
    lines and the first one.  `python3 -m props.c05 <harness binary> [tier]`"""
    import subprocess
    from vlib.rng import Rng
    driver = os.path.join(paths.ROOT, "lean", ".lake", "build", "bin", "driver")
    total = 0
    for b in batches(Rng(seed), tier):
        if not b.ops:
            continue
        inp = "\n".join(b.ops) + "\n"
        impl = subprocess.run([harness], input=inp, capture_output=True, text=True).stdout.split("\n")
        model = subprocess.run([driver, ID], input=inp, capture_output=True, text=True).stdout.split("\n")
        d = [(o, x, y) for o, x, y in zip(b.ops, impl, model) if x != y and not equivalent(o, x, y)]
        total += len(b.ops)
        if d:
            o, x, y = d[0]
            print(f"{b.name}: {len(d)} differing line(s); first: {o}\n    impl : {x}\n    model: {y}")
    print("ops", total)


if __name__ == "__main__":
    import sys
    _diff_batches(sys.argv[1], *(sys.argv[2:3]))
