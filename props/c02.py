"""C02 — fcppt.parse implements ordered-choice (PEG) semantics for every grammar and input.

Protocol: notes/C02-protocol.md.  One `enum` op = one generated grammar run on *all* inputs over a small
alphabet up to a length bound (digest); `refine` turns a differing digest into the single differing input.
"""
from vlib.runner import Batch

ID = "C02"
LEAN_PROPS = ["FcpptProofs.Props.C02"]
HARNESS = {"src": "harness/c02.cpp", "repo_srcs": ["libs/core/src/insert_extract_locale.cpp", "libs/core/src/exception.cpp"]}
TIE = ("hand-written position-threading model (FcpptModel/Model/C02.lean) proved equal to the position-free PEG semantics; "
       "differential correspondence against grammars built at run time from the real fcppt::parse templates")
RULE = ("enum: one generated well-formed grammar (<= 3 rules, depth <= 5, every combinator and skipper kind) x ALL inputs over a "
        "3-6 letter alphabet up to length 5-6 (quick) / 7-8 (thorough), char and wchar_t, entry points parse_string / "
        "phrase_parse_string / grammar_parse_string; the digest covers success value, failure and fatal flag of every input. "
        "An op is non-trivial if at least one input succeeds and one fails; distinct = distinct op lines; evaluations = inputs parsed.")
ASSUMPTIONS = [
    "std::basic_istringstream get/tellg/seekg/clear behave as a random-access character array (C12 models the stream itself)",
    "convert / convert_if functions are pure; the theorems hold for arbitrary function tables",
    "istream >> unsigned short / short on a digit string: value if representable, failure otherwise (num_get, classic locale)",
    "universal value type Val in the harness: the typed result plumbing (sequence_result / alternative_result flattening) is instantiated only at Val",
]
TRUSTED = ["harness/c02.cpp, the op-line grammar decoder on both sides and the digest/line protocol (vh.hpp, Proto.lean)",
           "g++ 12 + ASan/UBSan as witness for memory safety of the instantiations",
           "fidelity of the hand-written model outside the generated grammars (reviewed line by line against the headers)"]

# ---------------------------------------------------------------------------------------------- generator

LEAF_W = [("lit", 10), ("cset", 8), ("compl", 3), ("any", 3), ("str", 4), ("eps", 2), ("fail", 1)]
NODE_W = [("seq", 16), ("alt", 14), ("rep", 8), ("plus", 5), ("opt", 8), ("not", 5), ("fatal", 6), ("lex", 4),
          ("ign", 2), ("named", 3), ("rec", 2), ("conv", 4), ("cif", 5), ("sep", 5), ("list", 4), ("ref", 7), ("leaf", 14)]


def pick(rng, table):
    tot = sum(w for _, w in table)
    k = rng.below(tot)
    for name, w in table:
        if k < w:
            return name
        k -= w
    return table[-1][0]


class Gen:
    """Well-formed grammars by construction.

    nullable(p) is a sound over-approximation of "p can succeed without consuming"; rep/plus/sep/list loops are
    only built around an iteration body that is definitely non-nullable; an unguarded `ref:i` (one that can be
    reached before any character was consumed) only points to a higher-numbered rule, so there is no left recursion.
    """

    def __init__(self, rng, alpha, numeric=False, nrules=1, maxdepth=4, stats=None):
        self.rng, self.alpha, self.numeric, self.nrules, self.maxdepth = rng, alpha, numeric, nrules, maxdepth
        self.rule_null = {}
        self.cur = 0
        self.stats = stats if stats is not None else {}
        self.budget = 0

    def count(self, k):
        self.stats[k] = self.stats.get(k, 0) + 1

    def chars(self, lo, hi):
        n = self.rng.range(lo, hi)
        cs = list(self.alpha)
        self.rng.shuffle(cs)
        return "".join(cs[:max(lo, min(n, len(cs)))])

    def leaf(self, want_nonnull=False):
        r = self.rng
        table = LEAF_W + ([("uint", 6), ("int", 6)] if self.numeric else [])
        while True:
            k = pick(r, table)
            if want_nonnull and k == "eps":
                continue
            break
        self.count(k)
        if k == "lit":
            return "lit:" + r.choice(self.alpha), False
        if k == "cset":
            return "cset:" + self.chars(1, 3), False
        if k == "compl":
            return "compl:" + self.chars(1, 2), False
        if k == "str":
            n = r.range(1 if want_nonnull else 0, 3)
            s = "".join(r.choice(self.alpha) for _ in range(n))
            return "str:" + s, n == 0
        if k in ("any", "fail", "uint", "int"):
            return k, False
        return "eps", True

    def nonnull(self, depth, guarded):
        """an expression that is definitely non-nullable"""
        for _ in range(6):
            e, n = self.gen(depth, guarded)
            if not n:
                return e
        e, _ = self.leaf(want_nonnull=True)
        return e

    def gen(self, depth, guarded):
        """returns (expr, nullable)"""
        r = self.rng
        self.budget -= 1
        if depth <= 0 or self.budget <= 0:
            return self.leaf()
        k = pick(r, NODE_W)
        if k == "leaf":
            return self.leaf()
        if k == "ref":
            # guarded: any rule (recursion), treated as nullable; unguarded: only higher-numbered rules
            cands = list(range(self.nrules)) if guarded else list(range(self.cur + 1, self.nrules))
            if not cands:
                return self.leaf()
            i = r.choice(cands)
            self.count("ref")
            return f"ref:{i}", self.rule_null.get(i, True)
        self.count(k)
        d = depth - 1
        if k == "seq":
            a, na = self.gen(d, guarded)
            b, nb = self.gen(d, guarded or not na)
            return f"seq.{a}.{b}", na and nb
        if k == "alt":
            a, na = self.gen(d, guarded)
            b, nb = self.gen(d, guarded)
            return f"alt.{a}.{b}", na or nb
        if k == "rep":
            return "rep." + self.nonnull(d, guarded), True
        if k == "plus":
            return "plus." + self.nonnull(d, guarded), False
        if k == "opt":
            a, _ = self.gen(d, guarded)
            return "opt." + a, True
        if k == "not":
            a, _ = self.gen(d, guarded)
            return "not." + a, True
        if k in ("fatal", "lex", "ign", "named", "rec"):
            a, na = self.gen(d, guarded)
            return f"{k}.{a}", na
        if k == "conv":
            a, na = self.gen(d, guarded)
            return f"conv:{r.below(3)}.{a}", na
        if k == "cif":
            j = r.below(3)
            if j == 1:
                a, na = (("rep." + self.nonnull(d, guarded)), True) if r.chance(2, 3) else self.gen(d, guarded)
            elif r.chance(2, 3):
                a, na = r.choice(["any", "cset:" + self.chars(2, 3), "compl:" + self.chars(1, 1)]), False
            else:
                a, na = self.gen(d, guarded)
            return f"cif:{j}.{a}", na
        if k == "sep":
            # -(a >> *(s >> a)) : the loop body s >> a must be non-nullable
            if r.chance(1, 2):
                a = self.nonnull(d, guarded)
                s, _ = self.gen(min(d, 1), True)
            else:
                a, _ = self.gen(d, guarded)
                s = self.nonnull(min(d, 1), True)
            return f"sep.{a}.{s}", True
        if k == "list":
            o, no = (("lit:" + r.choice(self.alpha)), False) if r.chance(3, 4) else self.gen(min(d, 1), guarded)
            g2 = guarded or not no
            if r.chance(1, 2):
                a = self.nonnull(d, g2)
                s, _ = (("lit:" + r.choice(self.alpha)), False) if r.chance(2, 3) else self.gen(min(d, 1), True)
            else:
                a, _ = self.gen(d, g2)
                s = ("lit:" + r.choice(self.alpha)) if r.chance(2, 3) else self.nonnull(min(d, 1), True)
            c, nc = (("lit:" + r.choice(self.alpha)), False) if r.chance(3, 4) else self.gen(min(d, 1), g2)
            return f"list.{o}.{a}.{s}.{c}", no and nc
        raise AssertionError(k)

    def grammar(self):
        rules = [None] * self.nrules
        for i in range(self.nrules - 1, -1, -1):
            self.cur = i
            self.budget = 14 if i == 0 else 9
            depth = self.rng.range(2, self.maxdepth) if i == 0 else self.rng.range(1, max(1, self.maxdepth - 1))
            e, n = self.gen(depth, False)
            rules[i] = e
            self.rule_null[i] = n
        return ";".join(rules)


SKIPS = {
    # skipper token -> extra alphabet characters it needs
    "E": "", "S": "_", "Rx": "x", "Lx": "x", "Qxy": "xy", "Qx": "x", "Cxy": "xy", "R_/": "_/", "Rab": "",
}


def n_inputs(k, maxlen):
    return sum(k ** i for i in range(maxlen + 1))


def weight(op):
    t = op.split()
    if t[0] == "enum":
        return n_inputs(len(t[4]) - 1, int(t[5]))
    return 1


def nontrivial(op, result):
    t = op.split()
    if t[0] != "enum":
        return True
    f = dict(x.split("=") for x in result.split()[2:] if "=" in x)
    return int(f.get("ok", 0)) > 0 and int(f.get("fail", 0)) + int(f.get("fatal", 0)) > 0


def equivalent(op, impl, model):
    # the harness bounds the nesting of rule calls (left recursion would overflow the C++ stack): same as out of fuel
    return impl == "exc:depth" and model == "diverge"


def all_strings(alpha, maxlen):
    out = [""]
    layer = [""]
    for _ in range(maxlen):
        layer = [p + c for p in layer for c in alpha]
        out += layer
    return out


def refine(op):
    t = op.split()
    if t[0] != "enum":
        return None
    alpha, maxlen = t[4][1:], int(t[5])
    return [f"run {t[1]} {t[2]} {t[3]} ={s}" for s in all_strings(alpha, maxlen)]


def make_ops(rng, count, maxlen_small, maxlen_big, stats, sk_choices, numeric=False, wide_share=3):
    ops = []
    for _ in range(count):
        sk = rng.choice(sk_choices)
        if numeric:
            base = rng.choice(["19-", "356", "07a", "-12", "32768"])
        else:
            base = rng.choice(["abc", "abc", "ab", "abcd", "ab@"])
        extra = "".join(c for c in SKIPS[sk] if c not in base)
        alpha = base + extra
        wide = rng.chance(1, wide_share)
        if "@" in alpha and not wide:
            alpha = alpha.replace("@", "c")
        gen_alpha = [c for c in alpha]
        nrules = rng.choice([1, 1, 2, 3])
        g = Gen(rng, gen_alpha, numeric=numeric, nrules=nrules, maxdepth=rng.choice([3, 4, 4, 5]), stats=stats)
        gr = g.grammar()
        entry = rng.choice(["p", "h", "g"]) if sk == "E" else rng.choice(["h", "g"])
        maxlen = maxlen_big if len(alpha) <= 3 else maxlen_small
        while n_inputs(len(alpha), maxlen) > 12000 and maxlen > 3:
            maxlen -= 1
        stats["sk:" + sk[0]] = stats.get("sk:" + sk[0], 0) + 1
        stats["ch:" + ("w" if wide else "c")] = stats.get("ch:" + ("w" if wide else "c"), 0) + 1
        stats["entry:" + entry] = stats.get("entry:" + entry, 0) + 1
        ops.append(f"enum {'w' if wide else 'c'}{entry} {sk} {gr} ={alpha} {maxlen}")
    return ops


def fmt_stats(stats):
    return " ".join(f"{k}={v}" for k, v in sorted(stats.items()))


def batches(rng, tier):
    thorough = tier == "thorough"
    small, big = (6, 8) if thorough else (5, 6)
    mult = 16 if thorough else 4
    st = {}
    ops = make_ops(rng.fork("eps"), 220 * mult, small, big, st, ["E"])
    yield Batch("grammars-no-skipper", ops, exhaustive=False,
                note="generated grammars, skipper epsilon, all inputs up to the length bound; node mix: " + fmt_stats(st))
    st = {}
    ops = make_ops(rng.fork("skip"), 260 * mult, small, big, st, ["S", "S", "Rx", "Lx", "Qxy", "Qx", "Cxy", "R_/", "Rab"])
    yield Batch("grammars-skippers", ops, exhaustive=False,
                note="generated grammars under every skipper kind (space, *char_set, literal, literal >> *char_set, char_set); node mix: " + fmt_stats(st))
    st = {}
    ops = make_ops(rng.fork("num"), 90 * mult, small, big, st, ["E", "S", "Lx", "E"], numeric=True)
    yield Batch("grammars-numeric", ops, exhaustive=False,
                note="grammars containing uint<unsigned short> / int_<short> over digit alphabets (overflow boundaries 65535/65536, 32767/32768); node mix: " + fmt_stats(st))


MANIFEST = {
    "level_text": ("Machine-checked proof (Lean 4): an executable model that threads a stream position through the parse exactly as the "
                   "fcppt.parse headers do (get_position/set_position in alternative, optional, not_, repetition; skipper calls in "
                   "phrase_parse, sequence, repetition; is_fatal tests) is proved, for all grammars (recursive ones included), skippers, "
                   "inputs, start positions and fuel, to compute the position-free PEG semantics (run_refines), which is proved sound "
                   "and complete for the documented big-step relation Derives; derivations are unique (derives_functional); the "
                   "clauses of the property (ordered choice with rewind, greedy never-failing repetition/optional unless fatal, "
                   "skipper between sequence parts, not_ consumes nothing, fatal stops backtracking, string entry points succeed iff "
                   "everything was consumed) are theorems. The model is tied to the code by a differential correspondence over "
                   "generated well-formed grammars built from the real templates, each run on all inputs over a small alphabet."),
    "level_note": ("Trusted: Lean kernel + propext/Classical.choice/Quot.sound; model fidelity outside the generated grammars; harness and "
                   "protocol; std::istringstream as a character array. float_ and the typed result plumbing (tuple/variant flattening) "
                   "are not modelled; termination is proved for every grammar that is well-formed under some ranking of its rules (wf_total: no left recursion, no repetition of a nullable body; recursive grammars included). "
                   "No sorry/axiom/native_decide."),
    "technique": "Lean 4 proof over hand-written executable model (refinement + big-step semantics) + differential correspondence (ASan/UBSan harness, exhaustive inputs per generated grammar)",
    "design_ref": "DESIGN.md §5 C02, Appendix A.1",
}
