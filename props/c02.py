"""C02 — fcppt.parse implements ordered-choice (PEG) semantics for every grammar and input.

Protocol: notes/C02-protocol.md.  One `enum` op = one generated grammar run on *all* inputs over a small
alphabet up to a length bound (digest); `refine` turns a differing digest into the single differing input.
"""
import os

from vlib.runner import Batch

ID = "C02"
LEAN_PROPS = ["FcpptProofs.Props.C02"]
# the typed family is compiled as separate translation units (in parallel); vlib joins repo_srcs onto the /repo path, an
# absolute path passes through unchanged
_H = os.path.normpath(os.path.join(os.path.dirname(os.path.abspath(__file__)), "..", "harness"))
# -g1: line tables only (enough for the sanitizers' reports); the 17 template-heavy translation units need a third less
# time and memory than with full debug information
HARNESS = {"src": "harness/c02.cpp", "flags": ["-g1"],
           "repo_srcs": ["libs/core/src/insert_extract_locale.cpp", "libs/core/src/exception.cpp"] +
                        [os.path.join(_H, f"c02_typed_{i}.cpp") for i in range(16)] + [os.path.join(_H, "c02_typed_rec.cpp")]}
TIE = ("hand-written position-threading model (FcpptModel/Model/C02.lean) proved equal to the position-free PEG semantics, plus a model "
       "of the typed result plumbing (Model/C02/Typed.lean) proved type-preserving; differential correspondence against grammars built at "
       "run time from the real fcppt::parse templates (universal value) AND against 314 statically typed instantiations (natural result "
       "types: static type + flattened value compared)")
RULE = ("enum: one generated well-formed grammar (<= 3 rules, depth <= 5, every combinator and skipper kind) x ALL inputs over a "
        "3-6 letter alphabet up to length 5-6 (quick) / 7-8 (thorough), char and wchar_t, entry points parse_string / "
        "phrase_parse_string / grammar_parse_string / phrase_parse_stream / grammar_parse_stream (stream offset after success and "
        "failure included); the digest covers success value, failure and fatal flag of every input. tenum: the same for one statically "
        "typed shape (static result type + flattened value). Systematic batches: ALL well-formed terms of depth <= 2 over "
        "seq/alt/rep/opt/not and the nests of save/restore sites, under idempotent and non-idempotent skippers. "
        "An op is non-trivial if at least one input succeeds and one fails; distinct = distinct op lines; evaluations = inputs parsed.")
ASSUMPTIONS = [
    "std::basic_istringstream get/tellg/seekg/clear behave as a random-access character array (C12 models the stream itself)",
    "convert / convert_if functions are pure; the theorems hold for arbitrary function tables",
    "istream >> unsigned short / short on a digit string: value if representable, failure otherwise (num_get, classic locale)",
    "istream >> double on digits '.' digits: the correctly rounded (nearest-even) binary64, failure on overflow (glibc strtod); decToDouble is validated by correspondence, not proved",
    "typed layer: convert / convert_if with user functions have no modelled result type (typeOf = none); statically typed harness shapes are non-recursive (the theorem covers ref under WT)",
]
TRUSTED = ["harness/c02.cpp, the op-line grammar decoder on both sides and the digest/line protocol (vh.hpp, Proto.lean)",
           "g++ 12 + ASan/UBSan as witness for memory safety of the instantiations",
           "fidelity of the hand-written model outside the generated grammars (reviewed line by line against the headers)"]

# ---------------------------------------------------------------------------------------------- generator

LEAF_W = [("lit", 10), ("cset", 8), ("compl", 3), ("any", 3), ("str", 4), ("eps", 2), ("fail", 1)]
NODE_W = [("seq", 16), ("alt", 14), ("rep", 8), ("plus", 5), ("opt", 8), ("not", 5), ("fatal", 6), ("lex", 4),
          ("ign", 2), ("named", 3), ("rec", 2), ("conv", 4), ("cif", 5), ("sep", 5), ("list", 4), ("ref", 7), ("leaf", 14),
          ("con", 2), ("ast", 2), ("cst", 2)]


def pick(rng, table):
    tot = sum(w for _, w in table)
    k = rng.below(tot)
    for name, w in table:
        if k < w:
            return name
        k -= w
    return table[-1][0]


class Gen:
    """Well-formed grammars by construction.

    nullable(p) is a sound over-approximation of "p can succeed without consuming"; rep/plus/sep/list loops are
    only built around an iteration body that is definitely non-nullable; an unguarded `ref:i` (one that can be
    reached before any character was consumed) only points to a higher-numbered rule, so there is no left recursion.
    """

    def __init__(self, rng, alpha, numeric=False, nrules=1, maxdepth=4, stats=None):
        self.rng, self.alpha, self.numeric, self.nrules, self.maxdepth = rng, alpha, numeric, nrules, maxdepth
        self.rule_null = {}
        self.cur = 0
        self.stats = stats if stats is not None else {}
        self.budget = 0

    def count(self, k):
        self.stats[k] = self.stats.get(k, 0) + 1

    def chars(self, lo, hi):
        n = self.rng.range(lo, hi)
        cs = list(self.alpha)
        self.rng.shuffle(cs)
        return "".join(cs[:max(lo, min(n, len(cs)))])

    def leaf(self, want_nonnull=False):
        r = self.rng
        table = LEAF_W + ([("uint", 6), ("int", 6), ("float", 6)] if self.numeric else [])
        while True:
            k = pick(r, table)
            if want_nonnull and k == "eps":
                continue
            break
        self.count(k)
        if k == "lit":
            return "lit:" + r.choice(self.alpha), False
        if k == "cset":
            return "cset:" + self.chars(1, 3), False
        if k == "compl":
            return "compl:" + self.chars(1, 2), False
        if k == "str":
            n = r.range(1 if want_nonnull else 0, 3)
            s = "".join(r.choice(self.alpha) for _ in range(n))
            return "str:" + s, n == 0
        if k in ("any", "fail", "uint", "int", "float"):
            return k, False
        return "eps", True

    def nonnull(self, depth, guarded):
        """an expression that is definitely non-nullable"""
        for _ in range(6):
            e, n = self.gen(depth, guarded)
            if not n:
                return e
        e, _ = self.leaf(want_nonnull=True)
        return e

    def gen(self, depth, guarded):
        """returns (expr, nullable)"""
        r = self.rng
        self.budget -= 1
        if depth <= 0 or self.budget <= 0:
            return self.leaf()
        k = pick(r, NODE_W)
        if k == "leaf":
            return self.leaf()
        if k == "ref":
            # guarded: any rule (recursion), treated as nullable; unguarded: only higher-numbered rules
            cands = list(range(self.nrules)) if guarded else list(range(self.cur + 1, self.nrules))
            if not cands:
                return self.leaf()
            i = r.choice(cands)
            self.count("ref")
            return f"ref:{i}", self.rule_null.get(i, True)
        self.count(k)
        d = depth - 1
        if k == "seq":
            a, na = self.gen(d, guarded)
            b, nb = self.gen(d, guarded or not na)
            return f"seq.{a}.{b}", na and nb
        if k == "alt":
            a, na = self.gen(d, guarded)
            b, nb = self.gen(d, guarded)
            return f"alt.{a}.{b}", na or nb
        if k == "rep":
            return "rep." + self.nonnull(d, guarded), True
        if k == "plus":
            return "plus." + self.nonnull(d, guarded), False
        if k == "opt":
            a, _ = self.gen(d, guarded)
            return "opt." + a, True
        if k == "not":
            a, _ = self.gen(d, guarded)
            return "not." + a, True
        if k in ("fatal", "lex", "ign", "named", "rec"):
            a, na = self.gen(d, guarded)
            return f"{k}.{a}", na
        if k == "conv":
            a, na = self.gen(d, guarded)
            return f"conv:{r.below(3)}.{a}", na
        if k == "con":
            a, na = self.gen(d, guarded)
            return f"con:{20 + r.below(10)}.{a}", na
        if k == "ast":
            a, na = self.gen(d, guarded)
            b, nb = self.gen(d, guarded or not na)
            return f"ast:{30 + r.below(10)}.seq.{a}.{b}", na and nb
        if k == "cst":
            a, na = self.gen(d, guarded)
            c = f"i{r.below(100)}" if r.chance(1, 2) else "c" + r.choice(self.alpha)
            return f"cst:{c}.{a}", na
        if k == "cif":
            j = r.below(3)
            if j == 1:
                a, na = (("rep." + self.nonnull(d, guarded)), True) if r.chance(2, 3) else self.gen(d, guarded)
            elif r.chance(2, 3):
                a, na = r.choice(["any", "cset:" + self.chars(2, 3), "compl:" + self.chars(1, 1)]), False
            else:
                a, na = self.gen(d, guarded)
            return f"cif:{j}.{a}", na
        if k == "sep":
            # -(a >> *(s >> a)) : the loop body s >> a must be non-nullable
            if r.chance(1, 2):
                a = self.nonnull(d, guarded)
                s, _ = self.gen(min(d, 1), True)
            else:
                a, _ = self.gen(d, guarded)
                s = self.nonnull(min(d, 1), True)
            return f"sep.{a}.{s}", True
        if k == "list":
            o, no = (("lit:" + r.choice(self.alpha)), False) if r.chance(3, 4) else self.gen(min(d, 1), guarded)
            g2 = guarded or not no
            if r.chance(1, 2):
                a = self.nonnull(d, g2)
                s, _ = (("lit:" + r.choice(self.alpha)), False) if r.chance(2, 3) else self.gen(min(d, 1), True)
            else:
                a, _ = self.gen(d, g2)
                s = ("lit:" + r.choice(self.alpha)) if r.chance(2, 3) else self.nonnull(min(d, 1), True)
            c, nc = (("lit:" + r.choice(self.alpha)), False) if r.chance(3, 4) else self.gen(min(d, 1), g2)
            return f"list.{o}.{a}.{s}.{c}", no and nc
        raise AssertionError(k)

    def grammar(self):
        rules = [None] * self.nrules
        for i in range(self.nrules - 1, -1, -1):
            self.cur = i
            self.budget = 14 if i == 0 else 9
            depth = self.rng.range(2, self.maxdepth) if i == 0 else self.rng.range(1, max(1, self.maxdepth - 1))
            e, n = self.gen(depth, False)
            rules[i] = e
            self.rule_null[i] = n
        return ";".join(rules)


# ---------------------------------------------------------------------------------------------- typed family

ARITY = {"cif": 1, "conv": 1, "rec": 1, "ref": 0, "copy": 1, "cref": 1, "box": 1, "same": 0, "spc": 0, "blk": 0, "dig": 0, "eps": 0, "fail": 0, "any": 0, "lit": 0, "cset": 0, "compl": 0, "str": 0, "uint": 0, "int": 0, "float": 0,
         "seq": 2, "alt": 2, "rep": 1, "plus": 1, "opt": 1, "not": 1, "fatal": 1, "lex": 1, "ign": 1, "named": 1,
         "sep": 2, "list": 4, "con": 1, "ast": 1, "cst": 1}


def parse_prefix(text):
    """grammar text (one rule, prefix notation) -> nested tuple (name, param, kids)"""
    toks = text.split(".")
    pos = [0]

    def go():
        t = toks[pos[0]]
        pos[0] += 1
        name, _, param = t.partition(":")
        kids = [go() for _ in range(ARITY[name])]
        return (name, param, kids)

    r = go()
    assert pos[0] == len(toks), text
    return r


def shape_cpp(node, decls=None):
    """the C++ expression of a shape: the real combinators with their natural result types.
    decls collects `auto vN = <parser>;` statements: `copy.X` hands the enclosing combinator a copy of a named parser
    object (lvalue operands themselves are not accepted by the library, notes/C02.md), `cref.X` an fcppt::reference to
    it, `box.X` a base_unique_ptr (make_base), `same` the very same object as the preceding operand."""
    name, param, kids = node
    if decls is None:
        decls = []
    if name in ("copy", "cref"):
        inner = shape_cpp(kids[0], decls)
        v = f"v{len(decls)}"
        decls.append(f"auto const {v} = {inner};")
        return f"std::remove_cvref_t<decltype({v})>{{{v}}}" if name == "copy" else f"fcppt::make_cref({v})"
    if name == "box":
        return f"box<Ch>({shape_cpp(kids[0], decls)})"
    k = []
    for x in kids:
        if x[0] == "same":
            assert k and (k[-1].startswith("std::remove_cvref_t<decltype(v") or k[-1].startswith("fcppt::make_cref(v")), node
            k.append(k[-1])
        else:
            k.append(shape_cpp(x, decls))
    if name in ("spc", "blk"):
        fn = "space" if name == "spc" else "blank"
        return f"fp::basic_char_set<Ch>{{fp::{fn}_set<Ch>()}}"
    if name == "dig":
        return "fp::digits<Ch>()"
    if name == "eps":
        return "fp::epsilon{}"
    if name == "fail":
        return "fp::fail<fcppt::unit>{}"
    if name == "any":
        return "any<Ch>()"
    if name == "lit":
        return f"lit<Ch>('{param}')"
    if name == "cset":
        return f'cs<Ch>("{param}")'
    if name == "compl":
        return f'(~cs<Ch>("{param}"))'
    if name == "str":
        return f'str<Ch>("{param}")'
    if name == "uint":
        return "fp::uint<unsigned short>{}"
    if name == "int":
        return "fp::int_<short>{}"
    if name == "float":
        return "fp::float_<double>{}"
    if name == "seq":
        return f"({k[0]} >> {k[1]})"
    if name == "alt":
        return f"({k[0]} | {k[1]})"
    if name == "rep":
        return f"(*{k[0]})"
    if name == "plus":
        return f"(+{k[0]})"
    if name == "opt":
        return f"(-{k[0]})"
    if name == "not":
        return f"(!{k[0]})"
    if name == "fatal":
        return f"fp::make_fatal({k[0]})"
    if name == "lex":
        return f"fp::make_lexeme({k[0]})"
    if name == "ign":
        return f"fp::make_ignore({k[0]})"
    if name == "named":
        return f"nm<Ch>({k[0]})"
    if name == "sep":
        return f"fp::separator{{{k[0]}, {k[1]}}}"
    if name == "list":
        return f"fp::list{{{k[0]}, {k[1]}, {k[2]}, {k[3]}}}"
    if name == "con":
        return f"con<{int(param)}>({k[0]})"
    if name == "ast":
        return f"ast<{int(param)}>({k[0]})"
    if name == "cst":
        if param[0] == "i":
            return f"fp::convert_const{{{k[0]}, short{{{int(param[1:])}}}}}"
        if param[0] == "s":
            return f'fp::convert_const{{{k[0]}, cstr<Ch>("{param[1:]}")}}'
        return f"fp::convert_const{{{k[0]}, chr<Ch>('{param[1]}')}}"
    raise AssertionError(name)


def typed_shapes():
    """[(grammar text, alphabet, also_wide)] — systematic over the cases of sequence_result / alternative_result /
    repetition_result; every operand is selectable by its own character so that all branches are reached.
    also_wide: the shape is instantiated for wchar_t (under a literal skipper) as well as for char."""
    out = []
    seen = set()

    def add(g, alpha="abc", wide=None):
        if g in seen:
            return
        seen.add(g)
        if wide is None:      # everything with a string / number in it, and every third of the rest
            wide = any(t in g for t in ("plus.cset", "rep.cset", "str", "uint", "int", "float")) or len(out) % 3 == 0
        out.append((g, alpha, wide))

    U, C, S, OU, T2, VU = "lit:a", "cset:bc", "plus.cset:c", "opt.lit:b", "seq.cset:a.cset:b", "plus.lit:a"
    # 1. sequence of two parts: every pair of operand classes (unit / char / string / optional / tuple / vector)
    parts2 = [U, C, S, OU, T2, VU]
    for x in parts2:
        for y in parts2:
            add(f"seq.{x}.{y}")
    # 2./3. three and four parts over {unit, char}: both groupings; plus a tuple / string / optional in every position
    uc = ["lit:a", "cset:bc"]
    for x in uc:
        for y in uc:
            for z in uc:
                add(f"seq.seq.{x}.{y}.{z}")
                add(f"seq.{x}.seq.{y}.{z}")
                for w in uc:
                    add(f"seq.seq.seq.{x}.{y}.{z}.{w}")
                    add(f"seq.seq.{x}.{y}.seq.{z}.{w}")
    for i in range(3):
        for special in (T2, S, OU):
            ps = ["cset:bc", "lit:a", "cset:ab"]
            ps[i] = special
            add(f"seq.seq.{ps[0]}.{ps[1]}.{ps[2]}")
            add(f"seq.{ps[0]}.seq.{ps[1]}.{ps[2]}")
    add("seq.seq.cset:a.cset:b.seq.cset:b.cset:c")        # tuple >> tuple
    add("seq.lit:a.seq.lit:b.lit:c")                      # all units
    add("seq.eps.cset:a"), add("seq.cset:a.eps"), add("seq.eps.eps"), add("seq.str:ab.cset:c"), add("seq.opt.cset:b.str:ab")
    # 4. alternatives: pairs, nested triples (both groupings), merges of two variants
    alts = ["lit:a", "cset:b", "plus.cset:c", "lit:c", "seq.cset:a.cset:b"]
    for x in alts:
        for y in alts:
            add(f"alt.{x}.{y}")
    tri = ["lit:a", "cset:b", "plus.cset:c"]
    for x in tri:
        for y in tri:
            for z in tri:
                add(f"alt.alt.{x}.{y}.{z}")
                add(f"alt.{x}.alt.{y}.{z}")
    for g in ("alt.alt.lit:a.cset:b.lit:c", "alt.lit:a.alt.cset:b.lit:c", "alt.alt.lit:a.lit:c.cset:b", "alt.lit:a.alt.lit:c.cset:b",
              "alt.alt.cset:b.lit:a.cset:c", "alt.cset:b.alt.lit:a.cset:c"):
        add(g)
    for l in ("alt.cset:a.lit:b", "alt.lit:b.cset:a"):
        for r in ("alt.lit:c.cset:b", "alt.cset:c.lit:a", "alt.plus.cset:c.cset:b", "alt.lit:c.lit:a"):
            add(f"alt.{l}.{r}")
    add("alt.seq.cset:a.cset:b.seq.cset:b.cset:a")        # the same tuple type twice: stays a tuple
    add("alt.opt.cset:a.cset:b")                          # optional | char (left nullable)
    add("alt.fail.cset:a"), add("alt.cset:a.fail")
    # 5. repetition / repetition_plus / optional over every element class
    elems = ["lit:a", "cset:ab", "seq.lit:a.cset:b", "seq.cset:a.cset:b", "seq.plus.cset:a.lit:b",
             "seq.opt.cset:a.lit:b", "alt.cset:a.lit:b", "seq.lit:a.lit:b", "plus.cset:c"]
    for e in elems:
        add(f"rep.{e}")
        add(f"opt.{e}")
        if e != "seq.cset:a.cset:b":               # +p of a tuple-typed p does not instantiate (notes/C02.md)
            add(f"plus.{e}")
    add("opt.opt.cset:a"), add("opt.rep.cset:a"), add("rep.seq.cset:a.opt.cset:b"), add("plus.seq.lit:a.opt.lit:b")
    add("seq.rep.cset:a.rep.cset:b"), add("seq.plus.lit:a.plus.cset:b")
    # 6. wrappers keep / drop the type
    for w in ("fatal", "lex", "named", "ign"):
        for e in ("cset:ab", "seq.cset:a.cset:b", "lit:a"):
            add(f"{w}.{e}")
    add("not.lit:a"), add("not.ign.cset:ab"), add("not.str:ab")       # not_ static_asserts a unit-typed operand
    add("seq.not.lit:a.cset:ab"), add("seq.cset:ab.not.lit:a"), add("alt.fatal.seq.cset:a.cset:b.cset:a")
    add("compl:a"), add("any"), add("str:ab"), add("eps"), add("fail")
    # 7. separator / list: always a vector of the inner type (never a string)
    for e in ("cset:ab", "lit:a", "seq.cset:a.cset:b", "plus.cset:a", "seq.lit:a.cset:b", "opt.cset:a"):
        add(f"sep.{e}.lit:c")
        add(f"list.lit:c.{e}.lit:b.lit:c")
    add("sep.cset:ab.str:cc"), add("seq.sep.cset:a.lit:b.cset:c"), add("list.str:ab.cset:c.lit:b.str:ba")
    # 8. construct / as_struct / convert_const
    for e in ("cset:ab", "plus.cset:a", "seq.cset:a.cset:b", "lit:a", "opt.cset:a", "alt.cset:a.lit:b"):
        add(f"con:21.{e}")
    for e in ("seq.cset:a.cset:b", "seq.cset:a.seq.rep.cset:b.opt.cset:c", "seq.seq.cset:a.lit:b.cset:c",
              "seq.cset:a.seq.lit:b.seq.cset:b.cset:c"):
        add(f"ast:31.{e}")
    add("cst:i7.lit:a"), add("cst:cx.lit:a"), add("cst:i7.str:ab"), add("cst:i7.not.lit:a")
    add("alt.cst:i1.lit:a.cst:i2.lit:b"), add("alt.cst:i1.lit:a.cset:b"), add("seq.cst:i1.lit:a.cst:cx.lit:b")
    add("rep.cst:i3.lit:a"), add("opt.cst:cx.lit:a")
    add("seq.con:21.cset:a.ast:31.seq.cset:b.cset:c"), add("ast:32.seq.con:21.cset:a.cset:b")
    add("alt.con:21.cset:a.con:22.cset:b"), add("alt.con:21.cset:a.con:21.cset:a"), add("rep.ast:31.seq.cset:a.cset:b")
    add("seq.con:21.cset:a.con:21.cset:a")
    # 10. how an operand is handed over (is_valid_argument: by value, by fcppt::reference, by unique_ptr), lvalues, and
    #     the SAME parser object used twice; a convert_const constant that owns memory, used repeatedly
    for g in ("seq.copy.cset:a.copy.lit:b", "seq.cref.cset:a.cref.plus.cset:b", "seq.box.cset:a.box.lit:b", "alt.box.cset:a.copy.lit:b",
              "alt.cref.plus.cset:a.box.cset:b", "rep.cref.cset:a", "rep.box.seq.lit:a.cset:b", "plus.box.lit:a", "plus.cref.cset:a",
              "plus.copy.seq.lit:a.cset:b", "opt.copy.cset:a", "opt.box.seq.cset:a.cset:b", "not.cref.lit:a", "not.box.str:ab",
              "sep.box.cset:a.cref.lit:b", "sep.cref.cset:a.copy.lit:b", "list.copy.lit:a.cref.cset:b.box.lit:c.copy.lit:a",
              "con:21.cref.cset:a", "ast:31.box.seq.cset:a.cset:b", "ast:31.cref.seq.cset:a.plus.cset:b", "fatal.cref.cset:a",
              "lex.box.cset:a", "cst:i7.cref.lit:a", "cst:i7.box.lit:a", "named.box.cset:a", "named.cref.seq.cset:a.cset:b",
              "ign.cref.cset:a", "ign.box.plus.cset:a",
              "seq.cref.cset:ab.same", "seq.copy.plus.cset:a.same", "alt.cref.lit:a.same", "alt.cref.cset:ab.same",
              "sep.cref.lit:a.same", "seq.seq.cref.cset:ab.same.cset:c", "rep.seq.cref.cset:ab.same",
              "rep.cst:sab.lit:c", "plus.cst:sab.lit:b", "seq.cst:sab.lit:a.cst:sab.lit:b", "sep.cst:sa.lit:a.lit:b",
              "alt.cst:sab.lit:a.plus.cset:c", "cst:s.lit:a", "spc", "blk", "dig", "rep.dig"):
        # a boxed parser is committed to its world's skipper: under lexeme (which passes epsilon) only in the epsilon world
        add(g, "abc", wide=(g != "lex.box.cset:a"))
    # 9. numbers
    for g in ("uint", "int", "seq.uint.lit:a", "seq.opt.lit:a.int", "alt.uint.int", "alt.int.uint", "rep.seq.uint.lit:a",
              "sep.int.lit:a", "seq.uint.uint"):
        add(g, "1-a9")
    for g in ("float", "seq.float.lit:a", "alt.float.uint", "opt.float"):
        add(g, "1!-a")
    return out


TYPED_CHUNKS = 16
HDIR = os.path.normpath(os.path.join(os.path.dirname(os.path.abspath(__file__)), "..", "harness"))


def gen_typed_files():
    """{file name under harness/: content}: the table and the TYPED_CHUNKS translation units of the typed family"""
    shapes = typed_shapes()
    files = {"c02_typed_table.inc": "// GENERATED by props/c02.py gen_typed_files()\n" +
             "".join(f"C02_TYPED_CHUNK({i})\n" for i in range(TYPED_CHUNKS))}
    for i in range(TYPED_CHUNKS):
        lines = ["// GENERATED by props/c02.py gen_typed_files() — do not edit; regenerate with",
                 "//   python3 -c 'import props.c02 as c; c.write_typed_files()'",
                 '#include "c02_typed.hpp"', "", "namespace c02typed", "{",
                 f"bool chunk_{i}(unsigned const _world, wchar_t const _skip, std::string const &_grammar, top const &_op, std::string &_result)",
                 "{"]
        for g, _, wide in shapes[i::TYPED_CHUNKS]:
            node = parse_prefix(g)
            lines.append(f'  if (_grammar == "{g}")')
            lines.append("  {")
            decls = []
            expr = shape_cpp(node, decls)
            for ch, cond in (("char", "_world == 0"), ("wchar_t", "_world == 1")):
                if ch == "wchar_t" and not wide:
                    continue
                lines.append(f"    if ({cond})")
                lines.append("    {")
                lines.append(f"      using Ch = {ch};")
                for d in decls:
                    lines.append("      " + d)
                lines.append(f"      run_shape<Ch>(_world, _skip, {expr}, _op, _result);")
                lines.append("    }")
            lines.append("    return true;")
            lines.append("  }")
        lines += ["  return false;", "}", "}", ""]
        files[f"c02_typed_{i}.cpp"] = "\n".join(lines)
    return files


def write_typed_files():
    for name, content in gen_typed_files().items():
        open(os.path.join(HDIR, name), "w").write(content)


def typed_files_current():
    for name, content in gen_typed_files().items():
        try:
            if open(os.path.join(HDIR, name)).read() != content:
                return False
        except OSError:
            return False
    return True


SKIPS = {
    # skipper token -> extra alphabet characters it needs
    "E": "", "S": "_", "Rx": "x", "Lx": "x", "Qxy": "xy", "Qx": "x", "Cxy": "xy", "R_/": "_/", "Rab": "",
}


def n_inputs(k, maxlen):
    return sum(k ** i for i in range(maxlen + 1))


def weight(op):
    t = op.split()
    if t[0] in ("enum", "tenum"):
        return n_inputs(len(t[4]) - 1, int(t[5]))
    return 1


def nontrivial(op, result):
    t = op.split()
    if t[0] not in ("enum", "tenum"):
        return True
    f = dict(x.split("=") for x in result.split()[2:] if "=" in x)
    return int(f.get("ok", 0)) > 0 and int(f.get("fail", 0)) + int(f.get("fatal", 0)) > 0


def equivalent(op, impl, model):
    # the harness bounds the nesting of rule calls (left recursion would overflow the C++ stack): same as out of fuel
    return impl == "exc:depth" and model == "diverge"


def all_strings(alpha, maxlen):
    out = [""]
    layer = [""]
    for _ in range(maxlen):
        layer = [p + c for p in layer for c in alpha]
        out += layer
    return out


def refine(op):
    t = op.split()
    if t[0] not in ("enum", "tenum"):
        return None
    alpha, maxlen = t[4][1:], int(t[5])
    one = "run" if t[0] == "enum" else "typed"
    return [f"{one} {t[1]} {t[2]} {t[3]} ={s}" for s in all_strings(alpha, maxlen)]


def make_ops(rng, count, maxlen_small, maxlen_big, stats, sk_choices, numeric=False, wide_share=3):
    ops = []
    for _ in range(count):
        sk = rng.choice(sk_choices)
        if numeric:
            base = rng.choice(["19-", "356", "07a", "-12", "32768", "1!-", "05!", "!27"])
        else:
            base = rng.choice(["abc", "abc", "ab", "abcd", "ab@"])
        extra = "".join(c for c in SKIPS[sk] if c not in base)
        alpha = base + extra
        wide = rng.chance(1, wide_share)
        if "@" in alpha and not wide:
            alpha = alpha.replace("@", "c")
        gen_alpha = [c for c in alpha]
        nrules = rng.choice([1, 1, 2, 3])
        g = Gen(rng, gen_alpha, numeric=numeric, nrules=nrules, maxdepth=rng.choice([3, 4, 4, 5]), stats=stats)
        gr = g.grammar()
        # p/h/g: the string entry points (consume_remaining); s/r: the stream entry points (the offset the stream is left
        # at, after success and after failure, is part of the answer)
        # q: fcppt::parse::parse on a basic_stream, t: parse_stream (both epsilon only)
        entry = rng.choice(["p", "h", "g", "s", "r", "q", "t"]) if sk == "E" else rng.choice(["h", "g", "s", "r"])
        maxlen = maxlen_big if len(alpha) <= 3 else maxlen_small
        while n_inputs(len(alpha), maxlen) > 12000 and maxlen > 3:
            maxlen -= 1
        stats["sk:" + sk[0]] = stats.get("sk:" + sk[0], 0) + 1
        stats["ch:" + ("w" if wide else "c")] = stats.get("ch:" + ("w" if wide else "c"), 0) + 1
        stats["entry:" + entry] = stats.get("entry:" + entry, 0) + 1
        ops.append(f"enum {'w' if wide else 'c'}{entry} {sk} {gr} ={alpha} {maxlen}")
    return ops


def fmt_stats(stats):
    return " ".join(f"{k}={v}" for k, v in sorted(stats.items()))


# ---------------------------------------------------------------------------------------------- systematic families

def sys_nullable(node):
    n, _, k = node
    if n in ("eps", "rep", "opt", "not", "sep", "ref"):
        return True
    if n in ("lex", "named", "ign", "cif", "conv", "con", "cst", "rec"):
        return sys_nullable(k[0])
    if n == "list":
        return sys_nullable(k[0]) and sys_nullable(k[3])
    if n == "str":
        return node[1] == ""
    if n == "seq":
        return sys_nullable(k[0]) and sys_nullable(k[1])
    if n == "alt":
        return sys_nullable(k[0]) or sys_nullable(k[1])
    if n in ("fatal", "plus"):
        return sys_nullable(k[0])
    return False


def sys_wf(node):
    n, _, k = node
    if n in ("rep", "plus") and sys_nullable(k[0]):
        return False
    if n == "sep" and sys_nullable(k[0]) and sys_nullable(k[1]):
        return False
    if n == "list" and sys_nullable(k[1]) and sys_nullable(k[2]):
        return False
    return all(sys_wf(x) for x in k)


def small_terms():
    """ALL parser terms of depth <= 2 over {seq, alt, rep, opt, not} and the leaves 'a', "ab", any that are well-formed:
    every way two save/restore sites (alternative, optional, not_, repetition) can be nested or be siblings"""
    leaves = ["lit:a", "str:ab", "any"]
    d1 = list(leaves)
    for u in ("rep", "opt", "not"):
        d1 += [f"{u}.{x}" for x in leaves]
    for b in ("seq", "alt"):
        d1 += [f"{b}.{x}.{y}" for x in leaves for y in leaves]
    d2 = list(d1)
    for u in ("rep", "opt", "not"):
        d2 += [f"{u}.{x}" for x in d1 if x not in leaves]
    for b in ("seq", "alt"):
        d2 += [f"{b}.{x}.{y}" for x in d1 for y in d1 if not (x in leaves and y in leaves)]
    return [g for g in d2 if sys_wf(parse_prefix(g))]


def interplay_terms():
    """two-step save/restore interplay, depth 3-5: an alternative inside a repetition inside an optional followed by a sibling
    that must start where the nest stopped; not_ around consuming parsers (single characters, strings, sequences, loops)
    followed by a sibling that must see the original position; partial consumption + fatal at every such site"""
    cons = ["lit:a", "str:ab", "any", "seq.lit:a.lit:b", "seq.any.lit:b"]          # consuming, non-nullable
    out = []
    for x in cons:
        for y in cons:
            for z in ("lit:a", "str:ab", "any"):
                out.append(f"seq.opt.rep.alt.{x}.{y}.{z}")
    for x in cons[:4]:
        for y in cons[:4]:
            out.append(f"opt.rep.alt.{x}.{y}")
            out.append(f"rep.alt.seq.{x}.{y}.lit:b")
            out.append(f"seq.rep.alt.seq.{x}.{y}.any.lit:a")
            out.append(f"opt.seq.{x}.rep.alt.{y}.lit:b")
    looks = cons + ["rep.lit:a", "plus.lit:a", "opt.str:ab", "alt.str:ab.lit:a", "not.lit:a"]
    for w in ("eps", "lit:a", "opt.lit:a", "rep.lit:b"):
        for x in looks:
            for y in ("lit:a", "str:ab", "any", "seq.lit:a.lit:b"):
                out.append(f"seq.seq.{w}.not.{x}.{y}")
    for x in looks:
        for y in ("lit:a", "str:ab", "any"):
            out.append(f"rep.seq.not.{x}.{y}")
            out.append(f"alt.seq.not.{x}.{y}.any")
            out.append(f"opt.seq.not.not.{x}.{y}")
    lv = ["lit:a", "str:ab", "any"]
    for x in lv:
        for y in lv:
            out.append(f"opt.seq.{x}.fatal.{y}")
            out.append(f"rep.seq.{x}.fatal.{y}")
            out.append(f"seq.not.seq.{x}.fatal.{y}.any")
            out.append(f"seq.not.fatal.{x}.{y}")
            for z in lv:
                out.append(f"alt.seq.{x}.fatal.{y}.{z}")
                out.append(f"alt.{x}.seq.{y}.fatal.{z}")
                out.append(f"alt.opt.seq.{x}.fatal.{y}.{z}")
                out.append(f"rep.alt.seq.{x}.fatal.{y}.{z}")
    # lexeme at every place relative to a sequence / repetition (the skipper is off inside, on again outside)
    for x in cons:
        for y in lv:
            out += [f"lex.seq.{x}.{y}", f"seq.lex.seq.{x}.{y}.lit:a", f"seq.{y}.lex.seq.{x}.{y}", f"rep.lex.seq.{x}.{y}",
                    f"lex.rep.seq.{x}.{y}", f"seq.lex.rep.{x}.{y}", f"seq.{x}.lex.rep.{y}", f"alt.lex.seq.{x}.{y}.seq.{x}.{y}",
                    f"lex.seq.{x}.lex.{y}", f"opt.lex.seq.{x}.fatal.{y}"]
    # the derived combinators: separator / list / plus with consuming and with failing-late parts, and a sibling behind them
    for x in cons:
        for y in cons[:4]:
            out += [f"sep.{x}.{y}", f"seq.sep.{x}.{y}.lit:b", f"seq.sep.{x}.{y}.any", f"seq.plus.{x}.{y}", f"alt.plus.seq.{x}.{y}.{x}"]
    for x in cons[:4]:
        for sp in ("lit:b", "str:ab", "any"):
            out += [f"list.lit:a.{x}.{sp}.lit:b", f"list.lit:a.{x}.{sp}.lit:a", f"seq.list.any.{x}.{sp}.lit:a.any",
                    f"list.str:ab.{x}.{sp}.str:ab", f"rep.list.lit:a.{x}.{sp}.lit:b", f"list.lit:a.{x}.{sp}.fatal.lit:b",
                    f"list.lit:a.fatal.{x}.{sp}.lit:b"]
    # named keeps errors and the fatal flag; convert_if: a non-fatal and a FATAL failure produced by the user function
    for x in lv:
        for y in lv:
            out += [f"alt.named.fatal.{x}.{y}", f"alt.named.seq.{x}.fatal.{y}.any", f"opt.named.seq.{x}.fatal.{y}", f"rep.named.seq.{x}.{y}",
                    f"not.named.fatal.{x}", f"alt.seq.{x}.cif:2.any.{y}", f"opt.seq.{x}.cif:2.any", f"rep.seq.{x}.cif:2.any",
                    f"seq.not.seq.{x}.cif:2.any.{y}", f"alt.seq.{x}.cif:0.any.{y}", f"rep.cif:0.any", f"alt.cif:1.rep.{x}.{y}",
                    f"seq.cst:i7.{x}.con:21.{y}", f"alt.ast:31.seq.{x}.{y}.{y}"]
    # recursion: right recursion, nesting a^n b^n, mutual recursion, recursion through not_ / optional / repetition, make_recursive
    out += ["alt.seq.lit:a.ref:0.eps", "seq.lit:a.opt.ref:0", "alt.seq.lit:a.seq.ref:0.lit:b.eps", "alt.seq.lit:a.seq.ref:0.lit:b.str:ab",
            "seq.lit:a.ref:1;alt.seq.lit:b.ref:0.eps", "seq.any.rep.ref:1;seq.lit:b.opt.ref:0", "seq.lit:a.rec.opt.ref:0",
            "alt.seq.lit:a.seq.not.ref:0.any.lit:b", "seq.lit:a.alt.ref:0.fatal.lit:b", "seq.lit:a.rep.seq.lit:b.ref:0",
            "list.lit:a.ref:0.lit:b.lit:a", "seq.str:ab.sep.ref:0.lit:a", "alt.seq.lit:a.ref:1.lit:b;alt.seq.lit:b.ref:2.lit:a;opt.seq.any.ref:0"]
    seen, res = set(), []
    for g in out:
        if g not in seen and all(sys_wf(parse_prefix(r)) for r in g.split(";")):
            seen.add(g)
            res.append(g)
    return res


# non-idempotent skippers: every call of `Lx` / `Cx` consumes exactly one 'x' (and fails without one), `Qx` one 'x' and then
# nothing more; `Rx` is the idempotent reference; `E` none
SYS_SKIPS = ["E", "Lx", "Cx", "Qx", "Rx"]


def sys_ops(terms, maxlen, skips, stride=1, offset=0):
    ops = []
    i = 0
    for g in terms:
        for sk in skips:
            i += 1
            if (i + offset) % stride:
                continue
            # the stream entry points show the position after success AND after failure; the string ones consume_remaining
            e = ("s", "h", "r", "g")[i % 4] if sk != "E" else ("s", "p", "t", "g", "q", "h", "r")[i % 7]
            alpha = "ab" if sk == "E" else "abx"
            ml = maxlen + 1 if sk == "E" else maxlen
            ops.append(f"enum c{e} {sk} {g} ={alpha} {ml}")
    return ops


REC_GRAMMAR = "con:21.list.lit:x.ref:1.lit:y.lit:z;seq.seq.plus.cset:abc.lit:e.rec.ref:0"


def typed_ops(maxlen):
    # the hand-written recursive typed grammar (harness/c02_typed_rec.cpp): all inputs over {a,e,x,y,z} resp. + the skipper's s
    ops = [f"tenum cg E {REC_GRAMMAR} =aexyz {maxlen + 2}", f"tenum wg Ls {REC_GRAMMAR} =aexyzs {maxlen + 1}",
           f"typed cg E {REC_GRAMMAR} =xabexzycexaexzzz", f"typed cg E {REC_GRAMMAR} =xaexbexcexzzzyaexzz",
           f"typed wg Ls {REC_GRAMMAR} =sxsassesxszssz", f"typed wg Ls {REC_GRAMMAR} =sxsassesxsassesxszsszssz",
           f"typed wg Ls {REC_GRAMMAR} =sxsassesxszsz"]
    for i, (g, alpha, wide) in enumerate(typed_shapes()):
        ops.append(f"tenum c{'ph'[i % 2]} E {g} ={alpha} {maxlen}")
        if wide:
            ops.append(f"tenum wh Lx {g} ={alpha}x {maxlen - 1}")
    return ops


def numeric_long_ops(rng, count):
    """float_ / uint / int_ on inputs the enumerations cannot reach: long digit strings, leading zeros, values at and next to
    the rounding boundaries of binary64 (exact doubles, exact midpoints between neighbours = ties, one decimal digit more)"""
    import struct
    from decimal import Decimal, getcontext
    getcontext().prec = 2000
    ops = []

    def dec(x):
        t = format(x, "f")
        if "." not in t:
            t += ".0"
        return t.replace(".", "!")

    for i in range(count):
        k = i % 6
        if k == 0:      # random long digits
            a = "".join(rng.choice("0123456789") for _ in range(rng.range(1, 25)))
            b = "".join(rng.choice("0123456789") for _ in range(rng.range(1, 25)))
            t = ("-" if rng.chance(1, 3) else "") + a + "!" + b
        elif k in (1, 2, 3):   # a random finite double, its upper neighbour, the midpoint (tie) and one digit around it
            e = rng.range(1023 - 70, 1023 + 70)
            m = rng.below(1 << 52)
            bits = (e << 52) | m
            d = Decimal(struct.unpack("<d", struct.pack("<Q", bits))[0])
            up = Decimal(struct.unpack("<d", struct.pack("<Q", bits + 1))[0])
            mid = (d + up) / 2
            t = dec([d, mid, mid][k - 1])
            if k == 3:
                t += rng.choice("0159") + rng.choice("01")      # just above the tie (or still the tie with 00)
            if k == 2 and rng.chance(1, 2):                   # just below the tie: last digit one less, then 9s
                u = t.rstrip("0")
                if u[-1] not in "!0":
                    t = u[:-1] + str(int(u[-1]) - 1) + "99"
        elif k == 4:
            z = "0" * rng.range(0, 12)
            n = rng.choice([65535, 65536, 65534, 0, 1, 99999, 655350, 4294967295, 4294967296, 18446744073709551616, rng.below(70000)])
            ops.append(f"run c{rng.choice('ph')} E uint ={z}{n}")
            continue
        else:
            z = "0" * rng.range(0, 12)
            n = rng.choice([32767, 32768, 32769, 0, 1, 65535, 65536, 2147483648, 9223372036854775808, rng.below(40000)])
            ops.append(f"run c{rng.choice('ph')} E int ={rng.choice(['', '-'])}{z}{n}")
            continue
        ce = rng.choice(["cp", "ch", "wp", "cs"])
        ops.append(f"run {ce} E float ={t}")
    return ops


def batches(rng, tier):
    thorough = tier == "thorough"
    if not typed_files_current():
        raise RuntimeError("harness/c02_typed_*.cpp are stale: python3 -c 'import props.c02 as c; c.write_typed_files()'")
    yield Batch("typed-shapes", typed_ops(6 if thorough else 5), exhaustive=True,
                note=f"{len(typed_shapes())} statically typed grammars (natural result types of the real templates): static type + "
                     "flattened value of every input over the alphabet; char/epsilon and wchar_t/literal-skipper worlds")
    st_terms = small_terms()
    yield Batch("save-restore-depth2", sys_ops(st_terms, 6 if thorough else 5, SYS_SKIPS, stride=1 if thorough else 2,
                                               offset=rng.below(2)), exhaustive=thorough,
                note=f"ALL {len(st_terms)} well-formed terms of depth <= 2 over seq/alt/rep/opt/not and 3 leaves x 5 skippers "
                     "(3 of them non-idempotent) x all inputs; quick: every second (term, skipper) pair, alternating with the seed")
    it = interplay_terms()
    yield Batch("save-restore-interplay", sys_ops(it, 6 if thorough else 5, SYS_SKIPS), exhaustive=True,
                note=f"{len(it)} nests (alt in rep in opt + sibling, not_ around consuming parsers + sibling, fatal at every "
                     "partial-consumption site) x 5 skippers x all inputs, stream and string entry points alternating")
    yield Batch("numeric-long", numeric_long_ops(rng.fork("numlong"), 6000 if thorough else 900), exhaustive=False,
                note="float_<double> on long random digit strings, exact doubles, exact ties between neighbouring doubles and one digit "
                     "around them (round-to-nearest-even); uint / int_ with leading zeros and far beyond the range")
    small, big = (6, 8) if thorough else (5, 6)
    mult = 16 if thorough else 4
    st = {}
    ops = make_ops(rng.fork("eps"), 220 * mult, small, big, st, ["E"])
    yield Batch("grammars-no-skipper", ops, exhaustive=False,
                note="generated grammars, skipper epsilon, all inputs up to the length bound; node mix: " + fmt_stats(st))
    st = {}
    ops = make_ops(rng.fork("skip"), 260 * mult, small, big, st, ["S", "S", "Rx", "Lx", "Qxy", "Qx", "Cxy", "R_/", "Rab"])
    yield Batch("grammars-skippers", ops, exhaustive=False,
                note="generated grammars under every skipper kind (space, *char_set, literal, literal >> *char_set, char_set); node mix: " + fmt_stats(st))
    st = {}
    ops = make_ops(rng.fork("num"), 90 * mult, small, big, st, ["E", "S", "Lx", "E"], numeric=True)
    yield Batch("grammars-numeric", ops, exhaustive=False,
                note="grammars containing uint<unsigned short> / int_<short> over digit alphabets (overflow boundaries 65535/65536, 32767/32768); node mix: " + fmt_stats(st))


MANIFEST = {
    "level_text": ("Machine-checked proof (Lean 4): an executable model that threads a stream position through the parse exactly as the "
                   "fcppt.parse headers do (get_position/set_position in alternative, optional, not_, repetition; skipper calls in "
                   "phrase_parse, sequence, repetition; is_fatal tests) is proved, for all grammars (recursive ones included), skippers, "
                   "inputs, start positions and fuel, to compute the position-free PEG semantics (run_refines), which is proved sound "
                   "and complete for the documented big-step relation Derives; derivations are unique (derives_functional); the "
                   "clauses of the property (ordered choice with rewind, greedy never-failing repetition/optional unless fatal, "
                   "skipper between sequence parts, not_ consumes nothing, fatal stops backtracking, string entry points succeed iff "
                   "everything was consumed) are theorems. The model is tied to the code by a differential correspondence over "
                   "generated well-formed grammars built from the real templates, each run on all inputs over a small alphabet."),
    "level_note": ("Trusted: Lean kernel + propext/Classical.choice/Quot.sound; model fidelity outside the generated grammars; harness and "
                   "protocol; std::istringstream as a character array; the decimal->binary64 conversion of float_ (executable model validated "
                   "by correspondence, not proved). The typed result plumbing (unit dropping, tuple/variant flattening, string-vs-vector) is "
                   "modelled and proved type-preserving (typed_value_inhabits) and compared on 314 statically typed grammars; termination is proved for every grammar that is well-formed under some ranking of its rules (wf_total: no left recursion, no repetition of a nullable body; recursive grammars included). "
                   "No sorry/axiom/native_decide."),
    "technique": "Lean 4 proof over hand-written executable model (refinement + big-step semantics) + differential correspondence (ASan/UBSan harness, exhaustive inputs per generated grammar)",
    "design_ref": "DESIGN.md §5 C02, Appendix A.1",
}
